package wgen

// ExprSlots returns pointers to the direct sub-expression slots of e (for in-place rewriting).
func ExprSlots(e Expr) []*Expr {
	switch e := e.(type) {
	case *Materialize:
		return []*Expr{&e.X}
	case *Paren:
		return []*Expr{&e.X}
	case *Unary:
		return []*Expr{&e.X}
	case *Binary:
		return []*Expr{&e.L, &e.R}
	case *CallE:
		return slotsOf(e.Args)
	case *Builtin:
		return slotsOf(e.Args)
	case *Cons:
		return slotsOf(e.Args)
	case *Index:
		return []*Expr{&e.X, &e.I}
	case *Field:
		return []*Expr{&e.X}
	case *Swiz:
		return []*Expr{&e.X}
	case *AddrOf:
		return []*Expr{&e.X}
	case *Deref:
		return []*Expr{&e.X}
	}
	return nil
}

func slotsOf(a []Expr) []*Expr {
	r := make([]*Expr, len(a))
	for i := range a {
		r[i] = &a[i]
	}
	return r
}

// StmtExprSlots returns pointers to the expression slots directly held by a statement (not nested statements).
func StmtExprSlots(s Stmt) []*Expr {
	switch s := s.(type) {
	case *VarDecl:
		if s.Init != nil {
			return []*Expr{&s.Init}
		}
	case *Assign:
		if s.LHS != nil {
			return []*Expr{&s.LHS, &s.RHS}
		}
		return []*Expr{&s.RHS}
	case *IncDec:
		return []*Expr{&s.LHS}
	case *If:
		return []*Expr{&s.Cond}
	case *Switch:
		r := []*Expr{&s.Sel}
		for i := range s.Cases {
			r = append(r, slotsOf(s.Cases[i].Sels)...)
		}
		return r
	case *Loop:
		if s.BreakIf != nil {
			return []*Expr{&s.BreakIf}
		}
	case *For:
		if s.Cond != nil {
			return []*Expr{&s.Cond}
		}
	case *While:
		return []*Expr{&s.Cond}
	case *Return:
		if s.X != nil {
			return []*Expr{&s.X}
		}
	case *CallS:
		return slotsOf(s.C.Args)
	case *BuiltinS:
		return slotsOf(s.B.Args)
	case *ConstAssert:
		return []*Expr{&s.X}
	}
	return nil
}

// StmtBlocks returns pointers to the nested statement lists of a statement.
func StmtBlocks(s Stmt) []*[]Stmt {
	switch s := s.(type) {
	case *If:
		return []*[]Stmt{&s.Then, &s.Else}
	case *Switch:
		r := make([]*[]Stmt, len(s.Cases))
		for i := range s.Cases {
			r[i] = &s.Cases[i].Body
		}
		return r
	case *Loop:
		return []*[]Stmt{&s.Body, &s.Continuing}
	case *For:
		return []*[]Stmt{&s.Body}
	case *While:
		return []*[]Stmt{&s.Body}
	case *Block:
		return []*[]Stmt{&s.Body}
	}
	return nil
}

// WalkExpr visits e and all sub-expressions.
func WalkExpr(e Expr, f func(Expr)) {
	if e == nil {
		return
	}
	f(e)
	for _, s := range ExprSlots(e) {
		WalkExpr(*s, f)
	}
}

// WalkStmts visits every statement (pre-order) and every expression in a statement list.
func WalkStmts(b []Stmt, fs func(Stmt), fe func(Expr)) {
	for _, s := range b {
		if fs != nil {
			fs(s)
		}
		if f, ok := s.(*For); ok {
			if f.Init != nil {
				WalkStmts([]Stmt{f.Init}, fs, fe)
			}
			if f.Post != nil {
				WalkStmts([]Stmt{f.Post}, fs, fe)
			}
		}
		if fe != nil {
			for _, sl := range StmtExprSlots(s) {
				WalkExpr(*sl, fe)
			}
		}
		for _, nb := range StmtBlocks(s) {
			WalkStmts(*nb, fs, fe)
		}
	}
}

// WalkModule visits all functions' statements/expressions and module-scope initialisers.
func WalkModule(m *Module, fs func(Stmt), fe func(Expr)) {
	for _, d := range m.Decls {
		if d.Var != nil && d.Var.Init != nil && fe != nil {
			WalkExpr(d.Var.Init, fe)
		}
		if d.Func != nil {
			for _, w := range d.Func.WG {
				if w != nil && fe != nil {
					WalkExpr(w, fe)
				}
			}
			WalkStmts(d.Func.Body, fs, fe)
		}
		if d.Assert != nil && fe != nil {
			WalkExpr(d.Assert.X, fe)
		}
	}
}
