// Package wgen: typed WGSL AST of our own (independent of naga's parser), a printer that records a token table,
// and a type-directed random program generator plus edit operators. This is the WORKLOAD side of the monitors.
package wgen

import (
	"fmt"
	"strings"
)

type Kind int

const (
	KBool Kind = iota
	KI32
	KU32
	KF32
	KF16
	KAbsInt
	KAbsFloat
	KVec
	KMat
	KArray // N==0 => runtime sized
	KStruct
	KAtomic
	KPtr
)

// Type is an interned structural type: pointer equality == type equality (structs are nominal).
type Type struct {
	Kind    Kind
	Elem    *Type // vec/array/atomic/ptr element; mat: scalar
	N       int   // vec size / array length (0 runtime) / mat columns
	R       int   // mat rows
	Name    string
	Members []Member
	Space   string // ptr: function|private|workgroup|storage|uniform
	Access  string // ptr to storage: read|read_write
	key     string
}

type Member struct {
	Name  string
	Type  *Type
	Align int // @align attribute (0 = none)
	Size  int // @size attribute (0 = none)
	// AttrSuffix is appended to the @align / @size arguments ("", "u" or "i": the arguments are const-expressions of
	// type i32 or u32, so suffixed literals are valid WGSL)
	AttrSuffix string
}

var (
	Bool     = &Type{Kind: KBool, key: "bool"}
	I32      = &Type{Kind: KI32, key: "i32"}
	U32      = &Type{Kind: KU32, key: "u32"}
	F32      = &Type{Kind: KF32, key: "f32"}
	F16      = &Type{Kind: KF16, key: "f16"}
	AbsInt   = &Type{Kind: KAbsInt, key: "aint"}
	AbsFloat = &Type{Kind: KAbsFloat, key: "afloat"}
)

// Universe interns composite types for one module.
type Universe struct {
	m map[string]*Type
	// NoMatCx2: matrices with 2 rows are replaced by 3/4-row matrices (gate "type.matCx2")
	NoMatCx2 bool
}

func NewUniverse() *Universe { return &Universe{m: map[string]*Type{}} }

func (u *Universe) intern(t *Type) *Type {
	if x, ok := u.m[t.key]; ok {
		return x
	}
	u.m[t.key] = t
	return t
}
func (u *Universe) Vec(n int, e *Type) *Type {
	return u.intern(&Type{Kind: KVec, N: n, Elem: e, key: fmt.Sprintf("vec%d<%s>", n, e.key)})
}
func (u *Universe) Mat(c, r int, e *Type) *Type {

	return u.intern(&Type{Kind: KMat, N: c, R: r, Elem: e, key: fmt.Sprintf("mat%dx%d<%s>", c, r, e.key)})
}
func (u *Universe) Array(e *Type, n int) *Type {
	return u.intern(&Type{Kind: KArray, N: n, Elem: e, key: fmt.Sprintf("array<%s,%d>", e.key, n)})
}
func (u *Universe) Atomic(e *Type) *Type {
	return u.intern(&Type{Kind: KAtomic, Elem: e, key: "atomic<" + e.key + ">"})
}
func (u *Universe) Ptr(space string, e *Type, access string) *Type {
	return u.intern(&Type{Kind: KPtr, Space: space, Elem: e, Access: access, key: "ptr<" + space + "," + e.key + "," + access + ">"})
}
func (u *Universe) Struct(name string, ms []Member) *Type {
	return u.intern(&Type{Kind: KStruct, Name: name, Members: ms, key: "struct " + name})
}

func (t *Type) Key() string     { return t.key }
func (t *Type) IsScalar() bool  { return t.Kind <= KAbsFloat }
func (t *Type) IsNumeric() bool { return t.Kind >= KI32 && t.Kind <= KAbsFloat }
func (t *Type) IsInt() bool     { return t.Kind == KI32 || t.Kind == KU32 || t.Kind == KAbsInt }
func (t *Type) IsFloat() bool   { return t.Kind == KF32 || t.Kind == KF16 || t.Kind == KAbsFloat }
func (t *Type) IsAbstract() bool {
	return t.Kind == KAbsInt || t.Kind == KAbsFloat || (t.Kind == KVec || t.Kind == KMat || t.Kind == KArray) && t.Elem.IsAbstract()
}
func (t *Type) IsVec() bool { return t.Kind == KVec }
func (t *Type) IsMat() bool { return t.Kind == KMat }

// Scalar returns the scalar component type of a scalar/vector/matrix.
func (t *Type) Scalar() *Type {
	switch t.Kind {
	case KVec, KMat:
		return t.Elem
	}
	return t
}

// Width returns component count for vectors, 1 for scalars.
func (t *Type) Width() int {
	if t.Kind == KVec {
		return t.N
	}
	return 1
}

// Leaves is the number of scalar leaves of a fixed-size type (runtime arrays: 0).
func (t *Type) Leaves() int {
	switch t.Kind {
	case KVec:
		return t.N
	case KMat:
		return t.N * t.R
	case KArray:
		return t.N * t.Elem.Leaves()
	case KStruct:
		n := 0
		for _, m := range t.Members {
			n += m.Type.Leaves()
		}
		return n
	case KAtomic:
		return 1
	case KPtr:
		return 0
	}
	return 1
}

// HasRuntimeArray reports whether t is or ends in a runtime-sized array.
func (t *Type) HasRuntimeArray() bool {
	switch t.Kind {
	case KArray:
		return t.N == 0
	case KStruct:
		if len(t.Members) > 0 {
			return t.Members[len(t.Members)-1].Type.HasRuntimeArray()
		}
	}
	return false
}

func (t *Type) HasAtomic() bool {
	switch t.Kind {
	case KAtomic:
		return true
	case KArray:
		return t.Elem.HasAtomic()
	case KStruct:
		for _, m := range t.Members {
			if m.Type.HasAtomic() {
				return true
			}
		}
	}
	return false
}

// Constructible per WGSL (no atomics, no runtime arrays, no pointers).
func (t *Type) Constructible() bool {
	return t.Kind != KPtr && !t.HasAtomic() && !t.HasRuntimeArray()
}

// WGSL spelling.
func (t *Type) String() string {
	switch t.Kind {
	case KBool:
		return "bool"
	case KI32:
		return "i32"
	case KU32:
		return "u32"
	case KF32:
		return "f32"
	case KF16:
		return "f16"
	case KAbsInt:
		return "<abstract-int>"
	case KAbsFloat:
		return "<abstract-float>"
	case KVec:
		return fmt.Sprintf("vec%d<%s>", t.N, t.Elem)
	case KMat:
		return fmt.Sprintf("mat%dx%d<%s>", t.N, t.R, t.Elem)
	case KArray:
		if t.N == 0 {
			return "array<" + t.Elem.String() + ">"
		}
		return fmt.Sprintf("array<%s, %d>", t.Elem, t.N)
	case KStruct:
		return t.Name
	case KAtomic:
		return "atomic<" + t.Elem.String() + ">"
	case KPtr:
		if t.Space == "storage" && t.Access != "" {
			return "ptr<storage, " + t.Elem.String() + ", " + t.Access + ">"
		}
		return "ptr<" + t.Space + ", " + t.Elem.String() + ">"
	}
	return "?"
}

// Tokens of the WGSL spelling (for the token table).
func (t *Type) Tokens() []string {
	switch t.Kind {
	case KVec:
		return append(append([]string{fmt.Sprintf("vec%d", t.N), "<"}, t.Elem.Tokens()...), ">")
	case KMat:
		return append(append([]string{fmt.Sprintf("mat%dx%d", t.N, t.R), "<"}, t.Elem.Tokens()...), ">")
	case KArray:
		r := append([]string{"array", "<"}, t.Elem.Tokens()...)
		if t.N != 0 {
			r = append(r, ",", fmt.Sprint(t.N))
		}
		return append(r, ">")
	case KAtomic:
		return append(append([]string{"atomic", "<"}, t.Elem.Tokens()...), ">")
	case KPtr:
		r := append([]string{"ptr", "<", t.Space, ","}, t.Elem.Tokens()...)
		if t.Space == "storage" && t.Access != "" {
			r = append(r, ",", t.Access)
		}
		return append(r, ">")
	}
	return []string{t.String()}
}

func (t *Type) ShapeName() string { // short shape used in coverage signatures
	s := t.String()
	s = strings.ReplaceAll(s, " ", "")
	return s
}
