package wgen

import (
	"fmt"
	"strings"

	"verif/internal/run"
)

// Injection describes one rule-breaking edit applied to a module (AST level) or to its printed text (token level).
type Injection struct {
	Rule    string // rule class of property C11
	Variant string // how / where
	Decl    int    // index of the module-scope declaration containing the construct (-1 unknown)
	Ctx     string // syntactic context of the site
	// token-level injections:
	Src     string // edited source ("" for AST-level: print the module)
	ExpLine int    // expected error line / column for syntax errors (0 = not pinned down)
	ExpCol  int
	Undo    func()
}

type exprSite struct {
	slot *Expr
	decl int
	ctx  string
}
type stmtSite struct {
	block *[]Stmt
	idx   int
	decl  int
	ctx   string
}

func collectSites(m *Module) (es []exprSite, ss []stmtSite) {
	for di, d := range m.Decls {
		if d.Var != nil && d.Var.Init != nil && (d.Var.Kind == VConst || d.Var.Kind == VGlobal) {
			es = append(es, exprSite{&m.Decls[di].Var.Init, di, "module-initialiser"})
		}
		if d.Func == nil {
			continue
		}
		fctx := "helper"
		if d.Func.Stage != "" {
			fctx = "entry-point"
		}
		var walk func(b *[]Stmt, ctx string)
		walk = func(b *[]Stmt, ctx string) {
			for i := 0; i <= len(*b); i++ {
				ss = append(ss, stmtSite{b, i, di, ctx})
			}
			for _, s := range *b {
				switch s := s.(type) {
				case *Assign:
					es = append(es, exprSite{&s.RHS, di, ctx + "/assign-rhs"})
					WalkExprSlots(&s.RHS, func(sl *Expr) { es = append(es, exprSite{sl, di, ctx + "/nested-expr"}) })
				case *VarDecl:
					if s.Init != nil && s.V.Kind != VConst {
						es = append(es, exprSite{&s.Init, di, ctx + "/initialiser"})
					}
					if s.Init != nil && s.V.Kind == VConst {
						es = append(es, exprSite{&s.Init, di, ctx + "/const-initialiser"})
					}
				case *Return:
					if s.X != nil {
						es = append(es, exprSite{&s.X, di, ctx + "/return"})
					}
				case *If:
					es = append(es, exprSite{&s.Cond, di, ctx + "/condition"})
				}
				if l, ok := s.(*Loop); ok {
					walk(&l.Body, ctx+"/loop")
					walk(&l.Continuing, ctx+"/continuing")
					continue
				}
				for _, nb := range StmtBlocks(s) {
					walk(nb, ctx+"/block")
				}
			}
		}
		walk(&m.Decls[di].Func.Body, fctx)
	}
	return
}

// WalkExprSlots visits the slots of builtin/call arguments nested in *slot (not lvalues).
func WalkExprSlots(slot *Expr, f func(*Expr)) {
	e := *slot
	switch x := e.(type) {
	case *Builtin:
		for i := range x.Args {
			if _, isAddr := x.Args[i].(*AddrOf); !isAddr {
				f(&x.Args[i])
				WalkExprSlots(&x.Args[i], f)
			}
		}
	case *CallE:
		for i := range x.Args {
			if x.F.Params[i].Ty.Kind != KPtr {
				f(&x.Args[i])
				WalkExprSlots(&x.Args[i], f)
			}
		}
	case *Binary:
		WalkExprSlots(&x.L, f)
		if x.Op != "&&" && x.Op != "||" {
			WalkExprSlots(&x.R, f) // (finding F66: the right operand of a short-circuit operator may be dropped unchecked)
		}
	case *Cons:
		for i := range x.Args {
			WalkExprSlots(&x.Args[i], f)
		}
	}
}

// underShortCircuitRHS returns the set of expressions located in the right operand of && or ||.
func underShortCircuitRHS(m *Module) map[Expr]bool {
	set := map[Expr]bool{}
	WalkModule(m, nil, func(e Expr) {
		if b, ok := e.(*Binary); ok && (b.Op == "&&" || b.Op == "||") {
			WalkExpr(b.R, func(x Expr) { set[x] = true })
		}
	})
	return set
}

func insertStmt(s stmtSite, st Stmt) func() {
	old := *s.block
	nb := append(append(append([]Stmt{}, old[:s.idx]...), st), old[s.idx:]...)
	*s.block = nb
	return func() { *s.block = old }
}

// goodStmtSite: not after a terminator (break/continue/return) in the same block, to keep the edit the only error.
func goodStmtSite(s stmtSite) bool {
	for i := 0; i < s.idx && i < len(*s.block); i++ {
		switch (*s.block)[i].(type) {
		case *Break, *Continue, *Return:
			return false
		}
	}
	return true
}

var InjectRules = []string{"undeclared-identifier", "undeclared-function", "undeclared-type", "undeclared-member", "call-arity", "call-argument-type",
	"must-use-discarded", "const-assert-false", "group-without-binding", "binding-without-group", "array-size-non-positive", "bad-swizzle",
	"missing-workgroup-size", "const-division-by-zero", "missing-semicolon", "unbalanced-delimiter"}

// Inject applies one injection of the given rule at a random applicable site. ok=false when the module has no site.
func Inject(m *Module, r *run.Rng, rule string) (inj Injection, ok bool) {
	es, ss := collectSites(m)
	inj = Injection{Rule: rule, Decl: -1, Undo: func() {}}
	pickExpr := func(pred func(exprSite) bool) (exprSite, bool) {
		var c []exprSite
		for _, e := range es {
			if pred == nil || pred(e) {
				c = append(c, e)
			}
		}
		if len(c) == 0 {
			return exprSite{}, false
		}
		return c[r.Intn(len(c))], true
	}
	pickStmt := func() (stmtSite, bool) {
		var c []stmtSite
		for _, s := range ss {
			if goodStmtSite(s) {
				c = append(c, s)
			}
		}
		if len(c) == 0 {
			return stmtSite{}, false
		}
		return c[r.Intn(len(c))], true
	}
	replace := func(s exprSite, e Expr) {
		old := *s.slot
		*s.slot = e
		inj.Undo = func() { *s.slot = old }
		inj.Decl, inj.Ctx = s.decl, s.ctx
	}
	n := r.Intn(1000)
	switch rule {
	case "undeclared-identifier":
		if r.Chance(1, 4) {
			// as a component of a module-scope composite constant (vector / matrix / array constructor arguments)
			vs := []string{"const zz_c%[1]d = vec3<f32>(1.0, zz_undeclared_%[1]d, 2.0);", "const zz_c%[1]d: vec2<i32> = vec2<i32>(zz_undeclared_%[1]d, 4);",
				"const zz_c%[1]d = mat2x2<f32>(vec2<f32>(1.0, 2.0), vec2<f32>(zz_undeclared_%[1]d, 4.0));", "const zz_c%[1]d = array<u32, 3>(1u, 2u, zz_undeclared_%[1]d);",
				"const zz_c%[1]d = array<vec2<f32>, 2>(vec2<f32>(1.0), vec2<f32>(zz_undeclared_%[1]d, 0.5));"}
			old := m.Decls
			di := r.Intn(len(old) + 1)
			text := fmt.Sprintf(vs[r.Intn(len(vs))], n)
			inj.Variant = "module-const-component: " + text
			m.Decls = append(append(append([]Decl{}, old[:di]...), Decl{Raw: text}), old[di:]...)
			inj.Undo = func() { m.Decls = old }
			inj.Decl, inj.Ctx = di, "module-scope"
			return inj, true
		}
		if r.Chance(1, 4) {
			// as assignment target
			st, ok := pickStmt()
			if !ok {
				return inj, false
			}
			inj.Undo = insertStmt(st, &RawStmt{Text: fmt.Sprintf("zz_undeclared_%d = 1;", n)})
			inj.Decl, inj.Ctx, inj.Variant = st.decl, st.ctx, "assignment-target"
			return inj, true
		}
		s, ok := pickExpr(func(e exprSite) bool { return e.ctx != "module-initialiser" || true })
		if !ok {
			return inj, false
		}
		inj.Variant = "value"
		replace(s, &RawExpr{Text: fmt.Sprintf("zz_undeclared_%d", n), Ty: (*s.slot).T()})
		return inj, true
	case "undeclared-function":
		s, ok := pickExpr(nil)
		if !ok {
			return inj, false
		}
		replace(s, &RawExpr{Text: fmt.Sprintf("zz_nofn_%d(1)", n), Ty: (*s.slot).T()})
		return inj, true
	case "undeclared-type":
		if r.Bool() {
			s, ok := pickExpr(nil)
			if !ok {
				return inj, false
			}
			inj.Variant = "constructor"
			replace(s, &RawExpr{Text: fmt.Sprintf("ZZNoType_%d()", n), Ty: (*s.slot).T()})
			return inj, true
		}
		st, ok := pickStmt()
		if !ok {
			return inj, false
		}
		inj.Variant = "variable-type"
		inj.Undo = insertStmt(st, &RawStmt{Text: fmt.Sprintf("var zz_v%d: ZZNoType_%d;", n, n)})
		inj.Decl, inj.Ctx = st.decl, st.ctx
		return inj, true
	case "undeclared-member":
		var fields []*Field
		var decls []int
		sc := underShortCircuitRHS(m)
		for di, d := range m.Decls {
			if d.Func != nil {
				WalkStmts(d.Func.Body, nil, func(e Expr) {
					if f, ok := e.(*Field); ok && !sc[e] {
						fields = append(fields, f)
						decls = append(decls, di)
					}
				})
			}
		}
		if len(fields) == 0 {
			return inj, false
		}
		i := r.Intn(len(fields))
		fields[i].Raw = fmt.Sprintf("zz_nomember_%d", n)
		inj.Undo = func() { fields[i].Raw = "" }
		inj.Decl, inj.Ctx = decls[i], "member-access"
		return inj, true
	case "call-arity", "call-argument-type":
		var calls []*CallE
		var decls []int
		sc := underShortCircuitRHS(m)
		for di, d := range m.Decls {
			if d.Func != nil {
				WalkStmts(d.Func.Body, func(s Stmt) {
					if cs, ok := s.(*CallS); ok {
						calls = append(calls, cs.C)
						decls = append(decls, di)
					}
				}, func(e Expr) {
					if c, ok := e.(*CallE); ok && !sc[e] {
						calls = append(calls, c)
						decls = append(decls, di)
					}
				})
			}
		}
		if len(calls) == 0 {
			return inj, false
		}
		i := r.Intn(len(calls))
		c := calls[i]
		old := c.Args
		inj.Decl, inj.Ctx = decls[i], "call"
		if rule == "call-arity" {
			if len(old) > 0 && r.Bool() {
				c.Args = append([]Expr{}, old[:len(old)-1]...)
				inj.Variant = "too-few"
			} else {
				c.Args = append(append([]Expr{}, old...), &Lit{Ty: I32, I: 1})
				inj.Variant = "too-many"
			}
		} else {
			var idx []int
			for k, p := range c.F.Params {
				if p.Ty.IsScalar() && p.Ty != Bool || p.Ty.Kind == KVec && p.Ty.Elem != Bool {
					idx = append(idx, k)
				}
			}
			if len(idx) == 0 {
				return inj, false
			}
			k := idx[r.Intn(len(idx))]
			c.Args = append([]Expr{}, old...)
			if c.F.Params[k].Ty.IsScalar() {
				c.Args[k] = &RawExpr{Text: "vec2<bool>(true, false)", Ty: c.F.Params[k].Ty}
				inj.Variant = "vector-for-scalar"
			} else {
				c.Args[k] = &RawExpr{Text: "true", Ty: c.F.Params[k].Ty}
				inj.Variant = "bool-for-vector"
			}
		}
		inj.Undo = func() { c.Args = old }
		return inj, true
	case "must-use-discarded":
		var fs []*Func
		for _, f := range m.Funcs() {
			if f.Stage == "" && f.Ret != nil {
				ptr := false
				for _, p := range f.Params {
					if p.Ty.Kind == KPtr {
						ptr = true
					}
				}
				if !ptr {
					fs = append(fs, f)
				}
			}
		}
		st, ok := pickStmt()
		if len(fs) == 0 || !ok {
			return inj, false
		}
		// only functions that are not already called as discarding call statements (making them @must_use must not
		// introduce a second error elsewhere)
		discarded := map[*Func]bool{}
		WalkModule(m, func(s Stmt) {
			if cs, ok := s.(*CallS); ok {
				discarded[cs.C.F] = true
			}
		}, nil)
		var fs2 []*Func
		for _, f := range fs {
			if !discarded[f] {
				fs2 = append(fs2, f)
			}
		}
		if len(fs2) == 0 {
			return inj, false
		}
		f := fs2[r.Intn(len(fs2))]
		// the call site must be in a function declared as able to call f (no recursion): only entry points
		if m.Decls[st.decl].Func.Stage == "" {
			for tries := 0; tries < 20 && m.Decls[st.decl].Func.Stage == ""; tries++ {
				st, _ = pickStmt()
			}
			if m.Decls[st.decl].Func.Stage == "" {
				return inj, false
			}
		}
		oldMU := f.MustUse
		f.MustUse = true
		args := make([]Expr, len(f.Params))
		for i, p := range f.Params {
			args[i] = zeroLit(p.Ty)
			if args[i] == nil {
				f.MustUse = oldMU
				return inj, false
			}
		}
		u := insertStmt(st, &CallS{C: &CallE{F: f, Args: args}})
		inj.Undo = func() { u(); f.MustUse = oldMU }
		inj.Decl, inj.Ctx = st.decl, st.ctx
		return inj, true
	case "const-assert-false":
		conds := []string{"false", "1 > 2", "(3u + 1u) == 5u", "!true", "1.5 < 0.5", "2i * 3i != 6i", "min(1, 2) == 2"}
		c := conds[r.Intn(len(conds))]
		inj.Variant = c
		if r.Chance(1, 3) {
			// module scope
			old := m.Decls
			di := r.Intn(len(old) + 1)
			m.Decls = append(append(append([]Decl{}, old[:di]...), Decl{Assert: &ConstAssert{X: &RawExpr{Text: c, Ty: Bool}}}), old[di:]...)
			inj.Undo = func() { m.Decls = old }
			inj.Decl, inj.Ctx = di, "module-scope"
			return inj, true
		}
		st, ok := pickStmt()
		if !ok {
			return inj, false
		}
		inj.Undo = insertStmt(st, &ConstAssert{X: &RawExpr{Text: c, Ty: Bool}})
		inj.Decl, inj.Ctx = st.decl, st.ctx
		return inj, true
	case "group-without-binding", "binding-without-group":
		var gs []*Var
		var decls []int
		for di, d := range m.Decls {
			if d.Var != nil && d.Var.Kind == VGlobal && (d.Var.Space == "storage" || d.Var.Space == "uniform") {
				gs = append(gs, d.Var)
				decls = append(decls, di)
			}
		}
		if len(gs) == 0 {
			return inj, false
		}
		i := r.Intn(len(gs))
		if rule == "group-without-binding" {
			gs[i].DropBinding = true
		} else {
			gs[i].DropGroup = true
		}
		inj.Undo = func() { gs[i].DropBinding, gs[i].DropGroup = false, false }
		inj.Decl, inj.Ctx = decls[i], "resource-variable"
		return inj, true
	case "array-size-non-positive":
		st, ok := pickStmt()
		if !ok {
			return inj, false
		}
		vs := []string{"var zz_a%d: array<i32, 0>;", "var zz_a%d: array<f32, -1>;", "const zz_n%d = 0; var zz_b%d: array<u32, zz_n%d>;", "var zz_a%d = array<i32, 0>();", "const zz_m%d = 2 - 5; var zz_c%d: array<u32, zz_m%d>;"}
		v := vs[r.Intn(len(vs))]
		inj.Variant = v
		inj.Undo = insertStmt(st, &RawStmt{Text: strings.ReplaceAll(v, "%d", fmt.Sprint(n))})
		inj.Decl, inj.Ctx = st.decl, st.ctx
		return inj, true
	case "bad-swizzle":
		var sw []*Swiz
		var decls []int
		sc := underShortCircuitRHS(m)
		for di, d := range m.Decls {
			if d.Func != nil {
				WalkStmts(d.Func.Body, nil, func(e Expr) {
					if s, ok := e.(*Swiz); ok && !sc[e] {
						sw = append(sw, s)
						decls = append(decls, di)
					}
				})
			}
		}
		if len(sw) == 0 {
			return inj, false
		}
		i := r.Intn(len(sw))
		w := derefType(sw[i].X.T()).N
		var raw string
		switch r.Intn(3) {
		case 0:
			raw = "xg"[:2]
			inj.Variant = "mixed-sets"
		case 1:
			raw = string("xyzw"[w%4]) // component just past the width (vec4: wraps to x => use 5 components instead)
			inj.Variant = "beyond-width"
			if w == 4 {
				raw = "xyzwx"
				inj.Variant = "five-components"
			}
		default:
			raw = "rgbax"[:2+r.Intn(2)] + "y"
			inj.Variant = "mixed-sets"
		}
		sw[i].Raw = raw
		inj.Undo = func() { sw[i].Raw = "" }
		inj.Decl, inj.Ctx = decls[i], "swizzle"
		return inj, true
	case "missing-workgroup-size":
		for di, d := range m.Decls {
			if d.Func != nil && d.Func.Stage == "compute" {
				f := d.Func
				f.NoWGSize = true
				inj.Undo = func() { f.NoWGSize = false }
				inj.Decl, inj.Ctx = di, "entry-point"
				return inj, true
			}
		}
		return inj, false
	case "const-division-by-zero":
		if r.Chance(1, 4) {
			vs := []string{"const zz_k%d = 1 / 0;", "const zz_k%d: i32 = 7i %% 0i;", "const zz_k%d: u32 = 9u / (3u - 3u);"}
			v := vs[r.Intn(len(vs))]
			old := m.Decls
			di := r.Intn(len(old) + 1)
			text := fmt.Sprintf(v, n)
			inj.Variant = "module-const: " + text
			m.Decls = append(append(append([]Decl{}, old[:di]...), Decl{Assert: nil, Alias: nil, Var: nil, Func: nil, Struct: nil}), old[di:]...)
			m.Decls[di] = Decl{Raw: text}
			inj.Undo = func() { m.Decls = old }
			inj.Decl, inj.Ctx = di, "module-scope"
			return inj, true
		}
		st, ok := pickStmt()
		if !ok {
			return inj, false
		}
		vs := []string{"const zz_k%d = 1 / 0;", "const zz_k%d: i32 = 7i %% 0i;", "let zz_l%d = 1u / 0u;", "var zz_v%d: i32 = 5i / (2i - 2i);", "var zz_a%d: array<i32, 4 / 0>;", "let zz_m%d = min(1 / 0, 2);", "let zz_p%d = 10i %% (1i - 1i);"}
		v := vs[r.Intn(len(vs))]
		text := fmt.Sprintf(v, n)
		inj.Variant = text
		inj.Undo = insertStmt(st, &RawStmt{Text: text})
		inj.Decl, inj.Ctx = st.decl, st.ctx
		return inj, true
	}
	return inj, false
}

// InjectToken performs a token-level injection (missing semicolon / unbalanced delimiter) on printed source.
func InjectToken(p *Printed, r *run.Rng, rule string) (inj Injection, ok bool) {
	inj = Injection{Rule: rule, Decl: -1, Undo: func() {}}
	var sites []int
	for i, t := range p.Tokens {
		if i+1 >= len(p.Tokens) {
			continue
		}
		nx := p.Tokens[i+1]
		switch rule {
		case "missing-semicolon":
			if strings.HasPrefix(t.Role, "semi:") && t.Role != "semi:for1" && t.Role != "semi:for2" {
				// the next token must be unable to continue the statement: identifier / keyword / closing brace
				if (nx.Role == "ident" || nx.Role == "kw" || nx.Text == "}" || nx.Text == "_") && nx.Text != "if" {
					// a bare `return` followed by an identifier would swallow it as its value: exclude
					if i > 0 && (p.Tokens[i-1].Text == "return" || p.Tokens[i-1].Text == "break" && nx.Text == "if") {
						continue
					}
					if nx.Text == "}" || nx.Role == "kw" || nx.Role == "ident" || nx.Text == "_" {
						sites = append(sites, i)
					}
				}
			}
		case "unbalanced-delimiter":
			if strings.HasPrefix(t.Role, "close:") {
				sites = append(sites, i)
			}
		}
	}
	if len(sites) == 0 {
		return inj, false
	}
	i := sites[r.Intn(len(sites))]
	t := p.Tokens[i]
	nx := p.Tokens[i+1]
	inj.Src = p.Src[:t.Off] + strings.Repeat(" ", len(t.Text)) + p.Src[t.Off+len(t.Text):]
	inj.Decl = t.Decl
	inj.Variant = t.Role
	inj.Ctx = t.Fn
	if rule == "missing-semicolon" {
		inj.ExpLine, inj.ExpCol = nx.Line, nx.Col
	} else if nx.Text == ";" && (t.Text == ")" || t.Text == "]") {
		inj.ExpLine, inj.ExpCol = nx.Line, nx.Col
	}
	return inj, true
}
