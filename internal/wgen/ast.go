package wgen

type VarKind int

const (
	VGlobal VarKind = iota // module-scope var<space>
	VLocal                 // function-scope var
	VLet
	VConst // module or function const
	VOverride
	VParam
)

type Var struct {
	Name      string
	Kind      VarKind
	Ty        *Type // store type (var) or value type (let/const/param/override)
	Space     string
	Access    string // storage: "read" | "read_write"
	Group     int
	Binding   int
	Init      Expr   // module-scope var/const/override initialiser
	ID        int    // override @id, -1 = none
	HasType   bool   // print the ": T" annotation
	Builtin   string // entry-point parameter builtin
	Location  int    // entry-point parameter location (-1 none)
	Module    bool   // declared at module scope
	Alias     *Var   // read-only alias of another variable (same name): evaluators follow it
	UID       int
	ConstInit bool // let whose initialiser is a const-expression (backends may fold through it)
	// error-injection switches (printer only)
	DropGroup, DropBinding bool
}

func (v *Var) IsRefVar() bool { return v.Kind == VGlobal || v.Kind == VLocal }

type Func struct {
	Name     string
	Params   []*Var
	Ret      *Type
	Body     []Stmt
	Stage    string // "" | "compute" | "vertex" | "fragment"
	WG       [3]Expr
	WGDims   int // how many workgroup_size arguments are printed (1..3)
	MustUse  bool
	UID      int
	NoWGSize bool // error injection: omit @workgroup_size
}

// ---------- expressions ----------

type Expr interface{ T() *Type }

type Lit struct {
	Ty   *Type
	I    int64   // bool (0/1), i32, u32, abstract-int
	F    float64 // f32 (exactly representable), abstract-float
	Text string  // optional explicit spelling (must denote the same value)
}
type Ref struct{ V *Var }
type Materialize struct { // implicit abstract -> concrete conversion (prints nothing)
	X  Expr
	Ty *Type
}
type Unary struct {
	Op string
	X  Expr
	Ty *Type
}
type Binary struct {
	Op   string
	L, R Expr
	Ty   *Type
}
type CallE struct {
	F    *Func
	Args []Expr
}
type Builtin struct {
	Name string
	Args []Expr
	Ty   *Type
	TArg *Type // bitcast<T>
}
type Cons struct { // T(args...) ; zero args => zero value
	Ty    *Type
	Args  []Expr
	Infer bool // print without template arguments, e.g. vec3(1,2,3) / array(1,2)
}
type Index struct {
	X, I Expr
	Ty   *Type
}
type Field struct {
	X   Expr
	Idx int
	Ty  *Type
	Raw string // error injection: print this member name instead
}
type Swiz struct {
	X     Expr
	Comps []int
	RGBA  bool
	Ty    *Type
	Raw   string // error injection: print this component string instead
}
type AddrOf struct {
	X  Expr
	Ty *Type
}
type Deref struct {
	X  Expr
	Ty *Type
}
type Paren struct{ X Expr }

// RawExpr prints Text verbatim as one token (used by error injections); its static type is Ty.
type RawExpr struct {
	Text string
	Ty   *Type
}

// RawStmt prints Text verbatim followed by nothing (used by error injections).
type RawStmt struct{ Text string }

func (e *Lit) T() *Type         { return e.Ty }
func (e *Ref) T() *Type         { return e.V.Ty }
func (e *Materialize) T() *Type { return e.Ty }
func (e *Unary) T() *Type       { return e.Ty }
func (e *Binary) T() *Type      { return e.Ty }
func (e *CallE) T() *Type       { return e.F.Ret }
func (e *Builtin) T() *Type     { return e.Ty }
func (e *Cons) T() *Type        { return e.Ty }
func (e *Index) T() *Type       { return e.Ty }
func (e *Field) T() *Type       { return e.Ty }
func (e *Swiz) T() *Type        { return e.Ty }
func (e *AddrOf) T() *Type      { return e.Ty }
func (e *Deref) T() *Type       { return e.Ty }
func (e *Paren) T() *Type       { return e.X.T() }
func (e *RawExpr) T() *Type     { return e.Ty }

// ---------- statements ----------

type Stmt interface{ stmt() }

type VarDecl struct { // var / let / const at function scope
	V    *Var
	Init Expr // nil only for var
}
type Assign struct {
	LHS Expr   // nil => phony assignment "_ = rhs"
	Op  string // "=", "+=", "-=", "*=", "/=", "%=", "&=", "|=", "^=", "<<=", ">>="
	RHS Expr
}
type IncDec struct {
	LHS Expr
	Inc bool
}
type If struct {
	Cond    Expr
	Then    []Stmt
	Else    []Stmt // a single *If element prints as "else if"
	HasElse bool
}
type Case struct {
	Sels       []Expr // const-expressions
	Default    bool   // `default` appears among the selectors (or alone)
	DefaultPos int    // position of `default` within selector list
	Body       []Stmt
}
type Switch struct {
	Sel   Expr
	Cases []Case
}
type Loop struct {
	Body       []Stmt
	Continuing []Stmt
	HasCont    bool
	BreakIf    Expr
}
type For struct {
	Init Stmt // *VarDecl | *Assign | nil
	Cond Expr
	Post Stmt // *Assign | *IncDec | *CallS | nil
	Body []Stmt
}
type While struct {
	Cond Expr
	Body []Stmt
}
type Break struct{}
type Continue struct{}
type Return struct{ X Expr }
type CallS struct{ C *CallE }
type BuiltinS struct{ B *Builtin } // atomicStore, workgroupBarrier, storageBarrier ...
type Block struct{ Body []Stmt }
type ConstAssert struct{ X Expr }

func (*VarDecl) stmt()     {}
func (*Assign) stmt()      {}
func (*IncDec) stmt()      {}
func (*If) stmt()          {}
func (*Switch) stmt()      {}
func (*Loop) stmt()        {}
func (*For) stmt()         {}
func (*While) stmt()       {}
func (*Break) stmt()       {}
func (*Continue) stmt()    {}
func (*Return) stmt()      {}
func (*CallS) stmt()       {}
func (*BuiltinS) stmt()    {}
func (*Block) stmt()       {}
func (*ConstAssert) stmt() {}
func (*RawStmt) stmt()     {}

// ---------- module ----------

type Decl struct { // one module-scope declaration, in print order
	Struct *Type
	Var    *Var // global var / const / override
	Func   *Func
	Alias  *Alias
	Assert *ConstAssert
	Raw    string // error injection: printed verbatim
}

type Alias struct {
	Name string
	Ty   *Type
}

type Module struct {
	U       *Universe
	Decls   []Decl
	Enables []string
	// alias usage: when a type has an alias and UseAlias[type] is set, the printer spells the alias.
	AliasOf map[*Type]*Alias
}

func (m *Module) Funcs() []*Func {
	var r []*Func
	for _, d := range m.Decls {
		if d.Func != nil {
			r = append(r, d.Func)
		}
	}
	return r
}
func (m *Module) Entries() []*Func {
	var r []*Func
	for _, d := range m.Decls {
		if d.Func != nil && d.Func.Stage != "" {
			r = append(r, d.Func)
		}
	}
	return r
}
func (m *Module) Globals() []*Var {
	var r []*Var
	for _, d := range m.Decls {
		if d.Var != nil && d.Var.Kind == VGlobal {
			r = append(r, d.Var)
		}
	}
	return r
}
func (m *Module) Overrides() []*Var {
	var r []*Var
	for _, d := range m.Decls {
		if d.Var != nil && d.Var.Kind == VOverride {
			r = append(r, d.Var)
		}
	}
	return r
}
func (m *Module) Structs() []*Type {
	var r []*Type
	for _, d := range m.Decls {
		if d.Struct != nil {
			r = append(r, d.Struct)
		}
	}
	return r
}
