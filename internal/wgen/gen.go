package wgen

import (
	"fmt"
	"math"

	"verif/internal/run"
)

// Config controls generation. A feature listed in Off is never generated (gating of known findings, profile restrictions).
type Config struct {
	Off       map[string]bool
	ConstOK   func(e Expr) bool // must return false when evaluating the const-expression e is a WGSL shader-creation error
	MaxDepth  int               // expression depth
	Stmts     int               // statements per function body (approx)
	Helpers   int
	Entries   int
	Overrides bool // generate override declarations (C14 profile)
	Hostile   bool // C15: raw shifts / raw float->int on runtime data
	HostileIx bool // C15: unguarded dynamic indices (only meaningful with a bounds-check policy)
	// HostileIxSkip (optional) excludes containers rooted in the given variable from unguarded indexing
	HostileIxSkip func(root *Var) bool
	MultiInv      bool // workgroup_size > 1 with invocation-indexed output
}

func (c *Config) on(f string) bool { return !c.Off[f] }

type scope struct {
	vars   []*Var
	parent *scope
}

type fnCtx struct {
	f            *Func
	sc           *scope
	loopDepth    int
	inLoop       bool
	inCont       bool // inside a continuing block
	inSwitch     int
	callable     []*Func // helpers this function may call
	globals      map[*Var]bool
	entry        bool
	stmtBudget   int
	uniform      bool // still in uniform control flow at function top level
	counters     int
	noGlobals    map[*Var]bool // globals this function must not touch by name
	ptrGlobals   map[*Var]bool
	inGlobalInit bool
	sideFx       bool
	depth        int // block nesting
}

type Gen struct {
	R    *run.Rng
	M    *Module
	U    *Universe
	Cfg  Config
	n    int
	Feat map[string]bool // features actually generated

	globals        []*Var
	consts         []*Var
	ovr            []*Var
	helpers        []*Func
	nest           bool   // control-nesting profile (see genStmts)
	script         string // forced nest of the control-nesting profile: L loop, S switch, s single-body switch, C conditional continue / break
	scriptPos      int
	singleSwitch   bool
	noAbsIntDivMod bool    // inside the integer side of a mixed abstract expression (finding F149)
	wideSig        []*Type // parameter types of the last wide-signature helper
	wideRet        *Type
	calledFns      map[*Func]int // how often each helper has been called so far
	structs        []*Type
	fx             *fnCtx
	// globals accessed (transitively) by each helper
	access    map[*Func]map[*Var]bool
	writes    map[*Func]bool // helper has side effects (writes globals / atomics)
	out       *Var
	depthLeft int
	noSideFx  bool
	allowTol  bool
	nextTyped bool
	idxNest   int
}

func (g *Gen) name(prefix string) string {
	g.n++
	return fmt.Sprintf("%s%d", prefix, g.n)
}

func (g *Gen) feat(f string) { g.Feat[f] = true }

func (g *Gen) on(f string) bool { return g.Cfg.on(f) }

// ---------- literals ----------

var i32Bound = []int64{0, 1, -1, 2, 3, 7, 8, 15, 16, 31, 32, 33, 63, 64, 100, 255, 256, 1000, 65535, 65536, -2, -7, -128, -32768, math.MaxInt32, math.MinInt32, math.MaxInt32 - 1, math.MinInt32 + 1, 0x55555555, 0x12345678}
var u32Bound = []int64{0, 1, 2, 3, 7, 8, 15, 16, 31, 32, 33, 63, 64, 100, 255, 256, 1000, 65535, 65536, 0x7FFFFFFF, 0x80000000, 0x80000001, 0xFFFFFFFF, 0xFFFFFFFE, 0xAAAAAAAA, 0x12345678, 0xDEADBEEF}
var f32Bound = []float64{0, 1, -1, 0.5, -0.5, 2, -2, 0.25, 1.5, -1.5, 2.5, -2.5, 3, 4, 0.75, 10, -10, 100, 0.125, 7, -3.5, 3.5, 16, 255, 256, -0.25, 1024, 65536, 1e6, -1e6, 16777216, 0.0625}

func (g *Gen) litOf(t *Type) *Lit {
	r := g.R
	switch t.Kind {
	case KBool:
		return &Lit{Ty: Bool, I: int64(r.Intn(2))}
	case KI32:
		var v int64
		if r.Chance(2, 3) {
			v = i32Bound[r.Intn(len(i32Bound))]
		} else {
			v = int64(int32(r.U32())) >> uint(r.Intn(28))
		}
		return &Lit{Ty: I32, I: v}
	case KU32:
		var v int64
		if r.Chance(2, 3) {
			v = u32Bound[r.Intn(len(u32Bound))]
		} else {
			v = int64(r.U32() >> uint(r.Intn(28)))
		}
		l := &Lit{Ty: U32, I: v}
		if r.Chance(1, 6) {
			l.Text = fmt.Sprintf("0x%Xu", uint32(v))
			g.feat("lit.hex")
		}
		return l
	case KF32:
		var v float64
		if r.Chance(3, 4) {
			v = f32Bound[r.Intn(len(f32Bound))]
		} else {
			v = float64(r.Range(-64, 64)) / float64(int(1)<<uint(r.Intn(5)))
		}
		return &Lit{Ty: F32, F: v}
	case KAbsInt:
		var v int64
		if r.Chance(1, 2) {
			v = int64(r.Range(-20, 40))
		} else {
			v = i32Bound[r.Intn(len(i32Bound))]
			if v == math.MinInt32 {
				v = -2147483647
			}
		}
		return &Lit{Ty: AbsInt, I: v}
	case KAbsFloat:
		return &Lit{Ty: AbsFloat, F: f32Bound[r.Intn(len(f32Bound))]}
	}
	panic("litOf " + t.String())
}

func (g *Gen) smallU32(n int) *Lit { return &Lit{Ty: U32, I: int64(n)} }
func (g *Gen) smallI32(n int) *Lit { return &Lit{Ty: I32, I: int64(n)} }

// ---------- scope ----------

func (g *Gen) push()          { g.fx.sc = &scope{parent: g.fx.sc} }
func (g *Gen) pop()           { g.fx.sc = g.fx.sc.parent }
func (g *Gen) declare(v *Var) { g.fx.sc.vars = append(g.fx.sc.vars, v) }

func (g *Gen) visible() []*Var {
	var r []*Var
	if g.fx != nil {
		for s := g.fx.sc; s != nil; s = s.parent {
			r = append(r, s.vars...)
		}
	}
	return r
}

// ---------- value paths ----------

// path is an expression denoting a memory location or value reachable from a variable, with its type.
type path struct {
	e        Expr
	t        *Type
	writable bool
	root     *Var
}

// leafPaths enumerates sub-paths of p down to scalars/vectors/matrices/whole composites, with in-range constant
// or guarded dynamic indices. want decides which types are acceptable.
func (g *Gen) subPath(p path, want func(*Type) bool, depth int) (path, bool) {
	for tries := 0; tries < 8; tries++ {
		cur := p
		for d := 0; d < 6; d++ {
			if want(cur.t) && (g.R.Chance(1, 2) || !hasSub(cur.t, want)) {
				return cur, true
			}
			nx, ok := g.step(cur)
			if !ok {
				break
			}
			cur = nx
		}
		if want(cur.t) {
			return cur, true
		}
	}
	return path{}, false
}

func hasSub(t *Type, want func(*Type) bool) bool {
	switch t.Kind {
	case KVec:
		return want(t.Elem)
	case KMat:
		return true
	case KArray:
		return want(t.Elem) || hasSub(t.Elem, want)
	case KStruct:
		for _, m := range t.Members {
			if want(m.Type) || hasSub(m.Type, want) {
				return true
			}
		}
	}
	return false
}

// step descends one level with a random in-range selector.
func (g *Gen) step(p path) (path, bool) {
	t := p.t
	switch t.Kind {
	case KStruct:
		if len(t.Members) == 0 {
			return p, false
		}
		i := g.R.Intn(len(t.Members))
		return path{e: &Field{X: p.e, Idx: i, Ty: t.Members[i].Type}, t: t.Members[i].Type, writable: p.writable, root: p.root}, true
	case KArray:
		idx := g.indexFor(t.N, p)
		return path{e: &Index{X: p.e, I: idx, Ty: t.Elem}, t: t.Elem, writable: p.writable, root: p.root}, true
	case KVec:
		if g.R.Chance(1, 2) {
			c := g.R.Intn(t.N)
			g.feat("swizzle.single")
			return path{e: &Swiz{X: p.e, Comps: []int{c}, RGBA: g.R.Chance(1, 5), Ty: t.Elem}, t: t.Elem, writable: p.writable, root: p.root}, true
		}
		idx := g.indexFor(t.N, p)
		g.feat("vec.index")
		return path{e: &Index{X: p.e, I: idx, Ty: t.Elem}, t: t.Elem, writable: p.writable, root: p.root}, true
	case KMat:
		idx := g.indexFor(t.N, p)
		ct := g.U.Vec(t.R, t.Elem)
		g.feat("mat.index")
		return path{e: &Index{X: p.e, I: idx, Ty: ct}, t: ct, writable: p.writable, root: p.root}, true
	}
	return p, false
}

func (g *Gen) hostileIx(p path) bool {
	if !g.Cfg.HostileIx {
		return false
	}
	return g.Cfg.HostileIxSkip == nil || p.root == nil || !g.Cfg.HostileIxSkip(p.root)
}

// indexFor yields an index expression valid for a container of n elements (n==0: runtime-sized => guarded by arrayLength).
func (g *Gen) indexFor(n int, p path) Expr {
	r := g.R
	g.idxNest++
	defer func() { g.idxNest-- }()
	if g.idxNest > 2 {
		if n == 0 {
			return &Lit{Ty: U32, I: 0}
		}
		return &Lit{Ty: U32, I: int64(r.Intn(n))}
	}
	if n == 0 {
		// runtime array: idx % arrayLength(&arr) ; arrayLength >= 1 is guaranteed by the input generator
		g.feat("index.runtime-array")
		al := &Builtin{Name: "arrayLength", Args: []Expr{&AddrOf{X: p.e, Ty: g.U.Ptr("storage", p.t, "")}}, Ty: U32}
		if r.Chance(1, 3) {
			return &Lit{Ty: U32, I: 0}
		}
		if g.hostileIx(p) && g.fx != nil && g.exprDepthLeft() > 0 && r.Chance(1, 2) {
			if e := g.genExprNoSideFx(U32, 1); !Constish(e) {
				g.feat("index.hostile.runtime-array")
				return e
			}
		}
		return &Binary{Op: "%", L: g.genExprNoSideFx(U32, 1), R: al, Ty: U32}
	}
	valueBase := p.root != nil && !p.root.IsRefVar() && p.root.Ty.Kind != KPtr
	if valueBase && g.on("index.dynamic-on-value") {
		g.feat("index.dynamic-on-value")
	}
	if g.fx == nil || r.Chance(1, 2) || g.exprDepthLeft() <= 0 || (valueBase && !g.on("index.dynamic-on-value")) {
		k := r.Intn(n)
		switch r.Intn(3) {
		case 0:
			return &Materialize{X: &Lit{Ty: AbsInt, I: int64(k)}, Ty: I32}
		case 1:
			return &Lit{Ty: U32, I: int64(k)}
		default:
			return &Lit{Ty: I32, I: int64(k)}
		}
	}
	g.feat("index.dynamic")
	if g.hostileIx(p) && r.Chance(1, 2) {
		// the index must be a run-time value: an out-of-range const-expression index is a shader-creation error
		t := U32
		if r.Bool() {
			t = I32
		}
		for try := 0; try < 6; try++ {
			if e := g.genExprNoSideFx(t, 1); !Constish(e) {
				g.feat("index.hostile")
				return e
			}
		}
	}
	switch r.Intn(3) {
	case 0:
		return &Binary{Op: "%", L: g.genExprNoSideFx(U32, 1), R: &Lit{Ty: U32, I: int64(n)}, Ty: U32}
	case 1:
		return &Builtin{Name: "min", Args: []Expr{g.genExprNoSideFx(U32, 1), &Lit{Ty: U32, I: int64(n - 1)}}, Ty: U32}
	default:
		return &Builtin{Name: "clamp", Args: []Expr{g.genExprNoSideFx(I32, 1), &Lit{Ty: I32, I: 0}, &Lit{Ty: I32, I: int64(n - 1)}}, Ty: I32}
	}
}
