package wgen

import (
	"fmt"
	"strings"

	"verif/internal/run"
)

// Blank strings WGSL treats as blankspace / line breaks.
var lineBreaks = []string{"\n", "\r\n", "\r", "\v", "\f", "\u0085", "\u2028", "\u2029"}
var blanks = []string{" ", "\t", "  ", "\u200e", "\u200f"}

var commentBodies = []string{"plain", "it's \"quoted\"", "star * slash / not closing", "/ * / *", "unicode: héllo ✓ 漢字", "@compute fn struct {", "*", "/", "//", "trailing backslash \\"}

// NeutralSep returns a random blankspace/comment sequence that separates two tokens without changing meaning.
// kinds restricts what may be produced: "ws", "lb", "line", "block".
func NeutralSep(r *run.Rng, allowCRonly bool) string {
	var sb strings.Builder
	n := r.Range(1, 3)
	for i := 0; i < n; i++ {
		switch r.Intn(5) {
		case 0:
			sb.WriteString(blanks[r.Intn(len(blanks))])
		case 1:
			sb.WriteString(pickLB(r, allowCRonly))
		case 2: // line comment terminated by a line break
			sb.WriteString("//" + commentBodies[r.Intn(len(commentBodies)-1)] + pickLB(r, allowCRonly))
		case 3: // block comment, possibly nested
			body := commentBodies[r.Intn(len(commentBodies))]
			body = strings.ReplaceAll(body, "*/", "* /")
			body = strings.ReplaceAll(body, "/*", "/ *")
			if r.Chance(1, 2) {
				// nested comments, including openers and closers that share characters with their neighbours
				switch r.Intn(6) {
				case 0:
					body = body + " /* nested " + pickLB(r, allowCRonly) + " */ tail"
				case 1:
					body = body + " tmp/*/ x = 2.0; */ tail" // the nested opener is followed by '/'
				case 2:
					body = body + " /**/ tail" // empty nested comment
				case 3:
					body = body + " /***/ /* * / */ tail"
				case 4:
					body = body + " /* a /* b */ c /*/ d */ e */ tail" // depth 3
				default:
					body = "* " + body + " /*//*/ y */ */ **"
				}
			}
			sb.WriteString("/* " + body + " */")
		default:
			sb.WriteString(" ")
		}
	}
	return sb.String()
}

func pickLB(r *run.Rng, allowCRonly bool) string {
	for {
		lb := lineBreaks[r.Intn(len(lineBreaks))]
		if lb == "\r" && !allowCRonly {
			continue
		}
		return lb
	}
}

// SimpleToken is a token of an arbitrary WGSL source found by the independent mini-lexer below.
type SimpleToken struct {
	Text     string
	Off, End int
}

// LexWGSL splits a WGSL source into tokens (identifiers, numbers, punctuation; longest match for multi-character
// operators) skipping blankspace and comments. It is used only to find token boundaries in corpus files.
func LexWGSL(src string) []SimpleToken {
	var out []SimpleToken
	i := 0
	n := len(src)
	isIdent := func(c byte) bool {
		return c == '_' || c >= '0' && c <= '9' || c >= 'a' && c <= 'z' || c >= 'A' && c <= 'Z' || c >= 0x80
	}
	ops := []string{"<<=", ">>=", "&&", "||", "==", "!=", "<=", ">=", "<<", ">>", "->", "+=", "-=", "*=", "/=", "%=", "&=", "|=", "^=", "++", "--"}
	for i < n {
		c := src[i]
		switch {
		case c == ' ' || c == '\t' || c == '\n' || c == '\r' || c == '\v' || c == '\f':
			i++
		case c == '/' && i+1 < n && src[i+1] == '/':
			for i < n && src[i] != '\n' {
				i++
			}
		case c == '/' && i+1 < n && src[i+1] == '*':
			depth := 0
			for i < n {
				if i+1 < n && src[i] == '/' && src[i+1] == '*' {
					depth++
					i += 2
				} else if i+1 < n && src[i] == '*' && src[i+1] == '/' {
					depth--
					i += 2
					if depth == 0 {
						break
					}
				} else {
					i++
				}
			}
		case isIdent(c):
			j := i
			for j < n && (isIdent(src[j]) || src[j] == '.' && j > i && src[i] >= '0' && src[i] <= '9') {
				j++
			}
			// exponent signs in numeric literals: 1e+5
			if src[i] >= '0' && src[i] <= '9' && j < n && (src[j] == '+' || src[j] == '-') && (src[j-1] == 'e' || src[j-1] == 'E' || src[j-1] == 'p' || src[j-1] == 'P') {
				j++
				for j < n && isIdent(src[j]) {
					j++
				}
			}
			out = append(out, SimpleToken{src[i:j], i, j})
			i = j
		default:
			j := i + 1
			for _, op := range ops {
				if strings.HasPrefix(src[i:], op) {
					j = i + len(op)
					break
				}
			}
			// ".5" style literal
			if c == '.' && i+1 < n && src[i+1] >= '0' && src[i+1] <= '9' {
				j = i + 1
				for j < n && isIdent(src[j]) {
					j++
				}
			}
			out = append(out, SimpleToken{src[i:j], i, j})
			i = j
		}
	}
	return out
}

// InsertNeutral rewrites src by inserting neutral separators at k random token boundaries (between tokens only).
func InsertNeutral(src string, toks []SimpleToken, r *run.Rng, k int, allowCRonly bool) string {
	if len(toks) < 2 {
		return src
	}
	at := map[int]string{}
	for i := 0; i < k; i++ {
		b := r.Intn(len(toks) - 1) // boundary after token b
		at[b] += NeutralSep(r, allowCRonly)
	}
	var sb strings.Builder
	pos := 0
	for i, t := range toks {
		sb.WriteString(src[pos:t.End])
		pos = t.End
		if s, ok := at[i]; ok {
			sb.WriteString(" " + s + " ")
		}
	}
	sb.WriteString(src[pos:])
	return sb.String()
}

var safeGlue = map[string]bool{"(": true, ")": true, "[": true, "]": true, "{": true, "}": true, ",": true, ";": true}

// SqueezeBlank removes blankspace between tokens where at least one neighbour is a bracket, comma or semicolon
// (so tokens cannot merge), at k random boundaries. Comments in the original are left alone.
func SqueezeBlank(src string, toks []SimpleToken, r *run.Rng, k int) string {
	drop := map[int]bool{}
	for i := 0; i < k; i++ {
		b := r.Intn(len(toks) - 1)
		gap := src[toks[b].End:toks[b+1].Off]
		if strings.TrimSpace(gap) != "" || strings.ContainsAny(gap, "/") {
			continue
		}
		if safeGlue[toks[b].Text] || safeGlue[toks[b+1].Text] {
			drop[b] = true
		}
	}
	var sb strings.Builder
	pos := 0
	for i, t := range toks {
		sb.WriteString(src[pos:t.End])
		pos = t.End
		if drop[i] {
			pos = toks[i+1].Off
		}
	}
	sb.WriteString(src[pos:])
	return sb.String()
}

// GlueTemplateClose removes the blankspace between a '>' token and a directly following '=' or '>' token, each site
// with probability 1/2. In a valid program two such tokens separated by blankspace can only be the close of a template
// list followed by an initialiser / assignment ('vec3<f32> =' becomes 'vec3<f32>=') or by the close of the enclosing
// template list ('vec2<u32> >' becomes 'vec2<u32>>'), so the edit is meaning-neutral: template list discovery closes the
// list at the first '>' whatever follows it. Returns the edited source and the number of sites glued.
func GlueTemplateClose(src string, toks []SimpleToken, r *run.Rng) (string, int) {
	drop := map[int]bool{}
	for b := 0; b+1 < len(toks); b++ {
		if toks[b].Text != ">" || (toks[b+1].Text != "=" && toks[b+1].Text != ">") {
			continue
		}
		gap := src[toks[b].End:toks[b+1].Off]
		if gap == "" || strings.TrimSpace(gap) != "" {
			continue
		}
		if r.Chance(1, 2) {
			drop[b] = true
		}
	}
	if len(drop) == 0 {
		return src, 0
	}
	var sb strings.Builder
	pos := 0
	for i, t := range toks {
		sb.WriteString(src[pos:t.End])
		pos = t.End
		if drop[i] {
			pos = toks[i+1].Off
		}
	}
	sb.WriteString(src[pos:])
	return sb.String(), len(drop)
}

// TokensOf converts the printer's token table to SimpleTokens.
func TokensOf(p *Printed) []SimpleToken {
	out := make([]SimpleToken, len(p.Tokens))
	for i, t := range p.Tokens {
		out[i] = SimpleToken{t.Text, t.Off, t.Off + len(t.Text)}
	}
	return out
}

// AddTrailingCommas inserts a trailing comma before closing delimiters of lists that allow it (call / constructor /
// parameter / attribute argument lists and template lists), at random sites. It works on the printer's roles.
func callIsBitcast(p *Printed, closeIdx int) bool {
	depth := 0
	for j := closeIdx; j >= 0; j-- {
		switch p.Tokens[j].Text {
		case ")":
			depth++
		case "(":
			depth--
			if depth == 0 {
				// walk back over a template list
				k := j - 1
				if k >= 0 && p.Tokens[k].Text == ">" {
					d := 0
					for ; k >= 0; k-- {
						if p.Tokens[k].Text == ">" {
							d++
						} else if p.Tokens[k].Text == "<" {
							d--
							if d == 0 {
								k--
								break
							}
						}
					}
				}
				return k >= 0 && p.Tokens[k].Text == "bitcast"
			}
		}
	}
	return false
}

func AddTrailingCommas(p *Printed, r *run.Rng, k int, templateCommas bool) string {
	var sites []int
	for i, t := range p.Tokens {
		switch t.Role {
		case "close:>":
			if !templateCommas {
				continue
			}
			fallthrough
		case "close:)call", "close:)ctor", "close:)params", "close:)attr":
			if !templateCommas && i > 2 && (p.Tokens[i-1].Text == ">" || callIsBitcast(p, i)) {
				continue
			}
			if i > 0 && !strings.HasPrefix(p.Tokens[i-1].Role, "open:") && !strings.HasPrefix(p.Tokens[i-1].Role, "comma:") {
				sites = append(sites, i)
			}
		}
	}
	if len(sites) == 0 {
		return p.Src
	}
	pick := map[int]bool{}
	for i := 0; i < k; i++ {
		pick[sites[r.Intn(len(sites))]] = true
	}
	var sb strings.Builder
	pos := 0
	for i, t := range p.Tokens {
		if pick[i] {
			sb.WriteString(p.Src[pos:t.Off])
			sb.WriteString(",")
			pos = t.Off
		}
	}
	sb.WriteString(p.Src[pos:])
	return sb.String()
}

// AddParens wraps k random sub-expressions of the module in redundant parentheses (in place) and returns an undo function.
func AddParens(m *Module, r *run.Rng, k int) (undo func()) {
	var slots []*Expr
	collect := func(slot *Expr) {
		var rec func(s *Expr)
		rec = func(s *Expr) {
			e := *s
			if e == nil {
				return
			}
			switch e.(type) {
			case *AddrOf, *Materialize:
			default:
				if t := e.T(); t != nil && t.Kind != KPtr {
					slots = append(slots, s)
				}
			}
			switch x := e.(type) {
			case *AddrOf:
				// the operand of & must stay a reference expression; parenthesised references are still references
				rec(&x.X)
				return
			}
			for _, cs := range ExprSlots(e) {
				rec(cs)
			}
		}
		rec(slot)
	}
	var heads []*Expr
	head := func(slot *Expr) {
		for s := slot; s != nil && *s != nil; {
			switch (*s).(type) {
			case *AddrOf, *Materialize:
				return
			}
			if t := (*s).T(); t == nil || t.Kind == KPtr {
				return
			}
			heads = append(heads, s)
			cs := ExprSlots(*s)
			if len(cs) == 0 {
				return
			}
			if _, isCall := (*s).(*CallE); isCall {
				return
			}
			if _, isB := (*s).(*Builtin); isB {
				return
			}
			if _, isC := (*s).(*Cons); isC {
				return
			}
			s = cs[0]
		}
	}
	for _, d := range m.Decls {
		if d.Func == nil {
			continue
		}
		WalkStmts(d.Func.Body, func(s Stmt) {
			switch s := s.(type) {
			case *Assign:
				collect(&s.RHS)
			case *VarDecl:
				if s.Init != nil {
					collect(&s.Init)
				}
			case *Return:
				if s.X != nil {
					collect(&s.X)
				}
			case *If:
				collect(&s.Cond)
				head(&s.Cond)
			case *Switch:
				collect(&s.Sel)
				head(&s.Sel)
			case *While:
				collect(&s.Cond)
				head(&s.Cond)
			case *For:
				if s.Cond != nil {
					collect(&s.Cond)
					head(&s.Cond)
				}
			case *Loop:
				if s.BreakIf != nil {
					collect(&s.BreakIf)
				}
			case *CallS:
				for i := range s.C.Args {
					collect(&s.C.Args[i])
				}
			}
		}, nil)
	}
	// statement heads (`switch (a) & 3u {`, `if (x) < y {`, `while (i) < n {`): the operand the statement keyword is
	// followed by, and the operands that start it, are drawn as often as all other positions together
	if len(heads) > 0 && len(slots) > 0 {
		for len(heads) < len(slots) {
			heads = append(heads, heads...)
		}
		slots = append(slots, heads[:len(slots)]...)
	}
	if len(slots) == 0 {
		return func() {}
	}
	type saved struct {
		s *Expr
		e Expr
	}
	var undoList []saved
	seen := map[*Expr]bool{}
	for i := 0; i < k; i++ {
		s := slots[r.Intn(len(slots))]
		if seen[s] {
			continue
		}
		seen[s] = true
		undoList = append(undoList, saved{s, *s})
		*s = &Paren{X: *s}
	}
	return func() {
		for i := len(undoList) - 1; i >= 0; i-- {
			*undoList[i].s = undoList[i].e
		}
	}
}

// RenameAll renames every user identifier (types, members, functions, params, locals, globals, consts, overrides) with f.
// Returns an undo function.
func RenameAll(m *Module, f func(kind, old string) string) (undo func()) {
	type sv struct {
		p *string
		v string
	}
	var saved []sv
	set := func(p *string, kind string) {
		saved = append(saved, sv{p, *p})
		*p = f(kind, *p)
	}
	seenV := map[*Var]bool{}
	renameVar := func(v *Var, kind string) {
		if v == nil || seenV[v] || v.Alias != nil {
			return
		}
		seenV[v] = true
		set(&v.Name, kind)
	}
	var aliases []*Var
	for i := range m.Decls {
		d := &m.Decls[i]
		switch {
		case d.Struct != nil:
			set(&d.Struct.Name, "type")
			for j := range d.Struct.Members {
				set(&d.Struct.Members[j].Name, "member")
			}
		case d.Var != nil:
			kind := "global"
			if d.Var.Kind == VConst {
				kind = "const"
			} else if d.Var.Kind == VOverride {
				kind = "override"
			}
			renameVar(d.Var, kind)
		case d.Func != nil:
			kind := "function"
			if d.Func.Stage != "" {
				kind = "entry"
			}
			set(&d.Func.Name, kind)
			for _, p := range d.Func.Params {
				renameVar(p, "param")
			}
			WalkStmts(d.Func.Body, func(s Stmt) {
				if vd, ok := s.(*VarDecl); ok {
					renameVar(vd.V, "local")
				}
			}, func(e Expr) {
				if rf, ok := e.(*Ref); ok && rf.V.Alias != nil {
					aliases = append(aliases, rf.V)
				}
			})
		}
	}
	for _, a := range aliases {
		if a.Name != a.Alias.Name {
			saved = append(saved, sv{&a.Name, a.Name})
			a.Name = a.Alias.Name
		}
	}
	return func() {
		for i := len(saved) - 1; i >= 0; i-- {
			*saved[i].p = saved[i].v
		}
	}
}

// ShadowEdit renames function-scope variables (parameters, var / let / const locals) to names of module-scope
// declarations, without capturing any reference - a meaning-neutral edit that exercises scope handling:
//
//	(a) a local whose initialiser is the only place in its function that mentions module-scope declaration G is renamed
//	    to G's name (`let C = C * 2u;`: the initialiser still sees the module-scope C);
//	(b) a parameter or local is renamed to the name of a module-scope constant, variable or function that its function
//	    does not mention at all.
//
// Returns an undo function and the number of renames.
func ShadowEdit(m *Module, r interface{ Intn(int) int }, maxPerFunc int) (undo func(), n int) {
	type sv struct {
		p *string
		v string
	}
	var saved []sv
	set := func(v *Var, name string) {
		saved = append(saved, sv{&v.Name, v.Name})
		v.Name = name
		n++
	}
	// module-scope names
	type modDecl struct {
		name string
		v    *Var
		f    *Func
	}
	var mods []modDecl
	for i := range m.Decls {
		d := &m.Decls[i]
		switch {
		case d.Var != nil:
			mods = append(mods, modDecl{name: d.Var.Name, v: d.Var})
		case d.Func != nil && d.Func.Stage == "":
			mods = append(mods, modDecl{name: d.Func.Name, f: d.Func})
		}
	}
	var aliases []*Var
	for i := range m.Decls {
		f := m.Decls[i].Func
		if f == nil {
			continue
		}
		// references of the function to module-scope declarations (by name)
		refCount := map[string]int{}
		note := func(e Expr) {
			switch x := e.(type) {
			case *Ref:
				if x.V.Alias != nil {
					aliases = append(aliases, x.V)
				}
				refCount[x.V.Name]++
			case *CallE:
				refCount[x.F.Name]++
			}
		}
		var locals []*VarDecl
		WalkStmts(f.Body, func(s Stmt) {
			if vd, ok := s.(*VarDecl); ok {
				// a name the function already declares itself (ShadowOuterNames may have put a module-scope name
				// on a nested local) counts as mentioned: it is not free for another declaration of the function
				refCount[vd.V.Name] += 2
				if vd.V.Alias == nil {
					locals = append(locals, vd)
				}
			}
		}, note)
		for _, p := range f.Params {
			refCount[p.Name] += 2
		}
		for k := 0; k < 3; k++ {
			if f.WG[k] != nil {
				WalkExpr(f.WG[k], note)
			}
		}
		done := 0
		usedNames := map[string]bool{}
		// (a) self-shadowing initialisers
		for _, vd := range locals {
			if done >= maxPerFunc || vd.Init == nil || r.Intn(2) == 0 {
				continue
			}
			inInit := map[string]int{}
			WalkExpr(vd.Init, func(e Expr) {
				if x, ok := e.(*Ref); ok && x.V.Module && (x.V.Kind == VConst || x.V.Kind == VGlobal || x.V.Kind == VOverride) {
					inInit[x.V.Name]++
				}
			})
			for name, c := range inInit {
				if c == refCount[name] && !usedNames[name] && name != vd.V.Name {
					set(vd.V, name)
					usedNames[name] = true
					done++
					break
				}
			}
		}
		// (b) names of module-scope declarations the function never mentions
		var free []string
		for _, md := range mods {
			if refCount[md.name] == 0 && !usedNames[md.name] && md.f != f {
				free = append(free, md.name)
			}
		}
		cands := append([]*Var(nil), f.Params...)
		for _, vd := range locals {
			cands = append(cands, vd.V)
		}
		for _, v := range cands {
			if done >= maxPerFunc || len(free) == 0 {
				break
			}
			already := false
			for _, s := range saved {
				if s.p == &v.Name {
					already = true
				}
			}
			if already || r.Intn(3) != 0 {
				continue
			}
			k := r.Intn(len(free))
			set(v, free[k])
			usedNames[free[k]] = true
			free = append(free[:k], free[k+1:]...)
			done++
		}
	}
	for _, a := range aliases {
		if a.Name != a.Alias.Name {
			saved = append(saved, sv{&a.Name, a.Name})
			a.Name = a.Alias.Name
		}
	}
	return func() {
		for i := len(saved) - 1; i >= 0; i-- {
			*saved[i].p = saved[i].v
		}
	}, n
}

// ReuseLocalNames renames the var / let / const locals of every function so that names are reused wherever WGSL
// scoping allows it: the k-th live local of a function is called n<k>, a name becomes free again when the compound
// statement that declared it ends, and every function starts from n0. Sibling scopes, consecutive loops and different
// functions therefore declare the same names for unrelated variables of unrelated types - meaning-neutral (no local
// is ever live together with another of the same name), but hostile to symbol tables that are not scoped or not reset.
func ReuseLocalNames(m *Module) int {
	n := 0
	var list func(ss []Stmt, live int) int
	var one func(s Stmt, live int) int
	name := func(v *Var, live int) {
		if v.Alias == nil {
			v.Name = fmt.Sprintf("n%d", live)
			n++
		}
	}
	one = func(s Stmt, live int) int {
		switch s := s.(type) {
		case *VarDecl:
			name(s.V, live)
			return live + 1
		case *If:
			list(s.Then, live)
			list(s.Else, live)
		case *Switch:
			for i := range s.Cases {
				list(s.Cases[i].Body, live)
			}
		case *Loop:
			l2 := list(s.Body, live)
			list(s.Continuing, l2) // the continuing block sees the body's declarations
		case *For:
			l2 := live
			if s.Init != nil {
				l2 = one(s.Init, live)
			}
			list(s.Body, l2)
		case *While:
			list(s.Body, live)
		case *Block:
			list(s.Body, live)
		}
		return live
	}
	list = func(ss []Stmt, live int) int {
		for _, s := range ss {
			live = one(s, live)
		}
		return live
	}
	for i := range m.Decls {
		if f := m.Decls[i].Func; f != nil {
			list(f.Body, 0)
			// read-only views of a variable (loop counters inside their body) carry a copy of its name
			WalkStmts(f.Body, func(Stmt) {}, func(e Expr) {
				if r, ok := e.(*Ref); ok && r.V.Alias != nil {
					root := r.V.Alias
					for root.Alias != nil {
						root = root.Alias
					}
					r.V.Name = root.Name
				}
			})
		}
	}
	return n
}

// ShadowOuterNames renames locals declared in nested scopes to names that are visible there from outside - an outer
// local or parameter of the function, or a module-scope constant / variable / override / function - whenever that is
// meaning-neutral: the outer name is not mentioned anywhere in the scope of the renamed local, and nothing in that scope
// (nor a sibling in the same scope) declares the name again. The initialiser of the renamed local is outside its scope
// and may well mention the outer entity (`let K = K + 1;`). Unlike ShadowEdit the function as a whole DOES use the
// shadowed entity, before the block, in the initialiser, or after the block ends. Returns an undo function and the
// number of renames.
func ShadowOuterNames(m *Module, r interface{ Intn(int) int }, maxPerFunc int) (undo func(), n int) {
	type sv struct {
		v    *Var
		name string
	}
	var saved []sv
	var modNames []string
	for i := range m.Decls {
		d := &m.Decls[i]
		switch {
		case d.Var != nil:
			modNames = append(modNames, d.Var.Name)
		case d.Func != nil && d.Func.Stage == "":
			modNames = append(modNames, d.Func.Name)
		}
	}
	// variables that have read-only views (loop counters) keep their names
	viewed := map[*Var]bool{}
	WalkModule(m, nil, func(e Expr) {
		if x, ok := e.(*Ref); ok && x.V.Alias != nil {
			viewed[x.V.Alias] = true
			viewed[x.V] = true
		}
	})
	mentions := func(ss []Stmt, name string) bool {
		found := false
		WalkStmts(ss, func(s Stmt) {
			if vd, ok := s.(*VarDecl); ok && vd.V.Name == name {
				found = true // declared again somewhere inside
			}
		}, func(e Expr) {
			switch x := e.(type) {
			case *Ref:
				if x.V.Name == name {
					found = true
				}
			case *CallE:
				if x.F.Name == name {
					found = true
				}
			}
		})
		return found
	}
	for i := range m.Decls {
		f := m.Decls[i].Func
		if f == nil {
			continue
		}
		done := 0
		var walk func(list []Stmt, outer []string, depth int, frozen bool)
		walk = func(list []Stmt, outer []string, depth int, frozen bool) {
			var here []string // names declared directly in this list so far
			for si, s := range list {
				if vd, ok := s.(*VarDecl); ok {
					if depth > 0 && !frozen && done < maxPerFunc && vd.V.Alias == nil && !viewed[vd.V] && r.Intn(3) == 0 {
						cands := append(append([]string{}, outer...), modNames...)
						for tries := 0; tries < 4 && len(cands) > 0; tries++ {
							x := cands[r.Intn(len(cands))]
							if x == vd.V.Name || mentions(list[si+1:], x) {
								continue
							}
							sibling := false
							for _, o := range list {
								if od, ok := o.(*VarDecl); ok && od != vd && od.V.Name == x {
									sibling = true
								}
							}
							if sibling {
								continue
							}
							saved = append(saved, sv{vd.V, vd.V.Name})
							vd.V.Name = x
							done++
							n++
							break
						}
					}
					here = append(here, vd.V.Name)
				}
				inner := append(append([]string{}, outer...), here...)
				if fs, ok := s.(*For); ok && fs.Init != nil {
					if vd, ok := fs.Init.(*VarDecl); ok {
						inner = append(inner, vd.V.Name)
					}
				}
				if lp, ok := s.(*Loop); ok {
					// the continuing block sees the body's declarations: treat body + continuing as one scope for naming
					// (so the direct children of the body keep their names)
					walk(lp.Body, inner, depth+1, len(lp.Continuing) > 0 || lp.BreakIf != nil)
					walk(lp.Continuing, inner, depth+1, true)
					continue
				}
				for _, nb := range StmtBlocks(s) {
					walk(*nb, inner, depth+1, false)
				}
			}
		}
		var params []string
		for _, p := range f.Params {
			params = append(params, p.Name)
		}
		walk(f.Body, params, 0, false)
	}
	return func() {
		for k := len(saved) - 1; k >= 0; k-- {
			saved[k].v.Name = saved[k].name
		}
	}, n
}
