package wgen

// Gates: generator features that trigger a KNOWN finding in the pinned naga tree (see /verif/KNOWN_FINDINGS and
// DESIGN.md §9). The random campaigns run with these switched off so that ANY divergence they see is new; each
// finding's committed witness is replayed separately on every run.
var Gates = map[string]string{
	"ptr-param-compound":        "F01 compound assignment through a pointer parameter lowers without a Load",
	"var-noinit-in-loop":        "F06 `var x: T;` inside a loop body is zeroed once per call, not per iteration",
	"abstract.builtin":          "F12 builtin calls (min/max/abs) in abstract const-expressions at module scope are rejected",
	"abstract.neg-compound":     "F12 negation of a parenthesised abstract expression in a module-scope const is rejected",
	"const.module-array":        "F13 indexing a module-scope const array and then taking a component/member is rejected",
	"const.mat-binary":          "F17 binary + - on two constant matrices is folded to a wrongly typed value",
	"ptr.mat-column":            "F18 &m[i] (pointer to a matrix column) as call argument is rejected",
	"ptr-param.swizzle":         "F19 multi-component swizzle of a dereferenced pointer parameter: load rule not applied",
	"override-nonarith-op":      "F09 ProcessOverrides evaluates only + - * /",
}

// SafeOff returns an Off map with every gate closed, plus extra.
func SafeOff(extra ...string) map[string]bool {
	m := map[string]bool{}
	for k := range Gates {
		m[k] = true
	}
	for _, e := range extra {
		m[e] = true
	}
	return m
}
