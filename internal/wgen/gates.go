package wgen

// Gates: generator features that trigger a KNOWN finding in the pinned naga tree (see /verif/KNOWN_FINDINGS and
// DESIGN.md §9). The random campaigns run with these switched off so that ANY divergence they see is new; each
// finding's committed witness is replayed separately on every run.
var Gates = map[string]string{
	"ptr-param-compound":        "F01 compound assignment through a pointer parameter lowers without a Load",
	"var-noinit-in-loop":        "F06 `var x: T;` inside a loop body is zeroed once per call, not per iteration",
	"abstract.builtin":          "F12 builtin calls (min/max/abs) in abstract const-expressions at module scope are rejected",
	"abstract.neg-compound":     "F12 negation of a parenthesised abstract expression in a module-scope const is rejected",
	"const.module-array":        "F13 indexing a module-scope const array and then taking a component/member is rejected",
	"const.mat-binary":          "F17 binary + - on two constant matrices is folded to a wrongly typed value",
	"ptr.mat-column":            "F18 &m[i] (pointer to a matrix column) as call argument is rejected",
	"ptr-param.swizzle":         "F19 multi-component swizzle of a dereferenced pointer parameter: load rule not applied",
	"private.implicit-init":     "F20/F21 SPIR-V: initialisers of private globals are dropped and uninitialised private/function variables are not zeroed",
	"decl.var-noinit":           "F21 SPIR-V: `var x: T;` without initialiser is left undefined instead of zero",
	"shift.raw":                 "F22 run-time shift amounts are not reduced modulo the bit width (undefined in SPIR-V/GLSL)",
	"clamp.int-unordered":       "F23 integer clamp(e, low, high) with low > high maps to S/UClamp whose result is undefined",
	"bits.unclamped-range":      "F24 extractBits/insertBits offset+count beyond 32 is not clamped (undefined in SPIR-V)",
	"f2i.raw":                   "F25 SPIR-V: f32->i32/u32 conversion of out-of-range values is a bare OpConvertFToS/U (undefined)",
	"attr.align.nested":         "F26 AlignOf(struct) ignores @align of its members: a struct with an over-aligned member is misplaced when nested",
	"fn.countLeadingZeros":      "F27 SPIR-V: countLeadingZeros is a bare FindUMsb (wrong for every input)",
	"fn.countTrailingZeros":     "F27 SPIR-V: countTrailingZeros(0) yields -1 instead of 32 (bare FindILsb)",
	"fn.abs.u32":                "F29 SPIR-V: abs() on u32 is emitted as SAbs (wrong for values >= 2^31)",
	"const.module-vec":          "F30 SPIR-V: module-scope const vectors used through a non-literal constant index or bitcast read as zero",
	"abstract.mixed-int-divmod": "F149 an abstract-int / or % inside an abstract-float expression: the division is evaluated in floating point, the remainder is rejected (module-scope constants)",
	"op.%.f32":                  "F31 SPIR-V: f32 % is OpFMod (sign of divisor) instead of the truncated remainder",
	"let.composite-load":        "F32 `let x = <composite in a buffer/variable>` is not snapshotted: later reads of x see later stores",
	"abstract.neg-neg":          "F33 `-(-N)` in an abstract const-expression is evaluated as float and its bits stored in an integer",
	"index.dynamic-on-value":    "F34 SPIR-V: dynamic indexing of a let-bound composite spills it inside the first using block; later uses read an undefined variable",
	"atomic.store-expr":         "F46 atomicStore(&a, expr): the Store precedes the Emit of its value expression (ill-formed IR)",
	"override.init-const-ref":   "F102 an override initialiser that mentions a module constant, a conversion or a built-in call is dropped as a whole (no default)",
	"override-nonarith-op":      "F09 ProcessOverrides evaluates only + - * /",
}

// SafeOff returns an Off map with every gate closed, plus extra.
func SafeOff(extra ...string) map[string]bool {
	m := map[string]bool{}
	for k := range Gates {
		m[k] = true
	}
	for _, e := range extra {
		m[e] = true
	}
	return m
}
