package wgen

import (
	"fmt"
	"math"
	"strconv"
	"strings"
)

// Token is one entry of the printer's token table.
type Token struct {
	Text string
	Off  int // byte offset in the source
	Line int // 1-based
	Col  int // 1-based, in bytes
	Role string
	// Role vocabulary: "ident", "kw", "num", "op", "punct",
	// "open:(call" "close:)call" "open:(paren" "close:)paren" "open:(ctor" "close:)ctor" "open:(cond" "close:)cond"
	// "open:[" "close:]" "open:{" "close:}" "open:<" "close:>" "semi:<stmtkind>" "comma:<list>" "trail-comma-ok:<list>"
	Decl int // index of the enclosing module-scope declaration (-1 outside)
	Fn   string
}

type Printed struct {
	Src      string
	Tokens   []Token
	DeclSpan [][2]int // per module decl: first and last line (1-based)
}

type printer struct {
	sb      strings.Builder
	toks    []Token
	line    int
	col     int
	indent  int
	bol     bool // at beginning of line
	noSpace bool // previous token forbids a following space
	decl    int
	fn      string
	m       *Module
}

func Print(m *Module) *Printed {
	p := &printer{line: 1, col: 1, bol: true, decl: -1, m: m}
	out := &Printed{}
	for _, e := range m.Enables {
		p.tok("enable", "kw")
		p.tok(e, "ident")
		p.semi("enable")
		p.nl()
	}
	for i, d := range m.Decls {
		p.decl = i
		startLine := p.line
		p.printDecl(d)
		out.DeclSpan = append(out.DeclSpan, [2]int{startLine, p.line})
		p.nl()
		p.nl()
	}
	out.Src = p.sb.String()
	out.Tokens = p.toks
	return out
}

func (p *printer) raw(s string) {
	p.sb.WriteString(s)
	for i := 0; i < len(s); i++ {
		if s[i] == '\n' {
			p.line++
			p.col = 1
		} else {
			p.col++
		}
	}
}

func (p *printer) nl() {
	p.raw("\n")
	p.bol = true
	p.noSpace = false
}

// tokG emits a token; glueL: no space before, glueR: no space after.
func (p *printer) tokG(text, role string, glueL, glueR bool) {
	if p.bol {
		p.raw(strings.Repeat("    ", p.indent))
		p.bol = false
	} else if !glueL && !p.noSpace {
		p.raw(" ")
	}
	p.toks = append(p.toks, Token{Text: text, Off: p.sb.Len(), Line: p.line, Col: p.col, Role: role, Decl: p.decl, Fn: p.fn})
	p.raw(text)
	p.noSpace = glueR
}
func (p *printer) tok(text, role string) { p.tokG(text, role, false, false) }
func (p *printer) semi(kind string)      { p.tokG(";", "semi:"+kind, true, false) }
func (p *printer) comma(list string)     { p.tokG(",", "comma:"+list, true, false) }
func (p *printer) open(ch, what string) {
	p.tokG(ch, "open:"+ch+what, what != "paren" && what != "cond" && ch != "{", ch != "{")
}
func (p *printer) close(ch, what string) { p.tokG(ch, "close:"+ch+what, ch != "}", false) }

func (p *printer) typ(t *Type) {
	if a, ok := p.m.AliasOf[t]; ok && a != nil {
		p.tok(a.Name, "ident")
		return
	}
	p.typNoAlias(t)
}

func (p *printer) typNoAlias(t *Type) {
	switch t.Kind {
	case KVec:
		p.tok(fmt.Sprintf("vec%d", t.N), "kw")
		p.open("<", "")
		p.typ(t.Elem)
		p.close(">", "")
	case KMat:
		p.tok(fmt.Sprintf("mat%dx%d", t.N, t.R), "kw")
		p.open("<", "")
		p.typ(t.Elem)
		p.close(">", "")
	case KArray:
		p.tok("array", "kw")
		p.open("<", "")
		p.typ(t.Elem)
		if t.N != 0 {
			p.comma("template")
			p.tok(strconv.Itoa(t.N), "num")
		}
		p.close(">", "")
	case KAtomic:
		p.tok("atomic", "kw")
		p.open("<", "")
		p.typ(t.Elem)
		p.close(">", "")
	case KPtr:
		p.tok("ptr", "kw")
		p.open("<", "")
		p.tok(t.Space, "kw")
		p.comma("template")
		p.typ(t.Elem)
		if t.Space == "storage" && t.Access != "" {
			p.comma("template")
			p.tok(t.Access, "kw")
		}
		p.close(">", "")
	case KStruct:
		p.tok(t.Name, "ident")
	default:
		p.tok(t.String(), "kw")
	}
}

func (p *printer) printDecl(d Decl) {
	switch {
	case d.Raw != "":
		p.tok(d.Raw, "raw")
	case d.Struct != nil:
		t := d.Struct
		p.tok("struct", "kw")
		p.tok(t.Name, "ident")
		p.open("{", "struct")
		p.nl()
		p.indent++
		for _, m := range t.Members {
			if m.Align != 0 {
				p.attr("align", strconv.Itoa(m.Align)+m.AttrSuffix)
			}
			if m.Size != 0 {
				p.attr("size", strconv.Itoa(m.Size)+m.AttrSuffix)
			}
			p.tok(m.Name, "ident")
			p.tokG(":", "punct", true, false)
			p.typ(m.Type)
			p.tokG(",", "trail-comma-ok:struct", true, false)
			p.nl()
		}
		p.indent--
		p.close("}", "struct")
	case d.Alias != nil:
		p.tok("alias", "kw")
		p.tok(d.Alias.Name, "ident")
		p.tok("=", "op")
		p.typNoAlias(d.Alias.Ty)
		p.semi("alias")
	case d.Assert != nil:
		p.tok("const_assert", "kw")
		p.expr(d.Assert.X, true)
		p.semi("const_assert")
	case d.Var != nil:
		p.globalVar(d.Var)
	case d.Func != nil:
		p.fnDecl(d.Func)
	}
}

func (p *printer) attr(name string, args ...string) {
	p.tokG("@", "punct", false, true)
	p.tok(name, "kw")
	if len(args) > 0 {
		p.open("(", "attr")
		for i, a := range args {
			if i > 0 {
				p.comma("attr")
			}
			p.tok(a, "num")
		}
		p.close(")", "attr")
	}
}

func (p *printer) globalVar(v *Var) {
	switch v.Kind {
	case VGlobal:
		if v.Space == "storage" || v.Space == "uniform" {
			if !v.DropGroup {
				p.attr("group", strconv.Itoa(v.Group))
			}
			if !v.DropBinding {
				p.attr("binding", strconv.Itoa(v.Binding))
			}
		}
		p.tok("var", "kw")
		if v.Space != "" {
			p.open("<", "")
			p.tok(v.Space, "kw")
			if v.Space == "storage" && v.Access != "" && (v.Access != "read") {
				p.comma("template")
				p.tok(v.Access, "kw")
			}
			p.close(">", "")
		}
		p.tok(v.Name, "ident")
		p.tokG(":", "punct", true, false)
		p.typ(v.Ty)
		if v.Init != nil {
			p.tok("=", "op")
			p.expr(v.Init, true)
		}
		p.semi("gvar")
	case VConst:
		p.tok("const", "kw")
		p.tok(v.Name, "ident")
		if v.HasType {
			p.tokG(":", "punct", true, false)
			p.typ(v.Ty)
		}
		p.tok("=", "op")
		p.expr(v.Init, true)
		p.semi("gconst")
	case VOverride:
		if v.ID >= 0 {
			p.attr("id", strconv.Itoa(v.ID))
		}
		p.tok("override", "kw")
		p.tok(v.Name, "ident")
		if v.HasType || v.Init == nil {
			p.tokG(":", "punct", true, false)
			p.typ(v.Ty)
		}
		if v.Init != nil {
			p.tok("=", "op")
			p.expr(v.Init, true)
		}
		p.semi("override")
	}
}

func (p *printer) fnDecl(f *Func) {
	p.fn = f.Name
	defer func() { p.fn = "" }()
	if f.MustUse {
		p.attr("must_use")
		p.nl()
	}
	switch f.Stage {
	case "compute":
		p.attr("compute")
		if f.NoWGSize {
			p.nl()
			break
		}
		p.tokG("@", "punct", false, true)
		p.tok("workgroup_size", "kw")
		p.open("(", "attr")
		n := f.WGDims
		if n == 0 {
			n = 3
		}
		for i := 0; i < n; i++ {
			if i > 0 {
				p.comma("attr")
			}
			p.expr(f.WG[i], true)
		}
		p.close(")", "attr")
		p.nl()
	case "vertex", "fragment":
		p.attr(f.Stage)
		p.nl()
	}
	p.tok("fn", "kw")
	p.tok(f.Name, "ident")
	p.open("(", "params")
	for i, a := range f.Params {
		if i > 0 {
			p.comma("params")
		}
		if a.Builtin != "" {
			p.tokG("@", "punct", false, true)
			p.tok("builtin", "kw")
			p.open("(", "attr")
			p.tok(a.Builtin, "kw")
			p.close(")", "attr")
		}
		p.tok(a.Name, "ident")
		p.tokG(":", "punct", true, false)
		p.typ(a.Ty)
	}
	p.close(")", "params")
	if f.Ret != nil {
		p.tok("->", "op")
		p.typ(f.Ret)
	}
	p.block(f.Body, "fn")
}

func (p *printer) block(b []Stmt, what string) {
	p.open("{", what)
	p.nl()
	p.indent++
	for _, s := range b {
		p.stmt(s)
		p.nl()
	}
	p.indent--
	p.close("}", what)
}

func (p *printer) stmt(s Stmt) {
	switch s := s.(type) {
	case *VarDecl:
		p.varDeclNoSemi(s)
		p.semi("decl")
	case *Assign:
		p.assignNoSemi(s)
		p.semi("assign")
	case *IncDec:
		p.incDecNoSemi(s)
		p.semi("incdec")
	case *If:
		p.ifStmt(s)
	case *Switch:
		p.tok("switch", "kw")
		p.expr(s.Sel, true)
		p.open("{", "switch")
		p.nl()
		p.indent++
		for _, c := range s.Cases {
			if c.Default && len(c.Sels) == 0 {
				p.tok("default", "kw")
			} else {
				p.tok("case", "kw")
				n := len(c.Sels)
				if c.Default {
					n++
				}
				si := 0
				for i := 0; i < n; i++ {
					if i > 0 {
						p.comma("case")
					}
					if c.Default && i == c.DefaultPos {
						p.tok("default", "kw")
					} else {
						p.expr(c.Sels[si], false)
						si++
					}
				}
			}
			p.tokG(":", "punct", true, false)
			p.block(c.Body, "case")
			p.nl()
		}
		p.indent--
		p.close("}", "switch")
	case *Loop:
		p.tok("loop", "kw")
		p.open("{", "loop")
		p.nl()
		p.indent++
		for _, x := range s.Body {
			p.stmt(x)
			p.nl()
		}
		if s.HasCont || len(s.Continuing) > 0 || s.BreakIf != nil {
			p.tok("continuing", "kw")
			p.open("{", "continuing")
			p.nl()
			p.indent++
			for _, x := range s.Continuing {
				p.stmt(x)
				p.nl()
			}
			if s.BreakIf != nil {
				p.tok("break", "kw")
				p.tok("if", "kw")
				p.expr(s.BreakIf, true)
				p.semi("breakif")
				p.nl()
			}
			p.indent--
			p.close("}", "continuing")
			p.nl()
		}
		p.indent--
		p.close("}", "loop")
	case *For:
		p.tok("for", "kw")
		p.open("(", "for")
		switch i := s.Init.(type) {
		case *VarDecl:
			p.varDeclNoSemi(i)
		case *Assign:
			p.assignNoSemi(i)
		}
		p.semi("for1")
		if s.Cond != nil {
			p.expr(s.Cond, true)
		}
		p.semi("for2")
		switch i := s.Post.(type) {
		case *Assign:
			p.assignNoSemi(i)
		case *IncDec:
			p.incDecNoSemi(i)
		case *CallS:
			p.expr(i.C, true)
		}
		p.close(")", "for")
		p.block(s.Body, "for")
	case *While:
		p.tok("while", "kw")
		p.expr(s.Cond, true)
		p.block(s.Body, "while")
	case *Break:
		p.tok("break", "kw")
		p.semi("break")
	case *Continue:
		p.tok("continue", "kw")
		p.semi("continue")
	case *Return:
		p.tok("return", "kw")
		if s.X != nil {
			p.expr(s.X, true)
		}
		p.semi("return")
	case *CallS:
		p.expr(s.C, true)
		p.semi("call")
	case *BuiltinS:
		p.expr(s.B, true)
		p.semi("call")
	case *Block:
		p.block(s.Body, "block")
	case *ConstAssert:
		p.tok("const_assert", "kw")
		p.expr(s.X, true)
		p.semi("const_assert")
	case *RawStmt:
		p.tok(s.Text, "raw")
	default:
		panic(fmt.Sprintf("print: unknown stmt %T", s))
	}
}

func (p *printer) ifStmt(s *If) {
	p.tok("if", "kw")
	p.expr(s.Cond, true)
	p.block(s.Then, "if")
	if s.HasElse || len(s.Else) > 0 {
		p.tok("else", "kw")
		if len(s.Else) == 1 {
			if ei, ok := s.Else[0].(*If); ok {
				p.ifStmt(ei)
				return
			}
		}
		p.block(s.Else, "else")
	}
}

func (p *printer) varDeclNoSemi(s *VarDecl) {
	v := s.V
	switch v.Kind {
	case VLocal:
		p.tok("var", "kw")
	case VLet:
		p.tok("let", "kw")
	case VConst:
		p.tok("const", "kw")
	}
	p.tok(v.Name, "ident")
	if v.HasType || s.Init == nil {
		p.tokG(":", "punct", true, false)
		p.typ(v.Ty)
	}
	if s.Init != nil {
		p.tok("=", "op")
		p.expr(s.Init, true)
	}
}

func (p *printer) assignNoSemi(s *Assign) {
	if s.LHS == nil {
		p.tok("_", "kw")
	} else {
		p.expr(s.LHS, true)
	}
	p.tok(s.Op, "op")
	p.expr(s.RHS, true)
}

func (p *printer) incDecNoSemi(s *IncDec) {
	p.expr(s.LHS, true)
	if s.Inc {
		p.tokG("++", "op", true, false)
	} else {
		p.tokG("--", "op", true, false)
	}
}

// FormatLit returns the canonical WGSL spelling of a literal.
func FormatLit(e *Lit) string {
	if e.Text != "" {
		return e.Text
	}
	switch e.Ty.Kind {
	case KBool:
		if e.I != 0 {
			return "true"
		}
		return "false"
	case KI32:
		if e.I == math.MinInt32 {
			return "i32(-2147483648)"
		}
		return strconv.FormatInt(e.I, 10) + "i"
	case KU32:
		return strconv.FormatUint(uint64(uint32(e.I)), 10) + "u"
	case KAbsInt:
		return strconv.FormatInt(e.I, 10)
	case KF32:
		return fmtFloat(float64(float32(e.F))) + "f"
	case KF16:
		return fmtFloat(e.F) + "h"
	case KAbsFloat:
		return fmtFloat(e.F)
	}
	return "?"
}

func fmtFloat(f float64) string {
	s := strconv.FormatFloat(f, 'g', -1, 64)
	if strings.ContainsAny(s, "e") {
		// WGSL accepts 1e+20 style? exponent sign allowed. keep but make sure mantissa form is fine.
		return s
	}
	if !strings.Contains(s, ".") {
		s += ".0"
	}
	return s
}

func isNegLit(e Expr) bool {
	if l, ok := e.(*Lit); ok {
		if l.Text != "" {
			return strings.HasPrefix(l.Text, "-")
		}
		switch l.Ty.Kind {
		case KI32, KAbsInt:
			return l.I < 0 && l.I != math.MinInt32
		case KF32, KAbsFloat, KF16:
			return l.F < 0 || (l.F == 0 && math.Signbit(l.F))
		}
	}
	return false
}

var swz = [2]string{"xyzw", "rgba"}

// expr prints e; top: e is in a position where a bare binary expression cannot be misparsed.
func (p *printer) expr(e Expr, top bool) {
	switch e := e.(type) {
	case *Lit:
		s := FormatLit(e)
		if strings.HasPrefix(s, "-") {
			if !top {
				p.open("(", "paren")
			}
			p.tokG("-", "op", false, true)
			p.tok(s[1:], "num")
			if !top {
				p.close(")", "paren")
			}
			return
		}
		if strings.HasPrefix(s, "i32(") {
			p.tok("i32", "kw")
			p.open("(", "ctor")
			p.tokG("-", "op", false, true)
			p.tok("2147483648", "num")
			p.close(")", "ctor")
			return
		}
		role := "num"
		if e.Ty.Kind == KBool {
			role = "kw"
		}
		p.tok(s, role)
	case *Ref:
		p.tok(e.V.Name, "ident")
	case *RawExpr:
		p.tok(e.Text, "raw")
	case *Materialize:
		p.expr(e.X, top)
	case *Paren:
		p.open("(", "paren")
		p.expr(e.X, true)
		p.close(")", "paren")
	case *Unary:
		if !top {
			p.open("(", "paren")
		}
		p.tokG(e.Op, "op", false, true)
		p.expr(e.X, false)
		if !top {
			p.close(")", "paren")
		}
	case *Binary:
		if !top {
			p.open("(", "paren")
		}
		p.expr(e.L, false)
		p.tok(e.Op, "op")
		p.expr(e.R, false)
		if !top {
			p.close(")", "paren")
		}
	case *CallE:
		p.tok(e.F.Name, "ident")
		p.open("(", "call")
		for i, a := range e.Args {
			if i > 0 {
				p.comma("call")
			}
			p.expr(a, false)
		}
		p.close(")", "call")
	case *Builtin:
		p.tok(e.Name, "ident")
		if e.TArg != nil {
			p.open("<", "")
			p.typ(e.TArg)
			p.close(">", "")
		}
		p.open("(", "call")
		for i, a := range e.Args {
			if i > 0 {
				p.comma("call")
			}
			p.expr(a, false)
		}
		p.close(")", "call")
	case *Cons:
		if e.Infer {
			switch e.Ty.Kind {
			case KVec:
				p.tok(fmt.Sprintf("vec%d", e.Ty.N), "kw")
			case KMat:
				p.tok(fmt.Sprintf("mat%dx%d", e.Ty.N, e.Ty.R), "kw")
			case KArray:
				p.tok("array", "kw")
			default:
				p.typ(e.Ty)
			}
		} else {
			p.typ(e.Ty)
		}
		p.open("(", "ctor")
		for i, a := range e.Args {
			if i > 0 {
				p.comma("ctor")
			}
			p.expr(a, false)
		}
		p.close(")", "ctor")
	case *Index:
		p.postfixBase(e.X)
		p.open("[", "")
		p.expr(e.I, true)
		p.close("]", "")
	case *Field:
		p.postfixBase(e.X)
		p.tokG(".", "punct", true, true)
		st := derefType(e.X.T())
		if e.Raw != "" {
			p.tok(e.Raw, "ident")
		} else {
			p.tok(st.Members[e.Idx].Name, "ident")
		}
	case *Swiz:
		p.postfixBase(e.X)
		p.tokG(".", "punct", true, true)
		var sb strings.Builder
		set := swz[0]
		if e.RGBA {
			set = swz[1]
		}
		for _, c := range e.Comps {
			sb.WriteByte(set[c])
		}
		if e.Raw != "" {
			p.tok(e.Raw, "ident")
		} else {
			p.tok(sb.String(), "ident")
		}
	case *AddrOf:
		if !top {
			p.open("(", "paren")
		}
		p.tokG("&", "op", false, true)
		p.expr(e.X, false)
		if !top {
			p.close(")", "paren")
		}
	case *Deref:
		if !top {
			p.open("(", "paren")
		}
		p.tokG("*", "op", false, true)
		p.expr(e.X, false)
		if !top {
			p.close(")", "paren")
		}
	default:
		panic(fmt.Sprintf("print: unknown expr %T", e))
	}
}

func derefType(t *Type) *Type {
	if t.Kind == KPtr {
		return t.Elem
	}
	return t
}

// postfixBase prints the base of a postfix expression (needs parens around unary/binary/deref/addr-of/neg literals).
func (p *printer) postfixBase(x Expr) {
	switch x.(type) {
	case *Ref, *CallE, *Builtin, *Cons, *Index, *Field, *Swiz, *Paren, *RawExpr:
		p.expr(x, false)
	case *Materialize:
		p.postfixBase(x.(*Materialize).X)
	default:
		if l, ok := x.(*Lit); ok && !isNegLit(l) {
			p.expr(x, false)
			return
		}
		// expr(false) already parenthesises unary/binary/deref
		p.expr(x, false)
	}
}

// ExprString prints a single expression (used for raw embedding in injected / hand-built declarations).
func ExprString(m *Module, e Expr) string {
	p := &printer{line: 1, col: 1, bol: true, decl: -1, m: m}
	p.expr(e, true)
	return p.sb.String()
}
