package wgen

import (
	"fmt"

	"verif/internal/run"
)

// Program is a generated module with everything the checks need.
type Program struct {
	M    *Module
	Feat map[string]bool
	Seed uint64
}

func New(seed uint64, cfg Config) *Gen {
	g := &Gen{R: run.NewRng(seed), Cfg: cfg, Feat: map[string]bool{}, access: map[*Func]map[*Var]bool{}, writes: map[*Func]bool{}}
	g.U = NewUniverse()
	g.M = &Module{U: g.U, AliasOf: map[*Type]*Alias{}}
	if g.Cfg.Off == nil {
		g.Cfg.Off = map[string]bool{}
	}
	return g
}

// hostScalar picks a host-shareable scalar.
func (g *Gen) hostScalar() *Type { return []*Type{I32, U32, F32}[g.R.Intn(3)] }

// hostType generates a host-shareable, fixed-size type for storage buffers.
func (g *Gen) hostType(depth int, uniform bool) *Type {
	r := g.R
	w := []int{5, 5, 2, 3, 3}
	if depth <= 0 {
		w = []int{5, 5, 2, 0, 0}
	}
	if !g.on("matrices") {
		w[2] = 0
	}
	switch r.Pick(w) {
	case 0:
		return g.hostScalar()
	case 1:
		return g.U.Vec(r.Range(2, 4), g.hostScalar())
	case 2:
		rows := r.Range(2, 4)
		if rows == 2 && !g.on("type.matCx2") {
			rows = 3
		}
		if uniform && rows == 2 {
			if !g.on("uniform.matCx2") {
				rows = 4
			} else {
				g.feat("uniform.matCx2")
			}
		}
		return g.U.Mat(r.Range(2, 4), rows, F32)
	case 3:
		et := g.hostType(depth-1, uniform)
		if et.Kind == KArray {
			if !g.on("type.array-of-array") {
				et = g.hostScalar()
			} else {
				g.feat("type.array-of-array")
			}
		}
		if uniform {
			// uniform arrays need a 16-byte multiple stride: vec4 / mat with vec4 columns... keep to vec4 and 16-aligned structs
			switch r.Intn(2) {
			case 0:
				et = g.U.Vec(4, g.hostScalar())
			default:
				// (columns of 3 or 4 rows are 16-byte aligned, so every stride is a multiple of 16)
				rows := 4
				if g.on("uniform.array-of-matCx3") && r.Bool() {
					rows = 3
					g.feat("uniform.array-of-matCx3")
				}
				et = g.U.Mat(r.Range(2, 4), rows, F32)
			}
		}
		return g.U.Array(et, r.Range(1, 4))
	default:
		return g.newStruct(depth-1, uniform)
	}
}

func (g *Gen) newStruct(depth int, uniform bool, top ...bool) *Type {
	isTop := len(top) > 0 && top[0]
	r := g.R
	n := r.Range(1, 5)
	ms := make([]Member, n)
	for i := range ms {
		mt := g.hostType(depth, uniform)
		if uniform && mt.Kind == KStruct {
			// nested struct members in uniform space need 16-byte alignment: give them @align(16)
			ms[i] = Member{Name: g.name("m"), Type: mt, Align: 16}
			continue
		}
		ms[i] = Member{Name: g.name("m"), Type: mt}
		if uniform && i > 0 && ms[i-1].Type.Kind == KStruct {
			// uniform address space: the member after a struct member must start at least roundUp(16, sizeof(struct)) later
			ms[i].Align = 16
			continue
		}
		if r.Chance(1, 8) && g.on("attr.align") && (isTop || g.on("attr.align.nested")) {
			ms[i].Align = []int{16, 32}[r.Intn(2)]
			ms[i].AttrSuffix = []string{"", "", "u", "i"}[r.Intn(4)]
			g.feat("attr.align")
			if !isTop {
				g.feat("attr.align.nested")
			}
		}
	}
	t := g.U.Struct(g.name("S"), ms)
	g.structs = append(g.structs, t)
	g.M.Decls = append(g.M.Decls, Decl{Struct: t})
	return t
}

// uniform-space restrictions also apply to members following a struct (offset rounding): handled by @align(16) on struct members
// and by wlayout-based validation in the check (programs violating uniform layout constraints are regenerated there).

func (g *Gen) addGlobal(v *Var) {
	v.Module = true
	g.globals = append(g.globals, v)
	g.M.Decls = append(g.M.Decls, Decl{Var: v})
}

// Generate builds a whole compute module.
func (g *Gen) Generate() *Program {
	if g.on("profile.nest") && g.R.Chance(1, 6) {
		g.nest = true
		g.feat("profile.nest")
		var sb []byte
		for k, nk := 0, g.R.Range(2, 4); k < nk; k++ {
			sb = append(sb, "LLsSs"[g.R.Intn(5)])
		}
		if sb[0] != 'L' && g.R.Chance(2, 3) {
			sb = append([]byte{'L'}, sb...)
		}
		g.script = string(sb) + "C"
		if g.R.Bool() {
			// nests in which a forwarded break / continue has to cross two constructs of the same kind
			g.script = []string{"LsLsC", "LSLsC", "LsLSC", "LSLSC", "LLsC", "LsLC", "LLLC", "LsC", "LSC", "LLsLsC"}[g.R.Intn(10)]
		}
	}
	r := g.R
	// --- structs & resources ---
	nb := 0
	bind := func() (int, int) { nb++; return r.Intn(2), nb - 1 }
	// output buffer: struct with typed sink arrays + random members
	outMs := []Member{
		{Name: g.name("oi"), Type: g.U.Array(I32, 8)},
		{Name: g.name("ou"), Type: g.U.Array(U32, 8)},
		{Name: g.name("of"), Type: g.U.Array(F32, 8)},
	}
	for i, n := 0, r.Range(1, 4); i < n; i++ {
		outMs = append(outMs, Member{Name: g.name("m"), Type: g.hostType(2, false)})
	}
	if g.on("atomics") && r.Chance(1, 3) {
		outMs = append(outMs, Member{Name: g.name("at"), Type: g.U.Atomic([]*Type{I32, U32}[r.Intn(2)])})
		g.feat("type.atomic.storage")
	}
	if r.Chance(1, 3) && g.on("runtime-array") {
		et := []*Type{U32, I32, F32, g.U.Vec(3, F32), g.U.Vec(4, U32), g.U.Vec(2, I32)}[r.Intn(6)]
		outMs = append(outMs, Member{Name: g.name("tail"), Type: g.U.Array(et, 0)})
		g.feat("type.runtime-array.tail")
	}
	outT := g.U.Struct(g.name("Out"), outMs)
	g.structs = append(g.structs, outT)
	g.M.Decls = append(g.M.Decls, Decl{Struct: outT})
	gr, bi := bind()
	g.out = &Var{Name: g.name("outp"), Kind: VGlobal, Ty: outT, Space: "storage", Access: "read_write", Group: gr, Binding: bi}
	g.addGlobal(g.out)

	// input buffer (read-only storage)
	inT := g.newStruct(2, false, true)
	gr, bi = bind()
	g.addGlobal(&Var{Name: g.name("inp"), Kind: VGlobal, Ty: inT, Space: "storage", Access: "read", Group: gr, Binding: bi})
	// optional whole-binding runtime array
	if r.Chance(1, 3) && g.on("runtime-array") {
		et := []*Type{U32, I32, F32, g.U.Vec(4, F32), g.U.Vec(3, I32)}[r.Intn(5)]
		gr, bi = bind()
		acc := []string{"read", "read_write"}[r.Intn(2)]
		g.addGlobal(&Var{Name: g.name("rt"), Kind: VGlobal, Ty: g.U.Array(et, 0), Space: "storage", Access: acc, Group: gr, Binding: bi})
		g.feat("type.runtime-array.binding")
	}
	// optional uniform buffer
	if r.Chance(1, 2) && g.on("uniform") {
		ut := g.newStruct(1, true, true)
		gr, bi = bind()
		g.addGlobal(&Var{Name: g.name("ub"), Kind: VGlobal, Ty: ut, Space: "uniform", Group: gr, Binding: bi})
		g.feat("space.uniform")
	}
	// private / workgroup globals
	for i, n := 0, r.Intn(3); i < n; i++ {
		t := g.randValueType()
		if t.Kind == KArray {
			if !g.on("private.array") {
				t = t.Elem
			} else {
				g.feat("private.array")
			}
		}
		v := &Var{Name: g.name("pv"), Kind: VGlobal, Ty: t, Space: "private"}
		if r.Bool() && g.on("private.implicit-init") {
			for k := 0; k < 5 && v.Init == nil; k++ {
				v.Init = g.ok(g.consOrLit(t))
			}
		}
		g.addGlobal(v)
		g.feat("space.private")
	}
	if g.on("workgroup") {
		for i, n := 0, r.Intn(2); i < n; i++ {
			t := g.randValueType()
			if t.Kind == KBool || (t.Kind == KVec && t.Elem == Bool) {
				t = U32
			}
			if g.on("atomics") && r.Chance(1, 3) {
				t = g.U.Atomic(U32)
			}
			g.addGlobal(&Var{Name: g.name("wg"), Kind: VGlobal, Ty: t, Space: "workgroup"})
			g.feat("space.workgroup")
		}
	}
	// module consts
	for i, n := 0, r.Intn(4); i < n; i++ {
		t := g.randValueType()
		if !t.IsScalar() && t.Kind != KVec && !(t.Kind == KArray && t.N <= 4 && g.on("const.module-array")) {
			t = []*Type{I32, U32, F32}[r.Intn(3)]
		}
		if t.Kind == KArray {
			g.feat("const.module-array")
		}
		if t.Kind == KVec {
			if !g.on("const.module-vec") {
				t = t.Elem
			} else {
				g.feat("const.module-vec")
			}
		}
		var init Expr
		for k := 0; k < 5 && init == nil; k++ {
			if t.IsScalar() && t != Bool && r.Bool() && g.on("abstract") {
				init = g.ok(g.genAbstract(t, 2))
			} else {
				init = g.ok(g.consOrLit(t))
			}
		}
		if init == nil {
			continue
		}
		v := &Var{Name: g.name("C"), Kind: VConst, Ty: t, HasType: true, Init: init, Module: true}
		g.consts = append(g.consts, v)
		g.M.Decls = append(g.M.Decls, Decl{Var: v})
		g.feat("decl.module-const")
	}
	// overrides
	if g.Cfg.Overrides {
		g.genOverrides()
	}
	// helpers
	nh := g.Cfg.Helpers
	if nh == 0 {
		nh = r.Range(0, 3)
	}
	for i := 0; i < nh; i++ {
		g.genHelper()
	}
	// entry points
	ne := g.Cfg.Entries
	if ne == 0 {
		ne = 1
		if r.Chance(1, 5) {
			ne = 2
		}
	}
	for i := 0; i < ne; i++ {
		g.genEntry(i)
	}
	// type aliases: a few of the types the module uses are spelled through an alias everywhere (declarations,
	// constructors); the anonymous type then only occurs through its alias, which permutes type arenas
	if g.on("type.alias") && r.Chance(1, 3) {
		seen := map[*Type]bool{}
		var used []*Type
		note := func(t *Type) {
			for t != nil && !seen[t] {
				seen[t] = true
				if (t.Kind == KVec || t.Kind == KMat || t.Kind == KF32 || t.Kind == KI32 || t.Kind == KU32) && !t.IsAbstract() {
					used = append(used, t)
				}
				if t.Kind == KStruct {
					for _, m := range t.Members {
						if !seen[m.Type] {
							seen[m.Type] = true
							if (m.Type.Kind == KVec || m.Type.Kind == KMat) && !m.Type.IsAbstract() {
								used = append(used, m.Type)
							}
						}
					}
				}
				t = t.Elem
			}
		}
		for _, d := range g.M.Decls {
			switch {
			case d.Struct != nil:
				note(d.Struct)
			case d.Var != nil:
				note(d.Var.Ty)
			case d.Func != nil:
				for _, p := range d.Func.Params {
					note(p.Ty)
				}
				note(d.Func.Ret)
			}
		}
		// finding F132: a module-scope constant / variable initialiser that constructs a value through an alias
		// (const C = T34(...)) is rejected ("unsupported call expression"); such types keep their own spelling
		if !g.on("type.alias.in-module-initialiser") {
			inInit := map[*Type]bool{}
			for _, d := range g.M.Decls {
				if d.Var != nil && d.Var.Init != nil {
					WalkExpr(d.Var.Init, func(e Expr) {
						if t := e.T(); t != nil {
							for x := t; x != nil; x = x.Elem {
								inInit[x] = true
							}
						}
					})
				}
			}
			var keep []*Type
			for _, t := range used {
				if !inInit[t] {
					keep = append(keep, t)
				}
			}
			used = keep
		}
		na := r.Range(1, 2)
		for k := 0; k < na && len(used) > 0; k++ {
			i := r.Intn(len(used))
			t := used[i]
			used = append(used[:i], used[i+1:]...)
			a := &Alias{Name: g.name("T"), Ty: t}
			g.M.AliasOf[t] = a
			g.M.Decls = append([]Decl{{Alias: a}}, g.M.Decls...)
			g.feat("type.alias." + t.ShapeName())
		}
	}
	if g.on("names.reuse") && r.Chance(1, 3) {
		g.feat("names.reuse")
		ReuseLocalNames(g.M)
	}
	if g.on("names.shadow-outer") && r.Chance(1, 4) {
		if _, k := ShadowOuterNames(g.M, r, 3); k > 0 {
			g.feat("names.shadow-outer")
		}
	}
	if g.on("decl.reorder") && r.Chance(1, 2) {
		g.feat("decl.reorder")
		ds := g.M.Decls
		for i := len(ds) - 1; i > 0; i-- {
			j := r.Intn(i + 1)
			ds[i], ds[j] = ds[j], ds[i]
		}
	}
	return &Program{M: g.M, Feat: g.Feat}
}

func (g *Gen) newFnCtx(f *Func, entry bool) *fnCtx {
	fx := &fnCtx{f: f, sc: &scope{}, globals: map[*Var]bool{}, entry: entry, uniform: true, noGlobals: map[*Var]bool{}, ptrGlobals: map[*Var]bool{}}
	fx.callable = append(fx.callable, g.helpers...)
	return fx
}

func (g *Gen) genHelper() {
	r := g.R
	f := &Func{Name: g.name("fn_")}
	if r.Chance(4, 5) {
		f.Ret = g.randValueType()
	}
	fx := g.newFnCtx(f, false)
	np := r.Intn(4)
	// now and then a wide signature (5-7 parameters) that shares its return type and its first four parameter types
	// with the previous wide helper: signature caches keyed on a truncated parameter list collide on such pairs
	wide := r.Chance(1, 6)
	if wide {
		np = r.Range(5, 7)
		if g.wideSig != nil && r.Chance(2, 3) {
			f.Ret = g.wideRet
		}
		g.feat("fn.wide-signature")
	}
	for i := 0; i < np; i++ {
		var t *Type
		if wide {
			if g.wideSig != nil && i < 4 && i < len(g.wideSig) {
				t = g.wideSig[i]
			} else {
				t = g.randValueType()
			}
			if !g.on("helper.aggregate-params") && !t.IsScalar() {
				t = []*Type{I32, U32, F32, Bool}[r.Intn(4)]
			}
			p := &Var{Name: g.name("a"), Kind: VParam, Ty: t}
			f.Params = append(f.Params, p)
			fx.sc.vars = append(fx.sc.vars, p)
			continue
		}
		if r.Chance(1, 4) && g.on("ptr-params") {
			sp := "function"
			if r.Chance(1, 4) && g.on("ptr-params.private") {
				sp = "private"
			}
			t = g.U.Ptr(sp, g.randValueType(), "")
			g.feat("param.ptr." + sp)
			if sp == "private" {
				// must not touch private globals by name (the pointer may alias any of them)
				for _, v := range g.globals {
					if v.Space == "private" {
						fx.noGlobals[v] = true
					}
				}
				// and may only call helpers that do not touch private globals
				var ok []*Func
				for _, h := range fx.callable {
					clean := true
					for v := range g.access[h] {
						if v.Space == "private" {
							clean = false
						}
					}
					if clean {
						ok = append(ok, h)
					}
				}
				fx.callable = ok
			}
		} else {
			t = g.randValueType()
			if !g.on("helper.aggregate-params") && !t.IsScalar() {
				t = []*Type{I32, U32, F32, Bool}[r.Intn(4)]
			}
		}
		p := &Var{Name: g.name("a"), Kind: VParam, Ty: t}
		f.Params = append(f.Params, p)
		fx.sc.vars = append(fx.sc.vars, p)
	}
	if wide {
		g.wideSig = nil
		for _, p := range f.Params {
			g.wideSig = append(g.wideSig, p.Ty)
		}
		g.wideRet = f.Ret
	}
	g.fx = fx
	n := g.Cfg.Stmts
	if n == 0 {
		n = r.Range(2, 8)
	}
	g.push()
	body := g.genStmts(n)
	if f.Ret != nil {
		body = append(body, &Return{X: g.genExprT(f.Ret, g.depthCfg()-1)})
		if r.Chance(1, 4) {
			f.MustUse = true
			g.feat("attr.must_use")
		}
	}
	g.pop()
	f.Body = body
	g.fx = nil
	g.access[f] = fx.globals
	g.writes[f] = fx.sideFx
	g.helpers = append(g.helpers, f)
	g.M.Decls = append(g.M.Decls, Decl{Func: f})
	g.feat("decl.helper")
}

func (g *Gen) genEntry(idx int) {
	r := g.R
	f := &Func{Name: g.name("main_"), Stage: "compute"}
	wg := [3]int{1, 1, 1}
	f.WGDims = r.Range(1, 3)
	for i := 0; i < 3; i++ {
		f.WG[i] = &Materialize{X: &Lit{Ty: AbsInt, I: int64(wg[i])}, Ty: U32}
	}
	fx := g.newFnCtx(f, true)
	// builtin params
	if r.Chance(1, 2) {
		bs := []struct {
			n string
			t *Type
		}{{"global_invocation_id", g.U.Vec(3, U32)}, {"local_invocation_id", g.U.Vec(3, U32)}, {"local_invocation_index", U32}, {"workgroup_id", g.U.Vec(3, U32)}, {"num_workgroups", g.U.Vec(3, U32)}}
		perm := r.Intn(len(bs))
		for k := 0; k < r.Range(1, 3); k++ {
			b := bs[(perm+k)%len(bs)]
			p := &Var{Name: g.name("b"), Kind: VParam, Ty: b.t, Builtin: b.n}
			f.Params = append(f.Params, p)
			fx.sc.vars = append(fx.sc.vars, p)
			g.feat("builtin." + b.n)
		}
	}
	g.fx = fx
	n := g.Cfg.Stmts
	if n == 0 {
		n = r.Range(4, 14)
	}
	g.push()
	var pre []Stmt
	if !g.on("private.implicit-init") {
		// every private global is assigned before anything reads it
		for _, v := range g.globals {
			if v.Space == "private" {
				g.touch(v)
				pre = append(pre, &Assign{LHS: &Ref{V: v}, Op: "=", RHS: g.consOrLit(v.Ty)})
			}
		}
	} else if len(g.globals) > 0 {
		g.feat("private.implicit-init")
	}
	body := append(pre, g.genStmts(n)...)
	// final sinks: every scalar/vector local still in scope flows to the typed sink arrays
	body = append(body, g.sinkLocals()...)
	g.pop()
	f.Body = body
	g.fx = nil
	g.M.Decls = append(g.M.Decls, Decl{Func: f})
}

// sinkLocals stores visible locals / privates into the output sink arrays so that their final values are observed.
func (g *Gen) sinkLocals() []Stmt {
	var out []Stmt
	cnt := map[*Type]int{}
	outT := g.out.Ty
	sink := func(t *Type, e Expr) {
		var mi int
		switch t {
		case I32:
			mi = 0
		case U32:
			mi = 1
		case F32:
			mi = 2
		default:
			return
		}
		k := cnt[t]
		if k >= 8 {
			return
		}
		cnt[t] = k + 1
		arr := &Field{X: &Ref{V: g.out}, Idx: mi, Ty: outT.Members[mi].Type}
		lhs := &Index{X: arr, I: &Lit{Ty: U32, I: int64(k)}, Ty: t}
		op := "="
		if g.R.Chance(1, 2) && t != F32 {
			op = "^="
			if g.R.Bool() {
				op = "+="
			}
		}
		out = append(out, &Assign{LHS: lhs, Op: op, RHS: e})
	}
	var visit func(e Expr, t *Type, d int)
	visit = func(e Expr, t *Type, d int) {
		switch t.Kind {
		case KI32, KU32, KF32:
			sink(t, e)
		case KBool:
			if g.on("fn.select") {
				sink(U32, &Builtin{Name: "select", Args: []Expr{&Lit{Ty: U32, I: 0}, &Lit{Ty: U32, I: 1}, e}, Ty: U32})
			} else {
				sink(U32, &Cons{Ty: U32, Args: []Expr{e}})
			}
		case KVec:
			for c := 0; c < t.N; c++ {
				visit(&Swiz{X: e, Comps: []int{c}, Ty: t.Elem}, t.Elem, d+1)
			}
		case KMat:
			if d < 2 {
				c := g.R.Intn(t.N)
				visit(&Index{X: e, I: &Lit{Ty: I32, I: int64(c)}, Ty: g.U.Vec(t.R, t.Elem)}, g.U.Vec(t.R, t.Elem), d+1)
			}
		case KArray:
			if t.N > 0 && d < 2 {
				k := g.R.Intn(t.N)
				visit(&Index{X: e, I: &Lit{Ty: U32, I: int64(k)}, Ty: t.Elem}, t.Elem, d+1)
			}
		case KStruct:
			if d < 2 {
				for i, m := range t.Members {
					visit(&Field{X: e, Idx: i, Ty: m.Type}, m.Type, d+1)
				}
			}
		}
	}
	for _, v := range g.visible() {
		if v.Alias != nil || v.Ty.Kind == KPtr {
			continue
		}
		if v.Kind == VLocal || v.Kind == VLet {
			visit(&Ref{V: v}, v.Ty, 0)
		}
	}
	for _, v := range g.globals {
		if v.Space == "private" || (v.Space == "workgroup" && !v.Ty.HasAtomic()) {
			g.touch(v)
			visit(&Ref{V: v}, v.Ty, 0)
		}
	}
	return out
}

// genOverrides declares a few overrides (C14 profile).
func (g *Gen) genOverrides() {
	r := g.R
	n := r.Range(1, 4)
	usedID := map[int]bool{}
	for i := 0; i < n; i++ {
		t := []*Type{Bool, I32, U32, F32}[r.Intn(4)]
		v := &Var{Name: g.name("ov"), Kind: VOverride, Ty: t, ID: -1, HasType: true, Module: true}
		if r.Bool() {
			for {
				id := r.Intn(50)
				if !usedID[id] {
					usedID[id] = true
					v.ID = id
					break
				}
			}
		}
		if r.Chance(3, 4) {
			v.Init = g.overrideInit(t, 2)
		}
		g.ovr = append(g.ovr, v)
		g.M.Decls = append(g.M.Decls, Decl{Var: v})
		g.feat("decl.override." + t.key)
	}
}

// overrideInit: expression over literals, module consts and earlier overrides.
func (g *Gen) overrideInit(t *Type, depth int) Expr {
	r := g.R
	var refs []Expr
	for _, v := range g.ovr {
		if v.Ty == t {
			refs = append(refs, &Ref{V: v})
		}
	}
	if g.on("override.init-const-ref") {
		// finding F102 when off: an initialiser that mentions a module constant is dropped as a whole
		for _, v := range g.consts {
			if v.Ty == t {
				refs = append(refs, &Ref{V: v})
				g.feat("override.init-const-ref")
			}
		}
	}
	leaf := func() Expr {
		if len(refs) > 0 && r.Chance(1, 2) {
			return refs[r.Intn(len(refs))]
		}
		l := g.litOf(t)
		if t == I32 || t == U32 {
			l.I = int64(r.Range(0, 40))
			l.Text = ""
		}
		if t == F32 {
			l.F = float64(r.Range(-8, 8)) / 2
			if r.Chance(1, 2) {
				return &Materialize{X: &Lit{Ty: AbsFloat, F: l.F}, Ty: F32}
			}
			g.feat("override.f-suffix")
		}
		return l
	}
	if depth <= 0 || r.Chance(1, 3) {
		return leaf()
	}
	g.feat("override.compound-init")
	switch t.Kind {
	case KBool:
		if !g.on("override-nonarith-op") {
			// finding F09: comparisons and && || in an override initialiser evaluate to 0/false
			return &Unary{Op: "!", X: g.overrideInit(t, depth-1), Ty: t}
		}
		switch r.Intn(3) {
		case 0:
			return &Unary{Op: "!", X: g.overrideInit(t, depth-1), Ty: t}
		case 1:
			st := []*Type{I32, U32, F32}[r.Intn(3)]
			op := []string{"==", "!=", "<", "<=", ">", ">="}[r.Intn(6)]
			g.feat("override.op." + op)
			return &Binary{Op: op, L: g.overrideInit(st, depth-1), R: g.overrideInit(st, depth-1), Ty: t}
		default:
			op := []string{"&&", "||"}[r.Intn(2)]
			g.feat("override.op." + op)
			return &Binary{Op: op, L: g.overrideInit(t, depth-1), R: g.overrideInit(t, depth-1), Ty: t}
		}
	case KF32:
		op := []string{"+", "-", "*"}[r.Intn(3)]
		g.feat("override.op." + op + ".f32")
		return &Binary{Op: op, L: g.overrideInit(t, depth-1), R: g.overrideInit(t, depth-1), Ty: t}
	default:
		ops := []string{"+", "-", "*"}
		if g.on("override-nonarith-op") {
			ops = append(ops, "&", "|", "^", "<<", ">>", "/", "%")
		}
		op := ops[r.Intn(len(ops))]
		g.feat("override.op." + op + "." + t.key)
		switch op {
		case "<<", ">>":
			return &Binary{Op: op, L: g.overrideInit(t, depth-1), R: &Lit{Ty: U32, I: int64(r.Intn(8))}, Ty: t}
		case "/", "%":
			return &Binary{Op: op, L: g.overrideInit(t, depth-1), R: &Lit{Ty: t, I: int64(r.Range(1, 7))}, Ty: t}
		}
		return &Binary{Op: op, L: g.overrideInit(t, depth-1), R: g.overrideInit(t, depth-1), Ty: t}
	}
}

func init() { _ = fmt.Sprint }

// ConstExpr generates a const-expression of type t over literals only (no variables, no calls): used by C06.
// The result may be a WGSL shader-creation error (ConstOK is not consulted when cfg.ConstOK is nil).
func (g *Gen) ConstExpr(t *Type, depth int) Expr {
	old := g.fx
	g.fx = nil
	defer func() { g.fx = old }()
	return g.genExprT(t, depth)
}

// HostStruct generates a host-shareable struct type tree (declared in the module) for layout probes.
func (g *Gen) HostStruct(depth int, uniform bool) *Type {
	return g.newStruct(depth, uniform, true)
}
