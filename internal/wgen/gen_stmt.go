package wgen

// Statement generation.

func (g *Gen) depthCfg() int {
	if g.Cfg.MaxDepth > 0 {
		return g.Cfg.MaxDepth
	}
	return 3
}

// writablePaths returns writable root paths visible here.
func (g *Gen) writableRoots() []path {
	var ps []path
	for _, p := range g.roots() {
		if p.writable {
			ps = append(ps, p)
		}
	}
	return ps
}

func storable(t *Type) bool {
	return t.Kind != KAtomic && t.Kind != KPtr && t.Constructible()
}

// pickLHS picks a writable location of a storable type. Prefers output buffers.
func (g *Gen) pickLHS(want func(*Type) bool) (path, bool) {
	ps := g.writableRoots()
	if len(ps) == 0 {
		return path{}, false
	}
	for tries := 0; tries < 10; tries++ {
		var p path
		if g.out != nil && !g.fx.noGlobals[g.out] && g.R.Chance(1, 2) {
			p = path{e: &Ref{V: g.out}, t: g.out.Ty, writable: true, root: g.out}
		} else {
			p = ps[g.R.Intn(len(ps))]
		}
		q, ok := g.subPath(p, func(t *Type) bool { return storable(t) && want(t) }, 0)
		if !ok {
			continue
		}
		if sw, isSw := q.e.(*Swiz); isSw && len(sw.Comps) != 1 {
			continue
		}
		g.touch(q.root)
		if q.root != nil {
			g.feat("write." + spaceOf(q.root))
			if q.root.Kind == VGlobal {
				g.fx.sideFx = true
			}
			if q.root.Kind == VParam {
				g.fx.sideFx = true // writes through a pointer parameter
			}
		}
		return q, true
	}
	return path{}, false
}

func any_(*Type) bool { return true }

func (g *Gen) genStore() Stmt {
	r := g.R
	p, ok := g.pickLHS(any_)
	if !ok {
		return nil
	}
	t := p.t
	if p.root != nil && p.root.Space == "workgroup" && (t.Kind == KArray || t.Kind == KStruct) {
		if !g.on("store.workgroup-array") {
			return nil
		}
		g.feat("store.workgroup-array")
	}
	viaPtrParam := p.root != nil && p.root.Kind == VParam
	// compound assignment / inc-dec on numeric scalars & vectors
	if (t.IsNumeric() || (t.Kind == KVec && t.Elem.IsNumeric())) && r.Chance(1, 3) && (!viaPtrParam || g.on("ptr-param-compound")) {
		sc := t.Scalar()
		if t.IsScalar() && sc.IsInt() && r.Chance(1, 4) {
			g.feat("stmt.incdec")
			return &IncDec{LHS: p.e, Inc: r.Bool()}
		}
		var ops []string
		if sc.IsInt() {
			ops = []string{"+=", "-=", "*=", "/=", "%=", "&=", "|=", "^=", "<<=", ">>="}
		} else {
			ops = []string{"+=", "-=", "*="}
		}
		op := ops[r.Intn(len(ops))]
		if op == "%=" && sc.Kind == KI32 && !g.on("op.%.i32") {
			op = "^="
		}
		g.feat("stmt.compound" + op + "." + t.ShapeName())
		if viaPtrParam {
			g.feat("ptr-param-compound")
		}
		var rhs Expr
		switch op {
		case "<<=", ">>=":
			rhs = g.shiftAmount(t.Width(), g.depthCfg())
		case "/=", "%=":
			rhs = g.divisor(t, g.depthCfg())
		default:
			rhs = g.genExprT(t, g.depthCfg()-1)
		}
		return &Assign{LHS: p.e, Op: op, RHS: rhs}
	}
	old := g.allowTol
	g.allowTol = t.Scalar() == F32 && p.root != nil && p.root.Kind == VGlobal && p.root.Space == "storage" && g.on("tolerant")
	rhs := g.genExprT(t, g.depthCfg())
	g.allowTol = old
	g.feat("stmt.store." + kindName(t))
	return &Assign{LHS: p.e, Op: "=", RHS: rhs}
}

func kindName(t *Type) string {
	switch t.Kind {
	case KVec:
		return "vec"
	case KMat:
		return "mat"
	case KArray:
		return "array"
	case KStruct:
		return "struct"
	}
	return "scalar"
}

func (g *Gen) randValueType() *Type {
	r := g.R
	switch r.Pick([]int{6, 5, 2, 2, 2}) {
	case 0:
		return []*Type{I32, U32, F32, Bool}[r.Pick([]int{3, 3, 3, 1})]
	case 1:
		return g.U.Vec(r.Range(2, 4), []*Type{I32, U32, F32, Bool}[r.Pick([]int{3, 3, 4, 1})])
	case 2:
		if g.on("matrices") {
			rows := r.Range(2, 4)
			if rows == 2 && !g.on("type.matCx2") {
				rows = 3
			}
			return g.U.Mat(r.Range(2, 4), rows, F32)
		}
		return F32
	case 3:
		if len(g.structs) > 0 {
			for i := 0; i < 4; i++ {
				s := g.structs[r.Intn(len(g.structs))]
				if s.Constructible() {
					return s
				}
			}
		}
		return I32
	default:
		et := []*Type{I32, U32, F32, g.U.Vec(r.Range(2, 4), F32), g.U.Vec(r.Range(2, 4), U32)}[r.Intn(5)]
		return g.U.Array(et, r.Range(1, 5))
	}
}

// genPtrLet declares `let p = &<place>;` for a function-space variable or one of its members / elements; later
// statements read and write through *p (roots() offers every visible pointer as a dereference path).
func (g *Gen) genPtrLet() Stmt {
	var cands []path
	for _, v := range g.visible() {
		if v.Kind == VLocal && v.Alias == nil && v.Ty.Constructible() {
			cands = append(cands, path{e: &Ref{V: v}, t: v.Ty, writable: true, root: v})
		}
	}
	if len(cands) == 0 {
		return nil
	}
	for tries := 0; tries < 4; tries++ {
		q := cands[g.R.Intn(len(cands))]
		if g.R.Bool() && !q.t.IsScalar() {
			q2, ok := g.subPath(q, func(t *Type) bool { return t.Constructible() }, 0)
			if !ok {
				continue
			}
			q = q2
		}
		if !q.t.Constructible() || containsVecIndex(q.e) || (!g.on("ptr.mat-column") && containsMatIndex(q.e)) || (!g.on("ptr.dynamic-element") && containsDynIndex(q.e)) {
			continue
		}
		if fe, isField := q.e.(*Field); isField && q.t.Kind == KVec && q.t.N == 3 && !g.on("ptr.struct-vec3-member") {
			_ = fe
			continue
		}
		v := &Var{Name: g.name("pl"), Kind: VLet, Ty: g.U.Ptr("function", q.t, "")}
		g.declare(v)
		g.feat("decl.let.ptr." + kindName(q.t))
		return &VarDecl{V: v, Init: &AddrOf{X: q.e, Ty: v.Ty}}
	}
	return nil
}

func (g *Gen) genLocalDecl() Stmt {
	r := g.R
	if g.on("ptr.let") && r.Chance(1, 8) {
		if s := g.genPtrLet(); s != nil {
			return s
		}
	}
	t := g.randValueType()
	w := []int{5, 4, 1}
	if g.fx.f != nil && g.fx.f.Stage == "" && !g.fx.entry && !g.on("helper.locals") {
		w = []int{0, 4, 1} // helpers without var locals (C13 compares the inliner on such programs exactly)
	}
	switch r.Pick(w) {
	case 0:
		v := &Var{Name: g.name("v"), Kind: VLocal, Ty: t, Space: "function", HasType: r.Bool()}
		var init Expr
		noInitOK := (g.on("var-noinit-in-loop") || !g.fx.inLoop) && g.on("decl.var-noinit")
		if r.Chance(1, 4) && noInitOK {
			g.feat("decl.var-noinit")
			if g.fx.inLoop {
				g.feat("var-noinit-in-loop")
			}
			v.HasType = true
		} else {
			if v.HasType {
				init = g.genExprT(t, g.depthCfg()-1)
			} else {
				init = g.genExpr(t, g.depthCfg()-1)
			}
		}
		g.declare(v)
		g.feat("decl.var." + kindName(t))
		return &VarDecl{V: v, Init: init}
	case 1:
		v := &Var{Name: g.name("l"), Kind: VLet, Ty: t, HasType: r.Chance(1, 3)}
		var init Expr
		if v.HasType {
			init = g.genExprT(t, g.depthCfg()-1)
		} else {
			init = g.genExpr(t, g.depthCfg()-1)
		}
		if !t.IsScalar() && isRefExpr(init) {
			if !g.on("let.composite-load") {
				init = &Cons{Ty: t, Args: nil}
				if t.Kind == KVec || t.Kind == KMat {
					init = g.consLits(t)
				}
			} else {
				g.feat("let.composite-load")
			}
		}
		v.ConstInit = Constish(init)
		g.declare(v)
		g.feat("decl.let." + kindName(t))
		return &VarDecl{V: v, Init: init}
	default:
		if !t.IsScalar() && t.Kind != KVec {
			t = I32
		}
		var init Expr
		for i := 0; i < 5 && init == nil; i++ {
			if t.IsScalar() && t != Bool && g.on("abstract") && r.Bool() {
				init = g.ok(g.genAbstract(t, 2))
			} else {
				init = g.ok(g.consOrLit(t))
			}
		}
		if init == nil {
			init = g.consOrLit(t)
		}
		v := &Var{Name: g.name("k"), Kind: VConst, Ty: t, HasType: true}
		g.declare(v)
		g.feat("decl.const")
		return &VarDecl{V: v, Init: init}
	}
}

func (g *Gen) genIf(budget int) Stmt {
	s := &If{Cond: g.genExpr(Bool, g.depthCfg()-1)}
	s.Then = g.genBlock(budget / 2)
	if g.R.Chance(1, 2) {
		if g.R.Chance(1, 3) {
			g.feat("stmt.else-if")
			inner := g.genIf(budget / 3).(*If)
			s.Else = []Stmt{inner}
		} else {
			s.Else = g.genBlock(budget / 2)
			s.HasElse = true
		}
	}
	g.feat("stmt.if")
	return s
}

func (g *Gen) genSwitch(budget int) Stmt {
	r := g.R
	t := []*Type{I32, U32}[r.Intn(2)]
	s := &Switch{Sel: g.genExpr(t, g.depthCfg()-1)}
	nc := r.Range(1, 4)
	if g.nest && r.Bool() || g.singleSwitch {
		nc = 1 // single-body switch (the text backends render it as do { } while (false))
	}
	used := map[int64]bool{}
	defAt := r.Intn(nc)
	g.fx.inSwitch++
	for i := 0; i < nc; i++ {
		c := Case{}
		ns := r.Range(1, 3)
		if i == defAt {
			c.Default = true
			ns = r.Intn(3)
			c.DefaultPos = r.Intn(ns + 1)
			if ns > 0 {
				g.feat("switch.default-in-list")
			}
		}
		for j := 0; j < ns; j++ {
			var v int64
			for {
				v = int64(r.Range(-3, 6))
				if t == U32 && v < 0 {
					v = -v
				}
				if r.Chance(1, 10) {
					if t == U32 {
						v = u32Bound[r.Intn(len(u32Bound))]
					} else {
						v = i32Bound[r.Intn(len(i32Bound))]
					}
				}
				if !used[v] {
					break
				}
			}
			used[v] = true
			if r.Chance(1, 3) && v > -2147483648 && g.on("abstract") {
				c.Sels = append(c.Sels, &Materialize{X: &Lit{Ty: AbsInt, I: v}, Ty: t})
			} else {
				c.Sels = append(c.Sels, &Lit{Ty: t, I: v})
			}
		}
		g.push()
		c.Body = g.genStmts(budget / nc)
		if r.Chance(1, 4) && (g.fx.inLoop || g.on("switch-break-outside-loop")) {
			// conditional break out of the switch
			g.feat("switch.break")
			if !g.fx.inLoop {
				g.feat("switch-break-outside-loop")
			}
			c.Body = append(c.Body, &If{Cond: g.genExpr(Bool, 1), Then: []Stmt{&Break{}}})
			c.Body = append(c.Body, g.genStmts(1)...)
		}
		g.pop()
		s.Cases = append(s.Cases, c)
	}
	g.fx.inSwitch--
	g.feat("stmt.switch." + t.key)
	return s
}

// genLoop builds one of for / while / loop with a dedicated bounded counter.
func (g *Gen) genLoop(budget int) []Stmt {
	r := g.R
	if g.fx.loopDepth >= 2 && !(g.nest && g.fx.loopDepth < 3) {
		return nil
	}
	bound := r.Range(1, 5)
	ct := []*Type{U32, I32}[r.Intn(2)]
	cv := &Var{Name: g.name("ix"), Kind: VLocal, Ty: ct, Space: "function", HasType: r.Bool()}
	zero := &Lit{Ty: ct, I: 0}
	lim := &Lit{Ty: ct, I: int64(bound)}
	cond := func() Expr { return &Binary{Op: "<", L: &Ref{V: cv}, R: lim, Ty: Bool} }
	incr := func() Stmt {
		if r.Bool() {
			return &IncDec{LHS: &Ref{V: cv}, Inc: true}
		}
		return &Assign{LHS: &Ref{V: cv}, Op: "+=", RHS: &Lit{Ty: ct, I: 1}}
	}
	g.fx.loopDepth++
	oldIn, oldSw := g.fx.inLoop, g.fx.inSwitch
	g.fx.inLoop = true
	g.fx.inSwitch = 0
	defer func() { g.fx.loopDepth--; g.fx.inLoop = oldIn; g.fx.inSwitch = oldSw }()
	body := func(extraFirst Stmt) []Stmt {
		g.push()
		// the counter is visible read-only inside the body: declare as let-like alias by exposing the var as non-writable
		ro := *cv
		_ = ro
		var b []Stmt
		if extraFirst != nil {
			b = append(b, extraFirst)
		}
		g.fx.sc.vars = append(g.fx.sc.vars, &Var{Name: cv.Name, Kind: VLet, Ty: ct, Alias: cv})
		b = append(b, g.genStmts(budget)...)
		g.pop()
		return b
	}
	switch r.Intn(3) {
	case 0:
		g.feat("stmt.for")
		g.push()
		f := &For{Init: &VarDecl{V: cv, Init: zero}, Cond: cond(), Post: incr()}
		f.Body = body(nil)
		g.pop()
		return []Stmt{f}
	case 1:
		g.feat("stmt.while")
		w := &While{Cond: cond()}
		w.Body = body(incr())
		return []Stmt{&VarDecl{V: cv, Init: zero}, w}
	default:
		g.feat("stmt.loop")
		l := &Loop{}
		if r.Bool() {
			// loop { if !(i < n) { break; } body; continuing { i++ } }
			l.Body = body(&If{Cond: &Unary{Op: "!", X: &Paren{X: cond()}, Ty: Bool}, Then: []Stmt{&Break{}}})
			oldC := g.fx.inCont
			g.fx.inCont = true
			g.push()
			l.Continuing = append(g.genContStmts(), incr())
			g.pop()
			g.fx.inCont = oldC
			l.HasCont = true
			g.feat("loop.continuing")
		} else {
			// loop { body; continuing { i++; break if i >= n; } }
			l.Body = body(nil)
			oldC := g.fx.inCont
			g.fx.inCont = true
			g.push()
			l.Continuing = append(g.genContStmts(), incr())
			g.pop()
			g.fx.inCont = oldC
			l.HasCont = true
			l.BreakIf = &Binary{Op: ">=", L: &Ref{V: cv}, R: lim, Ty: Bool}
			g.feat("loop.break-if")
		}
		return []Stmt{&VarDecl{V: cv, Init: zero}, l}
	}
}

// statements legal inside continuing: no return, no break/continue targeting the loop; keep it to stores.
func (g *Gen) genContStmts() []Stmt {
	var r []Stmt
	if g.R.Chance(1, 2) {
		if s := g.genStore(); s != nil {
			r = append(r, s)
		}
	}
	// a helper call placed in the continuing block - preferably a helper that nothing else calls, so that it is
	// reachable only through the continuing block (reachability walks that skip Loop.Continuing lose it)
	if g.on("call.in-continuing") && len(g.fx.callable) > 0 && g.R.Chance(1, 3) {
		f := g.fx.callable[g.R.Intn(len(g.fx.callable))]
		for _, h := range g.fx.callable {
			if g.calledFns[h] == 0 {
				f = h
				break
			}
		}
		if c := g.callOf(f, 1); c != nil {
			g.feat("call.in-continuing")
			if f.Ret == nil {
				r = append(r, &CallS{C: c})
			} else {
				r = append(r, &Assign{LHS: nil, Op: "=", RHS: c})
			}
		}
	}
	return r
}

func (g *Gen) genAtomic() Stmt {
	// find an atomic path
	ps := g.roots()
	want := func(t *Type) bool { return t.Kind == KAtomic }
	for tries := 0; tries < 6; tries++ {
		p := ps[g.R.Intn(len(ps))]
		if !p.writable || !p.t.HasAtomic() {
			continue
		}
		q, ok := g.subPath(p, want, 0)
		if !ok {
			continue
		}
		g.touch(q.root)
		g.fx.sideFx = true
		et := q.t.Elem
		ptr := &AddrOf{X: q.e, Ty: g.U.Ptr(q.root.Space, q.t, "")}
		names := []string{"atomicStore", "atomicAdd", "atomicSub", "atomicMax", "atomicMin", "atomicAnd", "atomicOr", "atomicXor", "atomicExchange", "atomicLoad", "atomicCompareExchangeWeak"}
		name := names[g.R.Intn(len(names))]
		if !g.on("fn." + name) {
			name = "atomicAdd"
		}
		if !g.on("atomic.cmpxchg") && name == "atomicCompareExchangeWeak" {
			name = "atomicAdd"
		}
		g.feat("fn." + name + "." + et.key + "." + q.root.Space)
		val := func() Expr { return g.genExprNoSideFx(et, 2) }
		switch name {
		case "atomicStore":
			if !g.on("atomic.store-expr") {
				return &BuiltinS{B: &Builtin{Name: name, Args: []Expr{ptr, g.litOf(et)}}}
			}
			g.feat("atomic.store-expr")
			return &BuiltinS{B: &Builtin{Name: name, Args: []Expr{ptr, val()}}}
		case "atomicLoad":
			return g.storeScalar(et, &Builtin{Name: name, Args: []Expr{ptr}, Ty: et})
		case "atomicCompareExchangeWeak":
			// result struct: only .old_value is deterministic? `exchanged` may spuriously fail in WGSL => only old_value observed
			res := &Builtin{Name: name, Args: []Expr{ptr, val(), val()}, Ty: g.cmpxchgType(et)}
			return g.storeScalar(et, &Field{X: res, Idx: 0, Ty: et})
		default:
			b := &Builtin{Name: name, Args: []Expr{ptr, val()}, Ty: et}
			if g.R.Bool() {
				return g.storeScalar(et, b)
			}
			return &Assign{LHS: nil, Op: "=", RHS: b}
		}
	}
	return nil
}

func (g *Gen) cmpxchgType(et *Type) *Type {
	return g.U.Struct("__atomic_compare_exchange_result_"+et.key, []Member{{Name: "old_value", Type: et}, {Name: "exchanged", Type: Bool}})
}

// storeScalar stores e into some writable scalar location of type t, else declares a let.
func (g *Gen) storeScalar(t *Type, e Expr) Stmt {
	if p, ok := g.pickLHS(func(x *Type) bool { return x == t }); ok {
		return &Assign{LHS: p.e, Op: "=", RHS: e}
	}
	v := &Var{Name: g.name("l"), Kind: VLet, Ty: t}
	g.declare(v)
	return &VarDecl{V: v, Init: e}
}

func (g *Gen) genCallStmt() Stmt {
	if len(g.fx.callable) == 0 {
		return nil
	}
	f := g.fx.callable[g.R.Intn(len(g.fx.callable))]
	c := g.callOf(f, 2)
	if c == nil {
		return nil
	}
	if f.Ret == nil {
		g.feat("stmt.call-void")
		return &CallS{C: c}
	}
	switch g.R.Intn(3) {
	case 0:
		g.feat("stmt.phony-call")
		return &Assign{LHS: nil, Op: "=", RHS: c}
	case 1:
		if !f.MustUse {
			g.feat("stmt.call-discard")
			return &CallS{C: c}
		}
		fallthrough
	default:
		v := &Var{Name: g.name("l"), Kind: VLet, Ty: f.Ret}
		g.declare(v)
		return &VarDecl{V: v, Init: c}
	}
}

// genStmts generates about n statements into the current scope (no new scope).
func (g *Gen) genStmts(n int) []Stmt {
	var out []Stmt
	r := g.R
	maxDepth := 3
	if g.nest {
		maxDepth = 5
	}
	if g.fx.depth > maxDepth {
		n = min(n, 1)
	}
	g.fx.depth++
	defer func() { g.fx.depth-- }()
	// nesting script (control-nesting profile): the first statement of successive statement lists is forced to be the
	// next construct of the script, so that a prescribed nest such as loop > single-body switch > loop > single-body
	// switch > conditional continue is actually reached; everything around it stays random
	if g.fx.depth == 1 && g.fx.f != nil && !g.fx.inLoop && g.on("decl.dead-abstract-const") && r.Chance(1, 4) {
		// the same at function scope: still registered when the function ends
		g.feat("decl.dead-abstract-const")
		dv := &Var{Name: g.name("k"), Kind: VConst, Ty: I32}
		out = append(out, &VarDecl{V: dv, Init: &Materialize{X: &Lit{Ty: AbsInt, I: int64(r.Range(1, 99))}, Ty: I32}})
	}
	forced := byte(0)
	if g.fx.f != nil && g.scriptPos < len(g.script) {
		forced = g.script[g.scriptPos]
		g.scriptPos++
		n = max(n, 3)
	}
	for i := 0; i < n; i++ {
		var s Stmt
		var ss []Stmt
		term := false
		if i == 0 && forced != 0 {
			switch forced {
			case 'L':
				if g.fx.entry || g.on("helper.loops") {
					ss = g.genLoop(max(2, n/2))
				}
			case 'S', 's':
				g.singleSwitch = forced == 's'
				s = g.genSwitch(max(2, n))
				g.singleSwitch = false
			case 'C':
				if g.fx.inLoop && !g.fx.inCont && (g.fx.inSwitch <= 1 || g.on("stmt.continue-in-switch")) {
					var t Stmt = &Continue{}
					g.feat("stmt.continue")
					if g.fx.inSwitch > 0 {
						g.feat("stmt.continue-in-switch")
					} else if r.Bool() {
						t = &Break{}
						g.feat("stmt.break")
					}
					s = &If{Cond: g.genExpr(Bool, 2), Then: []Stmt{t}}
				}
			}
			if s != nil || len(ss) > 0 {
				g.feat("nest.script." + g.script)
				if s != nil {
					out = append(out, s)
				}
				out = append(out, ss...)
				continue
			}
		}
		weights := []int{10, 6, 3, 2, 3, 2, 1, 1, 1, 1, 1}
		if g.nest {
			// control-nesting profile: loops in switches in loops, single-body switches, break / continue at every level
			weights = []int{6, 3, 2, 6, 6, 1, 6, 1, 1, 0, 0}
		}
		switch r.Pick(weights) {
		case 0:
			s = g.genStore()
		case 1:
			s = g.genLocalDecl()
			if vd, ok := s.(*VarDecl); ok && vd.V.Kind == VLet && vd.V.Ty.Kind != KPtr && g.on("decl.unused-alias-lets") && r.Chance(1, 5) {
				// two or three further lets that merely rename this one and are never used: they all name the same
				// expression, whose printed name must not depend on anything but the source
				g.feat("decl.unused-alias-lets")
				for k, nk := 0, r.Range(2, 3); k < nk; k++ {
					av := &Var{Name: g.name("l"), Kind: VLet, Ty: vd.V.Ty}
					ss = append(ss, &VarDecl{V: av, Init: &Ref{V: vd.V}})
				}
			}
		case 2:
			if n > 1 {
				s = g.genIf(n)
				i += 1
			}
		case 3:
			if n > 1 {
				s = g.genSwitch(n)
				i += 1
			}
		case 4:
			if n > 1 && (g.fx.entry || g.on("helper.loops")) {
				ss = g.genLoop(max(1, n/2))
				i += 1
			}
		case 5:
			s = g.genCallStmt()
		case 6:
			if g.fx.inLoop && !g.fx.inCont && g.fx.depth > 1 && (g.fx.inSwitch == 0 || g.on("stmt.continue-in-switch") || g.fx.inSwitch == 1) {
				// (finding F78 needs a switch nested in a switch with no loop between: inSwitch >= 2)
				// conditional break / continue
				var t Stmt = &Break{}
				if g.fx.inSwitch > 0 || r.Bool() {
					t = &Continue{}
					g.feat("stmt.continue")
					if g.fx.inSwitch > 0 {
						g.feat("stmt.continue-in-switch")
					}
				} else {
					g.feat("stmt.break")
				}
				s = &If{Cond: g.genExpr(Bool, 2), Then: []Stmt{t}}
			}
		case 7:
			if !g.fx.inCont && g.fx.depth > 1 && g.on("early-return") {
				// conditional early return
				g.feat("stmt.early-return")
				if g.fx.inLoop {
					g.feat("stmt.return-in-loop")
				}
				var x Expr
				if g.fx.f.Ret != nil {
					x = g.genExprT(g.fx.f.Ret, 2)
				}
				s = &If{Cond: g.genExpr(Bool, 2), Then: []Stmt{&Return{X: x}}}
				g.fx.uniform = false
			}
		case 8:
			g.push()
			g.feat("stmt.block")
			var body []Stmt
			if g.on("decl.dead-abstract-const") && r.Chance(1, 2) {
				// an untyped (abstract) constant that nothing uses, alone in this block: dead code, but its name is live
				// in the front end's tables; with ReuseLocalNames a later sibling or another function declares the same name
				g.feat("decl.dead-abstract-const")
				dv := &Var{Name: g.name("k"), Kind: VConst, Ty: I32}
				body = append(body, &VarDecl{V: dv, Init: &Materialize{X: &Lit{Ty: AbsInt, I: int64(r.Range(1, 99))}, Ty: I32}})
			}
			s = &Block{Body: append(body, g.genStmts(min(n, 2))...)}
			g.pop()
		case 9:
			g.feat("stmt.phony")
			s = &Assign{LHS: nil, Op: "=", RHS: g.genExpr(g.randValueType(), 2)}
		case 10:
			if g.on("atomics") {
				s = g.genAtomic()
			}
		}
		if s != nil {
			out = append(out, s)
		}
		out = append(out, ss...)
		if term {
			break
		}
	}
	return out
}

// genBlock generates statements in a fresh scope.
func (g *Gen) genBlock(n int) []Stmt {
	g.push()
	defer g.pop()
	return g.genStmts(max(1, n))
}
