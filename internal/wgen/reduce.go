package wgen

// Reduce shrinks a module in place while keep(m) stays true: statement deletion, block unwrapping,
// expression replacement by sub-expressions or literals, removal of unused functions / module-scope variables.
// keep must be deterministic. The module is mutated; callers pass a freshly generated module.
func Reduce(m *Module, keep func() bool, maxRounds int) {
	for round := 0; round < maxRounds; round++ {
		changed := false
		for _, d := range m.Decls {
			if d.Func != nil {
				if reduceBlock(m, d.Func, &d.Func.Body, keep) {
					changed = true
				}
			}
		}
		if reduceDecls(m, keep) {
			changed = true
		}
		if reduceExprs(m, keep) {
			changed = true
		}
		if !changed {
			break
		}
	}
}

func localsOK(f *Func) bool {
	decl := map[*Var]bool{}
	for _, p := range f.Params {
		decl[p] = true
	}
	WalkStmts(f.Body, func(s Stmt) {
		if vd, ok := s.(*VarDecl); ok {
			decl[vd.V] = true
		}
	}, nil)
	ok := true
	WalkStmts(f.Body, nil, func(e Expr) {
		if r, isRef := e.(*Ref); isRef {
			v := r.V
			for v.Alias != nil {
				v = v.Alias
			}
			if !v.Module && v.Kind != VGlobal && v.Kind != VOverride && !decl[v] {
				ok = false
			}
		}
	})
	// a function with a result must still end in a return
	if f.Ret != nil {
		if len(f.Body) == 0 {
			return false
		}
		if _, isRet := f.Body[len(f.Body)-1].(*Return); !isRet {
			return false
		}
	}
	return ok
}

func reduceBlock(m *Module, f *Func, b *[]Stmt, keep func() bool) bool {
	changed := false
	for i := 0; i < len(*b); i++ {
		old := *b
		s := old[i]
		// 1. delete
		cand := append(append([]Stmt{}, old[:i]...), old[i+1:]...)
		*b = cand
		if localsOK(f) && keep() {
			changed = true
			i--
			continue
		}
		*b = old
		// 2. unwrap nested blocks (replace statement by one of its bodies)
		done := false
		switch s.(type) {
		case *If, *Block:
			for _, nb := range StmtBlocks(s) {
				cand := append(append(append([]Stmt{}, old[:i]...), (*nb)...), old[i+1:]...)
				*b = cand
				if localsOK(f) && keep() {
					changed = true
					done = true
					i--
					break
				}
				*b = old
			}
		}
		if done {
			continue
		}
		// 3. recurse
		for _, nb := range StmtBlocks(s) {
			if reduceBlock(m, f, nb, keep) {
				changed = true
			}
		}
	}
	return changed
}

func reduceDecls(m *Module, keep func() bool) bool {
	changed := false
	for i := 0; i < len(m.Decls); i++ {
		d := m.Decls[i]
		if d.Struct != nil || d.Alias != nil {
			continue
		}
		if d.Func != nil && d.Func.Stage != "" {
			continue
		}
		// referenced?
		used := false
		WalkModule(m, nil, func(e Expr) {
			switch e := e.(type) {
			case *Ref:
				if d.Var != nil && e.V == d.Var {
					used = true
				}
			case *CallE:
				if d.Func != nil && e.F == d.Func {
					used = true
				}
			}
		})
		if used {
			continue
		}
		old := m.Decls
		m.Decls = append(append([]Decl{}, old[:i]...), old[i+1:]...)
		if keep() {
			changed = true
			i--
			continue
		}
		m.Decls = old
	}
	return changed
}

// zeroLit returns a simple literal / zero constructor of type t (nil if not constructible).
func zeroLit(t *Type) Expr {
	switch t.Kind {
	case KBool:
		return &Lit{Ty: Bool, I: 1}
	case KI32, KU32:
		return &Lit{Ty: t, I: 1}
	case KF32:
		return &Lit{Ty: F32, F: 1}
	case KVec, KMat, KArray, KStruct:
		if t.Constructible() {
			return &Cons{Ty: t}
		}
	}
	return nil
}

func isRefExpr(e Expr) bool {
	switch e := e.(type) {
	case *Ref:
		return e.V.IsRefVar()
	case *Index:
		return isRefExpr(e.X)
	case *Field:
		return isRefExpr(e.X)
	case *Swiz:
		return isRefExpr(e.X)
	case *Deref:
		return true
	case *Paren:
		return isRefExpr(e.X)
	}
	return false
}

func reduceExprs(m *Module, keep func() bool) bool {
	changed := false
	var visit func(slot *Expr, lvalue bool)
	visit = func(slot *Expr, lvalue bool) {
		e := *slot
		if e == nil {
			return
		}
		if !lvalue {
			t := e.T()
			if t != nil && t.Kind != KPtr {
				// replace by a same-typed direct sub-expression
				for _, cs := range ExprSlots(e) {
					c := *cs
					if c != nil && c.T() == t {
						if _, isMat := e.(*Materialize); isMat {
							continue
						}
						*slot = c
						if keep() {
							changed = true
							visit(slot, false)
							return
						}
						*slot = e
					}
				}
				if _, isLit := e.(*Lit); !isLit {
					if z := zeroLit(t); z != nil {
						if c, isCons := e.(*Cons); !(isCons && len(c.Args) == 0) {
							*slot = z
							if keep() {
								changed = true
								return
							}
							*slot = e
						}
					}
				}
			}
		}
		switch x := e.(type) {
		case *AddrOf:
			visit(&x.X, true)
			return
		case *Index:
			visit(&x.X, lvalue)
			// an index may only be simplified to 0 (any other literal could leave the container's bounds)
			if _, isLit := x.I.(*Lit); !isLit {
				old := x.I
				x.I = &Lit{Ty: U32, I: 0}
				if keep() {
					changed = true
				} else {
					x.I = old
				}
			}
			return
		case *Field:
			visit(&x.X, lvalue)
			return
		case *Swiz:
			visit(&x.X, lvalue)
			return
		}
		for _, cs := range ExprSlots(e) {
			visit(cs, false)
		}
	}
	for _, d := range m.Decls {
		if d.Func == nil {
			continue
		}
		WalkStmts(d.Func.Body, func(s Stmt) {
			switch s := s.(type) {
			case *Assign:
				if s.LHS != nil {
					visit(&s.LHS, true)
				}
				visit(&s.RHS, false)
			case *IncDec:
				visit(&s.LHS, true)
			case *Switch:
				visit(&s.Sel, false)
			default:
				for _, sl := range StmtExprSlots(s) {
					visit(sl, false)
				}
			}
		}, nil)
	}
	return changed
}
