package wgen

// Expression generation. Every function returns an expression whose static type is exactly the requested type.

func (g *Gen) exprDepthLeft() int { return g.depthLeft }

// IsConst reports whether e is a WGSL const-expression (by our construction rules).
func IsConst(e Expr) bool {
	switch e := e.(type) {
	case *Lit:
		return true
	case *Ref:
		return e.V.Kind == VConst
	case *Materialize:
		return IsConst(e.X)
	case *Paren:
		return IsConst(e.X)
	case *Unary:
		return IsConst(e.X)
	case *Binary:
		return IsConst(e.L) && IsConst(e.R)
	case *Builtin:
		if !constBuiltin[e.Name] {
			return false
		}
		for _, a := range e.Args {
			if !IsConst(a) {
				return false
			}
		}
		return true
	case *Cons:
		for _, a := range e.Args {
			if !IsConst(a) {
				return false
			}
		}
		return true
	case *Index:
		return IsConst(e.X) && IsConst(e.I)
	case *Field:
		return IsConst(e.X)
	case *Swiz:
		return IsConst(e.X)
	}
	return false
}

// IsOverrideExpr reports whether e is an override-expression that is not a const-expression: built like a
// const-expression but mentioning at least one override. WGSL evaluates such expressions at pipeline creation;
// an overflow or other evaluation error in them is a pipeline-creation error.
func IsOverrideExpr(e Expr) bool {
	has := false
	var ok func(e Expr) bool
	ok = func(e Expr) bool {
		switch e := e.(type) {
		case *Lit:
			return true
		case *Ref:
			if e.V.Kind == VOverride {
				has = true
				return true
			}
			return e.V.Kind == VConst
		case *Materialize:
			return ok(e.X)
		case *Paren:
			return ok(e.X)
		case *Unary:
			return ok(e.X)
		case *Binary:
			return ok(e.L) && ok(e.R)
		case *Builtin:
			if !constBuiltin[e.Name] {
				return false
			}
			for _, a := range e.Args {
				if !ok(a) {
					return false
				}
			}
			return true
		case *Cons:
			for _, a := range e.Args {
				if !ok(a) {
					return false
				}
			}
			return true
		case *Index:
			return ok(e.X) && ok(e.I)
		case *Field:
			return ok(e.X)
		case *Swiz:
			return ok(e.X)
		}
		return false
	}
	return ok(e) && has
}

var constBuiltin = map[string]bool{"abs": true, "min": true, "max": true, "clamp": true, "sign": true, "floor": true, "ceil": true, "trunc": true, "round": true,
	"fract": true, "step": true, "saturate": true, "select": true, "sqrt": true, "inverseSqrt": true, "fma": true, "mix": true, "dot": true, "cross": true,
	"length": true, "distance": true, "normalize": true, "transpose": true, "determinant": true, "all": true, "any": true, "countOneBits": true,
	"countLeadingZeros": true, "countTrailingZeros": true, "reverseBits": true, "firstLeadingBit": true, "firstTrailingBit": true, "extractBits": true,
	"insertBits": true, "bitcast": true, "exp": true, "exp2": true, "log": true, "log2": true, "pow": true, "sin": true, "cos": true, "tan": true,
	"pack4x8snorm": true, "pack4x8unorm": true, "pack2x16snorm": true, "pack2x16unorm": true, "pack2x16float": true,
	"unpack4x8snorm": true, "unpack4x8unorm": true, "unpack2x16snorm": true, "unpack2x16unorm": true, "unpack2x16float": true,
	"smoothstep": true, "degrees": true, "radians": true, "ldexp": true, "sinh": true, "cosh": true, "tanh": true, "asin": true, "acos": true, "atan": true, "atan2": true,
	"asinh": true, "acosh": true, "atanh": true, "faceForward": true, "reflect": true, "refract": true, "modf": true, "frexp": true, "quantizeToF16": true}

// ok checks const-expression validity of a freshly built node; returns the node or nil.
func isCompound(e Expr) bool {
	for {
		switch x := e.(type) {
		case *Paren:
			e = x.X
			continue
		case *Materialize:
			e = x.X
			continue
		case *Binary, *Unary:
			return true
		case *Builtin:
			return x.Name == "select"
		}
		return false
	}
}

// compoundConstish: a constant-ish binary / select expression (backends print such trees inline, not as baked temporaries).
func compoundConstish(e Expr) bool {
	for {
		switch x := e.(type) {
		case *Paren:
			e = x.X
			continue
		case *Materialize:
			e = x.X
			continue
		case *Binary:
			return Constish(x)
		case *Builtin:
			return x.Name == "select" && Constish(x)
		}
		return false
	}
}

func (g *Gen) ok(e Expr) Expr {
	if b, isB := e.(*Builtin); isB && b.Name == "select" && !g.on("fn.select") {
		return nil
	}
	// postfix (swizzle / index / member) applied to a parenthesised operator expression
	switch x := e.(type) {
	case *Swiz:
		if isCompound(x.X) && !g.on("postfix-on-compound") {
			return nil
		}
		if _, isCons := x.X.(*Cons); isCons && len(x.Comps) > 1 && !g.on("swizzle.on-constructor") {
			return nil
		}
	case *Index:
		if isCompound(x.X) && !g.on("postfix-on-compound") {
			return nil
		}
	case *Field:
		if isCompound(x.X) && !g.on("postfix-on-compound") {
			return nil
		}
	}
	// finding F79 (MSL): inline-printed constant sub-expressions lose their parentheses under an enclosing operator / postfix
	switch e.(type) {
	case *Binary, *Unary, *Swiz, *Index, *Field:
		for _, cs := range ExprSlots(e) {
			if compoundConstish(*cs) {
				if !g.on("inline-const-precedence") {
					return nil
				}
				g.feat("inline-const-precedence")
			}
		}
	}
	c := IsConst(e)
	if c && g.Cfg.ConstOK != nil && !g.Cfg.ConstOK(e) {
		return nil
	}
	if b, isBin := e.(*Binary); isBin && Constish(e) && hasRef(e) {
		switch b.Op {
		case "+", "-", "*", "/":
		default:
			// backends that fold constants see through lets of constants and evaluate only + - * / (finding F76)
			if !g.on("cmp.folded-through-let") {
				return nil
			}
			g.feat("cmp.folded-through-let")
		}
	}
	if b, isBin := e.(*Binary); isBin && (b.Op == "+" || b.Op == "-" || c || (Constish(b.L) && Constish(b.R))) && (b.L.T().Kind == KMat || b.R.T().Kind == KMat) && (Constish(b.L) || Constish(b.R)) {
		if !g.on("const.mat-binary") {
			return nil
		}
		g.feat("const.mat-binary")
	}
	return e
}

// Constish: const-expression, or built only from const-expressions and lets initialised by const-expressions
// (backends that fold constants see through such lets).
func Constish(e Expr) bool {
	switch e := e.(type) {
	case *Lit:
		return true
	case *Ref:
		return e.V.Kind == VConst || e.V.Kind == VLet && e.V.ConstInit
	case *Materialize:
		return Constish(e.X)
	case *Paren:
		return Constish(e.X)
	case *Unary:
		return Constish(e.X)
	case *Binary:
		return Constish(e.L) && Constish(e.R)
	case *Builtin:
		if !constBuiltin[e.Name] {
			return false
		}
		for _, a := range e.Args {
			if !Constish(a) {
				return false
			}
		}
		return true
	case *Cons:
		for _, a := range e.Args {
			if !Constish(a) {
				return false
			}
		}
		return true
	case *Index:
		return Constish(e.X) && Constish(e.I)
	case *Field:
		return Constish(e.X)
	case *Swiz:
		return Constish(e.X)
	}
	return false
}

func (g *Gen) genExprNoSideFx(t *Type, depth int) Expr {
	old := g.noSideFx
	g.noSideFx = true
	e := g.genExpr(t, depth)
	g.noSideFx = old
	return e
}

// genExprT generates an expression in a position whose type is fixed by the context (explicitly typed declaration,
// assignment RHS, call argument, typed constructor argument, operand next to a concrete sibling, return value): only there
// may a purely abstract const-expression appear (it is implicitly converted to t).
func (g *Gen) genExprT(t *Type, depth int) Expr {
	g.nextTyped = true
	return g.genExpr(t, depth)
}

// genExpr is the main entry. Without a typed context the result is never a bare abstract expression.
func (g *Gen) genExpr(t *Type, depth int) Expr {
	typed := g.nextTyped
	g.nextTyped = false
	oldD := g.depthLeft
	g.depthLeft = depth
	defer func() { g.depthLeft = oldD }()
	if typed && (t == I32 || t == U32 || t == F32) && g.on("abstract") && g.R.Chance(1, 6) {
		for tries := 0; tries < 4; tries++ {
			if e := g.ok(g.genAbstract(t, min(depth, 2))); e != nil {
				return e
			}
		}
	}
	for tries := 0; tries < 6; tries++ {
		var e Expr
		if depth <= 0 {
			e = g.genLeaf(t)
		} else {
			switch t.Kind {
			case KBool:
				e = g.genBool(depth)
			case KI32, KU32:
				e = g.genInt(t, depth)
			case KF32:
				e = g.genFloat(depth)
			case KVec:
				e = g.genVec(t, depth)
			case KMat:
				e = g.genMat(t, depth)
			default:
				e = g.genComposite(t, depth)
			}
		}
		if e != nil {
			if e = g.ok(e); e != nil {
				return e
			}
		}
	}
	return g.zeroOrLit(t)
}

func (g *Gen) zeroOrLit(t *Type) Expr {
	if t.IsScalar() {
		return g.litOf(t)
	}
	return g.consLits(t)
}

// consLits builds a constructor of literals for any constructible type.
func (g *Gen) consLits(t *Type) Expr {
	switch t.Kind {
	case KVec:
		if g.R.Chance(1, 4) {
			g.feat("ctor.splat")
			return &Cons{Ty: t, Args: []Expr{g.litOf(t.Elem)}}
		}
		args := make([]Expr, t.N)
		for i := range args {
			args[i] = g.litOf(t.Elem)
		}
		return &Cons{Ty: t, Args: args}
	case KMat:
		args := make([]Expr, t.N*t.R)
		for i := range args {
			args[i] = g.litOf(t.Elem)
		}
		g.feat("ctor.mat-scalars")
		return &Cons{Ty: t, Args: args}
	case KArray:
		if g.R.Chance(1, 4) || t.N > 8 {
			g.feat("ctor.zero")
			return &Cons{Ty: t}
		}
		args := make([]Expr, t.N)
		for i := range args {
			args[i] = g.consOrLit(t.Elem)
		}
		g.feat("ctor.array")
		return &Cons{Ty: t, Args: args}
	case KStruct:
		if g.R.Chance(1, 4) {
			g.feat("ctor.zero")
			return &Cons{Ty: t}
		}
		args := make([]Expr, len(t.Members))
		for i, m := range t.Members {
			args[i] = g.consOrLit(m.Type)
		}
		g.feat("ctor.struct")
		return &Cons{Ty: t, Args: args}
	}
	return g.litOf(t)
}

func (g *Gen) consOrLit(t *Type) Expr {
	if t.IsScalar() {
		return g.litOf(t)
	}
	return g.consLits(t)
}

// ---------- leaves ----------

// roots returns readable root paths.
func (g *Gen) roots() []path {
	var ps []path
	for _, v := range g.visible() {
		if v.Ty.Kind == KPtr {
			ps = append(ps, path{e: &Deref{X: &Ref{V: v}, Ty: v.Ty.Elem}, t: v.Ty.Elem, writable: true, root: v})
			continue
		}
		ps = append(ps, path{e: &Ref{V: v}, t: v.Ty, writable: v.Kind == VLocal, root: v})
	}
	if g.fx != nil {
		for _, v := range g.globals {
			if g.fx.noGlobals[v] {
				continue
			}
			w := v.Space == "private" || v.Space == "workgroup" || (v.Space == "storage" && v.Access == "read_write")
			ps = append(ps, path{e: &Ref{V: v}, t: v.Ty, writable: w, root: v})
		}
	}
	for _, v := range g.consts {
		ps = append(ps, path{e: &Ref{V: v}, t: v.Ty, root: v})
	}
	if g.fx != nil && g.Cfg.Overrides {
		for _, v := range g.ovr {
			ps = append(ps, path{e: &Ref{V: v}, t: v.Ty, root: v})
		}
	}
	return ps
}

func (g *Gen) touch(v *Var) {
	if g.fx != nil && v != nil && v.Kind == VGlobal {
		g.fx.globals[v] = true
	}
}

// readPath finds a readable (sub)path of type t, or nil.
func (g *Gen) readPath(t *Type) Expr {
	ps := g.roots()
	if len(ps) == 0 {
		return nil
	}
	want := func(x *Type) bool { return x == t }
	for tries := 0; tries < 6; tries++ {
		p := ps[g.R.Intn(len(ps))]
		if p.t.HasAtomic() && p.t.Kind == KAtomic {
			continue
		}
		if q, ok := g.subPath(p, want, 0); ok {
			if exprHasAtomicRoot(q.e) {
				continue
			}
			if q.root != nil && q.root.Kind == VGlobal && (q.root.Space == "storage" || q.root.Space == "uniform") && containsStruct(t) {
				if !g.on("read.struct-from-buffer") {
					continue
				}
				g.feat("read.struct-from-buffer")
			}
			g.touch(q.root)
			if q.root != nil {
				g.feat("read." + spaceOf(q.root))
			}
			return q.e
		}
	}
	return nil
}

func spaceOf(v *Var) string {
	switch v.Kind {
	case VGlobal:
		return v.Space
	case VLocal:
		return "function"
	case VLet:
		return "let"
	case VConst:
		return "const"
	case VParam:
		if v.Ty.Kind == KPtr {
			return "ptrparam"
		}
		return "param"
	case VOverride:
		return "override"
	}
	return "?"
}

func exprHasAtomicRoot(e Expr) bool { return e.T().Kind == KAtomic }

func (g *Gen) genLeaf(t *Type) Expr {
	if g.R.Chance(3, 5) {
		if e := g.readPath(t); e != nil {
			return e
		}
	}
	if t.IsScalar() {
		return g.litOf(t)
	}
	if !t.Constructible() {
		return nil
	}
	if e := g.readPath(t); e != nil {
		return e
	}
	return g.consLits(t)
}

// ---------- abstract const-expressions ----------

func (g *Gen) genAbstract(t *Type, depth int) Expr {
	var at *Type
	switch t.Kind {
	case KI32, KU32:
		at = AbsInt
	case KF32:
		if g.R.Chance(1, 4) {
			at = AbsInt
		} else {
			at = AbsFloat
		}
	default:
		return g.litOf(t)
	}
	g.feat("abstract." + at.key + "->" + t.key)
	x := g.genAbs(at, depth)
	if t.Kind == KU32 {
		// keep non-negative most of the time: negative abstract -> u32 is a shader-creation error (ConstOK rejects it)
	}
	return &Materialize{X: x, Ty: t}
}

func (g *Gen) genAbs(at *Type, depth int) Expr {
	if depth <= 0 || g.R.Chance(1, 3) {
		return g.litOf(at)
	}
	switch g.R.Intn(6) {
	case 0:
		if !g.on("abstract.neg-compound") {
			l := g.litOf(at)
			if isNegLit(l) {
				if !g.on("abstract.neg-neg") {
					return l
				}
				g.feat("abstract.neg-neg")
			}
			return &Unary{Op: "-", X: l, Ty: at}
		}
		g.feat("abstract.neg-compound")
		return &Unary{Op: "-", X: g.genAbs(at, depth-1), Ty: at}
	case 1:
		if !g.on("abstract.builtin") {
			return g.litOf(at)
		}
		g.feat("abstract.builtin")
		name := []string{"min", "max", "abs"}[g.R.Intn(3)]
		if name == "abs" {
			return &Builtin{Name: name, Args: []Expr{g.genAbs(at, depth-1)}, Ty: at}
		}
		return &Builtin{Name: name, Args: []Expr{g.genAbs(at, depth-1), g.genAbs(at, depth-1)}, Ty: at}
	default:
		ops := []string{"+", "-", "*", "/", "%"}
		if at == AbsFloat || g.noAbsIntDivMod {
			ops = []string{"+", "-", "*"}
		}
		op := ops[g.R.Intn(len(ops))]
		if at == AbsFloat && g.on("abstract.mixed") && g.R.Chance(1, 3) {
			// an abstract-int operand (a negation, a parenthesised sum, rarely a bare literal) next to an abstract-float
			// one: the integer side is converted, and the operator keeps its operand order
			g.feat("abstract.mixed")
			old := g.noAbsIntDivMod
			g.noAbsIntDivMod = !g.on("abstract.mixed-int-divmod")
			in := &Materialize{X: g.genAbs(AbsInt, max(1, depth-1)), Ty: AbsFloat}
			g.noAbsIntDivMod = old
			fl := g.genAbs(AbsFloat, depth-1)
			if g.R.Bool() {
				return &Binary{Op: op, L: in, R: fl, Ty: at}
			}
			return &Binary{Op: op, L: fl, R: in, Ty: at}
		}
		return &Binary{Op: op, L: g.genAbs(at, depth-1), R: g.genAbs(at, depth-1), Ty: at}
	}
}

// ---------- bool ----------

func (g *Gen) genBool(depth int) Expr {
	r := g.R
	switch r.Pick([]int{1, 3, 6, 3, 1, 1, 1}) {
	case 0:
		return g.litOf(Bool)
	case 1:
		if e := g.readPath(Bool); e != nil {
			return e
		}
		fallthrough
	case 2:
		t := []*Type{I32, U32, F32}[r.Intn(3)]
		op := []string{"==", "!=", "<", "<=", ">", ">="}[r.Intn(6)]
		g.feat("cmp." + op + "." + t.key)
		cmp := &Binary{Op: op, L: g.genExpr(t, depth-1), R: g.genExprT(t, depth-1), Ty: Bool}
		if Constish(cmp) && !IsConst(cmp) {
			if !g.on("cmp.folded-through-let") {
				return nil
			}
			g.feat("cmp.folded-through-let")
		}
		return cmp
	case 3:
		op := []string{"&&", "||", "&", "|", "==", "!="}[r.Intn(6)]
		g.feat("logic." + op)
		return &Binary{Op: op, L: g.genExpr(Bool, depth-1), R: g.genExpr(Bool, depth-1), Ty: Bool}
	case 4:
		return &Unary{Op: "!", X: g.genExpr(Bool, depth-1), Ty: Bool}
	case 5:
		n := r.Range(2, 4)
		name := []string{"all", "any"}[r.Intn(2)]
		g.feat("fn." + name)
		return &Builtin{Name: name, Args: []Expr{g.genExpr(g.U.Vec(n, Bool), depth-1)}, Ty: Bool}
	default:
		g.feat("fn.select.bool")
		return &Builtin{Name: "select", Args: []Expr{g.genExpr(Bool, depth-1), g.genExpr(Bool, depth-1), g.genExpr(Bool, depth-1)}, Ty: Bool}
	}
}

// ---------- ints ----------

// nonConstOf returns an expression of type t that is NOT a const-expression (or nil).
func (g *Gen) nonConst(t *Type, depth int) Expr {
	for i := 0; i < 4; i++ {
		e := g.genExpr(t, depth)
		if !IsConst(e) {
			return e
		}
	}
	return nil
}

func (g *Gen) shiftAmount(width int, depth int) Expr {
	st := U32
	if width > 1 {
		st = g.U.Vec(width, U32)
	}
	if g.R.Chance(1, 2) || depth <= 0 {
		if width == 1 {
			return &Lit{Ty: U32, I: int64(g.R.Intn(32))}
		}
		args := make([]Expr, width)
		for i := range args {
			args[i] = &Lit{Ty: U32, I: int64(g.R.Intn(32))}
		}
		return &Cons{Ty: st, Args: args}
	}
	if g.Cfg.Hostile || (g.on("shift.raw") && g.R.Chance(1, 3)) {
		if e := g.nonConst(st, depth-1); e != nil {
			g.feat("shift.raw")
			return e
		}
	}
	var mask Expr = &Lit{Ty: U32, I: 31}
	if width > 1 {
		mask = &Cons{Ty: st, Args: []Expr{&Lit{Ty: U32, I: 31}}}
	}
	return &Binary{Op: "&", L: g.genExpr(st, depth-1), R: mask, Ty: st}
}

// divisor: never a const zero (WGSL makes that a shader-creation error); runtime zero is fine (defined result).
func (g *Gen) divisor(t *Type, depth int) Expr {
	if g.R.Chance(1, 2) && g.on("div.runtime-divisor") {
		if e := g.nonConst(t, depth-1); e != nil {
			g.feat("div.runtime-divisor")
			return e
		}
	}
	for {
		var e Expr
		if t.IsScalar() {
			l := g.litOf(t)
			if l.I == 0 && l.F == 0 {
				continue
			}
			e = l
		} else {
			args := make([]Expr, t.Width())
			for i := range args {
				for {
					l := g.litOf(t.Scalar())
					if l.I != 0 || l.F != 0 {
						args[i] = l
						break
					}
				}
			}
			e = &Cons{Ty: t, Args: args}
		}
		return e
	}
}

var intBin = []string{"+", "-", "*", "/", "%", "&", "|", "^", "<<", ">>"}

func (g *Gen) genIntBinary(t *Type, depth int) Expr {
	op := intBin[g.R.Intn(len(intBin))]
	if op == "%" && t.Scalar().Kind == KI32 && !g.on("op.%.i32") {
		op = "^"
	}
	g.feat("op." + op + "." + t.ShapeName())
	switch op {
	case "<<", ">>":
		return &Binary{Op: op, L: g.genExpr(t, depth-1), R: g.shiftAmount(t.Width(), depth), Ty: t}
	case "/", "%":
		return &Binary{Op: op, L: g.genExpr(t, depth-1), R: g.divisor(t, depth), Ty: t}
	}
	// vector (op) scalar mixed forms
	if t.Kind == KVec && g.R.Chance(1, 4) && (op == "+" || op == "-" || op == "*") {
		g.feat("op.vec-scalar")
		if g.R.Bool() {
			return &Binary{Op: op, L: g.genExpr(t, depth-1), R: g.genExpr(t.Elem, depth-1), Ty: t}
		}
		return &Binary{Op: op, L: g.genExpr(t.Elem, depth-1), R: g.genExpr(t, depth-1), Ty: t}
	}
	return &Binary{Op: op, L: g.genExpr(t, depth-1), R: g.genExprT(t, depth-1), Ty: t}
}

func (g *Gen) genInt(t *Type, depth int) Expr {
	r := g.R
	switch r.Pick([]int{2, 5, 8, 2, 5, 3, 2, 2, 1, 2}) {
	case 0:
		return g.litOf(t)
	case 1:
		if e := g.readPath(t); e != nil {
			return e
		}
		return g.litOf(t)
	case 2:
		return g.genIntBinary(t, depth)
	case 3:
		op := "~"
		if t.Kind == KI32 && r.Bool() {
			op = "-"
		}
		g.feat("op.unary" + op + "." + t.key)
		return &Unary{Op: op, X: g.genExpr(t, depth-1), Ty: t}
	case 4:
		return g.genIntBuiltin(t, depth)
	case 5:
		return g.genConvert(t, depth)
	case 6:
		g.feat("fn.select")
		return &Builtin{Name: "select", Args: []Expr{g.genExpr(t, depth-1), g.genExpr(t, depth-1), g.genExpr(Bool, depth-1)}, Ty: t}
	case 7:
		if e := g.genCall(t, depth); e != nil {
			return e
		}
		return g.genIntBinary(t, depth)
	case 8:
		return g.litOf(t)
	default:
		if !g.on("fn.dot.int") {
			return g.litOf(t)
		}
		n := r.Range(2, 4)
		g.feat("fn.dot.int")
		vt := g.U.Vec(n, t)
		return &Builtin{Name: "dot", Args: []Expr{g.genExpr(vt, depth-1), g.genExpr(vt, depth-1)}, Ty: t}
	}
}

func (g *Gen) genIntBuiltin(t *Type, depth int) Expr {
	r := g.R
	sc := t.Scalar()
	names := []string{"min", "max", "clamp", "abs", "countOneBits", "countLeadingZeros", "countTrailingZeros", "reverseBits", "firstLeadingBit", "firstTrailingBit", "extractBits", "insertBits"}
	if sc.Kind == KI32 {
		names = append(names, "sign")
	}
	name := names[r.Intn(len(names))]
	if !g.on("fn." + name) {
		name = "min"
	}
	if name == "abs" && sc.Kind == KU32 {
		if !g.on("fn.abs.u32") {
			name = "max"
		} else {
			g.feat("fn.abs.u32")
		}
	}
	g.feat("fn." + name + "." + t.ShapeName())
	a := func() Expr { return g.genExpr(t, depth-1) }
	switch name {
	case "min", "max":
		return &Builtin{Name: name, Args: []Expr{a(), a()}, Ty: t}
	case "clamp":
		if g.on("clamp.int-unordered") {
			g.feat("clamp.int-unordered")
			return &Builtin{Name: name, Args: []Expr{a(), a(), a()}, Ty: t}
		}
		lo, hi := a(), a()
		return &Builtin{Name: name, Args: []Expr{a(), &Builtin{Name: "min", Args: []Expr{lo, hi}, Ty: t}, &Builtin{Name: "max", Args: []Expr{lo, hi}, Ty: t}}, Ty: t}
	case "extractBits":
		off, cnt := g.bitRange(depth)
		return &Builtin{Name: name, Args: []Expr{a(), off, cnt}, Ty: t}
	case "insertBits":
		off, cnt := g.bitRange(depth)
		return &Builtin{Name: name, Args: []Expr{a(), a(), off, cnt}, Ty: t}
	default:
		return &Builtin{Name: name, Args: []Expr{a()}, Ty: t}
	}
}

// bitRange: offset/count operands. Const operands must satisfy offset+count <= 32 (else shader-creation error);
// runtime operands may be anything (WGSL clamps).
func (g *Gen) bitRange(depth int) (Expr, Expr) {
	if g.R.Chance(1, 2) {
		off := g.R.Intn(33)
		cnt := g.R.Intn(33 - off)
		return &Lit{Ty: U32, I: int64(off)}, &Lit{Ty: U32, I: int64(cnt)}
	}
	o := g.nonConst(U32, depth-1)
	c := g.nonConst(U32, depth-1)
	if o == nil || c == nil {
		return &Lit{Ty: U32, I: 3}, &Lit{Ty: U32, I: 7}
	}
	g.feat("bits.runtime-range")
	if g.on("bits.unclamped-range") && g.R.Chance(1, 2) {
		g.feat("bits.unclamped-range")
		return o, c
	}
	// keep inside 32 bits: off in [0,31], cnt in [0, 32-off] via masks
	off := &Binary{Op: "&", L: o, R: &Lit{Ty: U32, I: 15}, Ty: U32}
	cnt := &Binary{Op: "&", L: c, R: &Lit{Ty: U32, I: 15}, Ty: U32}
	return off, cnt
}

// genConvert: value conversions and bitcasts producing t (scalar or vector of i32/u32/f32/bool).
func (g *Gen) genConvert(t *Type, depth int) Expr {
	r := g.R
	sc := t.Scalar()
	srcs := []*Type{I32, U32, F32, Bool}
	src := srcs[r.Intn(len(srcs))]
	if src == sc {
		src = srcs[(r.Intn(3)+1+indexOf(srcs, sc))%4]
	}
	st := src
	if t.Kind == KVec {
		st = g.U.Vec(t.N, src)
	}
	if src != Bool && sc != Bool && r.Chance(1, 3) {
		g.feat("bitcast." + src.key + "->" + sc.key)
		x := g.genExpr(st, depth-1)
		if sc == F32 {
			// bit patterns of arbitrary ints may be NaN/inf/subnormal: only used as pure data (wref marks the class)
			g.feat("bitcast.to-float")
		}
		return &Builtin{Name: "bitcast", TArg: t, Args: []Expr{x}, Ty: t}
	}
	g.feat("conv." + src.key + "->" + sc.key)
	var x Expr
	if src == F32 && (sc == I32 || sc == U32) && !g.Cfg.Hostile && !g.on("f2i.raw") {
		// keep float->int conversions in range unless the profile asks for hostile ones
		x = &Builtin{Name: "clamp", Args: []Expr{g.genExpr(st, depth-1), g.splatF(st, loFor(sc)), g.splatF(st, 1e6)}, Ty: st}
	} else {
		x = g.genExpr(st, depth-1)
	}
	return &Cons{Ty: t, Args: []Expr{x}}
}

func loFor(sc *Type) float64 {
	if sc == U32 {
		return 0
	}
	return -1e6
}

func (g *Gen) splatF(t *Type, v float64) Expr {
	if t.Kind == KVec {
		return &Cons{Ty: t, Args: []Expr{&Lit{Ty: F32, F: v}}}
	}
	return &Lit{Ty: F32, F: v}
}

func indexOf(ts []*Type, t *Type) int {
	for i, x := range ts {
		if x == t {
			return i
		}
	}
	return 0
}

// ---------- floats ----------

var fExact1 = []string{"abs", "floor", "ceil", "trunc", "round", "sign", "saturate"}
var fTol1 = []string{"sqrt", "inverseSqrt", "fract", "exp", "exp2", "log", "log2", "sin", "cos", "tan", "sinh", "cosh", "tanh", "asin", "acos", "atan", "asinh", "acosh", "atanh", "degrees", "radians"}

func (g *Gen) genFloatLike(t *Type, depth int) Expr {
	r := g.R
	a := func() Expr { return g.genExpr(t, depth-1) }
	switch r.Pick([]int{2, 5, 7, 1, 4, 3, 2, 2, 2, 1}) {
	case 0:
		return g.zeroOrLit(t)
	case 1:
		if e := g.readPath(t); e != nil {
			return e
		}
		return g.zeroOrLit(t)
	case 2:
		op := []string{"+", "-", "*", "+", "-", "*", "/", "%"}[r.Intn(8)]
		if (op == "/" || op == "%") && !g.allowTol && !(op == "%" && g.fx == nil) {
			// (a float remainder is exact, so a constant expression may contain it without a tolerance)
			op = "*"
		}
		if op == "%" && !g.on("op.%.f32") {
			op = "+"
		}
		g.feat("op." + op + "." + t.ShapeName())
		if op == "/" || op == "%" {
			return &Binary{Op: op, L: a(), R: g.divisor(t, depth), Ty: t}
		}
		if t.Kind == KVec && r.Chance(1, 4) {
			g.feat("op.vec-scalar")
			if r.Bool() {
				return &Binary{Op: op, L: a(), R: g.genExpr(t.Elem, depth-1), Ty: t}
			}
			return &Binary{Op: op, L: g.genExpr(t.Elem, depth-1), R: a(), Ty: t}
		}
		return &Binary{Op: op, L: a(), R: g.genExprT(t, depth-1), Ty: t}
	case 3:
		g.feat("op.unary-." + t.ShapeName())
		return &Unary{Op: "-", X: a(), Ty: t}
	case 4:
		name := fExact1[r.Intn(len(fExact1))]
		if !g.on("fn." + name) {
			name = "floor"
		}
		g.feat("fn." + name + "." + t.ShapeName())
		return &Builtin{Name: name, Args: []Expr{a()}, Ty: t}
	case 5:
		name := []string{"min", "max", "clamp", "step"}[r.Intn(4)]
		g.feat("fn." + name + "." + t.ShapeName())
		if name == "clamp" {
			// lo <= hi by construction: clamp(x, min(l,h), max(l,h))
			l, h := a(), a()
			return &Builtin{Name: name, Args: []Expr{a(), &Builtin{Name: "min", Args: []Expr{l, h}, Ty: t}, &Builtin{Name: "max", Args: []Expr{l, h}, Ty: t}}, Ty: t}
		}
		return &Builtin{Name: name, Args: []Expr{a(), a()}, Ty: t}
	case 6:
		g.feat("fn.select")
		ct := Bool
		if t.Kind == KVec && r.Bool() && g.on("fn.select.vec-cond") {
			ct = g.U.Vec(t.N, Bool)
			g.feat("fn.select.vec-cond")
		}
		return &Builtin{Name: "select", Args: []Expr{a(), a(), g.genExpr(ct, depth-1)}, Ty: t}
	case 7:
		return g.genConvert(t, depth)
	case 8:
		if e := g.genCall(t, depth); e != nil {
			return e
		}
		return g.zeroOrLit(t)
	default:
		if !g.allowTol {
			return g.zeroOrLit(t)
		}
		// tolerant-class builtins: only as the direct value of a store (sink)
		switch r.Intn(3) {
		case 0:
			name := fTol1[r.Intn(len(fTol1))]
			if !g.on("fn." + name) {
				name = "sqrt"
			}
			g.feat("fn." + name + "." + t.ShapeName())
			return &Builtin{Name: name, Args: []Expr{a()}, Ty: t}
		case 1:
			name := []string{"fma", "mix", "smoothstep"}[r.Intn(3)]
			g.feat("fn." + name + "." + t.ShapeName())
			return &Builtin{Name: name, Args: []Expr{a(), a(), a()}, Ty: t}
		default:
			name := []string{"pow", "atan2"}[r.Intn(2)]
			g.feat("fn." + name + "." + t.ShapeName())
			return &Builtin{Name: name, Args: []Expr{a(), a()}, Ty: t}
		}
	}
}

func (g *Gen) genFloat(depth int) Expr {
	r := g.R
	if r.Chance(1, 8) {
		n := r.Range(2, 4)
		vt := g.U.Vec(n, F32)
		if g.allowTol {
			name := []string{"dot", "length", "distance"}[r.Intn(3)]
			g.feat("fn." + name + ".f32")
			if name == "length" {
				return &Builtin{Name: name, Args: []Expr{g.genExpr(vt, depth-1)}, Ty: F32}
			}
			return &Builtin{Name: name, Args: []Expr{g.genExpr(vt, depth-1), g.genExpr(vt, depth-1)}, Ty: F32}
		}
	}
	if r.Chance(1, 12) && g.allowTol {
		n := r.Range(2, 4)
		if n == 2 && !g.on("type.matCx2") {
			n = 3
		}
		g.feat("fn.determinant")
		return &Builtin{Name: "determinant", Args: []Expr{g.genExpr(g.U.Mat(n, n, F32), depth-1)}, Ty: F32}
	}
	return g.genFloatLike(F32, depth)
}

// ---------- vectors ----------

func (g *Gen) genVec(t *Type, depth int) Expr {
	r := g.R
	sc := t.Elem
	switch r.Pick([]int{4, 3, 8, 2, 1}) {
	case 0: // constructor forms
		return g.genVecCtor(t, depth)
	case 1: // swizzle of another vector
		srcN := r.Range(2, 4)
		st := g.U.Vec(srcN, sc)
		comps := make([]int, t.N)
		for i := range comps {
			comps[i] = r.Intn(srcN)
		}
		g.feat("swizzle.multi")
		base := g.genPostfixable(st, depth-1)
		if hasDerefParam(base) {
			if !g.on("ptr-param.swizzle") {
				return nil
			}
			g.feat("ptr-param.swizzle")
		}
		return &Swiz{X: base, Comps: comps, RGBA: r.Chance(1, 5), Ty: t}
	case 2:
		switch sc.Kind {
		case KBool:
			return g.genBoolVec(t, depth)
		case KI32, KU32:
			switch r.Intn(5) {
			case 0:
				return g.genIntBuiltin(t, depth)
			case 1:
				return g.genConvert(t, depth)
			case 2:
				g.feat("op.unary.vec")
				op := "~"
				if sc.Kind == KI32 && r.Bool() {
					op = "-"
				}
				return &Unary{Op: op, X: g.genExpr(t, depth-1), Ty: t}
			default:
				return g.genIntBinary(t, depth)
			}
		default:
			if t.N == 3 && r.Chance(1, 10) && g.allowTol {
				g.feat("fn.cross")
				return &Builtin{Name: "cross", Args: []Expr{g.genExpr(t, depth-1), g.genExpr(t, depth-1)}, Ty: t}
			}
			if r.Chance(1, 8) && g.allowTol && g.on("mat.mul") && (t.N != 2 || g.on("type.matCx2")) {
				// matrix * vector (tolerant: sum order unspecified)
				c := r.Range(2, 4)
				g.feat("op.mat*vec")
				return &Binary{Op: "*", L: g.genExpr(g.U.Mat(c, t.N, F32), depth-1), R: g.genExpr(g.U.Vec(c, F32), depth-1), Ty: t}
			}
			return g.genFloatLike(t, depth)
		}
	case 3:
		if e := g.readPath(t); e != nil {
			return e
		}
		return g.genVecCtor(t, depth)
	default:
		if e := g.genCall(t, depth); e != nil {
			return e
		}
		return g.genVecCtor(t, depth)
	}
}

func (g *Gen) genPostfixable(t *Type, depth int) Expr {
	e := g.genExpr(t, depth)
	switch e.(type) {
	case *Ref, *CallE, *Builtin, *Cons, *Index, *Field, *Swiz:
		return e
	}
	return &Paren{X: e}
}

func (g *Gen) genVecCtor(t *Type, depth int) Expr {
	r := g.R
	sc := t.Elem
	infer := r.Chance(1, 5) && sc != Bool && g.on("ctor.infer")
	switch r.Intn(4) {
	case 0:
		g.feat("ctor.splat")
		return &Cons{Ty: t, Args: []Expr{g.genExpr(sc, depth-1)}, Infer: infer && false}
	case 1:
		if t.N >= 3 {
			g.feat("ctor.vec-mixed")
			k := r.Range(2, t.N-1)
			sub := g.genExpr(g.U.Vec(k, sc), depth-1)
			args := []Expr{}
			pos := r.Intn(t.N - k + 1)
			for i := 0; i < t.N-k+1; i++ {
				if i == pos {
					args = append(args, sub)
				} else {
					args = append(args, g.genExpr(sc, depth-1))
				}
			}
			return &Cons{Ty: t, Args: args}
		}
		fallthrough
	default:
		args := make([]Expr, t.N)
		for i := range args {
			args[i] = g.genExpr(sc, depth-1)
		}
		if infer {
			g.feat("ctor.infer")
		}
		return &Cons{Ty: t, Args: args, Infer: infer}
	}
}

func (g *Gen) genBoolVec(t *Type, depth int) Expr {
	r := g.R
	switch r.Intn(4) {
	case 0:
		return g.genVecCtor(t, depth)
	case 1:
		op := []string{"&", "|", "==", "!="}[r.Intn(4)]
		g.feat("logic.vec." + op)
		return &Binary{Op: op, L: g.genExpr(t, depth-1), R: g.genExpr(t, depth-1), Ty: t}
	case 2:
		g.feat("logic.vec.!")
		return &Unary{Op: "!", X: g.genExpr(t, depth-1), Ty: t}
	default:
		st := g.U.Vec(t.N, []*Type{I32, U32, F32}[r.Intn(3)])
		op := []string{"==", "!=", "<", "<=", ">", ">="}[r.Intn(6)]
		g.feat("cmp.vec." + op + "." + st.Elem.key)
		return &Binary{Op: op, L: g.genExpr(st, depth-1), R: g.genExpr(st, depth-1), Ty: t}
	}
}

// ---------- matrices ----------

func (g *Gen) genMat(t *Type, depth int) Expr {
	r := g.R
	switch r.Pick([]int{3, 3, 3, 2}) {
	case 0:
		if e := g.readPath(t); e != nil {
			return e
		}
		fallthrough
	case 1:
		if r.Bool() {
			g.feat("ctor.mat-cols")
			args := make([]Expr, t.N)
			ct := g.U.Vec(t.R, t.Elem)
			for i := range args {
				args[i] = g.genExpr(ct, depth-1)
			}
			return &Cons{Ty: t, Args: args}
		}
		g.feat("ctor.mat-scalars")
		args := make([]Expr, t.N*t.R)
		for i := range args {
			args[i] = g.genExpr(t.Elem, depth-1)
		}
		return &Cons{Ty: t, Args: args}
	case 2:
		switch r.Intn(4) {
		case 0:
			g.feat("op.mat+mat")
			return &Binary{Op: []string{"+", "-"}[r.Intn(2)], L: g.genExpr(t, depth-1), R: g.genExpr(t, depth-1), Ty: t}
		case 1:
			g.feat("op.mat*scalar")
			if r.Bool() {
				return &Binary{Op: "*", L: g.genExpr(t, depth-1), R: g.genExpr(F32, depth-1), Ty: t}
			}
			return &Binary{Op: "*", L: g.genExpr(F32, depth-1), R: g.genExpr(t, depth-1), Ty: t}
		case 2:
			if t.N == 2 && !g.on("type.matCx2") {
				return g.consLits(t)
			}
			g.feat("fn.transpose")
			return &Builtin{Name: "transpose", Args: []Expr{g.genExpr(g.U.Mat(t.R, t.N, t.Elem), depth-1)}, Ty: t}
		default:
			if g.allowTol && g.on("mat.mul") {
				k := r.Range(2, 4)
				if k == 2 && !g.on("type.matCx2") {
					k = 4
				}
				g.feat("op.mat*mat")
				return &Binary{Op: "*", L: g.genExpr(g.U.Mat(k, t.R, F32), depth-1), R: g.genExpr(g.U.Mat(t.N, k, F32), depth-1), Ty: t}
			}
			return &Binary{Op: "-", L: g.genExpr(t, depth-1), R: g.genExpr(t, depth-1), Ty: t}
		}
	default:
		if e := g.genCall(t, depth); e != nil {
			return e
		}
		return g.consLits(t)
	}
}

// ---------- arrays / structs ----------

func (g *Gen) genComposite(t *Type, depth int) Expr {
	if !t.Constructible() {
		return nil
	}
	r := g.R
	switch r.Intn(4) {
	case 0:
		if e := g.readPath(t); e != nil {
			return e
		}
		fallthrough
	case 1:
		if e := g.genCall(t, depth); e != nil {
			return e
		}
		fallthrough
	default:
		if r.Chance(1, 5) {
			g.feat("ctor.zero")
			return &Cons{Ty: t}
		}
		switch t.Kind {
		case KArray:
			if t.N > 8 {
				return &Cons{Ty: t}
			}
			args := make([]Expr, t.N)
			for i := range args {
				args[i] = g.genExpr(t.Elem, depth-1)
			}
			g.feat("ctor.array")
			return &Cons{Ty: t, Args: args}
		case KStruct:
			args := make([]Expr, len(t.Members))
			for i, m := range t.Members {
				args[i] = g.genExpr(m.Type, depth-1)
			}
			g.feat("ctor.struct")
			return &Cons{Ty: t, Args: args}
		}
	}
	return nil
}

// ---------- calls ----------

func (g *Gen) genCall(t *Type, depth int) Expr {
	if g.fx == nil || g.fx.inGlobalInit {
		return nil
	}
	var cands []*Func
	for _, f := range g.fx.callable {
		if f.Ret == t {
			if g.noSideFx && g.writes[f] {
				continue
			}
			cands = append(cands, f)
		}
	}
	if len(cands) == 0 {
		return nil
	}
	f := cands[g.R.Intn(len(cands))]
	if c := g.callOf(f, depth); c != nil {
		return c
	}
	return nil
}

// callOf builds a call to f with fresh arguments; returns nil if pointer arguments cannot be satisfied.
func (g *Gen) callOf(f *Func, depth int) *CallE {
	args := make([]Expr, len(f.Params))
	usedRoots := map[*Var]bool{}
	for i, p := range f.Params {
		if p.Ty.Kind == KPtr {
			a := g.ptrArg(p.Ty, f, usedRoots)
			if a == nil {
				return nil
			}
			args[i] = a
			continue
		}
		d := depth - 1
		if d > 2 {
			d = 2
		}
		if d < 0 {
			d = 0
		}
		args[i] = g.genExprT(p.Ty, d)
	}
	for v := range g.access[f] {
		g.touch(v)
	}
	g.feat("call.helper")
	if g.calledFns == nil {
		g.calledFns = map[*Func]int{}
	}
	g.calledFns[f]++
	if g.writes[f] && g.fx != nil {
		g.fx.sideFx = true
	}
	return &CallE{F: f, Args: args}
}

func (g *Gen) genExprNoCallTo(t *Type, depth int) Expr { return g.genExpr(t, depth) }

// ptrArg returns &var for a function-space (or private) variable of the right type whose root is unused in this call
// and (for private globals) not accessed by the callee.
func (g *Gen) ptrArg(pt *Type, callee *Func, used map[*Var]bool) Expr {
	var cands []Expr
	var roots []*Var
	for _, v := range g.visible() {
		if used[v] {
			continue
		}
		if v.Kind == VLocal && pt.Space == "function" {
			if v.Ty == pt.Elem {
				cands = append(cands, &AddrOf{X: &Ref{V: v}, Ty: pt})
				roots = append(roots, v)
			} else if g.on("ptr.subobject") {
				// pointer to a member / element of a local composite
				if q, ok := g.subPath(path{e: &Ref{V: v}, t: v.Ty, writable: true, root: v}, func(x *Type) bool { return x == pt.Elem }, 0); ok {
					vec3Member := false
					if fe, isField := q.e.(*Field); isField && pt.Elem.Kind == KVec && pt.Elem.N == 3 {
						_ = fe
						vec3Member = true // finding F130 (MSL): a vec3 struct member is a packed_T3; a reference parameter cannot bind to it
					}
					if vec3Member && !g.on("ptr.struct-vec3-member") {
						continue
					}
					if vec3Member {
						g.feat("ptr.struct-vec3-member")
					}
					if !containsVecIndex(q.e) && (g.on("ptr.mat-column") || !containsMatIndex(q.e)) && (g.on("ptr.dynamic-element") || !containsDynIndex(q.e)) {
						if containsDynIndex(q.e) {
							g.feat("ptr.dynamic-element")
						}
						if containsMatIndex(q.e) {
							g.feat("ptr.mat-column")
						}
						cands = append(cands, &AddrOf{X: q.e, Ty: pt})
						roots = append(roots, v)
						g.feat("ptr.subobject")
					}
				}
			}
		}
		if v.Kind == VParam && v.Ty == pt {
			cands = append(cands, &Ref{V: v})
			roots = append(roots, v)
		}
	}
	if pt.Space == "private" {
		for _, v := range g.globals {
			if v.Space == "private" && v.Ty == pt.Elem && !used[v] && !g.access[callee][v] && !g.fx.noGlobals[v] {
				cands = append(cands, &AddrOf{X: &Ref{V: v}, Ty: pt})
				roots = append(roots, v)
			}
		}
	}
	if len(cands) == 0 {
		return nil
	}
	i := g.R.Intn(len(cands))
	used[roots[i]] = true
	g.touch(roots[i])
	if roots[i].Kind == VGlobal {
		// the pointee global is accessed through the pointer: it must not be accessed by name while the call runs;
		// record so that callers of *this* function know.
		g.fx.ptrGlobals[roots[i]] = true
	}
	g.feat("call.ptr-arg." + pt.Space)
	return cands[i]
}

func containsMatIndex(e Expr) bool {
	switch e := e.(type) {
	case *Index:
		if derefType(e.X.T()).Kind == KMat {
			return true
		}
		return containsMatIndex(e.X)
	case *Field:
		return containsMatIndex(e.X)
	}
	return false
}

// containsVecIndex: WGSL forbids taking the address of a vector component.
func containsVecIndex(e Expr) bool {
	switch e := e.(type) {
	case *Index:
		if derefType(e.X.T()).Kind == KVec {
			return true
		}
		return containsVecIndex(e.X)
	case *Swiz:
		return true
	case *Field:
		return containsVecIndex(e.X)
	case *Deref:
		return false
	}
	return false
}

// hasDerefParam: the expression is a (parenthesised) dereference of a pointer parameter, possibly through member/index access.
func hasDerefParam(e Expr) bool {
	switch e := e.(type) {
	case *Deref:
		return true
	case *Paren:
		return hasDerefParam(e.X)
	case *Field:
		return hasDerefParam(e.X)
	case *Index:
		return hasDerefParam(e.X)
	}
	return false
}

func hasRef(e Expr) bool {
	found := false
	WalkExpr(e, func(x Expr) {
		if _, ok := x.(*Ref); ok {
			found = true
		}
	})
	return found
}

// containsDynIndex: the reference expression indexes something with a non-literal index.
func containsDynIndex(e Expr) bool {
	switch e := e.(type) {
	case *Index:
		switch i := e.I.(type) {
		case *Lit:
		case *Materialize:
			if _, ok := i.X.(*Lit); !ok {
				return true
			}
		default:
			return true
		}
		return containsDynIndex(e.X)
	case *Field:
		return containsDynIndex(e.X)
	case *Paren:
		return containsDynIndex(e.X)
	}
	return false
}

func containsStruct(t *Type) bool {
	switch t.Kind {
	case KStruct:
		return true
	case KArray:
		return containsStruct(t.Elem)
	}
	return false
}
