// Package spvx is an independent SPIR-V binary reader and a trapping
// interpreter for GLCompute entry points. It is written from the SPIR-V
// specification (1.0-1.6, Logical addressing, GLSL450/Vulkan memory model) and
// the GLSL.std.450 extended instruction set; it does not share code with the
// compiler whose output it executes.
package spvx

import (
	"errors"
	"fmt"
	"sync"
)

// Magic is the SPIR-V magic number.
const Magic = 0x07230203

// Inst is one decoded instruction.
type Inst struct {
	Op     uint16
	Words  []uint32 // the whole instruction; Words[0] = wordCount<<16 | opcode
	Type   uint32   // result type id, 0 when the opcode has none
	Result uint32   // result id, 0 when the opcode has none
	Args   []uint32 // operand words after result type / result id (aliases Words)
	Pos    int      // index of Words[0] in the module's word stream
	Known  bool     // the opcode is in the reader's table (Type/Result are reliable)
}

// Name returns "OpXxx".
func (in *Inst) Name() string { return OpcodeName(in.Op) }

// Decoration is one OpDecorate / OpMemberDecorate payload.
type Decoration struct {
	Kind uint32
	Args []uint32
}

// EntryPoint describes an OpEntryPoint. LocalSize is filled for GLCompute
// entry points from OpExecutionMode LocalSize / LocalSizeId (or a constant
// decorated BuiltIn WorkgroupSize) and is {0,0,0} if none was declared.
type EntryPoint struct {
	Name      string
	Model     uint32
	LocalSize [3]uint32
}

type entryInfo struct {
	EntryPoint
	fn        uint32
	iface     []uint32
	hasLocal  bool
	localIDs  [3]uint32 // LocalSizeId operands (resolved at prepare time)
	hasLocalI bool
}

// Module is a decoded SPIR-V module.
type Module struct {
	Version   [2]int // major, minor
	Generator uint32
	Bound     uint32
	Schema    uint32
	Insts     []*Inst

	Defs        map[uint32]*Inst  // result id -> defining instruction
	TypeOf      map[uint32]uint32 // result id -> result type id (instructions that have one)
	Names       map[uint32]string
	MemberNames map[uint32]map[uint32]string
	Decos       map[uint32][]Decoration            // target id -> decorations
	MemberDecos map[uint32]map[uint32][]Decoration // struct type id -> member -> decorations
	ExtImports  map[uint32]string                  // OpExtInstImport id -> name
	Caps        []uint32
	Extensions  []string

	entries []entryInfo

	prepOnce sync.Once
	prep     *prepared
}

// Deco returns the first decoration of the given kind on id.
func (m *Module) Deco(id, kind uint32) (Decoration, bool) {
	for _, d := range m.Decos[id] {
		if d.Kind == kind {
			return d, true
		}
	}
	return Decoration{}, false
}

// MemberDeco returns the first decoration of the given kind on a struct member.
func (m *Module) MemberDeco(id, member, kind uint32) (Decoration, bool) {
	for _, d := range m.MemberDecos[id][member] {
		if d.Kind == kind {
			return d, true
		}
	}
	return Decoration{}, false
}

// decodeString reads a nul-terminated UTF-8 literal packed little-endian into
// words. It returns the string and the number of words consumed.
func decodeString(w []uint32) (string, int, error) {
	var b []byte
	for i, x := range w {
		for s := 0; s < 32; s += 8 {
			c := byte(x >> s)
			if c == 0 {
				return string(b), i + 1, nil
			}
			b = append(b, c)
		}
	}
	return "", 0, errors.New("unterminated string literal")
}

// Parse decodes a SPIR-V binary (little-endian words).
func Parse(bin []byte) (m *Module, err error) {
	defer func() {
		if r := recover(); r != nil {
			m, err = nil, fmt.Errorf("spvx: internal error while parsing: %v", r)
		}
	}()
	if len(bin)%4 != 0 {
		return nil, fmt.Errorf("spvx: length %d is not a multiple of 4", len(bin))
	}
	if len(bin) < 20 {
		return nil, errors.New("spvx: module shorter than the 5-word header")
	}
	words := make([]uint32, len(bin)/4)
	for i := range words {
		words[i] = uint32(bin[4*i]) | uint32(bin[4*i+1])<<8 | uint32(bin[4*i+2])<<16 | uint32(bin[4*i+3])<<24
	}
	if words[0] != Magic {
		if words[0] == 0x03022307 {
			return nil, errors.New("spvx: big-endian module (byte-swapped magic) not supported")
		}
		return nil, fmt.Errorf("spvx: bad magic 0x%08x", words[0])
	}
	m = &Module{
		Version:     [2]int{int(words[1] >> 16 & 0xff), int(words[1] >> 8 & 0xff)},
		Generator:   words[2],
		Bound:       words[3],
		Schema:      words[4],
		Defs:        map[uint32]*Inst{},
		TypeOf:      map[uint32]uint32{},
		Names:       map[uint32]string{},
		MemberNames: map[uint32]map[uint32]string{},
		Decos:       map[uint32][]Decoration{},
		MemberDecos: map[uint32]map[uint32][]Decoration{},
		ExtImports:  map[uint32]string{},
	}
	for pos := 5; pos < len(words); {
		wc := int(words[pos] >> 16)
		op := uint16(words[pos])
		if wc == 0 {
			return nil, fmt.Errorf("spvx: word %d: instruction %s with word count 0", pos, OpcodeName(op))
		}
		if pos+wc > len(words) {
			return nil, fmt.Errorf("spvx: word %d: instruction %s (word count %d) runs past the end of the module", pos, OpcodeName(op), wc)
		}
		in := &Inst{Op: op, Words: words[pos : pos+wc : pos+wc], Pos: pos}
		info, known := opTable[op]
		in.Known = known
		rest := in.Words[1:]
		if info.hasTy {
			if len(rest) < 2 {
				return nil, fmt.Errorf("spvx: word %d: %s too short for result type and id", pos, OpcodeName(op))
			}
			in.Type, in.Result, rest = rest[0], rest[1], rest[2:]
		} else if info.hasRes {
			if len(rest) < 1 {
				return nil, fmt.Errorf("spvx: word %d: %s too short for result id", pos, OpcodeName(op))
			}
			in.Result, rest = rest[0], rest[1:]
		}
		in.Args = rest
		m.Insts = append(m.Insts, in)
		if in.Result != 0 {
			if _, dup := m.Defs[in.Result]; !dup {
				m.Defs[in.Result] = in
				if in.Type != 0 {
					m.TypeOf[in.Result] = in.Type
				}
			}
		}
		pos += wc
	}
	if err := m.collect(); err != nil {
		return nil, err
	}
	return m, nil
}

// collect fills names, decorations, imports and entry points.
func (m *Module) collect() error {
	type groupUse struct {
		group   uint32
		targets []uint32
		member  bool
	}
	var groups []groupUse
	for _, in := range m.Insts {
		a := in.Args
		bad := func() error {
			return fmt.Errorf("spvx: word %d: malformed %s", in.Pos, in.Name())
		}
		switch in.Op {
		case OpCapability:
			if len(a) < 1 {
				return bad()
			}
			m.Caps = append(m.Caps, a[0])
		case OpExtension:
			s, _, err := decodeString(a)
			if err != nil {
				return bad()
			}
			m.Extensions = append(m.Extensions, s)
		case OpExtInstImport:
			s, _, err := decodeString(a)
			if err != nil {
				return bad()
			}
			m.ExtImports[in.Result] = s
		case OpName:
			if len(a) < 2 {
				return bad()
			}
			s, _, err := decodeString(a[1:])
			if err != nil {
				return bad()
			}
			m.Names[a[0]] = s
		case OpMemberName:
			if len(a) < 3 {
				return bad()
			}
			s, _, err := decodeString(a[2:])
			if err != nil {
				return bad()
			}
			if m.MemberNames[a[0]] == nil {
				m.MemberNames[a[0]] = map[uint32]string{}
			}
			m.MemberNames[a[0]][a[1]] = s
		case OpDecorate, OpDecorateId, OpDecorateString:
			if len(a) < 2 {
				return bad()
			}
			m.Decos[a[0]] = append(m.Decos[a[0]], Decoration{Kind: a[1], Args: a[2:]})
		case OpMemberDecorate, OpMemberDecorateString:
			if len(a) < 3 {
				return bad()
			}
			if m.MemberDecos[a[0]] == nil {
				m.MemberDecos[a[0]] = map[uint32][]Decoration{}
			}
			m.MemberDecos[a[0]][a[1]] = append(m.MemberDecos[a[0]][a[1]], Decoration{Kind: a[2], Args: a[3:]})
		case OpGroupDecorate:
			if len(a) < 1 {
				return bad()
			}
			groups = append(groups, groupUse{group: a[0], targets: a[1:]})
		case OpGroupMemberDecorate:
			if len(a) < 1 || len(a)%2 != 1 {
				return bad()
			}
			groups = append(groups, groupUse{group: a[0], targets: a[1:], member: true})
		case OpEntryPoint:
			if len(a) < 3 {
				return bad()
			}
			s, n, err := decodeString(a[2:])
			if err != nil {
				return bad()
			}
			m.entries = append(m.entries, entryInfo{
				EntryPoint: EntryPoint{Name: s, Model: a[0]},
				fn:         a[1],
				iface:      a[2+n:],
			})
		}
	}
	for _, g := range groups {
		ds := m.Decos[g.group]
		if !g.member {
			for _, t := range g.targets {
				m.Decos[t] = append(m.Decos[t], ds...)
			}
			continue
		}
		for i := 0; i+1 < len(g.targets); i += 2 {
			t, mem := g.targets[i], g.targets[i+1]
			if m.MemberDecos[t] == nil {
				m.MemberDecos[t] = map[uint32][]Decoration{}
			}
			m.MemberDecos[t][mem] = append(m.MemberDecos[t][mem], ds...)
		}
	}
	// Execution modes (need the entry list first).
	for _, in := range m.Insts {
		if in.Op != OpExecutionMode && in.Op != OpExecutionModeId {
			continue
		}
		a := in.Args
		if len(a) < 2 {
			return fmt.Errorf("spvx: word %d: malformed %s", in.Pos, in.Name())
		}
		for i := range m.entries {
			e := &m.entries[i]
			if e.fn != a[0] {
				continue
			}
			switch a[1] {
			case modeLocalSize:
				if len(a) < 5 {
					return fmt.Errorf("spvx: word %d: LocalSize needs 3 literals", in.Pos)
				}
				e.LocalSize = [3]uint32{a[2], a[3], a[4]}
				e.hasLocal = true
			case modeLocalSizeID:
				if len(a) < 5 {
					return fmt.Errorf("spvx: word %d: LocalSizeId needs 3 ids", in.Pos)
				}
				e.localIDs = [3]uint32{a[2], a[3], a[4]}
				e.hasLocalI = true
			}
		}
	}
	// Literal resolution of LocalSizeId / WorkgroupSize-decorated constants when
	// they are plain 32-bit OpConstant / OpSpecConstant words (the common case);
	// the interpreter re-resolves them through its constant evaluator.
	lit := func(id uint32) (uint32, bool) {
		d := m.Defs[id]
		if d != nil && (d.Op == OpConstant || d.Op == OpSpecConstant) && len(d.Args) >= 1 {
			return d.Args[0], true
		}
		return 0, false
	}
	var wgSizeConst *Inst
	for id, ds := range m.Decos {
		for _, d := range ds {
			if d.Kind == decBuiltIn && len(d.Args) == 1 && d.Args[0] == biWorkgroupSize {
				if def := m.Defs[id]; def != nil && (def.Op == OpConstantComposite || def.Op == OpSpecConstantComposite) && len(def.Args) == 3 {
					wgSizeConst = def
				}
			}
		}
	}
	for i := range m.entries {
		e := &m.entries[i]
		if e.Model != modelGLCompute {
			continue
		}
		if e.hasLocalI {
			for k := 0; k < 3; k++ {
				if v, ok := lit(e.localIDs[k]); ok {
					e.LocalSize[k] = v
				}
			}
		}
		if wgSizeConst != nil {
			for k := 0; k < 3; k++ {
				if v, ok := lit(wgSizeConst.Args[k]); ok {
					e.LocalSize[k] = v
				}
			}
			e.hasLocal = true
		}
	}
	return nil
}

// EntryPoints lists the module's entry points in declaration order.
func (m *Module) EntryPoints() []EntryPoint {
	out := make([]EntryPoint, len(m.entries))
	for i, e := range m.entries {
		out[i] = e.EntryPoint
	}
	return out
}
