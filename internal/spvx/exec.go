package spvx

import (
	"fmt"

	"verif/internal/xrt"
)

const (
	maxCallDepth = 128
	maxTraps     = 64
)

type frame struct {
	fn   *function
	vals []Value
}

type coro struct {
	resume chan bool // true = go on, false = abandon
	yield  chan bool // true = finished, false = waiting at a barrier
	err    any
}

type invocation struct {
	vars     []Value // pointer value per global variable index (K==vUnset: not materialised)
	co       *coro
	started  bool
	finished bool
}

type killed struct{}

type exec struct {
	p        *prepared
	trapMode bool
	res      *xrt.Result
	budget   int
	steps    int
	covOps   [512]int
	covGLSL  [96]int
	covOther map[string]int
	trapSeen map[string]bool
	inv      *invocation
	curFn    *function
	curInst  *Inst
	constant bool // evaluating module-scope constants
}

func newConstExec(p *prepared) *exec {
	return &exec{p: p, trapMode: true, res: &xrt.Result{}, budget: 1 << 30, covOther: map[string]int{}, trapSeen: map[string]bool{}, constant: true}
}

func (x *exec) count(in *Inst) {
	x.steps++
	if x.steps > x.budget {
		panic(runErr{&xrt.Unsupported{What: "step budget"}})
	}
	if in.Op < 512 {
		x.covOps[in.Op]++
	} else {
		x.covOther[in.Name()]++
	}
}

func (x *exec) flushCoverage() {
	cov := x.res.Cov
	for op, n := range x.covOps {
		if n > 0 {
			cov[OpcodeName(uint16(op))] += n
		}
	}
	for g, n := range x.covGLSL {
		if n > 0 {
			cov[GLSLName(uint32(g))] += n
		}
	}
	for k, n := range x.covOther {
		cov[k] += n
	}
	x.res.Steps = x.steps
}

// where describes the current instruction for trap / error messages.
func (x *exec) where() string {
	fn := "<module scope>"
	if x.curFn != nil {
		fn = x.curFn.name
	}
	in := x.curInst
	if in == nil {
		return "in " + fn
	}
	if in.Result != 0 {
		return fmt.Sprintf("in %s: %%%d = %s", fn, in.Result, in.Name())
	}
	return fmt.Sprintf("in %s: %s (word %d)", fn, in.Name(), in.Pos)
}

func (x *exec) trap(kind xrt.TrapKind, format string, a ...any) {
	if !x.trapMode {
		return
	}
	d := fmt.Sprintf(format, a...) + " " + x.where()
	key := string(kind) + "|" + d
	if x.trapSeen[key] {
		return
	}
	x.trapSeen[key] = true
	if len(x.res.Traps) < maxTraps {
		x.res.Traps = append(x.res.Traps, &xrt.Trap{Kind: kind, Detail: d})
	}
}

// note records an event that the specification leaves undefined but for which
// the interpreter deliberately does not raise a trap (float domain errors).
func (x *exec) note(what string) {
	x.covOther["undef:"+what]++
}

func (x *exec) failf(format string, a ...any) {
	panic(runErr{structErr(format+" %s", append(append([]any{}, a...), x.where())...)})
}

func (x *exec) unsupported(format string, a ...any) {
	panic(runErr{&xrt.Unsupported{What: fmt.Sprintf(format, a...)}})
}

// val fetches the value of an id in the current frame / module scope.
func (x *exec) val(fr *frame, id uint32) Value {
	if int(id) >= x.p.n {
		x.failf("use of undefined id %%%d", id)
	}
	l := x.p.loc[id]
	switch l.kind {
	case locGlobal:
		if err := x.p.badConst[id]; err != nil {
			panic(runErr{err})
		}
		return x.p.globals[id]
	case locLocal:
		if fr == nil || int(l.fn) != fr.fn.idx {
			x.failf("id %%%d belongs to another function", id)
		}
		v := fr.vals[l.idx]
		if v.K == vUnset {
			x.failf("id %%%d used before its definition was executed", id)
		}
		return v
	case locVar:
		if x.inv == nil {
			x.failf("variable %%%d used at module scope", id)
		}
		v := x.inv.vars[l.idx]
		if v.K == vUnset {
			g := x.p.gvars[l.idx]
			if g.kind == gvUnsupported {
				x.unsupported("%s", g.unsup)
			}
			x.failf("variable %%%d is not available to this entry point", id)
		}
		return v
	}
	x.failf("use of undefined id %%%d", id)
	return Value{}
}

func (x *exec) typeOfID(id uint32) *Type {
	if int(id) >= x.p.n || x.p.tyOf[id] == nil {
		x.failf("id %%%d has no type", id)
	}
	return x.p.tyOf[id]
}

func (x *exec) resultType(in *Inst) *Type {
	t := x.p.types[in.Type]
	if t == nil {
		x.failf("result type %%%d is not a supported type", in.Type)
	}
	return t
}

func (x *exec) set(fr *frame, in *Inst, v Value) {
	if fr == nil {
		return
	}
	l := x.p.loc[in.Result]
	if l.kind != locLocal || int(l.fn) != fr.fn.idx {
		x.failf("result id %%%d is not local to this function", in.Result)
	}
	if v.K == vUnset {
		x.failf("internal: instruction produced no value")
	}
	fr.vals[l.idx] = v
}

func (x *exec) needArgs(in *Inst, n int) {
	if len(in.Args) < n {
		x.failf("needs %d operands, has %d", n, len(in.Args))
	}
}

// condBits reads a boolean scalar used to steer control flow.
func (x *exec) condBits(v Value, what string) uint64 {
	if v.K != vScalar {
		x.failf("%s is not a scalar", what)
	}
	if v.P {
		x.trap(xrt.TrapPoison, "%s is an undefined value", what)
	}
	return v.B
}

// call runs one function activation.
func (x *exec) call(fn *function, args []Value, depth int) Value {
	if depth > maxCallDepth {
		fail("call depth exceeds %d (recursion?) in %s", maxCallDepth, fn.name)
	}
	if len(args) != len(fn.params) {
		fail("function %s called with %d arguments, declares %d parameters", fn.name, len(args), len(fn.params))
	}
	if len(fn.insts) == 0 {
		fail("function %s has no body", fn.name)
	}
	savedFn, savedInst := x.curFn, x.curInst
	defer func() { x.curFn, x.curInst = savedFn, savedInst }()
	x.curFn = fn
	fr := &frame{fn: fn, vals: make([]Value, fn.nslots)}
	for i, pid := range fn.params {
		fr.vals[x.p.loc[pid].idx] = args[i]
	}
	pc := 0
	var cur, prev uint32
	jump := func(target uint32) {
		t, ok := fn.labels[target]
		if !ok {
			x.failf("branch to %%%d which is not a label of this function", target)
		}
		prev = cur
		pc = t
	}
	for {
		if pc < 0 || pc >= len(fn.insts) {
			x.failf("control ran past the end of function %s", fn.name)
		}
		in := fn.insts[pc]
		x.curInst = in
		x.count(in)
		switch in.Op {
		case OpLabel:
			cur = in.Result
			// all OpPhi of the block read their operands before any is written
			j := pc + 1
			var phis []*Inst
			for j < len(fn.insts) {
				o := fn.insts[j].Op
				if o == OpPhi {
					phis = append(phis, fn.insts[j])
				} else if o != OpLine && o != OpNoLine {
					break
				}
				j++
			}
			if len(phis) > 0 {
				vals := make([]Value, len(phis))
				for i, ph := range phis {
					x.curInst = ph
					x.count(ph)
					found := false
					for k := 0; k+1 < len(ph.Args); k += 2 {
						if ph.Args[k+1] == prev {
							vals[i] = x.val(fr, ph.Args[k])
							found = true
							break
						}
					}
					if !found {
						x.failf("OpPhi has no operand for predecessor %%%d", prev)
					}
				}
				for i, ph := range phis {
					x.curInst = ph
					x.set(fr, ph, vals[i])
				}
			}
			pc = j
			continue
		case OpPhi:
			x.failf("OpPhi not at the start of a block")
		case OpBranch:
			x.needArgs(in, 1)
			jump(in.Args[0])
			continue
		case OpBranchConditional:
			x.needArgs(in, 3)
			if x.condBits(x.val(fr, in.Args[0]), "branch condition")&1 != 0 {
				jump(in.Args[1])
			} else {
				jump(in.Args[2])
			}
			continue
		case OpSwitch:
			x.needArgs(in, 2)
			sel := x.condBits(x.val(fr, in.Args[0]), "switch selector")
			st := x.typeOfID(in.Args[0])
			if st.Kind != KInt {
				x.failf("switch selector is not an integer")
			}
			target := in.Args[1]
			lw := 1
			if st.Width > 32 {
				lw = 2
			}
			rest := in.Args[2:]
			if len(rest)%(lw+1) != 0 {
				x.failf("malformed OpSwitch operand list")
			}
			for k := 0; k+lw < len(rest); k += lw + 1 {
				lit := uint64(rest[k])
				if lw == 2 {
					lit |= uint64(rest[k+1]) << 32
				}
				if lit&widthMask(st.Width) == sel {
					target = rest[k+lw]
					break
				}
			}
			jump(target)
			continue
		case OpReturn:
			if fn.retTy.Kind != KVoid {
				x.trap(xrt.TrapUnreach, "OpReturn in a function that must return a value")
				v, err := newValue(fn.retTy, true)
				if err != nil {
					panic(runErr{err})
				}
				return v
			}
			return Value{K: vOpaque}
		case OpReturnValue:
			x.needArgs(in, 1)
			return x.val(fr, in.Args[0])
		case OpUnreachable:
			x.trap(xrt.TrapUnreach, "OpUnreachable executed")
			if fn.retTy.Kind != KVoid {
				v, err := newValue(fn.retTy, true)
				if err != nil {
					panic(runErr{err})
				}
				return v
			}
			return Value{K: vOpaque}
		case OpKill, OpTerminateInvocation:
			x.unsupported("%s in a compute entry point", in.Name())
		case OpFunctionCall:
			x.needArgs(in, 1)
			callee := x.p.funcByID[in.Args[0]]
			if callee == nil {
				x.failf("call of %%%d which is not a function", in.Args[0])
			}
			cargs := make([]Value, len(in.Args)-1)
			for i, id := range in.Args[1:] {
				cargs[i] = x.val(fr, id)
			}
			r := x.call(callee, cargs, depth+1)
			x.curFn, x.curInst = fn, in
			x.set(fr, in, r)
		case OpVariable:
			x.needArgs(in, 1)
			pt := x.resultType(in)
			if pt.Kind != KPointer || in.Args[0] != scFunction {
				x.failf("OpVariable inside a function must be a Function-storage pointer")
			}
			var cell Value
			if len(in.Args) >= 2 {
				cell = deepCopy(x.val(fr, in.Args[1]))
			} else {
				v, err := newValue(pt.Elem, true)
				if err != nil {
					panic(runErr{err})
				}
				cell = v
			}
			x.set(fr, in, Value{K: vPtr, Ptr: &Pointer{Ty: pt.Elem, Storage: scFunction, Var: in.Result, Node: &cell}})
		case OpControlBarrier:
			x.needArgs(in, 3)
			for _, id := range in.Args[:3] {
				x.val(fr, id)
			}
			x.barrier()
		default:
			if v, has := x.evalInst(fr, in); has {
				x.set(fr, in, v)
			}
		}
		pc++
	}
}

// barrier parks the current invocation until the scheduler releases it.
func (x *exec) barrier() {
	inv := x.inv
	if inv == nil || inv.co == nil {
		return // single invocation or no scheduler: nothing to wait for
	}
	fn, in := x.curFn, x.curInst
	inv.co.yield <- false
	if !<-inv.co.resume {
		panic(killed{})
	}
	x.inv, x.curFn, x.curInst = inv, fn, in
}
