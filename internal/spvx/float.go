package spvx

import (
	"math"
)

// sext sign-extends the low w bits of b.
func sext(b uint64, w int) int64 {
	if w >= 64 {
		return int64(b)
	}
	s := uint(64 - w)
	return int64(b<<s) >> s
}

// f16ToF64 decodes a binary16 bit pattern exactly.
func f16ToF64(h uint16) float64 {
	sign := 1.0
	if h&0x8000 != 0 {
		sign = -1.0
	}
	e := int(h >> 10 & 0x1f)
	f := int(h & 0x3ff)
	switch {
	case e == 0:
		return sign * math.Ldexp(float64(f), -24)
	case e == 31:
		if f == 0 {
			return sign * math.Inf(1)
		}
		return math.NaN()
	}
	return sign * math.Ldexp(float64(1024+f), e-25)
}

// f64ToF16 rounds a float64 to binary16, round-to-nearest-even (one rounding).
func f64ToF16(v float64) uint16 {
	var sign uint16
	if math.Signbit(v) {
		sign = 0x8000
	}
	if v != v {
		return sign | 0x7e00
	}
	a := math.Abs(v)
	if math.IsInf(a, 0) || a >= 65520 {
		return sign | 0x7c00
	}
	if a < 6.103515625e-05 { // 2^-14: subnormal range, quantum 2^-24
		r := math.RoundToEven(math.Ldexp(a, 24))
		return sign | uint16(r) // r == 1024 gives the smallest normal number
	}
	_, e2 := math.Frexp(a) // a = m * 2^e2 with m in [0.5,1)
	e := e2 - 1            // a in [2^e, 2^(e+1))
	r := math.RoundToEven(math.Ldexp(a, 10-e))
	if r >= 2048 {
		r = 1024
		e++
	}
	if e > 15 {
		return sign | 0x7c00
	}
	return sign | uint16(e+15)<<10 | uint16(int(r)-1024)
}

// fa performs IEEE arithmetic at one float width, on scalar Values. Every
// operation rounds once to the width; poison flows from operands to result.
type fa struct{ w int }

// dec decodes the bits of a float scalar exactly into a float64.
func (f fa) dec(b uint64) float64 {
	switch f.w {
	case 16:
		return f16ToF64(uint16(b))
	case 32:
		return float64(math.Float32frombits(uint32(b)))
	}
	return math.Float64frombits(b)
}

// enc rounds a float64 to the width (round-to-nearest-even) and returns bits.
func (f fa) enc(v float64) uint64 {
	switch f.w {
	case 16:
		return uint64(f64ToF16(v))
	case 32:
		return uint64(math.Float32bits(float32(v)))
	}
	return math.Float64bits(v)
}

func (f fa) val(v float64, p bool) Value { return Value{K: vScalar, B: f.enc(v), P: p} }

func (f fa) konst(v float64) Value { return f.val(v, false) }

// bin applies + - * / with a single rounding at the width. For binary16 the
// operation is done in binary32 and for binary32 natively; rounding the
// binary32 result of a binary16 operation to binary16 is exact-equivalent to a
// single rounding because 24 >= 2*11+2 (likewise sqrt).
func (f fa) bin(op byte, a, b Value) Value {
	p := a.P || b.P
	switch f.w {
	case 32:
		x, y := math.Float32frombits(uint32(a.B)), math.Float32frombits(uint32(b.B))
		var r float32
		switch op {
		case '+':
			r = float32(x + y)
		case '-':
			r = float32(x - y)
		case '*':
			r = float32(x * y)
		case '/':
			r = float32(x / y)
		}
		return Value{K: vScalar, B: uint64(math.Float32bits(r)), P: p}
	case 16:
		x, y := float32(f16ToF64(uint16(a.B))), float32(f16ToF64(uint16(b.B)))
		var r float32
		switch op {
		case '+':
			r = float32(x + y)
		case '-':
			r = float32(x - y)
		case '*':
			r = float32(x * y)
		case '/':
			r = float32(x / y)
		}
		return Value{K: vScalar, B: uint64(f64ToF16(float64(r))), P: p}
	}
	x, y := math.Float64frombits(a.B), math.Float64frombits(b.B)
	var r float64
	switch op {
	case '+':
		r = float64(x + y)
	case '-':
		r = float64(x - y)
	case '*':
		r = float64(x * y)
	case '/':
		r = float64(x / y)
	}
	return Value{K: vScalar, B: math.Float64bits(r), P: p}
}

func (f fa) add(a, b Value) Value { return f.bin('+', a, b) }
func (f fa) sub(a, b Value) Value { return f.bin('-', a, b) }
func (f fa) mul(a, b Value) Value { return f.bin('*', a, b) }
func (f fa) div(a, b Value) Value { return f.bin('/', a, b) }

func (f fa) signBit() uint64 { return uint64(1) << uint(f.w-1) }

func (f fa) neg(a Value) Value {
	return Value{K: vScalar, B: a.B ^ f.signBit(), P: a.P}
}

func (f fa) abs(a Value) Value {
	return Value{K: vScalar, B: a.B &^ f.signBit(), P: a.P}
}

// sqrt is correctly rounded (float64 sqrt then one more rounding is innocuous
// for binary16/32).
func (f fa) sqrt(a Value) Value {
	return f.val(math.Sqrt(f.dec(a.B)), a.P)
}

// fn1 applies a float64 function and rounds once.
func (f fa) fn1(a Value, g func(float64) float64) Value {
	return f.val(g(f.dec(a.B)), a.P)
}

func (f fa) fn2(a, b Value, g func(float64, float64) float64) Value {
	return f.val(g(f.dec(a.B), f.dec(b.B)), a.P || b.P)
}

// rem is OpFRem: exact, sign of the dividend (C fmod).
func (f fa) rem(a, b Value) Value {
	return f.val(math.Mod(f.dec(a.B), f.dec(b.B)), a.P || b.P)
}

// mod is OpFMod: sign of the divisor. r = fmod(a,b); if r is non-zero and its
// sign differs from b's, r+b (rounded at the width).
func (f fa) mod(a, b Value) Value {
	r := f.rem(a, b)
	rv, bv := f.dec(r.B), f.dec(b.B)
	if rv != 0 && (rv < 0) != (bv < 0) && !math.IsInf(bv, 0) {
		return f.add(r, b)
	}
	if rv == 0 && rv == rv {
		// zero result takes the sign of the divisor
		if math.Signbit(bv) {
			return Value{K: vScalar, B: f.signBit(), P: r.P}
		}
		return Value{K: vScalar, B: 0, P: r.P}
	}
	return r
}

func (f fa) isNaN(a Value) bool { v := f.dec(a.B); return v != v }
func (f fa) isInf(a Value) bool { return math.IsInf(f.dec(a.B), 0) }

// fma is a fused multiply-add: the exact a*b+c is rounded by math.FMA to
// float64 and then to the width (for binary64 that is a single rounding; for
// narrower widths the second rounding can differ from a true single rounding
// only when the float64 result lands exactly on a rounding boundary).
func (f fa) fma(a, b, c Value) Value {
	return f.val(math.FMA(f.dec(a.B), f.dec(b.B), f.dec(c.B)), a.P || b.P || c.P)
}
