package spvx

import (
	"testing"
	"time"

	"github.com/gogpu/naga/spirv"

	"verif/internal/xrt"
)

// The full default step budget (2e6 instructions) must be affordable.
func TestStepBudgetSpeed(t *testing.T) {
	bin, err := compileWGSL(hdr+`
@compute @workgroup_size(1) fn main() {
  var acc = 0u;
  for (var i = 0u; i < inp[0]; i++) { acc = acc * 31u + (i ^ (acc >> 3u)); }
  o[0] = acc;
}`, spirv.Version1_3)
	if err != nil {
		t.Fatal(err)
	}
	m, err := Parse(bin)
	if err != nil {
		t.Fatal(err)
	}
	start := time.Now()
	res, err := Run(m, "main", xrt.Buffers{slot(0, 0): make([]byte, 4), slot(0, 1): u32buf(1 << 30)}, xrt.Options{TrapMode: true})
	el := time.Since(start)
	if u, ok := err.(*xrt.Unsupported); !ok || u.What != "step budget" {
		t.Fatalf("err = %v, want step budget", err)
	}
	if res.Steps < 2_000_000 {
		t.Errorf("steps = %d", res.Steps)
	}
	t.Logf("%d steps in %v (%.0f ns/step)", res.Steps, el, float64(el.Nanoseconds())/float64(res.Steps))
	if el > 10*time.Second {
		t.Errorf("2e6 steps took %v", el)
	}
}
