package spvx

import (
	"encoding/binary"
	"errors"
	"math"
	"testing"

	"verif/internal/xrt"
)

// A minimal SPIR-V assembler for tests of semantics that naga never emits
// (traps, OpPhi, row-major matrices, BufferBlock form, 16/64-bit scalars ...).

type asm struct {
	caps   [][]uint32
	pre    [][]uint32 // extensions, imports, memory model, entry point, modes
	decos  [][]uint32
	types  [][]uint32
	body   [][]uint32
	next   uint32
	glsl   uint32
	entry  uint32
	cache  map[string]uint32
	local  [3]uint32
	iface  []uint32
	target *[][]uint32
}

func newAsm() *asm {
	a := &asm{next: 1, cache: map[string]uint32{}, local: [3]uint32{1, 1, 1}}
	a.caps = append(a.caps, inst(OpCapability, 1))
	a.glsl = a.id()
	a.entry = a.id()
	return a
}

func (a *asm) id() uint32 { a.next++; return a.next - 1 }

func inst(op uint16, operands ...uint32) []uint32 {
	w := make([]uint32, 0, 1+len(operands))
	w = append(w, uint32(len(operands)+1)<<16|uint32(op))
	return append(w, operands...)
}

func strWords(s string) []uint32 {
	b := append([]byte(s), 0)
	for len(b)%4 != 0 {
		b = append(b, 0)
	}
	w := make([]uint32, len(b)/4)
	for i := range w {
		w[i] = binary.LittleEndian.Uint32(b[4*i:])
	}
	return w
}

func (a *asm) capability(c uint32) { a.caps = append(a.caps, inst(OpCapability, c)) }

// ty emits (once) a type / constant instruction with a result id in word 1 or 2.
func (a *asm) ty(key string, op uint16, operands ...uint32) uint32 {
	if id, ok := a.cache[key]; ok {
		return id
	}
	id := a.id()
	a.types = append(a.types, inst(op, append([]uint32{id}, operands...)...))
	a.cache[key] = id
	return id
}

func (a *asm) void() uint32  { return a.ty("void", OpTypeVoid) }
func (a *asm) boolT() uint32 { return a.ty("bool", OpTypeBool) }
func (a *asm) intT(w int, signed bool) uint32 {
	s := uint32(0)
	if signed {
		s = 1
	}
	return a.ty("int"+string(rune('0'+w/8))+string(rune('0'+s)), OpTypeInt, uint32(w), s)
}
func (a *asm) u32() uint32 { return a.intT(32, false) }
func (a *asm) i32() uint32 { return a.intT(32, true) }
func (a *asm) floatT(w int) uint32 {
	return a.ty("float"+string(rune('0'+w/8)), OpTypeFloat, uint32(w))
}
func (a *asm) f32() uint32 { return a.floatT(32) }
func (a *asm) vec(elem uint32, n int) uint32 {
	return a.ty("vec"+key(elem, uint32(n)), OpTypeVector, elem, uint32(n))
}
func (a *asm) mat(col uint32, n int) uint32 {
	return a.ty("mat"+key(col, uint32(n)), OpTypeMatrix, col, uint32(n))
}
func (a *asm) ptr(sc, t uint32) uint32 {
	return a.ty("ptr"+key(sc, t), OpTypePointer, sc, t)
}
func (a *asm) array(elem uint32, n uint32) uint32 {
	return a.ty("arr"+key(elem, n), OpTypeArray, elem, a.constU(n))
}

func key(v ...uint32) string {
	s := ""
	for _, x := range v {
		s += "_" + itoa(int(x))
	}
	return s
}

// constant with result type
func (a *asm) konst(t uint32, words ...uint32) uint32 {
	k := "const" + key(append([]uint32{t}, words...)...)
	if id, ok := a.cache[k]; ok {
		return id
	}
	id := a.id()
	a.types = append(a.types, inst(OpConstant, append([]uint32{t, id}, words...)...))
	a.cache[k] = id
	return id
}
func (a *asm) constU(v uint32) uint32  { return a.konst(a.u32(), v) }
func (a *asm) constI(v int32) uint32   { return a.konst(a.i32(), uint32(v)) }
func (a *asm) constF(v float32) uint32 { return a.konst(a.f32(), math.Float32bits(v)) }

func (a *asm) decorate(target, deco uint32, lits ...uint32) {
	a.decos = append(a.decos, inst(OpDecorate, append([]uint32{target, deco}, lits...)...))
}
func (a *asm) memberDecorate(target, member, deco uint32, lits ...uint32) {
	a.decos = append(a.decos, inst(OpMemberDecorate, append([]uint32{target, member, deco}, lits...)...))
}

// global emits a module-scope instruction that has result type + result id.
func (a *asm) global(op uint16, t uint32, operands ...uint32) uint32 {
	id := a.id()
	a.types = append(a.types, inst(op, append([]uint32{t, id}, operands...)...))
	return id
}

// storageU32Array declares `buffer { uint data[]; }` at (0, binding) and
// returns the variable id. With bufferBlock the pre-1.3 form is used.
func (a *asm) storageArray(elem uint32, stride uint32, binding uint32, bufferBlock bool) uint32 {
	ra := a.id()
	a.types = append(a.types, inst(OpTypeRuntimeArray, ra, elem))
	a.decorate(ra, decArrayStride, stride)
	st := a.id()
	a.types = append(a.types, inst(OpTypeStruct, st, ra))
	a.memberDecorate(st, 0, decOffset, 0)
	sc := uint32(scStorageBuffer)
	if bufferBlock {
		a.decorate(st, decBufferBlock)
		sc = scUniform
	} else {
		a.decorate(st, decBlock)
	}
	pt := a.id()
	a.types = append(a.types, inst(OpTypePointer, pt, sc, st))
	v := a.global(OpVariable, pt, sc)
	a.decorate(v, decDescriptorSet, 0)
	a.decorate(v, decBinding, binding)
	a.iface = append(a.iface, v)
	return v
}

// op appends a body instruction without result.
func (a *asm) op(op uint16, operands ...uint32) { a.body = append(a.body, inst(op, operands...)) }

// r appends a body instruction with result type and returns the result id.
func (a *asm) r(op uint16, t uint32, operands ...uint32) uint32 {
	id := a.id()
	a.body = append(a.body, inst(op, append([]uint32{t, id}, operands...)...))
	return id
}

func (a *asm) label() uint32 {
	id := a.id()
	a.body = append(a.body, inst(OpLabel, id))
	return id
}

func (a *asm) labelID(id uint32) { a.body = append(a.body, inst(OpLabel, id)) }

// elemPtr returns a pointer to data[index] of a storageArray variable.
func (a *asm) elemPtr(v, elem uint32, sc uint32, index uint32) uint32 {
	return a.r(OpAccessChain, a.ptr(sc, elem), v, a.constU(0), index)
}

func (a *asm) beginMain() {
	fnT := a.ty("fnvoid", OpTypeFunction, a.void())
	a.body = append(a.body, inst(OpFunction, a.void(), a.entry, 0, fnT))
}

func (a *asm) endMain() { a.op(OpFunctionEnd) }

func (a *asm) bytes(version [2]int) []byte {
	var w []uint32
	w = append(w, Magic, uint32(version[0])<<16|uint32(version[1])<<8, 0, a.next, 0)
	for _, c := range a.caps {
		w = append(w, c...)
	}
	w = append(w, inst(OpExtInstImport, append([]uint32{a.glsl}, strWords("GLSL.std.450")...)...)...)
	w = append(w, inst(OpMemoryModel, 0, 1)...)
	ep := append([]uint32{modelGLCompute, a.entry}, strWords("main")...)
	if version[1] >= 4 {
		ep = append(ep, a.iface...)
	}
	w = append(w, inst(OpEntryPoint, ep...)...)
	w = append(w, inst(OpExecutionMode, a.entry, modeLocalSize, a.local[0], a.local[1], a.local[2])...)
	for _, g := range [][][]uint32{a.pre, a.decos, a.types, a.body} {
		for _, i := range g {
			w = append(w, i...)
		}
	}
	b := make([]byte, 4*len(w))
	for i, x := range w {
		binary.LittleEndian.PutUint32(b[4*i:], x)
	}
	return b
}

func runAsm(t *testing.T, a *asm, bufs xrt.Buffers, trapMode bool) (xrt.Result, error) {
	t.Helper()
	m, err := Parse(a.bytes([2]int{1, 3}))
	if err != nil {
		t.Fatalf("Parse: %v", err)
	}
	return Run(m, "main", bufs, xrt.Options{TrapMode: trapMode})
}

func hasTrap(res xrt.Result, k xrt.TrapKind) bool {
	for _, tr := range res.Traps {
		if tr.Kind == k {
			return true
		}
	}
	return false
}

func mustTraps(t *testing.T, name string, res xrt.Result, err error, kinds ...xrt.TrapKind) {
	t.Helper()
	if err != nil {
		t.Fatalf("%s: Run: %v", name, err)
	}
	for _, k := range kinds {
		if !hasTrap(res, k) {
			t.Errorf("%s: missing trap %s; traps: %v", name, k, trapList(res))
		}
	}
	if len(kinds) == 0 && len(res.Traps) != 0 {
		t.Errorf("%s: unexpected traps: %v", name, trapList(res))
	}
}

func trapList(res xrt.Result) []string {
	var s []string
	for _, tr := range res.Traps {
		s = append(s, tr.Error())
	}
	return s
}

// binOpModule: o[k] = op(inp[2k], inp[2k+1]) for each listed opcode, on type t.
func TestAsmIntegerDivisionAndShiftTraps(t *testing.T) {
	type tc struct {
		op       uint16
		a, b     uint32
		want     uint32
		trap     xrt.TrapKind
		signedTy bool
	}
	neg := func(v int32) uint32 { return uint32(v) }
	cases := []tc{
		{OpSDiv, neg(-7), 2, neg(-3), "", true},
		{OpSRem, neg(-7), 2, neg(-1), "", true},
		{OpSMod, neg(-7), 2, 1, "", true},
		{OpSMod, 7, neg(-2), neg(-1), "", true},
		{OpSRem, 7, neg(-2), 1, "", true},
		{OpSMod, neg(-6), 3, 0, "", true},
		{OpUDiv, 0xFFFFFFFF, 2, 0x7FFFFFFF, "", false},
		{OpUMod, 0xFFFFFFFF, 10, 5, "", false},
		{OpSDiv, 5, 0, 0, xrt.TrapDivZero, true},
		{OpSRem, 5, 0, 0, xrt.TrapDivZero, true},
		{OpSMod, 5, 0, 0, xrt.TrapDivZero, true},
		{OpUDiv, 5, 0, 0, xrt.TrapDivZero, false},
		{OpUMod, 5, 0, 0, xrt.TrapDivZero, false},
		{OpSDiv, 0x80000000, neg(-1), 0x80000000, xrt.TrapDivOvf, true},
		{OpSRem, 0x80000000, neg(-1), 0, xrt.TrapDivOvf, true},
		{OpSMod, 0x80000000, neg(-1), 0, xrt.TrapDivOvf, true},
		{OpShiftLeftLogical, 1, 31, 0x80000000, "", false},
		{OpShiftLeftLogical, 1, 32, 1, xrt.TrapShift, false},
		{OpShiftRightLogical, 0x80000000, 35, 0x10000000, xrt.TrapShift, false},
		{OpShiftRightArithmetic, 0x80000000, 31, 0xFFFFFFFF, "", true},
		{OpShiftRightArithmetic, 0x80000000, 63, 0xFFFFFFFF, xrt.TrapShift, true},
		{OpIMul, 0x10000, 0x10000, 0, "", false},
		{OpISub, 0, 1, 0xFFFFFFFF, "", false},
	}
	for _, c := range cases {
		a := newAsm()
		o := a.storageArray(a.u32(), 4, 0, false)
		in := a.storageArray(a.u32(), 4, 1, false)
		a.beginMain()
		a.label()
		x := a.r(OpLoad, a.u32(), a.elemPtr(in, a.u32(), scStorageBuffer, a.constU(0)))
		y := a.r(OpLoad, a.u32(), a.elemPtr(in, a.u32(), scStorageBuffer, a.constU(1)))
		ty := a.u32()
		if c.signedTy {
			ty = a.i32()
			x = a.r(OpBitcast, ty, x)
			y = a.r(OpBitcast, ty, y)
		}
		r := a.r(c.op, ty, x, y)
		if c.signedTy {
			r = a.r(OpBitcast, a.u32(), r)
		}
		a.op(OpStore, a.elemPtr(o, a.u32(), scStorageBuffer, a.constU(0)), r)
		a.op(OpReturn)
		a.endMain()
		for _, trapMode := range []bool{true, false} {
			bufs := xrt.Buffers{slot(0, 0): u32buf(0xAAAAAAAA), slot(0, 1): u32buf(c.a, c.b)}
			res, err := runAsm(t, a, bufs, trapMode)
			name := OpcodeName(c.op)
			if err != nil {
				t.Fatalf("%s: %v", name, err)
			}
			wantU32(t, name, bufs[slot(0, 0)], 0, c.want)
			switch {
			case !trapMode && len(res.Traps) != 0:
				t.Errorf("%s: traps with TrapMode off", name)
			case trapMode && c.trap == "" && len(res.Traps) != 0:
				t.Errorf("%s(%#x,%#x): unexpected trap %v", name, c.a, c.b, res.Traps[0])
			case trapMode && c.trap != "" && !hasTrap(res, c.trap):
				t.Errorf("%s(%#x,%#x): missing trap %s", name, c.a, c.b, c.trap)
			}
		}
	}
}

func TestAsmPoison(t *testing.T) {
	// 1. load of an uninitialised Function variable stored to a buffer
	a := newAsm()
	o := a.storageArray(a.u32(), 4, 0, false)
	a.beginMain()
	a.label()
	v := a.r(OpVariable, a.ptr(scFunction, a.u32()), scFunction)
	x := a.r(OpLoad, a.u32(), v)
	y := a.r(OpIAdd, a.u32(), x, a.constU(1))
	a.op(OpStore, a.elemPtr(o, a.u32(), scStorageBuffer, a.constU(0)), y)
	a.op(OpStore, v, a.constU(5)) // now defined
	z := a.r(OpLoad, a.u32(), v)
	a.op(OpStore, a.elemPtr(o, a.u32(), scStorageBuffer, a.constU(1)), z)
	a.op(OpReturn)
	a.endMain()
	bufs := xrt.Buffers{slot(0, 0): u32buf(9, 9)}
	res, err := runAsm(t, a, bufs, true)
	mustTraps(t, "poison store", res, err, xrt.TrapPoison)
	if len(res.Traps) != 1 {
		t.Errorf("poison store: want exactly one trap, got %v", trapList(res))
	}
	wantU32(t, "poison store", bufs[slot(0, 0)], 4, 5)

	// 2. branch on OpUndef, index with OpUndef, select on poison, partial poison through a composite
	a = newAsm()
	o = a.storageArray(a.u32(), 4, 0, false)
	undefB := a.global(OpUndef, a.boolT())
	undefU := a.global(OpUndef, a.u32())
	a.beginMain()
	a.label()
	arr := a.r(OpVariable, a.ptr(scFunction, a.array(a.u32(), 4)), scFunction, a.global(OpConstantNull, a.array(a.u32(), 4)))
	l1, l2, lm := a.id(), a.id(), a.id()
	a.op(OpSelectionMerge, lm, 0)
	a.op(OpBranchConditional, undefB, l1, l2)
	a.labelID(l1)
	a.op(OpBranch, lm)
	a.labelID(l2)
	a.op(OpBranch, lm)
	a.labelID(lm)
	p := a.r(OpAccessChain, a.ptr(scFunction, a.u32()), arr, undefU)
	ld := a.r(OpLoad, a.u32(), p) // zero-initialised memory: defined value
	a.op(OpStore, a.elemPtr(o, a.u32(), scStorageBuffer, a.constU(0)), ld)
	// composite with one poison lane: extracting the defined lane must not trap
	v2 := a.r(OpCompositeConstruct, a.vec(a.u32(), 2), a.constU(7), undefU)
	e0 := a.r(OpCompositeExtract, a.u32(), v2, 0)
	a.op(OpStore, a.elemPtr(o, a.u32(), scStorageBuffer, a.constU(1)), e0)
	a.op(OpReturn)
	a.endMain()
	bufs = xrt.Buffers{slot(0, 0): u32buf(9, 9)}
	res, err = runAsm(t, a, bufs, true)
	mustTraps(t, "poison control", res, err, xrt.TrapPoison)
	if len(res.Traps) != 2 {
		t.Errorf("poison control: want 2 traps (branch, index), got %v", trapList(res))
	}
	wantU32(t, "poison control", bufs[slot(0, 0)], 0, 0, 7)

	// 3. OpVectorShuffle with 0xFFFFFFFF component gives an undefined lane
	a = newAsm()
	o = a.storageArray(a.u32(), 4, 0, false)
	a.beginMain()
	a.label()
	c2 := a.global(OpConstantComposite, a.vec(a.u32(), 2), a.constU(1), a.constU(2))
	sh := a.r(OpVectorShuffle, a.vec(a.u32(), 2), c2, c2, 3, 0xFFFFFFFF)
	a.op(OpStore, a.elemPtr(o, a.u32(), scStorageBuffer, a.constU(0)), a.r(OpCompositeExtract, a.u32(), sh, 0))
	a.op(OpStore, a.elemPtr(o, a.u32(), scStorageBuffer, a.constU(1)), a.r(OpCompositeExtract, a.u32(), sh, 1))
	a.op(OpReturn)
	a.endMain()
	bufs = xrt.Buffers{slot(0, 0): u32buf(9, 9)}
	res, err = runAsm(t, a, bufs, true)
	mustTraps(t, "shuffle undef", res, err, xrt.TrapPoison)
	wantU32(t, "shuffle undef", bufs[slot(0, 0)], 0, 2)
	// TrapMode off: no traps at all
	res, err = runAsm(t, a, xrt.Buffers{slot(0, 0): u32buf(9, 9)}, false)
	mustTraps(t, "shuffle undef (TrapMode off)", res, err)
}

func TestAsmUnreachableAndMissingReturn(t *testing.T) {
	a := newAsm()
	o := a.storageArray(a.u32(), 4, 0, false)
	// helper: u32 f() { OpReturn }  (invalid: must return a value)
	fnT := a.ty("fnu32", OpTypeFunction, a.u32())
	a.beginMain()
	a.label()
	helper := a.id()
	r := a.r(OpFunctionCall, a.u32(), helper)
	_ = r
	a.op(OpStore, a.elemPtr(o, a.u32(), scStorageBuffer, a.constU(0)), a.constU(3))
	a.op(OpUnreachable)
	a.endMain()
	a.body = append(a.body, inst(OpFunction, a.u32(), helper, 0, fnT))
	a.label()
	a.op(OpReturn)
	a.op(OpFunctionEnd)
	bufs := xrt.Buffers{slot(0, 0): u32buf(9)}
	res, err := runAsm(t, a, bufs, true)
	mustTraps(t, "unreachable", res, err, xrt.TrapUnreach)
	if len(res.Traps) != 2 {
		t.Errorf("want 2 unreachable traps (missing return value, OpUnreachable), got %v", trapList(res))
	}
	wantU32(t, "unreachable", bufs[slot(0, 0)], 0, 3)
}

func TestAsmConvertFToI(t *testing.T) {
	type tc struct {
		op   uint16
		in   float32
		want uint32
		trap bool
	}
	nan := float32(math.NaN())
	inf := float32(math.Inf(1))
	cases := []tc{
		{OpConvertFToS, 3.99, 3, false},
		{OpConvertFToS, -3.99, 0xFFFFFFFD, false},
		{OpConvertFToS, -2147483648, 0x80000000, false},
		{OpConvertFToS, 2147483648, 0x7FFFFFFF, true},
		{OpConvertFToS, -2147483904, 0x80000000, true},
		{OpConvertFToS, nan, 0, true},
		{OpConvertFToS, inf, 0x7FFFFFFF, true},
		{OpConvertFToU, -0.5, 0, false},
		{OpConvertFToU, -1, 0, true},
		{OpConvertFToU, 4294967040, 4294967040, false},
		{OpConvertFToU, 4294967296, 0xFFFFFFFF, true},
		{OpConvertFToU, nan, 0, true},
		{OpConvertFToU, -inf, 0, true},
	}
	for _, c := range cases {
		a := newAsm()
		o := a.storageArray(a.u32(), 4, 0, false)
		in := a.storageArray(a.f32(), 4, 1, false)
		a.beginMain()
		a.label()
		x := a.r(OpLoad, a.f32(), a.elemPtr(in, a.f32(), scStorageBuffer, a.constU(0)))
		ty := a.u32()
		if c.op == OpConvertFToS {
			ty = a.i32()
		}
		r := a.r(c.op, ty, x)
		if c.op == OpConvertFToS {
			r = a.r(OpBitcast, a.u32(), r)
		}
		a.op(OpStore, a.elemPtr(o, a.u32(), scStorageBuffer, a.constU(0)), r)
		a.op(OpReturn)
		a.endMain()
		bufs := xrt.Buffers{slot(0, 0): u32buf(9), slot(0, 1): f32buf(c.in)}
		res, err := runAsm(t, a, bufs, true)
		if err != nil {
			t.Fatal(err)
		}
		name := OpcodeName(c.op)
		wantU32(t, name, bufs[slot(0, 0)], 0, c.want)
		if c.trap != hasTrap(res, xrt.TrapF2I) {
			t.Errorf("%s(%v): trap=%v, want %v", name, c.in, hasTrap(res, xrt.TrapF2I), c.trap)
		}
	}
}

func TestAsmPhiLoop(t *testing.T) {
	// i = phi(0, i+1); s = phi(0, s+i); loop while i < n; o[0] = s; plus a swap of two phis
	a := newAsm()
	o := a.storageArray(a.u32(), 4, 0, false)
	in := a.storageArray(a.u32(), 4, 1, false)
	a.beginMain()
	entry := a.label()
	n := a.r(OpLoad, a.u32(), a.elemPtr(in, a.u32(), scStorageBuffer, a.constU(0)))
	head, bodyL, cont, merge := a.id(), a.id(), a.id(), a.id()
	iNext, sNext := a.id(), a.id()
	pID, qID := a.id(), a.id()
	a.op(OpBranch, head)
	a.labelID(head)
	i := a.r(OpPhi, a.u32(), a.constU(0), entry, iNext, cont)
	s := a.r(OpPhi, a.u32(), a.constU(0), entry, sNext, cont)
	// p and q swap on every iteration: must be evaluated simultaneously
	a.body = append(a.body, inst(OpPhi, a.u32(), pID, a.constU(1), entry, qID, cont))
	a.body = append(a.body, inst(OpPhi, a.u32(), qID, a.constU(2), entry, pID, cont))
	c := a.r(OpULessThan, a.boolT(), i, n)
	a.op(OpLoopMerge, merge, cont, 0)
	a.op(OpBranchConditional, c, bodyL, merge)
	a.labelID(bodyL)
	a.body = append(a.body, inst(OpIAdd, a.u32(), sNext, s, i))
	a.op(OpBranch, cont)
	a.labelID(cont)
	a.body = append(a.body, inst(OpIAdd, a.u32(), iNext, i, a.constU(1)))
	a.op(OpBranch, head)
	a.labelID(merge)
	a.op(OpStore, a.elemPtr(o, a.u32(), scStorageBuffer, a.constU(0)), s)
	a.op(OpStore, a.elemPtr(o, a.u32(), scStorageBuffer, a.constU(1)), pID)
	a.op(OpStore, a.elemPtr(o, a.u32(), scStorageBuffer, a.constU(2)), qID)
	a.op(OpReturn)
	a.endMain()
	bufs := xrt.Buffers{slot(0, 0): u32buf(9, 9, 9), slot(0, 1): u32buf(5)}
	res, err := runAsm(t, a, bufs, true)
	mustTraps(t, "phi", res, err)
	// 0+1+2+3+4 = 10 ; after 5 swaps (1,2) -> (2,1)
	wantU32(t, "phi", bufs[slot(0, 0)], 0, 10, 2, 1)
	if res.Cov["OpPhi"] == 0 || res.Cov["OpLoopMerge"] == 0 {
		t.Errorf("coverage lacks OpPhi / OpLoopMerge: %v", res.Cov)
	}
}

func TestAsmRowMajorAndBufferBlock(t *testing.T) {
	// struct { mat2x3<f32> m; } with RowMajor, MatrixStride 8, in the pre-1.3
	// Uniform+BufferBlock form. Element (col c,row r) lives at r*8 + c*4.
	a := newAsm()
	o := a.storageArray(a.f32(), 4, 0, true)
	v3 := a.vec(a.f32(), 3)
	m23 := a.mat(v3, 2)
	st := a.id()
	a.types = append(a.types, inst(OpTypeStruct, st, m23))
	a.decorate(st, decBufferBlock)
	a.memberDecorate(st, 0, decOffset, 8)
	a.memberDecorate(st, 0, decRowMajor)
	a.memberDecorate(st, 0, decMatrixStride, 8)
	pt := a.ptr(scUniform, st)
	mv := a.global(OpVariable, pt, scUniform)
	a.decorate(mv, decDescriptorSet, 0)
	a.decorate(mv, decBinding, 1)
	a.beginMain()
	a.label()
	whole := a.r(OpLoad, m23, a.r(OpAccessChain, a.ptr(scUniform, m23), mv, a.constU(0)))
	col1 := a.r(OpCompositeExtract, v3, whole, 1)
	for r := uint32(0); r < 3; r++ {
		a.op(OpStore, a.elemPtr(o, a.f32(), scUniform, a.constU(r)), a.r(OpCompositeExtract, a.f32(), col1, r))
	}
	// scalar access chain m[0][2]
	e := a.r(OpLoad, a.f32(), a.r(OpAccessChain, a.ptr(scUniform, a.f32()), mv, a.constU(0), a.constU(0), a.constU(2)))
	a.op(OpStore, a.elemPtr(o, a.f32(), scUniform, a.constU(3)), e)
	// store column 0 = (-1,-2,-3) through a column pointer
	cp := a.r(OpAccessChain, a.ptr(scUniform, v3), mv, a.constU(0), a.constU(0))
	neg := a.global(OpConstantComposite, v3, a.constF(-1), a.constF(-2), a.constF(-3))
	a.op(OpStore, cp, neg)
	a.op(OpReturn)
	a.endMain()
	// bytes: 8 bytes header, then rows: (c0r0,c1r0) (c0r1,c1r1) (c0r2,c1r2)
	mb := f32buf(100, 101, 10, 20, 11, 21, 12, 22)
	bufs := xrt.Buffers{slot(0, 0): f32buf(9, 9, 9, 9), slot(0, 1): mb}
	res, err := runAsm(t, a, bufs, true)
	mustTraps(t, "rowmajor", res, err)
	wantF32(t, "rowmajor o", bufs[slot(0, 0)], 0, 20, 21, 22, 12)
	wantF32(t, "rowmajor m", bufs[slot(0, 1)], 0, 100, 101, -1, 20, -2, 21, -3, 22)
}

func TestAsmFRemFMod(t *testing.T) {
	type tc struct {
		op         uint16
		a, b, want float32
	}
	cases := []tc{
		{OpFRem, 5.5, 2, 1.5}, {OpFRem, -5.5, 2, -1.5}, {OpFRem, 5.5, -2, 1.5}, {OpFRem, -5.5, -2, -1.5},
		{OpFMod, 5.5, 2, 1.5}, {OpFMod, -5.5, 2, 0.5}, {OpFMod, 5.5, -2, -0.5}, {OpFMod, -5.5, -2, -1.5},
		{OpFDiv, 1, 3, float32(1) / float32(3)}, {OpFMul, 0.1, 0.2, float32(float32(0.1) * float32(0.2))},
	}
	for _, c := range cases {
		a := newAsm()
		o := a.storageArray(a.f32(), 4, 0, false)
		in := a.storageArray(a.f32(), 4, 1, false)
		a.beginMain()
		a.label()
		x := a.r(OpLoad, a.f32(), a.elemPtr(in, a.f32(), scStorageBuffer, a.constU(0)))
		y := a.r(OpLoad, a.f32(), a.elemPtr(in, a.f32(), scStorageBuffer, a.constU(1)))
		a.op(OpStore, a.elemPtr(o, a.f32(), scStorageBuffer, a.constU(0)), a.r(c.op, a.f32(), x, y))
		a.op(OpReturn)
		a.endMain()
		bufs := xrt.Buffers{slot(0, 0): f32buf(9), slot(0, 1): f32buf(c.a, c.b)}
		res, err := runAsm(t, a, bufs, true)
		mustTraps(t, OpcodeName(c.op), res, err)
		wantF32(t, OpcodeName(c.op), bufs[slot(0, 0)], 0, c.want)
	}
}

func TestAsmWideAndNarrowScalars(t *testing.T) {
	// 64-bit integers, f64, f16: conversions and arithmetic.
	a := newAsm()
	a.capability(11) // Int64
	a.capability(10) // Float64
	a.capability(9)  // Float16
	o := a.storageArray(a.u32(), 4, 0, false)
	in := a.storageArray(a.u32(), 4, 1, false)
	u64, i64, f64, f16 := a.intT(64, false), a.intT(64, true), a.floatT(64), a.floatT(16)
	a.beginMain()
	a.label()
	ld := func(i uint32) uint32 {
		return a.r(OpLoad, a.u32(), a.elemPtr(in, a.u32(), scStorageBuffer, a.constU(i)))
	}
	st := func(i uint32, v uint32) { a.op(OpStore, a.elemPtr(o, a.u32(), scStorageBuffer, a.constU(i)), v) }
	x, y := ld(0), ld(1)
	// u64: (x<<32 | y) * 3, split back with OpBitcast to uvec2
	xw := a.r(OpUConvert, u64, x)
	yw := a.r(OpUConvert, u64, y)
	big := a.r(OpBitwiseOr, u64, a.r(OpShiftLeftLogical, u64, xw, a.konst(u64, 32, 0)), yw)
	prod := a.r(OpIMul, u64, big, a.konst(u64, 3, 0))
	pv := a.r(OpBitcast, a.vec(a.u32(), 2), prod)
	st(0, a.r(OpCompositeExtract, a.u32(), pv, 0))
	st(1, a.r(OpCompositeExtract, a.u32(), pv, 1))
	// i64 sign extension of -2 then arithmetic shift, truncated
	sx := a.r(OpSConvert, i64, a.r(OpBitcast, a.i32(), ld(2)))
	sh := a.r(OpShiftRightArithmetic, i64, sx, a.konst(u64, 1, 0))
	st(2, a.r(OpUConvert, a.u32(), a.r(OpBitcast, u64, sh)))
	st(3, a.r(OpUConvert, a.u32(), a.r(OpShiftRightLogical, u64, a.r(OpBitcast, u64, sh), a.konst(u64, 32, 0))))
	// f64: 1/3 in double, converted to float
	d := a.r(OpFDiv, f64, a.r(OpConvertUToF, f64, ld(3)), a.r(OpConvertUToF, f64, ld(4)))
	st(4, a.r(OpBitcast, a.u32(), a.r(OpFConvert, a.f32(), d)))
	// f16: 1/3 rounded to half, widened again; 0.1+0.2 in half
	fx := a.r(OpFConvert, f16, a.r(OpConvertUToF, a.f32(), ld(3)))
	fy := a.r(OpFConvert, f16, a.r(OpConvertUToF, a.f32(), ld(4)))
	st(5, a.r(OpBitcast, a.u32(), a.r(OpFConvert, a.f32(), a.r(OpFDiv, f16, fx, fy))))
	st(6, a.r(OpBitcast, a.u32(), a.r(OpQuantizeToF16, a.f32(), a.r(OpBitcast, a.f32(), ld(5)))))
	a.op(OpReturn)
	a.endMain()
	bufs := xrt.Buffers{slot(0, 0): filled(28, 0x99), slot(0, 1): u32buf(0x55555556, 0x80000001, 0xFFFFFFFE, 1, 3, math.Float32bits(0.1))}
	res, err := runAsm(t, a, bufs, true)
	mustTraps(t, "wide", res, err)
	// 0x5555555680000001 * 3 = 0x1_0000_0003_8000_0003 -> low 64 bits 0x0000000380000003
	third16 := f16ToF64(f64ToF16(1.0 / 3.0))
	wantU32(t, "wide", bufs[slot(0, 0)], 0,
		0x80000003, 0x00000003,
		0xFFFFFFFF, 0xFFFFFFFF, // -2 >> 1 = -1
		math.Float32bits(float32(1.0/3.0)),
		math.Float32bits(float32(third16)),
		math.Float32bits(float32(f16ToF64(f64ToF16(float64(float32(0.1)))))))
	if third16 != 0.33325195312500 {
		t.Errorf("binary16(1/3) = %v, want 0.333251953125", third16)
	}
}

func TestF16Conversion(t *testing.T) {
	cases := []struct {
		in   float64
		want uint16
	}{
		{0, 0}, {math.Copysign(0, -1), 0x8000}, {1, 0x3C00}, {-2, 0xC000}, {65504, 0x7BFF}, {65519.99, 0x7BFF}, {65520, 0x7C00},
		{1e10, 0x7C00}, {math.Inf(-1), 0xFC00}, {5.960464477539063e-08, 0x0001}, {2.98023223876953125e-08, 0x0000}, // 2^-25 ties to even (0)
		{math.Nextafter(math.Ldexp(1, -25), 1), 0x0001}, {6.103515625e-05, 0x0400}, {6.097555160522461e-05, 0x03FF},
		{1.0009765625, 0x3C01}, {1.00048828125, 0x3C00}, {1.00146484375, 0x3C02}, // ties to even
		{0.1, 0x2E66},
	}
	for _, c := range cases {
		if got := f64ToF16(c.in); got != c.want {
			t.Errorf("f64ToF16(%v) = %#04x, want %#04x", c.in, got, c.want)
		}
	}
	if h := f64ToF16(math.NaN()); h&0x7C00 != 0x7C00 || h&0x3FF == 0 {
		t.Errorf("f64ToF16(NaN) = %#04x", h)
	}
	// round trip of every binary16 value
	for h := 0; h < 0x10000; h++ {
		v := f16ToF64(uint16(h))
		if v != v {
			continue
		}
		if back := f64ToF16(v); back != uint16(h) {
			t.Fatalf("round trip %#04x -> %v -> %#04x", h, v, back)
		}
	}
}

func TestAsmOOBAccessChains(t *testing.T) {
	a := newAsm()
	o := a.storageArray(a.u32(), 4, 0, false)
	in := a.storageArray(a.u32(), 4, 1, false)
	a.beginMain()
	a.label()
	arrT := a.array(a.u32(), 4)
	init := a.global(OpConstantComposite, arrT, a.constU(10), a.constU(11), a.constU(12), a.constU(13))
	arr := a.r(OpVariable, a.ptr(scFunction, arrT), scFunction, init)
	idx := a.r(OpLoad, a.u32(), a.elemPtr(in, a.u32(), scStorageBuffer, a.constU(0)))
	sidx := a.r(OpBitcast, a.i32(), a.r(OpLoad, a.u32(), a.elemPtr(in, a.u32(), scStorageBuffer, a.constU(1))))
	// arr[idx] with idx = 9 -> clamps to 3 ; arr[-1] -> clamps to 0
	a.op(OpStore, a.elemPtr(o, a.u32(), scStorageBuffer, a.constU(0)), a.r(OpLoad, a.u32(), a.r(OpAccessChain, a.ptr(scFunction, a.u32()), arr, idx)))
	a.op(OpStore, a.elemPtr(o, a.u32(), scStorageBuffer, a.constU(1)), a.r(OpLoad, a.u32(), a.r(OpAccessChain, a.ptr(scFunction, a.u32()), arr, sidx)))
	// vector dynamic extract out of range
	v := a.global(OpConstantComposite, a.vec(a.u32(), 3), a.constU(20), a.constU(21), a.constU(22))
	a.op(OpStore, a.elemPtr(o, a.u32(), scStorageBuffer, a.constU(2)), a.r(OpVectorExtractDynamic, a.u32(), v, idx))
	// runtime array beyond the buffer: o[idx] with a 16-byte buffer
	a.op(OpStore, a.elemPtr(o, a.u32(), scStorageBuffer, idx), a.constU(77))
	a.op(OpStore, a.elemPtr(o, a.u32(), scStorageBuffer, a.constU(3)), a.r(OpArrayLength, a.u32(), o, 0))
	a.op(OpReturn)
	a.endMain()
	bufs := xrt.Buffers{slot(0, 0): u32buf(9, 9, 9, 9), slot(0, 1): u32buf(9, 0xFFFFFFFF)}
	res, err := runAsm(t, a, bufs, true)
	mustTraps(t, "oob", res, err, xrt.TrapOOB)
	if len(res.Traps) != 4 {
		t.Errorf("want 4 OOB traps, got %v", trapList(res))
	}
	// the out-of-range runtime-array store is clamped to the last element (3), then overwritten by the length
	wantU32(t, "oob", bufs[slot(0, 0)], 0, 13, 10, 22, 4)
}

func TestAsmSwitchSelectBitcast(t *testing.T) {
	a := newAsm()
	o := a.storageArray(a.u32(), 4, 0, false)
	in := a.storageArray(a.u32(), 4, 1, false)
	a.local = [3]uint32{4, 1, 1}
	u3 := a.vec(a.u32(), 3)
	gidV := a.global(OpVariable, a.ptr(scInput, u3), scInput)
	a.decorate(gidV, decBuiltIn, biGlobalInvocationID)
	a.iface = append(a.iface, gidV)
	a.beginMain()
	a.label()
	gid := a.r(OpCompositeExtract, a.u32(), a.r(OpLoad, u3, gidV), 0)
	sel := a.r(OpLoad, a.u32(), a.elemPtr(in, a.u32(), scStorageBuffer, gid))
	c0, c7, def, merge := a.id(), a.id(), a.id(), a.id()
	a.op(OpSelectionMerge, merge, 0)
	a.op(OpSwitch, sel, def, 0, c0, 7, c7, 9, c7)
	a.labelID(c0)
	a.op(OpBranch, merge)
	a.labelID(c7)
	a.op(OpBranch, merge)
	a.labelID(def)
	a.op(OpBranch, merge)
	a.labelID(merge)
	r := a.r(OpPhi, a.u32(), a.constU(100), c0, a.constU(107), c7, a.constU(999), def)
	a.op(OpStore, a.elemPtr(o, a.u32(), scStorageBuffer, gid), r)
	a.op(OpReturn)
	a.endMain()
	bufs := xrt.Buffers{slot(0, 0): u32buf(1, 1, 1, 1), slot(0, 1): u32buf(0, 7, 9, 8)}
	res, err := runAsm(t, a, bufs, true)
	mustTraps(t, "switch", res, err)
	wantU32(t, "switch", bufs[slot(0, 0)], 0, 100, 107, 107, 999)
}

func TestAsmErrors(t *testing.T) {
	// structure errors and Unsupported are distinguished
	a := newAsm()
	o := a.storageArray(a.u32(), 4, 0, false)
	a.beginMain()
	a.label()
	a.op(OpStore, a.elemPtr(o, a.u32(), scStorageBuffer, a.constU(0)), a.constU(1))
	a.op(OpKill)
	a.endMain()
	_, err := runAsm(t, a, xrt.Buffers{slot(0, 0): u32buf(0)}, true)
	var u *xrt.Unsupported
	if !errors.As(err, &u) {
		t.Errorf("OpKill: err = %v, want Unsupported", err)
	}

	// use of an id that is never defined
	a = newAsm()
	o = a.storageArray(a.u32(), 4, 0, false)
	a.beginMain()
	a.label()
	a.op(OpStore, a.elemPtr(o, a.u32(), scStorageBuffer, a.constU(0)), a.next+5)
	a.op(OpReturn)
	a.endMain()
	_, err = runAsm(t, a, xrt.Buffers{slot(0, 0): u32buf(0)}, true)
	if err == nil || errors.As(err, &u) {
		t.Errorf("undefined id: err = %v, want a structure error", err)
	}

	// recursion is cut off
	a = newAsm()
	a.beginMain()
	a.label()
	a.r(OpFunctionCall, a.void(), a.entry)
	a.op(OpReturn)
	a.endMain()
	_, err = runAsm(t, a, xrt.Buffers{}, true)
	if err == nil {
		t.Errorf("recursion: no error")
	}

	// Parse errors
	for name, bin := range map[string][]byte{
		"empty":     {},
		"short":     {3, 2, 35, 7},
		"bad magic": make([]byte, 20),
		"odd":       append(newAsm().bytes([2]int{1, 0}), 1),
	} {
		if _, err := Parse(bin); err == nil {
			t.Errorf("Parse(%s): no error", name)
		}
	}
	good := newAsm()
	good.beginMain()
	good.label()
	good.op(OpReturn)
	good.endMain()
	bin := good.bytes([2]int{1, 5})
	m, err := Parse(bin)
	if err != nil || m.Version != [2]int{1, 5} || len(m.EntryPoints()) != 1 || m.EntryPoints()[0].Name != "main" || m.EntryPoints()[0].LocalSize != [3]uint32{1, 1, 1} {
		t.Errorf("Parse(good): %v %+v", err, m)
	}
	// zero word count and truncated instruction
	bad := append([]byte(nil), bin...)
	binary.LittleEndian.PutUint32(bad[20:], 0x00000011)
	if _, err := Parse(bad); err == nil {
		t.Errorf("zero word count accepted")
	}
	binary.LittleEndian.PutUint32(bad[20:], 0x00FF0011)
	if _, err := Parse(bad); err == nil {
		t.Errorf("overlong instruction accepted")
	}
}

// miniProg builds: inputs inp[] (u32 words at binding 1), outputs o[] (binding 0),
// and a body given ld(i) / st(i, id) helpers working on u32 words.
func miniProg(build func(a *asm, ld func(uint32) uint32, st func(uint32, uint32))) *asm {
	a := newAsm()
	o := a.storageArray(a.u32(), 4, 0, false)
	in := a.storageArray(a.u32(), 4, 1, false)
	a.beginMain()
	a.label()
	ld := func(i uint32) uint32 {
		return a.r(OpLoad, a.u32(), a.elemPtr(in, a.u32(), scStorageBuffer, a.constU(i)))
	}
	st := func(i uint32, v uint32) { a.op(OpStore, a.elemPtr(o, a.u32(), scStorageBuffer, a.constU(i)), v) }
	build(a, ld, st)
	a.op(OpReturn)
	a.endMain()
	return a
}

func TestAsmGLSLMisc(t *testing.T) {
	f := math.Float32bits
	nan := uint32(0x7FC00000)
	a := miniProg(func(a *asm, ld func(uint32) uint32, st func(uint32, uint32)) {
		ldf := func(i uint32) uint32 { return a.r(OpBitcast, a.f32(), ld(i)) }
		stf := func(i uint32, v uint32) { st(i, a.r(OpBitcast, a.u32(), v)) }
		ext := func(t uint32, n uint32, ops ...uint32) uint32 {
			return a.r(OpExtInst, t, append([]uint32{a.glsl, n}, ops...)...)
		}
		qn, one, zero := ldf(0), ldf(1), ldf(2)
		stf(0, ext(a.f32(), glNMin, qn, one))
		stf(1, ext(a.f32(), glNMax, one, qn))
		stf(2, ext(a.f32(), glNClamp, qn, zero, one))
		stf(3, ext(a.f32(), glFMin, qn, one)) // y < x ? y : x  -> x (NaN)
		stf(4, ext(a.f32(), glFMax, one, qn)) // x < y ? y : x  -> x (1)
		// fused multiply-add: 0.1f*10 - 1 = 2^-26 exactly when fused
		stf(5, ext(a.f32(), glFma, ldf(3), ldf(4), ldf(5)))
		// MatrixInverse of columns (1,2,3),(0,1,4),(5,6,0)
		v3 := a.vec(a.f32(), 3)
		m3 := a.mat(v3, 3)
		m := a.r(OpCompositeConstruct, m3,
			a.r(OpCompositeConstruct, v3, one, a.constF(2), a.constF(3)),
			a.r(OpCompositeConstruct, v3, zero, one, a.constF(4)),
			a.r(OpCompositeConstruct, v3, a.constF(5), a.constF(6), zero))
		inv := ext(m3, glMatrixInverse, m)
		for c := uint32(0); c < 3; c++ {
			for r := uint32(0); r < 3; r++ {
				stf(6+c*3+r, a.r(OpCompositeExtract, a.f32(), inv, c, r))
			}
		}
		// extended integer arithmetic
		pair := a.id()
		a.types = append(a.types, inst(OpTypeStruct, pair, a.u32(), a.u32()))
		x, y := ld(6), ld(7)
		for k, op := range []uint16{OpIAddCarry, OpISubBorrow, OpUMulExtended, OpSMulExtended} {
			r := a.r(op, pair, x, y)
			st(15+2*uint32(k), a.r(OpCompositeExtract, a.u32(), r, 0))
			st(16+2*uint32(k), a.r(OpCompositeExtract, a.u32(), r, 1))
		}
		// Modf / Frexp through pointers, Ldexp
		fv := a.r(OpVariable, a.ptr(scFunction, a.f32()), scFunction)
		iv := a.r(OpVariable, a.ptr(scFunction, a.i32()), scFunction)
		// (a validator would want these OpVariable at the start of the entry block; the interpreter does not care)
		stf(23, ext(a.f32(), glModf, ldf(8), fv))
		stf(24, a.r(OpLoad, a.f32(), fv))
		stf(25, ext(a.f32(), glFrexp, ldf(9), iv))
		st(26, a.r(OpBitcast, a.u32(), a.r(OpLoad, a.i32(), iv)))
		stf(27, ext(a.f32(), glLdexp, ldf(8), a.constI(-2)))
		st(28, a.r(OpBitcast, a.u32(), ext(a.i32(), glFindSMsb, a.r(OpBitcast, a.i32(), ld(10)))))
		st(29, a.r(OpBitcast, a.u32(), ext(a.i32(), glSSign, a.r(OpBitcast, a.i32(), ld(10)))))
		stf(30, ext(a.f32(), glFSign, ldf(8)))
		stf(31, ext(a.f32(), glRound, ldf(11)))
		stf(32, ext(a.f32(), glDegrees, ldf(2)))
		stf(33, ext(a.f32(), glFaceForward, one, one, one))
		st(34, a.r(OpBitcast, a.u32(), ext(a.i32(), glSAbs, a.r(OpBitcast, a.i32(), ld(10)))))
	})
	bufs := xrt.Buffers{slot(0, 0): filled(140, 0x99), slot(0, 1): u32buf(
		nan, f(1), f(0), f(0.1), f(10), f(-1), 0xFFFFFFFF, 0xFFFFFFFE, f(-2.75), f(0.375), 0xFFFFFF00, f(-2.5))}
	res, err := runAsm(t, a, bufs, true)
	mustTraps(t, "glsl misc", res, err)
	out := bufs[slot(0, 0)]
	wantU32(t, "glsl misc", out, 0, f(1), f(1), f(0), nan, f(1), f(float32(math.Ldexp(1, -26))))
	// A has rows (1,0,5),(2,1,6),(3,4,0); A^-1 has columns (-24,18,5),(20,-15,-4),(-5,4,1); det = 1
	wantF32(t, "inverse", out, 24, -24, 18, 5, 20, -15, -4, -5, 4, 1)
	wantU32(t, "extended", out, 60,
		0xFFFFFFFD, 1, // 0xFFFFFFFF + 0xFFFFFFFE
		1, 0, // 0xFFFFFFFF - 0xFFFFFFFE, no borrow
		2, 0xFFFFFFFD, // (2^32-1)(2^32-2) = 2^64 - 3*2^32 + 2
		2, 0) // (-1)*(-2) = 2
	wantF32(t, "modf/frexp", out, 92, -0.75, -2, 0.75)
	wantU32(t, "frexp exp", out, 104, 0xFFFFFFFF)
	wantF32(t, "ldexp", out, 108, -0.6875)
	wantU32(t, "findsmsb/ssign", out, 112, 7, 0xFFFFFFFF) // ~0xFFFFFF00 = 0xFF -> msb 7
	wantF32(t, "fsign/round/degrees/faceforward", out, 120, -1, -2, 0, -1)
	wantU32(t, "sabs", out, 136, 0x100)
	for _, k := range []string{"GLSL.NMin", "GLSL.MatrixInverse", "GLSL.Fma", "GLSL.Modf", "OpIAddCarry", "OpExtInst"} {
		if res.Cov[k] == 0 {
			t.Errorf("coverage lacks %s", k)
		}
	}
}

func TestAsmSpecConstantsAndCopies(t *testing.T) {
	a := newAsm()
	o := a.storageArray(a.u32(), 4, 0, false)
	sc := a.global(OpSpecConstant, a.u32(), 5)
	a.decorate(sc, decSpecID, 0)
	sum := a.global(OpSpecConstantOp, a.u32(), OpIAdd, sc, a.constU(7))
	shl := a.global(OpSpecConstantOp, a.u32(), OpShiftLeftLogical, sum, a.constU(2))
	cmp := a.global(OpSpecConstantOp, a.boolT(), OpULessThan, sc, a.constU(6))
	sel := a.global(OpSpecConstantOp, a.u32(), OpSelect, cmp, a.constU(111), a.constU(222))
	bad := a.global(OpSpecConstantOp, a.u32(), OpUDiv, sc, a.constU(0)) // undefined: only an error if used
	arrT := a.id()
	a.types = append(a.types, inst(OpTypeArray, arrT, a.u32(), sum)) // array length 12 from a spec constant op
	// struct S { u32 a; vec2<u32> b; } twice with different decorations for OpCopyLogical
	v2 := a.vec(a.u32(), 2)
	s1, s2 := a.id(), a.id()
	a.types = append(a.types, inst(OpTypeStruct, s1, a.u32(), v2), inst(OpTypeStruct, s2, a.u32(), v2))
	a.memberDecorate(s2, 0, decOffset, 0)
	a.memberDecorate(s2, 1, decOffset, 8)
	a.beginMain()
	a.label()
	av := a.r(OpVariable, a.ptr(scFunction, arrT), scFunction, a.global(OpConstantNull, arrT))
	v1 := a.r(OpVariable, a.ptr(scFunction, s1), scFunction)
	vv := a.r(OpVariable, a.ptr(scFunction, s1), scFunction)
	st := func(i uint32, v uint32) { a.op(OpStore, a.elemPtr(o, a.u32(), scStorageBuffer, a.constU(i)), v) }
	st(0, sum)
	st(1, shl)
	st(2, sel)
	a.op(OpStore, a.r(OpAccessChain, a.ptr(scFunction, a.u32()), av, a.constU(11)), a.constU(42))
	st(3, a.r(OpLoad, a.u32(), a.r(OpAccessChain, a.ptr(scFunction, a.u32()), av, a.constU(11))))
	sv := a.r(OpCompositeConstruct, s1, a.constU(1), a.r(OpCompositeConstruct, v2, a.constU(2), a.constU(3)))
	a.op(OpStore, v1, sv)
	a.op(OpCopyMemory, vv, v1)
	cl := a.r(OpCopyLogical, s2, a.r(OpLoad, s1, vv))
	ins := a.r(OpCompositeInsert, s2, a.constU(9), cl, 1, 0)
	st(4, a.r(OpCompositeExtract, a.u32(), ins, 1, 0))
	st(5, a.r(OpCompositeExtract, a.u32(), ins, 1, 1))
	pick := a.r(OpSelect, s2, a.global(OpConstantFalse, a.boolT()), ins, cl)
	st(6, a.r(OpCompositeExtract, a.u32(), pick, 1, 0))
	vid := a.r(OpVectorInsertDynamic, v2, a.r(OpCompositeExtract, v2, pick, 1), a.constU(8), a.constU(1))
	st(7, a.r(OpCompositeExtract, a.u32(), vid, 1))
	a.op(OpReturn)
	a.endMain()
	_ = bad
	bufs := xrt.Buffers{slot(0, 0): filled(32, 0x99)}
	res, err := runAsm(t, a, bufs, true)
	mustTraps(t, "spec", res, err)
	wantU32(t, "spec", bufs[slot(0, 0)], 0, 12, 48, 111, 42, 9, 3, 2, 8)
}

func TestAsmBarrierDivergence(t *testing.T) {
	// Two of four invocations return before the barrier: the waiters must be released.
	a := newAsm()
	o := a.storageArray(a.u32(), 4, 0, false)
	a.local = [3]uint32{4, 1, 1}
	li := a.global(OpVariable, a.ptr(scInput, a.u32()), scInput)
	a.decorate(li, decBuiltIn, biLocalInvocationIndex)
	wgv := a.global(OpVariable, a.ptr(scWorkgroup, a.u32()), scWorkgroup)
	a.beginMain()
	a.label()
	idx := a.r(OpLoad, a.u32(), li)
	early, cont := a.id(), a.id()
	a.op(OpSelectionMerge, cont, 0)
	a.op(OpBranchConditional, a.r(OpULessThan, a.boolT(), idx, a.constU(2)), early, cont)
	a.labelID(early)
	a.op(OpStore, a.elemPtr(o, a.u32(), scStorageBuffer, idx), a.constU(50))
	a.op(OpReturn)
	a.labelID(cont)
	a.op(OpAtomicStore, wgv, a.constU(2), a.constU(0), idx)
	a.op(OpControlBarrier, a.constU(2), a.constU(2), a.constU(0x108))
	a.op(OpStore, a.elemPtr(o, a.u32(), scStorageBuffer, idx), a.r(OpAtomicLoad, a.u32(), wgv, a.constU(2), a.constU(0)))
	a.op(OpReturn)
	a.endMain()
	bufs := xrt.Buffers{slot(0, 0): u32buf(9, 9, 9, 9)}
	res, err := runAsm(t, a, bufs, true)
	mustTraps(t, "barrier divergence", res, err)
	// invocation 2 then 3 store their index before the barrier; both read 3 afterwards
	wantU32(t, "barrier divergence", bufs[slot(0, 0)], 0, 50, 50, 3, 3)

	// an error inside one coroutine must surface and not dead-lock the others
	a = newAsm()
	o = a.storageArray(a.u32(), 4, 0, false)
	a.local = [3]uint32{4, 1, 1}
	li = a.global(OpVariable, a.ptr(scInput, a.u32()), scInput)
	a.decorate(li, decBuiltIn, biLocalInvocationIndex)
	a.beginMain()
	a.label()
	idx = a.r(OpLoad, a.u32(), li)
	a.op(OpControlBarrier, a.constU(2), a.constU(2), a.constU(0x108))
	killL, okL := a.id(), a.id()
	a.op(OpSelectionMerge, okL, 0)
	a.op(OpBranchConditional, a.r(OpIEqual, a.boolT(), idx, a.constU(1)), killL, okL)
	a.labelID(killL)
	a.op(OpKill)
	a.labelID(okL)
	a.op(OpControlBarrier, a.constU(2), a.constU(2), a.constU(0x108))
	a.op(OpStore, a.elemPtr(o, a.u32(), scStorageBuffer, idx), idx)
	a.op(OpReturn)
	a.endMain()
	_, err = runAsm(t, a, xrt.Buffers{slot(0, 0): u32buf(9, 9, 9, 9)}, true)
	var u *xrt.Unsupported
	if !errors.As(err, &u) {
		t.Errorf("error inside a coroutine: err = %v, want Unsupported (OpKill)", err)
	}
}

func TestAsmLocalSizeIdAndBadSpecConstant(t *testing.T) {
	// LocalSizeId with spec constants (default values), SPIR-V 1.6 style
	a := newAsm()
	o := a.storageArray(a.u32(), 4, 0, false)
	sx := a.global(OpSpecConstant, a.u32(), 3)
	li := a.global(OpVariable, a.ptr(scInput, a.u32()), scInput)
	a.decorate(li, decBuiltIn, biLocalInvocationIndex)
	ws := a.global(OpVariable, a.ptr(scInput, a.vec(a.u32(), 3)), scInput)
	a.decorate(ws, decBuiltIn, biWorkgroupSize)
	a.pre = append(a.pre, inst(OpExecutionModeId, a.entry, modeLocalSizeID, sx, a.constU(2), a.constU(1)))
	a.beginMain()
	a.label()
	idx := a.r(OpLoad, a.u32(), li)
	w := a.r(OpLoad, a.vec(a.u32(), 3), ws)
	a.op(OpStore, a.elemPtr(o, a.u32(), scStorageBuffer, idx), a.r(OpIAdd, a.u32(), a.r(OpCompositeExtract, a.u32(), w, 0), idx))
	a.op(OpReturn)
	a.endMain()
	m, err := Parse(a.bytes([2]int{1, 6}))
	if err != nil {
		t.Fatal(err)
	}
	if ls := m.EntryPoints()[0].LocalSize; ls != [3]uint32{3, 2, 1} {
		t.Errorf("LocalSize = %v, want [3 2 1]", ls)
	}
	bufs := xrt.Buffers{slot(0, 0): filled(32, 0x99)}
	res, err := Run(m, "main", bufs, xrt.Options{TrapMode: true})
	mustTraps(t, "localsizeid", res, err)
	wantU32(t, "localsizeid", bufs[slot(0, 0)], 0, 3, 4, 5, 6, 7, 8, 0x99999999)

	// a spec-constant op whose default evaluation is undefined: Unsupported when used
	a = newAsm()
	o = a.storageArray(a.u32(), 4, 0, false)
	bad := a.global(OpSpecConstantOp, a.u32(), OpUDiv, a.constU(5), a.constU(0))
	fl := a.global(OpSpecConstantOp, a.f32(), OpFAdd, a.constF(1), a.constF(2)) // not in the shader subset
	_ = fl
	a.beginMain()
	a.label()
	a.op(OpStore, a.elemPtr(o, a.u32(), scStorageBuffer, a.constU(0)), bad)
	a.op(OpReturn)
	a.endMain()
	_, err = runAsm(t, a, xrt.Buffers{slot(0, 0): u32buf(0)}, true)
	var u *xrt.Unsupported
	if !errors.As(err, &u) {
		t.Errorf("undefined spec constant op: err = %v, want Unsupported", err)
	}
}

func TestAsmFloatDomainNotes(t *testing.T) {
	// Out-of-domain float builtins do not trap; they are counted under "undef:<name>".
	f := math.Float32bits
	a := miniProg(func(a *asm, ld func(uint32) uint32, st func(uint32, uint32)) {
		x := a.r(OpBitcast, a.f32(), ld(0))
		st(0, a.r(OpBitcast, a.u32(), a.r(OpExtInst, a.f32(), a.glsl, glSqrt, x)))
		st(1, a.r(OpBitcast, a.u32(), a.r(OpExtInst, a.f32(), a.glsl, glSqrt, a.constF(4))))
		st(2, a.r(OpBitcast, a.u32(), a.r(OpExtInst, a.f32(), a.glsl, glLog2, x)))
		st(3, a.r(OpBitcast, a.u32(), a.r(OpExtInst, a.f32(), a.glsl, glFClamp, x, a.constF(2), a.constF(1))))
		c := a.r(OpIsNan, a.boolT(), a.r(OpExtInst, a.f32(), a.glsl, glSqrt, x))
		d := a.r(OpIsInf, a.boolT(), a.r(OpFDiv, a.f32(), a.constF(1), a.constF(0)))
		st(4, a.r(OpSelect, a.u32(), a.r(OpLogicalAnd, a.boolT(), c, d), a.constU(1), a.constU(0)))
	})
	bufs := xrt.Buffers{slot(0, 0): filled(20, 0x99), slot(0, 1): u32buf(f(-1))}
	res, err := runAsm(t, a, bufs, true)
	mustTraps(t, "domain", res, err)
	out := bufs[slot(0, 0)]
	if v := math.Float32frombits(binary.LittleEndian.Uint32(out)); v == v {
		t.Errorf("sqrt(-1) = %v, want NaN", v)
	}
	wantU32(t, "domain", out, 4, f(2))
	wantU32(t, "domain clamp", out, 12, f(1)) // min(max(-1,2),1)
	wantU32(t, "isnan/isinf", out, 16, 1)
	if res.Cov["undef:GLSL.Sqrt"] != 2 || res.Cov["undef:GLSL.Log2"] != 1 || res.Cov["undef:GLSL.FClamp"] != 1 {
		t.Errorf("undef notes: %v", res.Cov)
	}
}
