package spvx

import (
	"fmt"

	"verif/internal/xrt"
)

// Kind classifies a SPIR-V type.
type Kind uint8

const (
	KVoid Kind = iota
	KBool
	KInt
	KFloat
	KVector
	KMatrix
	KArray
	KRuntimeArray
	KStruct
	KPointer
	KFunction
	KOpaque // image, sampler, sampled image, acceleration structure, ray query, ...
)

// Type is a decoded OpType* together with the layout decorations the module
// attached to it. Layout numbers are exactly the module's decorations; nothing
// is computed.
type Type struct {
	ID      uint32
	Kind    Kind
	Width   int  // KInt / KFloat: bit width
	Signed  bool // KInt
	Elem    *Type
	Count   int // vector components, matrix columns, array length
	Members []*Type
	Storage uint32 // KPointer
	Opaque  string // KOpaque: opcode name

	ArrayStride int    // 0 = not decorated
	Offsets     []int  // per member, -1 = not decorated
	MatStride   []int  // per member, 0 = not decorated
	RowMajor    []bool // per member
	Block       bool
	BufferBlock bool
}

func (t *Type) isScalar() bool  { return t.Kind == KBool || t.Kind == KInt || t.Kind == KFloat }
func (t *Type) isNumeric() bool { return t.Kind == KInt || t.Kind == KFloat }

// scalarOf returns the scalar component type of a scalar / vector / matrix.
func (t *Type) scalarOf() *Type {
	switch t.Kind {
	case KVector:
		return t.Elem
	case KMatrix:
		if t.Elem != nil {
			return t.Elem.Elem
		}
	}
	return t
}

func (t *Type) String() string {
	if t == nil {
		return "<nil type>"
	}
	switch t.Kind {
	case KVoid:
		return "void"
	case KBool:
		return "bool"
	case KInt:
		if t.Signed {
			return fmt.Sprintf("i%d", t.Width)
		}
		return fmt.Sprintf("u%d", t.Width)
	case KFloat:
		return fmt.Sprintf("f%d", t.Width)
	case KVector:
		return fmt.Sprintf("vec%d<%v>", t.Count, t.Elem)
	case KMatrix:
		return fmt.Sprintf("mat%d<%v>", t.Count, t.Elem)
	case KArray:
		return fmt.Sprintf("array<%v,%d>", t.Elem, t.Count)
	case KRuntimeArray:
		return fmt.Sprintf("array<%v>", t.Elem)
	case KStruct:
		return fmt.Sprintf("struct%%%d", t.ID)
	case KPointer:
		return fmt.Sprintf("ptr<%d,%v>", t.Storage, t.Elem)
	case KFunction:
		return "function"
	}
	return t.Opaque
}

// Value kinds.
const (
	vUnset  = 0
	vScalar = 1
	vComp   = 2
	vPtr    = 3
	vOpaque = 4
)

// Value is an SSA value or a memory cell tree. Scalars keep their bits in B
// (bool: 0/1; narrower-than-64 integers are kept zero-extended) and carry a
// poison flag. Composites keep their constituents in E.
type Value struct {
	K   uint8
	P   bool
	B   uint64
	E   []Value
	Ptr *Pointer
}

func scalar(b uint64) Value             { return Value{K: vScalar, B: b} }
func poisonScalar() Value               { return Value{K: vScalar, P: true} }
func boolVal(b bool) Value              { return Value{K: vScalar, B: b2u(b)} }
func comp(e []Value) Value              { return Value{K: vComp, E: e} }
func (v Value) withPoison(p bool) Value { v.P = v.P || p; return v }

func b2u(b bool) uint64 {
	if b {
		return 1
	}
	return 0
}

// anyPoison reports whether any scalar inside v is poison.
func anyPoison(v Value) bool {
	if v.K == vComp {
		for i := range v.E {
			if anyPoison(v.E[i]) {
				return true
			}
		}
		return false
	}
	return v.P
}

// deepCopy duplicates a value tree (pointers are shared, they are immutable).
func deepCopy(v Value) Value {
	if v.K != vComp {
		return v
	}
	e := make([]Value, len(v.E))
	for i := range v.E {
		e[i] = deepCopy(v.E[i])
	}
	return Value{K: vComp, E: e}
}

// poisonLike builds a value of the same shape whose scalars are all poison.
func poisonLike(v Value) Value {
	if v.K != vComp {
		return Value{K: v.K, P: true, Ptr: v.Ptr}
	}
	e := make([]Value, len(v.E))
	for i := range v.E {
		e[i] = poisonLike(v.E[i])
	}
	return Value{K: vComp, E: e}
}

// storeInto overwrites the memory tree at dst with src, keeping dst's cells
// (other pointers may reference them). Shapes must agree.
func storeInto(dst *Value, src Value) error {
	if dst.K == vComp {
		if src.K != vComp || len(src.E) != len(dst.E) {
			return fmt.Errorf("store of a value whose shape differs from the memory object")
		}
		for i := range dst.E {
			if err := storeInto(&dst.E[i], src.E[i]); err != nil {
				return err
			}
		}
		return nil
	}
	if src.K == vComp {
		return fmt.Errorf("store of a composite into a scalar memory object")
	}
	*dst = src
	return nil
}

const maxObjectScalars = 1 << 18

// newValue builds a zero (or all-poison) value tree of type t.
func newValue(t *Type, poison bool) (Value, error) {
	budget := maxObjectScalars
	return newValueB(t, poison, &budget)
}

func newValueB(t *Type, poison bool, budget *int) (Value, error) {
	switch t.Kind {
	case KBool, KInt, KFloat:
		*budget--
		if *budget < 0 {
			return Value{}, &xrt.Unsupported{What: "object with more than 262144 scalars"}
		}
		return Value{K: vScalar, P: poison}, nil
	case KVector, KMatrix, KArray:
		if t.Count < 0 || t.Count > maxObjectScalars {
			return Value{}, &xrt.Unsupported{What: "object with more than 262144 scalars"}
		}
		e := make([]Value, t.Count)
		for i := range e {
			v, err := newValueB(t.Elem, poison, budget)
			if err != nil {
				return Value{}, err
			}
			e[i] = v
		}
		return comp(e), nil
	case KStruct:
		e := make([]Value, len(t.Members))
		for i := range e {
			v, err := newValueB(t.Members[i], poison, budget)
			if err != nil {
				return Value{}, err
			}
			e[i] = v
		}
		return comp(e), nil
	case KPointer:
		// A null / undefined pointer: unusable, any use is reported.
		return Value{K: vPtr, P: true}, nil
	case KOpaque:
		return Value{K: vOpaque, P: poison}, nil
	}
	return Value{}, fmt.Errorf("spvx: cannot create an object of type %v (%%%d)", t, t.ID)
}

// bufObj is one bound buffer.
type bufObj struct {
	data     []byte
	slot     xrt.Slot
	readOnly bool // Uniform + Block
	varID    uint32
}

// Pointer is a logical pointer: either into a value tree (Node) or into a
// bound buffer (Buf + byte offset + the layout context inherited on the way).
type Pointer struct {
	Ty      *Type // pointee type
	Storage uint32
	Var     uint32 // root variable id (diagnostics)

	Node *Value // tree memory

	Buf        *bufObj
	Off        int
	MatStride  int  // inherited from the enclosing struct member (0 = none)
	RowMajor   bool // inherited
	CompStride int  // byte distance between vector components; 0 = tightly packed
	Dead       bool // produced by indexing a zero-length runtime array: loads give 0, stores are dropped
}
