package spvx

import (
	"verif/internal/xrt"
)

// ptrOf returns the pointer held by a value, failing on non-pointers and on
// undefined pointers.
func (x *exec) ptrOf(v Value) *Pointer {
	if v.K != vPtr {
		x.failf("operand is not a pointer")
	}
	if v.Ptr == nil {
		x.unsupported("use of a null or undefined pointer")
	}
	return v.Ptr
}

// indexValue converts an index operand to a checked, clamped element index.
// n is the number of elements of the indexed object.
func (x *exec) indexValue(v Value, t *Type, n int, what string) int {
	if v.K != vScalar || t.Kind != KInt {
		x.failf("%s index is not an integer scalar", what)
	}
	if v.P {
		x.trap(xrt.TrapPoison, "%s index is an undefined value", what)
	}
	// SPIR-V: access-chain indices are treated as signed. An unsigned index
	// with the top bit set is out of range under either reading.
	var i int64
	switch {
	case t.Signed:
		i = sext(v.B, t.Width)
	case v.B > 1<<62:
		i = 1 << 62
	default:
		i = int64(v.B)
	}
	if i < 0 || i >= int64(n) {
		x.trap(xrt.TrapOOB, "%s index %d is outside [0,%d)", what, i, n)
		if i < 0 || n == 0 {
			return 0
		}
		return n - 1
	}
	return int(i)
}

// accessChain implements OpAccessChain / OpInBoundsAccessChain.
func (x *exec) accessChain(fr *frame, in *Inst) Value {
	x.needArgs(in, 1)
	base := x.ptrOf(x.val(fr, in.Args[0]))
	p := *base
	for _, iid := range in.Args[1:] {
		iv := x.val(fr, iid)
		it := x.typeOfID(iid)
		t := p.Ty
		switch t.Kind {
		case KStruct:
			if int(iid) >= x.p.n || x.p.loc[iid].kind != locGlobal || iv.K != vScalar || it.Kind != KInt {
				x.failf("structure index %%%d is not an integer constant", iid)
			}
			if iv.B >= uint64(len(t.Members)) {
				x.failf("structure index %d out of range for a struct of %d members", iv.B, len(t.Members))
			}
			mi := int(iv.B)
			if p.Buf != nil {
				if t.Offsets[mi] < 0 {
					x.failf("member %d of struct %%%d has no Offset decoration", mi, t.ID)
				}
				p.Off += t.Offsets[mi]
				if t.MatStride[mi] != 0 {
					p.MatStride = t.MatStride[mi]
				}
				p.RowMajor = t.RowMajor[mi]
			} else {
				p.Node = x.child(p.Node, mi)
			}
			p.Ty = t.Members[mi]
		case KArray:
			i := x.indexValue(iv, it, t.Count, "array")
			if p.Buf != nil {
				if t.ArrayStride <= 0 {
					x.failf("array type %%%d has no ArrayStride decoration", t.ID)
				}
				p.Off += i * t.ArrayStride
			} else {
				p.Node = x.child(p.Node, i)
			}
			p.Ty = t.Elem
		case KRuntimeArray:
			if p.Buf == nil {
				x.failf("runtime array outside a buffer")
			}
			if t.ArrayStride <= 0 {
				x.failf("runtime array type %%%d has no ArrayStride decoration", t.ID)
			}
			n := runtimeLen(p.Buf, p.Off, t.ArrayStride)
			i := x.indexValue(iv, it, n, "runtime array")
			if n == 0 {
				p.Dead = true
			}
			p.Off += i * t.ArrayStride
			p.Ty = t.Elem
		case KVector:
			i := x.indexValue(iv, it, t.Count, "vector")
			if p.Buf != nil {
				cs := p.CompStride
				if cs == 0 {
					cs = x.bufScalarBytes(t.Elem)
				}
				p.Off += i * cs
				p.CompStride = 0
			} else {
				p.Node = x.child(p.Node, i)
			}
			p.Ty = t.Elem
		case KMatrix:
			i := x.indexValue(iv, it, t.Count, "matrix column")
			if p.Buf != nil {
				if p.MatStride <= 0 {
					x.failf("matrix in a buffer without MatrixStride decoration")
				}
				if p.RowMajor {
					p.Off += i * x.bufScalarBytes(t.Elem.Elem)
					p.CompStride = p.MatStride
				} else {
					p.Off += i * p.MatStride
				}
			} else {
				p.Node = x.child(p.Node, i)
			}
			p.Ty = t.Elem
		default:
			x.failf("access chain steps into a non-composite type %v", t)
		}
	}
	rt := x.resultType(in)
	if rt.Kind != KPointer {
		x.failf("access chain result type is not a pointer")
	}
	if !sameShape(rt.Elem, p.Ty) {
		x.failf("access chain result type %v does not match the addressed object %v", rt.Elem, p.Ty)
	}
	np := p
	return Value{K: vPtr, Ptr: &np}
}

// sameShape compares types structurally (ignoring decorations).
func sameShape(a, b *Type) bool {
	if a == b {
		return true
	}
	if a == nil || b == nil || a.Kind != b.Kind {
		return false
	}
	switch a.Kind {
	case KInt:
		return a.Width == b.Width && a.Signed == b.Signed
	case KFloat:
		return a.Width == b.Width
	case KVector, KMatrix, KArray:
		return a.Count == b.Count && sameShape(a.Elem, b.Elem)
	case KRuntimeArray:
		return sameShape(a.Elem, b.Elem)
	case KStruct:
		if len(a.Members) != len(b.Members) {
			return false
		}
		for i := range a.Members {
			if !sameShape(a.Members[i], b.Members[i]) {
				return false
			}
		}
		return true
	case KPointer:
		return a.Storage == b.Storage && sameShape(a.Elem, b.Elem)
	case KOpaque:
		return a.ID == b.ID
	}
	return true
}

func (x *exec) child(n *Value, i int) *Value {
	if n == nil || n.K != vComp || i < 0 || i >= len(n.E) {
		x.failf("memory object does not have the shape its type announces")
	}
	return &n.E[i]
}

func runtimeLen(b *bufObj, off, stride int) int {
	if stride <= 0 || off >= len(b.data) {
		return 0
	}
	return (len(b.data) - off) / stride
}

func (x *exec) bufScalarBytes(t *Type) int {
	switch t.Kind {
	case KInt, KFloat:
		return t.Width / 8
	case KBool:
		x.unsupported("bool inside a buffer (not host-visible)")
	}
	x.failf("expected a scalar type, found %v", t)
	return 0
}

// load reads the whole object a pointer designates.
func (x *exec) load(p *Pointer) Value {
	if p.Buf == nil {
		if p.Node == nil {
			x.failf("load through a pointer without memory")
		}
		return deepCopy(*p.Node)
	}
	return x.bufLoad(*p)
}

// store writes a whole object.
func (x *exec) store(p *Pointer, v Value) {
	if p.Buf == nil {
		if p.Node == nil {
			x.failf("store through a pointer without memory")
		}
		if p.Storage == scInput {
			x.failf("store to an Input variable")
		}
		if err := storeInto(p.Node, v); err != nil {
			x.failf("%v", err)
		}
		return
	}
	if p.Buf.readOnly {
		x.failf("store to the Uniform (Block) buffer variable %%%d", p.Buf.varID)
	}
	if anyPoison(v) {
		x.trap(xrt.TrapPoison, "undefined value stored to buffer %v", p.Buf.slot)
	}
	x.bufStore(*p, v)
}

func (x *exec) bufRead(p *Pointer, off, size int) uint64 {
	if p.Dead {
		return 0
	}
	d := p.Buf.data
	if off < 0 || off+size > len(d) {
		x.trap(xrt.TrapOOB, "read of %d bytes at offset %d of buffer %v (%d bytes)", size, off, p.Buf.slot, len(d))
		return 0
	}
	var b uint64
	for i := 0; i < size; i++ {
		b |= uint64(d[off+i]) << (8 * uint(i))
	}
	return b
}

func (x *exec) bufWrite(p *Pointer, off, size int, b uint64) {
	if p.Dead {
		return
	}
	d := p.Buf.data
	if off < 0 || off+size > len(d) {
		x.trap(xrt.TrapOOB, "write of %d bytes at offset %d of buffer %v (%d bytes)", size, off, p.Buf.slot, len(d))
		return
	}
	for i := 0; i < size; i++ {
		d[off+i] = byte(b >> (8 * uint(i)))
	}
}

// bufWalk visits every scalar of the object at p in value-tree order.
func (x *exec) bufLoad(p Pointer) Value {
	t := p.Ty
	switch t.Kind {
	case KInt, KFloat:
		return scalar(x.bufRead(&p, p.Off, t.Width/8))
	case KBool:
		x.unsupported("bool inside a buffer (not host-visible)")
	case KVector:
		sz := x.bufScalarBytes(t.Elem)
		cs := p.CompStride
		if cs == 0 {
			cs = sz
		}
		e := make([]Value, t.Count)
		for i := range e {
			e[i] = scalar(x.bufRead(&p, p.Off+i*cs, sz))
		}
		return comp(e)
	case KMatrix:
		e := make([]Value, t.Count)
		for i := range e {
			e[i] = x.bufLoad(x.bufMatrixColumn(p, i))
		}
		return comp(e)
	case KArray:
		if t.ArrayStride <= 0 {
			x.failf("array type %%%d has no ArrayStride decoration", t.ID)
		}
		e := make([]Value, t.Count)
		q := p
		q.Ty = t.Elem
		for i := range e {
			q.Off = p.Off + i*t.ArrayStride
			e[i] = x.bufLoad(q)
		}
		return comp(e)
	case KStruct:
		e := make([]Value, len(t.Members))
		for i := range e {
			e[i] = x.bufLoad(x.bufMember(p, i))
		}
		return comp(e)
	case KRuntimeArray:
		x.failf("load of a whole runtime array")
	}
	x.failf("load of type %v from a buffer", t)
	return Value{}
}

func (x *exec) bufStore(p Pointer, v Value) {
	t := p.Ty
	switch t.Kind {
	case KInt, KFloat:
		if v.K != vScalar {
			x.failf("store of a non-scalar into a scalar buffer location")
		}
		x.bufWrite(&p, p.Off, t.Width/8, v.B)
		return
	case KBool:
		x.unsupported("bool inside a buffer (not host-visible)")
	case KVector:
		if v.K != vComp || len(v.E) != t.Count {
			x.failf("store of a value whose shape differs from the buffer object")
		}
		sz := x.bufScalarBytes(t.Elem)
		cs := p.CompStride
		if cs == 0 {
			cs = sz
		}
		for i := range v.E {
			x.bufWrite(&p, p.Off+i*cs, sz, v.E[i].B)
		}
		return
	case KMatrix:
		if v.K != vComp || len(v.E) != t.Count {
			x.failf("store of a value whose shape differs from the buffer object")
		}
		for i := range v.E {
			x.bufStore(x.bufMatrixColumn(p, i), v.E[i])
		}
		return
	case KArray:
		if v.K != vComp || len(v.E) != t.Count {
			x.failf("store of a value whose shape differs from the buffer object")
		}
		if t.ArrayStride <= 0 {
			x.failf("array type %%%d has no ArrayStride decoration", t.ID)
		}
		q := p
		q.Ty = t.Elem
		for i := range v.E {
			q.Off = p.Off + i*t.ArrayStride
			x.bufStore(q, v.E[i])
		}
		return
	case KStruct:
		if v.K != vComp || len(v.E) != len(t.Members) {
			x.failf("store of a value whose shape differs from the buffer object")
		}
		for i := range v.E {
			x.bufStore(x.bufMember(p, i), v.E[i])
		}
		return
	}
	x.failf("store of type %v to a buffer", t)
}

func (x *exec) bufMatrixColumn(p Pointer, i int) Pointer {
	t := p.Ty
	if p.MatStride <= 0 {
		x.failf("matrix in a buffer without MatrixStride decoration")
	}
	q := p
	q.Ty = t.Elem
	if p.RowMajor {
		q.Off = p.Off + i*x.bufScalarBytes(t.Elem.Elem)
		q.CompStride = p.MatStride
	} else {
		q.Off = p.Off + i*p.MatStride
		q.CompStride = 0
	}
	return q
}

func (x *exec) bufMember(p Pointer, i int) Pointer {
	t := p.Ty
	if t.Offsets[i] < 0 {
		x.failf("member %d of struct %%%d has no Offset decoration", i, t.ID)
	}
	q := p
	q.Ty = t.Members[i]
	q.Off = p.Off + t.Offsets[i]
	if t.MatStride[i] != 0 {
		q.MatStride = t.MatStride[i]
	}
	q.RowMajor = t.RowMajor[i]
	q.CompStride = 0
	return q
}

// arrayLength implements OpArrayLength.
func (x *exec) arrayLength(fr *frame, in *Inst) Value {
	x.needArgs(in, 2)
	p := x.ptrOf(x.val(fr, in.Args[0]))
	t := p.Ty
	mi := int(in.Args[1])
	if p.Buf == nil || t.Kind != KStruct || mi >= len(t.Members) || t.Members[mi].Kind != KRuntimeArray {
		x.failf("OpArrayLength operand is not a buffer struct whose member %d is a runtime array", mi)
	}
	if t.Offsets[mi] < 0 {
		x.failf("member %d of struct %%%d has no Offset decoration", mi, t.ID)
	}
	ra := t.Members[mi]
	if ra.ArrayStride <= 0 {
		x.failf("runtime array type %%%d has no ArrayStride decoration", ra.ID)
	}
	return scalar(uint64(uint32(runtimeLen(p.Buf, p.Off+t.Offsets[mi], ra.ArrayStride))))
}

// atomic implements the OpAtomic* instructions on integer scalars.
func (x *exec) atomic(fr *frame, in *Inst) (Value, bool) {
	nargs := 4
	switch in.Op {
	case OpAtomicLoad, OpAtomicIIncrement, OpAtomicIDecrement:
		nargs = 3
	case OpAtomicCompareExchange, OpAtomicCompareExchangeWk:
		nargs = 6
	}
	x.needArgs(in, nargs)
	p := x.ptrOf(x.val(fr, in.Args[0]))
	t := p.Ty
	if t.Kind != KInt {
		if t.Kind == KFloat {
			x.unsupported("atomic on a float")
		}
		x.failf("atomic on a non-integer object of type %v", t)
	}
	// scope and semantics: must be defined ids; values are irrelevant to a sequential machine
	x.val(fr, in.Args[1])
	x.val(fr, in.Args[2])
	w := t.Width
	mask := widthMask(w)
	var old Value
	if p.Buf != nil {
		old = scalar(x.bufRead(p, p.Off, w/8))
	} else {
		if p.Node == nil || p.Node.K != vScalar {
			x.failf("atomic on a non-scalar memory object")
		}
		old = *p.Node
	}
	write := func(v Value) {
		v.B &= mask
		if p.Buf != nil {
			if p.Buf.readOnly {
				x.failf("atomic write to the Uniform (Block) buffer variable %%%d", p.Buf.varID)
			}
			x.bufWrite(p, p.Off, w/8, v.B)
		} else {
			*p.Node = v
		}
	}
	operand := func(id uint32) Value {
		v := x.val(fr, id)
		if v.K != vScalar {
			x.failf("atomic operand is not a scalar")
		}
		if v.P {
			x.trap(xrt.TrapPoison, "atomic operand is an undefined value")
		}
		return v
	}
	switch in.Op {
	case OpAtomicLoad:
		return old, true
	case OpAtomicStore:
		write(operand(in.Args[3]))
		return Value{}, false
	case OpAtomicExchange:
		write(operand(in.Args[3]))
		return old, true
	case OpAtomicCompareExchange, OpAtomicCompareExchangeWk:
		x.val(fr, in.Args[3])
		v := operand(in.Args[4])
		c := operand(in.Args[5])
		if old.P {
			// comparison with undefined memory: outcome unknown; memory stays undefined
			write(Value{K: vScalar, P: true})
		} else if old.B == c.B&mask {
			write(v)
		}
		return old, true
	case OpAtomicIIncrement:
		write(Value{K: vScalar, B: old.B + 1, P: old.P})
		return old, true
	case OpAtomicIDecrement:
		write(Value{K: vScalar, B: old.B - 1, P: old.P})
		return old, true
	}
	v := operand(in.Args[3])
	a, b := old.B&mask, v.B&mask
	var r uint64
	switch in.Op {
	case OpAtomicIAdd:
		r = a + b
	case OpAtomicISub:
		r = a - b
	case OpAtomicSMin:
		r = a
		if sext(b, w) < sext(a, w) {
			r = b
		}
	case OpAtomicSMax:
		r = a
		if sext(b, w) > sext(a, w) {
			r = b
		}
	case OpAtomicUMin:
		r = a
		if b < a {
			r = b
		}
	case OpAtomicUMax:
		r = a
		if b > a {
			r = b
		}
	case OpAtomicAnd:
		r = a & b
	case OpAtomicOr:
		r = a | b
	case OpAtomicXor:
		r = a ^ b
	default:
		x.unsupported("%s", in.Name())
	}
	write(Value{K: vScalar, B: r, P: old.P || v.P})
	return old, true
}
