package spvx

import (
	"math"
	"math/bits"

	"verif/internal/xrt"
)

// lane returns the i-th component of a vector value, or the scalar itself.
func (x *exec) lane(v Value, i, n int) Value {
	if v.K == vComp {
		if len(v.E) != n {
			x.failf("operand has %d components, the result has %d", len(v.E), n)
		}
		e := v.E[i]
		if e.K != vScalar {
			x.failf("vector component is not a scalar")
		}
		return e
	}
	if v.K != vScalar {
		x.failf("operand is not a scalar or vector")
	}
	if n > 0 {
		x.failf("scalar operand where a %d-component vector is required", n)
	}
	return v
}

// splat replicates a scalar to the lane count of t (no-op for scalar t).
func (x *exec) splat(v Value, t *Type) Value {
	n := x.lanes(t)
	if n == 0 || v.K != vScalar {
		return v
	}
	e := make([]Value, n)
	for i := range e {
		e[i] = v
	}
	return comp(e)
}

// lanes returns the number of lanes of a scalar-or-vector type (0 = scalar).
func (x *exec) lanes(t *Type) int {
	switch t.Kind {
	case KVector:
		return t.Count
	case KBool, KInt, KFloat:
		return 0
	}
	x.failf("type %v is not a scalar or vector", t)
	return 0
}

// mapN applies a scalar function lane-wise. Poison operands yield a poison
// lane without calling f (so f never traps on undefined inputs).
func (x *exec) mapN(rt *Type, f func(a []Value) Value, ops ...Value) Value {
	n := x.lanes(rt)
	one := func(i, n int) Value {
		var buf [4]Value
		a := buf[:len(ops)]
		poison := false
		for k := range ops {
			a[k] = x.lane(ops[k], i, n)
			poison = poison || a[k].P
		}
		if poison {
			return poisonScalar()
		}
		r := f(a)
		r.K = vScalar
		return r
	}
	if n == 0 {
		for k := range ops {
			if ops[k].K != vScalar {
				x.failf("scalar result with a non-scalar operand")
			}
		}
		return one(0, 0)
	}
	e := make([]Value, n)
	for i := range e {
		e[i] = one(i, n)
	}
	return comp(e)
}

func (x *exec) operandScalarType(id uint32) *Type {
	return x.typeOfID(id).scalarOf()
}

func (x *exec) floatVec(v Value, what string) []Value {
	if v.K != vComp {
		x.failf("%s is not a vector", what)
	}
	for i := range v.E {
		if v.E[i].K != vScalar {
			x.failf("%s has a non-scalar component", what)
		}
	}
	return v.E
}

func (x *exec) matrixCols(v Value, what string) [][]Value {
	if v.K != vComp {
		x.failf("%s is not a matrix", what)
	}
	cols := make([][]Value, len(v.E))
	for i := range v.E {
		cols[i] = x.floatVec(v.E[i], what)
		if len(cols[i]) != len(cols[0]) {
			x.failf("%s has ragged columns", what)
		}
	}
	return cols
}

// dotF accumulates a[0]*b[0] + a[1]*b[1] + ... left to right, each product and
// each sum rounded.
func dotF(f fa, a, b []Value) Value {
	acc := f.mul(a[0], b[0])
	for i := 1; i < len(a); i++ {
		acc = f.add(acc, f.mul(a[i], b[i]))
	}
	return acc
}

type bitbuf struct {
	w [8]uint64
	n int
}

func (b *bitbuf) put(v uint64, width int) bool {
	if b.n+width > 512 {
		return false
	}
	v &= widthMask(width)
	i, s := b.n/64, uint(b.n%64)
	b.w[i] |= v << s
	if s+uint(width) > 64 {
		b.w[i+1] |= v >> (64 - s)
	}
	b.n += width
	return true
}

func (b *bitbuf) get(pos, width int) uint64 {
	i, s := pos/64, uint(pos%64)
	v := b.w[i] >> s
	if s+uint(width) > 64 {
		v |= b.w[i+1] << (64 - s)
	}
	return v & widthMask(width)
}

func (x *exec) bitcast(rt, st *Type, v Value) Value {
	if rt.Kind == KPointer || st.Kind == KPointer {
		x.unsupported("OpBitcast involving pointers")
	}
	flat := func(t *Type, v Value) ([]Value, int) {
		switch t.Kind {
		case KInt, KFloat:
			return []Value{v}, t.Width
		case KVector:
			if !t.Elem.isNumeric() || v.K != vComp || len(v.E) != t.Count {
				x.failf("OpBitcast of %v", t)
			}
			return v.E, t.Elem.Width
		}
		x.failf("OpBitcast of %v", t)
		return nil, 0
	}
	src, sw := flat(st, v)
	var buf bitbuf
	poison := false
	for _, s := range src {
		poison = poison || s.P
		if !buf.put(s.B, sw) {
			x.unsupported("OpBitcast wider than 512 bits")
		}
	}
	var dw, dn int
	switch rt.Kind {
	case KInt, KFloat:
		dw, dn = rt.Width, 0
	case KVector:
		if !rt.Elem.isNumeric() {
			x.failf("OpBitcast to %v", rt)
		}
		dw, dn = rt.Elem.Width, rt.Count
	default:
		x.failf("OpBitcast to %v", rt)
	}
	total := dw
	if dn > 0 {
		total = dw * dn
	}
	if total != buf.n {
		x.failf("OpBitcast between %d and %d bits", buf.n, total)
	}
	if dn == 0 {
		return Value{K: vScalar, B: buf.get(0, dw), P: poison}
	}
	e := make([]Value, dn)
	for i := range e {
		e[i] = Value{K: vScalar, B: buf.get(i*dw, dw), P: poison}
	}
	return comp(e)
}

// intBinary evaluates one lane of a two-operand integer instruction. a and b
// are zero-extended w-bit values (b of a shift has its own width wb).
func (x *exec) intBinary(op uint16, a, b uint64, w, wb int) uint64 {
	mask := widthMask(w)
	sa, sb := sext(a, w), sext(b, w)
	minInt := int64(-1) << uint(w-1)
	switch op {
	case OpIAdd:
		return (a + b) & mask
	case OpISub:
		return (a - b) & mask
	case OpIMul:
		return (a * b) & mask
	case OpUDiv:
		if b == 0 {
			x.trap(xrt.TrapDivZero, "OpUDiv by zero")
			return 0
		}
		return a / b
	case OpUMod:
		if b == 0 {
			x.trap(xrt.TrapDivZero, "OpUMod by zero")
			return 0
		}
		return a % b
	case OpSDiv:
		if sb == 0 {
			x.trap(xrt.TrapDivZero, "OpSDiv by zero")
			return 0
		}
		if sa == minInt && sb == -1 {
			x.trap(xrt.TrapDivOvf, "OpSDiv of the most negative value by -1")
			return uint64(minInt) & mask
		}
		return uint64(sa/sb) & mask
	case OpSRem:
		if sb == 0 {
			x.trap(xrt.TrapDivZero, "OpSRem by zero")
			return 0
		}
		if sa == minInt && sb == -1 {
			x.trap(xrt.TrapDivOvf, "OpSRem of the most negative value by -1")
			return 0
		}
		return uint64(sa%sb) & mask
	case OpSMod:
		if sb == 0 {
			x.trap(xrt.TrapDivZero, "OpSMod by zero")
			return 0
		}
		if sa == minInt && sb == -1 {
			x.trap(xrt.TrapDivOvf, "OpSMod of the most negative value by -1")
			return 0
		}
		r := sa % sb
		if r != 0 && (r < 0) != (sb < 0) {
			r += sb
		}
		return uint64(r) & mask
	case OpShiftLeftLogical, OpShiftRightLogical, OpShiftRightArithmetic:
		sh := b
		if sh >= uint64(w) {
			x.trap(xrt.TrapShift, "%s by %d on a %d-bit value", OpcodeName(op), sh, w)
			sh %= uint64(w)
		}
		switch op {
		case OpShiftLeftLogical:
			return (a << sh) & mask
		case OpShiftRightLogical:
			return a >> sh
		}
		return uint64(sa>>sh) & mask
	case OpBitwiseOr:
		return a | b
	case OpBitwiseXor:
		return a ^ b
	case OpBitwiseAnd:
		return a & b
	}
	x.failf("internal: intBinary on %s", OpcodeName(op))
	return 0
}

func intCompare(op uint16, a, b uint64, w int) bool {
	sa, sb := sext(a, w), sext(b, w)
	switch op {
	case OpIEqual:
		return a == b
	case OpINotEqual:
		return a != b
	case OpUGreaterThan:
		return a > b
	case OpSGreaterThan:
		return sa > sb
	case OpUGreaterThanEqual:
		return a >= b
	case OpSGreaterThanEqual:
		return sa >= sb
	case OpULessThan:
		return a < b
	case OpSLessThan:
		return sa < sb
	case OpULessThanEqual:
		return a <= b
	case OpSLessThanEqual:
		return sa <= sb
	}
	return false
}

func floatCompare(op uint16, a, b float64) bool {
	unord := a != a || b != b
	var r bool
	switch op {
	case OpFOrdEqual, OpFUnordEqual:
		r = a == b
	case OpFOrdNotEqual, OpFUnordNotEqual:
		r = a != b
	case OpFOrdLessThan, OpFUnordLessThan:
		r = a < b
	case OpFOrdGreaterThan, OpFUnordGreaterThan:
		r = a > b
	case OpFOrdLessThanEqual, OpFUnordLessThanEqual:
		r = a <= b
	case OpFOrdGreaterThanEqual, OpFUnordGreaterThanEqual:
		r = a >= b
	}
	switch op {
	case OpFUnordEqual, OpFUnordNotEqual, OpFUnordLessThan, OpFUnordGreaterThan, OpFUnordLessThanEqual, OpFUnordGreaterThanEqual:
		return unord || r
	}
	return !unord && r
}

// convertFToI implements OpConvertFToS / OpConvertFToU for one lane.
func (x *exec) convertFToI(v float64, w int, signed bool) uint64 {
	name := "OpConvertFToU"
	if signed {
		name = "OpConvertFToS"
	}
	if v != v {
		x.trap(xrt.TrapF2I, "%s of NaN", name)
		return 0
	}
	t := math.Trunc(v)
	if signed {
		lim := math.Ldexp(1, w-1)
		if t < -lim {
			x.trap(xrt.TrapF2I, "%s of %g does not fit i%d", name, v, w)
			return uint64(int64(-1)<<uint(w-1)) & widthMask(w)
		}
		if t >= lim {
			x.trap(xrt.TrapF2I, "%s of %g does not fit i%d", name, v, w)
			return widthMask(w) >> 1
		}
		return uint64(int64(t)) & widthMask(w)
	}
	lim := math.Ldexp(1, w)
	if t < 0 {
		x.trap(xrt.TrapF2I, "%s of %g does not fit u%d", name, v, w)
		return 0
	}
	if t >= lim {
		x.trap(xrt.TrapF2I, "%s of %g does not fit u%d", name, v, w)
		return widthMask(w)
	}
	return uint64(t)
}

func intToFloat(b uint64, sw int, signed bool, f fa) uint64 {
	switch f.w {
	case 32:
		if signed {
			return uint64(math.Float32bits(float32(sext(b, sw))))
		}
		return uint64(math.Float32bits(float32(b)))
	case 64:
		if signed {
			return math.Float64bits(float64(sext(b, sw)))
		}
		return math.Float64bits(float64(b))
	}
	// binary16: every integer of magnitude >= 65520 becomes infinity, smaller
	// ones are exact in float64, so one rounding happens
	if signed {
		return uint64(f64ToF16(float64(sext(b, sw))))
	}
	return uint64(f64ToF16(float64(b)))
}

// bitfieldRange validates offset/count and returns the clamped pair.
func (x *exec) bitfieldRange(off, cnt uint64, w int) (uint, uint) {
	if off > uint64(w) || cnt > uint64(w) || off+cnt > uint64(w) {
		x.trap(xrt.TrapOther, "bitfield range: offset %d + count %d exceeds %d bits", off, cnt, w)
		if off > uint64(w) {
			off = uint64(w)
		}
		if cnt > uint64(w)-off {
			cnt = uint64(w) - off
		}
	}
	return uint(off), uint(cnt)
}

// evalInst executes one non-control-flow instruction.
func (x *exec) evalInst(fr *frame, in *Inst) (Value, bool) {
	a := in.Args
	arg := func(i int) Value { return x.val(fr, a[i]) }
	switch in.Op {
	case OpNop, OpLine, OpNoLine, OpSelectionMerge, OpLoopMerge, OpLifetimeStart, OpLifetimeStop, OpMemoryBarrier:
		return Value{}, false

	case OpUndef:
		v, err := newValue(x.resultType(in), true)
		if err != nil {
			panic(runErr{err})
		}
		return v, true

	case OpLoad:
		x.needArgs(in, 1)
		p := x.ptrOf(arg(0))
		if !sameShape(p.Ty, x.resultType(in)) {
			x.failf("OpLoad result type %v differs from the pointee type %v", x.resultType(in), p.Ty)
		}
		return x.load(p), true
	case OpStore:
		x.needArgs(in, 2)
		p := x.ptrOf(arg(0))
		if !sameShape(p.Ty, x.typeOfID(a[1])) {
			x.failf("OpStore of a %v into a %v", x.typeOfID(a[1]), p.Ty)
		}
		x.store(p, arg(1))
		return Value{}, false
	case OpCopyMemory:
		x.needArgs(in, 2)
		dst, src := x.ptrOf(arg(0)), x.ptrOf(arg(1))
		if !sameShape(dst.Ty, src.Ty) {
			x.failf("OpCopyMemory between %v and %v", dst.Ty, src.Ty)
		}
		x.store(dst, x.load(src))
		return Value{}, false
	case OpAccessChain, OpInBoundsAccessChain:
		return x.accessChain(fr, in), true
	case OpArrayLength:
		return x.arrayLength(fr, in), true
	case OpAtomicLoad, OpAtomicStore, OpAtomicExchange, OpAtomicCompareExchange, OpAtomicCompareExchangeWk,
		OpAtomicIIncrement, OpAtomicIDecrement, OpAtomicIAdd, OpAtomicISub, OpAtomicSMin, OpAtomicUMin,
		OpAtomicSMax, OpAtomicUMax, OpAtomicAnd, OpAtomicOr, OpAtomicXor:
		return x.atomic(fr, in)

	case OpCopyObject, OpCopyLogical:
		x.needArgs(in, 1)
		return arg(0), true

	case OpExtInst:
		x.needArgs(in, 2)
		if x.p.nopSets[a[0]] {
			return Value{K: vOpaque}, true
		}
		if !x.p.glslSets[a[0]] {
			x.unsupported("extended instruction set %q", x.p.m.ExtImports[a[0]])
		}
		return x.glsl(fr, in), true
	}
	if in.Type == 0 {
		x.unsupported("opcode %s", in.Name())
	}
	rt := x.resultType(in)
	st := rt.scalarOf()
	switch in.Op {
	case OpVectorExtractDynamic:
		x.needArgs(in, 2)
		v := arg(0)
		if v.K != vComp {
			x.failf("operand is not a vector")
		}
		i := x.indexValue(arg(1), x.typeOfID(a[1]), len(v.E), "vector")
		return v.E[i], true
	case OpVectorInsertDynamic:
		x.needArgs(in, 3)
		v := arg(0)
		if v.K != vComp {
			x.failf("operand is not a vector")
		}
		i := x.indexValue(arg(2), x.typeOfID(a[2]), len(v.E), "vector")
		e := append([]Value(nil), v.E...)
		e[i] = arg(1)
		return comp(e), true
	case OpVectorShuffle:
		x.needArgs(in, 2)
		v1, v2 := arg(0), arg(1)
		if v1.K != vComp || v2.K != vComp {
			x.failf("operands are not vectors")
		}
		e := make([]Value, len(a)-2)
		for i, c := range a[2:] {
			switch {
			case c == 0xFFFFFFFF:
				e[i] = poisonScalar()
			case int(c) < len(v1.E):
				e[i] = v1.E[c]
			case int(c) < len(v1.E)+len(v2.E):
				e[i] = v2.E[int(c)-len(v1.E)]
			default:
				x.failf("shuffle component %d out of range", c)
			}
		}
		if rt.Kind != KVector || rt.Count != len(e) {
			x.failf("shuffle result has %d components, its type is %v", len(e), rt)
		}
		return comp(e), true
	case OpCompositeConstruct:
		var e []Value
		switch rt.Kind {
		case KVector:
			for i := range a {
				v := arg(i)
				if v.K == vComp {
					e = append(e, v.E...)
				} else {
					e = append(e, v)
				}
			}
			if len(e) != rt.Count {
				x.failf("%d components for %v", len(e), rt)
			}
			for i := range e {
				if e[i].K != vScalar {
					x.failf("vector constituent is not a scalar")
				}
			}
		case KMatrix, KArray:
			if len(a) != rt.Count {
				x.failf("%d constituents for %v", len(a), rt)
			}
			for i := range a {
				e = append(e, arg(i))
			}
		case KStruct:
			if len(a) != len(rt.Members) {
				x.failf("%d constituents for a struct of %d members", len(a), len(rt.Members))
			}
			for i := range a {
				e = append(e, arg(i))
			}
		default:
			x.failf("OpCompositeConstruct of %v", rt)
		}
		return comp(e), true
	case OpCompositeExtract:
		x.needArgs(in, 1)
		v := arg(0)
		for _, i := range a[1:] {
			if v.K != vComp || int(i) >= len(v.E) {
				x.failf("composite index %d out of range", i)
			}
			v = v.E[i]
		}
		return v, true
	case OpCompositeInsert:
		x.needArgs(in, 2)
		obj := arg(0)
		root := deepCopy(arg(1))
		cur := &root
		for _, i := range a[2:] {
			if cur.K != vComp || int(i) >= len(cur.E) {
				x.failf("composite index %d out of range", i)
			}
			cur = &cur.E[i]
		}
		*cur = obj
		return root, true
	case OpTranspose:
		x.needArgs(in, 1)
		cols := x.matrixCols(arg(0), "operand")
		if len(cols) == 0 {
			x.failf("empty matrix")
		}
		rows := len(cols[0])
		out := make([]Value, rows)
		for r := 0; r < rows; r++ {
			e := make([]Value, len(cols))
			for c := range cols {
				e[c] = cols[c][r]
			}
			out[r] = comp(e)
		}
		return comp(out), true

	case OpSelect:
		x.needArgs(in, 3)
		c, t, f := arg(0), arg(1), arg(2)
		if c.K == vScalar {
			if c.P {
				return poisonLike(t), true
			}
			if c.B&1 != 0 {
				return t, true
			}
			return f, true
		}
		if c.K != vComp || t.K != vComp || f.K != vComp || len(t.E) != len(c.E) || len(f.E) != len(c.E) {
			x.failf("OpSelect operands do not line up")
		}
		e := make([]Value, len(c.E))
		for i := range e {
			switch {
			case c.E[i].P:
				e[i] = poisonLike(t.E[i])
			case c.E[i].B&1 != 0:
				e[i] = t.E[i]
			default:
				e[i] = f.E[i]
			}
		}
		return comp(e), true

	case OpAny, OpAll:
		x.needArgs(in, 1)
		v := arg(0)
		if v.K != vComp {
			x.failf("operand is not a vector")
		}
		anyT, allT, poison := false, true, false
		for _, e := range v.E {
			poison = poison || e.P
			anyT = anyT || e.B&1 != 0
			allT = allT && e.B&1 != 0
		}
		r := anyT
		if in.Op == OpAll {
			r = allT
		}
		return boolVal(r).withPoison(poison), true

	case OpLogicalEqual, OpLogicalNotEqual, OpLogicalOr, OpLogicalAnd:
		x.needArgs(in, 2)
		return x.mapN(rt, func(v []Value) Value {
			p, q := v[0].B&1 != 0, v[1].B&1 != 0
			switch in.Op {
			case OpLogicalEqual:
				return boolVal(p == q)
			case OpLogicalNotEqual:
				return boolVal(p != q)
			case OpLogicalOr:
				return boolVal(p || q)
			}
			return boolVal(p && q)
		}, arg(0), arg(1)), true
	case OpLogicalNot:
		x.needArgs(in, 1)
		return x.mapN(rt, func(v []Value) Value { return boolVal(v[0].B&1 == 0) }, arg(0)), true

	case OpIAdd, OpISub, OpIMul, OpUDiv, OpSDiv, OpUMod, OpSRem, OpSMod,
		OpShiftLeftLogical, OpShiftRightLogical, OpShiftRightArithmetic, OpBitwiseOr, OpBitwiseXor, OpBitwiseAnd:
		x.needArgs(in, 2)
		if st.Kind != KInt {
			x.failf("integer instruction with result type %v", rt)
		}
		w := st.Width
		wa, wb := x.operandScalarType(a[0]), x.operandScalarType(a[1])
		if wa.Kind != KInt || wb.Kind != KInt || wa.Width != w {
			x.failf("operand types %v, %v do not fit result type %v", wa, wb, rt)
		}
		isShift := in.Op == OpShiftLeftLogical || in.Op == OpShiftRightLogical || in.Op == OpShiftRightArithmetic
		if !isShift && wb.Width != w {
			x.failf("operand types %v, %v do not fit result type %v", wa, wb, rt)
		}
		return x.mapN(rt, func(v []Value) Value {
			return scalar(x.intBinary(in.Op, v[0].B, v[1].B, w, wb.Width))
		}, arg(0), arg(1)), true
	case OpSNegate, OpNot, OpBitReverse, OpBitCount:
		x.needArgs(in, 1)
		ot := x.operandScalarType(a[0])
		if st.Kind != KInt || ot.Kind != KInt {
			x.failf("integer instruction on %v -> %v", ot, rt)
		}
		w, ow := st.Width, ot.Width
		return x.mapN(rt, func(v []Value) Value {
			b := v[0].B
			switch in.Op {
			case OpSNegate:
				return scalar((-b) & widthMask(w))
			case OpNot:
				return scalar(^b & widthMask(w))
			case OpBitReverse:
				return scalar(bits.Reverse64(b) >> uint(64-ow) & widthMask(w))
			}
			return scalar(uint64(bits.OnesCount64(b)) & widthMask(w))
		}, arg(0)), true
	case OpBitFieldInsert:
		x.needArgs(in, 4)
		if st.Kind != KInt {
			x.failf("OpBitFieldInsert on %v", rt)
		}
		w := st.Width
		off, cnt := arg(2), arg(3)
		if off.K != vScalar || cnt.K != vScalar {
			x.failf("offset/count are not scalars")
		}
		if off.P || cnt.P {
			return poisonLike(arg(0)), true
		}
		o, c := x.bitfieldRange(off.B, cnt.B, w)
		return x.mapN(rt, func(v []Value) Value {
			if c == 0 {
				return scalar(v[0].B)
			}
			m := (widthMask(int(c)) << o) & widthMask(w)
			return scalar((v[0].B &^ m) | ((v[1].B << o) & m))
		}, arg(0), arg(1)), true
	case OpBitFieldSExtract, OpBitFieldUExtract:
		x.needArgs(in, 3)
		if st.Kind != KInt {
			x.failf("%s on %v", in.Name(), rt)
		}
		w := st.Width
		off, cnt := arg(1), arg(2)
		if off.K != vScalar || cnt.K != vScalar {
			x.failf("offset/count are not scalars")
		}
		if off.P || cnt.P {
			return poisonLike(arg(0)), true
		}
		o, c := x.bitfieldRange(off.B, cnt.B, w)
		return x.mapN(rt, func(v []Value) Value {
			if c == 0 {
				return scalar(0)
			}
			f := (v[0].B >> o) & widthMask(int(c))
			if in.Op == OpBitFieldSExtract {
				f = uint64(sext(f, int(c))) & widthMask(w)
			}
			return scalar(f)
		}, arg(0)), true

	case OpIEqual, OpINotEqual, OpUGreaterThan, OpSGreaterThan, OpUGreaterThanEqual, OpSGreaterThanEqual,
		OpULessThan, OpSLessThan, OpULessThanEqual, OpSLessThanEqual:
		x.needArgs(in, 2)
		ta, tb := x.operandScalarType(a[0]), x.operandScalarType(a[1])
		if ta.Kind != KInt || tb.Kind != KInt || ta.Width != tb.Width || st.Kind != KBool {
			x.failf("comparison of %v and %v giving %v", ta, tb, rt)
		}
		return x.mapN(rt, func(v []Value) Value {
			return boolVal(intCompare(in.Op, v[0].B, v[1].B, ta.Width))
		}, arg(0), arg(1)), true

	case OpFOrdEqual, OpFUnordEqual, OpFOrdNotEqual, OpFUnordNotEqual, OpFOrdLessThan, OpFUnordLessThan,
		OpFOrdGreaterThan, OpFUnordGreaterThan, OpFOrdLessThanEqual, OpFUnordLessThanEqual,
		OpFOrdGreaterThanEqual, OpFUnordGreaterThanEqual:
		x.needArgs(in, 2)
		ta, tb := x.operandScalarType(a[0]), x.operandScalarType(a[1])
		if ta.Kind != KFloat || tb.Kind != KFloat || ta.Width != tb.Width || st.Kind != KBool {
			x.failf("comparison of %v and %v giving %v", ta, tb, rt)
		}
		f := fa{ta.Width}
		return x.mapN(rt, func(v []Value) Value {
			return boolVal(floatCompare(in.Op, f.dec(v[0].B), f.dec(v[1].B)))
		}, arg(0), arg(1)), true
	case OpIsNan, OpIsInf:
		x.needArgs(in, 1)
		ta := x.operandScalarType(a[0])
		if ta.Kind != KFloat || st.Kind != KBool {
			x.failf("%s of %v", in.Name(), ta)
		}
		f := fa{ta.Width}
		return x.mapN(rt, func(v []Value) Value {
			if in.Op == OpIsNan {
				return boolVal(f.isNaN(v[0]))
			}
			return boolVal(f.isInf(v[0]))
		}, arg(0)), true

	case OpFAdd, OpFSub, OpFMul, OpFDiv, OpFRem, OpFMod:
		x.needArgs(in, 2)
		ta, tb := x.operandScalarType(a[0]), x.operandScalarType(a[1])
		if st.Kind != KFloat || ta.Kind != KFloat || tb.Kind != KFloat || ta.Width != st.Width || tb.Width != st.Width {
			x.failf("float instruction on %v, %v -> %v", ta, tb, rt)
		}
		f := fa{st.Width}
		return x.mapN(rt, func(v []Value) Value {
			switch in.Op {
			case OpFAdd:
				return f.add(v[0], v[1])
			case OpFSub:
				return f.sub(v[0], v[1])
			case OpFMul:
				return f.mul(v[0], v[1])
			case OpFDiv:
				return f.div(v[0], v[1])
			case OpFRem:
				return f.rem(v[0], v[1])
			}
			return f.mod(v[0], v[1])
		}, arg(0), arg(1)), true
	case OpFNegate:
		x.needArgs(in, 1)
		if st.Kind != KFloat || x.operandScalarType(a[0]).Kind != KFloat || x.operandScalarType(a[0]).Width != st.Width {
			x.failf("OpFNegate on %v", rt)
		}
		f := fa{st.Width}
		return x.mapN(rt, func(v []Value) Value { return f.neg(v[0]) }, arg(0)), true

	case OpConvertFToS, OpConvertFToU:
		x.needArgs(in, 1)
		ot := x.operandScalarType(a[0])
		if st.Kind != KInt || ot.Kind != KFloat {
			x.failf("%s from %v to %v", in.Name(), ot, rt)
		}
		f := fa{ot.Width}
		return x.mapN(rt, func(v []Value) Value {
			return scalar(x.convertFToI(f.dec(v[0].B), st.Width, in.Op == OpConvertFToS))
		}, arg(0)), true
	case OpConvertSToF, OpConvertUToF:
		x.needArgs(in, 1)
		ot := x.operandScalarType(a[0])
		if st.Kind != KFloat || ot.Kind != KInt {
			x.failf("%s from %v to %v", in.Name(), ot, rt)
		}
		f := fa{st.Width}
		return x.mapN(rt, func(v []Value) Value {
			return scalar(intToFloat(v[0].B, ot.Width, in.Op == OpConvertSToF, f))
		}, arg(0)), true
	case OpUConvert, OpSConvert:
		x.needArgs(in, 1)
		ot := x.operandScalarType(a[0])
		if st.Kind != KInt || ot.Kind != KInt {
			x.failf("%s from %v to %v", in.Name(), ot, rt)
		}
		return x.mapN(rt, func(v []Value) Value {
			if in.Op == OpSConvert {
				return scalar(uint64(sext(v[0].B, ot.Width)) & widthMask(st.Width))
			}
			return scalar(v[0].B & widthMask(st.Width))
		}, arg(0)), true
	case OpFConvert:
		x.needArgs(in, 1)
		ot := x.operandScalarType(a[0])
		if st.Kind != KFloat || ot.Kind != KFloat {
			x.failf("OpFConvert from %v to %v", ot, rt)
		}
		src, dst := fa{ot.Width}, fa{st.Width}
		return x.mapN(rt, func(v []Value) Value { return scalar(dst.enc(src.dec(v[0].B))) }, arg(0)), true
	case OpQuantizeToF16:
		x.needArgs(in, 1)
		if st.Kind != KFloat || st.Width != 32 {
			x.failf("OpQuantizeToF16 on %v", rt)
		}
		f := fa{32}
		return x.mapN(rt, func(v []Value) Value {
			return scalar(f.enc(f16ToF64(f64ToF16(f.dec(v[0].B)))))
		}, arg(0)), true
	case OpBitcast:
		x.needArgs(in, 1)
		return x.bitcast(rt, x.typeOfID(a[0]), arg(0)), true

	case OpDot:
		x.needArgs(in, 2)
		if rt.Kind != KFloat {
			x.failf("OpDot result type %v", rt)
		}
		u, v := x.floatVec(arg(0), "operand 1"), x.floatVec(arg(1), "operand 2")
		if len(u) != len(v) || len(u) == 0 {
			x.failf("OpDot of vectors of different size")
		}
		return dotF(fa{rt.Width}, u, v), true
	case OpVectorTimesScalar:
		x.needArgs(in, 2)
		if st.Kind != KFloat {
			x.failf("OpVectorTimesScalar result type %v", rt)
		}
		f := fa{st.Width}
		v, s := x.floatVec(arg(0), "vector"), arg(1)
		if s.K != vScalar {
			x.failf("scalar operand is not a scalar")
		}
		e := make([]Value, len(v))
		for i := range v {
			e[i] = f.mul(v[i], s)
		}
		return comp(e), true
	case OpMatrixTimesScalar:
		x.needArgs(in, 2)
		if st.Kind != KFloat {
			x.failf("OpMatrixTimesScalar result type %v", rt)
		}
		f := fa{st.Width}
		cols, s := x.matrixCols(arg(0), "matrix"), arg(1)
		if s.K != vScalar {
			x.failf("scalar operand is not a scalar")
		}
		out := make([]Value, len(cols))
		for c := range cols {
			e := make([]Value, len(cols[c]))
			for r := range e {
				e[r] = f.mul(cols[c][r], s)
			}
			out[c] = comp(e)
		}
		return comp(out), true
	case OpVectorTimesMatrix:
		x.needArgs(in, 2)
		if st.Kind != KFloat {
			x.failf("OpVectorTimesMatrix result type %v", rt)
		}
		f := fa{st.Width}
		v, cols := x.floatVec(arg(0), "vector"), x.matrixCols(arg(1), "matrix")
		e := make([]Value, len(cols))
		for c := range cols {
			if len(cols[c]) != len(v) {
				x.failf("vector length does not match the matrix rows")
			}
			e[c] = dotF(f, v, cols[c])
		}
		return comp(e), true
	case OpMatrixTimesVector:
		x.needArgs(in, 2)
		if st.Kind != KFloat {
			x.failf("OpMatrixTimesVector result type %v", rt)
		}
		f := fa{st.Width}
		cols, v := x.matrixCols(arg(0), "matrix"), x.floatVec(arg(1), "vector")
		if len(cols) != len(v) || len(cols) == 0 {
			x.failf("vector length does not match the matrix columns")
		}
		e := make([]Value, len(cols[0]))
		for r := range e {
			acc := f.mul(cols[0][r], v[0])
			for c := 1; c < len(cols); c++ {
				acc = f.add(acc, f.mul(cols[c][r], v[c]))
			}
			e[r] = acc
		}
		return comp(e), true
	case OpMatrixTimesMatrix:
		x.needArgs(in, 2)
		if st.Kind != KFloat {
			x.failf("OpMatrixTimesMatrix result type %v", rt)
		}
		f := fa{st.Width}
		l, r := x.matrixCols(arg(0), "left matrix"), x.matrixCols(arg(1), "right matrix")
		if len(l) == 0 || len(r) == 0 || len(r[0]) != len(l) {
			x.failf("matrix shapes do not agree")
		}
		out := make([]Value, len(r))
		for c := range r {
			e := make([]Value, len(l[0]))
			for row := range e {
				acc := f.mul(l[0][row], r[c][0])
				for k := 1; k < len(l); k++ {
					acc = f.add(acc, f.mul(l[k][row], r[c][k]))
				}
				e[row] = acc
			}
			out[c] = comp(e)
		}
		return comp(out), true
	case OpOuterProduct:
		x.needArgs(in, 2)
		if st.Kind != KFloat {
			x.failf("OpOuterProduct result type %v", rt)
		}
		f := fa{st.Width}
		u, v := x.floatVec(arg(0), "operand 1"), x.floatVec(arg(1), "operand 2")
		out := make([]Value, len(v))
		for c := range v {
			e := make([]Value, len(u))
			for r := range u {
				e[r] = f.mul(u[r], v[c])
			}
			out[c] = comp(e)
		}
		return comp(out), true

	case opSDot, opUDot, opSUDot:
		// SPV_KHR_integer_dot_product. Operands are integer vectors, or 32-bit
		// integers holding four 8-bit lanes when the Packed Vector Format
		// operand (0 = PackedVectorFormat4x8Bit) is present.
		x.needArgs(in, 2)
		if rt.Kind != KInt {
			x.failf("%s result type %v", in.Name(), rt)
		}
		sgn1 := in.Op == opSDot || in.Op == opSUDot
		sgn2 := in.Op == opSDot
		lanesOf := func(i int) ([]Value, int) {
			v, t := arg(i), x.typeOfID(a[i])
			if len(a) >= 3 {
				if a[2] != 0 || t.Kind != KInt || t.Width != 32 || v.K != vScalar {
					x.unsupported("%s with packed format %d on %v", in.Name(), a[2], t)
				}
				e := make([]Value, 4)
				for k := range e {
					e[k] = Value{K: vScalar, B: v.B >> uint(8*k) & 0xff, P: v.P}
				}
				return e, 8
			}
			if t.Kind != KVector || t.Elem.Kind != KInt || v.K != vComp {
				x.failf("%s operand type %v", in.Name(), t)
			}
			return v.E, t.Elem.Width
		}
		u, wu := lanesOf(0)
		v, wv := lanesOf(1)
		if len(u) != len(v) || wu != wv || rt.Width < wu {
			x.failf("%s operands do not line up", in.Name())
		}
		var acc uint64
		poison := false
		for k := range u {
			poison = poison || u[k].P || v[k].P
			p, q := u[k].B, v[k].B
			if sgn1 {
				p = uint64(sext(p, wu))
			}
			if sgn2 {
				q = uint64(sext(q, wv))
			}
			acc += p * q
		}
		return Value{K: vScalar, B: acc & widthMask(rt.Width), P: poison}, true

	case OpIAddCarry, OpISubBorrow, OpUMulExtended, OpSMulExtended:
		x.needArgs(in, 2)
		if rt.Kind != KStruct || len(rt.Members) != 2 {
			x.failf("%s result type %v", in.Name(), rt)
		}
		mt := rt.Members[0]
		ms := mt.scalarOf()
		if ms.Kind != KInt {
			x.failf("%s on %v", in.Name(), mt)
		}
		w := ms.Width
		lo := x.mapN(mt, func(v []Value) Value { return scalar(mulAddLow(in.Op, v[0].B, v[1].B, w)) }, arg(0), arg(1))
		hi := x.mapN(mt, func(v []Value) Value { return scalar(mulAddHigh(in.Op, v[0].B, v[1].B, w)) }, arg(0), arg(1))
		return comp([]Value{lo, hi}), true
	}
	x.unsupported("opcode %s", in.Name())
	return Value{}, false
}

func mulAddLow(op uint16, a, b uint64, w int) uint64 {
	switch op {
	case OpIAddCarry:
		return (a + b) & widthMask(w)
	case OpISubBorrow:
		return (a - b) & widthMask(w)
	}
	return (a * b) & widthMask(w)
}

func mulAddHigh(op uint16, a, b uint64, w int) uint64 {
	switch op {
	case OpIAddCarry:
		if w == 64 {
			_, c := bits.Add64(a, b, 0)
			return c
		}
		return (a + b) >> uint(w) & 1
	case OpISubBorrow:
		return b2u(b > a)
	case OpUMulExtended:
		if w == 64 {
			hi, _ := bits.Mul64(a, b)
			return hi
		}
		return (a * b) >> uint(w) & widthMask(w)
	}
	// OpSMulExtended
	if w == 64 {
		hi, _ := bits.Mul64(a, b)
		if int64(a) < 0 {
			hi -= b
		}
		if int64(b) < 0 {
			hi -= a
		}
		return hi
	}
	return uint64(sext(a, w)*sext(b, w)) >> uint(w) & widthMask(w)
}

// specConstantOp evaluates an OpSpecConstantOp with the default values of its
// operands. Only the integer / boolean / composite-shuffling opcodes the
// specification lists for shaders are accepted.
func (x *exec) specConstantOp(in *Inst) (v Value, err error) {
	defer func() {
		if r := recover(); r != nil {
			v, err = Value{}, panicToErr(r)
		}
	}()
	if len(in.Args) < 1 {
		return Value{}, structErr("word %d: malformed OpSpecConstantOp", in.Pos)
	}
	op := uint16(in.Args[0])
	switch op {
	case OpSConvert, OpUConvert, OpSNegate, OpNot, OpIAdd, OpISub, OpIMul, OpUDiv, OpSDiv, OpUMod, OpSRem, OpSMod,
		OpShiftRightLogical, OpShiftRightArithmetic, OpShiftLeftLogical, OpBitwiseOr, OpBitwiseXor, OpBitwiseAnd,
		OpVectorShuffle, OpCompositeExtract, OpCompositeInsert, OpLogicalOr, OpLogicalAnd, OpLogicalNot,
		OpLogicalEqual, OpLogicalNotEqual, OpSelect, OpIEqual, OpINotEqual, OpULessThan, OpSLessThan,
		OpUGreaterThan, OpSGreaterThan, OpULessThanEqual, OpSLessThanEqual, OpUGreaterThanEqual, OpSGreaterThanEqual:
	default:
		return Value{}, &xrt.Unsupported{What: "OpSpecConstantOp " + OpcodeName(op)}
	}
	syn := &Inst{Op: op, Words: in.Words, Type: in.Type, Result: in.Result, Args: in.Args[1:], Pos: in.Pos, Known: true}
	x.curInst = syn
	x.res.Traps = nil
	x.trapSeen = map[string]bool{}
	r, has := x.evalInst(nil, syn)
	if !has {
		return Value{}, structErr("word %d: OpSpecConstantOp %s gives no value", in.Pos, OpcodeName(op))
	}
	if len(x.res.Traps) != 0 {
		return Value{}, &xrt.Unsupported{What: "OpSpecConstantOp with undefined result: " + x.res.Traps[0].Detail}
	}
	return r, nil
}
