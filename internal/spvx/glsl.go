package spvx

import (
	"math"
	"math/bits"

	"verif/internal/xrt"
)

// glsl executes one GLSL.std.450 extended instruction.
func (x *exec) glsl(fr *frame, in *Inst) Value {
	a := in.Args
	num := a[1]
	ops := a[2:]
	if int(num) < len(x.covGLSL) {
		x.covGLSL[num]++
	} else {
		x.covOther[GLSLName(num)]++
	}
	name := GLSLName(num)
	need := func(n int) {
		if len(ops) < n {
			x.failf("%s needs %d operands", name, n)
		}
	}
	arg := func(i int) Value { return x.val(fr, ops[i]) }
	rt := x.resultType(in)
	st := rt.scalarOf()
	floatRes := func() fa {
		if st.Kind != KFloat {
			x.failf("%s with result type %v", name, rt)
		}
		return fa{st.Width}
	}
	checkFloatOps := func(f fa, n int) {
		need(n)
		for i := 0; i < n; i++ {
			t := x.operandScalarType(ops[i])
			if t.Kind != KFloat || t.Width != f.w {
				x.failf("%s operand %d has type %v", name, i, x.typeOfID(ops[i]))
			}
		}
	}
	intRes := func(n int) int {
		need(n)
		if st.Kind != KInt {
			x.failf("%s with result type %v", name, rt)
		}
		for i := 0; i < n; i++ {
			t := x.operandScalarType(ops[i])
			if t.Kind != KInt || t.Width != st.Width {
				x.failf("%s operand %d has type %v", name, i, x.typeOfID(ops[i]))
			}
		}
		return st.Width
	}
	// f1 maps a float64 function over the lanes, rounding once.
	f1 := func(g func(float64) float64) Value {
		f := floatRes()
		checkFloatOps(f, 1)
		return x.mapN(rt, func(v []Value) Value { return f.fn1(v[0], g) }, arg(0))
	}
	// dom notes an out-of-domain argument (result undefined per the
	// specification; the IEEE-natural value is still produced).
	dom := func(bad bool) {
		if bad {
			x.note(name)
		}
	}

	switch num {
	case glRound, glRoundEven:
		return f1(math.RoundToEven)
	case glTrunc:
		return f1(math.Trunc)
	case glFloor:
		return f1(math.Floor)
	case glCeil:
		return f1(math.Ceil)
	case glFAbs:
		f := floatRes()
		checkFloatOps(f, 1)
		return x.mapN(rt, func(v []Value) Value { return f.abs(v[0]) }, arg(0))
	case glFSign:
		return f1(func(v float64) float64 {
			switch {
			case v > 0:
				return 1
			case v < 0:
				return -1
			}
			return 0
		})
	case glFract:
		f := floatRes()
		checkFloatOps(f, 1)
		return x.mapN(rt, func(v []Value) Value { return f.sub(v[0], f.fn1(v[0], math.Floor)) }, arg(0))
	case glRadians:
		f := floatRes()
		checkFloatOps(f, 1)
		k := f.konst(math.Pi / 180)
		return x.mapN(rt, func(v []Value) Value { return f.mul(v[0], k) }, arg(0))
	case glDegrees:
		f := floatRes()
		checkFloatOps(f, 1)
		k := f.konst(180 / math.Pi)
		return x.mapN(rt, func(v []Value) Value { return f.mul(v[0], k) }, arg(0))
	case glSin:
		return f1(math.Sin)
	case glCos:
		return f1(math.Cos)
	case glTan:
		return f1(math.Tan)
	case glAsin:
		return f1(func(v float64) float64 { dom(math.Abs(v) > 1); return math.Asin(v) })
	case glAcos:
		return f1(func(v float64) float64 { dom(math.Abs(v) > 1); return math.Acos(v) })
	case glAtan:
		return f1(math.Atan)
	case glSinh:
		return f1(math.Sinh)
	case glCosh:
		return f1(math.Cosh)
	case glTanh:
		return f1(math.Tanh)
	case glAsinh:
		return f1(math.Asinh)
	case glAcosh:
		return f1(func(v float64) float64 { dom(v < 1); return math.Acosh(v) })
	case glAtanh:
		return f1(func(v float64) float64 { dom(math.Abs(v) >= 1); return math.Atanh(v) })
	case glExp:
		return f1(math.Exp)
	case glLog:
		return f1(func(v float64) float64 { dom(v <= 0); return math.Log(v) })
	case glExp2:
		return f1(math.Exp2)
	case glLog2:
		return f1(func(v float64) float64 { dom(v <= 0); return math.Log2(v) })
	case glSqrt:
		return f1(func(v float64) float64 { dom(v < 0); return math.Sqrt(v) })
	case glInverseSqrt:
		return f1(func(v float64) float64 { dom(v <= 0); return 1 / math.Sqrt(v) })
	case glAtan2:
		f := floatRes()
		checkFloatOps(f, 2)
		return x.mapN(rt, func(v []Value) Value {
			return f.fn2(v[0], v[1], func(y, xx float64) float64 { dom(y == 0 && xx == 0); return math.Atan2(y, xx) })
		}, arg(0), arg(1))
	case glPow:
		f := floatRes()
		checkFloatOps(f, 2)
		return x.mapN(rt, func(v []Value) Value {
			return f.fn2(v[0], v[1], func(b, e float64) float64 { dom(b < 0 || (b == 0 && e <= 0)); return math.Pow(b, e) })
		}, arg(0), arg(1))

	case glFMin, glFMax, glNMin, glNMax, glStep:
		f := floatRes()
		checkFloatOps(f, 2)
		return x.mapN(rt, func(v []Value) Value {
			p, q := f.dec(v[0].B), f.dec(v[1].B)
			switch num {
			case glFMin: // min(x,y) = y < x ? y : x
				if q < p {
					return v[1]
				}
				return v[0]
			case glFMax: // max(x,y) = x < y ? y : x
				if p < q {
					return v[1]
				}
				return v[0]
			case glNMin:
				return nmin(f, v[0], v[1])
			case glNMax:
				return nmax(f, v[0], v[1])
			}
			// Step(edge, x): 0.0 if x < edge, else 1.0
			if q < p {
				return f.konst(0)
			}
			return f.konst(1)
		}, arg(0), arg(1))
	case glFClamp, glNClamp:
		f := floatRes()
		checkFloatOps(f, 3)
		return x.mapN(rt, func(v []Value) Value {
			lo, hi := f.dec(v[1].B), f.dec(v[2].B)
			dom(lo > hi)
			if num == glNClamp {
				return nmin(f, nmax(f, v[0], v[1]), v[2])
			}
			r := v[0]
			if f.dec(r.B) < lo { // max(x, lo) = x < lo ? lo : x
				r = v[1]
			}
			if hi < f.dec(r.B) { // min(r, hi) = hi < r ? hi : r
				r = v[2]
			}
			return r
		}, arg(0), arg(1), arg(2))
	case glFMix:
		f := floatRes()
		checkFloatOps(f, 3)
		one := f.konst(1)
		return x.mapN(rt, func(v []Value) Value {
			// x*(1-a) + y*a
			return f.add(f.mul(v[0], f.sub(one, v[2])), f.mul(v[1], v[2]))
		}, arg(0), arg(1), arg(2))
	case glSmoothStep:
		f := floatRes()
		checkFloatOps(f, 3)
		zero, one, two, three := f.konst(0), f.konst(1), f.konst(2), f.konst(3)
		return x.mapN(rt, func(v []Value) Value {
			e0, e1, xx := v[0], v[1], v[2]
			dom(f.dec(e0.B) >= f.dec(e1.B))
			t := f.div(f.sub(xx, e0), f.sub(e1, e0))
			if f.dec(t.B) < 0 {
				t = zero
			} else if f.dec(t.B) > 1 {
				t = one
			}
			return f.mul(f.mul(t, t), f.sub(three, f.mul(two, t)))
		}, arg(0), arg(1), arg(2))
	case glFma:
		f := floatRes()
		checkFloatOps(f, 3)
		return x.mapN(rt, func(v []Value) Value { return f.fma(v[0], v[1], v[2]) }, arg(0), arg(1), arg(2))

	case glSAbs, glSSign:
		w := intRes(1)
		return x.mapN(rt, func(v []Value) Value {
			s := sext(v[0].B, w)
			if num == glSAbs {
				if s < 0 {
					s = -s
				}
				return scalar(uint64(s) & widthMask(w))
			}
			switch {
			case s > 0:
				return scalar(1)
			case s < 0:
				return scalar(widthMask(w))
			}
			return scalar(0)
		}, arg(0))
	case glUMin, glUMax, glSMin, glSMax:
		w := intRes(2)
		return x.mapN(rt, func(v []Value) Value {
			p, q := v[0].B, v[1].B
			var pick bool // pick q
			switch num {
			case glUMin:
				pick = q < p
			case glUMax:
				pick = q > p
			case glSMin:
				pick = sext(q, w) < sext(p, w)
			case glSMax:
				pick = sext(q, w) > sext(p, w)
			}
			if pick {
				return scalar(q)
			}
			return scalar(p)
		}, arg(0), arg(1))
	case glUClamp, glSClamp:
		w := intRes(3)
		return x.mapN(rt, func(v []Value) Value {
			if num == glUClamp {
				v0, lo, hi := v[0].B, v[1].B, v[2].B
				if lo > hi {
					x.trap(xrt.TrapOther, "GLSL.UClamp with minVal %d > maxVal %d (result undefined)", lo, hi)
				}
				if v0 < lo {
					v0 = lo
				}
				if v0 > hi {
					v0 = hi
				}
				return scalar(v0)
			}
			v0, lo, hi := sext(v[0].B, w), sext(v[1].B, w), sext(v[2].B, w)
			if lo > hi {
				x.trap(xrt.TrapOther, "GLSL.SClamp with minVal %d > maxVal %d (result undefined)", lo, hi)
			}
			if v0 < lo {
				v0 = lo
			}
			if v0 > hi {
				v0 = hi
			}
			return scalar(uint64(v0) & widthMask(w))
		}, arg(0), arg(1), arg(2))
	case glFindILsb, glFindSMsb, glFindUMsb:
		w := intRes(1)
		if w != 32 {
			x.unsupported("%s on %d-bit integers", name, w)
		}
		return x.mapN(rt, func(v []Value) Value {
			b := uint32(v[0].B)
			var r int32
			switch num {
			case glFindILsb:
				r = -1
				if b != 0 {
					r = int32(bits.TrailingZeros32(b))
				}
			case glFindUMsb:
				r = int32(31 - bits.LeadingZeros32(b)) // -1 for 0
			default:
				if int32(b) < 0 {
					b = ^b
				}
				r = int32(31 - bits.LeadingZeros32(b))
			}
			return scalar(uint64(uint32(r)))
		}, arg(0))

	case glModf, glFrexp:
		f := floatRes()
		need(2)
		checkFloatOps(f, 1)
		p := x.ptrOf(arg(1))
		var second Value
		var first Value
		if num == glModf {
			first, second = x.modfParts(f, rt, arg(0))
			if !sameShape(p.Ty, rt) {
				x.failf("GLSL.Modf whole-part pointer designates %v", p.Ty)
			}
		} else {
			et := p.Ty.scalarOf()
			if et.Kind != KInt || et.Width != 32 || x.lanes(p.Ty) != x.lanes(rt) {
				x.failf("GLSL.Frexp exponent pointer designates %v", p.Ty)
			}
			first, second = x.frexpParts(f, rt, p.Ty, arg(0))
		}
		x.store(p, second)
		return first
	case glModfStruct, glFrexpStruct:
		need(1)
		if rt.Kind != KStruct || len(rt.Members) != 2 {
			x.failf("%s result type %v", name, rt)
		}
		mt := rt.Members[0]
		ms := mt.scalarOf()
		if ms.Kind != KFloat {
			x.failf("%s result type %v", name, rt)
		}
		f := fa{ms.Width}
		ot := x.operandScalarType(ops[0])
		if ot.Kind != KFloat || ot.Width != f.w {
			x.failf("%s operand type %v", name, x.typeOfID(ops[0]))
		}
		if num == glModfStruct {
			fr, whole := x.modfParts(f, mt, arg(0))
			return comp([]Value{fr, whole})
		}
		et := rt.Members[1]
		if es := et.scalarOf(); es.Kind != KInt || es.Width != 32 {
			x.failf("GLSL.FrexpStruct exponent member %v", et)
		}
		sig, e := x.frexpParts(f, mt, et, arg(0))
		return comp([]Value{sig, e})
	case glLdexp:
		f := floatRes()
		need(2)
		checkFloatOps(f, 1)
		et := x.operandScalarType(ops[1])
		if et.Kind != KInt {
			x.failf("GLSL.Ldexp exponent type %v", x.typeOfID(ops[1]))
		}
		return x.mapN(rt, func(v []Value) Value {
			e := sext(v[1].B, et.Width)
			if e > 128 {
				dom(true)
			}
			if e > 100000 {
				e = 100000
			} else if e < -100000 {
				e = -100000
			}
			return f.val(math.Ldexp(f.dec(v[0].B), int(e)), false)
		}, arg(0), arg(1))

	case glPackSnorm4x8, glPackUnorm4x8, glPackSnorm2x16, glPackUnorm2x16, glPackHalf2x16:
		need(1)
		if rt.Kind != KInt || rt.Width != 32 {
			x.failf("%s result type %v", name, rt)
		}
		n, bitsPer := 4, 8
		if num != glPackSnorm4x8 && num != glPackUnorm4x8 {
			n, bitsPer = 2, 16
		}
		v := x.floatVec(arg(0), "operand")
		ot := x.operandScalarType(ops[0])
		if len(v) != n || ot.Kind != KFloat || ot.Width != 32 {
			x.failf("%s operand type %v", name, x.typeOfID(ops[0]))
		}
		f := fa{32}
		var out uint64
		poison := false
		for i, c := range v {
			poison = poison || c.P
			var field uint64
			if num == glPackHalf2x16 {
				field = uint64(f64ToF16(f.dec(c.B)))
			} else {
				field = packNorm(f, c, num == glPackSnorm4x8 || num == glPackSnorm2x16, bitsPer)
			}
			out |= field << uint(i*bitsPer)
		}
		return Value{K: vScalar, B: out, P: poison}
	case glUnpackSnorm4x8, glUnpackUnorm4x8, glUnpackSnorm2x16, glUnpackUnorm2x16, glUnpackHalf2x16:
		need(1)
		n, bitsPer := 4, 8
		if num != glUnpackSnorm4x8 && num != glUnpackUnorm4x8 {
			n, bitsPer = 2, 16
		}
		ot := x.typeOfID(ops[0])
		if rt.Kind != KVector || rt.Count != n || st.Kind != KFloat || st.Width != 32 || ot.Kind != KInt || ot.Width != 32 {
			x.failf("%s from %v to %v", name, ot, rt)
		}
		p := arg(0)
		if p.K != vScalar {
			x.failf("%s operand is not a scalar", name)
		}
		f := fa{32}
		e := make([]Value, n)
		for i := range e {
			field := p.B >> uint(i*bitsPer) & widthMask(bitsPer)
			var r Value
			switch num {
			case glUnpackHalf2x16:
				r = f.konst(f16ToF64(uint16(field)))
			case glUnpackUnorm4x8, glUnpackUnorm2x16:
				r = f.div(f.konst(float64(field)), f.konst(float64(widthMask(bitsPer))))
			default:
				r = f.div(f.konst(float64(sext(field, bitsPer))), f.konst(float64(widthMask(bitsPer-1))))
				if f.dec(r.B) < -1 {
					r = f.konst(-1)
				}
			}
			r.P = p.P
			e[i] = r
		}
		return comp(e)
	case glPackDouble2x32:
		need(1)
		v := x.floatVec(arg(0), "operand")
		if rt.Kind != KFloat || rt.Width != 64 || len(v) != 2 {
			x.failf("GLSL.PackDouble2x32 types")
		}
		return Value{K: vScalar, B: v[0].B&0xffffffff | v[1].B<<32, P: v[0].P || v[1].P}
	case glUnpackDouble2x32:
		need(1)
		p := arg(0)
		if p.K != vScalar || rt.Kind != KVector || rt.Count != 2 {
			x.failf("GLSL.UnpackDouble2x32 types")
		}
		return comp([]Value{{K: vScalar, B: p.B & 0xffffffff, P: p.P}, {K: vScalar, B: p.B >> 32, P: p.P}})

	case glLength:
		f := floatRes()
		checkFloatOps(f, 1)
		return x.length(f, arg(0))
	case glDistance:
		f := floatRes()
		checkFloatOps(f, 2)
		return x.length(f, x.vecSub(f, arg(0), arg(1)))
	case glNormalize:
		f := floatRes()
		checkFloatOps(f, 1)
		v := arg(0)
		l := x.length(f, v)
		return x.mapN(rt, func(c []Value) Value { return f.div(c[0], c[1]) }, v, x.splat(l, rt))
	case glCross:
		f := floatRes()
		checkFloatOps(f, 2)
		u, v := x.floatVec(arg(0), "operand 1"), x.floatVec(arg(1), "operand 2")
		if len(u) != 3 || len(v) != 3 {
			x.failf("GLSL.Cross needs 3-component vectors")
		}
		return comp([]Value{
			f.sub(f.mul(u[1], v[2]), f.mul(v[1], u[2])),
			f.sub(f.mul(u[2], v[0]), f.mul(v[2], u[0])),
			f.sub(f.mul(u[0], v[1]), f.mul(v[0], u[1])),
		})
	case glFaceForward:
		f := floatRes()
		checkFloatOps(f, 3)
		n, i, nref := arg(0), arg(1), arg(2)
		d := x.dotAny(f, nref, i)
		if d.P {
			return poisonLike(n)
		}
		if f.dec(d.B) < 0 {
			return n
		}
		return x.mapN(rt, func(c []Value) Value { return f.neg(c[0]) }, n)
	case glReflect:
		f := floatRes()
		checkFloatOps(f, 2)
		i, n := arg(0), arg(1)
		// I - 2 * dot(N, I) * N
		k := f.mul(f.konst(2), x.dotAny(f, n, i))
		return x.mapN(rt, func(c []Value) Value { return f.sub(c[0], f.mul(c[2], c[1])) }, i, n, x.splat(k, rt))
	case glRefract:
		f := floatRes()
		need(3)
		checkFloatOps(f, 2)
		i, n, eta := arg(0), arg(1), arg(2)
		et := x.typeOfID(ops[2])
		if eta.K != vScalar || et.Kind != KFloat {
			x.failf("GLSL.Refract eta is not a float scalar")
		}
		if et.Width != f.w {
			eta = Value{K: vScalar, B: f.enc(fa{et.Width}.dec(eta.B)), P: eta.P}
		}
		d := x.dotAny(f, n, i)
		one := f.konst(1)
		// k = 1 - eta*eta*(1 - dot(N,I)^2)
		k := f.sub(one, f.mul(f.mul(eta, eta), f.sub(one, f.mul(d, d))))
		if k.P {
			return poisonLike(i)
		}
		if f.dec(k.B) < 0 {
			return x.mapN(rt, func(c []Value) Value { return f.konst(0) }, i)
		}
		// eta*I - (eta*dot(N,I) + sqrt(k))*N
		s := f.add(f.mul(eta, d), f.sqrt(k))
		return x.mapN(rt, func(c []Value) Value { return f.sub(f.mul(c[2], c[0]), f.mul(c[3], c[1])) }, i, n, x.splat(eta, rt), x.splat(s, rt))

	case glDeterminant:
		f := floatRes()
		need(1)
		m := x.matrixCols(arg(0), "operand")
		if len(m) == 0 || len(m) != len(m[0]) {
			x.failf("GLSL.Determinant of a non-square matrix")
		}
		return det(f, m)
	case glMatrixInverse:
		f := floatRes()
		need(1)
		m := x.matrixCols(arg(0), "operand")
		n := len(m)
		if n == 0 || n != len(m[0]) {
			x.failf("GLSL.MatrixInverse of a non-square matrix")
		}
		d := det(f, m)
		out := make([]Value, n)
		for i := 0; i < n; i++ {
			e := make([]Value, n)
			for j := 0; j < n; j++ {
				// inverse[i][j] = cofactor(j,i) / det
				c := det(f, minor(m, j, i))
				if (i+j)%2 == 1 {
					c = f.neg(c)
				}
				e[j] = f.div(c, d)
			}
			out[i] = comp(e)
		}
		return comp(out)
	}
	x.unsupported("%s", name)
	return Value{}
}

func nmin(f fa, a, b Value) Value {
	p, q := f.dec(a.B), f.dec(b.B)
	switch {
	case p != p:
		return b
	case q != q:
		return a
	case q < p:
		return b
	}
	return a
}

func nmax(f fa, a, b Value) Value {
	p, q := f.dec(a.B), f.dec(b.B)
	switch {
	case p != p:
		return b
	case q != q:
		return a
	case p < q:
		return b
	}
	return a
}

// packNorm converts one float to an n-bit snorm/unorm field:
// round(clamp(c, lo, 1) * scale) with round-half-to-even.
func packNorm(f fa, c Value, signed bool, n int) uint64 {
	v := f.dec(c.B)
	if v != v {
		return 0
	}
	lo, scale := 0.0, float64(widthMask(n))
	if signed {
		lo, scale = -1.0, float64(widthMask(n-1))
	}
	if v < lo {
		v = lo
	}
	if v > 1 {
		v = 1
	}
	m := f.mul(f.konst(v), f.konst(scale))
	r := math.RoundToEven(f.dec(m.B))
	return uint64(int64(r)) & widthMask(n)
}

func (x *exec) modfParts(f fa, t *Type, v Value) (fract, whole Value) {
	whole = x.mapN(t, func(c []Value) Value { return f.fn1(c[0], math.Trunc) }, v)
	fract = x.mapN(t, func(c []Value) Value {
		if f.isInf(c[0]) {
			// x - trunc(x) would be NaN; the fractional part of an infinity is a zero of the same sign
			return Value{K: vScalar, B: c[0].B & f.signBit()}
		}
		return f.sub(c[0], c[1])
	}, v, whole)
	return fract, whole
}

func (x *exec) frexpParts(f fa, t, et *Type, v Value) (sig, exp Value) {
	sig = x.mapN(t, func(c []Value) Value {
		m, _ := math.Frexp(f.dec(c[0].B))
		return f.val(m, false)
	}, v)
	exp = x.mapN(et, func(c []Value) Value {
		d := f.dec(c[0].B)
		if d != d || math.IsInf(d, 0) {
			x.note("GLSL.Frexp")
			return scalar(0)
		}
		_, e := math.Frexp(d)
		return scalar(uint64(uint32(int32(e))))
	}, v)
	return sig, exp
}

// length is sqrt(x0*x0 + x1*x1 + ...) (|x| for a scalar).
func (x *exec) length(f fa, v Value) Value {
	if v.K == vScalar {
		return f.abs(v)
	}
	e := x.floatVec(v, "operand")
	if len(e) == 0 {
		x.failf("empty vector")
	}
	return f.sqrt(dotF(f, e, e))
}

func (x *exec) vecSub(f fa, a, b Value) Value {
	if a.K == vScalar && b.K == vScalar {
		return f.sub(a, b)
	}
	u, v := x.floatVec(a, "operand 1"), x.floatVec(b, "operand 2")
	if len(u) != len(v) {
		x.failf("vectors of different size")
	}
	e := make([]Value, len(u))
	for i := range e {
		e[i] = f.sub(u[i], v[i])
	}
	return comp(e)
}

func (x *exec) dotAny(f fa, a, b Value) Value {
	if a.K == vScalar && b.K == vScalar {
		return f.mul(a, b)
	}
	u, v := x.floatVec(a, "operand 1"), x.floatVec(b, "operand 2")
	if len(u) != len(v) || len(u) == 0 {
		x.failf("vectors of different size")
	}
	return dotF(f, u, v)
}

// minor removes row i and column j of the square array m[i][j].
func minor(m [][]Value, i, j int) [][]Value {
	out := make([][]Value, 0, len(m)-1)
	for r := range m {
		if r == i {
			continue
		}
		row := make([]Value, 0, len(m)-1)
		for c := range m[r] {
			if c != j {
				row = append(row, m[r][c])
			}
		}
		out = append(out, row)
	}
	return out
}

// det is the cofactor expansion along the first index, accumulated left to
// right, every product and sum rounded at the float width.
func det(f fa, m [][]Value) Value {
	switch len(m) {
	case 1:
		return m[0][0]
	case 2:
		return f.sub(f.mul(m[0][0], m[1][1]), f.mul(m[0][1], m[1][0]))
	}
	var acc Value
	for j := range m[0] {
		t := f.mul(m[0][j], det(f, minor(m, 0, j)))
		switch {
		case j == 0:
			acc = t
		case j%2 == 1:
			acc = f.sub(acc, t)
		default:
			acc = f.add(acc, t)
		}
	}
	return acc
}
