package spvx

import (
	"errors"
	"fmt"
	"strings"

	"verif/internal/xrt"
)

type locKind uint8

const (
	locNone locKind = iota
	locGlobal
	locLocal
	locVar
)

type idLoc struct {
	kind locKind
	fn   int32
	idx  int32
}

type gvKind uint8

const (
	gvBuffer gvKind = iota
	gvWorkgroup
	gvPrivate
	gvInput
	gvUnsupported
)

type gvar struct {
	id         uint32
	idx        int
	ptrTy      *Type
	storage    uint32
	init       uint32
	kind       gvKind
	builtin    int
	set        uint32
	binding    uint32
	hasSet     bool
	hasBinding bool
	readOnly   bool
	unsup      string
}

type function struct {
	idx     int
	id      uint32
	name    string
	retTy   *Type
	params  []uint32
	insts   []*Inst
	labels  map[uint32]int
	nslots  int
	callees []uint32
	barrier bool
	vars    []int // indices of global variables referenced directly
}

type prepared struct {
	m        *Module
	err      error
	n        int // size of the id space
	types    map[uint32]*Type
	tyOf     []*Type // result id -> its result type
	globals  []Value // result id -> module-scope value (constants)
	loc      []idLoc
	funcs    []*function
	funcByID map[uint32]*function
	gvars    []*gvar
	gvarByID map[uint32]*gvar
	glslSets map[uint32]bool
	nopSets  map[uint32]bool // NonSemantic.* instruction sets
	badConst map[uint32]error
}

func (m *Module) prepared() *prepared {
	m.prepOnce.Do(func() {
		p := &prepared{m: m}
		func() {
			defer func() {
				if r := recover(); r != nil {
					p.err = panicToErr(r)
				}
			}()
			p.err = p.build()
		}()
		m.prep = p
	})
	return m.prep
}

func structErr(format string, a ...any) error {
	return fmt.Errorf("spvx: "+format, a...)
}

func (p *prepared) typeByID(id uint32) *Type {
	if t := p.types[id]; t != nil {
		return t
	}
	return &Type{ID: id, Kind: KOpaque, Opaque: fmt.Sprintf("unresolved-type-%%%d", id)}
}

func (p *prepared) build() error {
	m := p.m
	maxID := uint32(0)
	for _, in := range m.Insts {
		if in.Result > maxID {
			maxID = in.Result
		}
	}
	// SPIR-V requires every id to be below the header's bound; holding to it
	// also keeps the id-indexed tables small for malformed modules.
	if maxID >= m.Bound {
		return structErr("result id %%%d is not below the module's bound %d", maxID, m.Bound)
	}
	if maxID > 1<<22 {
		return &xrt.Unsupported{What: fmt.Sprintf("module with result ids up to %d", maxID)}
	}
	p.n = int(maxID) + 1
	p.types = map[uint32]*Type{}
	p.tyOf = make([]*Type, p.n)
	p.globals = make([]Value, p.n)
	p.loc = make([]idLoc, p.n)
	p.funcByID = map[uint32]*function{}
	p.gvarByID = map[uint32]*gvar{}
	p.glslSets = map[uint32]bool{}
	p.nopSets = map[uint32]bool{}
	p.badConst = map[uint32]error{}

	for id, name := range m.ExtImports {
		if name == "GLSL.std.450" {
			p.glslSets[id] = true
		} else if strings.HasPrefix(name, "NonSemantic.") {
			p.nopSets[id] = true
		}
	}

	cx := newConstExec(p)
	var cur *function
	for _, in := range m.Insts {
		if cur != nil {
			// inside a function
			switch in.Op {
			case OpFunctionEnd:
				cur = nil
				continue
			case OpFunction:
				return structErr("word %d: OpFunction inside a function", in.Pos)
			case OpFunctionParameter:
				if len(cur.insts) != 0 {
					return structErr("word %d: OpFunctionParameter after the first block", in.Pos)
				}
				cur.params = append(cur.params, in.Result)
			default:
				if in.Op == OpLabel {
					if _, dup := cur.labels[in.Result]; dup {
						return structErr("word %d: duplicate label %%%d", in.Pos, in.Result)
					}
					cur.labels[in.Result] = len(cur.insts)
				} else if len(cur.insts) == 0 {
					if in.Op == OpLine || in.Op == OpNoLine {
						continue
					}
					return structErr("word %d: %s before the first OpLabel of function %%%d", in.Pos, in.Name(), cur.id)
				}
				cur.insts = append(cur.insts, in)
				if in.Op == OpFunctionCall && len(in.Args) >= 1 {
					cur.callees = append(cur.callees, in.Args[0])
				}
				if in.Op == OpControlBarrier {
					cur.barrier = true
				}
			}
			if in.Result != 0 && in.Op != OpLabel {
				if p.loc[in.Result].kind != locNone {
					return structErr("word %d: id %%%d defined twice", in.Pos, in.Result)
				}
				p.loc[in.Result] = idLoc{kind: locLocal, fn: int32(cur.idx), idx: int32(cur.nslots)}
				cur.nslots++
				if in.Type != 0 {
					p.tyOf[in.Result] = p.typeByID(in.Type)
				}
			}
			continue
		}
		// module scope
		if in.Result != 0 && in.Type != 0 && in.Op != OpFunction {
			p.tyOf[in.Result] = p.typeByID(in.Type)
		}
		switch in.Op {
		case OpTypeVoid, OpTypeBool, OpTypeInt, OpTypeFloat, OpTypeVector, OpTypeMatrix, OpTypeArray,
			OpTypeRuntimeArray, OpTypeStruct, OpTypePointer, OpTypeFunction:
			t, err := p.buildType(in)
			if err != nil {
				return err
			}
			p.types[in.Result] = t
		case OpTypeForwardPointer:
			// physical pointers only; nothing to do for Logical addressing
		case OpConstantTrue, OpSpecConstantTrue:
			p.setGlobal(in, scalar(1))
		case OpConstantFalse, OpSpecConstantFalse:
			p.setGlobal(in, scalar(0))
		case OpConstant, OpSpecConstant:
			t := p.typeByID(in.Type)
			if !t.isNumeric() || len(in.Args) < 1 {
				return structErr("word %d: %s with non-numeric type or no value", in.Pos, in.Name())
			}
			b := uint64(in.Args[0])
			if t.Width > 32 {
				if len(in.Args) < 2 {
					return structErr("word %d: 64-bit constant with one word", in.Pos)
				}
				b |= uint64(in.Args[1]) << 32
			}
			p.setGlobal(in, scalar(b&widthMask(t.Width)))
		case OpConstantComposite, OpSpecConstantComposite:
			e := make([]Value, len(in.Args))
			ok := true
			for i, id := range in.Args {
				if int(id) >= p.n || p.loc[id].kind != locGlobal {
					ok = false
					break
				}
				e[i] = p.globals[id]
			}
			if !ok {
				p.badConst[in.Result] = structErr("word %d: constant composite uses an id that is not a prior constant", in.Pos)
				p.setGlobal(in, Value{K: vOpaque})
				continue
			}
			p.setGlobal(in, comp(e))
		case OpConstantNull:
			v, err := newValue(p.typeByID(in.Type), false)
			if err != nil {
				p.badConst[in.Result] = err
				v = Value{K: vOpaque}
			}
			p.setGlobal(in, v)
		case OpUndef:
			v, err := newValue(p.typeByID(in.Type), true)
			if err != nil {
				p.badConst[in.Result] = err
				v = Value{K: vOpaque}
			}
			p.setGlobal(in, v)
		case OpSpecConstantOp:
			v, err := cx.specConstantOp(in)
			if err != nil {
				p.badConst[in.Result] = err
				v = Value{K: vOpaque}
			}
			p.setGlobal(in, v)
		case OpConstantSampler:
			p.setGlobal(in, Value{K: vOpaque})
		case OpVariable:
			if err := p.addGlobalVar(in); err != nil {
				return err
			}
		case OpFunction:
			if len(in.Args) < 2 {
				return structErr("word %d: malformed OpFunction", in.Pos)
			}
			f := &function{idx: len(p.funcs), id: in.Result, name: m.Names[in.Result], retTy: p.typeByID(in.Type), labels: map[uint32]int{}}
			if f.name == "" {
				f.name = fmt.Sprintf("%%%d", in.Result)
			}
			p.funcs = append(p.funcs, f)
			p.funcByID[f.id] = f
			cur = f
		case OpFunctionEnd:
			return structErr("word %d: OpFunctionEnd outside a function", in.Pos)
		default:
			if in.Result != 0 && in.Type == 0 && in.Known && strings.HasPrefix(opTable[in.Op].name, "Type") {
				p.types[in.Result] = &Type{ID: in.Result, Kind: KOpaque, Opaque: in.Name()}
			}
		}
	}
	if cur != nil {
		return structErr("function %%%d has no OpFunctionEnd", cur.id)
	}
	// which global variables does each function reference directly?
	for _, f := range p.funcs {
		seen := map[int]bool{}
		for _, in := range f.insts {
			for _, id := range pointerOperands(in) {
				if g := p.gvarByID[id]; g != nil && !seen[g.idx] {
					seen[g.idx] = true
					f.vars = append(f.vars, g.idx)
				}
			}
		}
	}
	return nil
}

// pointerOperands returns the operand ids of in that may name a variable.
// Only opcodes whose listed operands are all ids are scanned wholesale, so a
// literal can never be mistaken for a variable id.
func pointerOperands(in *Inst) []uint32 {
	a := in.Args
	switch in.Op {
	case OpLoad, OpArrayLength, OpImageTexelPointer, OpCopyObject, OpCopyLogical:
		if len(a) >= 1 {
			return a[:1]
		}
	case OpStore, OpCopyMemory:
		if len(a) >= 2 {
			return a[:2]
		}
	case OpAccessChain, OpInBoundsAccessChain, OpPtrAccessChain, OpInBoundsPtrAccessChain, OpSelect, OpPhi:
		return a
	case OpFunctionCall:
		if len(a) >= 1 {
			return a[1:]
		}
	case OpAtomicLoad, OpAtomicStore, OpAtomicExchange, OpAtomicCompareExchange, OpAtomicCompareExchangeWk,
		OpAtomicIIncrement, OpAtomicIDecrement, OpAtomicIAdd, OpAtomicISub, OpAtomicSMin, OpAtomicUMin,
		OpAtomicSMax, OpAtomicUMax, OpAtomicAnd, OpAtomicOr, OpAtomicXor:
		if len(a) >= 1 {
			return a[:1]
		}
	case OpExtInst:
		if len(a) >= 2 {
			return a[2:]
		}
	default:
		// image / ray-query / other instructions: first operand is the usual
		// place of a pointer or loaded handle; variables reach them through
		// OpLoad, which is covered above.
	}
	return nil
}

func (p *prepared) setGlobal(in *Inst, v Value) {
	if in.Result == 0 || int(in.Result) >= p.n {
		return
	}
	if p.loc[in.Result].kind != locNone {
		return // first definition wins; a validator reports the duplicate
	}
	p.loc[in.Result] = idLoc{kind: locGlobal}
	p.globals[in.Result] = v
}

func widthMask(w int) uint64 {
	if w >= 64 {
		return ^uint64(0)
	}
	return (uint64(1) << uint(w)) - 1
}

func (p *prepared) buildType(in *Inst) (*Type, error) {
	m := p.m
	a := in.Args
	t := &Type{ID: in.Result}
	need := func(n int) error {
		if len(a) < n {
			return structErr("word %d: %s needs %d operands", in.Pos, in.Name(), n)
		}
		return nil
	}
	switch in.Op {
	case OpTypeVoid:
		t.Kind = KVoid
	case OpTypeBool:
		t.Kind = KBool
		t.Width = 1
	case OpTypeInt:
		if err := need(2); err != nil {
			return nil, err
		}
		t.Kind, t.Width, t.Signed = KInt, int(a[0]), a[1] != 0
		if t.Width != 8 && t.Width != 16 && t.Width != 32 && t.Width != 64 {
			return nil, structErr("word %d: OpTypeInt width %d", in.Pos, a[0])
		}
	case OpTypeFloat:
		if err := need(1); err != nil {
			return nil, err
		}
		t.Kind, t.Width = KFloat, int(a[0])
		if len(a) > 1 {
			// FP encoding operand (bfloat16, fp8): not IEEE
			return &Type{ID: in.Result, Kind: KOpaque, Opaque: "OpTypeFloat with FP encoding"}, nil
		}
		if t.Width != 16 && t.Width != 32 && t.Width != 64 {
			return nil, structErr("word %d: OpTypeFloat width %d", in.Pos, a[0])
		}
	case OpTypeVector:
		if err := need(2); err != nil {
			return nil, err
		}
		t.Kind, t.Elem, t.Count = KVector, p.typeByID(a[0]), int(a[1])
		if !t.Elem.isScalar() || t.Count < 2 || t.Count > 16 {
			return nil, structErr("word %d: OpTypeVector of %v x %d", in.Pos, t.Elem, t.Count)
		}
	case OpTypeMatrix:
		if err := need(2); err != nil {
			return nil, err
		}
		t.Kind, t.Elem, t.Count = KMatrix, p.typeByID(a[0]), int(a[1])
		if t.Elem.Kind != KVector || t.Elem.Elem.Kind != KFloat || t.Count < 2 || t.Count > 4 {
			return nil, structErr("word %d: OpTypeMatrix of %v x %d", in.Pos, t.Elem, t.Count)
		}
	case OpTypeArray:
		if err := need(2); err != nil {
			return nil, err
		}
		t.Kind, t.Elem = KArray, p.typeByID(a[0])
		lid := a[1]
		if int(lid) >= p.n || p.loc[lid].kind != locGlobal || p.globals[lid].K != vScalar || p.tyOf[lid] == nil || p.tyOf[lid].Kind != KInt {
			return nil, structErr("word %d: OpTypeArray length %%%d is not an integer constant", in.Pos, lid)
		}
		n := p.globals[lid].B
		if n == 0 || n > 1<<31 {
			return nil, structErr("word %d: OpTypeArray length %d", in.Pos, n)
		}
		t.Count = int(n)
		if d, ok := m.Deco(in.Result, decArrayStride); ok && len(d.Args) == 1 {
			t.ArrayStride = int(d.Args[0])
		}
	case OpTypeRuntimeArray:
		if err := need(1); err != nil {
			return nil, err
		}
		t.Kind, t.Elem = KRuntimeArray, p.typeByID(a[0])
		if d, ok := m.Deco(in.Result, decArrayStride); ok && len(d.Args) == 1 {
			t.ArrayStride = int(d.Args[0])
		}
	case OpTypeStruct:
		t.Kind = KStruct
		for i, id := range a {
			t.Members = append(t.Members, p.typeByID(id))
			off, ms, rm := -1, 0, false
			for _, d := range m.MemberDecos[in.Result][uint32(i)] {
				switch d.Kind {
				case decOffset:
					if len(d.Args) == 1 {
						off = int(d.Args[0])
					}
				case decMatrixStride:
					if len(d.Args) == 1 {
						ms = int(d.Args[0])
					}
				case decRowMajor:
					rm = true
				}
			}
			t.Offsets = append(t.Offsets, off)
			t.MatStride = append(t.MatStride, ms)
			t.RowMajor = append(t.RowMajor, rm)
		}
		_, t.Block = m.Deco(in.Result, decBlock)
		_, t.BufferBlock = m.Deco(in.Result, decBufferBlock)
	case OpTypePointer:
		if err := need(2); err != nil {
			return nil, err
		}
		t.Kind, t.Storage, t.Elem = KPointer, a[0], p.typeByID(a[1])
	case OpTypeFunction:
		t.Kind = KFunction
	}
	return t, nil
}

func (p *prepared) addGlobalVar(in *Inst) error {
	m := p.m
	if len(in.Args) < 1 {
		return structErr("word %d: malformed OpVariable", in.Pos)
	}
	if p.loc[in.Result].kind != locNone {
		return structErr("word %d: id %%%d defined twice", in.Pos, in.Result)
	}
	g := &gvar{id: in.Result, idx: len(p.gvars), ptrTy: p.typeByID(in.Type), storage: in.Args[0], builtin: -1}
	if len(in.Args) >= 2 {
		g.init = in.Args[1]
	}
	if d, ok := m.Deco(g.id, decDescriptorSet); ok && len(d.Args) == 1 {
		g.set, g.hasSet = d.Args[0], true
	}
	if d, ok := m.Deco(g.id, decBinding); ok && len(d.Args) == 1 {
		g.binding, g.hasBinding = d.Args[0], true
	}
	if d, ok := m.Deco(g.id, decBuiltIn); ok && len(d.Args) == 1 {
		g.builtin = int(d.Args[0])
	}
	unsup := func(s string) { g.kind, g.unsup = gvUnsupported, s }
	switch {
	case g.ptrTy.Kind != KPointer:
		unsup(fmt.Sprintf("variable %%%d whose type is not a pointer type", g.id))
	case g.storage == scStorageBuffer || g.storage == scUniform:
		pt := g.ptrTy.Elem
		switch {
		case pt.Kind != KStruct:
			unsup(fmt.Sprintf("buffer variable %%%d of non-struct type %v (binding arrays are not supported)", g.id, pt))
		case g.storage == scUniform && pt.BufferBlock:
			g.kind = gvBuffer
		case g.storage == scUniform:
			g.kind, g.readOnly = gvBuffer, true
		default:
			g.kind = gvBuffer
		}
	case g.storage == scWorkgroup:
		g.kind = gvWorkgroup
	case g.storage == scPrivate:
		g.kind = gvPrivate
	case g.storage == scInput:
		g.kind = gvInput
	case g.storage == scPushConstant:
		unsup("push constants")
	case g.storage == scUniformConstant:
		unsup(fmt.Sprintf("UniformConstant variable %%%d of type %v", g.id, g.ptrTy.Elem))
	case g.storage == scOutput:
		unsup("Output variable in a compute entry point")
	default:
		unsup(fmt.Sprintf("variable in storage class %d", g.storage))
	}
	p.gvars = append(p.gvars, g)
	p.gvarByID[g.id] = g
	p.loc[g.id] = idLoc{kind: locVar, idx: int32(g.idx)}
	return nil
}

// callTree returns the functions reachable from root (root first) or an error
// for a call to an unknown function.
func (p *prepared) callTree(root *function) ([]*function, error) {
	seen := map[uint32]bool{root.id: true}
	order := []*function{root}
	for i := 0; i < len(order); i++ {
		for _, c := range order[i].callees {
			if seen[c] {
				continue
			}
			f := p.funcByID[c]
			if f == nil {
				return nil, structErr("call of %%%d which is not a function", c)
			}
			seen[c] = true
			order = append(order, f)
		}
	}
	return order, nil
}

type runErr struct{ err error }

func fail(format string, a ...any) {
	panic(runErr{structErr(format, a...)})
}

func panicToErr(r any) error {
	switch e := r.(type) {
	case runErr:
		return e.err
	case error:
		var u *xrt.Unsupported
		if errors.As(e, &u) {
			return e
		}
		return fmt.Errorf("spvx: internal error: %v", e)
	}
	return fmt.Errorf("spvx: internal error: %v", r)
}
