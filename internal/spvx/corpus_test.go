package spvx

import (
	"errors"
	"os"
	"path/filepath"
	"sort"
	"strings"
	"testing"

	"github.com/gogpu/naga"
	"github.com/gogpu/naga/spirv"

	"verif/internal/xrt"
)

const corpusDir = "/repo/snapshot/testdata/in"

var corpusVersions = []spirv.Version{spirv.Version1_0, spirv.Version1_3, spirv.Version1_6}

// compileWGSL returns naga's SPIR-V for src, or an error.
func compileWGSL(src string, ver spirv.Version) (bin []byte, err error) {
	defer func() {
		if r := recover(); r != nil {
			err = errors.New("naga panicked")
		}
	}()
	ast, err := naga.Parse(src)
	if err != nil {
		return nil, err
	}
	mod, err := naga.LowerWithSource(ast, src)
	if err != nil {
		return nil, err
	}
	return naga.GenerateSPIRV(mod, spirv.Options{Version: ver})
}

func corpusFiles(t *testing.T) []string {
	files, err := filepath.Glob(filepath.Join(corpusDir, "*.wgsl"))
	if err != nil || len(files) == 0 {
		t.Skipf("corpus not found in %s", corpusDir)
	}
	sort.Strings(files)
	return files
}

// Calibration 1: every corpus shader naga can compile to SPIR-V decodes
// without error, at versions 1.0, 1.3 and 1.6, and every opcode in it is known
// to the reader's table.
func TestCorpusParse(t *testing.T) {
	compiled, parsed := 0, 0
	unknown := map[string]int{}
	for _, f := range corpusFiles(t) {
		src, err := os.ReadFile(f)
		if err != nil {
			t.Fatal(err)
		}
		for _, ver := range corpusVersions {
			bin, err := compileWGSL(string(src), ver)
			if err != nil {
				continue
			}
			compiled++
			m, err := Parse(bin)
			if err != nil {
				t.Errorf("%s @%v: %v", filepath.Base(f), ver, err)
				continue
			}
			parsed++
			if m.Version != [2]int{int(ver.Major), int(ver.Minor)} {
				// naga may raise the version; only a lower one would be odd
				if m.Version[0] != 1 || m.Version[1] > 6 {
					t.Errorf("%s @%v: header version %v", filepath.Base(f), ver, m.Version)
				}
			}
			if int(m.Bound) <= 0 {
				t.Errorf("%s: bound %d", filepath.Base(f), m.Bound)
			}
			for _, in := range m.Insts {
				if !in.Known {
					unknown[in.Name()]++
				}
				if in.Result != 0 && in.Result >= m.Bound {
					t.Errorf("%s @%v: result id %%%d >= bound %d (%s)", filepath.Base(f), ver, in.Result, m.Bound, in.Name())
				}
			}
			if p := m.prepared(); p.err != nil {
				t.Errorf("%s @%v: prepare: %v", filepath.Base(f), ver, p.err)
			}
		}
	}
	t.Logf("compiled %d module/version pairs, parsed %d", compiled, parsed)
	if compiled < 300 {
		t.Errorf("only %d corpus compilations succeeded; expected most of 172x3", compiled)
	}
	for k, n := range unknown {
		t.Errorf("opcode %s (x%d) missing from the reader's table", k, n)
	}
}

// Calibration 3: run every corpus compute entry point whose resources are only
// buffers with zero-filled 256-byte buffers, TrapMode off. No panic, no error
// other than Unsupported.
func TestCorpusRun(t *testing.T) {
	ran, unsupported, ok := 0, 0, 0
	cov := xrt.Coverage{}
	reasons := map[string]int{}
	for _, f := range corpusFiles(t) {
		src, err := os.ReadFile(f)
		if err != nil {
			t.Fatal(err)
		}
		for _, ver := range corpusVersions {
			bin, err := compileWGSL(string(src), ver)
			if err != nil {
				continue
			}
			m, err := Parse(bin)
			if err != nil {
				continue // reported by TestCorpusParse
			}
			p := m.prepared()
			if p.err != nil {
				continue
			}
			for _, ep := range m.EntryPoints() {
				if ep.Model != modelGLCompute {
					continue
				}
				bufs := xrt.Buffers{}
				for _, g := range p.gvars {
					if g.kind == gvBuffer && g.hasSet && g.hasBinding {
						bufs[xrt.Slot{A: g.set, B: g.binding}] = make([]byte, 256)
					}
				}
				for _, trapMode := range []bool{false, true} {
					res, err := Run(m, ep.Name, bufs.Clone(), xrt.Options{TrapMode: trapMode, MaxSteps: 200_000})
					if trapMode {
						continue // only exercised for robustness
					}
					ran++
					cov.Merge(res.Cov)
					var u *xrt.Unsupported
					switch {
					case err == nil:
						ok++
					case errors.As(err, &u):
						unsupported++
						reasons[u.What]++
					default:
						t.Errorf("%s @%v entry %q: %v", filepath.Base(f), ver, ep.Name, err)
					}
					if len(res.Traps) != 0 {
						t.Errorf("%s @%v entry %q: traps recorded with TrapMode off", filepath.Base(f), ver, ep.Name)
					}
				}
			}
		}
	}
	t.Logf("ran %d compute entry points: %d completed, %d unsupported", ran, ok, unsupported)
	var rs []string
	for k, n := range reasons {
		rs = append(rs, k+" x"+itoa(n))
	}
	sort.Strings(rs)
	t.Logf("unsupported reasons: %s", strings.Join(rs, "; "))
	t.Logf("distinct executed opcodes: %d", len(cov))
	if ok < 50 {
		t.Errorf("only %d entry points completed", ok)
	}
}

func itoa(n int) string {
	if n == 0 {
		return "0"
	}
	var b []byte
	for n > 0 {
		b = append([]byte{byte('0' + n%10)}, b...)
		n /= 10
	}
	return string(b)
}
