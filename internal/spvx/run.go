package spvx

import (
	"fmt"

	"verif/internal/xrt"
)

// Run executes the GLCompute entry point `entry` for every invocation of every
// workgroup of opt.Dispatch. Buffers are addressed by
// xrt.Slot{Kind: "", A: DescriptorSet, B: Binding} and mutated in place.
//
// The returned error is *xrt.Unsupported (inconclusive) or a decode /
// structure error; undefined behaviour of the module itself is reported in
// Result.Traps (only when opt.TrapMode is set). The Result is meaningful even
// when an error is returned (it covers the execution up to the error).
func Run(m *Module, entry string, bufs xrt.Buffers, opt xrt.Options) (res xrt.Result, err error) {
	res = xrt.Result{Cov: xrt.Coverage{}}
	if m == nil {
		return res, structErr("nil module")
	}
	var x *exec
	defer func() {
		if r := recover(); r != nil {
			err = panicToErr(r)
		}
		if x != nil {
			x.flushCoverage()
		}
	}()
	p := m.prepared()
	if p.err != nil {
		return res, p.err
	}
	var ep *entryInfo
	for i := range m.entries {
		if m.entries[i].Name == entry && m.entries[i].Model == modelGLCompute {
			ep = &m.entries[i]
			break
		}
	}
	if ep == nil {
		for i := range m.entries {
			if m.entries[i].Name == entry {
				return res, structErr("entry point %q is not a GLCompute entry point (execution model %d)", entry, m.entries[i].Model)
			}
		}
		return res, structErr("no entry point named %q", entry)
	}
	root := p.funcByID[ep.fn]
	if root == nil {
		return res, structErr("entry point %q names %%%d which is not a function", entry, ep.fn)
	}
	if len(root.params) != 0 {
		return res, structErr("entry point function %q has parameters", entry)
	}
	x = &exec{p: p, trapMode: opt.TrapMode, res: &res, budget: opt.StepBudget(), covOther: map[string]int{}, trapSeen: map[string]bool{}}

	local, err := x.localSize(ep)
	if err != nil {
		return res, err
	}
	tree, err := p.callTree(root)
	if err != nil {
		return res, err
	}
	usesBarrier := false
	used := map[int]bool{}
	for _, f := range tree {
		usesBarrier = usesBarrier || f.barrier
		for _, gi := range f.vars {
			used[gi] = true
		}
	}
	// shared (per Run) buffer pointers
	shared := make([]Value, len(p.gvars))
	for _, g := range p.gvars {
		if !used[g.idx] {
			continue
		}
		switch g.kind {
		case gvUnsupported:
			return res, &xrt.Unsupported{What: g.unsup}
		case gvBuffer:
			if !g.hasSet || !g.hasBinding {
				return res, structErr("buffer variable %%%d lacks DescriptorSet/Binding decorations", g.id)
			}
			slot := xrt.Slot{A: g.set, B: g.binding}
			data, ok := bufs[slot]
			if !ok {
				return res, structErr("no buffer bound for variable %%%d at %v", g.id, slot)
			}
			shared[g.idx] = Value{K: vPtr, Ptr: &Pointer{
				Ty: g.ptrTy.Elem, Storage: g.storage, Var: g.id,
				Buf: &bufObj{data: data, slot: slot, readOnly: g.readOnly, varID: g.id},
			}}
		case gvInput:
			if !isSupportedBuiltin(g.builtin) {
				return res, &xrt.Unsupported{What: fmt.Sprintf("Input variable %%%d with BuiltIn %d", g.id, g.builtin)}
			}
		}
	}

	groups := opt.Dispatch.Groups()
	nInv := int(local[0]) * int(local[1]) * int(local[2])
	if nInv <= 0 || nInv > 1<<16 {
		return res, &xrt.Unsupported{What: fmt.Sprintf("workgroup of %d invocations", nInv)}
	}
	for gz := uint32(0); gz < groups[2]; gz++ {
		for gy := uint32(0); gy < groups[1]; gy++ {
			for gx := uint32(0); gx < groups[0]; gx++ {
				x.runWorkgroup(root, [3]uint32{gx, gy, gz}, groups, local, shared, used, usesBarrier)
			}
		}
	}
	return res, nil
}

func isSupportedBuiltin(b int) bool {
	switch b {
	case biNumWorkgroups, biWorkgroupSize, biWorkgroupID, biLocalInvocationID, biGlobalInvocationID, biLocalInvocationIndex:
		return true
	}
	return false
}

// localSize resolves the workgroup size of an entry point.
func (x *exec) localSize(ep *entryInfo) ([3]uint32, error) {
	p := x.p
	constU32 := func(id uint32) (uint32, error) {
		if int(id) >= p.n || p.loc[id].kind != locGlobal || p.globals[id].K != vScalar {
			return 0, structErr("workgroup size operand %%%d is not a scalar constant", id)
		}
		if err := p.badConst[id]; err != nil {
			return 0, err
		}
		return uint32(p.globals[id].B), nil
	}
	// a constant decorated BuiltIn WorkgroupSize overrides the execution mode
	for id, ds := range p.m.Decos {
		for _, d := range ds {
			if d.Kind == decBuiltIn && len(d.Args) == 1 && d.Args[0] == biWorkgroupSize {
				if int(id) < p.n && p.loc[id].kind == locGlobal && p.globals[id].K == vComp && len(p.globals[id].E) == 3 {
					var ls [3]uint32
					for k := 0; k < 3; k++ {
						ls[k] = uint32(p.globals[id].E[k].B)
					}
					return ls, nil
				}
			}
		}
	}
	if ep.hasLocalI {
		var ls [3]uint32
		for k := 0; k < 3; k++ {
			v, err := constU32(ep.localIDs[k])
			if err != nil {
				return ls, err
			}
			ls[k] = v
		}
		return ls, nil
	}
	if ep.hasLocal {
		return ep.LocalSize, nil
	}
	return [3]uint32{}, structErr("entry point %q declares no LocalSize", ep.Name)
}

func (x *exec) runWorkgroup(root *function, wg, groups, local [3]uint32, shared []Value, used map[int]bool, usesBarrier bool) {
	p := x.p
	// workgroup-shared variables
	wgVars := make([]Value, len(shared))
	copy(wgVars, shared)
	for _, g := range p.gvars {
		if used[g.idx] && g.kind == gvWorkgroup {
			wgVars[g.idx] = x.newVarCell(g)
		}
	}
	n := int(local[0] * local[1] * local[2])
	invs := make([]*invocation, 0, n)
	for lz := uint32(0); lz < local[2]; lz++ {
		for ly := uint32(0); ly < local[1]; ly++ {
			for lx := uint32(0); lx < local[0]; lx++ {
				inv := &invocation{vars: make([]Value, len(wgVars))}
				copy(inv.vars, wgVars)
				lid := [3]uint32{lx, ly, lz}
				for _, g := range p.gvars {
					if !used[g.idx] {
						continue
					}
					switch g.kind {
					case gvPrivate:
						inv.vars[g.idx] = x.newVarCell(g)
					case gvInput:
						inv.vars[g.idx] = x.builtinVar(g, wg, groups, local, lid)
					}
				}
				invs = append(invs, inv)
			}
		}
	}
	if !usesBarrier || n == 1 {
		for _, inv := range invs {
			x.inv = inv
			x.call(root, nil, 0)
		}
		x.inv = nil
		return
	}
	// coroutine mode: one goroutine per invocation, exactly one runs at a time
	var firstErr any
	live := invs
	for len(live) > 0 && firstErr == nil {
		next := make([]*invocation, 0, len(live))
		for _, inv := range live {
			x.inv = inv
			if !inv.started {
				inv.started = true
				inv.co = &coro{resume: make(chan bool), yield: make(chan bool)}
				go x.coMain(inv, root)
			}
			inv.co.resume <- true
			if fin := <-inv.co.yield; fin {
				if inv.co.err != nil {
					firstErr = inv.co.err
					break
				}
			} else {
				next = append(next, inv)
			}
		}
		live = next
	}
	// release every goroutine that is still parked
	for _, inv := range invs {
		if inv.started && !inv.finished {
			inv.co.resume <- false
			<-inv.co.yield
		}
	}
	x.inv = nil
	if firstErr != nil {
		panic(firstErr)
	}
}

func (x *exec) coMain(inv *invocation, root *function) {
	defer func() {
		if r := recover(); r != nil {
			if _, ok := r.(killed); !ok {
				inv.co.err = r
			}
		}
		inv.finished = true
		inv.co.yield <- true
	}()
	if !<-inv.co.resume {
		panic(killed{})
	}
	x.inv = inv
	x.call(root, nil, 0)
}

// newVarCell allocates the memory of a Private / Workgroup variable.
func (x *exec) newVarCell(g *gvar) Value {
	var cell Value
	if g.init != 0 {
		cell = deepCopy(x.val(nil, g.init))
	} else {
		v, err := newValue(g.ptrTy.Elem, true)
		if err != nil {
			panic(runErr{err})
		}
		cell = v
	}
	return Value{K: vPtr, Ptr: &Pointer{Ty: g.ptrTy.Elem, Storage: g.storage, Var: g.id, Node: &cell}}
}

func (x *exec) builtinVar(g *gvar, wg, groups, local, lid [3]uint32) Value {
	t := g.ptrTy.Elem
	vec3 := func(v [3]uint32) Value {
		if t.Kind != KVector || t.Count != 3 || t.Elem.Kind != KInt || t.Elem.Width != 32 {
			panic(runErr{&xrt.Unsupported{What: fmt.Sprintf("BuiltIn %d variable of type %v", g.builtin, t)}})
		}
		return comp([]Value{scalar(uint64(v[0])), scalar(uint64(v[1])), scalar(uint64(v[2]))})
	}
	var cell Value
	switch g.builtin {
	case biNumWorkgroups:
		cell = vec3(groups)
	case biWorkgroupSize:
		cell = vec3(local)
	case biWorkgroupID:
		cell = vec3(wg)
	case biLocalInvocationID:
		cell = vec3(lid)
	case biGlobalInvocationID:
		cell = vec3([3]uint32{wg[0]*local[0] + lid[0], wg[1]*local[1] + lid[1], wg[2]*local[2] + lid[2]})
	case biLocalInvocationIndex:
		if t.Kind != KInt || t.Width != 32 {
			panic(runErr{&xrt.Unsupported{What: fmt.Sprintf("LocalInvocationIndex variable of type %v", t)}})
		}
		cell = scalar(uint64(lid[2]*local[0]*local[1] + lid[1]*local[0] + lid[0]))
	default:
		panic(runErr{&xrt.Unsupported{What: fmt.Sprintf("BuiltIn %d", g.builtin)}})
	}
	return Value{K: vPtr, Ptr: &Pointer{Ty: t, Storage: scInput, Var: g.id, Node: &cell}}
}
