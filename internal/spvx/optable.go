package spvx

import (
	"strconv"
	"strings"
)

// Opcode numbers (SPIR-V unified specification, section 3 "Binary Form").
const (
	OpNop                     = 0
	OpUndef                   = 1
	OpSourceContinued         = 2
	OpSource                  = 3
	OpSourceExtension         = 4
	OpName                    = 5
	OpMemberName              = 6
	OpString                  = 7
	OpLine                    = 8
	OpExtension               = 10
	OpExtInstImport           = 11
	OpExtInst                 = 12
	OpMemoryModel             = 14
	OpEntryPoint              = 15
	OpExecutionMode           = 16
	OpCapability              = 17
	OpTypeVoid                = 19
	OpTypeBool                = 20
	OpTypeInt                 = 21
	OpTypeFloat               = 22
	OpTypeVector              = 23
	OpTypeMatrix              = 24
	OpTypeImage               = 25
	OpTypeSampler             = 26
	OpTypeSampledImage        = 27
	OpTypeArray               = 28
	OpTypeRuntimeArray        = 29
	OpTypeStruct              = 30
	OpTypeOpaque              = 31
	OpTypePointer             = 32
	OpTypeFunction            = 33
	OpTypeForwardPointer      = 39
	OpConstantTrue            = 41
	OpConstantFalse           = 42
	OpConstant                = 43
	OpConstantComposite       = 44
	OpConstantSampler         = 45
	OpConstantNull            = 46
	OpSpecConstantTrue        = 48
	OpSpecConstantFalse       = 49
	OpSpecConstant            = 50
	OpSpecConstantComposite   = 51
	OpSpecConstantOp          = 52
	OpFunction                = 54
	OpFunctionParameter       = 55
	OpFunctionEnd             = 56
	OpFunctionCall            = 57
	OpVariable                = 59
	OpImageTexelPointer       = 60
	OpLoad                    = 61
	OpStore                   = 62
	OpCopyMemory              = 63
	OpCopyMemorySized         = 64
	OpAccessChain             = 65
	OpInBoundsAccessChain     = 66
	OpPtrAccessChain          = 67
	OpArrayLength             = 68
	OpInBoundsPtrAccessChain  = 70
	OpDecorate                = 71
	OpMemberDecorate          = 72
	OpDecorationGroup         = 73
	OpGroupDecorate           = 74
	OpGroupMemberDecorate     = 75
	OpVectorExtractDynamic    = 77
	OpVectorInsertDynamic     = 78
	OpVectorShuffle           = 79
	OpCompositeConstruct      = 80
	OpCompositeExtract        = 81
	OpCompositeInsert         = 82
	OpCopyObject              = 83
	OpTranspose               = 84
	OpConvertFToU             = 109
	OpConvertFToS             = 110
	OpConvertSToF             = 111
	OpConvertUToF             = 112
	OpUConvert                = 113
	OpSConvert                = 114
	OpFConvert                = 115
	OpQuantizeToF16           = 116
	OpBitcast                 = 124
	OpSNegate                 = 126
	OpFNegate                 = 127
	OpIAdd                    = 128
	OpFAdd                    = 129
	OpISub                    = 130
	OpFSub                    = 131
	OpIMul                    = 132
	OpFMul                    = 133
	OpUDiv                    = 134
	OpSDiv                    = 135
	OpFDiv                    = 136
	OpUMod                    = 137
	OpSRem                    = 138
	OpSMod                    = 139
	OpFRem                    = 140
	OpFMod                    = 141
	OpVectorTimesScalar       = 142
	OpMatrixTimesScalar       = 143
	OpVectorTimesMatrix       = 144
	OpMatrixTimesVector       = 145
	OpMatrixTimesMatrix       = 146
	OpOuterProduct            = 147
	OpDot                     = 148
	OpIAddCarry               = 149
	OpISubBorrow              = 150
	OpUMulExtended            = 151
	OpSMulExtended            = 152
	OpAny                     = 154
	OpAll                     = 155
	OpIsNan                   = 156
	OpIsInf                   = 157
	OpIsFinite                = 158
	OpIsNormal                = 159
	OpSignBitSet              = 160
	OpLessOrGreater           = 161
	OpOrdered                 = 162
	OpUnordered               = 163
	OpLogicalEqual            = 164
	OpLogicalNotEqual         = 165
	OpLogicalOr               = 166
	OpLogicalAnd              = 167
	OpLogicalNot              = 168
	OpSelect                  = 169
	OpIEqual                  = 170
	OpINotEqual               = 171
	OpUGreaterThan            = 172
	OpSGreaterThan            = 173
	OpUGreaterThanEqual       = 174
	OpSGreaterThanEqual       = 175
	OpULessThan               = 176
	OpSLessThan               = 177
	OpULessThanEqual          = 178
	OpSLessThanEqual          = 179
	OpFOrdEqual               = 180
	OpFUnordEqual             = 181
	OpFOrdNotEqual            = 182
	OpFUnordNotEqual          = 183
	OpFOrdLessThan            = 184
	OpFUnordLessThan          = 185
	OpFOrdGreaterThan         = 186
	OpFUnordGreaterThan       = 187
	OpFOrdLessThanEqual       = 188
	OpFUnordLessThanEqual     = 189
	OpFOrdGreaterThanEqual    = 190
	OpFUnordGreaterThanEqual  = 191
	OpShiftRightLogical       = 194
	OpShiftRightArithmetic    = 195
	OpShiftLeftLogical        = 196
	OpBitwiseOr               = 197
	OpBitwiseXor              = 198
	OpBitwiseAnd              = 199
	OpNot                     = 200
	OpBitFieldInsert          = 201
	OpBitFieldSExtract        = 202
	OpBitFieldUExtract        = 203
	OpBitReverse              = 204
	OpBitCount                = 205
	OpControlBarrier          = 224
	OpMemoryBarrier           = 225
	OpAtomicLoad              = 227
	OpAtomicStore             = 228
	OpAtomicExchange          = 229
	OpAtomicCompareExchange   = 230
	OpAtomicCompareExchangeWk = 231
	OpAtomicIIncrement        = 232
	OpAtomicIDecrement        = 233
	OpAtomicIAdd              = 234
	OpAtomicISub              = 235
	OpAtomicSMin              = 236
	OpAtomicUMin              = 237
	OpAtomicSMax              = 238
	OpAtomicUMax              = 239
	OpAtomicAnd               = 240
	OpAtomicOr                = 241
	OpAtomicXor               = 242
	OpPhi                     = 245
	OpLoopMerge               = 246
	OpSelectionMerge          = 247
	OpLabel                   = 248
	OpBranch                  = 249
	OpBranchConditional       = 250
	OpSwitch                  = 251
	OpKill                    = 252
	OpReturn                  = 253
	OpReturnValue             = 254
	OpUnreachable             = 255
	OpLifetimeStart           = 256
	OpLifetimeStop            = 257
	OpNoLine                  = 317
	OpModuleProcessed         = 330
	OpExecutionModeId         = 331
	OpDecorateId              = 332
	OpCopyLogical             = 400
	OpTerminateInvocation     = 4416
	opSDot                    = 4450
	opUDot                    = 4451
	opSUDot                   = 4452
	OpDecorateString          = 5632
	OpMemberDecorateString    = 5633
)

// opInfo: name (without the "Op" prefix) and where the result-type / result-id
// words are. layout "" = neither, "r" = result id in word 1, "tr" = result
// type in word 1 and result id in word 2.
type opInfo struct {
	name   string
	hasTy  bool
	hasRes bool
}

// One line per group; entries "Name:number:layout". Consecutive opcodes may be
// abbreviated "Name1,Name2,...:first:layout".
const opTableSrc = `
Nop:0:
Undef:1:tr
SourceContinued,Source,SourceExtension,Name,MemberName:2:
String:7:r
Line:8:
Extension:10:
ExtInstImport:11:r
ExtInst:12:tr
MemoryModel,EntryPoint,ExecutionMode,Capability:14:
TypeVoid,TypeBool,TypeInt,TypeFloat,TypeVector,TypeMatrix,TypeImage,TypeSampler,TypeSampledImage,TypeArray,TypeRuntimeArray,TypeStruct,TypeOpaque,TypePointer,TypeFunction,TypeEvent,TypeDeviceEvent,TypeReserveId,TypeQueue,TypePipe:19:r
TypeForwardPointer:39:
ConstantTrue,ConstantFalse,Constant,ConstantComposite,ConstantSampler,ConstantNull:41:tr
SpecConstantTrue,SpecConstantFalse,SpecConstant,SpecConstantComposite,SpecConstantOp:48:tr
Function,FunctionParameter:54:tr
FunctionEnd:56:
FunctionCall:57:tr
Variable,ImageTexelPointer,Load:59:tr
Store,CopyMemory,CopyMemorySized:62:
AccessChain,InBoundsAccessChain,PtrAccessChain,ArrayLength,GenericPtrMemSemantics,InBoundsPtrAccessChain:65:tr
Decorate,MemberDecorate:71:
DecorationGroup:73:r
GroupDecorate,GroupMemberDecorate:74:
VectorExtractDynamic,VectorInsertDynamic,VectorShuffle,CompositeConstruct,CompositeExtract,CompositeInsert,CopyObject,Transpose:77:tr
SampledImage,ImageSampleImplicitLod,ImageSampleExplicitLod,ImageSampleDrefImplicitLod,ImageSampleDrefExplicitLod,ImageSampleProjImplicitLod,ImageSampleProjExplicitLod,ImageSampleProjDrefImplicitLod,ImageSampleProjDrefExplicitLod,ImageFetch,ImageGather,ImageDrefGather,ImageRead:86:tr
ImageWrite:99:
Image,ImageQueryFormat,ImageQueryOrder,ImageQuerySizeLod,ImageQuerySize,ImageQueryLod,ImageQueryLevels,ImageQuerySamples:100:tr
ConvertFToU,ConvertFToS,ConvertSToF,ConvertUToF,UConvert,SConvert,FConvert,QuantizeToF16,ConvertPtrToU,SatConvertSToU,SatConvertUToS,ConvertUToPtr,PtrCastToGeneric,GenericCastToPtr,GenericCastToPtrExplicit,Bitcast:109:tr
SNegate,FNegate,IAdd,FAdd,ISub,FSub,IMul,FMul,UDiv,SDiv,FDiv,UMod,SRem,SMod,FRem,FMod,VectorTimesScalar,MatrixTimesScalar,VectorTimesMatrix,MatrixTimesVector,MatrixTimesMatrix,OuterProduct,Dot,IAddCarry,ISubBorrow,UMulExtended,SMulExtended:126:tr
Any,All,IsNan,IsInf,IsFinite,IsNormal,SignBitSet,LessOrGreater,Ordered,Unordered,LogicalEqual,LogicalNotEqual,LogicalOr,LogicalAnd,LogicalNot,Select,IEqual,INotEqual,UGreaterThan,SGreaterThan,UGreaterThanEqual,SGreaterThanEqual,ULessThan,SLessThan,ULessThanEqual,SLessThanEqual,FOrdEqual,FUnordEqual,FOrdNotEqual,FUnordNotEqual,FOrdLessThan,FUnordLessThan,FOrdGreaterThan,FUnordGreaterThan,FOrdLessThanEqual,FUnordLessThanEqual,FOrdGreaterThanEqual,FUnordGreaterThanEqual:154:tr
ShiftRightLogical,ShiftRightArithmetic,ShiftLeftLogical,BitwiseOr,BitwiseXor,BitwiseAnd,Not,BitFieldInsert,BitFieldSExtract,BitFieldUExtract,BitReverse,BitCount:194:tr
DPdx,DPdy,Fwidth,DPdxFine,DPdyFine,FwidthFine,DPdxCoarse,DPdyCoarse,FwidthCoarse:207:tr
EmitVertex,EndPrimitive,EmitStreamVertex,EndStreamPrimitive:218:
ControlBarrier,MemoryBarrier:224:
AtomicLoad:227:tr
AtomicStore:228:
AtomicExchange,AtomicCompareExchange,AtomicCompareExchangeWeak,AtomicIIncrement,AtomicIDecrement,AtomicIAdd,AtomicISub,AtomicSMin,AtomicUMin,AtomicSMax,AtomicUMax,AtomicAnd,AtomicOr,AtomicXor:229:tr
Phi:245:tr
LoopMerge,SelectionMerge:246:
Label:248:r
Branch,BranchConditional,Switch,Kill,Return,ReturnValue,Unreachable,LifetimeStart,LifetimeStop:249:
GroupAsyncCopy:259:tr
GroupWaitEvents:260:
GroupAll,GroupAny,GroupBroadcast,GroupIAdd,GroupFAdd,GroupFMin,GroupUMin,GroupSMin,GroupFMax,GroupUMax,GroupSMax:261:tr
ImageSparseSampleImplicitLod,ImageSparseSampleExplicitLod,ImageSparseSampleDrefImplicitLod,ImageSparseSampleDrefExplicitLod,ImageSparseSampleProjImplicitLod,ImageSparseSampleProjExplicitLod,ImageSparseSampleProjDrefImplicitLod,ImageSparseSampleProjDrefExplicitLod,ImageSparseFetch,ImageSparseGather,ImageSparseDrefGather,ImageSparseTexelsResident:305:tr
NoLine:317:
AtomicFlagTestAndSet:318:tr
AtomicFlagClear:319:
ImageSparseRead,SizeOf:320:tr
TypePipeStorage:322:r
ConstantPipeStorage,CreatePipeFromPipeStorage,GetKernelLocalSizeForSubgroupCount,GetKernelMaxNumSubgroups:323:tr
TypeNamedBarrier:327:r
NamedBarrierInitialize:328:tr
MemoryNamedBarrier,ModuleProcessed,ExecutionModeId,DecorateId:329:
GroupNonUniformElect,GroupNonUniformAll,GroupNonUniformAny,GroupNonUniformAllEqual,GroupNonUniformBroadcast,GroupNonUniformBroadcastFirst,GroupNonUniformBallot,GroupNonUniformInverseBallot,GroupNonUniformBallotBitExtract,GroupNonUniformBallotBitCount,GroupNonUniformBallotFindLSB,GroupNonUniformBallotFindMSB,GroupNonUniformShuffle,GroupNonUniformShuffleXor,GroupNonUniformShuffleUp,GroupNonUniformShuffleDown,GroupNonUniformIAdd,GroupNonUniformFAdd,GroupNonUniformIMul,GroupNonUniformFMul,GroupNonUniformSMin,GroupNonUniformUMin,GroupNonUniformFMin,GroupNonUniformSMax,GroupNonUniformUMax,GroupNonUniformFMax,GroupNonUniformBitwiseAnd,GroupNonUniformBitwiseOr,GroupNonUniformBitwiseXor,GroupNonUniformLogicalAnd,GroupNonUniformLogicalOr,GroupNonUniformLogicalXor,GroupNonUniformQuadBroadcast,GroupNonUniformQuadSwap:333:tr
CopyLogical,PtrEqual,PtrNotEqual,PtrDiff:400:tr
TerminateInvocation:4416:
SubgroupBallotKHR,SubgroupFirstInvocationKHR:4421:tr
SubgroupAllKHR,SubgroupAnyKHR,SubgroupAllEqualKHR:4428:tr
SubgroupReadInvocationKHR:4432:tr
SDot,UDot,SUDot,SDotAccSat,UDotAccSat,SUDotAccSat:4450:tr
TypeRayQueryKHR:4472:r
RayQueryInitializeKHR,RayQueryTerminateKHR,RayQueryGenerateIntersectionKHR,RayQueryConfirmIntersectionKHR:4473:
RayQueryProceedKHR:4477:tr
RayQueryGetIntersectionTypeKHR:4479:tr
EmitMeshTasksEXT,SetMeshOutputsEXT:5294:
TypeAccelerationStructureKHR:5341:r
DemoteToHelperInvocation:5380:
IsHelperInvocationEXT:5381:tr
AtomicFMinEXT,AtomicFMaxEXT:5614:tr
DecorateString,MemberDecorateString:5632:
RayQueryGetRayTMinKHR,RayQueryGetRayFlagsKHR,RayQueryGetIntersectionTKHR,RayQueryGetIntersectionInstanceCustomIndexKHR,RayQueryGetIntersectionInstanceIdKHR,RayQueryGetIntersectionInstanceShaderBindingTableRecordOffsetKHR,RayQueryGetIntersectionGeometryIndexKHR,RayQueryGetIntersectionPrimitiveIndexKHR,RayQueryGetIntersectionBarycentricsKHR,RayQueryGetIntersectionFrontFaceKHR,RayQueryGetIntersectionCandidateAABBOpaqueKHR,RayQueryGetIntersectionObjectRayDirectionKHR,RayQueryGetIntersectionObjectRayOriginKHR,RayQueryGetWorldRayDirectionKHR,RayQueryGetWorldRayOriginKHR,RayQueryGetIntersectionObjectToWorldKHR,RayQueryGetIntersectionWorldToObjectKHR:6016:tr
AtomicFAddEXT:6035:tr
`

var opTable = buildOpTable()

func buildOpTable() map[uint16]opInfo {
	t := make(map[uint16]opInfo)
	for _, line := range strings.Split(opTableSrc, "\n") {
		line = strings.TrimSpace(line)
		if line == "" {
			continue
		}
		parts := strings.Split(line, ":")
		if len(parts) != 3 {
			panic("spvx: bad op table line " + line)
		}
		first, err := strconv.Atoi(parts[1])
		if err != nil {
			panic("spvx: bad op table number " + line)
		}
		for i, n := range strings.Split(parts[0], ",") {
			op := uint16(first + i)
			if _, dup := t[op]; dup {
				panic("spvx: duplicate opcode in table: " + n)
			}
			t[op] = opInfo{name: n, hasTy: parts[2] == "tr", hasRes: parts[2] != ""}
		}
	}
	return t
}

// OpcodeName returns "OpXxx" for a known opcode and "Op#<n>" otherwise.
func OpcodeName(op uint16) string {
	if i, ok := opTable[op]; ok {
		return "Op" + i.name
	}
	return "Op#" + strconv.Itoa(int(op))
}

// GLSL.std.450 extended instruction numbers.
const (
	glRound                 = 1
	glRoundEven             = 2
	glTrunc                 = 3
	glFAbs                  = 4
	glSAbs                  = 5
	glFSign                 = 6
	glSSign                 = 7
	glFloor                 = 8
	glCeil                  = 9
	glFract                 = 10
	glRadians               = 11
	glDegrees               = 12
	glSin                   = 13
	glCos                   = 14
	glTan                   = 15
	glAsin                  = 16
	glAcos                  = 17
	glAtan                  = 18
	glSinh                  = 19
	glCosh                  = 20
	glTanh                  = 21
	glAsinh                 = 22
	glAcosh                 = 23
	glAtanh                 = 24
	glAtan2                 = 25
	glPow                   = 26
	glExp                   = 27
	glLog                   = 28
	glExp2                  = 29
	glLog2                  = 30
	glSqrt                  = 31
	glInverseSqrt           = 32
	glDeterminant           = 33
	glMatrixInverse         = 34
	glModf                  = 35
	glModfStruct            = 36
	glFMin                  = 37
	glUMin                  = 38
	glSMin                  = 39
	glFMax                  = 40
	glUMax                  = 41
	glSMax                  = 42
	glFClamp                = 43
	glUClamp                = 44
	glSClamp                = 45
	glFMix                  = 46
	glIMix                  = 47
	glStep                  = 48
	glSmoothStep            = 49
	glFma                   = 50
	glFrexp                 = 51
	glFrexpStruct           = 52
	glLdexp                 = 53
	glPackSnorm4x8          = 54
	glPackUnorm4x8          = 55
	glPackSnorm2x16         = 56
	glPackUnorm2x16         = 57
	glPackHalf2x16          = 58
	glPackDouble2x32        = 59
	glUnpackSnorm2x16       = 60
	glUnpackUnorm2x16       = 61
	glUnpackHalf2x16        = 62
	glUnpackSnorm4x8        = 63
	glUnpackUnorm4x8        = 64
	glUnpackDouble2x32      = 65
	glLength                = 66
	glDistance              = 67
	glCross                 = 68
	glNormalize             = 69
	glFaceForward           = 70
	glReflect               = 71
	glRefract               = 72
	glFindILsb              = 73
	glFindSMsb              = 74
	glFindUMsb              = 75
	glInterpolateAtCentroid = 76
	glInterpolateAtSample   = 77
	glInterpolateAtOffset   = 78
	glNMin                  = 79
	glNMax                  = 80
	glNClamp                = 81
)

var glslNames = [...]string{
	0: "", 1: "Round", 2: "RoundEven", 3: "Trunc", 4: "FAbs", 5: "SAbs", 6: "FSign", 7: "SSign", 8: "Floor", 9: "Ceil",
	10: "Fract", 11: "Radians", 12: "Degrees", 13: "Sin", 14: "Cos", 15: "Tan", 16: "Asin", 17: "Acos", 18: "Atan",
	19: "Sinh", 20: "Cosh", 21: "Tanh", 22: "Asinh", 23: "Acosh", 24: "Atanh", 25: "Atan2", 26: "Pow", 27: "Exp",
	28: "Log", 29: "Exp2", 30: "Log2", 31: "Sqrt", 32: "InverseSqrt", 33: "Determinant", 34: "MatrixInverse",
	35: "Modf", 36: "ModfStruct", 37: "FMin", 38: "UMin", 39: "SMin", 40: "FMax", 41: "UMax", 42: "SMax",
	43: "FClamp", 44: "UClamp", 45: "SClamp", 46: "FMix", 47: "IMix", 48: "Step", 49: "SmoothStep", 50: "Fma",
	51: "Frexp", 52: "FrexpStruct", 53: "Ldexp", 54: "PackSnorm4x8", 55: "PackUnorm4x8", 56: "PackSnorm2x16",
	57: "PackUnorm2x16", 58: "PackHalf2x16", 59: "PackDouble2x32", 60: "UnpackSnorm2x16", 61: "UnpackUnorm2x16",
	62: "UnpackHalf2x16", 63: "UnpackSnorm4x8", 64: "UnpackUnorm4x8", 65: "UnpackDouble2x32", 66: "Length",
	67: "Distance", 68: "Cross", 69: "Normalize", 70: "FaceForward", 71: "Reflect", 72: "Refract", 73: "FindILsb",
	74: "FindSMsb", 75: "FindUMsb", 76: "InterpolateAtCentroid", 77: "InterpolateAtSample", 78: "InterpolateAtOffset",
	79: "NMin", 80: "NMax", 81: "NClamp",
}

// GLSLName returns "GLSL.<Name>" for a GLSL.std.450 instruction number.
func GLSLName(n uint32) string {
	if n > 0 && int(n) < len(glslNames) {
		return "GLSL." + glslNames[n]
	}
	return "GLSL.#" + strconv.Itoa(int(n))
}

// Enumerants used by the reader / interpreter.
const (
	scUniformConstant = 0
	scInput           = 1
	scUniform         = 2
	scOutput          = 3
	scWorkgroup       = 4
	scCrossWorkgroup  = 5
	scPrivate         = 6
	scFunction        = 7
	scGeneric         = 8
	scPushConstant    = 9
	scAtomicCounter   = 10
	scImage           = 11
	scStorageBuffer   = 12

	decSpecID        = 1
	decBlock         = 2
	decBufferBlock   = 3
	decRowMajor      = 4
	decColMajor      = 5
	decArrayStride   = 6
	decMatrixStride  = 7
	decBuiltIn       = 11
	decNonWritable   = 24
	decBinding       = 33
	decDescriptorSet = 34
	decOffset        = 35

	biNumWorkgroups        = 24
	biWorkgroupSize        = 25
	biWorkgroupID          = 26
	biLocalInvocationID    = 27
	biGlobalInvocationID   = 28
	biLocalInvocationIndex = 29

	modelGLCompute = 5

	modeLocalSize   = 17
	modeLocalSizeID = 38
)
