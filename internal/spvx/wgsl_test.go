package spvx

import (
	"encoding/binary"
	"fmt"
	"math"
	"sort"
	"strings"
	"testing"

	"github.com/gogpu/naga/spirv"

	"verif/internal/xrt"
)

// Calibration 2: hand-written WGSL compute programs whose expected buffer
// contents were computed BY HAND from the WGSL specification. Each program is
// compiled by naga at SPIR-V 1.0, 1.3 and 1.6 and executed in TrapMode.

func u32buf(v ...uint32) []byte {
	b := make([]byte, 4*len(v))
	for i, x := range v {
		binary.LittleEndian.PutUint32(b[4*i:], x)
	}
	return b
}

func f32buf(v ...float32) []byte {
	b := make([]byte, 4*len(v))
	for i, x := range v {
		binary.LittleEndian.PutUint32(b[4*i:], math.Float32bits(x))
	}
	return b
}

func filled(n int, c byte) []byte {
	b := make([]byte, n)
	for i := range b {
		b[i] = c
	}
	return b
}

func slot(g, b uint32) xrt.Slot { return xrt.Slot{A: g, B: b} }

type prog struct {
	name   string
	src    string
	entry  string
	bufs   xrt.Buffers
	groups [3]uint32
	// allowTraps: the program is expected to make the interpreter trap
	allowTraps bool
	// suspect: non-empty when naga's output is believed WRONG for this program
	// (per the SPIR-V / WGSL specifications). Compilation failures, traps and
	// value mismatches are then logged as "SUSPECT naga: ..." instead of
	// failing the test; the expectations stay what WGSL prescribes.
	suspect string
}

// suspectHits counts SUSPECT reports per program name (inspected by TestWGSLSuspectSummary).
var suspectHits = map[string]int{}

// report fails the test, or logs a SUSPECT line for programs marked suspect.
func (p prog) report(t *testing.T, format string, a ...any) {
	t.Helper()
	if p.suspect != "" {
		// one line per distinct symptom (the same symptom repeats at every version)
		key := strings.Split(p.name, "@")[0]
		suspectHits[key]++
		if suspectHits[key] <= 4 {
			t.Logf("SUSPECT naga: %s: %s", p.suspect, fmt.Sprintf(format, a...))
		}
		return
	}
	t.Errorf(format, a...)
}

// runAll compiles and runs p at every version; it returns the buffers after
// the run at each version (nil entry if compilation failed).
func runAll(t *testing.T, p prog) []xrt.Buffers {
	t.Helper()
	var outs []xrt.Buffers
	for _, ver := range corpusVersions {
		bin, err := compileWGSL(p.src, ver)
		if err != nil {
			if p.suspect != "" {
				p.report(t, "%s: naga failed to compile valid WGSL at %v: %v", p.name, ver, err)
				outs = append(outs, nil)
				continue
			}
			t.Fatalf("%s: naga failed to compile at %v: %v", p.name, ver, err)
		}
		m, err := Parse(bin)
		if err != nil {
			t.Fatalf("%s @%v: Parse: %v", p.name, ver, err)
		}
		entry := p.entry
		if entry == "" {
			entry = "main"
		}
		bufs := p.bufs.Clone()
		res, err := Run(m, entry, bufs, xrt.Options{TrapMode: true, Dispatch: xrt.Dispatch{NumGroups: p.groups}})
		if err != nil {
			t.Fatalf("%s @%v: Run: %v", p.name, ver, err)
		}
		if !p.allowTraps {
			for _, tr := range res.Traps {
				p.report(t, "%s @%v: trap: %v", p.name, ver, tr)
			}
		}
		if res.Steps == 0 || len(res.Cov) == 0 {
			t.Errorf("%s @%v: no steps / coverage recorded", p.name, ver)
		}
		outs = append(outs, bufs)
	}
	return outs
}

func wantU32(t *testing.T, name string, buf []byte, off int, want ...uint32) {
	t.Helper()
	prog{name: name}.wantU32(t, name, buf, off, want...)
}

func (p prog) wantU32(t *testing.T, name string, buf []byte, off int, want ...uint32) {
	t.Helper()
	for i, w := range want {
		o := off + 4*i
		if o+4 > len(buf) {
			t.Errorf("%s: buffer too short for word at %d", name, o)
			return
		}
		if got := binary.LittleEndian.Uint32(buf[o:]); got != w {
			p.report(t, "%s: word at byte %d = 0x%08x (%d), want 0x%08x (%d)", name, o, got, got, w, w)
		}
	}
}

func wantF32(t *testing.T, name string, buf []byte, off int, want ...float32) {
	t.Helper()
	prog{name: name}.wantF32(t, name, buf, off, want...)
}

func (p prog) wantF32(t *testing.T, name string, buf []byte, off int, want ...float32) {
	t.Helper()
	for i, w := range want {
		o := off + 4*i
		if o+4 > len(buf) {
			t.Errorf("%s: buffer too short for float at %d", name, o)
			return
		}
		got := math.Float32frombits(binary.LittleEndian.Uint32(buf[o:]))
		if math.Float32bits(got) != math.Float32bits(w) && !(got != got && w != w) {
			p.report(t, "%s: float at byte %d = %v (0x%08x), want %v (0x%08x)", name, o, got, math.Float32bits(got), w, math.Float32bits(w))
		}
	}
}

// checkU32 runs p and compares buffer (0,0) with want at every version.
func checkU32(t *testing.T, p prog, want ...uint32) {
	t.Helper()
	for i, out := range runAll(t, p) {
		if out != nil {
			p.wantU32(t, p.name+"@"+verName(i), out[slot(0, 0)], 0, want...)
		}
	}
}

func checkF32(t *testing.T, p prog, want ...float32) {
	t.Helper()
	for i, out := range runAll(t, p) {
		if out != nil {
			p.wantF32(t, p.name+"@"+verName(i), out[slot(0, 0)], 0, want...)
		}
	}
}

func verName(i int) string {
	v := corpusVersions[i]
	return string([]byte{'0' + byte(v.Major), '.', '0' + byte(v.Minor)})
}

const hdr = `
@group(0) @binding(0) var<storage, read_write> o: array<u32>;
@group(0) @binding(1) var<storage, read> inp: array<u32>;
`
const hdrF = `
@group(0) @binding(0) var<storage, read_write> o: array<f32>;
@group(0) @binding(1) var<storage, read> inp: array<f32>;
`

func TestWGSLIntegerWrap(t *testing.T) {
	checkU32(t, prog{name: "wrap", src: hdr + `
@compute @workgroup_size(1) fn main() {
  let a = inp[0]; let b = inp[1];
  o[0] = a + b; o[1] = a * b; o[2] = 0u - b;
  let x = bitcast<i32>(inp[2]);
  o[3] = bitcast<u32>(x + 1);
  let mn = bitcast<i32>(inp[3]);
  o[4] = bitcast<u32>(-mn);
  let k = bitcast<i32>(inp[4]);
  o[5] = bitcast<u32>(k * k);
  o[6] = bitcast<u32>(mn - 1);
  o[7] = ~a + ~b;
}`, bufs: xrt.Buffers{slot(0, 0): filled(32, 0xAA), slot(0, 1): u32buf(0xFFFFFFFF, 2, 0x7FFFFFFF, 0x80000000, 65536)}},
		// 0xFFFFFFFF+2 = 1; 0xFFFFFFFF*2 = 0xFFFFFFFE; 0-2; INT_MAX+1; -INT_MIN; 65536^2 mod 2^32; INT_MIN-1; ~a+~b = 0+0xFFFFFFFD
		1, 0xFFFFFFFE, 0xFFFFFFFE, 0x80000000, 0x80000000, 0, 0x7FFFFFFF, 0xFFFFFFFD)
}

func TestWGSLDivMod(t *testing.T) {
	// WGSL: x/0 = x, x%0 = 0, INT_MIN/-1 = INT_MIN, INT_MIN%-1 = 0; truncating division, remainder has the sign of the dividend.
	neg := func(v int32) uint32 { return uint32(v) }
	checkU32(t, prog{name: "divmod", src: hdr + `
@compute @workgroup_size(1) fn main() {
  for (var k = 0u; k < 5u; k++) {
    let a = bitcast<i32>(inp[2u*k]); let b = bitcast<i32>(inp[2u*k+1u]);
    o[2u*k] = bitcast<u32>(a / b);
    o[2u*k+1u] = bitcast<u32>(a % b);
  }
  for (var k = 5u; k < 8u; k++) {
    let a = inp[2u*k]; let b = inp[2u*k+1u];
    o[2u*k] = a / b;
    o[2u*k+1u] = a % b;
  }
}`, bufs: xrt.Buffers{slot(0, 0): filled(64, 0xAA), slot(0, 1): u32buf(
		neg(-7), 2, 7, neg(-2), 7, 0, 0x80000000, neg(-1), neg(-9), neg(-4),
		7, 2, 7, 0, 0xFFFFFFFF, 16)}},
		neg(-3), neg(-1), // -7/2, -7%2
		neg(-3), 1, // 7/-2, 7%-2
		7, 0, // 7/0, 7%0
		0x80000000, 0, // INT_MIN/-1, INT_MIN%-1
		2, neg(-1), // -9/-4, -9%-4
		3, 1, // 7u/2u
		7, 0, // 7u/0u
		0x0FFFFFFF, 15)
}

func TestWGSLShifts(t *testing.T) {
	checkU32(t, prog{name: "shifts", src: hdr + `
@compute @workgroup_size(1) fn main() {
  let one = inp[0]; let big = inp[1]; let s1 = inp[2]; let s31 = inp[3]; let s4 = inp[4];
  o[0] = one << s1;
  o[1] = big >> s31;
  o[2] = big << s4;
  let n = bitcast<i32>(inp[5]);
  o[3] = bitcast<u32>(n >> 2u);
  o[4] = bitcast<u32>(n >> s1);
  o[5] = bitcast<u32>(n << s4);
  let v = vec2<u32>(one, big) << vec2<u32>(s4, s1);
  o[6] = v.x; o[7] = v.y;
  o[8] = one << s31; o[9] = bitcast<u32>(n >> s31);
}`, bufs: xrt.Buffers{slot(0, 0): filled(40, 0xAA), slot(0, 1): u32buf(1, 0xFFFFFFFF, 1, 31, 4, 0xFFFFFFF0)}},
		2, 1, 0xFFFFFFF0,
		0xFFFFFFFC, // -16 >> 2 = -4
		0xFFFFFFF8, // -16 >> 1 = -8
		0xFFFFFF00, // -16 << 4 = -256
		16, 0xFFFFFFFE,
		0x80000000, 0xFFFFFFFF)
}

func TestWGSLShiftOutOfRange(t *testing.T) {
	// WGSL: a run-time shift uses the shift amount modulo the bit width of the
	// shifted value. SPIR-V leaves Shift >= width undefined, so the compiler has
	// to mask the amount.
	checkU32(t, prog{name: "shift-oor", suspect: "run-time shift amount is not reduced modulo 32 (OpShift* undefined for Shift >= width)", src: hdr + `
@compute @workgroup_size(1) fn main() {
  let one = inp[0]; let s33 = inp[1];
  o[0] = one << s33;
  o[1] = bitcast<u32>(bitcast<i32>(inp[2]) >> s33);
  o[2] = inp[2] >> inp[3];
}`, bufs: xrt.Buffers{slot(0, 0): filled(12, 0xAA), slot(0, 1): u32buf(1, 33, 0xFFFFFFF0, 32)}},
		2,          // 1 << (33 % 32)
		0xFFFFFFF8, // -16 >> 1
		0xFFFFFFF0) // x >> (32 % 32)
}

func TestWGSLBitBuiltins(t *testing.T) {
	checkU32(t, prog{name: "bits", src: hdr + `
@compute @workgroup_size(1) fn main() {
  o[0] = countOneBits(inp[0]);
  o[1] = reverseBits(inp[1]);
  o[2] = firstLeadingBit(inp[2]);
  o[3] = bitcast<u32>(firstLeadingBit(bitcast<i32>(inp[3])));
  o[4] = bitcast<u32>(firstLeadingBit(bitcast<i32>(inp[4])));
  o[5] = firstLeadingBit(inp[5]);
  o[6] = firstTrailingBit(inp[6]);
  o[7] = firstTrailingBit(inp[5]);
  o[8] = extractBits(inp[7], 4u, 8u);
  o[9] = bitcast<u32>(extractBits(bitcast<i32>(inp[8]), 8u, 4u));
  o[10] = insertBits(inp[5], inp[9], 8u, 4u);
  o[11] = extractBits(inp[7], inp[10], inp[12]);
  o[12] = insertBits(inp[7], inp[9], inp[10], inp[12]);
  o[13] = bitcast<u32>(firstLeadingBit(bitcast<i32>(inp[11])));
  o[14] = bitcast<u32>(countOneBits(bitcast<i32>(inp[3])));
  o[15] = extractBits(inp[7], inp[5], inp[5]);
  let rv = reverseBits(vec2<u32>(inp[1], inp[0]));
  o[16] = rv.x; o[17] = rv.y;
}`, bufs: xrt.Buffers{slot(0, 0): filled(72, 0xAA), slot(0, 1): u32buf(
		0xF0F0F0F0, 1, 0x00010000, 0xFFFFFFFF, 0xFFFFFFFE, 0, 8, 0xABCD1234, 0x00000F00, 0xFF, 28, 0x00000100, 4)}},
		16, 0x80000000, 16,
		0xFFFFFFFF, // firstLeadingBit(-1) = -1
		0,          // firstLeadingBit(-2): highest bit that differs from the sign = bit 0
		0xFFFFFFFF, // firstLeadingBit(0u) = -1
		3, 0xFFFFFFFF,
		0x23,       // (0xABCD1234 >> 4) & 0xFF
		0xFFFFFFFF, // bits 8..11 = 0xF sign-extended
		0xF00,
		0xA,        // offset 28, count 4
		0xFBCD1234, // insert low 4 bits of 0xFF at 28
		8,          // firstLeadingBit(0x100) = 8
		32,
		0, // count 0
		0x80000000, 0x0F0F0F0F)
}

func TestWGSLCountZeros(t *testing.T) {
	checkU32(t, prog{name: "count-zeros", suspect: "countLeadingZeros is emitted as a bare FindUMsb and countTrailingZeros as a bare FindILsb", src: hdr + `
@compute @workgroup_size(1) fn main() {
  o[0] = countLeadingZeros(inp[0]);
  o[1] = countLeadingZeros(inp[1]);
  o[2] = countLeadingZeros(inp[2]);
  o[3] = countTrailingZeros(inp[3]);
  o[4] = countTrailingZeros(inp[1]);
  o[5] = bitcast<u32>(countLeadingZeros(bitcast<i32>(inp[2])));
}`, bufs: xrt.Buffers{slot(0, 0): filled(24, 0xAA), slot(0, 1): u32buf(1, 0, 0xFFFFFFFF, 8)}},
		31, 32, 0, 3, 32, 0)
}

func TestWGSLBitfieldClamp(t *testing.T) {
	// WGSL: extractBits/insertBits clamp: o = min(offset, 32), c = min(count, 32 - o).
	checkU32(t, prog{name: "bitfield-clamp", suspect: "extractBits/insertBits offset+count are not clamped to the bit width (OpBitField* undefined there)", src: hdr + `
@compute @workgroup_size(1) fn main() {
  o[0] = extractBits(inp[0], inp[1], inp[2]);
  o[1] = extractBits(inp[0], inp[3], 5u);
  o[2] = insertBits(inp[0], inp[4], inp[1], inp[2]);
  o[3] = bitcast<u32>(extractBits(bitcast<i32>(inp[0]), inp[1], inp[2]));
}`, bufs: xrt.Buffers{slot(0, 0): filled(16, 0xAA), slot(0, 1): u32buf(0xABCD1234, 28, 8, 32, 0xFF)}},
		0xA,        // offset 28, count clamps 8 -> 4
		0,          // offset 32 -> count 0
		0xFBCD1234, // count clamps to 4
		0xFFFFFFFA) // 0xA sign-extended from 4 bits
}

func TestWGSLSelectCompare(t *testing.T) {
	checkU32(t, prog{name: "select", src: hdr + `
@compute @workgroup_size(1) fn main() {
  let a = inp[0]; let b = inp[1];
  o[0] = select(1u, 2u, a < b);
  o[1] = select(1u, 2u, bitcast<i32>(a) < bitcast<i32>(b));
  let v = select(vec3<u32>(10u, 20u, 30u), vec3<u32>(11u, 21u, 31u), vec3<bool>(a > b, a == b, a != b));
  o[2] = v.x; o[3] = v.y; o[4] = v.z;
  let w = select(vec2<u32>(5u, 6u), vec2<u32>(7u, 8u), a >= b);
  o[5] = w.x; o[6] = w.y;
  o[7] = u32(a <= b) + 2u * u32(bitcast<i32>(a) <= bitcast<i32>(b)) + 4u * u32(bitcast<i32>(a) >= bitcast<i32>(b));
  o[8] = u32(!(a < b) && (b == 1u)) + 2u * u32((a < b) || (b == 1u));
  let c = vec2<i32>(bitcast<i32>(a), 5) < vec2<i32>(0, 5);
  o[9] = u32(c.x) + 2u * u32(c.y);
}`, bufs: xrt.Buffers{slot(0, 0): filled(40, 0xAA), slot(0, 1): u32buf(0xFFFFFFFF, 1)}},
		1,          // unsigned 0xFFFFFFFF < 1 false
		2,          // signed -1 < 1 true
		11, 20, 31, // a>b true, a==b false, a!=b true
		7, 8, // a>=b true (scalar condition on a vector)
		2,   // a<=b false; -1<=1 true; -1>=1 false
		1+2, // !(false) && true = 1 ; false || true = 1
		1)
}

func TestWGSLAnyAll(t *testing.T) {
	checkU32(t, prog{name: "any-all", suspect: "any()/all() are rejected by the SPIR-V backend (ir.ExprRelational unsupported)", src: hdr + `
@compute @workgroup_size(1) fn main() {
  let c = vec2<u32>(inp[0], inp[1]) == vec2<u32>(1u, 2u);
  o[0] = u32(any(c)); o[1] = u32(all(c)); o[2] = u32(any(!c));
}`, bufs: xrt.Buffers{slot(0, 0): filled(12, 0xAA), slot(0, 1): u32buf(1, 3)}},
		1, 0, 1)
}

func TestWGSLVectorsSwizzles(t *testing.T) {
	checkU32(t, prog{name: "vectors", src: hdr + `
@compute @workgroup_size(1) fn main() {
  let v = vec4<u32>(inp[0], inp[1], inp[2], inp[3]);
  let r = v.wzyx;
  o[0] = r.x; o[1] = r.y; o[2] = r.z; o[3] = r.w;
  let s = v.xy + v.zw;
  o[4] = s.x; o[5] = s.y;
  let i = inp[4];
  o[6] = v[i];
  var m = v;
  m[i] = 99u;
  m.y = 77u;
  o[7] = m.x; o[8] = m.y; o[9] = m.z; o[10] = m.w;
  let c = vec4<u32>(v.yz, 5u, v.x) * 2u;
  o[11] = c.x; o[12] = c.y; o[13] = c.z; o[14] = c.w;
  let d = vec3<u32>(7u) - v.xxy;
  o[15] = d.x; o[16] = d.y; o[17] = d.z;
}`, bufs: xrt.Buffers{slot(0, 0): filled(72, 0xAA), slot(0, 1): u32buf(1, 2, 3, 4, 2)}},
		4, 3, 2, 1,
		4, 6,
		3,
		1, 77, 99, 4,
		4, 6, 10, 2,
		6, 6, 5)
}

func TestWGSLMatrices(t *testing.T) {
	// m = columns (1,2),(3,4); all results are small integers, exact in f32.
	checkF32(t, prog{name: "matrices", src: hdrF + `
@compute @workgroup_size(1) fn main() {
  let m = mat2x2<f32>(vec2<f32>(inp[0], inp[1]), vec2<f32>(inp[2], inp[3]));
  let one = vec2<f32>(inp[0], inp[0]);
  let a = m * one;
  o[0] = a.x; o[1] = a.y;
  let b = one * m;
  o[2] = b.x; o[3] = b.y;
  let tr = transpose(m);
  o[4] = tr[0].x; o[5] = tr[0].y; o[6] = tr[1].x; o[7] = tr[1].y;
  o[8] = determinant(m);
  let mm = m * m;
  o[9] = mm[0].x; o[10] = mm[0].y; o[11] = mm[1].x; o[12] = mm[1].y;
  let sc = m * inp[1];
  o[13] = sc[1].y;
  let ad = m + m;
  o[14] = ad[1].x;
  // non-square: 2 columns of 3 rows times vec2 -> vec3
  let n = mat2x3<f32>(vec3<f32>(1.0, 2.0, 3.0) * inp[0], vec3<f32>(4.0, 5.0, 6.0));
  let nv = n * vec2<f32>(inp[1], inp[2]);
  o[15] = nv.x; o[16] = nv.y; o[17] = nv.z;
  let nt = transpose(n);      // 3 columns of 2 rows
  o[18] = nt[2].x; o[19] = nt[2].y;
  let vn = vec3<f32>(1.0, 1.0, inp[1]) * n;   // vec2
  o[20] = vn.x; o[21] = vn.y;
  let i = u32(inp[0]);
  o[22] = m[i].x;  // dynamic column 1 -> 3
}`, bufs: xrt.Buffers{slot(0, 0): filled(92, 0xAA), slot(0, 1): f32buf(1, 2, 3, 4)}},
		4, 6,
		3, 7,
		1, 3, 2, 4,
		-2,
		7, 10, 15, 22,
		8,          // column 1 row 1 = 4, times 2
		6,          // 3+3
		14, 19, 24, // (1,2,3)*2 + (4,5,6)*3
		3, 6,
		9, 21, // dot((1,1,2),(1,2,3)) = 9 ; dot((1,1,2),(4,5,6)) = 21
		3)
}

func TestWGSLStructLayout(t *testing.T) {
	// WGSL layout: a@0, v@16 (vec3 align 16), b@28, m@32 (3 columns, stride 16), arr@80 (stride 16), c@112, size 128.
	p := prog{name: "layout", src: `
struct S { a: u32, v: vec3<f32>, b: u32, m: mat3x3<f32>, arr: array<vec3<u32>, 2>, c: u32 }
@group(0) @binding(0) var<storage, read_write> s: S;
@group(0) @binding(1) var<storage, read> src: S;
@group(0) @binding(2) var<storage, read_write> dst: S;
@compute @workgroup_size(1) fn main() {
  s.a = 1u; s.v = vec3<f32>(2.0, 3.0, 4.0); s.b = 5u;
  s.m = mat3x3<f32>(vec3<f32>(6.0, 7.0, 8.0), vec3<f32>(9.0, 10.0, 11.0), vec3<f32>(12.0, 13.0, 14.0));
  s.arr[0] = vec3<u32>(15u, 16u, 17u); s.arr[1] = vec3<u32>(18u, 19u, 20u);
  s.c = 21u;
  dst = src;
  dst.m[1].y = src.m[2].z + src.v.y;
}`}
	srcBuf := make([]byte, 128)
	for i := 0; i < 32; i++ {
		binary.LittleEndian.PutUint32(srcBuf[4*i:], math.Float32bits(float32(100+i)))
	}
	p.bufs = xrt.Buffers{slot(0, 0): filled(128, 0xAA), slot(0, 1): srcBuf, slot(0, 2): filled(128, 0xAA)}
	const pad = 0xAAAAAAAA
	f := math.Float32bits
	for i, out := range runAll(t, p) {
		n := p.name + "@" + verName(i)
		wantU32(t, n+" s", out[slot(0, 0)], 0,
			1, pad, pad, pad, // a
			f(2), f(3), f(4), 5, // v, b
			f(6), f(7), f(8), pad, f(9), f(10), f(11), pad, f(12), f(13), f(14), pad, // m
			15, 16, 17, pad, 18, 19, 20, pad, // arr
			21, pad, pad, pad)
		// dst = src copies every member (padding untouched); then m[1].y = src.m[2].z + src.v.y
		// src word k holds float(100+k): m[2].z is word 8+8+2 = 18 -> 118 ; v.y is word 5 -> 105 ; sum 223
		want := make([]uint32, 32)
		for k := range want {
			want[k] = f(float32(100 + k))
		}
		for _, k := range []int{1, 2, 3, 11, 15, 19, 23, 27, 29, 30, 31} {
			want[k] = pad
		}
		want[13] = f(223)
		wantU32(t, n+" dst", out[slot(0, 2)], 0, want...)
	}
}

func TestWGSLRuntimeArrays(t *testing.T) {
	p := prog{name: "runtime", src: `
struct B { n: u32, data: array<vec2<u32>> }
@group(0) @binding(0) var<storage, read_write> o: array<u32>;
@group(0) @binding(1) var<storage, read_write> b: B;
@group(0) @binding(2) var<storage, read> plain: array<u32>;
@compute @workgroup_size(1) fn main() {
  o[0] = arrayLength(&b.data);
  o[1] = arrayLength(&plain);
  o[2] = arrayLength(&o);
  let last = arrayLength(&b.data) - 1u;
  b.data[last] = vec2<u32>(b.n, plain[6]);
  b.data[0].y = 9u;
}`, bufs: xrt.Buffers{slot(0, 0): filled(12, 0xAA), slot(0, 1): append(u32buf(42), filled(36, 0xBB)...), slot(0, 2): u32buf(0, 1, 2, 3, 4, 5, 66)}}
	for i, out := range runAll(t, p) {
		n := p.name + "@" + verName(i)
		// b is 40 bytes: data starts at 8 (vec2 align 8), stride 8 -> 4 elements; plain 28 bytes -> 7; o 12 bytes -> 3
		wantU32(t, n, out[slot(0, 0)], 0, 4, 7, 3)
		const bb = 0xBBBBBBBB
		wantU32(t, n+" b", out[slot(0, 1)], 0, 42, bb, bb, 9, bb, bb, bb, bb, 42, 66)
	}
}

func TestWGSLLoops(t *testing.T) {
	checkU32(t, prog{name: "loops", src: hdr + `
@compute @workgroup_size(1) fn main() {
  let n = inp[0];
  var sum = 0u;
  for (var i = 0u; i < n; i++) { sum += i; }
  o[0] = sum;
  var ev = 0u;
  for (var i = 0u; i < n; i++) { if (i % 2u == 1u) { continue; } if (i == 8u) { break; } ev += i; }
  o[1] = ev;
  var w = 0u; var k = n;
  while (k > 0u) { k = k / 2u; w++; }
  o[2] = w;
  var c = 0u; var j = 0u;
  loop {
    if (j >= n) { break; }
    c += 2u;
    continuing { j += 3u; }
  }
  o[3] = c;
  var d = 0u; var q = 0u;
  loop {
    d += q;
    continuing { q++; break if q == 5u; }
  }
  o[4] = d;
  var nest = 0u;
  for (var a = 0u; a < 4u; a++) {
    for (var b = 0u; b < 4u; b++) {
      if (b > a) { break; }
      if ((a + b) % 2u == 0u) { continue; }
      nest += a * 10u + b;
    }
  }
  o[5] = nest;
}`, bufs: xrt.Buffers{slot(0, 0): filled(24, 0xAA), slot(0, 1): u32buf(10)}},
		45,
		12, // 0+2+4+6, stop at 8
		4,  // 10 -> 5 -> 2 -> 1 -> 0
		8,  // j = 0,3,6,9 -> 4 iterations * 2
		10, // 0+1+2+3+4
		// pairs b<=a with odd a+b: (1,0)=10 (2,1)=21 (3,0)=30 (3,2)=32 -> 93
		93)
}

func TestWGSLSwitch(t *testing.T) {
	checkU32(t, prog{name: "switch", src: hdr + `
fn f(x: u32) -> u32 {
  switch x {
    case 0u: { return 100u; }
    case 1u, 2u: { return 200u + x; }
    case 5u: { }
    default: { return 900u; }
  }
  return 500u;
}
fn g(x: i32) -> u32 {
  var r = 0u;
  switch x {
    case -1: { r = 1u; }
    case 3: { r = 3u; break; }
    default: { r = 7u; }
  }
  return r;
}
@compute @workgroup_size(1) fn main() {
  for (var i = 0u; i < 7u; i++) { o[i] = f(inp[i]); }
  o[7] = g(bitcast<i32>(inp[7])); o[8] = g(3); o[9] = g(bitcast<i32>(inp[0]));
  var acc = 0u;
  for (var i = 0u; i < 6u; i++) {
    switch i {
      case 1u: { continue; }
      case 4u: { acc += 1000u; }
      default: { acc += i; }
    }
    acc += 10u;
  }
  o[10] = acc;
}`, bufs: xrt.Buffers{slot(0, 0): filled(44, 0xAA), slot(0, 1): u32buf(0, 1, 2, 3, 4, 5, 6, 0xFFFFFFFF)}},
		100, 201, 202, 900, 900, 500, 900,
		1, 3, 7,
		// i=0: +0+10; 1: skipped; 2: +2+10; 3: +3+10; 4: +1000+10; 5: +5+10 -> 1060
		1060)
}

func TestWGSLPointerParams(t *testing.T) {
	checkU32(t, prog{name: "ptrparams", src: hdr + `
var<private> pv: u32;
var<private> parr: array<u32, 4>;
fn inc(p: ptr<function, u32>, k: u32) { *p = *p + k; }
fn incp(p: ptr<private, u32>) -> u32 { let old = *p; *p = old * 2u; return old; }
fn fill(p: ptr<function, array<u32, 4>>, base: u32) { for (var i = 0u; i < 4u; i++) { (*p)[i] = base + i; } }
fn swap(a: ptr<function, u32>, b: ptr<function, u32>) { let t = *a; *a = *b; *b = t; }
fn setv(p: ptr<function, vec3<u32>>) { (*p).y = 55u; }
@compute @workgroup_size(1) fn main() {
  pv = 3u; parr = array<u32, 4>(0u, 0u, 0u, 0u);
  var x = inp[0];
  inc(&x, 5u); inc(&x, x);
  o[0] = x;
  o[1] = incp(&pv); o[2] = pv; o[3] = incp(&parr[2]); parr[2] = 4u; o[4] = incp(&parr[2]); o[5] = parr[2];
  var arr = array<u32, 4>(0u, 0u, 0u, 0u);
  fill(&arr, 10u);
  o[6] = arr[0] + arr[3];
  var a = 1u; var b = 2u;
  swap(&a, &b);
  o[7] = a * 10u + b;
  var v = vec3<u32>(1u, 2u, 3u);
  setv(&v);
  o[8] = v.x + v.y + v.z;
}`, bufs: xrt.Buffers{slot(0, 0): filled(36, 0xAA), slot(0, 1): u32buf(1)}},
		12, // (1+5)*2
		3, 6, 0, 4, 8,
		23, 21, 59)
}

func TestWGSLPrivate(t *testing.T) {
	// Private variables are per invocation.
	checkU32(t, prog{name: "private", src: hdr + `
var<private> counter: u32;
var<private> tab: array<vec2<u32>, 3>;
@compute @workgroup_size(4) fn main(@builtin(local_invocation_index) li: u32) {
  counter = 3u;
  tab = array<vec2<u32>, 3>(vec2<u32>(0u, 0u), vec2<u32>(0u, 1u), vec2<u32>(0u, 2u));
  counter += li;
  tab[li % 3u].y += 10u * li;
  o[li] = counter + tab[li % 3u].y;
}`, bufs: xrt.Buffers{slot(0, 0): filled(16, 0xAA), slot(0, 1): u32buf(2)}},
		3, 15, 27, 36) // li=3: counter 6 + tab[0].y (0 + 30)
}

func TestWGSLPrivateInit(t *testing.T) {
	// WGSL: a module-scope private variable starts with its initializer, or with the zero value.
	checkU32(t, prog{name: "private-init", suspect: "var<private> initializers and zero-initialisation are not emitted (OpVariable Private without initializer)", src: hdr + `
var<private> counter: u32 = 3u;
var<private> zeroed: array<vec2<u32>, 3>;
struct T { a: u32, b: vec3<f32>, c: array<u32, 2> }
var<private> ts: T;
var<private> pv: vec2<f32> = vec2<f32>(1.0, 2.0);
@compute @workgroup_size(2) fn main(@builtin(local_invocation_index) li: u32) {
  counter += li;
  o[li] = counter + zeroed[li].y;
  if (li == 0u) { o[2] = ts.c[1] + u32(ts.b.x) + ts.a + 9u; o[3] = u32(pv.x + pv.y); }
}`, bufs: xrt.Buffers{slot(0, 0): filled(16, 0xAA), slot(0, 1): u32buf(2)}},
		3, 4, 9, 3)
}

func TestWGSLLocalZeroInit(t *testing.T) {
	// WGSL: a function-scope `var` without initializer holds the zero value.
	checkU32(t, prog{name: "local-zero-init", suspect: "function-scope `var` without initializer is left uninitialised (OpVariable Function without initializer, no store)", src: hdr + `
struct T { a: u32, b: vec3<f32>, c: array<u32, 2> }
@compute @workgroup_size(1) fn main() {
  var loc: array<u32, 3>;
  var s: T;
  var u: u32;
  var f: f32;
  var bv: vec2<bool>;
  o[0] = loc[inp[0]] + 1u; o[1] = s.c[1] + u32(s.b.z) + 2u; o[2] = u + 3u; o[3] = u32(f) + 4u; o[4] = u32(bv.y) + 5u;
  u += 7u;
  o[5] = u;
}`, bufs: xrt.Buffers{slot(0, 0): filled(24, 0xAA), slot(0, 1): u32buf(2)}},
		1, 2, 3, 4, 5, 7)
}

func TestWGSLWorkgroupBarrier(t *testing.T) {
	checkU32(t, prog{name: "barrier", src: hdr + `
var<workgroup> sh: array<u32, 4>;
var<workgroup> zeroed: array<u32, 4>;
var<workgroup> total: u32;
@compute @workgroup_size(4) fn main(@builtin(local_invocation_index) li: u32, @builtin(workgroup_id) wg: vec3<u32>) {
  sh[li] = li * 10u + wg.x * 100u;
  workgroupBarrier();
  o[wg.x * 8u + li] = sh[(li + 1u) % 4u];
  o[wg.x * 8u + 4u + li] = zeroed[li];
  workgroupBarrier();
  if (li == 0u) { total = sh[0] + sh[1] + sh[2] + sh[3]; }
  workgroupBarrier();
  let tt = workgroupUniformLoad(&total);
  if (li == 3u) { o[16u + wg.x] = tt; }
}`, groups: [3]uint32{2, 1, 1}, bufs: xrt.Buffers{slot(0, 0): filled(72, 0xAA), slot(0, 1): u32buf(0)}},
		10, 20, 30, 0, 0, 0, 0, 0,
		110, 120, 130, 100, 0, 0, 0, 0,
		60, 460)
}

func TestWGSLAtomics(t *testing.T) {
	p := prog{name: "atomics", src: `
struct A { cnt: atomic<u32>, mx: atomic<u32>, mn: atomic<i32>, bits: atomic<u32>, ex: atomic<u32>, cas: atomic<u32>, sub: atomic<i32>, smax: atomic<i32> }
@group(0) @binding(0) var<storage, read_write> o: array<u32>;
@group(0) @binding(1) var<storage, read_write> a: A;
var<workgroup> wcnt: atomic<u32>;
@compute @workgroup_size(4) fn main(@builtin(global_invocation_id) gid: vec3<u32>, @builtin(local_invocation_index) li: u32, @builtin(workgroup_id) wg: vec3<u32>) {
  let g = gid.x;
  o[g] = atomicAdd(&a.cnt, 1u);
  atomicMax(&a.mx, g * 3u);
  atomicMin(&a.mn, 2 - i32(g));
  atomicOr(&a.bits, 1u << g);
  atomicSub(&a.sub, 1);
  atomicMax(&a.smax, i32(g) - 5);
  atomicAdd(&wcnt, li + 1u);
  workgroupBarrier();
  if (li == 0u) {
    o[8u + wg.x] = atomicLoad(&wcnt);
    if (wg.x == 1u) {
      o[10] = atomicExchange(&a.ex, 77u);
      let r1 = atomicCompareExchangeWeak(&a.cas, 5u, 6u);
      o[11] = r1.old_value; o[12] = u32(r1.exchanged);
      let r2 = atomicCompareExchangeWeak(&a.cas, 5u, 9u);
      o[13] = r2.old_value; o[14] = u32(r2.exchanged);
      atomicXor(&a.bits, 0x81u);
      atomicAnd(&a.bits, 0xFFFFFFFDu);
      atomicStore(&a.ex, atomicLoad(&a.ex) + 1u);
    }
  }
}`, groups: [3]uint32{2, 1, 1}, bufs: xrt.Buffers{slot(0, 0): filled(60, 0xAA), slot(0, 1): u32buf(0, 0, 100, 0, 11, 5, 0, 0x80000000)}}
	for i, out := range runAll(t, p) {
		n := p.name + "@" + verName(i)
		// deterministic order: group 0 invocations 0..3, then group 1
		wantU32(t, n+" o", out[slot(0, 0)], 0, 0, 1, 2, 3, 4, 5, 6, 7,
			10, 10, // 1+2+3+4 per workgroup
			11, 5, 1, 6, 0)
		// cnt 8; mx 21; mn 2-7=-5; bits 0xFF ^ 0x81 = 0x7E & ~2 = 0x7C; ex 78; cas 6; sub -8; smax = 7-5 = 2
		wantU32(t, n+" a", out[slot(0, 1)], 0, 8, 21, 0xFFFFFFFB, 0x7C, 78, 6, 0xFFFFFFF8, 2)
	}
}

func TestWGSLFloatOps(t *testing.T) {
	in := []float32{0.1, 0.2, 1, 3, 2.5, 3.5, -2.5, 16, 4, 2, 10, 8, 0.5, -0.75, 5.5, -5.5}
	p := prog{name: "floats", src: hdrF + `
@compute @workgroup_size(1) fn main() {
  o[0] = inp[0] + inp[1];
  o[1] = inp[2] / inp[3];
  o[2] = inp[0] * inp[1] - inp[3];
  o[3] = round(inp[4]); o[4] = round(inp[5]); o[5] = round(inp[6]);
  o[6] = floor(inp[6]); o[7] = ceil(inp[6]); o[8] = trunc(inp[6]); o[9] = fract(inp[6]);
  o[10] = abs(inp[6]); o[11] = sign(inp[6]); o[12] = sign(inp[3] - inp[3]);
  o[13] = sqrt(inp[7]); o[14] = inverseSqrt(inp[8]);
  o[15] = pow(inp[9], inp[10]); o[16] = exp2(inp[3]); o[17] = log2(inp[11]);
  o[18] = min(inp[4], inp[6]); o[19] = max(inp[4], inp[6]); o[20] = clamp(inp[7], inp[2], inp[3]);
  o[21] = mix(inp[2], inp[3], inp[12]); o[22] = step(inp[2], inp[12]); o[23] = step(inp[12], inp[2]);
  o[24] = smoothstep(inp[2] - inp[2], inp[2], inp[12]);
  o[25] = fma(inp[9], inp[3], inp[2]);
  o[26] = inp[14] % inp[9]; o[27] = inp[15] % -inp[9]; o[28] = inp[7] % inp[3];
  o[29] = -inp[13];
  o[30] = saturate(inp[13]) + saturate(inp[5]);
  o[31] = ldexp(inp[12], 3);
  let v = vec2<f32>(inp[0], inp[1]) * vec2<f32>(inp[3], inp[8]) + vec2<f32>(inp[2]);
  o[32] = v.x; o[33] = v.y;
  o[34] = f32(inp[0] < inp[1]) + 2.0 * f32(inp[0] >= inp[1]) + 4.0 * f32(inp[0] != inp[0]);
}`, bufs: xrt.Buffers{slot(0, 0): filled(140, 0xAA), slot(0, 1): f32buf(in...)}}
	a, b := in[0], in[1]
	want := []float32{
		float32(a + b), float32(float32(1) / float32(3)), float32(float32(a*b) - 3),
		2, 4, -2, // round half to even
		-3, -2, -2, 0.5, // floor ceil trunc fract(-2.5) = -2.5 - (-3)
		2.5, -1, 0,
		4, 0.5,
		1024, 8, 3,
		-2.5, 2.5, 3,
		2,    // 1*(1-0.5) + 3*0.5
		0, 1, // step(edge=1, x=0.5)=0 ; step(0.5, 1)=1
		0.5, // t=0.5: 0.25*(3-1)
		7,
		1.5, -1.5, 1, // 5.5 % 2 ; -5.5 % -2 ; 16 % 3
		0.75,
		1, // saturate(-0.75)=0 + saturate(3.5)=1
		4,
		float32(float32(a*3) + 1), float32(float32(b*4) + 1),
		1,
	}
	for i, out := range runAll(t, p) {
		wantF32(t, p.name+"@"+verName(i), out[slot(0, 0)], 0, want...)
	}
}

func TestWGSLFloatRemSign(t *testing.T) {
	// WGSL: e1 % e2 = e1 - e2 * trunc(e1 / e2): the result has the sign of the dividend.
	checkF32(t, prog{name: "float-rem-sign", suspect: "float % is emitted as OpFMod (sign of the divisor) instead of OpFRem (sign of the dividend)", src: hdrF + `
@compute @workgroup_size(1) fn main() {
  o[0] = inp[0] % inp[1]; o[1] = inp[2] % inp[3];
  let v = vec2<f32>(inp[0], inp[2]) % vec2<f32>(inp[1], inp[3]);
  o[2] = v.x; o[3] = v.y;
}`, bufs: xrt.Buffers{slot(0, 0): filled(16, 0xAA), slot(0, 1): f32buf(-5.5, 2, 5.5, -2)}},
		-1.5, 1.5, -1.5, 1.5)
}

func TestWGSLConversions(t *testing.T) {
	p := prog{name: "conv", src: `
@group(0) @binding(0) var<storage, read_write> o: array<u32>;
@group(0) @binding(1) var<storage, read> fi: array<f32>;
@group(0) @binding(2) var<storage, read> ui: array<u32>;
@group(0) @binding(3) var<storage, read_write> fo: array<f32>;
@compute @workgroup_size(1) fn main() {
  o[0] = bitcast<u32>(i32(fi[0])); o[1] = bitcast<u32>(i32(fi[1]));
  o[2] = u32(fi[0]); o[3] = u32(fi[2]);
  o[4] = bitcast<u32>(i32(fi[3])); o[5] = bitcast<u32>(i32(fi[4]));
  o[6] = u32(fi[6]); o[7] = u32(fi[5]);
  fo[0] = f32(bitcast<i32>(ui[0])); fo[1] = f32(ui[0]); fo[2] = f32(ui[1]); fo[3] = f32(bitcast<i32>(ui[2]));
  o[8] = u32(bitcast<i32>(ui[2])); o[9] = bitcast<u32>(i32(ui[0]));
  o[10] = u32(ui[1] != 0u) + u32(ui[3] != 0u) * 2u; o[11] = u32(bool(ui[1])) + u32(bool(fi[5]));
  fo[4] = bitcast<f32>(ui[4]); o[12] = bitcast<u32>(fi[0]);
  let v = vec2<i32>(vec2<f32>(fi[0], fi[1]));
  o[13] = bitcast<u32>(v.x); o[14] = bitcast<u32>(v.y);
  fo[5] = f32(ui[5]);
  fo[6] = f32(ui[1] == 16777217u); fo[7] = f32(vec2<u32>(ui[1], 3u).y);
}`, bufs: xrt.Buffers{
		slot(0, 0): filled(60, 0xAA),
		slot(0, 1): f32buf(3.7, -3.7, 4294967040, 2147483520, -2147483648, 0, -0.99),
		slot(0, 2): u32buf(0xFFFFFFFF, 16777217, 0xFFFFFFFB, 0, 0x40490FDB, 0xFFFFFF7F),
		slot(0, 3): filled(32, 0xAA)}}
	for i, out := range runAll(t, p) {
		n := p.name + "@" + verName(i)
		wantU32(t, n, out[slot(0, 0)], 0,
			3, 0xFFFFFFFD, // trunc toward zero
			3, 4294967040,
			0x7FFFFF80, 0x80000000, // largest f32 below 2^31, and -2^31
			0, 0, // trunc(-0.99) = -0 ; 0.0
			0xFFFFFFFB, 0xFFFFFFFF, // i32 -> u32 and u32 -> i32 reinterpret
			1, 1, // bool conversions
			math.Float32bits(3.7),
			3, 0xFFFFFFFD)
		wantF32(t, n+" fo", out[slot(0, 3)], 0,
			-1, 4294967296, 16777216, -5, math.Float32frombits(0x40490FDB),
			4294967040, // 0xFFFFFF7F = 2^32 - 129 rounds down to 2^32 - 256
			1, 3)
	}
}

func TestWGSLConvSaturate(t *testing.T) {
	// WGSL: f32 -> i32/u32 conversion clamps to the target range (NaN -> 0 is
	// not required, so NaN is not tested). OpConvertFToS/U are undefined there.
	p := prog{name: "conv-saturate", suspect: "f32->i32/u32 conversion is a bare OpConvertFToS/U without clamping (undefined outside the target range)", src: `
@group(0) @binding(0) var<storage, read_write> o: array<u32>;
@group(0) @binding(1) var<storage, read> fi: array<f32>;
@compute @workgroup_size(1) fn main() {
  o[0] = bitcast<u32>(i32(fi[0])); o[1] = bitcast<u32>(i32(fi[1]));
  o[2] = u32(fi[0]); o[3] = u32(fi[2]); o[4] = u32(fi[3]);
}`, bufs: xrt.Buffers{slot(0, 0): filled(20, 0xAA), slot(0, 1): f32buf(1e10, -1e10, -3.7, 4294967296)}}
	checkU32(t, p, 0x7FFFFFFF, 0x80000000, 0xFFFFFFFF, 0, 0xFFFFFFFF)
}

func TestWGSLPackUnpack(t *testing.T) {
	p := prog{name: "pack", src: `
@group(0) @binding(0) var<storage, read_write> o: array<u32>;
@group(0) @binding(1) var<storage, read> fi: array<f32>;
@group(0) @binding(2) var<storage, read> ui: array<u32>;
@group(0) @binding(3) var<storage, read_write> fo: array<f32>;
@compute @workgroup_size(1) fn main() {
  o[0] = pack4x8unorm(vec4<f32>(fi[0], fi[1], fi[2], fi[3]));
  o[1] = pack4x8snorm(vec4<f32>(fi[4], fi[0], fi[1], fi[2]));
  o[2] = pack2x16unorm(vec2<f32>(fi[1], fi[2]));
  o[3] = pack2x16snorm(vec2<f32>(fi[4], fi[1]));
  o[4] = pack2x16float(vec2<f32>(fi[2], fi[5]));
  let a = unpack4x8unorm(ui[0]);
  fo[0] = a.x; fo[1] = a.y; fo[2] = a.z; fo[3] = a.w;
  let b = unpack4x8snorm(ui[1]);
  fo[4] = b.x; fo[5] = b.y; fo[6] = b.z; fo[7] = b.w;
  let c = unpack2x16float(ui[2]);
  fo[8] = c.x; fo[9] = c.y;
  let d = unpack2x16unorm(ui[3]);
  fo[10] = d.x; fo[11] = d.y;
  let e = unpack2x16snorm(ui[4]);
  fo[12] = e.x; fo[13] = e.y;
  o[5] = pack4xU8(vec4<u32>(ui[5], 2u, 3u, 0x1FFu));
  let g = unpack4xI8(ui[1]);
  o[6] = bitcast<u32>(g.x); o[7] = bitcast<u32>(g.w);
}`, bufs: xrt.Buffers{
		slot(0, 0): filled(32, 0xAA),
		slot(0, 1): f32buf(0, 0.5, 1, 2, -1, -2),
		slot(0, 2): u32buf(0x00FF8000, 0x7F810080, 0xC0003C00, 0xFFFF8000, 0x40008001, 1),
		slot(0, 3): filled(56, 0xAA)}}
	for i, out := range runAll(t, p) {
		n := p.name + "@" + verName(i)
		wantU32(t, n, out[slot(0, 0)], 0,
			0xFFFF8000, // 0, floor(0.5+127.5)=128, 255, clamp(2)=255
			0x7F400081, // -127=0x81, 0, floor(0.5+63.5)=64, 127
			0xFFFF8000, // 32768, 65535
			0x40008001, // -32767, 16384
			0xC0003C00, // 1.0h, -2.0h
			0xFF030201, // low 8 bits of each
			0xFFFFFF80, 0x7F)
		wantF32(t, n+" fo", out[slot(0, 3)], 0,
			0, float32(128)/float32(255), 1, 0,
			-1, 0, -1, 1, // 0x80 -> max(-128/127,-1); 0x00; 0x81 -> -1; 0x7F -> 1
			1, -2,
			float32(32768)/float32(65535), 1,
			float32(-32767)/float32(32767), float32(16384)/float32(32767))
	}
}

func TestWGSLArrayOfStructs(t *testing.T) {
	// P: pos@0 (12 bytes), id@12, size 16. Q: a@0, b@8 (vec2 align 8), size 16.
	p := prog{name: "aos", src: `
struct P { pos: vec3<f32>, id: u32 }
struct Q { a: u32, b: vec2<f32> }
@group(0) @binding(0) var<storage, read_write> ps: array<P>;
@group(0) @binding(1) var<storage, read_write> qs: array<Q, 2>;
@group(0) @binding(2) var<uniform> un: Q;
@compute @workgroup_size(3) fn main(@builtin(global_invocation_id) gid: vec3<u32>) {
  let i = gid.x;
  ps[i].id = i + un.a;
  ps[i].pos = vec3<f32>(f32(i), un.b.x, un.b.y);
  if (i < 2u) { qs[i] = Q(i * 2u, vec2<f32>(f32(i) + 0.5, -1.0)); }
}`, bufs: xrt.Buffers{slot(0, 0): filled(48, 0xAA), slot(0, 1): filled(32, 0xAA), slot(0, 2): append(u32buf(7, 0xDEAD), f32buf(1.5, 2.5)...)}}
	f := math.Float32bits
	const pad = 0xAAAAAAAA
	for i, out := range runAll(t, p) {
		n := p.name + "@" + verName(i)
		wantU32(t, n+" ps", out[slot(0, 0)], 0,
			f(0), f(1.5), f(2.5), 7, f(1), f(1.5), f(2.5), 8, f(2), f(1.5), f(2.5), 9)
		wantU32(t, n+" qs", out[slot(0, 1)], 0,
			0, pad, f(0.5), f(-1), 2, pad, f(1.5), f(-1))
	}
}

func TestWGSLBuiltinsDispatch(t *testing.T) {
	// workgroup_size (2,2,1), dispatch (2,1,2): 16 invocations.
	p := prog{name: "dispatch", src: `
@group(0) @binding(0) var<storage, read_write> o: array<u32>;
@compute @workgroup_size(2, 2, 1) fn main(
  @builtin(global_invocation_id) gid: vec3<u32>, @builtin(local_invocation_id) lid: vec3<u32>,
  @builtin(local_invocation_index) li: u32, @builtin(workgroup_id) wg: vec3<u32>, @builtin(num_workgroups) nwg: vec3<u32>) {
  let flat = (wg.z * nwg.x + wg.x) * 4u + li;
  o[flat] = gid.x | (gid.y << 4u) | (gid.z << 8u) | (lid.x << 12u) | (lid.y << 16u) | (li << 20u) | (nwg.x << 24u) | (nwg.z << 28u);
}`, groups: [3]uint32{2, 1, 2}, bufs: xrt.Buffers{slot(0, 0): filled(64, 0xAA)}}
	var want []uint32
	for wz := uint32(0); wz < 2; wz++ {
		for wx := uint32(0); wx < 2; wx++ {
			for ly := uint32(0); ly < 2; ly++ {
				for lx := uint32(0); lx < 2; lx++ {
					li := ly*2 + lx
					want = append(want, (wx*2+lx)|(ly<<4)|(wz<<8)|(lx<<12)|(ly<<16)|(li<<20)|(2<<24)|(2<<28))
				}
			}
		}
	}
	checkU32(t, p, want...)
}

func TestWGSLMatrixStorage(t *testing.T) {
	// storage: mat4x3<f32> = 4 columns, stride 16 (48+16=64 bytes); mat2x4 = 2 columns stride 16.
	// uniform: mat2x2<f32> has columns at 0 and 8 in the WGSL layout.
	p := prog{name: "matstore", src: `
struct M { a: mat4x3<f32>, b: mat2x4<f32>, c: mat2x2<f32>, arr: array<mat2x2<f32>, 2> }
struct U { m: mat2x2<f32>, k: f32 }
@group(0) @binding(0) var<storage, read_write> o: array<f32>;
@group(0) @binding(1) var<storage, read_write> m: M;
@group(0) @binding(2) var<uniform> u: U;
@compute @workgroup_size(1) fn main() {
  let i = u32(u.k);            // 1
  o[0] = m.a[i].z;              // column 1 row 2 -> word 4+2
  o[1] = m.a[3][i];             // word 12+1
  o[2] = m.b[i].w;              // b at 64: word 16+4+3
  o[3] = m.c[1].x;              // c at 96: word 24+2
  o[4] = m.arr[i][0].y;         // arr at 112, stride 16: word 28+4+1
  let full = m.a;
  o[5] = full[2].y;             // word 8+1
  o[6] = u.m[1].x; o[7] = u.m[0].y;
  let um = u.m;
  let r = um * vec2<f32>(1.0, 1.0);
  o[8] = r.x; o[9] = r.y;
  m.a[i] = vec3<f32>(-1.0, -2.0, -3.0);
  m.b[1][i] = -4.0;
  m.c = mat2x2<f32>(vec2<f32>(-5.0, -6.0), vec2<f32>(-7.0, -8.0));
  m.arr[1] = transpose(m.c);
}`}
	mb := make([]float32, 36)
	for i := range mb {
		mb[i] = float32(i)
	}
	p.bufs = xrt.Buffers{slot(0, 0): filled(40, 0xAA), slot(0, 1): f32buf(mb...), slot(0, 2): f32buf(10, 20, 30, 40, 1, 0, 0, 0)}
	for i, out := range runAll(t, p) {
		n := p.name + "@" + verName(i)
		wantF32(t, n+" o", out[slot(0, 0)], 0, 6, 13, 23, 26, 33, 9, 30, 20, 40, 60)
		want := append([]float32(nil), mb...)
		want[4], want[5], want[6] = -1, -2, -3
		want[16+4+1] = -4
		want[24], want[25], want[26], want[27] = -5, -6, -7, -8
		want[32], want[33], want[34], want[35] = -5, -7, -6, -8
		wantF32(t, n+" m", out[slot(0, 1)], 0, want...)
	}
}

func TestWGSLFunctionsComposites(t *testing.T) {
	checkU32(t, prog{name: "composites", src: hdr + `
struct S2 { k: u32, v: vec2<u32>, arr: array<u32, 3> }
fn mk(i: u32) -> S2 { return S2(i, vec2<u32>(i + 1u, i + 2u), array<u32, 3>(i * 10u, i * 20u, i * 30u)); }
fn sum(a: array<u32, 3>) -> u32 { return a[0] + a[1] + a[2]; }
fn fib(n: u32) -> u32 { var a = 0u; var b = 1u; for (var i = 0u; i < n; i++) { let t = a + b; a = b; b = t; } return a; }
@compute @workgroup_size(1) fn main() {
  let s = mk(inp[0]);
  o[0] = s.k + s.v.y + sum(s.arr);
  var t = s;
  t.arr[inp[1]] = 1000u;
  t.v.x = 5u;
  o[1] = sum(t.arr) + t.v.x + s.arr[1];
  var grid: array<array<u32, 2>, 3>;
  for (var i = 0u; i < 3u; i++) { for (var j = 0u; j < 2u; j++) { grid[i][j] = i * 2u + j; } }
  let g2 = grid;
  o[2] = g2[2][1] * 100u + g2[inp[1]][inp[0] - 3u];
  o[3] = fib(10u) + fib(inp[0]);
  let arr2 = array<vec2<u32>, 2>(vec2<u32>(1u, 2u), vec2<u32>(3u, 4u));
  o[4] = arr2[inp[1]].y;
}`, bufs: xrt.Buffers{slot(0, 0): filled(20, 0xAA), slot(0, 1): u32buf(3, 1)}},
		// s = {3,(4,5),(30,60,90)} -> 3+5+180
		188,
		// t.arr = (30,1000,90) -> 1120 + 5 + 60
		1185,
		// g2[2][1] = 5 -> 500 ; g2[1][0] = 2
		502,
		57, // 55 + 2
		4)
}

func TestWGSLVectorFloatBuiltins(t *testing.T) {
	p := prog{name: "vecfloat", src: hdrF + `
@compute @workgroup_size(1) fn main() {
  let a = vec3<f32>(inp[0], inp[1], inp[2]);
  let b = vec3<f32>(inp[3], inp[4], inp[5]);
  o[0] = dot(a, b);
  let c = cross(a, b);
  o[1] = c.x; o[2] = c.y; o[3] = c.z;
  o[4] = length(vec2<f32>(inp[2], inp[3]));
  o[5] = distance(vec2<f32>(inp[0], inp[0]), vec2<f32>(inp[3], inp[4]));
  let n = normalize(vec2<f32>(inp[2], inp[3]));
  o[6] = n.x; o[7] = n.y;
  let r = reflect(vec2<f32>(inp[0], -inp[0]), vec2<f32>(inp[0] - inp[0], inp[0]));
  o[8] = r.x; o[9] = r.y;
  let ff = faceForward(a, b, a);
  o[10] = ff.x;
  o[11] = length(inp[5] - inp[5] - inp[1]);
  let mx = max(a, b.zyx); o[12] = mx.x; o[13] = mx.z;
  let cl = clamp(b, vec3<f32>(inp[4]), vec3<f32>(inp[4] + inp[0]));
  o[14] = cl.x; o[15] = cl.y; o[16] = cl.z;
  let ab = abs(-a); o[17] = ab.z;
}`, bufs: xrt.Buffers{slot(0, 0): filled(72, 0xAA), slot(0, 1): f32buf(1, 2, 3, 4, 5, 6)}}
	checkF32(t, p,
		32,        // 4+10+18
		-3, 6, -3, // (2*6-3*5, 3*4-1*6, 1*5-2*4)
		5, // |(3,4)|
		5, // |(1,1)-(4,5)| = |(-3,-4)|
		float32(3)/float32(5), float32(4)/float32(5),
		1, 1, // reflect((1,-1), n=(0,1)) = I - 2*dot(N,I)*N = (1,-1) + 2*(0,1)
		-1, // dot(b,a) = 32 >= 0 -> -a
		2,
		6, 4, // max((1,2,3),(6,5,4))
		5, 5, 6,
		3)
}

func TestWGSLIntBuiltins(t *testing.T) {
	checkU32(t, prog{name: "intbuiltins", src: hdr + `
@compute @workgroup_size(1) fn main() {
  let m5 = bitcast<i32>(inp[0]); let mn = bitcast<i32>(inp[1]);
  o[0] = bitcast<u32>(abs(m5)); o[1] = bitcast<u32>(abs(mn));
  o[2] = bitcast<u32>(min(m5, 3)); o[3] = bitcast<u32>(max(m5, 3));
  o[4] = min(inp[0], 3u); o[5] = max(inp[0], 3u);
  o[6] = bitcast<u32>(clamp(m5, -2, 2)); o[7] = clamp(inp[2], 10u, 20u);
  o[8] = bitcast<u32>(sign(m5)); o[9] = bitcast<u32>(sign(mn - mn)); o[10] = bitcast<u32>(sign(-m5));
  o[11] = bitcast<u32>(dot(vec3<i32>(1, 2, 3), vec3<i32>(m5, 5, 6)));
  o[12] = dot(vec2<u32>(inp[2], 2u), vec2<u32>(3u, inp[2]));
  let v = abs(vec2<i32>(m5, 4)); o[13] = bitcast<u32>(v.x + v.y);
}`, bufs: xrt.Buffers{slot(0, 0): filled(60, 0xAA), slot(0, 1): u32buf(0xFFFFFFFB, 0x80000000, 7)}},
		5, 0x80000000,
		0xFFFFFFFB, 3,
		3, 0xFFFFFFFB,
		0xFFFFFFFE, 10,
		0xFFFFFFFF, 0, 1,
		23, // -5+10+18
		35, // 21+14
		9)
}

func TestWGSLClampInverted(t *testing.T) {
	// WGSL defines integer clamp(e, low, high) = min(max(e, low), high) even when
	// low > high: min(max(-5, 2), -2) = -2 and min(max(7u, 20u), 10u) = 10u.
	// GLSL.std.450 SClamp/UClamp leave minVal > maxVal undefined.
	checkU32(t, prog{name: "clamp-inverted", suspect: "integer clamp() is emitted as GLSL.std.450 SClamp/UClamp, whose result is undefined when low > high (WGSL defines it)", src: hdr + `
@compute @workgroup_size(1) fn main() {
  o[0] = bitcast<u32>(clamp(bitcast<i32>(inp[0]), bitcast<i32>(inp[1]), bitcast<i32>(inp[2])));
  o[1] = clamp(inp[3], inp[4], inp[5]);
}`, bufs: xrt.Buffers{slot(0, 0): filled(8, 0xAA), slot(0, 1): u32buf(0xFFFFFFFB, 2, 0xFFFFFFFE, 7, 20, 10)}},
		0xFFFFFFFE, 10)
}

func TestWGSLBoolLogic(t *testing.T) {
	checkU32(t, prog{name: "bools", src: hdr + `
var<private> calls: u32;
fn side(v: bool) -> bool { calls += 1u; return v; }
@compute @workgroup_size(1) fn main() {
  calls = 0u;
  let t = inp[0] == 1u; let f = inp[0] == 2u;
  o[0] = u32(t && f) | (u32(t || f) << 1u) | (u32(!t) << 2u) | (u32(t != f) << 3u) | (u32(t == f) << 4u) | (u32(t & f) << 5u) | (u32(t | f) << 6u);
  let r1 = f && side(true);   // short-circuit: side not called
  let r2 = t || side(true);   // short-circuit
  let r3 = t && side(false);  // called
  o[1] = calls; o[2] = u32(r1) + 2u * u32(r2) + 4u * u32(r3);
  let bv = vec3<bool>(t, f, t);
  let nb = !bv;
  o[3] = u32(nb.x) + 2u * u32(nb.y) + 4u * u32(nb.z);
  var acc = 0u;
  if (t) { if (f) { acc = 1u; } else if (inp[0] > 0u) { acc = 2u; } else { acc = 3u; } }
  o[4] = acc;
}`, bufs: xrt.Buffers{slot(0, 0): filled(20, 0xAA), slot(0, 1): u32buf(1)}},
		0b1001010, 1, 2, 2, 2)
}

func TestWGSLLocalVarInLoop(t *testing.T) {
	// WGSL: a `var` declared in a loop body is re-initialised on every iteration.
	checkU32(t, prog{name: "loopvar", src: hdr + `
@compute @workgroup_size(1) fn main() {
  for (var i = 0u; i < 4u; i++) {
    var t = inp[1];
    t += i + inp[0];
    o[i] = t;
  }
}`, bufs: xrt.Buffers{slot(0, 0): filled(16, 0xAA), slot(0, 1): u32buf(1, 0)}},
		1, 2, 3, 4)
	checkU32(t, prog{name: "loopvar-noinit", suspect: "`var t: u32;` in a loop body is not zeroed on every iteration", src: hdr + `
@compute @workgroup_size(1) fn main() {
  for (var i = 0u; i < 4u; i++) {
    var t: u32;
    t += i + inp[0];
    o[i] = t;
  }
}`, bufs: xrt.Buffers{slot(0, 0): filled(16, 0xAA), slot(0, 1): u32buf(1, 0)}},
		1, 2, 3, 4)
}

func TestWGSLOutOfBoundsTraps(t *testing.T) {
	// Interpreter check: an index outside a fixed-size array inside a buffer
	// must trap in TrapMode and must not trap with TrapMode off.
	src := `
struct S { a: array<u32, 4>, tail: u32 }
@group(0) @binding(0) var<storage, read_write> s: S;
@group(0) @binding(1) var<storage, read> inp: array<u32>;
@compute @workgroup_size(1) fn main() { s.a[inp[0]] = 5u; s.tail = s.a[inp[1]]; }`
	bin, err := compileWGSL(src, spirv.Version1_3)
	if err != nil {
		t.Fatal(err)
	}
	m, err := Parse(bin)
	if err != nil {
		t.Fatal(err)
	}
	mk := func() xrt.Buffers { return xrt.Buffers{slot(0, 0): make([]byte, 20), slot(0, 1): u32buf(7, 2)} }
	res, err := Run(m, "main", mk(), xrt.Options{TrapMode: true})
	if err != nil {
		t.Fatal(err)
	}
	if len(res.Traps) == 0 {
		t.Logf("no trap: naga clamps or guards the access (bounds policy active)")
	} else if res.Traps[0].Kind != xrt.TrapOOB {
		t.Errorf("first trap %v, want out-of-object-access", res.Traps[0])
	}
	res, err = Run(m, "main", mk(), xrt.Options{TrapMode: false})
	if err != nil {
		t.Fatal(err)
	}
	if len(res.Traps) != 0 {
		t.Errorf("traps recorded with TrapMode off: %v", res.Traps[0])
	}
	// in range: no trap
	b := xrt.Buffers{slot(0, 0): make([]byte, 20), slot(0, 1): u32buf(3, 3)}
	res, err = Run(m, "main", b, xrt.Options{TrapMode: true})
	if err != nil || len(res.Traps) != 0 {
		t.Fatalf("in-range run: err=%v traps=%v", err, res.Traps)
	}
	wantU32(t, "oob in-range", b[slot(0, 0)], 0, 0, 0, 0, 5, 5)
}

func TestWGSLStepBudgetAndMissingBuffer(t *testing.T) {
	src := hdr + `@compute @workgroup_size(1) fn main() { var i = 0u; loop { i += inp[0]; if (i == 0xFFFFFFFFu) { break; } } o[0] = i; }`
	bin, err := compileWGSL(src, spirv.Version1_3)
	if err != nil {
		t.Fatal(err)
	}
	m, err := Parse(bin)
	if err != nil {
		t.Fatal(err)
	}
	_, err = Run(m, "main", xrt.Buffers{slot(0, 0): make([]byte, 4), slot(0, 1): u32buf(0)}, xrt.Options{MaxSteps: 5000})
	if u, ok := err.(*xrt.Unsupported); !ok || u.What != "step budget" {
		t.Errorf("infinite loop: err = %v, want Unsupported{step budget}", err)
	}
	_, err = Run(m, "main", xrt.Buffers{slot(0, 0): make([]byte, 4)}, xrt.Options{})
	if err == nil {
		t.Errorf("missing buffer: no error")
	} else if _, ok := err.(*xrt.Unsupported); ok {
		t.Errorf("missing buffer must be a plain error, got %v", err)
	}
	if _, err = Run(m, "nope", xrt.Buffers{}, xrt.Options{}); err == nil {
		t.Errorf("unknown entry point: no error")
	}
}

func TestWGSLMathBuiltins(t *testing.T) {
	// Arguments chosen so that the mathematically exact result is representable
	// (correctly rounded and faithfully rounded implementations agree).
	p := prog{name: "math", src: hdrF + `
@group(0) @binding(2) var<storage, read_write> oi: array<i32>;
@compute @workgroup_size(1) fn main() {
  let z = inp[0]; let one = inp[1];
  o[0] = sin(z); o[1] = cos(z); o[2] = tan(z); o[3] = exp(z); o[4] = log(one);
  o[5] = asin(z); o[6] = acos(one); o[7] = atan(z); o[8] = atan2(z, one);
  o[9] = sinh(z); o[10] = cosh(z); o[11] = tanh(z); o[12] = asinh(z); o[13] = acosh(one); o[14] = atanh(z);
  let m3 = mat3x3<f32>(vec3<f32>(one, 2.0, 3.0), vec3<f32>(z, one, 4.0), vec3<f32>(5.0, 6.0, z));
  o[15] = determinant(m3);
  let m4 = mat4x4<f32>(vec4<f32>(one, z, z, z), vec4<f32>(7.0, 2.0, z, z), vec4<f32>(8.0, 9.0, 3.0, z), vec4<f32>(5.0, 6.0, 7.0, 4.0));
  o[16] = determinant(m4);
  let mf = modf(inp[2]); o[17] = mf.fract; o[18] = mf.whole;
  let mg = modf(-inp[2]); o[19] = mg.fract; o[20] = mg.whole;
  let fr = frexp(inp[3]); o[21] = fr.fract; oi[0] = fr.exp;
  let fs = frexp(inp[4]); o[22] = fs.fract; oi[1] = fs.exp;
  let rf = refract(vec2<f32>(z, -one), vec2<f32>(z, one), inp[5]);
  o[23] = rf.x; o[24] = rf.y;
  o[25] = quantizeToF16(inp[6]);
  let t4 = m4 * vec4<f32>(one, one, one, one);
  o[26] = t4.x; o[27] = t4.y; o[28] = t4.z; o[29] = t4.w;
  let mv = modf(vec2<f32>(inp[2], inp[4])); o[30] = mv.fract.y; o[31] = mv.whole.x;
  o[32] = dot(vec4<f32>(one, 2.0, 3.0, 4.0), m4[3]);
  oi[2] = dot4I8Packed(bitcast<u32>(oi[4]), bitcast<u32>(oi[5]));
  oi[3] = bitcast<i32>(dot4U8Packed(bitcast<u32>(oi[4]), bitcast<u32>(oi[5])));
}`, bufs: xrt.Buffers{slot(0, 0): filled(132, 0xAA), slot(0, 1): f32buf(0, 1, 2.75, 8, 0.375, 0.5, 0.1),
		slot(0, 2): u32buf(9, 9, 9, 9, 0x01FF02FE, 0x03040506)}}
	for i, out := range runAll(t, p) {
		n := p.name + "@" + verName(i)
		wantF32(t, n, out[slot(0, 0)], 0,
			0, 1, 0, 1, 0,
			0, 0, 0, 0,
			0, 1, 0, 0, 0, 0,
			1,  // rows (1,0,5),(2,1,6),(3,4,0): 1*(0-24) - 0 + 5*(8-3)
			24, // triangular: product of the diagonal
			0.75, 2, -0.75, -2,
			0.5, 0.75, // 8 = 0.5 * 2^4 ; 0.375 = 0.75 * 2^-1
			0, -1, // eta*I - (eta*dot(N,I) + sqrt(k))*N with dot = -1, k = 1
			0.0999755859375,
			21, 17, 10, 4, // row sums of m4
			0.375, 2,
			54) // (1,2,3,4).(5,6,7,4) = 5+12+21+16
		wantU32(t, n+" oi", out[slot(0, 2)], 0, 4, 0xFFFFFFFF,
			0xFFFFFFFD, // (-2*6)+(2*5)+(-1*4)+(1*3) = -3
			254*6+2*5+255*4+1*3)
	}
}

func TestWGSLMiscLowering(t *testing.T) {
	// constructs that force the compiler to spill values to memory or to pass
	// storage pointers around
	checkU32(t, prog{name: "misc", src: hdr + `
struct R { cnt: atomic<u32>, data: array<u32> }
@group(0) @binding(2) var<storage, read_write> r: R;
fn first_over(limit: u32) -> u32 {
  var tbl = array<u32, 4>(11u, 22u, 33u, 44u);
  for (var i = 0u; i < 4u; i++) {
    if (tbl[i] > limit) { return i; }
  }
  return 99u;
}
@compute @workgroup_size(1) fn main() {
  let i = inp[0];
  let tbl = array<u32, 4>(11u, 22u, 33u, 44u);
  o[0] = tbl[i];
  let m = mat2x2<f32>(vec2<f32>(1.0, 2.0), vec2<f32>(3.0, 4.0));
  o[1] = u32(m[i % 2u][inp[1]]);
  o[2] = first_over(inp[2]); o[3] = first_over(100u);
  r.data[1] += 1u; r.data[1] += 1u; o[4] = r.data[1] * 2u - 1u;
  o[5] = atomicAdd(&r.cnt, arrayLength(&r.data));
  var k = 0u; var n = inp[3];
  while (true) { if (n == 1u) { break; } if (n % 2u == 0u) { n = n / 2u; } else { n = 3u * n + 1u; } k++; }
  o[6] = k;
  let arr = array<vec2<u32>, 3>(vec2<u32>(1u, 2u), vec2<u32>(3u, 4u), vec2<u32>(5u, 6u));
  o[7] = arr[i][inp[1]];
  var idx = 0u;
  idx++; idx += 2u; idx *= 3u; idx -= 1u; idx /= 2u; idx %= 3u; idx <<= 2u; idx |= 1u; idx ^= 8u; idx &= 0xBu; idx >>= 1u;
  o[8] = idx;
}`, bufs: xrt.Buffers{slot(0, 0): filled(36, 0xAA), slot(0, 1): u32buf(2, 1, 30, 6), slot(0, 2): u32buf(5, 100, 200, 300)}},
		33,
		2,     // m[0][1]
		2, 99, // tbl[2] = 33 is the first entry over 30
		403, // 202 * 2 - 1
		5,   // old counter; 3 elements added
		8,   // 6 3 10 5 16 8 4 2 1
		6,   // arr[2][1]
		// 0 ->1 ->3 ->9 ->8 ->4 ->1 ->4 ->5 ->13 ->9 ->4
		4)
}

func TestWGSLModuleConstArray(t *testing.T) {
	checkU32(t, prog{name: "module-const-array", suspect: "a module-scope `const` array indexed dynamically is emitted as OpConstantNull (its element values are lost)", src: hdr + `
const tbl = array<u32, 4>(11u, 22u, 33u, 44u);
@compute @workgroup_size(1) fn main() {
  let i = inp[0];
  o[0] = tbl[i]; o[1] = tbl[1] + tbl[3]; o[2] = tbl[i + 1u] - tbl[i - 2u];
}`, bufs: xrt.Buffers{slot(0, 0): filled(12, 0xAA), slot(0, 1): u32buf(2)}},
		33, 66, 33)
	checkU32(t, prog{name: "module-const-vec-array", suspect: "member access on an element of a module-scope const array of vectors is rejected", src: hdr + `
const vt = array<vec2<f32>, 2>(vec2<f32>(1.0, 2.0), vec2<f32>(3.0, 4.0));
@compute @workgroup_size(1) fn main() {
  let i = inp[0];
  o[0] = u32(vt[i % 2u].y + vt[1].x);
}`, bufs: xrt.Buffers{slot(0, 0): filled(4, 0xAA), slot(0, 1): u32buf(2)}},
		5)
}

func TestWGSLStoragePointerParam(t *testing.T) {
	p := prog{name: "storage-ptr-param", suspect: "ptr<storage> function arguments are lowered through a Function-storage copy of the pointee (invalid for runtime arrays, storage-class mismatch in the callee)", src: `
struct R { cnt: u32, data: array<u32> }
@group(0) @binding(0) var<storage, read_write> o: array<u32>;
@group(0) @binding(1) var<storage, read_write> r: R;
fn bump(p: ptr<storage, array<u32>, read_write>, i: u32) -> u32 { (*p)[i] += 1u; return (*p)[i]; }
@compute @workgroup_size(1) fn main() { o[0] = bump(&r.data, 1u) + bump(&r.data, 1u); o[1] = r.data[1]; }`,
		bufs: xrt.Buffers{slot(0, 0): filled(8, 0xAA), slot(0, 1): u32buf(5, 100, 200, 300)}}
	for i, ver := range corpusVersions {
		bin, err := compileWGSL(p.src, ver)
		if err != nil {
			p.report(t, "%s@%s: naga rejects valid WGSL: %v", p.name, verName(i), err)
			continue
		}
		m, err := Parse(bin)
		if err != nil {
			t.Fatal(err)
		}
		bufs := p.bufs.Clone()
		if _, err := Run(m, "main", bufs, xrt.Options{TrapMode: true}); err != nil {
			p.report(t, "%s@%s: the module cannot be executed: %v", p.name, verName(i), err)
			continue
		}
		p.wantU32(t, p.name+"@"+verName(i), bufs[slot(0, 0)], 0, 403, 202)
	}
}

// TestWGSLZSuspectSummary lists the programs for which naga's output was
// reported as suspect during this run (it must stay the last test of the file).
func TestWGSLZSuspectSummary(t *testing.T) {
	var names []string
	for k := range suspectHits {
		names = append(names, k)
	}
	sort.Strings(names)
	for _, k := range names {
		t.Logf("suspect program %-18s %d symptom reports", k, suspectHits[k])
	}
	t.Logf("%d programs flagged SUSPECT", len(names))
}
