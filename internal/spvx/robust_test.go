package spvx

import (
	"encoding/binary"
	"os"
	"path/filepath"
	"testing"
	"time"

	"github.com/gogpu/naga/spirv"

	"verif/internal/xrt"
)

// Malformed modules must never panic or hang: Parse / Run return errors.
func TestMutatedModulesDoNotPanic(t *testing.T) {
	var seeds [][]byte
	for _, name := range []string{"atomicOps.wgsl", "workgroup-var-init.wgsl", "operators.wgsl", "access.wgsl", "globals.wgsl", "boids.wgsl", "collatz.wgsl", "control-flow.wgsl", "math-functions.wgsl", "padding.wgsl"} {
		src, err := os.ReadFile(filepath.Join(corpusDir, name))
		if err != nil {
			continue
		}
		if bin, err := compileWGSL(string(src), spirv.Version1_3); err == nil {
			seeds = append(seeds, bin)
		}
	}
	for _, p := range []string{hdr + `
var<workgroup> sh: array<u32, 4>;
@compute @workgroup_size(4) fn main(@builtin(local_invocation_index) li: u32) {
  sh[li] = inp[li]; workgroupBarrier(); o[li] = sh[3u - li] / (inp[0] + li);
}`} {
		if bin, err := compileWGSL(p, spirv.Version1_3); err == nil {
			seeds = append(seeds, bin)
		}
	}
	if len(seeds) < 3 {
		t.Skip("no seed modules")
	}
	rng := uint64(0x9E3779B97F4A7C15)
	next := func(n int) int {
		rng ^= rng << 13
		rng ^= rng >> 7
		rng ^= rng << 17
		return int(rng % uint64(n))
	}
	deadline := time.Now().Add(20 * time.Second)
	runs, parseErr, runErr, okRuns := 0, 0, 0, 0
	done := make(chan struct{})
	go func() {
		defer close(done)
		for iter := 0; iter < 800 && time.Now().Before(deadline); iter++ {
			seed := seeds[iter%len(seeds)]
			bin := append([]byte(nil), seed...)
			nw := len(bin) / 4
			for k := 0; k <= next(3); k++ {
				w := 5 + next(nw-5)
				old := binary.LittleEndian.Uint32(bin[4*w:])
				var nv uint32
				switch next(5) {
				case 0:
					nv = old ^ 1<<uint(next(32))
				case 1:
					nv = uint32(next(64))
				case 2:
					nv = old + 1
				case 3:
					nv = binary.LittleEndian.Uint32(bin[4*(5+next(nw-5)):])
				default:
					nv = 0xFFFFFFFF
				}
				binary.LittleEndian.PutUint32(bin[4*w:], nv)
			}
			if next(10) == 0 {
				bin = bin[:4*(5+next(nw-5))]
			}
			runs++
			m, err := Parse(bin)
			if err != nil {
				parseErr++
				continue
			}
			for _, ep := range m.EntryPoints() {
				bufs := xrt.Buffers{}
				for s := uint32(0); s < 4; s++ {
					for b := uint32(0); b < 8; b++ {
						bufs[xrt.Slot{A: s, B: b}] = make([]byte, 64)
					}
				}
				_, err := Run(m, ep.Name, bufs, xrt.Options{TrapMode: iter%2 == 0, MaxSteps: 20000})
				if err != nil {
					runErr++
				} else {
					okRuns++
				}
			}
		}
	}()
	select {
	case <-done:
	case <-time.After(40 * time.Second):
		t.Fatal("mutated module made the interpreter hang")
	}
	t.Logf("%d mutants: %d rejected by Parse, %d Run errors, %d runs completed", runs, parseErr, runErr, okRuns)
	if okRuns == 0 || runErr == 0 {
		t.Errorf("mutation test is not exercising both outcomes")
	}
}

// Run may be called concurrently on the same Module.
func TestConcurrentRuns(t *testing.T) {
	bin, err := compileWGSL(hdr+`
var<workgroup> sh: array<u32, 4>;
@compute @workgroup_size(4) fn main(@builtin(local_invocation_index) li: u32) {
  sh[li] = inp[li] * 2u; workgroupBarrier(); o[li] = sh[3u - li];
}`, spirv.Version1_3)
	if err != nil {
		t.Fatal(err)
	}
	m, err := Parse(bin)
	if err != nil {
		t.Fatal(err)
	}
	errs := make(chan error, 8)
	for g := 0; g < 8; g++ {
		go func(g int) {
			for k := 0; k < 20; k++ {
				bufs := xrt.Buffers{slot(0, 0): make([]byte, 16), slot(0, 1): u32buf(uint32(g), 1, 2, 3)}
				if _, err := Run(m, "main", bufs, xrt.Options{TrapMode: true}); err != nil {
					errs <- err
					return
				}
				if binary.LittleEndian.Uint32(bufs[slot(0, 0)][12:]) != uint32(2*g) {
					errs <- errWrong
					return
				}
			}
			errs <- nil
		}(g)
	}
	for g := 0; g < 8; g++ {
		if err := <-errs; err != nil {
			t.Error(err)
		}
	}
}

var errWrong = &xrt.Trap{Kind: xrt.TrapOther, Detail: "wrong result in concurrent run"}
