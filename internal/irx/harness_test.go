package irx

import (
	"encoding/binary"
	"fmt"
	"math"
	"strings"
	"testing"

	"github.com/gogpu/naga"
	"github.com/gogpu/naga/ir"
	"verif/internal/xrt"
)

// lower turns WGSL into a fresh IR module with naga's front end.
func lower(src string) (*ir.Module, error) {
	ast, err := naga.Parse(src)
	if err != nil {
		return nil, fmt.Errorf("parse: %w", err)
	}
	m, err := naga.LowerWithSource(ast, src)
	if err != nil {
		return nil, fmt.Errorf("lower: %w", err)
	}
	return m, nil
}

// words builds buffer contents from i / u / f values (ints are i32, uint32 are
// u32, float32 / float64 are f32 bit patterns).
func words(vs ...interface{}) []uint32 {
	out := make([]uint32, 0, len(vs))
	for _, v := range vs {
		switch x := v.(type) {
		case int:
			if x > math.MaxUint32 || x < math.MinInt32 {
				panic(fmt.Sprintf("words: %d out of 32-bit range", x))
			}
			out = append(out, uint32(int64(x)))
		case int32:
			out = append(out, uint32(x))
		case uint32:
			out = append(out, x)
		case uint:
			out = append(out, uint32(x))
		case float32:
			out = append(out, math.Float32bits(x))
		case float64:
			out = append(out, math.Float32bits(float32(x)))
		case []uint32:
			out = append(out, x...)
		default:
			panic(fmt.Sprintf("words: %T", v))
		}
	}
	return out
}

func zeros(n int) []uint32 { return make([]uint32, n) }

func toBytes(w []uint32) []byte {
	b := make([]byte, 4*len(w))
	for i, x := range w {
		binary.LittleEndian.PutUint32(b[4*i:], x)
	}
	return b
}

func toWords(b []byte) []uint32 {
	w := make([]uint32, len(b)/4)
	for i := range w {
		w[i] = binary.LittleEndian.Uint32(b[4*i:])
	}
	return w
}

type bind struct{ g, b uint32 }

// prog is one calibration program: WGSL source, initial buffers and the buffer
// contents WGSL semantics demand afterwards (computed by hand).
type prog struct {
	name      string
	src       string
	entry     string // "" => "main"
	in        map[bind][]uint32
	want      map[bind][]uint32
	groups    [3]uint32
	overrides map[string]float64
	traps     []xrt.TrapKind // expected trap kinds, in order (nil: none)
	needCov   []string       // coverage keys that must have been hit
	inlineBug string         // non-empty: InlineUserFunctions is known to break this program (the naga defect, in words)
}

func (p *prog) buffers() xrt.Buffers {
	b := xrt.Buffers{}
	for k, w := range p.in {
		b[xrt.Slot{A: k.g, B: k.b}] = toBytes(w)
	}
	return b
}

func (p *prog) config() Config {
	c := Config{Overrides: p.overrides}
	c.Dispatch.NumGroups = p.groups
	c.TrapMode = true
	return c
}

func (p *prog) entryName() string {
	if p.entry == "" {
		return "main"
	}
	return p.entry
}

func describe(w []uint32) string {
	var sb strings.Builder
	for i, x := range w {
		if i > 0 {
			sb.WriteString(" ")
		}
		fmt.Fprintf(&sb, "%d:%#x", i, x)
	}
	return sb.String()
}

func diffWords(got, want []uint32) string {
	if len(got) != len(want) {
		return fmt.Sprintf("length %d, want %d", len(got), len(want))
	}
	var sb strings.Builder
	for i := range got {
		if got[i] != want[i] {
			fmt.Fprintf(&sb, " word %d: got %#x (i32 %d, f32 %v) want %#x (i32 %d, f32 %v);", i,
				got[i], int32(got[i]), math.Float32frombits(got[i]),
				want[i], int32(want[i]), math.Float32frombits(want[i]))
		}
	}
	return sb.String()
}

// runProg executes p on module m and checks buffers, traps and coverage.
func runProg(t *testing.T, p *prog, m *ir.Module, variant string, allowLazy bool) xrt.Buffers {
	t.Helper()
	bufs := p.buffers()
	res, err := Run(m, p.entryName(), bufs, p.config())
	if err != nil {
		t.Fatalf("%s [%s]: Run: %v", p.name, variant, err)
	}
	for k, want := range p.want {
		got := toWords(bufs[xrt.Slot{A: k.g, B: k.b}])
		if d := diffWords(got, want); d != "" {
			t.Errorf("%s [%s]: buffer (%d,%d):%s\n got  %s\n want %s", p.name, variant, k.g, k.b, d, describe(got), describe(want))
		}
	}
	var kinds []xrt.TrapKind
	for _, tr := range res.Traps {
		kinds = append(kinds, tr.Kind)
	}
	if fmt.Sprint(kinds) != fmt.Sprint(p.traps) {
		t.Errorf("%s [%s]: traps %v, want %v", p.name, variant, res.Traps, p.traps)
	}
	if n := res.Cov["lazy-eval"]; n != 0 && allowLazy {
		t.Logf("%s [%s]: %d lazy evaluations (expression used before / without its Emit)", p.name, variant, n)
	} else if n != 0 {
		t.Errorf("%s [%s]: %d lazy evaluations (expression used before its Emit)", p.name, variant, n)
	}
	for _, k := range p.needCov {
		if k == "stmt.Call" && strings.HasPrefix(variant, "Inline") {
			continue
		}
		if res.Cov[k] == 0 {
			t.Errorf("%s [%s]: coverage key %q not hit; have %v", p.name, variant, k, res.Cov.Keys())
		}
	}
	if res.Steps <= 0 {
		t.Errorf("%s [%s]: Steps = %d", p.name, variant, res.Steps)
	}
	return bufs
}

func sameBuffers(a, b xrt.Buffers) string {
	for k, x := range a {
		if _, ok := b[k]; !ok {
			continue // the global was removed as unused: nothing was written there
		}
		if d := diffWords(toWords(b[k]), toWords(x)); d != "" {
			return fmt.Sprintf("slot %v:%s", k, d)
		}
	}
	return ""
}
