package irx

import (
	"fmt"
	"math"

	"github.com/gogpu/naga/ir"
	"verif/internal/xrt"
)

// Run-time values. Every value carries its own dynamic shape; the interpreter
// never asks naga for the type of an expression.
//
//	scalar  : 32-bit i32 / u32 / f32 (bits) or bool (0 / 1)
//	vector  : 2..4 components of one scalar kind
//	matrix  : f32, column major, c[col][row]
//	array   : elements
//	strct   : members
//	pointer : reference to a memory location (see mem.go)
type val interface{}

type scalar struct {
	k ir.ScalarKind
	b uint32
}

type vector struct {
	k ir.ScalarKind
	n int
	c [4]uint32
}

type matrix struct {
	cols, rows int
	c          [4][4]uint32
}

type array struct{ e []val }

type strct struct{ f []val }

type pointer struct{ r ref }

// irError reports IR that is inconsistent with the IR's own typing rules
// (a finding about naga, not about the interpreter).
type irError struct{ msg string }

func (e *irError) Error() string { return "ill-formed IR: " + e.msg }

func illFormed(format string, a ...interface{}) error {
	return &irError{msg: fmt.Sprintf(format, a...)}
}

func unsupported(format string, a ...interface{}) error {
	return &xrt.Unsupported{What: fmt.Sprintf(format, a...)}
}

func f32v(f float32) scalar { return scalar{ir.ScalarFloat, math.Float32bits(f)} }
func u32v(u uint32) scalar  { return scalar{ir.ScalarUint, u} }
func i32v(i int32) scalar   { return scalar{ir.ScalarSint, uint32(i)} }
func boolv(b bool) scalar {
	if b {
		return scalar{ir.ScalarBool, 1}
	}
	return scalar{ir.ScalarBool, 0}
}

func kindName(k ir.ScalarKind) string {
	switch k {
	case ir.ScalarSint:
		return "i32"
	case ir.ScalarUint:
		return "u32"
	case ir.ScalarFloat:
		return "f32"
	case ir.ScalarBool:
		return "bool"
	case ir.ScalarAbstractInt:
		return "abstract-int"
	case ir.ScalarAbstractFloat:
		return "abstract-float"
	}
	return fmt.Sprintf("kind%d", k)
}

// shapeName describes a value for messages and coverage keys.
func shapeName(v val) string {
	switch x := v.(type) {
	case scalar:
		return kindName(x.k)
	case vector:
		return fmt.Sprintf("vec%d<%s>", x.n, kindName(x.k))
	case matrix:
		return fmt.Sprintf("mat%dx%d<f32>", x.cols, x.rows)
	case array:
		return fmt.Sprintf("array[%d]", len(x.e))
	case strct:
		return fmt.Sprintf("struct[%d]", len(x.f))
	case pointer:
		return "pointer"
	case nil:
		return "nil"
	}
	return fmt.Sprintf("%T", v)
}

// clone makes a value independent of the memory it was read from. Only arrays
// and structs share backing storage; everything else is a Go value type.
func clone(v val) val {
	switch x := v.(type) {
	case array:
		e := make([]val, len(x.e))
		for i := range x.e {
			e[i] = clone(x.e[i])
		}
		return array{e}
	case strct:
		f := make([]val, len(x.f))
		for i := range x.f {
			f[i] = clone(x.f[i])
		}
		return strct{f}
	}
	return v
}

// sameShape reports whether two values have the same dynamic type.
func sameShape(a, b val) bool {
	switch x := a.(type) {
	case scalar:
		y, ok := b.(scalar)
		return ok && x.k == y.k
	case vector:
		y, ok := b.(vector)
		return ok && x.k == y.k && x.n == y.n
	case matrix:
		y, ok := b.(matrix)
		return ok && x.cols == y.cols && x.rows == y.rows
	case array:
		y, ok := b.(array)
		if !ok || len(x.e) != len(y.e) {
			return false
		}
		for i := range x.e {
			if !sameShape(x.e[i], y.e[i]) {
				return false
			}
		}
		return true
	case strct:
		y, ok := b.(strct)
		if !ok || len(x.f) != len(y.f) {
			return false
		}
		for i := range x.f {
			if !sameShape(x.f[i], y.f[i]) {
				return false
			}
		}
		return true
	}
	return false
}

// column returns column i of a matrix as a vector.
func (m matrix) column(i int) vector {
	v := vector{k: ir.ScalarFloat, n: m.rows}
	copy(v.c[:], m.c[i][:m.rows])
	return v
}

// ---- types -----------------------------------------------------------------

func (in *interp) inner(h ir.TypeHandle) (ir.TypeInner, error) {
	if int(h) >= len(in.m.Types) {
		return nil, illFormed("type handle %d out of range (%d types)", h, len(in.m.Types))
	}
	t := in.m.Types[h].Inner
	if t == nil {
		return nil, illFormed("type %d has nil Inner", h)
	}
	return t, nil
}

// checkScalar accepts the scalar types this interpreter executes.
func checkScalar(s ir.ScalarType) error {
	switch s.Kind {
	case ir.ScalarBool:
		return nil
	case ir.ScalarSint, ir.ScalarUint, ir.ScalarFloat:
		if s.Width == 4 {
			return nil
		}
		return unsupported("%d-bit %s scalar", int(s.Width)*8, map[ir.ScalarKind]string{ir.ScalarSint: "sint", ir.ScalarUint: "uint", ir.ScalarFloat: "float"}[s.Kind])
	case ir.ScalarAbstractInt, ir.ScalarAbstractFloat:
		return unsupported("abstract scalar type in IR")
	}
	return illFormed("unknown scalar kind %d", s.Kind)
}

// zeroOf builds the zero value of a type.
func (in *interp) zeroOf(h ir.TypeHandle) (val, error) {
	t, err := in.inner(h)
	if err != nil {
		return nil, err
	}
	return in.zeroOfInner(t, 0)
}

func (in *interp) zeroOfInner(t ir.TypeInner, depth int) (val, error) {
	if depth > 64 {
		return nil, illFormed("type nesting too deep (cyclic type?)")
	}
	switch x := t.(type) {
	case ir.ScalarType:
		if err := checkScalar(x); err != nil {
			return nil, err
		}
		return scalar{k: x.Kind}, nil
	case ir.AtomicType:
		if err := checkScalar(x.Scalar); err != nil {
			return nil, err
		}
		return scalar{k: x.Scalar.Kind}, nil
	case ir.VectorType:
		if err := checkScalar(x.Scalar); err != nil {
			return nil, err
		}
		if x.Size < 2 || x.Size > 4 {
			return nil, illFormed("vector size %d", x.Size)
		}
		return vector{k: x.Scalar.Kind, n: int(x.Size)}, nil
	case ir.MatrixType:
		if x.Scalar.Kind != ir.ScalarFloat {
			return nil, illFormed("matrix of %s", kindName(x.Scalar.Kind))
		}
		if err := checkScalar(x.Scalar); err != nil {
			return nil, err
		}
		if x.Columns < 2 || x.Columns > 4 || x.Rows < 2 || x.Rows > 4 {
			return nil, illFormed("matrix %dx%d", x.Columns, x.Rows)
		}
		return matrix{cols: int(x.Columns), rows: int(x.Rows)}, nil
	case ir.ArrayType:
		if x.Size.Constant == nil {
			return nil, unsupported("value of runtime-sized (or override-sized) array type")
		}
		n := int(*x.Size.Constant)
		if n > in.maxElems {
			return nil, unsupported("array of %d elements", n)
		}
		bt, err := in.inner(x.Base)
		if err != nil {
			return nil, err
		}
		e := make([]val, n)
		for i := range e {
			z, err := in.zeroOfInner(bt, depth+1)
			if err != nil {
				return nil, err
			}
			e[i] = z
		}
		return array{e}, nil
	case ir.StructType:
		f := make([]val, len(x.Members))
		for i := range x.Members {
			mt, err := in.inner(x.Members[i].Type)
			if err != nil {
				return nil, err
			}
			z, err := in.zeroOfInner(mt, depth+1)
			if err != nil {
				return nil, err
			}
			f[i] = z
		}
		return strct{f}, nil
	}
	return nil, unsupported("value of type %T", t)
}
