package irx

import (
	"math"
	"strings"
	"testing"

	"github.com/gogpu/naga/ir"
	"verif/internal/xrt"
)

const (
	imax = math.MaxInt32
	imin = math.MinInt32
	pad  = uint32(0xCDCDCDCD) // "untouched" marker for padding / unwritten words
	nan  = uint32(0x7FC00000)
)

func fill(n int, w uint32) []uint32 {
	out := make([]uint32, n)
	for i := range out {
		out[i] = w
	}
	return out
}

func fb(f float32) uint32 { return math.Float32bits(f) }

var f01, f02 = float32(0.1), float32(0.2)

// calibration programs: expected values are derived by hand from WGSL semantics.
func calibPrograms() []*prog {
	var ps []*prog
	add := func(p *prog) { ps = append(ps, p) }

	add(&prog{name: "int_edge", src: `
@group(0) @binding(0) var<storage, read_write> o: array<i32>;
@group(0) @binding(1) var<storage, read> a: array<i32>;
@compute @workgroup_size(1)
fn main() {
  let x = a[0]; let y = a[1]; let z = a[2]; let m = a[3];
  o[0] = x + 1;
  o[1] = y - 1;
  o[2] = x * 2;
  o[3] = x / z;
  o[4] = x % z;
  o[5] = y / m;
  o[6] = y % m;
  o[7] = -y;
  o[8] = 7 / a[4];
  o[9] = -7 % a[5];
  o[10] = abs(y);
  o[11] = a[6] >> 1u;
  o[12] = a[6] << 30u;
  o[13] = a[4] * a[6];
  o[14] = max(x, y);
  o[15] = clamp(a[5], a[2], a[4]);
  o[16] = sign(a[6]);
  o[17] = a[6] / a[5];
  o[18] = a[6] % a[5];
  o[19] = min(m, z) - max(m, z);
}`,
		in:   map[bind][]uint32{{0, 0}: zeros(20), {0, 1}: words(imax, imin, 0, -1, -2, 3, -8)},
		want: map[bind][]uint32{{0, 0}: words(imin, imax, -2, imax, 0, imin, 0, imin, -3, -1, imin, -4, 0, 16, imax, -2, -1, -2, -2, -1)},
		needCov: []string{"expr.Binary.Add.i32", "expr.Binary.Divide.i32", "expr.Binary.Modulo.i32", "expr.Binary.ShiftRight.i32",
			"expr.Unary.Negate.i32", "math.Abs", "math.Clamp", "math.Sign", "stmt.Store", "stmt.Emit", "expr.Load"},
	})

	add(&prog{name: "uint_edge", src: `
@group(0) @binding(0) var<storage, read_write> o: array<u32>;
@group(0) @binding(1) var<storage, read> a: array<u32>;
@compute @workgroup_size(1)
fn main() {
  o[0] = a[0] - a[1];
  o[1] = a[2] + a[1];
  o[2] = a[2] * a[2];
  o[3] = a[4] / a[0];
  o[4] = a[4] % a[0];
  o[5] = a[1] << a[3];
  o[6] = a[5] >> a[3];
  o[7] = a[2] >> 31u;
  o[8] = ~a[0];
  o[9] = a[2] ^ a[5];
  o[10] = (a[4] & 4u) | 2u;
  o[11] = min(a[2], a[4]);
  o[12] = a[2] / a[4];
  o[13] = a[2] % a[4];
  o[14] = select(a[0], a[1], a[4] > a[3]);
  o[15] = u32(a[4] >= 5u);
}`,
		in:   map[bind][]uint32{{0, 0}: zeros(16), {0, 1}: words(0, 1, uint32(0xFFFFFFFF), 33, 5, uint32(0x80000000))},
		want: map[bind][]uint32{{0, 0}: words(uint32(0xFFFFFFFF), 0, 1, 5, 0, 2, 0x40000000, 1, uint32(0xFFFFFFFF), 0x7FFFFFFF, 6, 5, 858993459, 0, 0, 1)},
		needCov: []string{"expr.Binary.ShiftLeft.u32", "expr.Binary.ExclusiveOr.u32", "expr.Unary.BitwiseNot.u32", "expr.Select",
			"expr.Binary.GreaterEqual.u32", "expr.As.convert.bool.u32"},
	})

	add(&prog{name: "bitops", src: `
@group(0) @binding(0) var<storage, read_write> o: array<u32>;
@group(0) @binding(1) var<storage, read> a: array<u32>;
@group(0) @binding(2) var<storage, read> b: array<i32>;
@compute @workgroup_size(1)
fn main() {
  o[0] = countLeadingZeros(a[0]);
  o[1] = countTrailingZeros(a[0]);
  o[2] = countLeadingZeros(a[3]);
  o[3] = countTrailingZeros(a[3]);
  o[4] = countOneBits(a[5]);
  o[5] = reverseBits(a[1]);
  o[6] = firstLeadingBit(a[0]);
  o[7] = firstLeadingBit(a[3]);
  o[8] = firstTrailingBit(a[0]);
  o[9] = firstTrailingBit(a[2]);
  o[10] = extractBits(a[5], 8u, 8u);
  o[11] = extractBits(a[5], 28u, 8u);
  o[12] = extractBits(a[5], 40u, 8u);
  o[13] = insertBits(a[0], a[4], 4u, 8u);
  o[14] = insertBits(a[5], a[0], 0u, 32u);
  o[15] = insertBits(a[5], a[4], 30u, 8u);
  o[16] = u32(firstLeadingBit(b[0]));
  o[17] = u32(firstLeadingBit(b[1]));
  o[18] = u32(firstLeadingBit(b[2]));
  o[19] = u32(firstLeadingBit(b[3]));
  o[20] = u32(extractBits(b[2], 0u, 4u));
  o[21] = u32(extractBits(b[3], 0u, 3u));
  o[22] = u32(countLeadingZeros(b[1]));
  o[23] = reverseBits(a[5]);
}`,
		in: map[bind][]uint32{{0, 0}: zeros(24),
			{0, 1}: words(0, 1, uint32(0x80000000), 0xF0, uint32(0xFFFFFFFF), 0x12345678),
			{0, 2}: words(0, -1, -8, 5)},
		want: map[bind][]uint32{{0, 0}: words(32, 32, 24, 4, 13, uint32(0x80000000), uint32(0xFFFFFFFF), 7, uint32(0xFFFFFFFF), 31,
			0x56, 0x1, 0, 0xFF0, 0, uint32(0xD2345678), uint32(0xFFFFFFFF), uint32(0xFFFFFFFF), 2, 2,
			uint32(0xFFFFFFF8), uint32(0xFFFFFFFD), 0, 0x1E6A2C48)},
		needCov: []string{"math.CountLeadingZeros", "math.FirstLeadingBit", "math.ExtractBits", "math.InsertBits", "math.ReverseBits", "math.CountOneBits"},
	})

	add(&prog{name: "conversions", src: `
@group(0) @binding(0) var<storage, read_write> o: array<u32>;
@group(0) @binding(1) var<storage, read> f: array<f32>;
@group(0) @binding(2) var<storage, read> i: array<i32>;
@group(0) @binding(3) var<storage, read> u: array<u32>;
@compute @workgroup_size(1)
fn main() {
  o[0] = u32(i32(f[0]));
  o[1] = u32(i32(f[1]));
  o[2] = u32(i32(f[2]));
  o[3] = u32(i32(f[3]));
  o[4] = u32(i32(f[4]));
  o[5] = u32(f[1]);
  o[6] = u32(f[2]);
  o[7] = u32(f[5]);
  o[8] = u32(i[0]);
  o[9] = u32(i32(u[0]));
  o[10] = bitcast<u32>(f32(i[0]));
  o[11] = bitcast<u32>(f32(u[0]));
  o[12] = bitcast<u32>(f[0]);
  o[13] = u32(bool(i[1]));
  o[14] = u32(bool(f[6]));
  o[15] = bitcast<u32>(f32(bool(u[1])));
  o[16] = u32(bitcast<i32>(u[0]) < 0);
  o[17] = bitcast<u32>(bitcast<f32>(u[1]));
  let v = vec2<i32>(vec2<f32>(f[0], f[1]));
  o[18] = u32(v.x); o[19] = u32(v.y);
  let w = bitcast<vec2<u32>>(vec2<f32>(f[0], f[6]));
  o[20] = w.x; o[21] = w.y;
}`,
		in: map[bind][]uint32{{0, 0}: zeros(22),
			{0, 1}: words(1.9, -1.9, 3e9, -3e9, nan, 5e9, uint32(0x80000000)),
			{0, 2}: words(-1, 7),
			{0, 3}: words(uint32(0xFFFFFFFF), 3)},
		want: map[bind][]uint32{{0, 0}: words(1, -1, imax, imin, 0, 0, uint32(3000000000), uint32(0xFFFFFFFF), uint32(0xFFFFFFFF), uint32(0xFFFFFFFF),
			uint32(0xBF800000), 0x4F800000, fb(1.9), 1, 0, 0x3F800000, 1, 3, 1, -1, fb(1.9), uint32(0x80000000))},
		needCov: []string{"expr.As.convert.f32.i32", "expr.As.convert.f32.u32", "expr.As.bitcast.f32.u32", "expr.As.convert.i32.f32", "expr.As.convert.i32.bool"},
	})

	add(&prog{name: "float_arith", src: `
@group(0) @binding(0) var<storage, read_write> o: array<f32>;
@group(0) @binding(1) var<storage, read> f: array<f32>;
@compute @workgroup_size(1)
fn main() {
  o[0] = f[0] + f[1];
  o[1] = f[3] + f[4];
  o[2] = f[0] * f[2];
  o[3] = f[7] / f[5];
  o[4] = floor(f[2]);
  o[5] = ceil(f[2]);
  o[6] = round(f[1]);
  o[7] = round(f[0]);
  o[8] = trunc(f[6]);
  o[9] = fract(f[6]);
  o[10] = min(f[0], f[2]);
  o[11] = max(f[0], f[2]);
  o[12] = clamp(f[7], f[0], f[1]);
  o[13] = sign(f[6]);
  o[14] = step(f[0], f[1]);
  o[15] = abs(f[2]);
  o[16] = select(f[0], f[1], f[0] < f[1]);
  o[17] = f[7] % f[5];
  o[18] = f[2] % f[0];
  o[19] = -f[0];
  o[20] = saturate(f[0]);
  o[21] = f[0] - f[1];
  o[22] = f[3] * f[3] - f[4];
}`,
		in: map[bind][]uint32{{0, 0}: zeros(23), {0, 1}: words(1.5, 2.5, -2.5, 0.1, 0.2, 3.0, -0.75, 7.0)},
		want: map[bind][]uint32{{0, 0}: words(4.0, float32(f01+f02), -3.75, float32(float32(7)/float32(3)), -3.0, -2.0, 2.0, 2.0,
			uint32(0x80000000), 0.25, -2.5, 1.5, 2.5, -1.0, 1.0, 2.5, 2.5, 1.0, -1.0, -1.5, 1.0, -1.0,
			float32(float32(f01*f01)-f02))},
		needCov: []string{"expr.Binary.Add.f32", "expr.Binary.Modulo.f32", "math.Round", "math.Fract", "math.Saturate", "math.Step", "expr.Unary.Negate.f32"},
	})

	add(&prog{name: "vectors", src: `
@group(0) @binding(0) var<storage, read_write> o: array<vec4<f32>>;
@group(0) @binding(1) var<storage, read> a: array<vec4<f32>>;
@group(0) @binding(2) var<storage, read_write> oi: array<vec4<i32>>;
@compute @workgroup_size(1)
fn main() {
  let p = a[0];
  let q = a[1];
  o[0] = p + q;
  o[1] = p * q;
  o[2] = p * 2.0;
  o[3] = p.wzyx;
  o[4] = vec4<f32>(p.xy, q.zw);
  o[5] = vec4<f32>(dot(p, q), dot(p.xyz, q.xyz), length(p.xy * 0.0 + vec2<f32>(3.0, 4.0)), 0.0);
  o[6] = vec4<f32>(cross(p.xyz, q.xyz), 1.0);
  o[7] = select(p, q, p < q);
  o[8] = vec4<f32>(f32(all(p < q)), f32(any(p < q)), f32(all(p == p)), f32(any(p > vec4<f32>(9.0))));
  let vi = vec4<i32>(p);
  oi[0] = vi * vec4<i32>(q) - vec4<i32>(10);
  oi[1] = vec4<i32>(dot(vi, vi), vi.x << 3u, vi.w >> 1u, -vi.y);
  oi[2] = vi.xxyy + vi.zwzw;
  var v = p;
  v.y = 9.0;
  v[2] = 8.0;
  o[9] = v;
  o[10] = -p;
  o[11] = min(p, q) + max(p, q);
  o[12] = 10.0 / p.xxyy;
}`,
		in: map[bind][]uint32{{0, 0}: zeros(52), {0, 1}: words(1.0, 2.0, 3.0, 4.0, 4.0, 3.0, 2.0, 1.0), {0, 2}: zeros(12)},
		want: map[bind][]uint32{
			{0, 0}: words(5.0, 5.0, 5.0, 5.0, 4.0, 6.0, 6.0, 4.0, 2.0, 4.0, 6.0, 8.0, 4.0, 3.0, 2.0, 1.0, 1.0, 2.0, 2.0, 1.0,
				20.0, 16.0, 5.0, 0.0, -5.0, 10.0, -5.0, 1.0, 4.0, 3.0, 3.0, 4.0, 0.0, 1.0, 1.0, 0.0,
				1.0, 9.0, 8.0, 4.0, -1.0, -2.0, -3.0, -4.0, 5.0, 5.0, 5.0, 5.0, 10.0, 10.0, 5.0, 5.0),
			{0, 2}: words(-6, -4, -4, -6, 30, 8, 2, -2, 4, 5, 5, 6)},
		needCov: []string{"expr.Swizzle", "expr.Compose", "expr.Splat", "math.Dot", "math.Cross", "expr.Relational.All", "expr.Relational.Any", "expr.AccessIndex.pointer"},
	})

	add(&prog{name: "matrices", src: `
struct M { m2: mat2x2<f32>, m3: mat3x3<f32>, m23: mat2x3<f32> }
@group(0) @binding(0) var<storage, read_write> o: array<vec4<f32>>;
@group(0) @binding(1) var<storage, read> s: M;
@compute @workgroup_size(1)
fn main() {
  let a = s.m2;
  o[0] = vec4<f32>(a * vec2<f32>(1.0, 1.0), vec2<f32>(1.0, 1.0) * a);
  let b = a * a;
  o[1] = vec4<f32>(b[0], b[1]);
  o[2] = vec4<f32>(determinant(a), determinant(s.m3), 0.0, 0.0);
  let t = transpose(s.m23);
  o[3] = vec4<f32>(t[0], t[1]);
  o[4] = vec4<f32>(t[2], 0.0, 0.0);
  let c = s.m23 * vec2<f32>(1.0, 2.0);
  o[5] = vec4<f32>(c, 0.0);
  let d = vec3<f32>(1.0, 1.0, 1.0) * s.m23;
  o[6] = vec4<f32>(d, 0.0, 0.0);
  let e = a + a;
  let f = a * s.m2[0][1];
  let g = e - f;
  o[7] = vec4<f32>(e[0], e[1]);
  o[8] = vec4<f32>(g[0], g[1]);
  var m = s.m3;
  m[1] = vec3<f32>(7.0, 8.0, 9.0);
  m[2][0] = 5.0;
  let i = u32(s.m2[0][0]);
  o[9] = vec4<f32>(m[i], m[2].x);
  o[10] = vec4<f32>(m[0][i], m[i][i], s.m3[2][0], (s.m3 * vec3<f32>(1.0, 1.0, 1.0)).x);
  let h = s.m23 * a;
  o[11] = vec4<f32>(h[0], 0.0);
  o[12] = vec4<f32>(h[1], 0.0);
}`,
		in: map[bind][]uint32{{0, 0}: zeros(52),
			{0, 1}: words(1.0, 2.0, 3.0, 4.0,
				1.0, 0.0, 2.0, pad, 0.0, 1.0, 0.0, pad, 3.0, 0.0, 1.0, pad,
				1.0, 2.0, 3.0, pad, 4.0, 5.0, 6.0, pad)},
		want: map[bind][]uint32{{0, 0}: words(
			4.0, 6.0, 3.0, 7.0,
			7.0, 10.0, 15.0, 22.0,
			-2.0, -5.0, 0.0, 0.0,
			1.0, 4.0, 2.0, 5.0,
			3.0, 6.0, 0.0, 0.0,
			9.0, 12.0, 15.0, 0.0,
			6.0, 15.0, 0.0, 0.0,
			2.0, 4.0, 6.0, 8.0,
			0.0, 0.0, 0.0, 0.0,
			7.0, 8.0, 9.0, 5.0,
			0.0, 8.0, 3.0, 4.0,
			9.0, 12.0, 15.0, 0.0,
			19.0, 26.0, 33.0, 0.0)},
		needCov: []string{"expr.Binary.Multiply.mat", "expr.Binary.Add.mat", "math.Transpose", "math.Determinant", "expr.Access.pointer"},
	})

	add(&prog{name: "struct_layout", src: `
struct Inner { a: vec3<f32>, b: f32 }
struct S { x: u32, v: vec3<f32>, y: u32, m: mat3x3<f32>, arr: array<u32, 3>, inner: Inner, v2: vec2<f32>, z: f32 }
@group(0) @binding(0) var<storage, read_write> s: S;
@group(0) @binding(1) var<storage, read_write> s2: S;
@group(0) @binding(2) var<storage, read_write> o: array<f32>;
@compute @workgroup_size(1)
fn main() {
  s.x = 1u;
  s.v = vec3<f32>(2.0, 3.0, 4.0);
  s.y = 5u;
  s.m = mat3x3<f32>(vec3<f32>(6.0, 7.0, 8.0), vec3<f32>(9.0, 10.0, 11.0), vec3<f32>(12.0, 13.0, 14.0));
  s.arr[0] = 15u; s.arr[1] = 16u; s.arr[2] = 17u;
  s.inner.a = vec3<f32>(18.0, 19.0, 20.0);
  s.inner.b = 21.0;
  s.v2 = vec2<f32>(22.0, 23.0);
  s.z = 24.0;
  o[0] = s.m[2].y + s.inner.a.z;
  o[1] = f32(s.arr[1] + s.y);
  s2 = s;
  var t = s.inner;
  t.b = t.a.x;
  s2.inner = t;
}`,
		in: map[bind][]uint32{{0, 0}: fill(32, pad), {0, 1}: fill(32, pad), {0, 2}: zeros(2)},
		want: map[bind][]uint32{
			{0, 0}: words(1, pad, pad, pad, 2.0, 3.0, 4.0, 5,
				6.0, 7.0, 8.0, pad, 9.0, 10.0, 11.0, pad, 12.0, 13.0, 14.0, pad,
				15, 16, 17, pad, 18.0, 19.0, 20.0, 21.0, 22.0, 23.0, 24.0, pad),
			{0, 1}: words(1, pad, pad, pad, 2.0, 3.0, 4.0, 5,
				6.0, 7.0, 8.0, pad, 9.0, 10.0, 11.0, pad, 12.0, 13.0, 14.0, pad,
				15, 16, 17, pad, 18.0, 19.0, 20.0, 18.0, 22.0, 23.0, 24.0, pad),
			{0, 2}: words(33.0, 21.0)},
	})

	add(&prog{name: "array_strides", src: `
struct E { p: vec2<f32>, k: u32 }
@group(0) @binding(0) var<storage, read_write> a3: array<vec3<f32>, 2>;
@group(0) @binding(1) var<storage, read_write> ae: array<E, 3>;
@group(0) @binding(2) var<storage, read_write> aa: array<array<u32, 3>, 2>;
@compute @workgroup_size(1)
fn main() {
  for (var i = 0u; i < 2u; i++) { a3[i] = vec3<f32>(f32(i) + 1.0, f32(i) + 2.0, f32(i) + 3.0); }
  for (var i = 0u; i < 3u; i++) { ae[i].p = vec2<f32>(f32(i), f32(i) * 2.0); ae[i].k = i * 10u; }
  for (var i = 0u; i < 2u; i++) { for (var j = 0u; j < 3u; j++) { aa[i][j] = i * 3u + j; } }
}`,
		in: map[bind][]uint32{{0, 0}: fill(8, pad), {0, 1}: fill(12, pad), {0, 2}: fill(6, pad)},
		want: map[bind][]uint32{
			{0, 0}: words(1.0, 2.0, 3.0, pad, 2.0, 3.0, 4.0, pad),
			{0, 1}: words(0.0, 0.0, 0, pad, 1.0, 2.0, 10, pad, 2.0, 4.0, 20, pad),
			{0, 2}: words(0, 1, 2, 3, 4, 5)},
		needCov: []string{"stmt.Loop", "stmt.Break", "stmt.If"},
	})

	add(&prog{name: "runtime_array", src: `
struct H { n: u32, pad: u32, data: array<vec2<u32>> }
@group(0) @binding(0) var<storage, read_write> h: H;
@group(0) @binding(1) var<storage, read_write> r: array<u32>;
@compute @workgroup_size(4)
fn main(@builtin(global_invocation_id) gid: vec3<u32>) {
  let n = arrayLength(&h.data);
  let m = arrayLength(&r);
  if gid.x == 0u { h.n = n; h.pad = m; }
  if gid.x < n { h.data[gid.x] = vec2<u32>(gid.x, gid.x * gid.x); }
  r[gid.x] = m + gid.x;
}`,
		in:      map[bind][]uint32{{0, 0}: fill(9, 0x77), {0, 1}: zeros(4)},
		want:    map[bind][]uint32{{0, 0}: words(3, 4, 0, 0, 1, 1, 2, 4, 0x77), {0, 1}: words(4, 5, 6, 7)},
		needCov: []string{"expr.ArrayLength"},
	})

	add(&prog{name: "if_chain", src: `
@group(0) @binding(0) var<storage, read_write> o: array<i32>;
@group(0) @binding(1) var<storage, read> a: array<i32>;
fn classify(x: i32) -> i32 {
  if x < 0 { return -1; } else if x == 0 { return 0; } else if x < 10 {
    if x % 2 == 0 { return 2; }
    return 1;
  }
  return 3;
}
@compute @workgroup_size(1)
fn main() {
  for (var i = 0u; i < 6u; i++) { o[i] = classify(a[i]); }
}`,
		in:      map[bind][]uint32{{0, 0}: zeros(6), {0, 1}: words(-5, 0, 4, 7, 10, 100)},
		want:    map[bind][]uint32{{0, 0}: words(-1, 0, 2, 1, 3, 3)},
		needCov: []string{"stmt.Call", "stmt.Return"},
	})

	add(&prog{name: "switch", src: `
@group(0) @binding(0) var<storage, read_write> o: array<u32>;
@group(0) @binding(1) var<storage, read> a: array<u32>;
@compute @workgroup_size(1)
fn main() {
  for (var i = 0u; i < 8u; i++) {
    var r = 0u;
    switch i {
      case 0u: { r = 10u; }
      case 1u, 2u: { r = 20u; }
      default: { r = 99u; }
      case 3u: { if a[0] == 1u { break; } r = 30u; }
      case 4u: { continue; }
      case 5u: { r = 50u; break; }
    }
    o[i] = r;
  }
  var k = 0;
  switch i32(a[1]) { case -2: { k = 1; } case 7, 8: { k = 2; } default: { k = 3; } }
  o[8] = u32(k);
  switch a[0] { default: { o[9] = 5u; } }
}`,
		in:      map[bind][]uint32{{0, 0}: fill(10, 0xEE), {0, 1}: words(1, uint32(0xFFFFFFFE))},
		want:    map[bind][]uint32{{0, 0}: words(10, 20, 20, 0, 0xEE, 50, 99, 99, 1, 5)},
		needCov: []string{"stmt.Switch", "stmt.Continue", "switch.fallthrough"},
	})

	add(&prog{name: "loop_continuing", src: `
@group(0) @binding(0) var<storage, read_write> o: array<u32>;
@compute @workgroup_size(1)
fn main() {
  var i = 0u;
  var acc = 0u;
  loop {
    if i == 2u { continue; }
    acc += i * 10u;
    continuing { i++; break if i >= 5u; }
  }
  o[0] = acc;
  o[1] = i;
  var cnt = 0u;
  for (var x = 0u; x < 3u; x++) {
    var y = 0u;
    loop { if y >= x { break; } cnt++; y++; }
  }
  o[2] = cnt;
  var w = 10u;
  while w > 3u { w -= 3u; }
  o[3] = w;
}`,
		in:      map[bind][]uint32{{0, 0}: zeros(4)},
		want:    map[bind][]uint32{{0, 0}: words(80, 5, 3, 1)},
		needCov: []string{"loop.break-if", "stmt.Continue"},
	})

	add(&prog{name: "for_nested", src: `
@group(0) @binding(0) var<storage, read_write> o: array<i32>;
@compute @workgroup_size(1)
fn main() {
  var sum = 0;
  for (var i = 0; i < 10; i++) { if i % 2 == 0 { continue; } if i > 7 { break; } sum += i; }
  o[0] = sum;
  var c = 0;
  for (var i = 0; i < 3; i++) {
    for (var j = 0; j < 3; j++) {
      if j == i { continue; }
      if i == 2 && j == 1 { break; }
      c += i * 3 + j;
    }
  }
  o[1] = c;
}`,
		in:   map[bind][]uint32{{0, 0}: zeros(2)},
		want: map[bind][]uint32{{0, 0}: words(16, 17)},
	})

	add(&prog{name: "helper_ptr", src: `
@group(0) @binding(0) var<storage, read_write> o: array<i32>;
fn bump(p: ptr<function, u32>, by: u32) -> u32 { let old = *p; *p = old + by; return old; }
fn swap(a: ptr<function, i32>, b: ptr<function, i32>) { let t = *a; *a = *b; *b = t; }
fn first_neg(arr: ptr<function, array<i32, 4>>) -> i32 {
  for (var i = 0; i < 4; i++) { if (*arr)[i] < 0 { (*arr)[i] = 0; return i; } }
  return -1;
}
@compute @workgroup_size(1)
fn main() {
  var x = 5u;
  let r0 = bump(&x, 3u);
  let r1 = bump(&x, 4u);
  o[0] = i32(r0); o[1] = i32(r1); o[2] = i32(x);
  var p = 1; var q = 2;
  swap(&p, &q);
  o[3] = p; o[4] = q;
  var arr = array<i32, 4>(3, -4, -5, 6);
  o[5] = first_neg(&arr);
  o[6] = first_neg(&arr);
  o[7] = first_neg(&arr);
  o[8] = arr[1] + arr[2] + arr[3];
}`,
		in:        map[bind][]uint32{{0, 0}: zeros(9)},
		want:      map[bind][]uint32{{0, 0}: words(5, 8, 12, 2, 1, 1, 2, -1, 6)},
		inlineBug: "a return inside a loop of the callee becomes a break that leaves only that inner loop",
	})

	add(&prog{name: "helper_early_return", src: `
struct R { idx: u32, val: f32 }
@group(0) @binding(0) var<storage, read_write> o: array<u32>;
@group(0) @binding(1) var<storage, read> data: array<f32>;
fn find(th: f32) -> R {
  var i = 0u;
  loop {
    if i >= 4u { break; }
    let v = data[i];
    if v > th { return R(i, v); }
    i++;
  }
  return R(99u, -1.0);
}
fn sum_to(n: u32) -> u32 {
  var s = 0u;
  for (var k = 1u; k <= n; k++) { s += k; if s > 20u { return 1000u + k; } }
  return s;
}
@compute @workgroup_size(1)
fn main() {
  let a = find(2.5);
  let b = find(100.0);
  o[0] = a.idx; o[1] = bitcast<u32>(a.val);
  o[2] = b.idx; o[3] = bitcast<u32>(b.val);
  o[4] = sum_to(4u);
  o[5] = sum_to(10u);
}`,
		in:        map[bind][]uint32{{0, 0}: zeros(6), {0, 1}: words(1.0, 2.0, 3.0, 4.0)},
		want:      map[bind][]uint32{{0, 0}: words(2, 3.0, 99, -1.0, 10, 1006)},
		inlineBug: "a return inside a loop of the callee becomes a break that leaves only that inner loop",
	})

	add(&prog{name: "ptr_private_workgroup", src: `
@group(0) @binding(0) var<storage, read_write> o: array<u32>;
var<private> pv: array<u32, 3>;
var<workgroup> wv: u32;
fn setp(p: ptr<private, array<u32, 3>>, i: u32, v: u32) { (*p)[i] = v; }
fn addw(p: ptr<workgroup, u32>, v: u32) { *p = *p + v; }
@compute @workgroup_size(1)
fn main() {
  setp(&pv, 1u, 7u);
  setp(&pv, 2u, 8u);
  addw(&wv, 5u);
  addw(&wv, 6u);
  o[0] = pv[0]; o[1] = pv[1]; o[2] = pv[2]; o[3] = wv;
}`,
		in:   map[bind][]uint32{{0, 0}: fill(4, pad)},
		want: map[bind][]uint32{{0, 0}: words(0, 7, 8, 11)},
	})

	add(&prog{name: "private_per_invocation", src: `
@group(0) @binding(0) var<storage, read_write> o: array<u32>;
var<private> counter: u32 = 100u;
var<private> two: i32 = 2;
var<private> pvec = vec2<i32>(1, 2);
fn tick() -> u32 { counter += 1u; return counter; }
@compute @workgroup_size(3)
fn main(@builtin(local_invocation_index) li: u32) {
  for (var i = 0u; i < li; i++) { tick(); }
  o[li] = tick() + u32(pvec.y) + u32(two) - 2u;
  pvec.y = 50;
  two = 9;
}`,
		in:   map[bind][]uint32{{0, 0}: zeros(3)},
		want: map[bind][]uint32{{0, 0}: words(103, 104, 105)},
	})

	add(&prog{name: "workgroup_reverse_barrier", src: `
@group(0) @binding(0) var<storage, read_write> o: array<u32>;
@group(0) @binding(1) var<storage, read> inp: array<u32>;
var<workgroup> tile: array<u32, 4>;
@compute @workgroup_size(4)
fn main(@builtin(local_invocation_index) li: u32, @builtin(workgroup_id) wid: vec3<u32>) {
  let base = wid.x * 4u;
  tile[li] = inp[base + li];
  workgroupBarrier();
  o[base + li] = tile[3u - li];
}`,
		groups:  [3]uint32{2, 1, 1},
		in:      map[bind][]uint32{{0, 0}: zeros(8), {0, 1}: words(1, 2, 3, 4, 5, 6, 7, 8)},
		want:    map[bind][]uint32{{0, 0}: words(4, 3, 2, 1, 8, 7, 6, 5)},
		needCov: []string{"stmt.Barrier", "barrier.release"},
	})

	add(&prog{name: "barrier_reduction", src: `
@group(0) @binding(0) var<storage, read_write> o: array<u32>;
@group(0) @binding(1) var<storage, read> inp: array<u32>;
var<workgroup> sh: array<u32, 8>;
@compute @workgroup_size(8)
fn main(@builtin(local_invocation_index) li: u32) {
  sh[li] = inp[li];
  workgroupBarrier();
  for (var s = 4u; s > 0u; s >>= 1u) {
    if li < s { sh[li] += sh[li + s]; }
    workgroupBarrier();
  }
  if li == 0u { o[0] = sh[0]; }
}`,
		in:   map[bind][]uint32{{0, 0}: zeros(1), {0, 1}: words(1, 2, 3, 4, 5, 6, 7, 8)},
		want: map[bind][]uint32{{0, 0}: words(36)},
	})

	add(&prog{name: "atomics_storage", src: `
struct A { cnt: atomic<u32>, mx: atomic<i32>, mn: atomic<i32>, bits: atomic<u32> }
@group(0) @binding(0) var<storage, read_write> a: A;
@group(0) @binding(1) var<storage, read_write> o: array<u32>;
@compute @workgroup_size(4)
fn main(@builtin(local_invocation_index) li: u32) {
  let old = atomicAdd(&a.cnt, li + 1u);
  o[li] = old;
  atomicMax(&a.mx, i32(li) - 2);
  atomicMin(&a.mn, 5 - i32(li));
  atomicOr(&a.bits, 1u << li);
  if li == 3u {
    o[4] = atomicLoad(&a.cnt);
    o[5] = atomicExchange(&a.cnt, 77u);
    o[6] = atomicSub(&a.bits, 1u);
    o[7] = atomicXor(&a.bits, 0xFFu);
    o[8] = atomicAnd(&a.bits, 0xF0u);
    atomicStore(&a.mx, 42);
  }
}`,
		in:      map[bind][]uint32{{0, 0}: words(0, -100, 100, 0), {0, 1}: zeros(9)},
		want:    map[bind][]uint32{{0, 0}: words(77, 42, 2, 0xF0), {0, 1}: words(0, 1, 3, 6, 10, 10, 0xF, 0xE, 0xF1)},
		needCov: []string{"stmt.Atomic", "atomic.Add", "atomic.Max", "atomic.Min", "atomic.InclusiveOr", "atomic.Exchange", "atomic.Subtract", "atomic.ExclusiveOr", "atomic.And"},
	})

	add(&prog{name: "atomics_workgroup_cas", src: `
@group(0) @binding(0) var<storage, read_write> o: array<u32>;
var<workgroup> lock: atomic<u32>;
var<workgroup> wi: atomic<i32>;
@compute @workgroup_size(2)
fn main(@builtin(local_invocation_index) li: u32) {
  let r = atomicCompareExchangeWeak(&lock, 0u, li + 10u);
  o[li * 2u] = r.old_value;
  o[li * 2u + 1u] = select(0u, 1u, r.exchanged);
  atomicAdd(&wi, -3);
  workgroupBarrier();
  if li == 0u { o[4] = atomicLoad(&lock); o[5] = u32(atomicLoad(&wi)); }
}`,
		in:      map[bind][]uint32{{0, 0}: zeros(6)},
		want:    map[bind][]uint32{{0, 0}: words(0, 1, 10, 0, 10, -6)},
		needCov: []string{"atomic.CompareExchange"},
	})

	add(&prog{name: "workgroup_uniform_load", src: `
@group(0) @binding(0) var<storage, read_write> o: array<u32>;
var<workgroup> flag: u32;
@compute @workgroup_size(4)
fn main(@builtin(local_invocation_index) li: u32) {
  if li == 3u { flag = 7u; }
  let f = workgroupUniformLoad(&flag);
  o[li] = f + li;
}`,
		in:      map[bind][]uint32{{0, 0}: zeros(4)},
		want:    map[bind][]uint32{{0, 0}: words(7, 8, 9, 10)},
		needCov: []string{"stmt.WorkGroupUniformLoad"},
	})

	{
		// built-ins: workgroup_size(2,2,1), dispatch (2,1,2)
		want := zeros(16 * 4)
		for gz := uint32(0); gz < 2; gz++ {
			for gx := uint32(0); gx < 2; gx++ {
				for ly := uint32(0); ly < 2; ly++ {
					for lx := uint32(0); lx < 2; lx++ {
						gidx, gidy, gidz := gx*2+lx, ly, gz
						flat := gidx + gidy*4 + gidz*8
						want[flat*4+0] = lx + ly*2
						want[flat*4+1] = lx + ly*10
						want[flat*4+2] = gx + gz*10
						want[flat*4+3] = 2*100 + 1*10 + 2
					}
				}
			}
		}
		add(&prog{name: "builtins", src: `
struct In { @builtin(local_invocation_id) lid: vec3<u32>, @builtin(workgroup_id) wid: vec3<u32> }
@group(0) @binding(0) var<storage, read_write> o: array<vec4<u32>>;
@compute @workgroup_size(2, 2, 1)
fn main(in: In, @builtin(global_invocation_id) gid: vec3<u32>, @builtin(local_invocation_index) li: u32, @builtin(num_workgroups) nw: vec3<u32>) {
  let flat = gid.x + gid.y * 4u + gid.z * 8u;
  o[flat] = vec4<u32>(li, in.lid.x + in.lid.y * 10u, in.wid.x + in.wid.z * 10u, nw.x * 100u + nw.y * 10u + nw.z);
}`,
			groups: [3]uint32{2, 1, 2},
			in:     map[bind][]uint32{{0, 0}: zeros(64)},
			want:   map[bind][]uint32{{0, 0}: want},
		})
	}

	overrideSrc := `
override scale: f32 = 2.0;
override count: u32 = 3u;
override flagb: bool = true;
override off: i32;
@group(0) @binding(0) var<storage, read_write> o: array<u32>;
@compute @workgroup_size(1)
fn main() {
  var s = 0u;
  for (var i = 0u; i < count; i++) { s += i; }
  o[0] = s;
  o[1] = u32(f32(s) * scale);
  o[2] = select(0u, 1u, flagb);
  o[3] = u32(off + 10);
}`
	add(&prog{name: "overrides_defaults", src: overrideSrc,
		overrides: map[string]float64{"off": -4},
		in:        map[bind][]uint32{{0, 0}: zeros(4)},
		want:      map[bind][]uint32{{0, 0}: words(3, 6, 1, 6)},
		needCov:   []string{"expr.Override"},
	})
	add(&prog{name: "overrides_given", src: overrideSrc,
		overrides: map[string]float64{"off": 1, "count": 5, "scale": 0.5, "flagb": 0},
		in:        map[bind][]uint32{{0, 0}: zeros(4)},
		want:      map[bind][]uint32{{0, 0}: words(10, 5, 0, 11)},
	})

	add(&prog{name: "pack_unpack", src: `
@group(0) @binding(0) var<storage, read_write> o: array<u32>;
@group(0) @binding(1) var<storage, read> f: array<f32>;
@group(0) @binding(2) var<storage, read> u: array<u32>;
@group(0) @binding(3) var<storage, read> i: array<i32>;
@group(0) @binding(4) var<storage, read_write> of: array<vec4<f32>>;
@group(0) @binding(5) var<storage, read_write> oi: array<vec4<i32>>;
@compute @workgroup_size(1)
fn main() {
  o[0] = pack4x8unorm(vec4<f32>(f[0], f[1], f[2], f[3]));
  o[1] = pack4x8snorm(vec4<f32>(f[4], f[5], f[1], f[3]));
  o[2] = pack2x16unorm(vec2<f32>(f[2], f[1]));
  o[3] = pack2x16snorm(vec2<f32>(f[4], f[6]));
  o[4] = pack2x16float(vec2<f32>(f[2], f[4]));
  o[5] = pack4xI8(vec4<i32>(i[0], i[1], i[2], i[3]));
  o[6] = pack4xU8(vec4<u32>(u[3], u[4], u[5], u[6]));
  o[7] = pack4xI8Clamp(vec4<i32>(i[4], i[5], i[0], i[1]));
  o[8] = pack4xU8Clamp(vec4<u32>(u[6], u[7], u[3], u[4]));
  of[0] = unpack4x8snorm(u[0]);
  of[1] = unpack4x8unorm(u[0]);
  of[2] = vec4<f32>(unpack2x16float(u[1]), unpack2x16unorm(u[2]));
  of[3] = vec4<f32>(unpack2x16snorm(u[2]), 0.0, 0.0);
  oi[0] = unpack4xI8(u[0]);
  oi[1] = vec4<i32>(unpack4xU8(u[0]));
}`,
		in: map[bind][]uint32{{0, 0}: zeros(9),
			{0, 1}: words(0.0, 1.0, 0.5, 2.0, -1.0, -0.5, 0.25, 100.0),
			{0, 2}: words(0x7F0081FF, 0x3C00C000, uint32(0xFFFF8000), 1, 2, 3, 255, 300),
			{0, 3}: words(-1, 2, 127, -128, 300, -300),
			{0, 4}: zeros(16), {0, 5}: zeros(8)},
		want: map[bind][]uint32{
			{0, 0}: words(uint32(0xFF80FF00), 0x7F7FC181, uint32(0xFFFF8000), 0x20008001, uint32(0xBC003800),
				uint32(0x807F02FF), uint32(0xFF030201), 0x02FF807F, 0x0201FFFF),
			{0, 4}: words(
				float32(float32(-1)/float32(127)), -1.0, 0.0, 1.0,
				1.0, float32(float32(129)/float32(255)), 0.0, float32(float32(127)/float32(255)),
				-2.0, 1.0, float32(float32(32768)/float32(65535)), 1.0,
				-1.0, float32(float32(-1)/float32(32767)), 0.0, 0.0),
			{0, 5}: words(-1, -127, 0, 127, 255, 129, 0, 127)},
		needCov: []string{"math.Pack4x8unorm", "math.Pack2x16float", "math.Unpack2x16float", "math.Unpack4xI8", "math.Pack4xU8Clamp"},
	})

	add(&prog{name: "modf_frexp_ldexp", src: `
@group(0) @binding(0) var<storage, read_write> o: array<f32>;
@group(0) @binding(1) var<storage, read> f: array<f32>;
@compute @workgroup_size(1)
fn main() {
  let m = modf(f[0]);
  o[0] = m.fract; o[1] = m.whole;
  let m2 = modf(f[1]);
  o[2] = m2.fract; o[3] = m2.whole;
  let fr = frexp(f[2]);
  o[4] = fr.fract; o[5] = f32(fr.exp);
  let fr2 = frexp(f[3]);
  o[6] = fr2.fract; o[7] = f32(fr2.exp);
  o[8] = ldexp(f[0], 3);
  o[9] = ldexp(f[2], -2);
  let mv = modf(vec2<f32>(f[0], f[1]));
  o[10] = mv.fract.x; o[11] = mv.fract.y; o[12] = mv.whole.x; o[13] = mv.whole.y;
  let fv = frexp(vec2<f32>(f[2], f[3]));
  o[14] = fv.fract.x; o[15] = fv.fract.y; o[16] = f32(fv.exp.x); o[17] = f32(fv.exp.y);
}`,
		in: map[bind][]uint32{{0, 0}: zeros(18), {0, 1}: words(3.75, -3.75, 12.0, 0.15625)},
		want: map[bind][]uint32{{0, 0}: words(0.75, 3.0, -0.75, -3.0, 0.75, 4.0, 0.625, -2.0, 30.0, 3.0,
			0.75, -0.75, 3.0, -3.0, 0.75, 0.625, 4.0, -2.0)},
		needCov: []string{"math.Modf", "math.Frexp", "math.Ldexp"},
	})

	add(&prog{name: "value_semantics", src: `
struct T { a: array<i32, 3>, k: i32 }
@group(0) @binding(0) var<storage, read_write> o: array<i32>;
@group(0) @binding(1) var<storage, read> inp: array<u32>;
@compute @workgroup_size(1)
fn main() {
  var x = array<i32, 3>(1, 2, 3);
  var y = x;
  y[1] = 20;
  let snap = x;
  x[0] = 10;
  o[0] = x[0] + x[1] + x[2];
  o[1] = y[0] + y[1] + y[2];
  o[2] = snap[0] + snap[1] + snap[2];
  var t: T;
  t.a = y;
  t.k = 5;
  var u = t;
  u.a[2] = 100;
  u.k = 6;
  o[3] = t.a[2] + t.k;
  o[4] = u.a[2] + u.k;
  let idx = inp[0];
  o[5] = u.a[idx];
  var nested: array<array<i32, 2>, 2>;
  nested[1][0] = 7;
  nested[idx - 1u][1] = 8;
  let row = nested[1];
  nested[1][0] = 9;
  o[6] = row[0] + row[1];
  o[7] = nested[1][0];
}`,
		in:   map[bind][]uint32{{0, 0}: zeros(8), {0, 1}: words(2)},
		want: map[bind][]uint32{{0, 0}: words(15, 24, 6, 8, 106, 100, 15, 9)},
	})

	add(&prog{name: "oob_traps", src: `
@group(0) @binding(0) var<storage, read_write> o: array<u32>;
@group(0) @binding(1) var<storage, read> inp: array<u32>;
@compute @workgroup_size(1)
fn main() {
  var arr = array<u32, 4>(1u, 2u, 3u, 4u);
  let i = inp[0];
  arr[i] = 99u;
  o[0] = arr[i];
  o[1] = arr[3];
  o[i] = 5u;
  o[2] = inp[i];
}`,
		in:    map[bind][]uint32{{0, 0}: fill(4, pad), {0, 1}: words(7, 11)},
		want:  map[bind][]uint32{{0, 0}: words(4, 4, 11, pad)},
		traps: []xrt.TrapKind{xrt.TrapOOB, xrt.TrapOOB, xrt.TrapOOB, xrt.TrapOOB},
	})

	add(&prog{name: "component_stores", src: `
@group(0) @binding(0) var<storage, read_write> o: array<i32>;
@group(0) @binding(1) var<storage, read> inp: array<u32>;
@compute @workgroup_size(1)
fn main() {
  var v = vec3<i32>(1, 2, 3);
  let k = inp[0];
  v[k] = 20;
  v.z = 30;
  let pv = &v;
  (*pv).x = 10;
  o[0] = v.x; o[1] = v.y; o[2] = v.z;
  var m = mat2x2<f32>(1.0, 2.0, 3.0, 4.0);
  m[k][0] = 9.0;
  m[0] = vec2<f32>(7.0, 8.0);
  let col = m[k];
  o[3] = i32(col.x + col.y);
  o[4] = i32(m[0][1]);
}`,
		in:   map[bind][]uint32{{0, 0}: zeros(5), {0, 1}: words(1)},
		want: map[bind][]uint32{{0, 0}: words(10, 20, 30, 13, 8)},
	})

	add(&prog{name: "let_snapshot", src: `
@group(0) @binding(0) var<storage, read_write> o: array<u32>;
@group(0) @binding(1) var<storage, read> inp: array<u32>;
@compute @workgroup_size(1)
fn main() {
  var x = inp[0];
  let a = x;
  x = x + 1u;
  let b = x * 2u;
  x = 100u;
  o[0] = a; o[1] = b; o[2] = x;
  var acc = 0u;
  for (var i = 0u; i < 3u; i++) { let t = acc + i; acc = t * 2u; }
  o[3] = acc;
}`,
		in:   map[bind][]uint32{{0, 0}: zeros(4), {0, 1}: words(3)},
		want: map[bind][]uint32{{0, 0}: words(3, 8, 100, 8)},
	})

	add(&prog{name: "uniform_struct", src: `
struct U { scale: vec4<f32>, offs: array<vec4<i32>, 2>, n: u32 }
@group(0) @binding(0) var<uniform> u: U;
@group(0) @binding(1) var<storage, read_write> o: array<vec4<i32>>;
@compute @workgroup_size(1)
fn main() {
  for (var i = 0u; i < u.n; i++) { o[i] = vec4<i32>(vec4<f32>(u.offs[i]) * u.scale); }
}`,
		in:   map[bind][]uint32{{0, 0}: words(1.0, 2.0, 3.0, 4.0, 1, 1, 1, 1, 2, 3, 4, 5, 2, pad, pad, pad), {0, 1}: zeros(8)},
		want: map[bind][]uint32{{0, 1}: words(1, 2, 3, 4, 2, 6, 12, 20)},
	})

	add(&prog{name: "module_consts", src: `
const TABLE = array<u32, 4>(10u, 20u, 30u, 40u);
const K: i32 = 3 * 4 + 1;
const V = vec3<f32>(1.0, 2.0, 3.0);
@group(0) @binding(0) var<storage, read_write> o: array<u32>;
@group(0) @binding(1) var<storage, read> inp: array<u32>;
@compute @workgroup_size(1)
fn main() {
  let i = inp[0];
  o[0] = TABLE[i];
  o[1] = u32(K);
  o[2] = u32(V.y + V[i]);
  var t = TABLE;
  t[i] = 1u;
  o[3] = t[0] + t[1] + t[2] + t[3];
}`,
		in:   map[bind][]uint32{{0, 0}: zeros(4), {0, 1}: words(2)},
		want: map[bind][]uint32{{0, 0}: words(30, 13, 5, 71)},
	})

	add(&prog{name: "nested_calls", src: `
@group(0) @binding(0) var<storage, read_write> o: array<i32>;
fn sq(x: i32) -> i32 { var acc: i32; acc += x * x; return acc; }
fn hyp2(v: vec2<i32>) -> i32 { return sq(v.x) + sq(v.y); }
fn mk(a: i32) -> vec2<i32> { return vec2<i32>(a, a + 1); }
@compute @workgroup_size(1)
fn main() {
  var total = 0;
  for (var i = 0; i < 3; i++) { total += hyp2(mk(i)); }
  o[0] = total;
  o[1] = sq(sq(2));
}`,
		in:        map[bind][]uint32{{0, 0}: zeros(2)},
		want:      map[bind][]uint32{{0, 0}: words(19, 16)},
		inlineBug: "locals of an inlined callee are initialised once per caller activation, not once per (inlined) call",
	})

	add(&prog{name: "float_math_exact", src: `
@group(0) @binding(0) var<storage, read_write> o: array<f32>;
@group(0) @binding(1) var<storage, read> f: array<f32>;
@compute @workgroup_size(1)
fn main() {
  o[0] = sqrt(f[0]);
  o[1] = exp2(f[1]);
  o[2] = log2(f[2]);
  o[3] = pow(f[3], f[1]);
  o[4] = inverseSqrt(f[0]);
  o[5] = fma(f[3], f[1], f[0]);
  o[6] = mix(f[6], f[5], f[4]);
  o[7] = smoothstep(f[6], f[7], f[4]);
  o[8] = length(vec2<f32>(f[1], f[0]));
  o[9] = distance(vec2<f32>(f[1], f[0]), vec2<f32>(f[6], f[6]));
  let n = normalize(vec2<f32>(f[1], f[0]));
  o[10] = n.x; o[11] = n.y;
  o[12] = quantizeToF16(f[8]);
  o[13] = exp(f[6]);
  o[14] = log(f[7]);
  o[15] = cos(f[6]);
  o[16] = sin(f[6]);
  o[17] = atan2(f[6], f[7]);
  o[18] = tanh(f[6]);
  o[19] = radians(f[9]);
  let r = reflect(vec2<f32>(f[7], -f[7]), vec2<f32>(f[6], f[7]));
  o[20] = r.x; o[21] = r.y;
  o[22] = mix(vec2<f32>(f[6], f[7]), vec2<f32>(f[5], f[5]), f[4]).y;
}`,
		in: map[bind][]uint32{{0, 0}: zeros(23), {0, 1}: words(4.0, 3.0, 8.0, 2.0, 0.5, 10.0, 0.0, 1.0, 0.1, 180.0)},
		want: map[bind][]uint32{{0, 0}: words(2.0, 8.0, 3.0, 8.0, 0.5, 10.0, 5.0, 0.5, 5.0, 5.0,
			float32(float32(3)/float32(5)), float32(float32(4)/float32(5)), 0.0999755859375,
			1.0, 0.0, 1.0, 0.0, 0.0, 0.0, uint32(0x40490FDB), 1.0, 1.0, 5.5)},
		needCov: []string{"math.Sqrt", "math.Exp2", "math.Log2", "math.Pow", "math.InverseSqrt", "math.Fma", "math.Mix", "math.SmoothStep",
			"math.Length", "math.Distance", "math.Normalize", "math.QuantizeF16", "math.Reflect", "math.Radians"},
	})

	return ps
}

func TestCalibrationPrograms(t *testing.T) {
	ps := calibPrograms()
	if len(ps) < 30 {
		t.Fatalf("only %d calibration programs", len(ps))
	}
	for _, p := range ps {
		p := p
		t.Run(p.name, func(t *testing.T) {
			m, err := lower(p.src)
			if err != nil {
				t.Fatalf("naga: %v", err)
			}
			base := runProg(t, p, m, "lowered", false)
			if t.Failed() {
				return
			}

			// (2) the same program after IR-to-IR passes must leave identical buffers.
			variants := []struct {
				name  string
				apply func(m *ir.Module) error
			}{
				{"CompactUnused", func(m *ir.Module) error { ir.CompactUnused(m); return nil }},
				{"CompactConstants", func(m *ir.Module) error { ir.CompactConstants(m); return nil }},
				{"CompactExpressions", func(m *ir.Module) error { ir.CompactExpressions(m); return nil }},
				{"CompactTypes+ReorderTypes", func(m *ir.Module) error { ir.CompactTypes(m); ir.ReorderTypes(m); return nil }},
				{"DeduplicateEmits", func(m *ir.Module) error { ir.DeduplicateEmits(m); return nil }},
				{"InlineUserFunctions", func(m *ir.Module) error { return ir.InlineUserFunctions(m, nil) }},
				{"Inline+Compact", func(m *ir.Module) error {
					if err := ir.InlineUserFunctions(m, nil); err != nil {
						return err
					}
					ir.CompactUnused(m)
					return nil
				}},
			}
			if p.overrides != nil {
				// ProcessOverrides substitutes the pipeline constants; afterwards no value is supplied.
				m2, err := lower(p.src)
				if err != nil {
					t.Fatalf("naga: %v", err)
				}
				if err := ir.ProcessOverrides(m2, ir.PipelineConstants(p.overrides)); err != nil {
					t.Errorf("ProcessOverrides: %v", err)
				} else {
					q := *p
					q.overrides = nil
					q.needCov = nil
					got := runProg(t, &q, m2, "ProcessOverrides", false)
					if d := sameBuffers(base, got); d != "" {
						t.Errorf("ProcessOverrides: buffers differ from the unprocessed module: %s", d)
					}
				}
			}
			for _, v := range variants {
				m2, err := lower(p.src)
				if err != nil {
					t.Fatalf("naga: %v", err)
				}
				if err := v.apply(m2); err != nil {
					t.Errorf("%s: pass failed: %v", v.name, err)
					continue
				}
				inlined := strings.HasPrefix(v.name, "Inline")
				if p.inlineBug != "" && inlined {
					// Known naga defect: run for robustness (no internal error), report, do not fail.
					bufs := p.buffers()
					if _, err := Run(m2, p.entryName(), bufs, p.config()); err != nil {
						t.Errorf("%s: Run: %v", v.name, err)
					} else if d := sameBuffers(base, bufs); d != "" {
						t.Logf("%s: KNOWN naga defect still present (%s): %s", v.name, p.inlineBug, d)
					} else {
						t.Logf("%s: naga defect no longer visible (%s)", v.name, p.inlineBug)
					}
					continue
				}
				got := runProg(t, p, m2, v.name, inlined)
				if d := sameBuffers(base, got); d != "" {
					t.Errorf("%s: buffers differ from the unprocessed module: %s", v.name, d)
				}
			}
		})
	}
}
