package irx

import (
	"errors"
	"fmt"
	"testing"

	"github.com/gogpu/naga/ir"
	"verif/internal/xrt"
)

// Places where the IR naga produces looked wrong while this interpreter was
// calibrated. Each entry has the minimal WGSL. The test only LOGS whether the
// defect is still present (it must keep passing when naga is repaired); what it
// asserts is that the interpreter reports these modules honestly (an error or a
// trap, never a panic).

type finding struct {
	name  string
	src   string
	check func(t *testing.T, src string) (present bool, detail string)
}

func runZero(m *ir.Module, entry string, words int, cfg Config) ([]uint32, xrt.Result, error) {
	bufs := xrt.Buffers{}
	for i := range m.GlobalVariables {
		g := &m.GlobalVariables[i]
		if g.Binding != nil {
			bufs[xrt.Slot{A: g.Binding.Group, B: g.Binding.Binding}] = make([]byte, 4*words)
		}
	}
	cfg.MaxSteps = 100000
	res, err := Run(m, entry, bufs, cfg)
	return toWords(bufs[xrt.Slot{}]), res, err
}

func TestNagaFindings(t *testing.T) {
	fs := []finding{
		{
			name: "workgroup_size with a suffixed / hex literal or an override silently becomes 1",
			src: `
override wgx: u32 = 4u;
@group(0) @binding(0) var<storage, read_write> o: array<u32>;
@compute @workgroup_size(4u, 0x2, wgx) fn main(@builtin(local_invocation_index) li: u32) { o[li] = 1u; }`,
			check: func(t *testing.T, src string) (bool, string) {
				m, err := lower(src)
				if err != nil {
					return false, "naga: " + err.Error()
				}
				ws := m.EntryPoints[0].Workgroup
				return ws != [3]uint32{4, 2, 4}, fmt.Sprintf("EntryPoint.Workgroup = %v, WGSL says (4, 2, wgx=4)", ws)
			},
		},
		{
			name: "module-scope initialiser: literals of a vector constructor take the kind of type #0 (1.5 becomes 1u)",
			src: `
@group(0) @binding(0) var<storage, read_write> o: array<u32>;
var<private> pf = vec2<f32>(1.5, 2.5);
@compute @workgroup_size(1) fn main() { o[0] = u32(pf.x * 2.0); }`,
			check: func(t *testing.T, src string) (bool, string) {
				m, err := lower(src)
				if err != nil {
					return false, "naga: " + err.Error()
				}
				out, _, err := runZero(m, "main", 4, Config{})
				var ill *irError
				if errors.As(err, &ill) {
					return true, err.Error()
				}
				if err != nil {
					t.Errorf("unexpected error class: %v", err)
				}
				return out[0] != 3, fmt.Sprintf("o[0] = %d, WGSL says 3", out[0])
			},
		},
		{
			name: "abstract-float literal survives lowering (mat * 2.0)",
			src: `
@group(0) @binding(0) var<storage, read_write> o: array<f32>;
@compute @workgroup_size(1) fn main() {
  var m = mat2x2<f32>(1.0, 2.0, 3.0, 4.0);
  let d = m * 2.0;
  o[0] = d[1][1];
}`,
			check: func(t *testing.T, src string) (bool, string) {
				m, err := lower(src)
				if err != nil {
					return false, "naga: " + err.Error()
				}
				out, res, err := runZero(m, "main", 4, Config{})
				if err != nil {
					t.Errorf("unexpected error: %v", err)
					return false, ""
				}
				if out[0] != fb(8) {
					t.Errorf("o[0] = %#x, want 8.0", out[0])
				}
				return res.Cov["ir-odd.abstract-literal"] > 0, fmt.Sprintf("traps: %v", res.Traps)
			},
		},
		{
			name: "override of type i32 whose initialiser is built from f32 literals",
			src: `
override n: i32 = 2 * 3;
@group(0) @binding(0) var<storage, read_write> o: array<i32>;
@compute @workgroup_size(1) fn main() { o[0] = n; }`,
			check: func(t *testing.T, src string) (bool, string) {
				m, err := lower(src)
				if err != nil {
					return false, "naga: " + err.Error()
				}
				out, res, err := runZero(m, "main", 4, Config{})
				if err != nil {
					t.Errorf("unexpected error: %v", err)
					return false, ""
				}
				if out[0] != 6 {
					t.Errorf("o[0] = %d, want 6", out[0])
				}
				return len(res.Traps) > 0, fmt.Sprintf("traps: %v", res.Traps)
			},
		},
		{
			name: "override-sized workgroup array loses its size (type becomes a runtime-sized array)",
			src: `
override n: u32 = 4u;
var<workgroup> wa: array<u32, n>;
@group(0) @binding(0) var<storage, read_write> o: array<u32>;
@compute @workgroup_size(1) fn main() { wa[1] = 5u; o[0] = wa[1]; }`,
			check: func(t *testing.T, src string) (bool, string) {
				m, err := lower(src)
				if err != nil {
					return false, "naga: " + err.Error()
				}
				out, _, err := runZero(m, "main", 4, Config{})
				var u *xrt.Unsupported
				if errors.As(err, &u) {
					return true, err.Error()
				}
				if err != nil {
					t.Errorf("unexpected error class: %v", err)
				}
				return out[0] != 5, fmt.Sprintf("o[0] = %d", out[0])
			},
		},
		{
			name: "compound assignment through a pointer parameter has no Load on the left operand",
			src: `
@group(0) @binding(0) var<storage, read_write> o: array<u32>;
fn inc(p: ptr<function, u32>) { *p += 2u; }
@compute @workgroup_size(1) fn main() { var x = 5u; inc(&x); o[0] = x; }`,
			check: func(t *testing.T, src string) (bool, string) {
				m, err := lower(src)
				if err != nil {
					return false, "naga: " + err.Error()
				}
				out, _, err := runZero(m, "main", 4, Config{})
				var ill *irError
				if errors.As(err, &ill) {
					return true, err.Error()
				}
				if err != nil {
					t.Errorf("unexpected error class: %v", err)
				}
				return out[0] != 7, fmt.Sprintf("o[0] = %d, WGSL says 7", out[0])
			},
		},
		{
			name: "var without initialiser inside a loop body is zeroed once per call, not per iteration",
			src: `
@group(0) @binding(0) var<storage, read_write> o: array<u32>;
@compute @workgroup_size(1) fn main() {
  for (var i = 0u; i < 4u; i++) { var t: u32; t += i + 1u; o[i] = t; }
}`,
			check: func(t *testing.T, src string) (bool, string) {
				m, err := lower(src)
				if err != nil {
					return false, "naga: " + err.Error()
				}
				out, _, err := runZero(m, "main", 4, Config{})
				if err != nil {
					t.Errorf("unexpected error: %v", err)
					return false, ""
				}
				return fmt.Sprint(out) != "[1 2 3 4]", fmt.Sprintf("o = %v, WGSL says [1 2 3 4]", out)
			},
		},
		{
			name: "InlineUserFunctions: locals of the callee are initialised once per caller activation",
			src: `
@group(0) @binding(0) var<storage, read_write> o: array<i32>;
fn sq(x: i32) -> i32 { var acc = 0; acc += x * x; return acc; }
@compute @workgroup_size(1) fn main() { for (var i = 0; i < 4; i++) { o[i] = sq(i + 1); } }`,
			check: inlineDiffers("[1 4 9 16]"),
		},
		{
			name: "InlineUserFunctions: return inside a loop of the callee only leaves that loop",
			src: `
@group(0) @binding(0) var<storage, read_write> o: array<i32>;
fn first_big(th: i32) -> i32 { for (var i = 0; i < 8; i++) { if i * i > th { return i; } } return -1; }
@compute @workgroup_size(1) fn main() { o[0] = first_big(10); o[1] = first_big(100); }`,
			check: inlineDiffers("[4 -1 0 0]"),
		},
		{
			name: "InlineUserFunctions: return inside a switch of the callee never leaves the synthetic loop (hang)",
			src: `
@group(0) @binding(0) var<storage, read_write> o: array<i32>;
fn pick(x: i32) -> i32 { switch x { case 0: { return 10; } default: { return 20; } } }
@compute @workgroup_size(1) fn main() { o[0] = pick(0); o[1] = pick(5); }`,
			check: inlineDiffers("[10 20 0 0]"),
		},
		{
			name: "InlineUserFunctions: AtomicExchange.Compare is not remapped into the caller's arena",
			src: `
@group(0) @binding(0) var<storage, read_write> o: array<i32>;
var<workgroup> a: atomic<i32>;
fn cas(expect: i32, v: i32) -> i32 { let r = atomicCompareExchangeWeak(&a, expect, v); return select(0, 1, r.exchanged) + r.old_value * 10; }
@compute @workgroup_size(1) fn main() { let unused = 1.5; o[0] = cas(0, 7); o[1] = cas(7, 9); o[2] = cas(1, 2); }`,
			check: inlineDiffers("[1 71 90 0]"),
		},
	}
	for _, f := range fs {
		func() {
			defer func() {
				if r := recover(); r != nil {
					t.Errorf("%s: panic: %v", f.name, r)
				}
			}()
			present, detail := f.check(t, f.src)
			if present {
				t.Logf("FINDING present: %s\n    %s", f.name, detail)
			} else {
				t.Logf("not reproduced: %s (%s)", f.name, detail)
			}
		}()
	}
}

// inlineDiffers runs the program before and after InlineUserFunctions; before
// must give the WGSL result, after is reported.
func inlineDiffers(want string) func(t *testing.T, src string) (bool, string) {
	return func(t *testing.T, src string) (bool, string) {
		m, err := lower(src)
		if err != nil {
			return false, "naga: " + err.Error()
		}
		before, res, err := runZero(m, "main", 4, Config{})
		if err != nil {
			t.Errorf("before inlining: %v", err)
			return false, ""
		}
		got := make([]int32, len(before))
		for i, w := range before {
			got[i] = int32(w)
		}
		if fmt.Sprint(got) != want || res.Cov["lazy-eval"] != 0 {
			t.Errorf("before inlining: o = %v (lazy %d), WGSL says %s", got, res.Cov["lazy-eval"], want)
		}
		m2, _ := lower(src)
		if err := ir.InlineUserFunctions(m2, nil); err != nil {
			return true, "pass error: " + err.Error()
		}
		after, res2, err := runZero(m2, "main", 4, Config{})
		if err != nil {
			var u *xrt.Unsupported
			var ill *irError
			if !errors.As(err, &u) && !errors.As(err, &ill) {
				t.Errorf("after inlining: unexpected error class: %v", err)
			}
			return true, "after inlining: " + err.Error()
		}
		got2 := make([]int32, len(after))
		for i, w := range after {
			got2[i] = int32(w)
		}
		return fmt.Sprint(got2) != want, fmt.Sprintf("after inlining o = %v, before %s; %d un-emitted expressions consumed", got2, want, res2.Cov["lazy-eval"])
	}
}
