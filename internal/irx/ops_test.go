package irx

import (
	"math"
	"testing"

	"github.com/gogpu/naga/ir"
	"verif/internal/xrt"
)

func TestF16Conversions(t *testing.T) {
	for _, c := range []struct {
		f float32
		h uint16
	}{
		{0, 0x0000}, {float32(math.Copysign(0, -1)), 0x8000},
		{1, 0x3C00}, {-2, 0xC000}, {0.5, 0x3800}, {65504, 0x7BFF},
		{65519.996, 0x7BFF}, {65520, 0x7C00}, {1e6, 0x7C00}, {-1e6, 0xFC00},
		{0.1, 0x2E66},
		{5.9604645e-8, 0x0001},  // 2^-24, smallest subnormal
		{2.9802322e-8, 0x0000},  // 2^-25, tie -> even (0)
		{2.9802326e-8, 0x0001},  // just above the tie
		{6.1035156e-5, 0x0400},  // 2^-14, smallest normal
		{6.0975552e-5, 0x03FF},  // largest subnormal
		{6.1005354e-5, 0x0400},  // half-way between 0x3FF and 0x400 -> even (0x400)
		{1.0009765625, 0x3C01},  // 1 + 2^-10
		{1.00048828125, 0x3C00}, // 1 + 2^-11: tie -> even
		{1.00146484375, 0x3C02}, // 1 + 3*2^-11: tie -> even (up)
		{float32(math.Inf(1)), 0x7C00},
	} {
		if got := f32ToF16(c.f); got != c.h {
			t.Errorf("f32ToF16(%v) = %#04x, want %#04x", c.f, got, c.h)
		}
	}
	if h := f32ToF16(float32(math.NaN())); h&0x7C00 != 0x7C00 || h&0x3FF == 0 {
		t.Errorf("f32ToF16(NaN) = %#04x", h)
	}
	for _, c := range []struct {
		h uint16
		f float32
	}{
		{0x3C00, 1}, {0xC000, -2}, {0x7BFF, 65504}, {0x0001, 5.9604645e-8}, {0x03FF, 6.0975552e-5},
		{0x0400, 6.1035156e-5}, {0x2E66, 0.0999755859375}, {0x7C00, float32(math.Inf(1))}, {0x8000, float32(math.Copysign(0, -1))},
	} {
		if got := f16ToF32(c.h); math.Float32bits(got) != math.Float32bits(c.f) {
			t.Errorf("f16ToF32(%#04x) = %v, want %v", c.h, got, c.f)
		}
	}
	// every f16 value survives the round trip
	for h := 0; h < 0x10000; h++ {
		f := f16ToF32(uint16(h))
		if f != f {
			continue
		}
		if back := f32ToF16(f); back != uint16(h) {
			t.Fatalf("round trip %#04x -> %v -> %#04x", h, f, back)
		}
	}
}

func TestIntegerRules(t *testing.T) {
	if idiv(7, 0) != 7 || imod(7, 0) != 0 || idiv(math.MinInt32, -1) != math.MinInt32 || imod(math.MinInt32, -1) != 0 {
		t.Error("signed division edge cases")
	}
	if idiv(-7, 2) != -3 || imod(-7, 2) != -1 || imod(7, -2) != 1 {
		t.Error("signed division truncation")
	}
	if udiv(7, 0) != 7 || umod(7, 0) != 0 {
		t.Error("unsigned division edge cases")
	}
	nan := float32(math.NaN())
	inf := float32(math.Inf(1))
	if f2i(nan) != 0 || f2i(inf) != math.MaxInt32 || f2i(-inf) != math.MinInt32 || f2i(2147483648) != math.MaxInt32 ||
		f2i(-2147483904) != math.MinInt32 || f2i(-1.99) != -1 || f2i(2147483520) != 2147483520 {
		t.Error("f32 -> i32")
	}
	if f2u(nan) != 0 || f2u(inf) != math.MaxUint32 || f2u(-0.5) != 0 || f2u(-7) != 0 || f2u(4294967296) != math.MaxUint32 ||
		f2u(4294967040) != 4294967040 || f2u(3.99) != 3 {
		t.Error("f32 -> u32")
	}
	if firstLeadingBitU(0) != 0xFFFFFFFF || firstLeadingBitU(1) != 0 || firstLeadingBitU(0x80000000) != 31 {
		t.Error("firstLeadingBit u32")
	}
	if firstLeadingBitI(0) != 0xFFFFFFFF || firstLeadingBitI(-1) != 0xFFFFFFFF || firstLeadingBitI(-2) != 0 ||
		firstLeadingBitI(math.MinInt32) != 30 || firstLeadingBitI(math.MaxInt32) != 30 || firstLeadingBitI(1) != 0 {
		t.Error("firstLeadingBit i32")
	}
	if firstTrailingBit(0) != 0xFFFFFFFF || firstTrailingBit(8) != 3 {
		t.Error("firstTrailingBit")
	}
	if extractBitsU(0xABCD1234, 0, 32) != 0xABCD1234 || extractBitsU(0xABCD1234, 16, 16) != 0xABCD ||
		extractBitsU(0xABCD1234, 31, 5) != 1 || extractBitsU(0xABCD1234, 32, 1) != 0 || extractBitsU(0xABCD1234, 100, 100) != 0 ||
		extractBitsU(0xABCD1234, 4, 0) != 0 {
		t.Error("extractBits u32")
	}
	if extractBitsI(-1, 0, 32) != 0xFFFFFFFF || extractBitsI(0x00000080, 4, 4) != 0xFFFFFFF8 || extractBitsI(0x00000070, 4, 4) != 7 ||
		extractBitsI(math.MinInt32, 31, 1) != 0xFFFFFFFF || extractBitsI(math.MinInt32, 31, 9) != 0xFFFFFFFF || extractBitsI(5, 40, 3) != 0 {
		t.Error("extractBits i32")
	}
	if insertBits(0, 0xFFFFFFFF, 0, 32) != 0xFFFFFFFF || insertBits(0xFFFFFFFF, 0, 8, 8) != 0xFFFF00FF ||
		insertBits(0x12345678, 0xF, 28, 100) != 0xF2345678 || insertBits(0x12345678, 0xF, 32, 4) != 0x12345678 ||
		insertBits(0x12345678, 0xF, 4, 0) != 0x12345678 {
		t.Error("insertBits")
	}
	// shifts use the amount modulo 32
	for _, c := range []struct {
		op   ir.BinaryOperator
		k    ir.ScalarKind
		a, b uint32
		want uint32
	}{
		{ir.BinaryShiftLeft, ir.ScalarUint, 1, 32, 1}, {ir.BinaryShiftLeft, ir.ScalarUint, 1, 35, 8},
		{ir.BinaryShiftRight, ir.ScalarSint, 0x80000000, 31, 0xFFFFFFFF}, {ir.BinaryShiftRight, ir.ScalarUint, 0x80000000, 31, 1},
		{ir.BinaryShiftRight, ir.ScalarSint, 0x80000000, 63, 0xFFFFFFFF},
		{ir.BinaryMultiply, ir.ScalarSint, 0x10000, 0x10000, 0}, {ir.BinarySubtract, ir.ScalarUint, 0, 1, 0xFFFFFFFF},
		{ir.BinaryLess, ir.ScalarSint, 0xFFFFFFFF, 0, 1}, {ir.BinaryLess, ir.ScalarUint, 0xFFFFFFFF, 0, 0},
	} {
		got, err := binScalar(c.op, c.k, c.a, c.b)
		if err != nil || got != c.want {
			t.Errorf("%s.%s(%#x, %#x) = %#x (%v), want %#x", binOpName(c.op), kindName(c.k), c.a, c.b, got, err, c.want)
		}
	}
	if _, err := binScalar(ir.BinaryExclusiveOr, ir.ScalarFloat, 0, 0); err == nil {
		t.Error("xor on floats accepted")
	}
	if _, err := binScalar(ir.BinaryAdd, ir.ScalarBool, 0, 0); err == nil {
		t.Error("add on bools accepted")
	}
}

func testInvocation() *invocation {
	in := &interp{m: &ir.Module{}, budget: 1 << 30, maxElems: 1 << 20}
	in.res.Cov = xrt.Coverage{}
	return &invocation{in: in}
}

func fvec(xs ...float32) vector {
	v := vector{k: ir.ScalarFloat, n: len(xs)}
	for i, x := range xs {
		v.c[i] = math.Float32bits(x)
	}
	return v
}

func fmat(cols ...vector) matrix {
	m := matrix{cols: len(cols), rows: cols[0].n}
	for c := range cols {
		m.c[c] = cols[c].c
	}
	return m
}

func TestMatrixMath(t *testing.T) {
	iv := testInvocation()
	// rows: [1 2 3; 0 1 4; 5 6 0], determinant 1, inverse rows: [-24 18 5; 20 -15 -4; -5 4 1]
	m := fmat(fvec(1, 0, 5), fvec(2, 1, 6), fvec(3, 4, 0))
	d, err := iv.mathFn(ir.MathDeterminant, []val{m})
	if err != nil || d != f32v(1) {
		t.Errorf("determinant = %v (%v)", d, err)
	}
	inv, err := iv.mathFn(ir.MathInverse, []val{m})
	if err != nil {
		t.Fatal(err)
	}
	want := fmat(fvec(-24, 20, -5), fvec(18, -15, 4), fvec(5, -4, 1))
	if inv != val(want) {
		t.Errorf("inverse = %v, want %v", inv, want)
	}
	prod, err := iv.binary(ir.BinaryMultiply, m, inv)
	if err != nil || prod != val(fmat(fvec(1, 0, 0), fvec(0, 1, 0), fvec(0, 0, 1))) {
		t.Errorf("m * inverse(m) = %v (%v)", prod, err)
	}
	// 4x4 determinant: diag(2,3,4,5) with one off-diagonal element
	m4 := fmat(fvec(2, 0, 0, 0), fvec(7, 3, 0, 0), fvec(0, 0, 4, 0), fvec(0, 0, 0, 5))
	d, _ = iv.mathFn(ir.MathDeterminant, []val{m4})
	if d != f32v(120) {
		t.Errorf("det4 = %v", d)
	}
	// mat2x3 (2 columns, 3 rows) * mat3x2 (3 columns, 2 rows) = mat3x3
	a := fmat(fvec(1, 2, 3), fvec(4, 5, 6))
	b := fmat(fvec(1, 0), fvec(0, 1), fvec(2, 3))
	p, err := iv.binary(ir.BinaryMultiply, a, b)
	if err != nil || p != val(fmat(fvec(1, 2, 3), fvec(4, 5, 6), fvec(14, 19, 24))) {
		t.Errorf("a*b = %v (%v)", p, err)
	}
	if _, err := iv.binary(ir.BinaryMultiply, a, a); err == nil {
		t.Error("mat2x3 * mat2x3 accepted")
	}
	if _, err := iv.binary(ir.BinaryMultiply, a, fvec(1, 2, 3)); err == nil {
		t.Error("mat2x3 * vec3 accepted")
	}
	o, err := iv.mathFn(ir.MathOuter, []val{fvec(1, 2, 3), fvec(4, 5)})
	if err != nil || o != val(fmat(fvec(4, 8, 12), fvec(5, 10, 15))) {
		t.Errorf("outer = %v (%v)", o, err)
	}
}

func TestMathMisc(t *testing.T) {
	iv := testInvocation()
	nan := float32(math.NaN())
	// WGSL: min(e1,e2) = e2 < e1 ? e2 : e1 ; max(e1,e2) = e1 < e2 ? e2 : e1
	if v, _ := iv.mathFn(ir.MathMin, []val{f32v(nan), f32v(1)}); v.(scalar).b != math.Float32bits(nan) {
		t.Errorf("min(NaN,1) = %v", v)
	}
	if v, _ := iv.mathFn(ir.MathMin, []val{f32v(1), f32v(nan)}); v != f32v(1) {
		t.Errorf("min(1,NaN) = %v", v)
	}
	if v, _ := iv.mathFn(ir.MathClamp, []val{i32v(5), i32v(0), i32v(-2)}); v != i32v(-2) {
		t.Errorf("clamp(5,0,-2) = %v", v)
	}
	if v, _ := iv.mathFn(ir.MathAbs, []val{i32v(math.MinInt32)}); v != i32v(math.MinInt32) {
		t.Errorf("abs(INT_MIN) = %v", v)
	}
	if v, _ := iv.mathFn(ir.MathDot4I8Packed, []val{u32v(0xFF02FE01), u32v(0x01FF0203)}); v != i32v(-1+(-2)+(-4)+3) {
		t.Errorf("dot4I8Packed = %v", v)
	}
	if v, _ := iv.mathFn(ir.MathDot4U8Packed, []val{u32v(0xFF02FE01), u32v(0x01FF0203)}); v != u32v(255+2*255+254*2+3) {
		t.Errorf("dot4U8Packed = %v", v)
	}
	if v, _ := iv.mathFn(ir.MathRefract, []val{fvec(0, -1), fvec(0, 1), f32v(0.5)}); v != val(fvec(0, -1)) {
		t.Errorf("refract = %v", v)
	}
	// total internal reflection: k < 0 gives the zero vector
	if v, _ := iv.mathFn(ir.MathRefract, []val{fvec(1, 0), fvec(0, 1), f32v(2)}); v != val(fvec(0, 0)) {
		t.Errorf("refract (TIR) = %v", v)
	}
	if v, _ := iv.mathFn(ir.MathFaceForward, []val{fvec(1, 2), fvec(0, 1), fvec(0, 1)}); v != val(fvec(-1, -2)) {
		t.Errorf("faceForward = %v", v)
	}
	if v, _ := iv.mathFn(ir.MathRound, []val{fvec(0.5, 1.5, 2.5, -0.5)}); v != val(fvec(0, 2, 2, float32(math.Copysign(0, -1)))) {
		t.Errorf("round = %v", v)
	}
	if _, err := iv.mathFn(ir.MathSqrt, []val{i32v(4)}); err == nil {
		t.Error("sqrt(i32) accepted")
	}
	if _, err := iv.mathFn(ir.MathDot, []val{fvec(1, 2), fvec(1, 2, 3)}); err == nil {
		t.Error("dot of vec2 and vec3 accepted")
	}
	if _, err := iv.mathFn(ir.MathFunction(200), []val{f32v(1)}); err == nil {
		t.Error("unknown math function accepted")
	}
	// every declared math function has a name (coverage keys)
	for f := ir.MathAbs; f <= ir.MathUnpack4xU8; f++ {
		if mathName(f) == "?" {
			t.Errorf("math function %d has no name", f)
		}
	}
}
