package irx

import (
	"encoding/binary"
	"fmt"

	"github.com/gogpu/naga/ir"
	"verif/internal/xrt"
)

// ref is a reference to a memory location.
//
// Function, private and workgroup variables live in a cell holding a value
// tree; a reference is the cell plus a path of indices (so a pointer taken
// before a store to an enclosing object still denotes the same location).
//
// Storage and uniform variables are views into the caller's byte buffers; a
// reference is (buffer, byte offset, pointee type) and the layout is the IR's
// own: StructMember.Offset, ArrayType.Stride, matrix columns at the column
// vector's alignment.
type ref struct {
	// value-tree memory
	cell *val
	path []uint32
	// byte-buffer memory
	isBuf bool
	buf   []byte
	off   int
	ty    ir.TypeInner
	// an index on the way here was out of range; path/off hold the clamped location
	oob  bool
	name string
	// uniform buffers and read-only storage buffers must not be written
	readonly bool
}

func (r ref) String() string {
	if r.isBuf {
		return fmt.Sprintf("%s+%d", r.name, r.off)
	}
	return fmt.Sprintf("%s%v", r.name, r.path)
}

// ---- value-tree memory --------------------------------------------------------

// getPath reads the sub-value at path.
func getPath(v val, path []uint32) (val, error) {
	for _, i := range path {
		switch x := v.(type) {
		case array:
			if int(i) >= len(x.e) {
				return nil, illFormed("path index %d beyond array of %d", i, len(x.e))
			}
			v = x.e[i]
		case strct:
			if int(i) >= len(x.f) {
				return nil, illFormed("path index %d beyond struct of %d members", i, len(x.f))
			}
			v = x.f[i]
		case vector:
			if int(i) >= x.n {
				return nil, illFormed("path index %d beyond vec%d", i, x.n)
			}
			v = scalar{x.k, x.c[i]}
		case matrix:
			if int(i) >= x.cols {
				return nil, illFormed("path index %d beyond %d matrix columns", i, x.cols)
			}
			v = x.column(int(i))
		default:
			return nil, illFormed("indexing into %s through a pointer", shapeName(v))
		}
	}
	return v, nil
}

// setPath returns v with the sub-value at path replaced by nv. Arrays and
// structs are updated in place (a variable owns its tree exclusively: loads
// and stores clone).
func setPath(v val, path []uint32, nv val) (val, error) {
	if len(path) == 0 {
		if !sameShape(v, nv) {
			return nil, illFormed("store of %s into a location holding %s", shapeName(nv), shapeName(v))
		}
		return clone(nv), nil
	}
	i := path[0]
	switch x := v.(type) {
	case array:
		if int(i) >= len(x.e) {
			return nil, illFormed("path index %d beyond array of %d", i, len(x.e))
		}
		n, err := setPath(x.e[i], path[1:], nv)
		if err != nil {
			return nil, err
		}
		x.e[i] = n
		return x, nil
	case strct:
		if int(i) >= len(x.f) {
			return nil, illFormed("path index %d beyond struct of %d members", i, len(x.f))
		}
		n, err := setPath(x.f[i], path[1:], nv)
		if err != nil {
			return nil, err
		}
		x.f[i] = n
		return x, nil
	case vector:
		if int(i) >= x.n {
			return nil, illFormed("path index %d beyond vec%d", i, x.n)
		}
		n, err := setPath(scalar{x.k, x.c[i]}, path[1:], nv)
		if err != nil {
			return nil, err
		}
		x.c[i] = n.(scalar).b
		return x, nil
	case matrix:
		if int(i) >= x.cols {
			return nil, illFormed("path index %d beyond %d matrix columns", i, x.cols)
		}
		n, err := setPath(x.column(int(i)), path[1:], nv)
		if err != nil {
			return nil, err
		}
		col := n.(vector)
		copy(x.c[i][:x.rows], col.c[:x.rows])
		return x, nil
	}
	return nil, illFormed("indexing into %s through a pointer", shapeName(v))
}

// ---- byte-buffer memory -------------------------------------------------------

// colStride is the byte distance between matrix columns: the alignment of the
// column vector (vec2 -> 8, vec3 and vec4 -> 16 for 4-byte scalars).
func colStride(rows ir.VectorSize, width uint8) int {
	if rows == ir.Vec2 {
		return 2 * int(width)
	}
	return 4 * int(width)
}

// bufElem describes what indexing a buffer-resident object yields.
// count < 0 means "not indexable".
func (in *interp) bufElem(r ref, t ir.TypeInner) (count int, at func(i int) (int, ir.TypeInner, error), err error) {
	switch x := t.(type) {
	case ir.VectorType:
		w := int(x.Scalar.Width)
		return int(x.Size), func(i int) (int, ir.TypeInner, error) { return r.off + i*w, x.Scalar, nil }, nil
	case ir.MatrixType:
		cs := colStride(x.Rows, x.Scalar.Width)
		col := ir.VectorType{Size: x.Rows, Scalar: x.Scalar}
		return int(x.Columns), func(i int) (int, ir.TypeInner, error) { return r.off + i*cs, col, nil }, nil
	case ir.ArrayType:
		bt, e := in.inner(x.Base)
		if e != nil {
			return 0, nil, e
		}
		if x.Stride == 0 {
			return 0, nil, illFormed("array type with stride 0 in buffer %s", r.name)
		}
		n := 0
		if x.Size.Constant != nil {
			n = int(*x.Size.Constant)
		} else {
			n = runtimeLen(r, x)
		}
		st := int(x.Stride)
		return n, func(i int) (int, ir.TypeInner, error) { return r.off + i*st, bt, nil }, nil
	case ir.StructType:
		return len(x.Members), func(i int) (int, ir.TypeInner, error) {
			mt, e := in.inner(x.Members[i].Type)
			return r.off + int(x.Members[i].Offset), mt, e
		}, nil
	}
	return -1, nil, nil
}

// runtimeLen is the element count of a runtime-sized array at r.
func runtimeLen(r ref, a ir.ArrayType) int {
	if a.Stride == 0 || len(r.buf) <= r.off {
		return 0
	}
	return (len(r.buf) - r.off) / int(a.Stride)
}

func (iv *invocation) loadBuf(r ref, off int, t ir.TypeInner, depth int) (val, error) {
	in := iv.in
	if depth > 64 {
		return nil, illFormed("type nesting too deep")
	}
	switch x := t.(type) {
	case ir.ScalarType:
		return iv.loadScalar(r, off, x)
	case ir.AtomicType:
		return iv.loadScalar(r, off, x.Scalar)
	case ir.VectorType:
		v := vector{k: x.Scalar.Kind, n: int(x.Size)}
		for i := 0; i < v.n; i++ {
			s, err := iv.loadScalar(r, off+i*int(x.Scalar.Width), x.Scalar)
			if err != nil {
				return nil, err
			}
			v.c[i] = s.b
		}
		return v, nil
	case ir.MatrixType:
		if x.Scalar.Kind != ir.ScalarFloat {
			return nil, illFormed("matrix of %s", kindName(x.Scalar.Kind))
		}
		m := matrix{cols: int(x.Columns), rows: int(x.Rows)}
		cs := colStride(x.Rows, x.Scalar.Width)
		for c := 0; c < m.cols; c++ {
			for rr := 0; rr < m.rows; rr++ {
				s, err := iv.loadScalar(r, off+c*cs+rr*int(x.Scalar.Width), x.Scalar)
				if err != nil {
					return nil, err
				}
				m.c[c][rr] = s.b
			}
		}
		return m, nil
	case ir.ArrayType:
		if x.Size.Constant == nil {
			return nil, unsupported("load of a whole runtime-sized array")
		}
		n := int(*x.Size.Constant)
		if n > in.maxElems {
			return nil, unsupported("array of %d elements", n)
		}
		bt, err := in.inner(x.Base)
		if err != nil {
			return nil, err
		}
		e := make([]val, n)
		for i := range e {
			ev, err := iv.loadBuf(r, off+i*int(x.Stride), bt, depth+1)
			if err != nil {
				return nil, err
			}
			e[i] = ev
		}
		return array{e}, nil
	case ir.StructType:
		f := make([]val, len(x.Members))
		for i := range x.Members {
			mt, err := in.inner(x.Members[i].Type)
			if err != nil {
				return nil, err
			}
			fv, err := iv.loadBuf(r, off+int(x.Members[i].Offset), mt, depth+1)
			if err != nil {
				return nil, err
			}
			f[i] = fv
		}
		return strct{f}, nil
	}
	return nil, unsupported("load of %T from a buffer", t)
}

func (iv *invocation) loadScalar(r ref, off int, s ir.ScalarType) (scalar, error) {
	if err := checkScalar(s); err != nil {
		return scalar{}, err
	}
	if s.Kind == ir.ScalarBool {
		return scalar{}, illFormed("bool in host-shareable buffer %s", r.name)
	}
	if off < 0 || off+4 > len(r.buf) {
		iv.trap(xrt.TrapOOB, "read of 4 bytes at offset %d of %s (binding size %d)", off, r.name, len(r.buf))
		return scalar{k: s.Kind}, nil
	}
	return scalar{s.Kind, binary.LittleEndian.Uint32(r.buf[off:])}, nil
}

func (iv *invocation) storeScalar(r ref, off int, s ir.ScalarType, v val) error {
	if err := checkScalar(s); err != nil {
		return err
	}
	if s.Kind == ir.ScalarBool {
		return illFormed("bool in host-shareable buffer %s", r.name)
	}
	sv, ok := v.(scalar)
	if !ok || sv.k != s.Kind {
		return illFormed("store of %s into %s location of %s", shapeName(v), kindName(s.Kind), r.name)
	}
	if off < 0 || off+4 > len(r.buf) {
		iv.trap(xrt.TrapOOB, "write of 4 bytes at offset %d of %s (binding size %d)", off, r.name, len(r.buf))
		return nil
	}
	binary.LittleEndian.PutUint32(r.buf[off:], sv.b)
	return nil
}

func (iv *invocation) storeBuf(r ref, off int, t ir.TypeInner, v val, depth int) error {
	in := iv.in
	if depth > 64 {
		return illFormed("type nesting too deep")
	}
	switch x := t.(type) {
	case ir.ScalarType:
		return iv.storeScalar(r, off, x, v)
	case ir.AtomicType:
		return iv.storeScalar(r, off, x.Scalar, v)
	case ir.VectorType:
		vv, ok := v.(vector)
		if !ok || vv.n != int(x.Size) || vv.k != x.Scalar.Kind {
			return illFormed("store of %s into vec%d<%s> location of %s", shapeName(v), x.Size, kindName(x.Scalar.Kind), r.name)
		}
		for i := 0; i < vv.n; i++ {
			if err := iv.storeScalar(r, off+i*int(x.Scalar.Width), x.Scalar, scalar{vv.k, vv.c[i]}); err != nil {
				return err
			}
		}
		return nil
	case ir.MatrixType:
		mv, ok := v.(matrix)
		if !ok || mv.cols != int(x.Columns) || mv.rows != int(x.Rows) {
			return illFormed("store of %s into mat%dx%d location of %s", shapeName(v), x.Columns, x.Rows, r.name)
		}
		cs := colStride(x.Rows, x.Scalar.Width)
		for c := 0; c < mv.cols; c++ {
			for rr := 0; rr < mv.rows; rr++ {
				if err := iv.storeScalar(r, off+c*cs+rr*int(x.Scalar.Width), x.Scalar, scalar{ir.ScalarFloat, mv.c[c][rr]}); err != nil {
					return err
				}
			}
		}
		return nil
	case ir.ArrayType:
		av, ok := v.(array)
		if !ok {
			return illFormed("store of %s into array location of %s", shapeName(v), r.name)
		}
		if x.Size.Constant == nil {
			return unsupported("store of a whole runtime-sized array")
		}
		if len(av.e) != int(*x.Size.Constant) {
			return illFormed("store of array[%d] into array[%d] location of %s", len(av.e), *x.Size.Constant, r.name)
		}
		bt, err := in.inner(x.Base)
		if err != nil {
			return err
		}
		for i := range av.e {
			if err := iv.storeBuf(r, off+i*int(x.Stride), bt, av.e[i], depth+1); err != nil {
				return err
			}
		}
		return nil
	case ir.StructType:
		sv, ok := v.(strct)
		if !ok || len(sv.f) != len(x.Members) {
			return illFormed("store of %s into struct[%d] location of %s", shapeName(v), len(x.Members), r.name)
		}
		for i := range x.Members {
			mt, err := in.inner(x.Members[i].Type)
			if err != nil {
				return err
			}
			if err := iv.storeBuf(r, off+int(x.Members[i].Offset), mt, sv.f[i], depth+1); err != nil {
				return err
			}
		}
		return nil
	}
	return unsupported("store of %T into a buffer", t)
}

// ---- pointer operations -------------------------------------------------------

// index derives the reference to component idx of the object r refers to.
// constant says the index comes from AccessIndex (a struct member or a
// statically known component), where an out-of-range value is an IR defect and
// not a run-time event.
func (iv *invocation) index(r ref, idx uint32, constant bool) (ref, error) {
	if r.isBuf {
		n, at, err := iv.in.bufElem(r, r.ty)
		if err != nil {
			return ref{}, err
		}
		if n < 0 {
			return ref{}, illFormed("indexing a pointer to %T", r.ty)
		}
		if _, isStruct := r.ty.(ir.StructType); isStruct && !constant {
			return ref{}, illFormed("dynamic index into a struct (%s)", r.name)
		}
		out := r
		i := int(idx)
		if int64(idx) >= int64(n) {
			if _, isStruct := r.ty.(ir.StructType); isStruct {
				return ref{}, illFormed("member index %d beyond struct of %d members (%s)", idx, n, r.name)
			}
			out.oob = true
			i = n - 1
			if i < 0 {
				i = 0
			}
		}
		off, ty, err := at(i)
		if err != nil {
			return ref{}, err
		}
		out.off, out.ty = off, ty
		return out, nil
	}
	cur, err := getPath(*r.cell, r.path)
	if err != nil {
		return ref{}, err
	}
	n := -1
	switch x := cur.(type) {
	case array:
		n = len(x.e)
	case vector:
		n = x.n
	case matrix:
		n = x.cols
	case strct:
		if !constant {
			return ref{}, illFormed("dynamic index into a struct (%s)", r.name)
		}
		if int(idx) >= len(x.f) {
			return ref{}, illFormed("member index %d beyond struct of %d members (%s)", idx, len(x.f), r.name)
		}
		n = len(x.f)
	default:
		return ref{}, illFormed("indexing a pointer to %s (%s)", shapeName(cur), r.name)
	}
	out := r
	i := idx
	if int64(idx) >= int64(n) {
		out.oob = true
		if n > 0 {
			i = uint32(n - 1)
		} else {
			i = 0
		}
	}
	out.path = append(append(make([]uint32, 0, len(r.path)+1), r.path...), i)
	return out, nil
}

func (iv *invocation) load(r ref) (val, error) {
	if r.oob {
		iv.trap(xrt.TrapOOB, "load through out-of-range index into %s", r.name)
	}
	if r.isBuf {
		return iv.loadBuf(r, r.off, r.ty, 0)
	}
	v, err := getPath(*r.cell, r.path)
	if err != nil {
		return nil, err
	}
	return clone(v), nil
}

func (iv *invocation) store(r ref, v val) error {
	if _, isPtr := v.(pointer); isPtr {
		return illFormed("store of a pointer value into %s", r.name)
	}
	if r.readonly {
		return illFormed("store into read-only variable %s", r.name)
	}
	if r.oob {
		iv.trap(xrt.TrapOOB, "store through out-of-range index into %s", r.name)
		return nil
	}
	if r.isBuf {
		return iv.storeBuf(r, r.off, r.ty, v, 0)
	}
	n, err := setPath(*r.cell, r.path, v)
	if err != nil {
		return err
	}
	*r.cell = n
	return nil
}
