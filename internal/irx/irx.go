// Package irx interprets naga's IR (*ir.Module): it executes a compute entry
// point over byte buffers with the semantics the IR documents, independently
// of naga's own analyses and back ends. It is used to compare a module before
// and after IR-to-IR passes and against a WGSL reference evaluator.
//
// # Model
//
// Expressions of a function arena are evaluated when the StmtEmit covering
// them executes and are cached per activation (an Emit executed again
// re-evaluates). Literal, Constant, ZeroValue, Override, FunctionArgument,
// GlobalVariable, LocalVariable and const-expressions are evaluated on demand.
// CallResult / AtomicResult / WorkGroupUniformLoadResult are bound by their
// statements. A run-time expression consumed before an Emit evaluated it is
// evaluated on demand and counted in Result.Cov["lazy-eval"]; when no Emit
// covers it at all it is evaluated at every use (Cov["lazy-eval.uncovered"]).
//
// Values carry their own shape (no use of naga's type resolution): 32-bit
// i32/u32/f32 and bool scalars, vectors, f32 matrices, arrays, structs and
// pointers. Function, private and workgroup variables are value trees
// addressed by (root, path); storage and uniform variables are views into the
// caller's buffers laid out by StructMember.Offset, ArrayType.Stride and the
// column-vector alignment for matrices. Scalar semantics are WGSL's run-time
// semantics; every f32 operation is rounded to binary32 individually.
//
// ExprAlias is the value of its source. ExprPhi is evaluated at its Emit and
// picks the incoming whose PhiPredKey names the exit edge of the structured
// construct that completed immediately before in the same block (If: accept /
// reject; Switch: index of the case whose body control left the switch from,
// by normal end or by a break; loop body entry: init / back edge). Anything
// else is Unsupported("phi: ...").
//
// The invocations of a workgroup that can reach a barrier run as coroutines
// with a deterministic schedule: 0, 1, 2, ... each until it finishes or waits;
// when all live invocations wait they are released together.
//
// # Reports
//
// *xrt.Unsupported: construct outside the subset (images, samplers, ray
// queries, subgroups, derivatives, Kill, f16/f64/i64/u64, abstract-int
// literals, push constants, binding arrays, override-sized arrays) or step
// budget exceeded. An "ill-formed IR: ..." error: the module violates the IR's
// own typing rules (a finding about the producer of the module). Traps:
// TrapOOB for out-of-range indices (reads clamp, writes are skipped; reported
// whatever Options.TrapMode says - the IR defines no other behaviour),
// TrapType for ill-typed IR that can still be executed unambiguously
// (abstract-float literal, override whose Init has another kind than its
// type), TrapUnreach for a value-returning function that ends without Return,
// and - in TrapMode only - TrapOther for a barrier not reached by the whole
// workgroup. At most 64 traps are recorded; Cov["trap.<kind>"] counts all.
package irx

import (
	"fmt"

	"github.com/gogpu/naga/ir"
	"verif/internal/xrt"
)

// Config selects how an entry point is executed.
type Config struct {
	xrt.Options
	Overrides map[string]float64 // optional: value for ExprOverride by override NAME (else the override's Init global-expression; none => error)
	Policy    string             // "" (out-of-bounds => TrapOOB), reserved for later
}

// EntryNames lists the compute entry points of m.
func EntryNames(m *ir.Module) []string {
	if m == nil {
		return nil
	}
	var out []string
	for i := range m.EntryPoints {
		if m.EntryPoints[i].Stage == ir.StageCompute {
			out = append(out, m.EntryPoints[i].Name)
		}
	}
	return out
}

const (
	maxTraps       = 64
	maxInvocations = 1 << 16
)

type interp struct {
	m   *ir.Module
	cfg Config
	ep  *ir.EntryPoint

	bufs xrt.Buffers
	res  xrt.Result

	budget   int
	maxElems int

	infos map[*ir.Function]*fnInfo

	// module-scope memo: global expressions and overrides are pure
	gvals  []val
	gstate []uint8
	ovals  []scalar
	ostate []uint8

	numGroups [3]uint32
}

// invocation is one compute invocation.
type invocation struct {
	in        *interp
	private   map[ir.GlobalVariableHandle]*val
	wg        *workgroup
	depth     int
	evalDepth int

	localID    [3]uint32
	localIndex uint32
	groupID    [3]uint32

	// coroutine plumbing (nil when the workgroup runs sequentially)
	co *coroutine
}

type workgroup struct {
	vars map[ir.GlobalVariableHandle]*val
}

// Run executes the compute entry point named entry once per invocation of the
// dispatch. bufs is keyed by xrt.Slot{Kind: "", A: group, B: binding} and is
// mutated in place.
func Run(m *ir.Module, entry string, bufs xrt.Buffers, cfg Config) (res xrt.Result, err error) {
	res.Cov = xrt.Coverage{}
	defer func() {
		if r := recover(); r != nil {
			err = fmt.Errorf("irx: internal panic: %v", r)
		}
	}()
	if m == nil {
		return res, fmt.Errorf("irx: nil module")
	}
	if cfg.Policy != "" {
		return res, unsupported("policy %q", cfg.Policy)
	}
	var ep *ir.EntryPoint
	for i := range m.EntryPoints {
		if m.EntryPoints[i].Name == entry && m.EntryPoints[i].Stage == ir.StageCompute {
			ep = &m.EntryPoints[i]
			break
		}
	}
	if ep == nil {
		return res, fmt.Errorf("irx: no compute entry point %q", entry)
	}
	in := &interp{
		m:        m,
		cfg:      cfg,
		ep:       ep,
		bufs:     bufs,
		budget:   cfg.StepBudget(),
		maxElems: 1 << 20,
		infos:    map[*ir.Function]*fnInfo{},
		gvals:    make([]val, len(m.GlobalExpressions)),
		gstate:   make([]uint8, len(m.GlobalExpressions)),
		ovals:    make([]scalar, len(m.Overrides)),
		ostate:   make([]uint8, len(m.Overrides)),
	}
	in.res.Cov = res.Cov
	err = in.run()
	return in.res, err
}

func (in *interp) run() error {
	ws := in.ep.Workgroup
	for i := range ws {
		if ws[i] == 0 {
			return fmt.Errorf("irx: entry point %q has workgroup size %v", in.ep.Name, ws)
		}
	}
	total := uint64(ws[0]) * uint64(ws[1]) * uint64(ws[2])
	if total > maxInvocations {
		return unsupported("workgroup of %d invocations", total)
	}
	in.numGroups = in.cfg.Dispatch.Groups()
	groups := uint64(in.numGroups[0]) * uint64(in.numGroups[1]) * uint64(in.numGroups[2])
	if groups*total > 1<<24 {
		return unsupported("dispatch of %d invocations", groups*total)
	}
	needCo := in.usesBarrier()
	for gz := uint32(0); gz < in.numGroups[2]; gz++ {
		for gy := uint32(0); gy < in.numGroups[1]; gy++ {
			for gx := uint32(0); gx < in.numGroups[0]; gx++ {
				wg := &workgroup{vars: map[ir.GlobalVariableHandle]*val{}}
				ivs := make([]*invocation, 0, total)
				for lz := uint32(0); lz < ws[2]; lz++ {
					for ly := uint32(0); ly < ws[1]; ly++ {
						for lx := uint32(0); lx < ws[0]; lx++ {
							ivs = append(ivs, &invocation{
								in:         in,
								private:    map[ir.GlobalVariableHandle]*val{},
								wg:         wg,
								localID:    [3]uint32{lx, ly, lz},
								localIndex: lx + ly*ws[0] + lz*ws[0]*ws[1],
								groupID:    [3]uint32{gx, gy, gz},
							})
						}
					}
				}
				var err error
				if needCo && len(ivs) > 1 {
					err = in.runCoroutines(ivs)
				} else {
					for _, iv := range ivs {
						if err = iv.runEntry(); err != nil {
							break
						}
					}
				}
				if err != nil {
					return err
				}
			}
		}
	}
	return nil
}

// usesBarrier reports whether the entry point can reach a statement that
// synchronises the workgroup (then invocations must run as coroutines).
func (in *interp) usesBarrier() bool {
	seen := map[*ir.Function]bool{}
	var fnHas func(fn *ir.Function) bool
	var blockHas func(b ir.Block, depth int) bool
	blockHas = func(b ir.Block, depth int) bool {
		if depth > 1024 {
			return true
		}
		for i := range b {
			switch k := b[i].Kind.(type) {
			case ir.StmtBarrier, ir.StmtWorkGroupUniformLoad:
				return true
			case ir.StmtBlock:
				if blockHas(k.Block, depth+1) {
					return true
				}
			case ir.StmtIf:
				if blockHas(k.Accept, depth+1) || blockHas(k.Reject, depth+1) {
					return true
				}
			case ir.StmtSwitch:
				for c := range k.Cases {
					if blockHas(k.Cases[c].Body, depth+1) {
						return true
					}
				}
			case ir.StmtLoop:
				if blockHas(k.Body, depth+1) || blockHas(k.Continuing, depth+1) {
					return true
				}
			case ir.StmtCall:
				if int(k.Function) < len(in.m.Functions) && fnHas(&in.m.Functions[k.Function]) {
					return true
				}
			}
		}
		return false
	}
	fnHas = func(fn *ir.Function) bool {
		if seen[fn] {
			return false
		}
		seen[fn] = true
		return blockHas(fn.Body, 0)
	}
	return fnHas(&in.ep.Function)
}

// runEntry builds the entry point's arguments from the built-in values and
// calls it.
func (iv *invocation) runEntry() error {
	fn := &iv.in.ep.Function
	args := make([]val, len(fn.Arguments))
	for i := range fn.Arguments {
		a := &fn.Arguments[i]
		v, err := iv.entryArg(a.Type, a.Binding, a.Name)
		if err != nil {
			return err
		}
		args[i] = v
	}
	_, err := iv.call(fn, args)
	return err
}

func (iv *invocation) entryArg(ty ir.TypeHandle, b *ir.Binding, name string) (val, error) {
	in := iv.in
	if b != nil && *b != nil {
		bb, ok := (*b).(ir.BuiltinBinding)
		if !ok {
			return nil, illFormed("compute entry point argument %q has binding %T", name, *b)
		}
		v, err := iv.builtin(bb.Builtin)
		if err != nil {
			return nil, err
		}
		if !in.conformsTo(v, ty) {
			return nil, illFormed("built-in argument %q: value is %s, declared type %d disagrees", name, shapeName(v), ty)
		}
		return v, nil
	}
	t, err := in.inner(ty)
	if err != nil {
		return nil, err
	}
	st, ok := t.(ir.StructType)
	if !ok {
		return nil, illFormed("compute entry point argument %q of type %T has no binding", name, t)
	}
	f := make([]val, len(st.Members))
	for i := range st.Members {
		mb := &st.Members[i]
		v, err := iv.entryArg(mb.Type, mb.Binding, name+"."+mb.Name)
		if err != nil {
			return nil, err
		}
		f[i] = v
	}
	return strct{f}, nil
}

func vec3u(a [3]uint32) vector {
	return vector{k: ir.ScalarUint, n: 3, c: [4]uint32{a[0], a[1], a[2]}}
}

func (iv *invocation) builtin(b ir.BuiltinValue) (val, error) {
	ws := iv.in.ep.Workgroup
	switch b {
	case ir.BuiltinLocalInvocationID:
		return vec3u(iv.localID), nil
	case ir.BuiltinLocalInvocationIndex:
		return u32v(iv.localIndex), nil
	case ir.BuiltinWorkGroupID:
		return vec3u(iv.groupID), nil
	case ir.BuiltinNumWorkGroups:
		return vec3u(iv.in.numGroups), nil
	case ir.BuiltinGlobalInvocationID:
		return vec3u([3]uint32{
			iv.groupID[0]*ws[0] + iv.localID[0],
			iv.groupID[1]*ws[1] + iv.localID[1],
			iv.groupID[2]*ws[2] + iv.localID[2],
		}), nil
	case ir.BuiltinNumSubgroups, ir.BuiltinSubgroupID, ir.BuiltinSubgroupSize, ir.BuiltinSubgroupInvocationID:
		return nil, unsupported("subgroup built-in %d", b)
	}
	return nil, unsupported("built-in %d in a compute entry point", b)
}

// global yields the pointer an ExprGlobalVariable denotes.
func (iv *invocation) global(h ir.GlobalVariableHandle) (val, error) {
	in := iv.in
	if int(h) >= len(in.m.GlobalVariables) {
		return nil, illFormed("global variable handle %d out of range (%d)", h, len(in.m.GlobalVariables))
	}
	g := &in.m.GlobalVariables[h]
	t, err := in.inner(g.Type)
	if err != nil {
		return nil, err
	}
	switch g.Space {
	case ir.SpaceStorage, ir.SpaceUniform:
		if _, isBA := t.(ir.BindingArrayType); isBA {
			return nil, unsupported("binding array %q", g.Name)
		}
		if g.Binding == nil {
			return nil, illFormed("global %q in address space %d has no binding", g.Name, g.Space)
		}
		slot := xrt.Slot{A: g.Binding.Group, B: g.Binding.Binding}
		buf, ok := in.bufs[slot]
		if !ok {
			return nil, fmt.Errorf("irx: no buffer bound at group %d binding %d (global %q)", slot.A, slot.B, g.Name)
		}
		ro := g.Space == ir.SpaceUniform || g.Access == ir.StorageRead
		return pointer{ref{isBuf: true, buf: buf, off: 0, ty: t, name: g.Name, readonly: ro}}, nil
	case ir.SpacePrivate:
		cell, ok := iv.private[h]
		if !ok {
			v, err := iv.globalInit(g)
			if err != nil {
				return nil, err
			}
			cell = new(val)
			*cell = v
			iv.private[h] = cell
		}
		return pointer{ref{cell: cell, name: g.Name}}, nil
	case ir.SpaceWorkGroup:
		cell, ok := iv.wg.vars[h]
		if !ok {
			v, err := in.zeroOf(g.Type)
			if err != nil {
				return nil, fmt.Errorf("workgroup variable %q: %w", g.Name, err)
			}
			cell = new(val)
			*cell = v
			iv.wg.vars[h] = cell
		}
		return pointer{ref{cell: cell, name: g.Name}}, nil
	case ir.SpaceHandle:
		return nil, unsupported("handle-space global %q (%T)", g.Name, t)
	case ir.SpacePushConstant, ir.SpaceImmediate:
		return nil, unsupported("push-constant / immediate global %q", g.Name)
	case ir.SpaceTaskPayload:
		return nil, unsupported("task payload global %q", g.Name)
	case ir.SpaceFunction:
		return nil, illFormed("global %q in the function address space", g.Name)
	}
	return nil, unsupported("address space %d of global %q", g.Space, g.Name)
}

// globalInit is the initial value of a private variable: InitExpr (canonical),
// else Init (constant), else zero.
func (iv *invocation) globalInit(g *ir.GlobalVariable) (val, error) {
	in := iv.in
	zero, err := in.zeroOf(g.Type)
	if err != nil {
		return nil, fmt.Errorf("global %q: %w", g.Name, err)
	}
	var v val
	switch {
	case g.InitExpr != nil:
		v, err = iv.globalExpr(*g.InitExpr)
	case g.Init != nil:
		v, err = iv.constant(*g.Init)
	default:
		return zero, nil
	}
	if err != nil {
		return nil, fmt.Errorf("global %q: %w", g.Name, err)
	}
	if !sameShape(v, zero) {
		return nil, illFormed("global %q: initialiser is %s, variable holds %s", g.Name, shapeName(v), shapeName(zero))
	}
	return clone(v), nil
}

// ---- bookkeeping -------------------------------------------------------------------

func (iv *invocation) step() error {
	in := iv.in
	in.res.Steps++
	if in.res.Steps > in.budget {
		return &xrt.Unsupported{What: "step budget"}
	}
	return nil
}

func (iv *invocation) cov(k string) { iv.in.res.Cov[k]++ }

func (iv *invocation) trap(kind xrt.TrapKind, format string, a ...interface{}) {
	in := iv.in
	in.res.Cov["trap."+string(kind)]++
	if len(in.res.Traps) >= maxTraps {
		return
	}
	where := fmt.Sprintf(" [group %v local %v]", iv.groupID, iv.localID)
	in.res.Traps = append(in.res.Traps, &xrt.Trap{Kind: kind, Detail: fmt.Sprintf(format, a...) + where})
}

// trapOnce records a trap unless an identical one (same kind and text) exists.
func (iv *invocation) trapOnce(kind xrt.TrapKind, format string, a ...interface{}) {
	msg := fmt.Sprintf(format, a...)
	for _, t := range iv.in.res.Traps {
		if t.Kind == kind && t.Detail == msg {
			return
		}
	}
	in := iv.in
	in.res.Cov["trap."+string(kind)]++
	if len(in.res.Traps) < maxTraps {
		in.res.Traps = append(in.res.Traps, &xrt.Trap{Kind: kind, Detail: msg})
	}
}

// ---- workgroup coroutines ---------------------------------------------------------------

// The invocations of a workgroup that can reach a barrier run as goroutines
// passing a baton: exactly one runs at any time, so there are no data races
// and the schedule is deterministic. Invocation 0 runs until it finishes or
// waits at a barrier, then invocation 1, ...; when every live invocation
// waits, all are released and the round starts again.

type coEvent uint8

const (
	coDone coEvent = iota
	coBarrier
)

type coroutine struct {
	resume chan bool // true: continue, false: abort
	events chan coResult
}

type coResult struct {
	ev  coEvent
	err error
}

type abortSignal struct{}

func (in *interp) runCoroutines(ivs []*invocation) error {
	type state uint8
	const (
		ready state = iota
		waiting
		done
	)
	st := make([]state, len(ivs))
	started := make([]bool, len(ivs))
	for _, iv := range ivs {
		iv.co = &coroutine{resume: make(chan bool), events: make(chan coResult)}
	}
	start := func(iv *invocation) {
		go func() {
			var res coResult
			defer func() {
				if r := recover(); r != nil {
					if _, isAbort := r.(abortSignal); isAbort {
						res = coResult{ev: coDone}
					} else {
						res = coResult{ev: coDone, err: fmt.Errorf("irx: internal panic: %v", r)}
					}
				}
				iv.co.events <- res
			}()
			if !<-iv.co.resume {
				return
			}
			res = coResult{ev: coDone, err: iv.runEntry()}
		}()
	}
	// abort releases every goroutine that is parked and waits for it to end.
	abort := func() {
		for i, iv := range ivs {
			if started[i] && st[i] != done {
				iv.co.resume <- false
				<-iv.co.events
				st[i] = done
			}
		}
	}
	var firstErr error
	for {
		live := 0
		for i, iv := range ivs {
			if st[i] != ready {
				continue
			}
			if !started[i] {
				started[i] = true
				start(iv)
			}
			iv.co.resume <- true
			r := <-iv.co.events
			if r.err != nil {
				st[i] = done
				firstErr = r.err
				abort()
				return firstErr
			}
			if r.ev == coDone {
				st[i] = done
			} else {
				st[i] = waiting
			}
		}
		finished := 0
		for i := range ivs {
			switch st[i] {
			case waiting:
				live++
			case done:
				finished++
			}
		}
		if live == 0 {
			return nil
		}
		if finished > 0 && in.cfg.TrapMode {
			// Some invocations returned while others wait: the barrier is not
			// reached uniformly.
			for i := range ivs {
				if st[i] == waiting {
					ivs[i].trap(xrt.TrapOther, "barrier reached by %d of %d invocations of the workgroup (%d already finished)", live, len(ivs), finished)
					break
				}
			}
		}
		in.res.Cov["barrier.release"]++
		for i := range ivs {
			if st[i] == waiting {
				st[i] = ready
			}
		}
	}
}

// barrier parks the invocation until the whole workgroup waits.
func (iv *invocation) barrier() error {
	if iv.co == nil {
		// single invocation (or sequential run): nothing to wait for
		return nil
	}
	iv.co.events <- coResult{ev: coBarrier}
	if !<-iv.co.resume {
		panic(abortSignal{})
	}
	return nil
}
