package irx

import (
	"errors"
	"strings"
	"testing"

	"github.com/gogpu/naga/ir"
	"verif/internal/xrt"
)

// Hand-built modules: ExprAlias / ExprPhi (only the DXIL pre-emission passes
// produce them), evaluation-order rules and API error paths.

type fb2 struct {
	fn *ir.Function
}

func (b *fb2) e(k ir.ExpressionKind) ir.ExpressionHandle {
	b.fn.Expressions = append(b.fn.Expressions, ir.Expression{Kind: k})
	return ir.ExpressionHandle(len(b.fn.Expressions) - 1)
}

func emit(a, z ir.ExpressionHandle) ir.Statement {
	return ir.Statement{Kind: ir.StmtEmit{Range: ir.Range{Start: a, End: z + 1}}}
}

func st(k ir.StatementKind) ir.Statement { return ir.Statement{Kind: k} }

func lit(u uint32) ir.Literal { return ir.Literal{Value: ir.LiteralU32(u)} }

// baseModule: T0 u32, T1 array<u32>; G0 "o" rw storage (0,0); G1 "inp" storage (0,1).
func baseModule(fn ir.Function) *ir.Module {
	fn.Name = "main"
	return &ir.Module{
		Types: []ir.Type{
			{Inner: ir.ScalarType{Kind: ir.ScalarUint, Width: 4}},
			{Inner: ir.ArrayType{Base: 0, Stride: 4}},
		},
		GlobalVariables: []ir.GlobalVariable{
			{Name: "o", Space: ir.SpaceStorage, Binding: &ir.ResourceBinding{Group: 0, Binding: 0}, Type: 1},
			{Name: "inp", Space: ir.SpaceStorage, Binding: &ir.ResourceBinding{Group: 0, Binding: 1}, Type: 1, Access: ir.StorageRead},
		},
		EntryPoints: []ir.EntryPoint{{Name: "main", Stage: ir.StageCompute, Workgroup: [3]uint32{1, 1, 1}, Function: fn}},
	}
}

func runHB(t *testing.T, m *ir.Module, inp []uint32, nOut int) ([]uint32, xrt.Result, error) {
	t.Helper()
	bufs := xrt.Buffers{{A: 0, B: 0}: toBytes(fill(nOut, pad)), {A: 0, B: 1}: toBytes(inp)}
	res, err := Run(m, "main", bufs, Config{})
	return toWords(bufs[xrt.Slot{A: 0, B: 0}]), res, err
}

// var x = 5u; if inp[0] == 1u { x = 10u; }  o[0] = x;   after mem2reg
func ifPhiModule(keys [2]ir.PhiPredKey, between []ir.Statement) *ir.Module {
	var fn ir.Function
	b := &fb2{&fn}
	gInp := b.e(ir.ExprGlobalVariable{Variable: 1})
	p0 := b.e(ir.ExprAccessIndex{Base: gInp, Index: 0})
	ld := b.e(ir.ExprLoad{Pointer: p0})
	one := b.e(lit(1))
	cmp := b.e(ir.ExprBinary{Op: ir.BinaryEqual, Left: ld, Right: one})
	five := b.e(lit(5))
	ten := b.e(lit(10))
	phi := b.e(ir.ExprPhi{Incoming: []ir.PhiIncoming{{PredKey: keys[0], Value: ten}, {PredKey: keys[1], Value: five}}})
	alias := b.e(ir.ExprAlias{Source: phi})
	gO := b.e(ir.ExprGlobalVariable{Variable: 0})
	o0 := b.e(ir.ExprAccessIndex{Base: gO, Index: 0})
	fn.Body = ir.Block{
		emit(p0, ld), emit(cmp, cmp),
		st(ir.StmtIf{Condition: cmp, Accept: ir.Block{}, Reject: ir.Block{}}),
	}
	fn.Body = append(fn.Body, between...)
	fn.Body = append(fn.Body,
		emit(phi, phi), emit(alias, alias), emit(o0, o0),
		st(ir.StmtStore{Pointer: o0, Value: alias}),
		st(ir.StmtReturn{}))
	return baseModule(fn)
}

func TestPhiIf(t *testing.T) {
	keys := [2]ir.PhiPredKey{ir.PhiPredIfAccept, ir.PhiPredIfReject}
	for _, c := range []struct{ in, want uint32 }{{1, 10}, {0, 5}, {7, 5}} {
		out, res, err := runHB(t, ifPhiModule(keys, nil), []uint32{c.in}, 1)
		if err != nil {
			t.Fatalf("inp=%d: %v", c.in, err)
		}
		if out[0] != c.want {
			t.Errorf("inp=%d: o[0]=%d want %d", c.in, out[0], c.want)
		}
		if res.Cov["expr.Phi"] != 1 || res.Cov["expr.Alias"] != 1 || res.Cov["lazy-eval"] != 0 {
			t.Errorf("inp=%d: coverage %v", c.in, res.Cov)
		}
	}
}

func wantUnsupportedPhi(t *testing.T, what string, err error) {
	t.Helper()
	var u *xrt.Unsupported
	if !errors.As(err, &u) || !strings.HasPrefix(u.What, "phi:") {
		t.Errorf("%s: got error %v, want Unsupported(\"phi: ...\")", what, err)
	}
}

func TestPhiUnresolvable(t *testing.T) {
	// keys of another construct
	_, _, err := runHB(t, ifPhiModule([2]ir.PhiPredKey{ir.PhiPredSwitchCase, ir.PhiPredSwitchCase}, nil), []uint32{1}, 1)
	wantUnsupportedPhi(t, "switch keys after an If", err)
	// loop keys after an If
	_, _, err = runHB(t, ifPhiModule([2]ir.PhiPredKey{ir.PhiPredLoopInit, ir.PhiPredLoopBackEdge}, nil), []uint32{1}, 1)
	wantUnsupportedPhi(t, "loop keys after an If", err)
	// the "fall-through" key names no edge
	_, _, err = runHB(t, ifPhiModule([2]ir.PhiPredKey{ir.PhiPredFallThrough, ir.PhiPredFallThrough}, nil), []uint32{1}, 1)
	wantUnsupportedPhi(t, "fall-through keys", err)
	// two different incomings for the edge taken
	_, _, err = runHB(t, ifPhiModule([2]ir.PhiPredKey{ir.PhiPredIfAccept, ir.PhiPredIfAccept}, nil), []uint32{1}, 1)
	wantUnsupportedPhi(t, "ambiguous incomings", err)
	// ... which does not matter on the other edge: there no incoming matches
	_, _, err = runHB(t, ifPhiModule([2]ir.PhiPredKey{ir.PhiPredIfAccept, ir.PhiPredIfAccept}, nil), []uint32{0}, 1)
	wantUnsupportedPhi(t, "no incoming", err)
	// a statement between the construct and the phi: no longer "at the merge point"
	m := ifPhiModule([2]ir.PhiPredKey{ir.PhiPredIfAccept, ir.PhiPredIfReject}, []ir.Statement{st(ir.StmtBlock{Block: ir.Block{}})})
	_, _, err = runHB(t, m, []uint32{1}, 1)
	wantUnsupportedPhi(t, "statement between If and phi", err)
	// an Emit between them is harmless
	m = ifPhiModule([2]ir.PhiPredKey{ir.PhiPredIfAccept, ir.PhiPredIfReject}, []ir.Statement{emit(3, 3)})
	out, _, err := runHB(t, m, []uint32{1}, 1)
	if err != nil || out[0] != 10 {
		t.Errorf("Emit between If and phi: out=%v err=%v", out, err)
	}
}

// A phi that follows no structured construct at all (what mem2reg + dce leave
// behind when dce deletes the emptied If): Unsupported, not a guess.
func TestPhiWithoutConstruct(t *testing.T) {
	var fn ir.Function
	b := &fb2{&fn}
	five := b.e(lit(5))
	ten := b.e(lit(10))
	phi := b.e(ir.ExprPhi{Incoming: []ir.PhiIncoming{{PredKey: ir.PhiPredIfAccept, Value: ten}, {PredKey: ir.PhiPredIfReject, Value: five}}})
	gO := b.e(ir.ExprGlobalVariable{Variable: 0})
	o0 := b.e(ir.ExprAccessIndex{Base: gO, Index: 0})
	fn.Body = ir.Block{emit(phi, phi), emit(o0, o0), st(ir.StmtStore{Pointer: o0, Value: phi}), st(ir.StmtReturn{})}
	_, _, err := runHB(t, baseModule(fn), []uint32{0}, 1)
	wantUnsupportedPhi(t, "phi without a construct", err)
}

// A phi consumed without having been evaluated by an Emit has no edge context.
func TestPhiOutsideEmit(t *testing.T) {
	var fn ir.Function
	b := &fb2{&fn}
	five := b.e(lit(5))
	phi := b.e(ir.ExprPhi{Incoming: []ir.PhiIncoming{{PredKey: ir.PhiPredIfAccept, Value: five}}})
	gO := b.e(ir.ExprGlobalVariable{Variable: 0})
	o0 := b.e(ir.ExprAccessIndex{Base: gO, Index: 0})
	fn.Body = ir.Block{emit(o0, o0), st(ir.StmtStore{Pointer: o0, Value: phi}), st(ir.StmtReturn{})}
	_, _, err := runHB(t, baseModule(fn), []uint32{0}, 1)
	wantUnsupportedPhi(t, "phi outside Emit", err)
}

// switch inp[0] { case 1 (falls through, empty), case 2 {}, default { if inp[1]==1 {break}; } }
// phi: case0 -> 100, case1 -> 200, case2 -> 300
func TestPhiSwitch(t *testing.T) {
	build := func() *ir.Module {
		var fn ir.Function
		b := &fb2{&fn}
		gInp := b.e(ir.ExprGlobalVariable{Variable: 1})
		p0 := b.e(ir.ExprAccessIndex{Base: gInp, Index: 0})
		sel := b.e(ir.ExprLoad{Pointer: p0})
		p1 := b.e(ir.ExprAccessIndex{Base: gInp, Index: 1})
		ld1 := b.e(ir.ExprLoad{Pointer: p1})
		one := b.e(lit(1))
		cmp := b.e(ir.ExprBinary{Op: ir.BinaryEqual, Left: ld1, Right: one})
		a := b.e(lit(100))
		bb := b.e(lit(200))
		c := b.e(lit(300))
		phi := b.e(ir.ExprPhi{Incoming: []ir.PhiIncoming{
			{PredKey: ir.PhiPredSwitchCase, CaseIdx: 0, Value: a},
			{PredKey: ir.PhiPredSwitchCase, CaseIdx: 1, Value: bb},
			{PredKey: ir.PhiPredSwitchCase, CaseIdx: 2, Value: c},
		}})
		gO := b.e(ir.ExprGlobalVariable{Variable: 0})
		o0 := b.e(ir.ExprAccessIndex{Base: gO, Index: 0})
		fn.Body = ir.Block{
			emit(p0, sel), emit(p1, ld1), emit(cmp, cmp),
			st(ir.StmtSwitch{Selector: sel, Cases: []ir.SwitchCase{
				{Value: ir.SwitchValueU32(1), Body: ir.Block{}, FallThrough: true},
				{Value: ir.SwitchValueU32(2), Body: ir.Block{}},
				{Value: ir.SwitchValueDefault{}, Body: ir.Block{
					st(ir.StmtIf{Condition: cmp, Accept: ir.Block{st(ir.StmtBreak{})}, Reject: ir.Block{}}),
				}},
			}}),
			emit(phi, phi), emit(o0, o0),
			st(ir.StmtStore{Pointer: o0, Value: phi}),
			st(ir.StmtReturn{}),
		}
		return baseModule(fn)
	}
	for _, c := range []struct {
		sel, brk, want uint32
	}{
		{1, 0, 200}, // enters case 0, falls through, leaves from case 1
		{2, 0, 200},
		{9, 0, 300}, // default, normal end
		{9, 1, 300}, // default, left through a break nested in an If
	} {
		out, res, err := runHB(t, build(), []uint32{c.sel, c.brk}, 1)
		if err != nil {
			t.Fatalf("sel=%d: %v", c.sel, err)
		}
		if out[0] != c.want {
			t.Errorf("sel=%d brk=%d: o[0]=%d want %d", c.sel, c.brk, out[0], c.want)
		}
		if res.Cov["phi.switch-case"] != 1 {
			t.Errorf("coverage %v", res.Cov)
		}
	}
}

// loop { i = phi(init: 0, back: next); if i >= 3 { break }; o[i] = i + 10; next = i + 1 }
func TestPhiLoopHeader(t *testing.T) {
	var fn ir.Function
	b := &fb2{&fn}
	zero := b.e(lit(0))
	one := b.e(lit(1))
	three := b.e(lit(3))
	ten := b.e(lit(10))
	// next is a forward reference of the phi: reserve the phi first
	phi := b.e(nil)
	cmp := b.e(ir.ExprBinary{Op: ir.BinaryGreaterEqual, Left: phi, Right: three})
	gO := b.e(ir.ExprGlobalVariable{Variable: 0})
	ptr := b.e(ir.ExprAccess{Base: gO, Index: phi})
	v := b.e(ir.ExprBinary{Op: ir.BinaryAdd, Left: phi, Right: ten})
	next := b.e(ir.ExprBinary{Op: ir.BinaryAdd, Left: phi, Right: one})
	fn.Expressions[phi].Kind = ir.ExprPhi{Incoming: []ir.PhiIncoming{
		{PredKey: ir.PhiPredLoopInit, Value: zero},
		{PredKey: ir.PhiPredLoopBackEdge, Value: next},
	}}
	fn.Body = ir.Block{
		st(ir.StmtLoop{Body: ir.Block{
			emit(phi, phi), emit(cmp, cmp),
			st(ir.StmtIf{Condition: cmp, Accept: ir.Block{st(ir.StmtBreak{})}, Reject: ir.Block{}}),
			emit(ptr, next),
			st(ir.StmtStore{Pointer: ptr, Value: v}),
		}}),
		st(ir.StmtReturn{}),
	}
	out, res, err := runHB(t, baseModule(fn), []uint32{0}, 4)
	if err != nil {
		t.Fatal(err)
	}
	if d := diffWords(out, []uint32{10, 11, 12, pad}); d != "" {
		t.Errorf("out:%s", d)
	}
	if res.Cov["phi.loop-init"] != 1 || res.Cov["phi.loop-back-edge"] != 3 || res.Cov["lazy-eval"] != 0 {
		t.Errorf("coverage %v", res.Cov)
	}
}

// An alias denotes the value its source had when it was evaluated, not the
// variable's current content:  a = load x; x = 9; b = alias(a); o[0] = b.
// A chain of aliases and an alias of a ZeroValue behave the same way.
func TestAlias(t *testing.T) {
	var fn ir.Function
	fn.LocalVars = []ir.LocalVariable{{Name: "x", Type: 0}}
	b := &fb2{&fn}
	seven := b.e(lit(7))
	nine := b.e(lit(9))
	x := b.e(ir.ExprLocalVariable{Variable: 0})
	a := b.e(ir.ExprLoad{Pointer: x})
	al := b.e(ir.ExprAlias{Source: a})
	al2 := b.e(ir.ExprAlias{Source: al})
	z := b.e(ir.ExprZeroValue{Type: 0})
	alz := b.e(ir.ExprAlias{Source: z})
	sum := b.e(ir.ExprBinary{Op: ir.BinaryAdd, Left: al2, Right: alz})
	gO := b.e(ir.ExprGlobalVariable{Variable: 0})
	o0 := b.e(ir.ExprAccessIndex{Base: gO, Index: 0})
	o1 := b.e(ir.ExprAccessIndex{Base: gO, Index: 1})
	cur := b.e(ir.ExprLoad{Pointer: x})
	fn.Body = ir.Block{
		st(ir.StmtStore{Pointer: x, Value: seven}),
		emit(a, a),
		st(ir.StmtStore{Pointer: x, Value: nine}),
		emit(al, al2), emit(alz, sum), emit(o0, cur),
		st(ir.StmtStore{Pointer: o0, Value: sum}),
		st(ir.StmtStore{Pointer: o1, Value: cur}),
		st(ir.StmtReturn{}),
	}
	out, res, err := runHB(t, baseModule(fn), []uint32{0}, 2)
	if err != nil {
		t.Fatal(err)
	}
	if out[0] != 7 || out[1] != 9 {
		t.Errorf("out=%v want [7 9]", out)
	}
	if res.Cov["expr.Alias"] != 3 || res.Cov["lazy-eval"] != 0 {
		t.Errorf("coverage %v", res.Cov)
	}
}

// Expressions are evaluated by their Emit and re-evaluated when the Emit runs
// again; one that is consumed before any Emit evaluated it is evaluated on
// demand and counted.
func TestLazyEvalCounted(t *testing.T) {
	var fn ir.Function
	b := &fb2{&fn}
	gInp := b.e(ir.ExprGlobalVariable{Variable: 1})
	p0 := b.e(ir.ExprAccessIndex{Base: gInp, Index: 0})
	ld := b.e(ir.ExprLoad{Pointer: p0}) // never emitted
	gO := b.e(ir.ExprGlobalVariable{Variable: 0})
	o0 := b.e(ir.ExprAccessIndex{Base: gO, Index: 0})
	fn.Body = ir.Block{st(ir.StmtStore{Pointer: o0, Value: ld}), st(ir.StmtReturn{})}
	out, res, err := runHB(t, baseModule(fn), []uint32{42}, 1)
	if err != nil {
		t.Fatal(err)
	}
	if out[0] != 42 {
		t.Errorf("out=%v", out)
	}
	// o0 (AccessIndex on a pointer), ld and p0 are run-time expressions nobody emitted
	if res.Cov["lazy-eval"] != 3 {
		t.Errorf("lazy-eval = %d, want 3; %v", res.Cov["lazy-eval"], res.Cov)
	}
}

func TestAPIErrors(t *testing.T) {
	m, err := lower(`
override need: u32;
@group(0) @binding(0) var<storage, read_write> o: array<u32>;
@compute @workgroup_size(1) fn main() { o[0] = need; }
@compute @workgroup_size(1) fn spin() { loop { o[0] = o[0] + 1u; } }
@fragment fn frag() -> @location(0) vec4<f32> { return vec4<f32>(0.0); }
`)
	if err != nil {
		t.Fatal(err)
	}
	if got := EntryNames(m); len(got) != 2 || got[0] != "main" || got[1] != "spin" {
		t.Errorf("EntryNames = %v", got)
	}
	bufs := func() xrt.Buffers { return xrt.Buffers{{A: 0, B: 0}: make([]byte, 16)} }
	if _, err := Run(m, "nope", bufs(), Config{}); err == nil {
		t.Error("missing entry point: no error")
	}
	if _, err := Run(m, "frag", bufs(), Config{}); err == nil {
		t.Error("fragment entry point: no error")
	}
	if _, err := Run(m, "main", xrt.Buffers{}, Config{Overrides: map[string]float64{"need": 1}}); err == nil {
		t.Error("missing buffer: no error")
	}
	var u *xrt.Unsupported
	if _, err := Run(m, "main", bufs(), Config{}); err == nil || errors.As(err, &u) {
		t.Errorf("override without value: err = %v, want a plain error", err)
	}
	if _, err := Run(m, "main", bufs(), Config{Overrides: map[string]float64{"need": -1}}); err == nil {
		t.Error("override value out of range: no error")
	}
	b := bufs()
	if _, err := Run(m, "main", b, Config{Overrides: map[string]float64{"need": 77}}); err != nil || toWords(b[xrt.Slot{}])[0] != 77 {
		t.Errorf("override given: err=%v buf=%v", err, toWords(b[xrt.Slot{}]))
	}
	cfg := Config{}
	cfg.MaxSteps = 1000
	res, err := Run(m, "spin", bufs(), cfg)
	if !errors.As(err, &u) || u.What != "step budget" {
		t.Errorf("infinite loop: err = %v, want Unsupported(step budget)", err)
	}
	if res.Steps < 1000 {
		t.Errorf("Steps = %d", res.Steps)
	}
	if _, err := Run(nil, "main", bufs(), Config{}); err == nil {
		t.Error("nil module: no error")
	}
	if _, err := Run(m, "main", bufs(), Config{Policy: "restrict"}); !errors.As(err, &u) {
		t.Errorf("policy: err = %v", err)
	}
}

// Malformed modules must produce errors, never panics.
func TestNeverPanics(t *testing.T) {
	mods := map[string]func() *ir.Module{
		"nil expression kind": func() *ir.Module {
			var fn ir.Function
			b := &fb2{&fn}
			x := b.e(nil)
			fn.Body = ir.Block{emit(x, x)}
			return baseModule(fn)
		},
		"nil statement kind": func() *ir.Module {
			var fn ir.Function
			fn.Body = ir.Block{{}}
			return baseModule(fn)
		},
		"handle out of range": func() *ir.Module {
			var fn ir.Function
			b := &fb2{&fn}
			x := b.e(ir.ExprLoad{Pointer: 99})
			fn.Body = ir.Block{emit(x, x)}
			return baseModule(fn)
		},
		"emit range out of range": func() *ir.Module {
			var fn ir.Function
			fn.Body = ir.Block{emit(5, 9)}
			return baseModule(fn)
		},
		"self-referential expression": func() *ir.Module {
			var fn ir.Function
			b := &fb2{&fn}
			x := b.e(ir.ExprUnary{Op: ir.UnaryBitwiseNot, Expr: 0})
			gO := b.e(ir.ExprGlobalVariable{Variable: 0})
			o0 := b.e(ir.ExprAccessIndex{Base: gO, Index: 0})
			fn.Body = ir.Block{st(ir.StmtStore{Pointer: o0, Value: x})}
			m := baseModule(fn)
			return m
		},
		"type handle out of range": func() *ir.Module {
			var fn ir.Function
			fn.LocalVars = []ir.LocalVariable{{Name: "x", Type: 42}}
			return baseModule(fn)
		},
		"bad global": func() *ir.Module {
			var fn ir.Function
			b := &fb2{&fn}
			g := b.e(ir.ExprGlobalVariable{Variable: 17})
			x := b.e(ir.ExprLoad{Pointer: g})
			fn.Body = ir.Block{emit(x, x)}
			return baseModule(fn)
		},
		"call of missing function": func() *ir.Module {
			var fn ir.Function
			fn.Body = ir.Block{st(ir.StmtCall{Function: 3})}
			return baseModule(fn)
		},
		"recursion": func() *ir.Module {
			var fn ir.Function
			fn.Body = ir.Block{st(ir.StmtCall{Function: 0})}
			m := baseModule(fn)
			m.Functions = []ir.Function{{Name: "r", Body: ir.Block{st(ir.StmtCall{Function: 0})}}}
			return m
		},
		"store through a value": func() *ir.Module {
			var fn ir.Function
			b := &fb2{&fn}
			x := b.e(lit(1))
			fn.Body = ir.Block{st(ir.StmtStore{Pointer: x, Value: x})}
			return baseModule(fn)
		},
		"zero workgroup": func() *ir.Module {
			var fn ir.Function
			m := baseModule(fn)
			m.EntryPoints[0].Workgroup = [3]uint32{0, 1, 1}
			return m
		},
	}
	for name, mk := range mods {
		func() {
			defer func() {
				if r := recover(); r != nil {
					t.Errorf("%s: panic: %v", name, r)
				}
			}()
			cfg := Config{}
			cfg.MaxSteps = 100000
			_, err := Run(mk(), "main", xrt.Buffers{{A: 0, B: 0}: make([]byte, 16), {A: 0, B: 1}: make([]byte, 16)}, cfg)
			if err == nil {
				t.Errorf("%s: no error", name)
			} else {
				t.Logf("%s: %v", name, err)
			}
		}()
	}
}
