package irx

import (
	"errors"
	"fmt"
	"os"
	"path/filepath"
	"sort"
	"strings"
	"testing"

	"github.com/gogpu/naga/ir"
	"verif/internal/xrt"
)

const corpusDir = "/repo/snapshot/testdata/in"

// typeBytes is the byte size of a host-shareable type by the IR's own layout;
// runtime-sized arrays get extra elements.
func typeBytes(m *ir.Module, h ir.TypeHandle, extra int) int {
	if int(h) >= len(m.Types) {
		return 0
	}
	switch t := m.Types[h].Inner.(type) {
	case ir.ScalarType:
		return int(t.Width)
	case ir.AtomicType:
		return int(t.Scalar.Width)
	case ir.VectorType:
		return int(t.Size) * int(t.Scalar.Width)
	case ir.MatrixType:
		return int(t.Columns) * colStride(t.Rows, t.Scalar.Width)
	case ir.ArrayType:
		if t.Size.Constant != nil {
			return int(*t.Size.Constant) * int(t.Stride)
		}
		return extra * int(t.Stride)
	case ir.StructType:
		n := int(t.Span)
		if len(t.Members) > 0 {
			last := t.Members[len(t.Members)-1]
			if e := int(last.Offset) + typeBytes(m, last.Type, extra); e > n {
				n = e
			}
		}
		return n
	}
	return 0
}

// corpusBuffers allocates a zero buffer for every storage / uniform global.
func corpusBuffers(m *ir.Module) xrt.Buffers {
	bufs := xrt.Buffers{}
	for i := range m.GlobalVariables {
		g := &m.GlobalVariables[i]
		if g.Binding == nil || (g.Space != ir.SpaceStorage && g.Space != ir.SpaceUniform) {
			continue
		}
		n := typeBytes(m, g.Type, 4)
		if n < 16 {
			n = 16
		}
		n = (n + 3) &^ 3
		slot := xrt.Slot{A: g.Binding.Group, B: g.Binding.Binding}
		if len(bufs[slot]) < n {
			bufs[slot] = make([]byte, n)
		}
	}
	return bufs
}

// Ill-formed IR that naga's front end is known to produce for corpus shaders
// (file/entry -> substring of the message). Anything else ill-formed fails the
// test, so that an interpreter regression cannot hide behind this class.
var knownIllFormed = map[string]string{}

// TestCorpusComputeEntryPoints runs every compute entry point of the snapshot
// corpus on zero-filled buffers: the only acceptable failures are Unsupported.
func TestCorpusComputeEntryPoints(t *testing.T) {
	files, err := filepath.Glob(filepath.Join(corpusDir, "*.wgsl"))
	if err != nil || len(files) == 0 {
		t.Skipf("corpus not found in %s", corpusDir)
	}
	sort.Strings(files)
	var nEntries, nOK, nUnsup, nIll, nLowerFail, nTrapped int
	unsup := map[string]int{}
	cov := xrt.Coverage{}
	for _, f := range files {
		srcB, err := os.ReadFile(f)
		if err != nil {
			t.Fatal(err)
		}
		base := strings.TrimSuffix(filepath.Base(f), ".wgsl")
		m, err := lower(string(srcB))
		if err != nil {
			nLowerFail++
			continue
		}
		for _, entry := range EntryNames(m) {
			nEntries++
			id := base + "/" + entry
			bufs := corpusBuffers(m)
			cfg := Config{}
			cfg.MaxSteps = 300000
			cfg.TrapMode = true
			// a few shaders declare overrides without defaults
			cfg.Overrides = map[string]float64{}
			for i := range m.Overrides {
				if m.Overrides[i].Init == nil {
					cfg.Overrides[m.Overrides[i].Name] = 1
				}
			}
			res, err := Run(m, entry, bufs, cfg)
			cov.Merge(res.Cov)
			if len(res.Traps) > 0 {
				nTrapped++
				t.Logf("%s: %d traps, first: %v", id, len(res.Traps), res.Traps[0])
			}
			var u *xrt.Unsupported
			var ill *irError
			switch {
			case err == nil:
				nOK++
			case errors.As(err, &u):
				nUnsup++
				unsup[u.What]++
				if u.What == "step budget" {
					t.Logf("%s: step budget", id)
				}
			case errors.As(err, &ill):
				nIll++
				if want, ok := knownIllFormed[id]; ok && strings.Contains(err.Error(), want) {
					t.Logf("%s: KNOWN ill-formed IR from naga: %v", id, err)
				} else {
					t.Errorf("%s: ill-formed IR (not in the known list): %v", id, err)
				}
			default:
				t.Errorf("%s: internal error: %v", id, err)
			}
		}
	}
	var us []string
	for k, n := range unsup {
		us = append(us, fmt.Sprintf("%dx %s", n, k))
	}
	sort.Strings(us)
	t.Logf("corpus: %d files (%d not lowered by naga), %d compute entry points: %d ran to completion, %d unsupported, %d ill-formed IR, %d with traps",
		len(files), nLowerFail, nEntries, nOK, nUnsup, nIll, nTrapped)
	t.Logf("unsupported reasons:\n  %s", strings.Join(us, "\n  "))
	t.Logf("coverage keys hit over the corpus: %d", len(cov))
	if nEntries < 50 {
		t.Errorf("only %d compute entry points found in the corpus", nEntries)
	}
}

// TestCorpusPassDifferential runs every corpus compute entry point that the
// interpreter completes before and after CompactUnused and InlineUserFunctions.
// Differences are findings about naga's passes: they are logged, not failed
// (this package tests the interpreter); internal errors do fail.
func TestCorpusPassDifferential(t *testing.T) {
	files, err := filepath.Glob(filepath.Join(corpusDir, "*.wgsl"))
	if err != nil || len(files) == 0 {
		t.Skipf("corpus not found in %s", corpusDir)
	}
	sort.Strings(files)
	passes := []struct {
		name  string
		apply func(m *ir.Module) error
	}{
		{"CompactUnused", func(m *ir.Module) error { ir.CompactUnused(m); return nil }},
		{"CompactConstants", func(m *ir.Module) error { ir.CompactConstants(m); return nil }},
		{"CompactExpressions", func(m *ir.Module) error { ir.CompactExpressions(m); return nil }},
		{"CompactTypes+ReorderTypes", func(m *ir.Module) error { ir.CompactTypes(m); ir.ReorderTypes(m); return nil }},
		{"DeduplicateEmits", func(m *ir.Module) error { ir.DeduplicateEmits(m); return nil }},
		{"InlineUserFunctions", func(m *ir.Module) error { return ir.InlineUserFunctions(m, nil) }},
	}
	run := func(m *ir.Module, entry string) (xrt.Buffers, xrt.Result, error) {
		bufs := corpusBuffers(m)
		cfg := Config{}
		cfg.MaxSteps = 300000
		cfg.Overrides = map[string]float64{}
		for i := range m.Overrides {
			if m.Overrides[i].Init == nil {
				cfg.Overrides[m.Overrides[i].Name] = 1
			}
		}
		res, err := Run(m, entry, bufs, cfg)
		return bufs, res, err
	}
	var compared, differ, lazy int
	for _, f := range files {
		srcB, _ := os.ReadFile(f)
		base := strings.TrimSuffix(filepath.Base(f), ".wgsl")
		m, err := lower(string(srcB))
		if err != nil {
			continue
		}
		for _, entry := range EntryNames(m) {
			before, _, err := run(m, entry)
			if err != nil {
				continue
			}
			for _, p := range passes {
				m2, err := lower(string(srcB))
				if err != nil {
					t.Fatal(err)
				}
				if err := p.apply(m2); err != nil {
					t.Logf("%s/%s: %s failed: %v", base, entry, p.name, err)
					continue
				}
				after, res, err := run(m2, entry)
				var u *xrt.Unsupported
				var ill *irError
				switch {
				case err == nil:
				case errors.As(err, &u):
					t.Logf("%s/%s after %s: %v", base, entry, p.name, err)
					continue
				case errors.As(err, &ill):
					t.Logf("FINDING %s/%s: ill-formed IR after %s: %v", base, entry, p.name, err)
					differ++
					continue
				default:
					t.Errorf("%s/%s after %s: internal error: %v", base, entry, p.name, err)
					continue
				}
				compared++
				if res.Cov["lazy-eval"] > 0 {
					lazy++
				}
				if d := sameBuffers(before, after); d != "" {
					differ++
					if len(d) > 300 {
						d = d[:300] + "..."
					}
					t.Logf("FINDING %s/%s: buffers differ after %s: %s", base, entry, p.name, d)
				}
			}
		}
	}
	t.Logf("compared %d (entry point, pass) pairs: %d differ; %d runs consumed expressions no Emit had evaluated", compared, differ, lazy)
}
