package irx

import (
	"math"
	"math/bits"

	"github.com/gogpu/naga/ir"
)

var mathNames = [...]string{
	ir.MathAbs: "Abs", ir.MathMin: "Min", ir.MathMax: "Max", ir.MathClamp: "Clamp", ir.MathSaturate: "Saturate",
	ir.MathCos: "Cos", ir.MathCosh: "Cosh", ir.MathSin: "Sin", ir.MathSinh: "Sinh", ir.MathTan: "Tan", ir.MathTanh: "Tanh",
	ir.MathAcos: "Acos", ir.MathAsin: "Asin", ir.MathAtan: "Atan", ir.MathAtan2: "Atan2",
	ir.MathAsinh: "Asinh", ir.MathAcosh: "Acosh", ir.MathAtanh: "Atanh",
	ir.MathRadians: "Radians", ir.MathDegrees: "Degrees",
	ir.MathCeil: "Ceil", ir.MathFloor: "Floor", ir.MathRound: "Round", ir.MathFract: "Fract", ir.MathTrunc: "Trunc",
	ir.MathModf: "Modf", ir.MathFrexp: "Frexp", ir.MathLdexp: "Ldexp",
	ir.MathExp: "Exp", ir.MathExp2: "Exp2", ir.MathLog: "Log", ir.MathLog2: "Log2", ir.MathPow: "Pow",
	ir.MathDot: "Dot", ir.MathDot4I8Packed: "Dot4I8Packed", ir.MathDot4U8Packed: "Dot4U8Packed",
	ir.MathOuter: "Outer", ir.MathCross: "Cross", ir.MathDistance: "Distance", ir.MathLength: "Length",
	ir.MathNormalize: "Normalize", ir.MathFaceForward: "FaceForward", ir.MathReflect: "Reflect", ir.MathRefract: "Refract",
	ir.MathSign: "Sign", ir.MathFma: "Fma", ir.MathMix: "Mix", ir.MathStep: "Step", ir.MathSmoothStep: "SmoothStep",
	ir.MathSqrt: "Sqrt", ir.MathInverseSqrt: "InverseSqrt", ir.MathInverse: "Inverse", ir.MathTranspose: "Transpose",
	ir.MathDeterminant: "Determinant", ir.MathQuantizeF16: "QuantizeF16",
	ir.MathCountTrailingZeros: "CountTrailingZeros", ir.MathCountLeadingZeros: "CountLeadingZeros",
	ir.MathCountOneBits: "CountOneBits", ir.MathReverseBits: "ReverseBits", ir.MathExtractBits: "ExtractBits",
	ir.MathInsertBits: "InsertBits", ir.MathFirstTrailingBit: "FirstTrailingBit", ir.MathFirstLeadingBit: "FirstLeadingBit",
	ir.MathPack4x8snorm: "Pack4x8snorm", ir.MathPack4x8unorm: "Pack4x8unorm", ir.MathPack2x16snorm: "Pack2x16snorm",
	ir.MathPack2x16unorm: "Pack2x16unorm", ir.MathPack2x16float: "Pack2x16float",
	ir.MathPack4xI8: "Pack4xI8", ir.MathPack4xU8: "Pack4xU8", ir.MathPack4xI8Clamp: "Pack4xI8Clamp", ir.MathPack4xU8Clamp: "Pack4xU8Clamp",
	ir.MathUnpack4x8snorm: "Unpack4x8snorm", ir.MathUnpack4x8unorm: "Unpack4x8unorm", ir.MathUnpack2x16snorm: "Unpack2x16snorm",
	ir.MathUnpack2x16unorm: "Unpack2x16unorm", ir.MathUnpack2x16float: "Unpack2x16float",
	ir.MathUnpack4xI8: "Unpack4xI8", ir.MathUnpack4xU8: "Unpack4xU8",
}

func mathName(f ir.MathFunction) string {
	if int(f) < len(mathNames) && mathNames[f] != "" {
		return mathNames[f]
	}
	return "?"
}

// lanes views scalars and vectors uniformly: kind, lane count (0 for a
// scalar) and the lane bits.
type lanes struct {
	k ir.ScalarKind
	n int // 0: scalar
	c [4]uint32
}

func toLanes(v val) (lanes, bool) {
	switch x := v.(type) {
	case scalar:
		return lanes{k: x.k, n: 0, c: [4]uint32{x.b}}, true
	case vector:
		return lanes{k: x.k, n: x.n, c: x.c}, true
	}
	return lanes{}, false
}

func (l lanes) count() int {
	if l.n == 0 {
		return 1
	}
	return l.n
}

func (l lanes) val() val {
	if l.n == 0 {
		return scalar{l.k, l.c[0]}
	}
	return vector{k: l.k, n: l.n, c: l.c}
}

// unify brings the arguments to one lane count (scalars are splatted when
// mixed with vectors) and checks that they agree.
func unify(fun ir.MathFunction, args []val) ([]lanes, error) {
	out := make([]lanes, len(args))
	n := 0
	for i, a := range args {
		l, ok := toLanes(a)
		if !ok {
			return nil, illFormed("math %s on %s", mathName(fun), shapeName(a))
		}
		out[i] = l
		if l.n != 0 {
			if n != 0 && n != l.n {
				return nil, illFormed("math %s on vectors of %d and %d components", mathName(fun), n, l.n)
			}
			n = l.n
		}
	}
	if n != 0 {
		for i := range out {
			if out[i].n == 0 {
				b := out[i].c[0]
				out[i].n = n
				for j := 0; j < n; j++ {
					out[i].c[j] = b
				}
			}
		}
	}
	return out, nil
}

func sameKind(ls []lanes, k ...ir.ScalarKind) bool {
	for _, l := range ls {
		if l.k != ls[0].k {
			return false
		}
	}
	if len(k) == 0 {
		return true
	}
	for _, want := range k {
		if ls[0].k == want {
			return true
		}
	}
	return false
}

func r32(f float64) float32 { return float32(f) }

func fmin(a, b float32) float32 {
	if b < a {
		return b
	}
	return a
}

func fmax(a, b float32) float32 {
	if a < b {
		return b
	}
	return a
}

func fsign(x float32) float32 {
	switch {
	case x > 0:
		return 1
	case x < 0:
		return -1
	}
	return x // +-0 and NaN
}

func (iv *invocation) mathFn(fun ir.MathFunction, args []val) (val, error) {
	iv.cov("math." + mathName(fun))
	need := func(n int) error {
		if len(args) != n {
			return illFormed("math %s with %d arguments", mathName(fun), len(args))
		}
		return nil
	}
	bad := func() (val, error) {
		names := ""
		for i, a := range args {
			if i > 0 {
				names += ", "
			}
			names += shapeName(a)
		}
		return nil, illFormed("math %s on (%s)", mathName(fun), names)
	}

	// component-wise float functions of one argument
	var f1 func(float32) float32
	switch fun {
	case ir.MathCos:
		f1 = func(x float32) float32 { return r32(math.Cos(float64(x))) }
	case ir.MathCosh:
		f1 = func(x float32) float32 { return r32(math.Cosh(float64(x))) }
	case ir.MathSin:
		f1 = func(x float32) float32 { return r32(math.Sin(float64(x))) }
	case ir.MathSinh:
		f1 = func(x float32) float32 { return r32(math.Sinh(float64(x))) }
	case ir.MathTan:
		f1 = func(x float32) float32 { return r32(math.Tan(float64(x))) }
	case ir.MathTanh:
		f1 = func(x float32) float32 { return r32(math.Tanh(float64(x))) }
	case ir.MathAcos:
		f1 = func(x float32) float32 { return r32(math.Acos(float64(x))) }
	case ir.MathAsin:
		f1 = func(x float32) float32 { return r32(math.Asin(float64(x))) }
	case ir.MathAtan:
		f1 = func(x float32) float32 { return r32(math.Atan(float64(x))) }
	case ir.MathAsinh:
		f1 = func(x float32) float32 { return r32(math.Asinh(float64(x))) }
	case ir.MathAcosh:
		f1 = func(x float32) float32 { return r32(math.Acosh(float64(x))) }
	case ir.MathAtanh:
		f1 = func(x float32) float32 { return r32(math.Atanh(float64(x))) }
	case ir.MathRadians:
		f1 = func(x float32) float32 { return r32(float64(x) * math.Pi / 180) }
	case ir.MathDegrees:
		f1 = func(x float32) float32 { return r32(float64(x) * 180 / math.Pi) }
	case ir.MathCeil:
		f1 = func(x float32) float32 { return r32(math.Ceil(float64(x))) }
	case ir.MathFloor:
		f1 = func(x float32) float32 { return r32(math.Floor(float64(x))) }
	case ir.MathRound:
		f1 = func(x float32) float32 { return r32(math.RoundToEven(float64(x))) }
	case ir.MathTrunc:
		f1 = func(x float32) float32 { return r32(math.Trunc(float64(x))) }
	case ir.MathFract:
		f1 = func(x float32) float32 { return fsub(x, r32(math.Floor(float64(x)))) }
	case ir.MathExp:
		f1 = func(x float32) float32 { return r32(math.Exp(float64(x))) }
	case ir.MathExp2:
		f1 = func(x float32) float32 { return r32(math.Exp2(float64(x))) }
	case ir.MathLog:
		f1 = func(x float32) float32 { return r32(math.Log(float64(x))) }
	case ir.MathLog2:
		f1 = func(x float32) float32 { return r32(math.Log2(float64(x))) }
	case ir.MathSqrt:
		f1 = func(x float32) float32 { return r32(math.Sqrt(float64(x))) }
	case ir.MathInverseSqrt:
		f1 = func(x float32) float32 { return r32(1 / math.Sqrt(float64(x))) }
	case ir.MathSaturate:
		f1 = func(x float32) float32 { return fmin(fmax(x, 0), 1) }
	case ir.MathQuantizeF16:
		f1 = func(x float32) float32 { return f16ToF32(f32ToF16(x)) }
	}
	if f1 != nil {
		if err := need(1); err != nil {
			return nil, err
		}
		l, ok := toLanes(args[0])
		if !ok || l.k != ir.ScalarFloat {
			return bad()
		}
		for i := 0; i < l.count(); i++ {
			l.c[i] = bitsOf(f1(f32of(l.c[i])))
		}
		return l.val(), nil
	}

	switch fun {
	case ir.MathAbs, ir.MathSign:
		if err := need(1); err != nil {
			return nil, err
		}
		l, ok := toLanes(args[0])
		if !ok {
			return bad()
		}
		for i := 0; i < l.count(); i++ {
			b := l.c[i]
			switch l.k {
			case ir.ScalarFloat:
				if fun == ir.MathAbs {
					b &^= 0x80000000
				} else {
					b = bitsOf(fsign(f32of(b)))
				}
			case ir.ScalarSint:
				x := int32(b)
				if fun == ir.MathAbs {
					if x < 0 {
						b = uint32(-x)
					}
				} else {
					switch {
					case x > 0:
						b = 1
					case x < 0:
						b = 0xFFFFFFFF
					}
				}
			case ir.ScalarUint:
				if fun == ir.MathSign {
					return bad()
				}
			default:
				return bad()
			}
			l.c[i] = b
		}
		return l.val(), nil

	case ir.MathMin, ir.MathMax:
		if err := need(2); err != nil {
			return nil, err
		}
		ls, err := unify(fun, args)
		if err != nil {
			return nil, err
		}
		if !sameKind(ls, ir.ScalarFloat, ir.ScalarSint, ir.ScalarUint) {
			return bad()
		}
		out := ls[0]
		for i := 0; i < out.count(); i++ {
			out.c[i] = minmax(fun == ir.MathMin, out.k, ls[0].c[i], ls[1].c[i])
		}
		return out.val(), nil

	case ir.MathClamp:
		if err := need(3); err != nil {
			return nil, err
		}
		ls, err := unify(fun, args)
		if err != nil {
			return nil, err
		}
		if !sameKind(ls, ir.ScalarFloat, ir.ScalarSint, ir.ScalarUint) {
			return bad()
		}
		out := ls[0]
		for i := 0; i < out.count(); i++ {
			// clamp(e, lo, hi) = min(max(e, lo), hi)
			out.c[i] = minmax(true, out.k, minmax(false, out.k, ls[0].c[i], ls[1].c[i]), ls[2].c[i])
		}
		return out.val(), nil

	case ir.MathAtan2, ir.MathPow, ir.MathStep:
		if err := need(2); err != nil {
			return nil, err
		}
		ls, err := unify(fun, args)
		if err != nil {
			return nil, err
		}
		if !sameKind(ls, ir.ScalarFloat) {
			return bad()
		}
		out := ls[0]
		for i := 0; i < out.count(); i++ {
			a, b := f32of(ls[0].c[i]), f32of(ls[1].c[i])
			var r float32
			switch fun {
			case ir.MathAtan2:
				r = r32(math.Atan2(float64(a), float64(b)))
			case ir.MathPow:
				r = r32(math.Pow(float64(a), float64(b)))
			case ir.MathStep: // step(edge, x)
				if a <= b {
					r = 1
				}
			}
			out.c[i] = bitsOf(r)
		}
		return out.val(), nil

	case ir.MathFma, ir.MathMix, ir.MathSmoothStep:
		if err := need(3); err != nil {
			return nil, err
		}
		ls, err := unify(fun, args)
		if err != nil {
			return nil, err
		}
		if !sameKind(ls, ir.ScalarFloat) {
			return bad()
		}
		out := ls[0]
		for i := 0; i < out.count(); i++ {
			a, b, c := f32of(ls[0].c[i]), f32of(ls[1].c[i]), f32of(ls[2].c[i])
			var r float32
			switch fun {
			case ir.MathFma:
				r = fadd(fmul(a, b), c)
			case ir.MathMix: // e1*(1-e3) + e2*e3
				r = fadd(fmul(a, fsub(1, c)), fmul(b, c))
			case ir.MathSmoothStep: // smoothstep(low, high, x)
				t := fmin(fmax(fdiv(fsub(c, a), fsub(b, a)), 0), 1)
				r = fmul(fmul(t, t), fsub(3, fmul(2, t)))
			}
			out.c[i] = bitsOf(r)
		}
		return out.val(), nil

	case ir.MathLdexp:
		if err := need(2); err != nil {
			return nil, err
		}
		ls, err := unify(fun, args)
		if err != nil {
			return nil, err
		}
		if ls[0].k != ir.ScalarFloat || ls[1].k != ir.ScalarSint {
			return bad()
		}
		out := ls[0]
		for i := 0; i < out.count(); i++ {
			out.c[i] = bitsOf(r32(math.Ldexp(float64(f32of(ls[0].c[i])), int(int32(ls[1].c[i])))))
		}
		return out.val(), nil

	case ir.MathModf, ir.MathFrexp:
		if err := need(1); err != nil {
			return nil, err
		}
		l, ok := toLanes(args[0])
		if !ok || l.k != ir.ScalarFloat {
			return bad()
		}
		a, b := l, l
		if fun == ir.MathFrexp {
			b.k = ir.ScalarSint
		}
		for i := 0; i < l.count(); i++ {
			x := f32of(l.c[i])
			if fun == ir.MathModf {
				whole := r32(math.Trunc(float64(x)))
				a.c[i] = bitsOf(fsub(x, whole))
				b.c[i] = bitsOf(whole)
			} else {
				fr, e := math.Frexp(float64(x))
				a.c[i] = bitsOf(r32(fr))
				b.c[i] = uint32(int32(e))
			}
		}
		return strct{f: []val{a.val(), b.val()}}, nil

	case ir.MathDot:
		if err := need(2); err != nil {
			return nil, err
		}
		a, ok1 := args[0].(vector)
		b, ok2 := args[1].(vector)
		if !ok1 || !ok2 || a.n != b.n || a.k != b.k {
			return bad()
		}
		switch a.k {
		case ir.ScalarFloat:
			return f32v(fdot(a, b)), nil
		case ir.ScalarSint, ir.ScalarUint:
			var acc uint32
			for i := 0; i < a.n; i++ {
				acc += a.c[i] * b.c[i]
			}
			return scalar{a.k, acc}, nil
		}
		return bad()

	case ir.MathDot4I8Packed, ir.MathDot4U8Packed:
		if err := need(2); err != nil {
			return nil, err
		}
		a, ok1 := args[0].(scalar)
		b, ok2 := args[1].(scalar)
		if !ok1 || !ok2 || a.k != ir.ScalarUint || b.k != ir.ScalarUint {
			return bad()
		}
		var acc uint32
		for i := uint(0); i < 4; i++ {
			x, y := (a.b>>(8*i))&0xFF, (b.b>>(8*i))&0xFF
			if fun == ir.MathDot4I8Packed {
				acc += uint32(int32(int8(x)) * int32(int8(y)))
			} else {
				acc += x * y
			}
		}
		if fun == ir.MathDot4I8Packed {
			return scalar{ir.ScalarSint, acc}, nil
		}
		return scalar{ir.ScalarUint, acc}, nil

	case ir.MathOuter:
		if err := need(2); err != nil {
			return nil, err
		}
		a, ok1 := args[0].(vector)
		b, ok2 := args[1].(vector)
		if !ok1 || !ok2 || a.k != ir.ScalarFloat || b.k != ir.ScalarFloat {
			return bad()
		}
		out := matrix{cols: b.n, rows: a.n}
		for c := 0; c < b.n; c++ {
			for r := 0; r < a.n; r++ {
				out.c[c][r] = bitsOf(fmul(f32of(a.c[r]), f32of(b.c[c])))
			}
		}
		return out, nil

	case ir.MathCross:
		if err := need(2); err != nil {
			return nil, err
		}
		a, ok1 := args[0].(vector)
		b, ok2 := args[1].(vector)
		if !ok1 || !ok2 || a.n != 3 || b.n != 3 || a.k != ir.ScalarFloat || b.k != ir.ScalarFloat {
			return bad()
		}
		x := func(v vector, i int) float32 { return f32of(v.c[i]) }
		out := vector{k: ir.ScalarFloat, n: 3}
		out.c[0] = bitsOf(fsub(fmul(x(a, 1), x(b, 2)), fmul(x(a, 2), x(b, 1))))
		out.c[1] = bitsOf(fsub(fmul(x(a, 2), x(b, 0)), fmul(x(a, 0), x(b, 2))))
		out.c[2] = bitsOf(fsub(fmul(x(a, 0), x(b, 1)), fmul(x(a, 1), x(b, 0))))
		return out, nil

	case ir.MathLength:
		if err := need(1); err != nil {
			return nil, err
		}
		switch a := args[0].(type) {
		case scalar:
			if a.k == ir.ScalarFloat {
				return scalar{a.k, a.b &^ 0x80000000}, nil
			}
		case vector:
			if a.k == ir.ScalarFloat {
				return f32v(flength(a)), nil
			}
		}
		return bad()

	case ir.MathDistance:
		if err := need(2); err != nil {
			return nil, err
		}
		ls, err := unify(fun, args)
		if err != nil {
			return nil, err
		}
		if !sameKind(ls, ir.ScalarFloat) {
			return bad()
		}
		d := ls[0]
		for i := 0; i < d.count(); i++ {
			d.c[i] = bitsOf(fsub(f32of(ls[0].c[i]), f32of(ls[1].c[i])))
		}
		if d.n == 0 {
			return scalar{d.k, d.c[0] &^ 0x80000000}, nil
		}
		return f32v(flength(vector{k: d.k, n: d.n, c: d.c})), nil

	case ir.MathNormalize:
		if err := need(1); err != nil {
			return nil, err
		}
		a, ok := args[0].(vector)
		if !ok || a.k != ir.ScalarFloat {
			return bad()
		}
		l := flength(a)
		out := a
		for i := 0; i < a.n; i++ {
			out.c[i] = bitsOf(fdiv(f32of(a.c[i]), l))
		}
		return out, nil

	case ir.MathFaceForward:
		if err := need(3); err != nil {
			return nil, err
		}
		e1, ok1 := args[0].(vector)
		e2, ok2 := args[1].(vector)
		e3, ok3 := args[2].(vector)
		if !ok1 || !ok2 || !ok3 || e1.n != e2.n || e2.n != e3.n || e1.k != ir.ScalarFloat || e2.k != ir.ScalarFloat || e3.k != ir.ScalarFloat {
			return bad()
		}
		if fdot(e2, e3) < 0 {
			return e1, nil
		}
		out := e1
		for i := 0; i < e1.n; i++ {
			out.c[i] ^= 0x80000000
		}
		return out, nil

	case ir.MathReflect:
		if err := need(2); err != nil {
			return nil, err
		}
		e1, ok1 := args[0].(vector)
		e2, ok2 := args[1].(vector)
		if !ok1 || !ok2 || e1.n != e2.n || e1.k != ir.ScalarFloat || e2.k != ir.ScalarFloat {
			return bad()
		}
		// e1 - 2*dot(e2,e1)*e2
		d := fmul(2, fdot(e2, e1))
		out := e1
		for i := 0; i < e1.n; i++ {
			out.c[i] = bitsOf(fsub(f32of(e1.c[i]), fmul(d, f32of(e2.c[i]))))
		}
		return out, nil

	case ir.MathRefract:
		if err := need(3); err != nil {
			return nil, err
		}
		e1, ok1 := args[0].(vector)
		e2, ok2 := args[1].(vector)
		e3, ok3 := args[2].(scalar)
		if !ok1 || !ok2 || !ok3 || e1.n != e2.n || e1.k != ir.ScalarFloat || e2.k != ir.ScalarFloat || e3.k != ir.ScalarFloat {
			return bad()
		}
		eta := f32of(e3.b)
		d := fdot(e2, e1)
		// k = 1 - eta*eta*(1 - d*d)
		k := fsub(1, fmul(fmul(eta, eta), fsub(1, fmul(d, d))))
		out := vector{k: ir.ScalarFloat, n: e1.n}
		if k < 0 {
			return out, nil
		}
		s := fadd(fmul(eta, d), r32(math.Sqrt(float64(k))))
		for i := 0; i < e1.n; i++ {
			out.c[i] = bitsOf(fsub(fmul(eta, f32of(e1.c[i])), fmul(s, f32of(e2.c[i]))))
		}
		return out, nil

	case ir.MathTranspose:
		if err := need(1); err != nil {
			return nil, err
		}
		m, ok := args[0].(matrix)
		if !ok {
			return bad()
		}
		out := matrix{cols: m.rows, rows: m.cols}
		for c := 0; c < m.cols; c++ {
			for r := 0; r < m.rows; r++ {
				out.c[r][c] = m.c[c][r]
			}
		}
		return out, nil

	case ir.MathDeterminant:
		if err := need(1); err != nil {
			return nil, err
		}
		m, ok := args[0].(matrix)
		if !ok || m.cols != m.rows {
			return bad()
		}
		return f32v(det(matF(m), m.cols)), nil

	case ir.MathInverse:
		if err := need(1); err != nil {
			return nil, err
		}
		m, ok := args[0].(matrix)
		if !ok || m.cols != m.rows {
			return bad()
		}
		n := m.cols
		a := matF(m)
		d := det(a, n)
		out := matrix{cols: n, rows: n}
		for c := 0; c < n; c++ {
			for r := 0; r < n; r++ {
				// inverse[c][r] (column c, row r) = cofactor(row c, column r) / det
				cf := cofactor(a, n, c, r)
				out.c[c][r] = bitsOf(fdiv(cf, d))
			}
		}
		return out, nil

	case ir.MathCountTrailingZeros, ir.MathCountLeadingZeros, ir.MathCountOneBits, ir.MathReverseBits,
		ir.MathFirstTrailingBit, ir.MathFirstLeadingBit:
		if err := need(1); err != nil {
			return nil, err
		}
		l, ok := toLanes(args[0])
		if !ok || (l.k != ir.ScalarSint && l.k != ir.ScalarUint) {
			return bad()
		}
		for i := 0; i < l.count(); i++ {
			b := l.c[i]
			switch fun {
			case ir.MathCountTrailingZeros:
				b = uint32(bits.TrailingZeros32(b))
			case ir.MathCountLeadingZeros:
				b = uint32(bits.LeadingZeros32(b))
			case ir.MathCountOneBits:
				b = uint32(bits.OnesCount32(b))
			case ir.MathReverseBits:
				b = bits.Reverse32(b)
			case ir.MathFirstTrailingBit:
				b = firstTrailingBit(b)
			case ir.MathFirstLeadingBit:
				if l.k == ir.ScalarSint {
					b = firstLeadingBitI(int32(b))
				} else {
					b = firstLeadingBitU(b)
				}
			}
			l.c[i] = b
		}
		return l.val(), nil

	case ir.MathExtractBits:
		if err := need(3); err != nil {
			return nil, err
		}
		l, ok := toLanes(args[0])
		off, ok1 := args[1].(scalar)
		cnt, ok2 := args[2].(scalar)
		if !ok || !ok1 || !ok2 || off.k != ir.ScalarUint || cnt.k != ir.ScalarUint || (l.k != ir.ScalarSint && l.k != ir.ScalarUint) {
			return bad()
		}
		for i := 0; i < l.count(); i++ {
			if l.k == ir.ScalarSint {
				l.c[i] = extractBitsI(int32(l.c[i]), off.b, cnt.b)
			} else {
				l.c[i] = extractBitsU(l.c[i], off.b, cnt.b)
			}
		}
		return l.val(), nil

	case ir.MathInsertBits:
		if err := need(4); err != nil {
			return nil, err
		}
		l, ok := toLanes(args[0])
		nb, okn := toLanes(args[1])
		off, ok1 := args[2].(scalar)
		cnt, ok2 := args[3].(scalar)
		if !ok || !okn || !ok1 || !ok2 || off.k != ir.ScalarUint || cnt.k != ir.ScalarUint ||
			(l.k != ir.ScalarSint && l.k != ir.ScalarUint) || nb.k != l.k || nb.n != l.n {
			return bad()
		}
		for i := 0; i < l.count(); i++ {
			l.c[i] = insertBits(l.c[i], nb.c[i], off.b, cnt.b)
		}
		return l.val(), nil

	case ir.MathPack4x8snorm, ir.MathPack4x8unorm, ir.MathPack2x16snorm, ir.MathPack2x16unorm, ir.MathPack2x16float:
		if err := need(1); err != nil {
			return nil, err
		}
		v, ok := args[0].(vector)
		if !ok || v.k != ir.ScalarFloat {
			return bad()
		}
		want := 4
		if fun == ir.MathPack2x16snorm || fun == ir.MathPack2x16unorm || fun == ir.MathPack2x16float {
			want = 2
		}
		if v.n != want {
			return bad()
		}
		var out uint32
		for i := 0; i < v.n; i++ {
			x := float64(f32of(v.c[i]))
			switch fun {
			case ir.MathPack4x8snorm:
				q := int32(math.Floor(0.5 + 127*math.Min(1, math.Max(-1, x))))
				out |= (uint32(q) & 0xFF) << (8 * uint(i))
			case ir.MathPack4x8unorm:
				q := uint32(math.Floor(0.5 + 255*math.Min(1, math.Max(0, x))))
				out |= (q & 0xFF) << (8 * uint(i))
			case ir.MathPack2x16snorm:
				q := int32(math.Floor(0.5 + 32767*math.Min(1, math.Max(-1, x))))
				out |= (uint32(q) & 0xFFFF) << (16 * uint(i))
			case ir.MathPack2x16unorm:
				q := uint32(math.Floor(0.5 + 65535*math.Min(1, math.Max(0, x))))
				out |= (q & 0xFFFF) << (16 * uint(i))
			case ir.MathPack2x16float:
				out |= uint32(f32ToF16(f32of(v.c[i]))) << (16 * uint(i))
			}
		}
		return u32v(out), nil

	case ir.MathPack4xI8, ir.MathPack4xU8, ir.MathPack4xI8Clamp, ir.MathPack4xU8Clamp:
		if err := need(1); err != nil {
			return nil, err
		}
		v, ok := args[0].(vector)
		if !ok || v.n != 4 {
			return bad()
		}
		signed := fun == ir.MathPack4xI8 || fun == ir.MathPack4xI8Clamp
		if (signed && v.k != ir.ScalarSint) || (!signed && v.k != ir.ScalarUint) {
			return bad()
		}
		var out uint32
		for i := 0; i < 4; i++ {
			b := v.c[i]
			switch fun {
			case ir.MathPack4xI8Clamp:
				x := int32(b)
				if x < -128 {
					x = -128
				}
				if x > 127 {
					x = 127
				}
				b = uint32(x)
			case ir.MathPack4xU8Clamp:
				if b > 255 {
					b = 255
				}
			}
			out |= (b & 0xFF) << (8 * uint(i))
		}
		return u32v(out), nil

	case ir.MathUnpack4x8snorm, ir.MathUnpack4x8unorm, ir.MathUnpack2x16snorm, ir.MathUnpack2x16unorm, ir.MathUnpack2x16float,
		ir.MathUnpack4xI8, ir.MathUnpack4xU8:
		if err := need(1); err != nil {
			return nil, err
		}
		s, ok := args[0].(scalar)
		if !ok || s.k != ir.ScalarUint {
			return bad()
		}
		switch fun {
		case ir.MathUnpack4x8snorm:
			out := vector{k: ir.ScalarFloat, n: 4}
			for i := 0; i < 4; i++ {
				x := float32(int8(s.b >> (8 * uint(i))))
				out.c[i] = bitsOf(fmax(fdiv(x, 127), -1))
			}
			return out, nil
		case ir.MathUnpack4x8unorm:
			out := vector{k: ir.ScalarFloat, n: 4}
			for i := 0; i < 4; i++ {
				out.c[i] = bitsOf(fdiv(float32(uint8(s.b>>(8*uint(i)))), 255))
			}
			return out, nil
		case ir.MathUnpack2x16snorm:
			out := vector{k: ir.ScalarFloat, n: 2}
			for i := 0; i < 2; i++ {
				x := float32(int16(s.b >> (16 * uint(i))))
				out.c[i] = bitsOf(fmax(fdiv(x, 32767), -1))
			}
			return out, nil
		case ir.MathUnpack2x16unorm:
			out := vector{k: ir.ScalarFloat, n: 2}
			for i := 0; i < 2; i++ {
				out.c[i] = bitsOf(fdiv(float32(uint16(s.b>>(16*uint(i)))), 65535))
			}
			return out, nil
		case ir.MathUnpack2x16float:
			out := vector{k: ir.ScalarFloat, n: 2}
			for i := 0; i < 2; i++ {
				out.c[i] = bitsOf(f16ToF32(uint16(s.b >> (16 * uint(i)))))
			}
			return out, nil
		case ir.MathUnpack4xI8:
			out := vector{k: ir.ScalarSint, n: 4}
			for i := 0; i < 4; i++ {
				out.c[i] = uint32(int32(int8(s.b >> (8 * uint(i)))))
			}
			return out, nil
		case ir.MathUnpack4xU8:
			out := vector{k: ir.ScalarUint, n: 4}
			for i := 0; i < 4; i++ {
				out.c[i] = (s.b >> (8 * uint(i))) & 0xFF
			}
			return out, nil
		}
	}
	return nil, unsupported("math function %d (%s)", fun, mathName(fun))
}

func minmax(isMin bool, k ir.ScalarKind, a, b uint32) uint32 {
	var less bool // "b < a" for min, "a < b" for max
	x, y := a, b
	if isMin {
		x, y = b, a
	}
	switch k {
	case ir.ScalarFloat:
		less = f32of(x) < f32of(y)
	case ir.ScalarSint:
		less = int32(x) < int32(y)
	default:
		less = x < y
	}
	// min: b < a ? b : a ; max: a < b ? b : a
	if less {
		return b
	}
	return a
}

func fdot(a, b vector) float32 {
	var acc float32
	for i := 0; i < a.n; i++ {
		p := fmul(f32of(a.c[i]), f32of(b.c[i]))
		if i == 0 {
			acc = p
		} else {
			acc = fadd(acc, p)
		}
	}
	return acc
}

func flength(a vector) float32 {
	return r32(math.Sqrt(float64(fdot(a, a))))
}

// matF converts to [col][row] float32.
func matF(m matrix) [4][4]float32 {
	var a [4][4]float32
	for c := 0; c < m.cols; c++ {
		for r := 0; r < m.rows; r++ {
			a[c][r] = f32of(m.c[c][r])
		}
	}
	return a
}

// det computes the determinant by cofactor expansion along column 0, every
// operation rounded to f32.
func det(a [4][4]float32, n int) float32 {
	switch n {
	case 1:
		return a[0][0]
	case 2:
		return fsub(fmul(a[0][0], a[1][1]), fmul(a[1][0], a[0][1]))
	}
	var acc float32
	for r := 0; r < n; r++ {
		t := fmul(a[0][r], cofactor(a, n, r, 0))
		if r == 0 {
			acc = t
		} else {
			acc = fadd(acc, t)
		}
	}
	return acc
}

// cofactor of the element at (row, col): signed determinant of the minor.
func cofactor(a [4][4]float32, n, row, col int) float32 {
	var m [4][4]float32
	mc := 0
	for c := 0; c < n; c++ {
		if c == col {
			continue
		}
		mr := 0
		for r := 0; r < n; r++ {
			if r == row {
				continue
			}
			m[mc][mr] = a[c][r]
			mr++
		}
		mc++
	}
	d := det(m, n-1)
	if (row+col)%2 == 1 {
		return -d
	}
	return d
}
