package irx

import (
	"fmt"

	"github.com/gogpu/naga/ir"
	"verif/internal/xrt"
)

// fnInfo is static per-function information computed once.
type fnInfo struct {
	covered []bool // expression is inside some StmtEmit range
	constQ  []int8 // 0 unknown, 1 const-expression, 2 not
}

func (in *interp) info(fn *ir.Function) *fnInfo {
	if fi, ok := in.infos[fn]; ok {
		return fi
	}
	fi := &fnInfo{covered: make([]bool, len(fn.Expressions)), constQ: make([]int8, len(fn.Expressions))}
	var walk func(b ir.Block, depth int)
	walk = func(b ir.Block, depth int) {
		if depth > 512 {
			return
		}
		for i := range b {
			switch k := b[i].Kind.(type) {
			case ir.StmtEmit:
				for h := k.Range.Start; h < k.Range.End && int(h) < len(fi.covered); h++ {
					fi.covered[h] = true
				}
			case ir.StmtBlock:
				walk(k.Block, depth+1)
			case ir.StmtIf:
				walk(k.Accept, depth+1)
				walk(k.Reject, depth+1)
			case ir.StmtSwitch:
				for c := range k.Cases {
					walk(k.Cases[c].Body, depth+1)
				}
			case ir.StmtLoop:
				walk(k.Body, depth+1)
				walk(k.Continuing, depth+1)
			}
		}
	}
	walk(fn.Body, 0)
	in.infos[fn] = fi
	return fi
}

// isConst reports whether expression h is a const-expression: built only from
// literals, constants, overrides, zero values and pure operators.
func (fi *fnInfo) isConst(fn *ir.Function, h ir.ExpressionHandle, depth int) bool {
	if int(h) >= len(fn.Expressions) || depth > 256 {
		return false
	}
	if fi.constQ[h] != 0 {
		return fi.constQ[h] == 1
	}
	fi.constQ[h] = 2 // guards against cycles
	all := func(hs ...ir.ExpressionHandle) bool {
		for _, x := range hs {
			if !fi.isConst(fn, x, depth+1) {
				return false
			}
		}
		return true
	}
	res := false
	switch k := fn.Expressions[h].Kind.(type) {
	case ir.Literal, ir.ExprConstant, ir.ExprOverride, ir.ExprZeroValue:
		res = true
	case ir.ExprCompose:
		res = all(k.Components...)
	case ir.ExprSplat:
		res = all(k.Value)
	case ir.ExprSwizzle:
		res = all(k.Vector)
	case ir.ExprAccess:
		res = all(k.Base, k.Index)
	case ir.ExprAccessIndex:
		res = all(k.Base)
	case ir.ExprUnary:
		res = all(k.Expr)
	case ir.ExprBinary:
		res = all(k.Left, k.Right)
	case ir.ExprSelect:
		res = all(k.Condition, k.Accept, k.Reject)
	case ir.ExprRelational:
		res = all(k.Argument)
	case ir.ExprAs:
		res = all(k.Expr)
	case ir.ExprMath:
		res = all(k.Arg)
		for _, p := range []*ir.ExpressionHandle{k.Arg1, k.Arg2, k.Arg3} {
			if p != nil {
				res = res && all(*p)
			}
		}
	}
	if res {
		fi.constQ[h] = 1
	}
	return res
}

// edge records how control reached the current point of a block: the exit
// edge of the structured construct that completed last. ExprPhi is resolved
// against it.
type edgeKind uint8

const (
	edgeNone edgeKind = iota
	edgeIfAccept
	edgeIfReject
	edgeSwitchCase // idx = index into StmtSwitch.Cases of the body control left the switch from
	edgeLoopExit
	edgeLoopInit // first entry into a loop body
	edgeLoopBack // re-entry through the back edge
)

type edge struct {
	kind edgeKind
	idx  uint32
}

func (e edge) String() string {
	switch e.kind {
	case edgeIfAccept:
		return "if-accept"
	case edgeIfReject:
		return "if-reject"
	case edgeSwitchCase:
		return fmt.Sprintf("switch-case-%d", e.idx)
	case edgeLoopExit:
		return "loop-exit"
	case edgeLoopInit:
		return "loop-init"
	case edgeLoopBack:
		return "loop-back-edge"
	}
	return "none"
}

type frame struct {
	fn     *ir.Function
	fi     *fnInfo
	args   []val
	locals []val
	vals   []val
	have   []bool
	// set while an Emit statement is being evaluated
	inEmit bool
	edge   edge
	ret    val
}

type flow uint8

const (
	flowNext flow = iota
	flowBreak
	flowContinue
	flowReturn
)

const (
	maxCallDepth = 128
	maxEvalDepth = 5000
)

func isResultKind(k ir.ExpressionKind) bool {
	switch k.(type) {
	case ir.ExprCallResult, ir.ExprAtomicResult, ir.ExprWorkGroupUniformLoadResult,
		ir.ExprRayQueryProceedResult, ir.ExprSubgroupBallotResult, ir.ExprSubgroupOperationResult:
		return true
	}
	return false
}

func isPreEmitKind(k ir.ExpressionKind) bool {
	switch k.(type) {
	case ir.Literal, ir.ExprConstant, ir.ExprZeroValue, ir.ExprOverride,
		ir.ExprFunctionArgument, ir.ExprGlobalVariable, ir.ExprLocalVariable:
		return true
	}
	return false
}

// call runs fn with the given argument values.
func (iv *invocation) call(fn *ir.Function, args []val) (val, error) {
	in := iv.in
	if iv.depth >= maxCallDepth {
		return nil, illFormed("call depth exceeds %d (recursion?)", maxCallDepth)
	}
	iv.depth++
	defer func() { iv.depth-- }()

	if len(fn.Arguments) != len(args) {
		return nil, illFormed("function %q called with %d arguments, declares %d", fn.Name, len(args), len(fn.Arguments))
	}
	for i := range args {
		if !in.conformsTo(args[i], fn.Arguments[i].Type) {
			return nil, illFormed("function %q argument %d is %s, declared type %d", fn.Name, i, shapeName(args[i]), fn.Arguments[i].Type)
		}
	}
	fr := &frame{
		fn:     fn,
		fi:     in.info(fn),
		args:   args,
		locals: make([]val, len(fn.LocalVars)),
		vals:   make([]val, len(fn.Expressions)),
		have:   make([]bool, len(fn.Expressions)),
	}
	// Locals: Init else zero, at function entry.
	for i := range fn.LocalVars {
		lv := &fn.LocalVars[i]
		z, err := in.zeroOf(lv.Type)
		if err != nil {
			return nil, fmt.Errorf("local %q of %q: %w", lv.Name, fn.Name, err)
		}
		fr.locals[i] = z
	}
	for i := range fn.LocalVars {
		lv := &fn.LocalVars[i]
		if lv.Init == nil {
			continue
		}
		v, err := iv.get(fr, *lv.Init)
		if err != nil {
			return nil, fmt.Errorf("local %q of %q: %w", lv.Name, fn.Name, err)
		}
		if !sameShape(v, fr.locals[i]) {
			return nil, illFormed("local %q of %q: Init is %s, variable holds %s", lv.Name, fn.Name, shapeName(v), shapeName(fr.locals[i]))
		}
		fr.locals[i] = clone(v)
	}
	fl, err := iv.execBlock(fr, fn.Body, edge{}, 0)
	if err != nil {
		return nil, err
	}
	switch fl {
	case flowBreak, flowContinue:
		return nil, illFormed("function %q: break/continue outside a loop or switch", fn.Name)
	}
	if fn.Result == nil {
		if fr.ret != nil {
			return nil, illFormed("function %q returns a value but declares none", fn.Name)
		}
		return nil, nil
	}
	if fr.ret == nil {
		iv.trap(xrt.TrapUnreach, "function %q ends without returning a value", fn.Name)
		return in.zeroOf(fn.Result.Type)
	}
	if !in.conformsTo(fr.ret, fn.Result.Type) {
		return nil, illFormed("function %q returns %s, declared type %d", fn.Name, shapeName(fr.ret), fn.Result.Type)
	}
	return fr.ret, nil
}

// get returns the value of expression h in this activation, evaluating it on
// demand when it has not been evaluated yet.
func (iv *invocation) get(fr *frame, h ir.ExpressionHandle) (val, error) {
	if int(h) >= len(fr.fn.Expressions) {
		return nil, illFormed("expression handle %d out of range in %q (%d expressions)", h, fr.fn.Name, len(fr.fn.Expressions))
	}
	if fr.have[h] {
		return fr.vals[h], nil
	}
	kind := fr.fn.Expressions[h].Kind
	if isResultKind(kind) {
		return nil, illFormed("%T (expression %d of %q) used before the statement that produces it", kind, h, fr.fn.Name)
	}
	lazy := !isPreEmitKind(kind) && !fr.fi.isConst(fr.fn, h, 0)
	if lazy {
		// A run-time expression consumed before any Emit evaluated it.
		iv.cov("lazy-eval")
	}
	if iv.evalDepth >= maxEvalDepth {
		return nil, illFormed("expression %d of %q: operand chain deeper than %d (cyclic expression?)", h, fr.fn.Name, maxEvalDepth)
	}
	iv.evalDepth++
	save := fr.inEmit
	fr.inEmit = false
	v, err := iv.eval(fr, h)
	fr.inEmit = save
	iv.evalDepth--
	if err != nil {
		return nil, err
	}
	if lazy && !fr.fi.covered[h] {
		// No Emit ever evaluates this expression: it has no evaluation point of
		// its own, so it is evaluated where it is used, every time it is used
		// (a cached value would go stale inside loops).
		iv.cov("lazy-eval.uncovered")
		return v, nil
	}
	fr.vals[h], fr.have[h] = v, true
	return v, nil
}

// eval evaluates expression h now.
func (iv *invocation) eval(fr *frame, h ir.ExpressionHandle) (val, error) {
	if err := iv.step(); err != nil {
		return nil, err
	}
	kind := fr.fn.Expressions[h].Kind
	if kind == nil {
		return nil, illFormed("expression %d of %q has nil kind", h, fr.fn.Name)
	}
	v, handled, err := iv.evalPure(kind, func(x ir.ExpressionHandle) (val, error) { return iv.get(fr, x) })
	if handled || err != nil {
		return v, err
	}
	switch k := kind.(type) {
	case ir.ExprFunctionArgument:
		iv.cov("expr.FunctionArgument")
		if int(k.Index) >= len(fr.args) {
			return nil, illFormed("FunctionArgument %d in %q with %d arguments", k.Index, fr.fn.Name, len(fr.args))
		}
		return fr.args[k.Index], nil
	case ir.ExprGlobalVariable:
		iv.cov("expr.GlobalVariable")
		return iv.global(k.Variable)
	case ir.ExprLocalVariable:
		iv.cov("expr.LocalVariable")
		if int(k.Variable) >= len(fr.locals) {
			return nil, illFormed("LocalVariable %d in %q with %d locals", k.Variable, fr.fn.Name, len(fr.locals))
		}
		return pointer{ref{cell: &fr.locals[k.Variable], name: "local " + fr.fn.LocalVars[k.Variable].Name}}, nil
	case ir.ExprLoad:
		iv.cov("expr.Load")
		p, err := iv.get(fr, k.Pointer)
		if err != nil {
			return nil, err
		}
		pp, ok := p.(pointer)
		if !ok {
			return nil, illFormed("Load of a %s (expression %d of %q)", shapeName(p), h, fr.fn.Name)
		}
		return iv.load(pp.r)
	case ir.ExprAlias:
		iv.cov("expr.Alias")
		return iv.get(fr, k.Source)
	case ir.ExprPhi:
		iv.cov("expr.Phi")
		return iv.phi(fr, h, k)
	case ir.ExprArrayLength:
		iv.cov("expr.ArrayLength")
		p, err := iv.get(fr, k.Array)
		if err != nil {
			return nil, err
		}
		pp, ok := p.(pointer)
		if !ok || !pp.r.isBuf {
			return nil, illFormed("ArrayLength of %s", shapeName(p))
		}
		at, ok := pp.r.ty.(ir.ArrayType)
		if !ok || at.Size.Constant != nil {
			return nil, illFormed("ArrayLength of a pointer to %T", pp.r.ty)
		}
		if at.Stride == 0 {
			return nil, illFormed("runtime-sized array with stride 0")
		}
		return u32v(uint32(runtimeLen(pp.r, at))), nil
	case ir.ExprImageSample, ir.ExprImageLoad, ir.ExprImageQuery:
		return nil, unsupported("image expression %T", kind)
	case ir.ExprDerivative:
		return nil, unsupported("derivative")
	case ir.ExprRayQueryGetIntersection:
		return nil, unsupported("ray query")
	}
	if isResultKind(kind) {
		return nil, illFormed("%T evaluated as an ordinary expression", kind)
	}
	return nil, unsupported("expression kind %T", kind)
}

// phi picks the incoming value whose predecessor key names the edge control
// arrived on.
func (iv *invocation) phi(fr *frame, h ir.ExpressionHandle, k ir.ExprPhi) (val, error) {
	if !fr.inEmit {
		return nil, unsupported("phi: expression %d of %q evaluated outside its Emit", h, fr.fn.Name)
	}
	e := fr.edge
	if e.kind == edgeNone {
		return nil, unsupported("phi: expression %d of %q does not follow a structured construct", h, fr.fn.Name)
	}
	found := false
	var pick ir.ExpressionHandle
	for _, inc := range k.Incoming {
		match := false
		switch inc.PredKey {
		case ir.PhiPredIfAccept:
			match = e.kind == edgeIfAccept
		case ir.PhiPredIfReject:
			match = e.kind == edgeIfReject
		case ir.PhiPredSwitchCase:
			match = e.kind == edgeSwitchCase && e.idx == inc.CaseIdx
		case ir.PhiPredLoopInit:
			match = e.kind == edgeLoopInit
		case ir.PhiPredLoopBackEdge:
			match = e.kind == edgeLoopBack
		case ir.PhiPredFallThrough:
			// "pre-construct value": names no edge of the vocabulary.
		default:
			return nil, unsupported("phi: unknown predecessor key %d", inc.PredKey)
		}
		if !match {
			continue
		}
		if found && pick != inc.Value {
			return nil, unsupported("phi: expression %d of %q has two different incomings for edge %s", h, fr.fn.Name, e)
		}
		found, pick = true, inc.Value
	}
	if !found {
		return nil, unsupported("phi: expression %d of %q has no incoming for edge %s", h, fr.fn.Name, e)
	}
	iv.cov("phi." + e.kindName())
	return iv.get(fr, pick)
}

func (e edge) kindName() string {
	if e.kind == edgeSwitchCase {
		return "switch-case"
	}
	return e.String()
}

// execBlock runs a block. entry is the edge control entered the block on
// (meaningful for loop bodies).
func (iv *invocation) execBlock(fr *frame, b ir.Block, entry edge, depth int) (flow, error) {
	if depth > 1024 {
		return flowNext, illFormed("statement nesting too deep in %q", fr.fn.Name)
	}
	last := entry
	for i := range b {
		if err := iv.step(); err != nil {
			return flowNext, err
		}
		switch k := b[i].Kind.(type) {
		case ir.StmtEmit:
			iv.cov("stmt.Emit")
			if int(k.Range.End) > len(fr.fn.Expressions) || k.Range.Start > k.Range.End {
				return flowNext, illFormed("Emit range %d..%d in %q (%d expressions)", k.Range.Start, k.Range.End, fr.fn.Name, len(fr.fn.Expressions))
			}
			for h := k.Range.Start; h < k.Range.End; h++ {
				if isResultKind(fr.fn.Expressions[h].Kind) {
					continue
				}
				fr.inEmit, fr.edge = true, last
				v, err := iv.eval(fr, h)
				fr.inEmit = false
				if err != nil {
					return flowNext, err
				}
				fr.vals[h], fr.have[h] = v, true
			}
			// an Emit does not change how control arrived here
			continue

		case ir.StmtBlock:
			iv.cov("stmt.Block")
			fl, err := iv.execBlock(fr, k.Block, edge{}, depth+1)
			if err != nil || fl != flowNext {
				return fl, err
			}

		case ir.StmtIf:
			iv.cov("stmt.If")
			c, err := iv.get(fr, k.Condition)
			if err != nil {
				return flowNext, err
			}
			cs, ok := c.(scalar)
			if !ok || cs.k != ir.ScalarBool {
				return flowNext, illFormed("If condition is %s in %q", shapeName(c), fr.fn.Name)
			}
			var fl flow
			if cs.b != 0 {
				fl, err = iv.execBlock(fr, k.Accept, edge{}, depth+1)
				last = edge{kind: edgeIfAccept}
			} else {
				fl, err = iv.execBlock(fr, k.Reject, edge{}, depth+1)
				last = edge{kind: edgeIfReject}
			}
			if err != nil || fl != flowNext {
				return fl, err
			}
			continue

		case ir.StmtSwitch:
			iv.cov("stmt.Switch")
			fl, exit, err := iv.execSwitch(fr, k, depth)
			if err != nil || fl != flowNext {
				return fl, err
			}
			last = exit
			continue

		case ir.StmtLoop:
			iv.cov("stmt.Loop")
			fl, err := iv.execLoop(fr, k, depth)
			if err != nil || fl != flowNext {
				return fl, err
			}
			last = edge{kind: edgeLoopExit}
			continue

		case ir.StmtBreak:
			iv.cov("stmt.Break")
			return flowBreak, nil
		case ir.StmtContinue:
			iv.cov("stmt.Continue")
			return flowContinue, nil
		case ir.StmtReturn:
			iv.cov("stmt.Return")
			if k.Value != nil {
				v, err := iv.get(fr, *k.Value)
				if err != nil {
					return flowNext, err
				}
				fr.ret = v
			}
			return flowReturn, nil
		case ir.StmtKill:
			return flowNext, unsupported("Kill statement")

		case ir.StmtBarrier:
			iv.cov("stmt.Barrier")
			if k.Flags&ir.BarrierSubGroup != 0 {
				return flowNext, unsupported("subgroup barrier")
			}
			if err := iv.barrier(); err != nil {
				return flowNext, err
			}

		case ir.StmtStore:
			iv.cov("stmt.Store")
			p, err := iv.get(fr, k.Pointer)
			if err != nil {
				return flowNext, err
			}
			pp, ok := p.(pointer)
			if !ok {
				return flowNext, illFormed("Store through a %s in %q", shapeName(p), fr.fn.Name)
			}
			v, err := iv.get(fr, k.Value)
			if err != nil {
				return flowNext, err
			}
			if err := iv.store(pp.r, v); err != nil {
				return flowNext, err
			}

		case ir.StmtAtomic:
			iv.cov("stmt.Atomic")
			if err := iv.execAtomic(fr, k); err != nil {
				return flowNext, err
			}

		case ir.StmtWorkGroupUniformLoad:
			iv.cov("stmt.WorkGroupUniformLoad")
			p, err := iv.get(fr, k.Pointer)
			if err != nil {
				return flowNext, err
			}
			pp, ok := p.(pointer)
			if !ok {
				return flowNext, illFormed("WorkGroupUniformLoad through a %s", shapeName(p))
			}
			if err := iv.barrier(); err != nil {
				return flowNext, err
			}
			v, err := iv.load(pp.r)
			if err != nil {
				return flowNext, err
			}
			if err := iv.barrier(); err != nil {
				return flowNext, err
			}
			if err := iv.bindResult(fr, k.Result, v, "WorkGroupUniformLoadResult"); err != nil {
				return flowNext, err
			}

		case ir.StmtCall:
			iv.cov("stmt.Call")
			if int(k.Function) >= len(iv.in.m.Functions) {
				return flowNext, illFormed("Call of function %d (%d functions)", k.Function, len(iv.in.m.Functions))
			}
			callee := &iv.in.m.Functions[k.Function]
			args := make([]val, len(k.Arguments))
			for j, a := range k.Arguments {
				v, err := iv.get(fr, a)
				if err != nil {
					return flowNext, err
				}
				args[j] = v
			}
			rv, err := iv.call(callee, args)
			if err != nil {
				return flowNext, err
			}
			if k.Result != nil {
				if rv == nil {
					return flowNext, illFormed("Call of %q binds a result but the function returns nothing", callee.Name)
				}
				if err := iv.bindResult(fr, *k.Result, rv, "CallResult"); err != nil {
					return flowNext, err
				}
			}

		case ir.StmtImageStore:
			return flowNext, unsupported("ImageStore statement")
		case ir.StmtImageAtomic:
			return flowNext, unsupported("ImageAtomic statement")
		case ir.StmtRayQuery:
			return flowNext, unsupported("RayQuery statement")
		case ir.StmtSubgroupBallot, ir.StmtSubgroupCollectiveOperation, ir.StmtSubgroupGather:
			return flowNext, unsupported("subgroup statement %T", k)
		case nil:
			return flowNext, illFormed("statement with nil kind in %q", fr.fn.Name)
		default:
			return flowNext, unsupported("statement kind %T", k)
		}
		// any statement other than Emit/If/Switch/Loop ends the "merge point"
		last = edge{}
	}
	return flowNext, nil
}

// bindResult stores the value a statement produces into its result expression.
func (iv *invocation) bindResult(fr *frame, h ir.ExpressionHandle, v val, want string) error {
	if int(h) >= len(fr.fn.Expressions) {
		return illFormed("%s handle %d out of range in %q", want, h, fr.fn.Name)
	}
	if !isResultKind(fr.fn.Expressions[h].Kind) {
		return illFormed("statement result %d in %q is a %T, want %s", h, fr.fn.Name, fr.fn.Expressions[h].Kind, want)
	}
	fr.vals[h], fr.have[h] = v, true
	return nil
}

func (iv *invocation) execSwitch(fr *frame, k ir.StmtSwitch, depth int) (flow, edge, error) {
	sel, err := iv.get(fr, k.Selector)
	if err != nil {
		return flowNext, edge{}, err
	}
	ss, ok := sel.(scalar)
	if !ok || (ss.k != ir.ScalarSint && ss.k != ir.ScalarUint) {
		return flowNext, edge{}, illFormed("Switch selector is %s in %q", shapeName(sel), fr.fn.Name)
	}
	start, def := -1, -1
	for i := range k.Cases {
		switch v := k.Cases[i].Value.(type) {
		case ir.SwitchValueI32:
			if ss.k != ir.ScalarSint {
				return flowNext, edge{}, illFormed("Switch on %s with an i32 case value in %q", kindName(ss.k), fr.fn.Name)
			}
			if start < 0 && uint32(int32(v)) == ss.b {
				start = i
			}
		case ir.SwitchValueU32:
			if ss.k != ir.ScalarUint {
				return flowNext, edge{}, illFormed("Switch on %s with a u32 case value in %q", kindName(ss.k), fr.fn.Name)
			}
			if start < 0 && uint32(v) == ss.b {
				start = i
			}
		case ir.SwitchValueDefault:
			if def >= 0 {
				return flowNext, edge{}, illFormed("Switch with two default cases in %q", fr.fn.Name)
			}
			def = i
		default:
			return flowNext, edge{}, illFormed("Switch case value %T in %q", v, fr.fn.Name)
		}
	}
	if start < 0 {
		start = def
	}
	if start < 0 {
		return flowNext, edge{}, illFormed("Switch without a default case in %q", fr.fn.Name)
	}
	for i := start; i < len(k.Cases); i++ {
		fl, err := iv.execBlock(fr, k.Cases[i].Body, edge{}, depth+1)
		if err != nil {
			return flowNext, edge{}, err
		}
		exit := edge{kind: edgeSwitchCase, idx: uint32(i)}
		switch fl {
		case flowBreak:
			return flowNext, exit, nil
		case flowContinue, flowReturn:
			return fl, edge{}, nil
		}
		if !k.Cases[i].FallThrough {
			return flowNext, exit, nil
		}
		if i+1 == len(k.Cases) {
			return flowNext, edge{}, illFormed("last Switch case falls through in %q", fr.fn.Name)
		}
		iv.cov("switch.fallthrough")
	}
	return flowNext, edge{}, nil
}

func (iv *invocation) execLoop(fr *frame, k ir.StmtLoop, depth int) (flow, error) {
	entry := edge{kind: edgeLoopInit}
	for {
		if err := iv.step(); err != nil {
			return flowNext, err
		}
		fl, err := iv.execBlock(fr, k.Body, entry, depth+1)
		if err != nil {
			return flowNext, err
		}
		switch fl {
		case flowBreak:
			return flowNext, nil
		case flowReturn:
			return flowReturn, nil
		}
		fl, err = iv.execBlock(fr, k.Continuing, edge{}, depth+1)
		if err != nil {
			return flowNext, err
		}
		if fl != flowNext {
			return flowNext, illFormed("break/continue/return inside a continuing block in %q", fr.fn.Name)
		}
		if k.BreakIf != nil {
			c, err := iv.get(fr, *k.BreakIf)
			if err != nil {
				return flowNext, err
			}
			cs, ok := c.(scalar)
			if !ok || cs.k != ir.ScalarBool {
				return flowNext, illFormed("break-if condition is %s in %q", shapeName(c), fr.fn.Name)
			}
			if cs.b != 0 {
				iv.cov("loop.break-if")
				return flowNext, nil
			}
		}
		entry = edge{kind: edgeLoopBack}
	}
}

func atomicName(f ir.AtomicFunction) string {
	switch x := f.(type) {
	case ir.AtomicAdd:
		return "Add"
	case ir.AtomicSubtract:
		return "Subtract"
	case ir.AtomicAnd:
		return "And"
	case ir.AtomicExclusiveOr:
		return "ExclusiveOr"
	case ir.AtomicInclusiveOr:
		return "InclusiveOr"
	case ir.AtomicMin:
		return "Min"
	case ir.AtomicMax:
		return "Max"
	case ir.AtomicExchange:
		if x.Compare != nil {
			return "CompareExchange"
		}
		return "Exchange"
	case ir.AtomicStore:
		return "Store"
	case ir.AtomicLoad:
		return "Load"
	}
	return "?"
}

func (iv *invocation) execAtomic(fr *frame, k ir.StmtAtomic) error {
	iv.cov("atomic." + atomicName(k.Fun))
	p, err := iv.get(fr, k.Pointer)
	if err != nil {
		return err
	}
	pp, ok := p.(pointer)
	if !ok {
		return illFormed("Atomic through a %s in %q", shapeName(p), fr.fn.Name)
	}
	if pp.r.isBuf {
		if _, isAtomic := pp.r.ty.(ir.AtomicType); !isAtomic {
			return illFormed("Atomic on a pointer to %T (%s)", pp.r.ty, pp.r.name)
		}
	}
	if pp.r.oob {
		// out-of-range location: report, do nothing, the result is zero
		iv.trap(xrt.TrapOOB, "atomic through out-of-range index into %s", pp.r.name)
	}
	if pp.r.readonly {
		if _, isLoad := k.Fun.(ir.AtomicLoad); !isLoad {
			return illFormed("Atomic %s on read-only variable %s", atomicName(k.Fun), pp.r.name)
		}
	}
	plain := pp.r
	plain.oob = false // already reported above; read the clamped location
	oldV, err := iv.load(plain)
	if err != nil {
		return err
	}
	old, ok := oldV.(scalar)
	if !ok || old.k == ir.ScalarBool {
		return illFormed("Atomic on a location holding %s (%s)", shapeName(oldV), pp.r.name)
	}
	var operand scalar
	if _, isLoad := k.Fun.(ir.AtomicLoad); !isLoad {
		v, err := iv.get(fr, k.Value)
		if err != nil {
			return err
		}
		s, ok := v.(scalar)
		if !ok || s.k != old.k {
			return illFormed("Atomic %s of %s on a %s location (%s)", atomicName(k.Fun), shapeName(v), kindName(old.k), pp.r.name)
		}
		operand = s
	}
	intOnly := func() error {
		if old.k == ir.ScalarFloat {
			return illFormed("Atomic %s on f32", atomicName(k.Fun))
		}
		return nil
	}
	newV := old
	write := true
	var result val = old
	switch f := k.Fun.(type) {
	case ir.AtomicAdd:
		if old.k == ir.ScalarFloat {
			newV.b = bitsOf(fadd(f32of(old.b), f32of(operand.b)))
		} else {
			newV.b = old.b + operand.b
		}
	case ir.AtomicSubtract:
		if old.k == ir.ScalarFloat {
			newV.b = bitsOf(fsub(f32of(old.b), f32of(operand.b)))
		} else {
			newV.b = old.b - operand.b
		}
	case ir.AtomicAnd:
		if err := intOnly(); err != nil {
			return err
		}
		newV.b = old.b & operand.b
	case ir.AtomicExclusiveOr:
		if err := intOnly(); err != nil {
			return err
		}
		newV.b = old.b ^ operand.b
	case ir.AtomicInclusiveOr:
		if err := intOnly(); err != nil {
			return err
		}
		newV.b = old.b | operand.b
	case ir.AtomicMin:
		newV.b = minmax(true, old.k, old.b, operand.b)
	case ir.AtomicMax:
		newV.b = minmax(false, old.k, old.b, operand.b)
	case ir.AtomicExchange:
		if f.Compare == nil {
			newV.b = operand.b
			break
		}
		cv, err := iv.get(fr, *f.Compare)
		if err != nil {
			return err
		}
		cs, ok := cv.(scalar)
		if !ok || cs.k != old.k {
			return illFormed("Atomic compare-exchange comparing %s with a %s location", shapeName(cv), kindName(old.k))
		}
		// The comparison is on the stored bits for integers and by value for floats.
		exchanged := old.b == cs.b
		if old.k == ir.ScalarFloat {
			exchanged = f32of(old.b) == f32of(cs.b)
		}
		if exchanged {
			newV.b = operand.b
		} else {
			write = false
		}
		result = strct{f: []val{old, boolv(exchanged)}}
	case ir.AtomicStore:
		newV.b = operand.b
		result = nil
	case ir.AtomicLoad:
		write = false
	default:
		return unsupported("atomic function %T", k.Fun)
	}
	if pp.r.oob {
		write = false
		if s, isS := result.(scalar); isS {
			result = scalar{k: s.k}
		}
	}
	if write {
		if err := iv.store(pp.r, newV); err != nil {
			return err
		}
	}
	if k.Result != nil {
		if result == nil {
			return illFormed("Atomic %s binds a result", atomicName(k.Fun))
		}
		e, isRes := exprAt(fr.fn, *k.Result).(ir.ExprAtomicResult)
		if !isRes {
			return illFormed("Atomic result %d in %q is not an AtomicResult", *k.Result, fr.fn.Name)
		}
		if !iv.in.conformsTo(result, e.Ty) {
			return illFormed("Atomic %s result is %s, AtomicResult type %d disagrees", atomicName(k.Fun), shapeName(result), e.Ty)
		}
		return iv.bindResult(fr, *k.Result, result, "AtomicResult")
	}
	return nil
}

func exprAt(fn *ir.Function, h ir.ExpressionHandle) ir.ExpressionKind {
	if int(h) >= len(fn.Expressions) {
		return nil
	}
	return fn.Expressions[h].Kind
}
