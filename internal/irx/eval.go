package irx

import (
	"fmt"
	"math"

	"github.com/gogpu/naga/ir"
	"verif/internal/xrt"
)

// getter fetches the value of an operand expression in the arena the current
// expression lives in (a function's arena or the module's global arena).
type getter func(h ir.ExpressionHandle) (val, error)

// conforms reports whether v has the dynamic shape of type t.
func (in *interp) conforms(v val, t ir.TypeInner, depth int) bool {
	if depth > 64 {
		return false
	}
	switch x := t.(type) {
	case ir.ScalarType:
		s, ok := v.(scalar)
		return ok && s.k == x.Kind
	case ir.AtomicType:
		s, ok := v.(scalar)
		return ok && s.k == x.Scalar.Kind
	case ir.VectorType:
		s, ok := v.(vector)
		return ok && s.k == x.Scalar.Kind && s.n == int(x.Size)
	case ir.MatrixType:
		s, ok := v.(matrix)
		return ok && s.cols == int(x.Columns) && s.rows == int(x.Rows)
	case ir.ArrayType:
		s, ok := v.(array)
		if !ok || x.Size.Constant == nil || len(s.e) != int(*x.Size.Constant) {
			return false
		}
		bt, err := in.inner(x.Base)
		if err != nil {
			return false
		}
		for i := range s.e {
			if !in.conforms(s.e[i], bt, depth+1) {
				return false
			}
		}
		return true
	case ir.StructType:
		s, ok := v.(strct)
		if !ok || len(s.f) != len(x.Members) {
			return false
		}
		for i := range s.f {
			mt, err := in.inner(x.Members[i].Type)
			if err != nil || !in.conforms(s.f[i], mt, depth+1) {
				return false
			}
		}
		return true
	case ir.PointerType, ir.ValuePointerType:
		_, ok := v.(pointer)
		return ok
	}
	return false
}

func (in *interp) conformsTo(v val, h ir.TypeHandle) bool {
	t, err := in.inner(h)
	if err != nil {
		return false
	}
	return in.conforms(v, t, 0)
}

func (iv *invocation) literal(l ir.LiteralValue) (val, error) {
	switch x := l.(type) {
	case ir.LiteralAbstractFloat:
		// Abstract literals must not survive lowering. Within the supported
		// subset (no f16) an abstract float can only concretise to f32, so the
		// value is unambiguous; the defect is reported.
		iv.trapOnce(xrt.TrapType, "abstract-float literal left in the IR")
		iv.cov("ir-odd.abstract-literal")
		return f32v(float32(float64(x))), nil
	case ir.LiteralF32:
		return f32v(float32(x)), nil
	case ir.LiteralU32:
		return u32v(uint32(x)), nil
	case ir.LiteralI32:
		return i32v(int32(x)), nil
	case ir.LiteralBool:
		return boolv(bool(x)), nil
	case ir.LiteralF64:
		return nil, unsupported("f64 literal")
	case ir.LiteralF16:
		return nil, unsupported("f16 literal")
	case ir.LiteralU64, ir.LiteralI64:
		return nil, unsupported("64-bit integer literal")
	case ir.LiteralAbstractInt:
		return nil, unsupported("abstract-int literal in IR")
	case nil:
		return nil, illFormed("literal with nil value")
	}
	return nil, unsupported("literal %T", l)
}

// evalPure evaluates the expression kinds that need no function activation.
// handled is false for the other kinds.
func (iv *invocation) evalPure(kind ir.ExpressionKind, get getter) (v val, handled bool, err error) {
	in := iv.in
	switch k := kind.(type) {
	case ir.Literal:
		iv.cov("expr.Literal")
		v, err = iv.literal(k.Value)
		return v, true, err
	case ir.ExprConstant:
		iv.cov("expr.Constant")
		v, err = iv.constant(k.Constant)
		return v, true, err
	case ir.ExprOverride:
		iv.cov("expr.Override")
		v, err = iv.override(k.Override)
		return v, true, err
	case ir.ExprZeroValue:
		iv.cov("expr.ZeroValue")
		v, err = in.zeroOf(k.Type)
		return v, true, err
	case ir.ExprCompose:
		iv.cov("expr.Compose")
		comps := make([]val, len(k.Components))
		for i, c := range k.Components {
			if comps[i], err = get(c); err != nil {
				return nil, true, err
			}
		}
		v, err = iv.compose(k.Type, comps)
		return v, true, err
	case ir.ExprAccess:
		base, err := get(k.Base)
		if err != nil {
			return nil, true, err
		}
		idx, err := get(k.Index)
		if err != nil {
			return nil, true, err
		}
		is, ok := idx.(scalar)
		if !ok || (is.k != ir.ScalarSint && is.k != ir.ScalarUint) {
			return nil, true, illFormed("Access index is %s", shapeName(idx))
		}
		// A negative i32 index is out of range; as u32 it is >= any length.
		if p, isPtr := base.(pointer); isPtr {
			iv.cov("expr.Access.pointer")
			r, err := iv.index(p.r, is.b, false)
			return pointer{r}, true, err
		}
		iv.cov("expr.Access.value")
		v, err = iv.indexValue(base, is.b, false)
		return v, true, err
	case ir.ExprAccessIndex:
		base, err := get(k.Base)
		if err != nil {
			return nil, true, err
		}
		if p, isPtr := base.(pointer); isPtr {
			iv.cov("expr.AccessIndex.pointer")
			r, err := iv.index(p.r, k.Index, true)
			return pointer{r}, true, err
		}
		iv.cov("expr.AccessIndex.value")
		v, err = iv.indexValue(base, k.Index, true)
		return v, true, err
	case ir.ExprSplat:
		iv.cov("expr.Splat")
		x, err := get(k.Value)
		if err != nil {
			return nil, true, err
		}
		s, ok := x.(scalar)
		if !ok {
			return nil, true, illFormed("Splat of %s", shapeName(x))
		}
		if k.Size < 2 || k.Size > 4 {
			return nil, true, illFormed("Splat size %d", k.Size)
		}
		return splat(s, int(k.Size)), true, nil
	case ir.ExprSwizzle:
		iv.cov("expr.Swizzle")
		x, err := get(k.Vector)
		if err != nil {
			return nil, true, err
		}
		src, ok := x.(vector)
		if !ok {
			return nil, true, illFormed("Swizzle of %s", shapeName(x))
		}
		if k.Size < 2 || k.Size > 4 {
			return nil, true, illFormed("Swizzle size %d", k.Size)
		}
		out := vector{k: src.k, n: int(k.Size)}
		for i := 0; i < out.n; i++ {
			c := int(k.Pattern[i])
			if c >= src.n {
				return nil, true, illFormed("Swizzle component %d of vec%d", c, src.n)
			}
			out.c[i] = src.c[c]
		}
		return out, true, nil
	case ir.ExprUnary:
		x, err := get(k.Expr)
		if err != nil {
			return nil, true, err
		}
		v, err = iv.unary(k.Op, x)
		return v, true, err
	case ir.ExprBinary:
		l, err := get(k.Left)
		if err != nil {
			return nil, true, err
		}
		r, err := get(k.Right)
		if err != nil {
			return nil, true, err
		}
		v, err = iv.binary(k.Op, l, r)
		return v, true, err
	case ir.ExprSelect:
		iv.cov("expr.Select")
		c, err := get(k.Condition)
		if err != nil {
			return nil, true, err
		}
		a, err := get(k.Accept)
		if err != nil {
			return nil, true, err
		}
		r, err := get(k.Reject)
		if err != nil {
			return nil, true, err
		}
		v, err = selectVal(c, a, r)
		return v, true, err
	case ir.ExprRelational:
		x, err := get(k.Argument)
		if err != nil {
			return nil, true, err
		}
		v, err = iv.relational(k.Fun, x)
		return v, true, err
	case ir.ExprMath:
		args := make([]val, 0, 4)
		x, err := get(k.Arg)
		if err != nil {
			return nil, true, err
		}
		args = append(args, x)
		for _, p := range []*ir.ExpressionHandle{k.Arg1, k.Arg2, k.Arg3} {
			if p == nil {
				break
			}
			if x, err = get(*p); err != nil {
				return nil, true, err
			}
			args = append(args, x)
		}
		v, err = iv.mathFn(k.Fun, args)
		return v, true, err
	case ir.ExprAs:
		x, err := get(k.Expr)
		if err != nil {
			return nil, true, err
		}
		v, err = iv.as(k, x)
		return v, true, err
	}
	return nil, false, nil
}

func splat(s scalar, n int) vector {
	v := vector{k: s.k, n: n}
	for i := 0; i < n; i++ {
		v.c[i] = s.b
	}
	return v
}

// indexValue indexes a value (not a pointer). Out of range: TrapOOB, clamp.
func (iv *invocation) indexValue(base val, idx uint32, constant bool) (val, error) {
	n := 0
	switch x := base.(type) {
	case vector:
		n = x.n
	case matrix:
		n = x.cols
	case array:
		n = len(x.e)
	case strct:
		if !constant {
			return nil, illFormed("dynamic index into a struct value")
		}
		if int(idx) >= len(x.f) {
			return nil, illFormed("member index %d beyond struct value of %d members", idx, len(x.f))
		}
		return x.f[idx], nil
	default:
		return nil, illFormed("indexing into a %s value", shapeName(base))
	}
	i := int(idx)
	if int64(idx) >= int64(n) {
		iv.trap(xrt.TrapOOB, "index %d into %s value", idx, shapeName(base))
		i = n - 1
		if i < 0 {
			return nil, illFormed("indexing into empty %s", shapeName(base))
		}
	}
	switch x := base.(type) {
	case vector:
		return scalar{x.k, x.c[i]}, nil
	case matrix:
		return x.column(i), nil
	case array:
		return x.e[i], nil
	}
	return nil, illFormed("indexing into a %s value", shapeName(base))
}

func (iv *invocation) compose(ty ir.TypeHandle, comps []val) (val, error) {
	in := iv.in
	t, err := in.inner(ty)
	if err != nil {
		return nil, err
	}
	switch x := t.(type) {
	case ir.VectorType:
		if err := checkScalar(x.Scalar); err != nil {
			return nil, err
		}
		out := vector{k: x.Scalar.Kind, n: int(x.Size)}
		n := 0
		put := func(k ir.ScalarKind, b uint32) error {
			if k != x.Scalar.Kind {
				return illFormed("Compose of vec%d<%s> with a %s component", x.Size, kindName(x.Scalar.Kind), kindName(k))
			}
			if n >= out.n {
				return illFormed("Compose of vec%d with too many components", x.Size)
			}
			out.c[n] = b
			n++
			return nil
		}
		for _, c := range comps {
			switch cv := c.(type) {
			case scalar:
				if err := put(cv.k, cv.b); err != nil {
					return nil, err
				}
			case vector:
				for i := 0; i < cv.n; i++ {
					if err := put(cv.k, cv.c[i]); err != nil {
						return nil, err
					}
				}
			default:
				return nil, illFormed("Compose of a vector with a %s component", shapeName(c))
			}
		}
		if n != out.n {
			return nil, illFormed("Compose of vec%d with %d scalar components", x.Size, n)
		}
		return out, nil
	case ir.MatrixType:
		if x.Scalar.Kind != ir.ScalarFloat {
			return nil, illFormed("matrix of %s", kindName(x.Scalar.Kind))
		}
		if err := checkScalar(x.Scalar); err != nil {
			return nil, err
		}
		out := matrix{cols: int(x.Columns), rows: int(x.Rows)}
		var flat []uint32
		for _, c := range comps {
			switch cv := c.(type) {
			case scalar:
				if cv.k != ir.ScalarFloat {
					return nil, illFormed("Compose of a matrix with a %s component", kindName(cv.k))
				}
				flat = append(flat, cv.b)
			case vector:
				if cv.k != ir.ScalarFloat {
					return nil, illFormed("Compose of a matrix with a %s component", shapeName(c))
				}
				if cv.n != out.rows {
					return nil, illFormed("Compose of mat%dx%d with a vec%d column", out.cols, out.rows, cv.n)
				}
				flat = append(flat, cv.c[:cv.n]...)
			default:
				return nil, illFormed("Compose of a matrix with a %s component", shapeName(c))
			}
		}
		if len(flat) != out.cols*out.rows {
			return nil, illFormed("Compose of mat%dx%d with %d scalar components", out.cols, out.rows, len(flat))
		}
		for c := 0; c < out.cols; c++ {
			copy(out.c[c][:out.rows], flat[c*out.rows:])
		}
		return out, nil
	case ir.ArrayType:
		if x.Size.Constant == nil {
			return nil, illFormed("Compose of a runtime-sized array")
		}
		if int(*x.Size.Constant) != len(comps) {
			return nil, illFormed("Compose of array[%d] with %d components", *x.Size.Constant, len(comps))
		}
		bt, err := in.inner(x.Base)
		if err != nil {
			return nil, err
		}
		e := make([]val, len(comps))
		for i, c := range comps {
			if !in.conforms(c, bt, 0) {
				return nil, illFormed("Compose of array: component %d is %s, element type is %T", i, shapeName(c), bt)
			}
			e[i] = clone(c)
		}
		return array{e}, nil
	case ir.StructType:
		if len(x.Members) != len(comps) {
			return nil, illFormed("Compose of struct[%d] with %d components", len(x.Members), len(comps))
		}
		f := make([]val, len(comps))
		for i, c := range comps {
			mt, err := in.inner(x.Members[i].Type)
			if err != nil {
				return nil, err
			}
			if !in.conforms(c, mt, 0) {
				return nil, illFormed("Compose of struct: component %d is %s, member %q is %T", i, shapeName(c), x.Members[i].Name, mt)
			}
			f[i] = clone(c)
		}
		return strct{f}, nil
	case ir.ScalarType:
		// Not produced by naga's front end; a one-component Compose of a scalar is harmless.
		if len(comps) == 1 && in.conforms(comps[0], x, 0) {
			return comps[0], nil
		}
	}
	return nil, illFormed("Compose of type %T with %d components", t, len(comps))
}

var unaryNames = [...]string{ir.UnaryNegate: "Negate", ir.UnaryLogicalNot: "LogicalNot", ir.UnaryBitwiseNot: "BitwiseNot"}

func (iv *invocation) unary(op ir.UnaryOperator, x val) (val, error) {
	one := func(s scalar) (scalar, error) {
		switch op {
		case ir.UnaryNegate:
			switch s.k {
			case ir.ScalarFloat:
				return scalar{s.k, s.b ^ 0x80000000}, nil
			case ir.ScalarSint:
				return scalar{s.k, -s.b}, nil
			}
		case ir.UnaryLogicalNot:
			if s.k == ir.ScalarBool {
				return scalar{s.k, (s.b ^ 1) & 1}, nil
			}
		case ir.UnaryBitwiseNot:
			if s.k == ir.ScalarSint || s.k == ir.ScalarUint {
				return scalar{s.k, ^s.b}, nil
			}
		}
		return scalar{}, illFormed("unary operator %d on %s", op, kindName(s.k))
	}
	name := "?"
	if int(op) < len(unaryNames) {
		name = unaryNames[op]
	}
	switch v := x.(type) {
	case scalar:
		iv.cov("expr.Unary." + name + "." + kindName(v.k))
		return one(v)
	case vector:
		iv.cov("expr.Unary." + name + "." + kindName(v.k))
		out := v
		for i := 0; i < v.n; i++ {
			s, err := one(scalar{v.k, v.c[i]})
			if err != nil {
				return nil, err
			}
			out.c[i] = s.b
		}
		return out, nil
	case matrix:
		if op == ir.UnaryNegate {
			iv.cov("expr.Unary.Negate.mat")
			out := v
			for c := 0; c < v.cols; c++ {
				for r := 0; r < v.rows; r++ {
					out.c[c][r] ^= 0x80000000
				}
			}
			return out, nil
		}
	}
	return nil, illFormed("unary operator %s on %s", name, shapeName(x))
}

func selectVal(c, a, r val) (val, error) {
	if !sameShape(a, r) {
		return nil, illFormed("Select between %s and %s", shapeName(a), shapeName(r))
	}
	switch cv := c.(type) {
	case scalar:
		if cv.k != ir.ScalarBool {
			return nil, illFormed("Select condition is %s", shapeName(c))
		}
		if cv.b != 0 {
			return a, nil
		}
		return r, nil
	case vector:
		if cv.k != ir.ScalarBool {
			return nil, illFormed("Select condition is %s", shapeName(c))
		}
		av, ok := a.(vector)
		if !ok || av.n != cv.n {
			return nil, illFormed("Select with %s condition between %s values", shapeName(c), shapeName(a))
		}
		rv := r.(vector)
		out := av
		for i := 0; i < cv.n; i++ {
			if cv.c[i] == 0 {
				out.c[i] = rv.c[i]
			}
		}
		return out, nil
	}
	return nil, illFormed("Select condition is %s", shapeName(c))
}

func (iv *invocation) relational(fun ir.RelationalFunction, x val) (val, error) {
	switch fun {
	case ir.RelationalAll, ir.RelationalAny:
		name := "expr.Relational.All"
		if fun == ir.RelationalAny {
			name = "expr.Relational.Any"
		}
		iv.cov(name)
		switch v := x.(type) {
		case scalar:
			if v.k == ir.ScalarBool {
				return v, nil
			}
		case vector:
			if v.k == ir.ScalarBool {
				all, any := true, false
				for i := 0; i < v.n; i++ {
					if v.c[i] != 0 {
						any = true
					} else {
						all = false
					}
				}
				if fun == ir.RelationalAll {
					return boolv(all), nil
				}
				return boolv(any), nil
			}
		}
	case ir.RelationalIsNan, ir.RelationalIsInf:
		name := "expr.Relational.IsNan"
		if fun == ir.RelationalIsInf {
			name = "expr.Relational.IsInf"
		}
		iv.cov(name)
		test := func(b uint32) uint32 {
			exp := b & 0x7F800000
			man := b & 0x007FFFFF
			if exp != 0x7F800000 {
				return 0
			}
			if (fun == ir.RelationalIsNan) == (man != 0) {
				return 1
			}
			return 0
		}
		switch v := x.(type) {
		case scalar:
			if v.k == ir.ScalarFloat {
				return scalar{ir.ScalarBool, test(v.b)}, nil
			}
		case vector:
			if v.k == ir.ScalarFloat {
				out := vector{k: ir.ScalarBool, n: v.n}
				for i := 0; i < v.n; i++ {
					out.c[i] = test(v.c[i])
				}
				return out, nil
			}
		}
	default:
		return nil, illFormed("relational function %d", fun)
	}
	return nil, illFormed("relational function %d on %s", fun, shapeName(x))
}

func (iv *invocation) as(k ir.ExprAs, x val) (val, error) {
	if k.Convert != nil {
		w := *k.Convert
		if k.Kind != ir.ScalarBool && w != 4 {
			return nil, unsupported("conversion to %d-bit %s", int(w)*8, kindName(k.Kind))
		}
		if k.Kind == ir.ScalarAbstractInt || k.Kind == ir.ScalarAbstractFloat {
			return nil, unsupported("conversion to abstract type")
		}
		switch v := x.(type) {
		case scalar:
			iv.cov("expr.As.convert." + kindName(v.k) + "." + kindName(k.Kind))
			return convertScalar(v, k.Kind)
		case vector:
			iv.cov("expr.As.convert." + kindName(v.k) + "." + kindName(k.Kind))
			out := vector{k: k.Kind, n: v.n}
			for i := 0; i < v.n; i++ {
				s, err := convertScalar(scalar{v.k, v.c[i]}, k.Kind)
				if err != nil {
					return nil, err
				}
				out.c[i] = s.b
			}
			return out, nil
		case matrix:
			if k.Kind == ir.ScalarFloat {
				iv.cov("expr.As.convert.mat")
				return v, nil
			}
		}
		return nil, illFormed("conversion of %s to %s", shapeName(x), kindName(k.Kind))
	}
	// bitcast
	okKind := func(s ir.ScalarKind) bool {
		return s == ir.ScalarSint || s == ir.ScalarUint || s == ir.ScalarFloat
	}
	if !okKind(k.Kind) {
		return nil, illFormed("bitcast to %s", kindName(k.Kind))
	}
	switch v := x.(type) {
	case scalar:
		if okKind(v.k) {
			iv.cov("expr.As.bitcast." + kindName(v.k) + "." + kindName(k.Kind))
			return scalar{k.Kind, v.b}, nil
		}
	case vector:
		if okKind(v.k) {
			iv.cov("expr.As.bitcast." + kindName(v.k) + "." + kindName(k.Kind))
			out := v
			out.k = k.Kind
			return out, nil
		}
	}
	return nil, illFormed("bitcast of %s to %s", shapeName(x), kindName(k.Kind))
}

// ---- binary ---------------------------------------------------------------------

func (iv *invocation) binary(op ir.BinaryOperator, l, r val) (val, error) {
	if _, ok := l.(pointer); ok {
		return nil, illFormed("binary %s with a pointer as left operand (missing Load)", binOpName(op))
	}
	if _, ok := r.(pointer); ok {
		return nil, illFormed("binary %s with a pointer as right operand (missing Load)", binOpName(op))
	}
	// matrix forms
	lm, lIsM := l.(matrix)
	rm, rIsM := r.(matrix)
	if lIsM || rIsM {
		iv.cov("expr.Binary." + binOpName(op) + ".mat")
		return matBinary(op, l, r, lm, lIsM, rm, rIsM)
	}
	resKind := func(k ir.ScalarKind) ir.ScalarKind {
		if isComparison(op) {
			return ir.ScalarBool
		}
		return k
	}
	isShift := op == ir.BinaryShiftLeft || op == ir.BinaryShiftRight
	check := func(lk, rk ir.ScalarKind) error {
		if isShift {
			if rk != ir.ScalarUint {
				return illFormed("shift amount is %s", kindName(rk))
			}
			return nil
		}
		if lk != rk {
			return illFormed("binary %s on %s and %s", binOpName(op), kindName(lk), kindName(rk))
		}
		return nil
	}
	switch a := l.(type) {
	case scalar:
		switch b := r.(type) {
		case scalar:
			if err := check(a.k, b.k); err != nil {
				return nil, err
			}
			iv.cov("expr.Binary." + binOpName(op) + "." + kindName(a.k))
			x, err := binScalar(op, a.k, a.b, b.b)
			return scalar{resKind(a.k), x}, err
		case vector:
			// scalar op vector: the scalar is splatted
			iv.cov("expr.Binary.splat")
			return iv.binary(op, splat(a, b.n), b)
		}
	case vector:
		switch b := r.(type) {
		case scalar:
			iv.cov("expr.Binary.splat")
			return iv.binary(op, a, splat(b, a.n))
		case vector:
			if a.n != b.n {
				return nil, illFormed("binary %s on vec%d and vec%d", binOpName(op), a.n, b.n)
			}
			if err := check(a.k, b.k); err != nil {
				return nil, err
			}
			iv.cov("expr.Binary." + binOpName(op) + "." + kindName(a.k))
			out := vector{k: resKind(a.k), n: a.n}
			for i := 0; i < a.n; i++ {
				x, err := binScalar(op, a.k, a.c[i], b.c[i])
				if err != nil {
					return nil, err
				}
				out.c[i] = x
			}
			return out, nil
		}
	}
	return nil, illFormed("binary %s on %s and %s", binOpName(op), shapeName(l), shapeName(r))
}

func matBinary(op ir.BinaryOperator, l, r val, lm matrix, lIsM bool, rm matrix, rIsM bool) (val, error) {
	switch op {
	case ir.BinaryAdd, ir.BinarySubtract:
		if lIsM && rIsM && lm.cols == rm.cols && lm.rows == rm.rows {
			out := lm
			for c := 0; c < lm.cols; c++ {
				for i := 0; i < lm.rows; i++ {
					x, y := f32of(lm.c[c][i]), f32of(rm.c[c][i])
					if op == ir.BinaryAdd {
						out.c[c][i] = bitsOf(fadd(x, y))
					} else {
						out.c[c][i] = bitsOf(fsub(x, y))
					}
				}
			}
			return out, nil
		}
	case ir.BinaryMultiply:
		switch {
		case lIsM && rIsM:
			// (rows x K) * (K x cols): left has K columns, right has K rows
			if lm.cols != rm.rows {
				break
			}
			out := matrix{cols: rm.cols, rows: lm.rows}
			for c := 0; c < out.cols; c++ {
				for i := 0; i < out.rows; i++ {
					var acc float32
					for k := 0; k < lm.cols; k++ {
						p := fmul(f32of(lm.c[k][i]), f32of(rm.c[c][k]))
						if k == 0 {
							acc = p
						} else {
							acc = fadd(acc, p)
						}
					}
					out.c[c][i] = bitsOf(acc)
				}
			}
			return out, nil
		case lIsM:
			switch b := r.(type) {
			case scalar:
				if b.k != ir.ScalarFloat {
					break
				}
				out := lm
				for c := 0; c < lm.cols; c++ {
					for i := 0; i < lm.rows; i++ {
						out.c[c][i] = bitsOf(fmul(f32of(lm.c[c][i]), f32of(b.b)))
					}
				}
				return out, nil
			case vector:
				// mat * column vector: vector has lm.cols components, result lm.rows
				if b.k != ir.ScalarFloat || b.n != lm.cols {
					break
				}
				out := vector{k: ir.ScalarFloat, n: lm.rows}
				for i := 0; i < lm.rows; i++ {
					var acc float32
					for k := 0; k < lm.cols; k++ {
						p := fmul(f32of(lm.c[k][i]), f32of(b.c[k]))
						if k == 0 {
							acc = p
						} else {
							acc = fadd(acc, p)
						}
					}
					out.c[i] = bitsOf(acc)
				}
				return out, nil
			}
		case rIsM:
			switch a := l.(type) {
			case scalar:
				if a.k != ir.ScalarFloat {
					break
				}
				out := rm
				for c := 0; c < rm.cols; c++ {
					for i := 0; i < rm.rows; i++ {
						out.c[c][i] = bitsOf(fmul(f32of(a.b), f32of(rm.c[c][i])))
					}
				}
				return out, nil
			case vector:
				// row vector * mat: vector has rm.rows components, result rm.cols
				if a.k != ir.ScalarFloat || a.n != rm.rows {
					break
				}
				out := vector{k: ir.ScalarFloat, n: rm.cols}
				for c := 0; c < rm.cols; c++ {
					var acc float32
					for k := 0; k < rm.rows; k++ {
						p := fmul(f32of(a.c[k]), f32of(rm.c[c][k]))
						if k == 0 {
							acc = p
						} else {
							acc = fadd(acc, p)
						}
					}
					out.c[c] = bitsOf(acc)
				}
				return out, nil
			}
		}
	}
	return nil, illFormed("binary %s on %s and %s", binOpName(op), shapeName(l), shapeName(r))
}

// ---- module-scope values ----------------------------------------------------------

// globalExpr evaluates an expression of the module's global arena (memoised:
// the arena is pure).
func (iv *invocation) globalExpr(h ir.ExpressionHandle) (val, error) {
	in := iv.in
	if int(h) >= len(in.m.GlobalExpressions) {
		return nil, illFormed("global expression handle %d out of range (%d)", h, len(in.m.GlobalExpressions))
	}
	if in.gstate[h] == 2 {
		return in.gvals[h], nil
	}
	if in.gstate[h] == 1 {
		return nil, illFormed("global expression %d depends on itself", h)
	}
	in.gstate[h] = 1
	defer func() {
		if in.gstate[h] == 1 {
			in.gstate[h] = 0
		}
	}()
	if err := iv.step(); err != nil {
		return nil, err
	}
	kind := in.m.GlobalExpressions[h].Kind
	v, handled, err := iv.evalPure(kind, iv.globalExpr)
	if err != nil {
		return nil, err
	}
	if !handled {
		return nil, illFormed("global expression %d of kind %T", h, kind)
	}
	in.gvals[h] = v
	in.gstate[h] = 2
	return v, nil
}

func (iv *invocation) constant(h ir.ConstantHandle) (val, error) {
	in := iv.in
	if int(h) >= len(in.m.Constants) {
		return nil, illFormed("constant handle %d out of range (%d)", h, len(in.m.Constants))
	}
	c := &in.m.Constants[h]
	// Init (into GlobalExpressions) is the canonical initialiser; Value is the fallback.
	if int(c.Init) < len(in.m.GlobalExpressions) {
		v, err := iv.globalExpr(c.Init)
		if err == nil && in.conformsTo(v, c.Type) {
			return v, nil
		}
		if c.Value == nil {
			if err != nil {
				return nil, fmt.Errorf("constant %q: %w", c.Name, err)
			}
			return nil, illFormed("constant %q: Init evaluates to %s, declared type %d disagrees", c.Name, shapeName(v), c.Type)
		}
	}
	return iv.constantValue(c, 0)
}

func (iv *invocation) constantValue(c *ir.Constant, depth int) (val, error) {
	in := iv.in
	if depth > 64 {
		return nil, illFormed("constant %q nests too deep", c.Name)
	}
	switch x := c.Value.(type) {
	case ir.ScalarValue:
		t, err := in.inner(c.Type)
		if err != nil {
			return nil, err
		}
		st, ok := t.(ir.ScalarType)
		if !ok {
			return nil, illFormed("constant %q: ScalarValue for type %T", c.Name, t)
		}
		if err := checkScalar(st); err != nil {
			return nil, err
		}
		if st.Kind != x.Kind {
			return nil, illFormed("constant %q: value kind %s, type kind %s", c.Name, kindName(x.Kind), kindName(st.Kind))
		}
		if st.Kind == ir.ScalarBool {
			return boolv(x.Bits != 0), nil
		}
		return scalar{st.Kind, uint32(x.Bits)}, nil
	case ir.ZeroConstantValue:
		return in.zeroOf(c.Type)
	case ir.CompositeValue:
		comps := make([]val, len(x.Components))
		for i, ch := range x.Components {
			if int(ch) >= len(in.m.Constants) {
				return nil, illFormed("constant %q: component handle %d out of range", c.Name, ch)
			}
			v, err := iv.constantValue(&in.m.Constants[ch], depth+1)
			if err != nil {
				return nil, err
			}
			comps[i] = v
		}
		return iv.compose(c.Type, comps)
	}
	return nil, illFormed("constant %q has neither a usable Init nor a Value", c.Name)
}

func (iv *invocation) override(h ir.OverrideHandle) (val, error) {
	in := iv.in
	if int(h) >= len(in.m.Overrides) {
		return nil, illFormed("override handle %d out of range (%d)", h, len(in.m.Overrides))
	}
	if in.ostate[h] == 2 {
		return in.ovals[h], nil
	}
	if in.ostate[h] == 1 {
		return nil, illFormed("override %q depends on itself", in.m.Overrides[h].Name)
	}
	o := &in.m.Overrides[h]
	t, err := in.inner(o.Ty)
	if err != nil {
		return nil, err
	}
	st, ok := t.(ir.ScalarType)
	if !ok {
		return nil, illFormed("override %q of non-scalar type %T", o.Name, t)
	}
	if err := checkScalar(st); err != nil {
		return nil, err
	}
	var out scalar
	if f, given := in.cfg.Overrides[o.Name]; given {
		s, err := overrideFromFloat(o.Name, f, st.Kind)
		if err != nil {
			return nil, err
		}
		out = s
	} else if o.Init != nil {
		in.ostate[h] = 1
		v, err := iv.globalExpr(*o.Init)
		in.ostate[h] = 0
		if err != nil {
			return nil, fmt.Errorf("override %q: %w", o.Name, err)
		}
		s, ok := v.(scalar)
		if !ok {
			return nil, illFormed("override %q: initialiser evaluates to %s", o.Name, shapeName(v))
		}
		if s.k != st.Kind {
			// The declared type and the initialiser disagree: ill-typed IR. Keep going
			// with the value converted as WGSL would, and say so.
			iv.trapOnce(xrt.TrapType, "override %q is declared %s but its Init expression evaluates to %s",
				o.Name, kindName(st.Kind), kindName(s.k))
			iv.cov("ir-odd.override-init-kind")
			if s, err = convertScalar(s, st.Kind); err != nil {
				return nil, err
			}
		}
		out = s
	} else {
		return nil, fmt.Errorf("override %q has no value: not in Config.Overrides and no initialiser", o.Name)
	}
	in.ovals[h] = out
	in.ostate[h] = 2
	return out, nil
}

func overrideFromFloat(name string, f float64, k ir.ScalarKind) (scalar, error) {
	if f != f || f > 1e300 || f < -1e300 {
		return scalar{}, fmt.Errorf("override %q: value %v is not finite", name, f)
	}
	switch k {
	case ir.ScalarBool:
		return boolv(f != 0), nil
	case ir.ScalarSint:
		t := math.Trunc(f)
		if t < -2147483648 || t > 2147483647 {
			return scalar{}, fmt.Errorf("override %q: value %v does not fit i32", name, f)
		}
		return i32v(int32(t)), nil
	case ir.ScalarUint:
		t := math.Trunc(f)
		if t < 0 || t > 4294967295 {
			return scalar{}, fmt.Errorf("override %q: value %v does not fit u32", name, f)
		}
		return u32v(uint32(t)), nil
	case ir.ScalarFloat:
		g := float32(f)
		if g > 3.4028234663852886e38 || g < -3.4028234663852886e38 {
			return scalar{}, fmt.Errorf("override %q: value %v does not fit f32", name, f)
		}
		return f32v(g), nil
	}
	return scalar{}, illFormed("override %q of kind %s", name, kindName(k))
}
