package irx

import (
	"math"
	"math/bits"

	"github.com/gogpu/naga/ir"
)

// Scalar semantics = WGSL run-time semantics. Every f32 operation is rounded
// to binary32 individually (the explicit float32 conversions prevent fusing).

func f32of(b uint32) float32  { return math.Float32frombits(b) }
func bitsOf(f float32) uint32 { return math.Float32bits(f) }

func fadd(a, b float32) float32 { return float32(a + b) }
func fsub(a, b float32) float32 { return float32(a - b) }
func fmul(a, b float32) float32 { return float32(a * b) }
func fdiv(a, b float32) float32 { return float32(a / b) }

// frem is the truncated remainder (sign of the dividend); exact.
func frem(a, b float32) float32 { return float32(math.Mod(float64(a), float64(b))) }

func idiv(a, b int32) int32 {
	if b == 0 {
		return a
	}
	if a == math.MinInt32 && b == -1 {
		return a
	}
	return a / b
}

func imod(a, b int32) int32 {
	if b == 0 {
		return 0
	}
	if a == math.MinInt32 && b == -1 {
		return 0
	}
	return a % b
}

func udiv(a, b uint32) uint32 {
	if b == 0 {
		return a
	}
	return a / b
}

func umod(a, b uint32) uint32 {
	if b == 0 {
		return 0
	}
	return a % b
}

// f2i converts with truncation toward zero and saturation; NaN gives 0.
func f2i(f float32) int32 {
	switch {
	case f != f:
		return 0
	case f >= 2147483648.0:
		return math.MaxInt32
	case f <= -2147483648.0:
		return math.MinInt32
	}
	return int32(f)
}

func f2u(f float32) uint32 {
	switch {
	case f != f:
		return 0
	case f >= 4294967296.0:
		return math.MaxUint32
	case f <= 0:
		return 0
	}
	return uint32(f)
}

var binOpNames = [...]string{
	ir.BinaryAdd: "Add", ir.BinarySubtract: "Subtract", ir.BinaryMultiply: "Multiply",
	ir.BinaryDivide: "Divide", ir.BinaryModulo: "Modulo",
	ir.BinaryEqual: "Equal", ir.BinaryNotEqual: "NotEqual", ir.BinaryLess: "Less",
	ir.BinaryLessEqual: "LessEqual", ir.BinaryGreater: "Greater", ir.BinaryGreaterEqual: "GreaterEqual",
	ir.BinaryAnd: "And", ir.BinaryExclusiveOr: "ExclusiveOr", ir.BinaryInclusiveOr: "InclusiveOr",
	ir.BinaryLogicalAnd: "LogicalAnd", ir.BinaryLogicalOr: "LogicalOr",
	ir.BinaryShiftLeft: "ShiftLeft", ir.BinaryShiftRight: "ShiftRight",
}

func binOpName(op ir.BinaryOperator) string {
	if int(op) < len(binOpNames) {
		return binOpNames[op]
	}
	return "?"
}

func isComparison(op ir.BinaryOperator) bool {
	return op >= ir.BinaryEqual && op <= ir.BinaryGreaterEqual
}

// binScalar applies op to two scalars of kind k (for shifts rb is the u32
// amount). The result kind is bool for comparisons, k otherwise.
func binScalar(op ir.BinaryOperator, k ir.ScalarKind, a, b uint32) (uint32, error) {
	b2u := func(x bool) uint32 {
		if x {
			return 1
		}
		return 0
	}
	switch k {
	case ir.ScalarFloat:
		x, y := f32of(a), f32of(b)
		switch op {
		case ir.BinaryAdd:
			return bitsOf(fadd(x, y)), nil
		case ir.BinarySubtract:
			return bitsOf(fsub(x, y)), nil
		case ir.BinaryMultiply:
			return bitsOf(fmul(x, y)), nil
		case ir.BinaryDivide:
			return bitsOf(fdiv(x, y)), nil
		case ir.BinaryModulo:
			return bitsOf(frem(x, y)), nil
		case ir.BinaryEqual:
			return b2u(x == y), nil
		case ir.BinaryNotEqual:
			return b2u(x != y), nil
		case ir.BinaryLess:
			return b2u(x < y), nil
		case ir.BinaryLessEqual:
			return b2u(x <= y), nil
		case ir.BinaryGreater:
			return b2u(x > y), nil
		case ir.BinaryGreaterEqual:
			return b2u(x >= y), nil
		}
	case ir.ScalarSint:
		x, y := int32(a), int32(b)
		switch op {
		case ir.BinaryAdd:
			return a + b, nil
		case ir.BinarySubtract:
			return a - b, nil
		case ir.BinaryMultiply:
			return a * b, nil
		case ir.BinaryDivide:
			return uint32(idiv(x, y)), nil
		case ir.BinaryModulo:
			return uint32(imod(x, y)), nil
		case ir.BinaryEqual:
			return b2u(x == y), nil
		case ir.BinaryNotEqual:
			return b2u(x != y), nil
		case ir.BinaryLess:
			return b2u(x < y), nil
		case ir.BinaryLessEqual:
			return b2u(x <= y), nil
		case ir.BinaryGreater:
			return b2u(x > y), nil
		case ir.BinaryGreaterEqual:
			return b2u(x >= y), nil
		case ir.BinaryAnd:
			return a & b, nil
		case ir.BinaryExclusiveOr:
			return a ^ b, nil
		case ir.BinaryInclusiveOr:
			return a | b, nil
		case ir.BinaryShiftLeft:
			return a << (b & 31), nil
		case ir.BinaryShiftRight:
			return uint32(x >> (b & 31)), nil
		}
	case ir.ScalarUint:
		switch op {
		case ir.BinaryAdd:
			return a + b, nil
		case ir.BinarySubtract:
			return a - b, nil
		case ir.BinaryMultiply:
			return a * b, nil
		case ir.BinaryDivide:
			return udiv(a, b), nil
		case ir.BinaryModulo:
			return umod(a, b), nil
		case ir.BinaryEqual:
			return b2u(a == b), nil
		case ir.BinaryNotEqual:
			return b2u(a != b), nil
		case ir.BinaryLess:
			return b2u(a < b), nil
		case ir.BinaryLessEqual:
			return b2u(a <= b), nil
		case ir.BinaryGreater:
			return b2u(a > b), nil
		case ir.BinaryGreaterEqual:
			return b2u(a >= b), nil
		case ir.BinaryAnd:
			return a & b, nil
		case ir.BinaryExclusiveOr:
			return a ^ b, nil
		case ir.BinaryInclusiveOr:
			return a | b, nil
		case ir.BinaryShiftLeft:
			return a << (b & 31), nil
		case ir.BinaryShiftRight:
			return a >> (b & 31), nil
		}
	case ir.ScalarBool:
		switch op {
		case ir.BinaryEqual:
			return b2u(a == b), nil
		case ir.BinaryNotEqual:
			return b2u(a != b), nil
		case ir.BinaryAnd, ir.BinaryLogicalAnd:
			return a & b & 1, nil
		case ir.BinaryInclusiveOr, ir.BinaryLogicalOr:
			return (a | b) & 1, nil
		}
	}
	return 0, illFormed("binary %s on %s operands", binOpName(op), kindName(k))
}

// convertScalar implements ExprAs with Convert set (value conversion).
func convertScalar(s scalar, to ir.ScalarKind) (scalar, error) {
	switch to {
	case ir.ScalarFloat:
		switch s.k {
		case ir.ScalarFloat:
			return s, nil
		case ir.ScalarSint:
			return f32v(float32(int32(s.b))), nil
		case ir.ScalarUint:
			return f32v(float32(s.b)), nil
		case ir.ScalarBool:
			if s.b != 0 {
				return f32v(1), nil
			}
			return f32v(0), nil
		}
	case ir.ScalarSint:
		switch s.k {
		case ir.ScalarFloat:
			return i32v(f2i(f32of(s.b))), nil
		case ir.ScalarSint, ir.ScalarUint:
			return scalar{ir.ScalarSint, s.b}, nil
		case ir.ScalarBool:
			return scalar{ir.ScalarSint, s.b & 1}, nil
		}
	case ir.ScalarUint:
		switch s.k {
		case ir.ScalarFloat:
			return u32v(f2u(f32of(s.b))), nil
		case ir.ScalarSint, ir.ScalarUint:
			return scalar{ir.ScalarUint, s.b}, nil
		case ir.ScalarBool:
			return scalar{ir.ScalarUint, s.b & 1}, nil
		}
	case ir.ScalarBool:
		switch s.k {
		case ir.ScalarFloat:
			return boolv(f32of(s.b) != 0), nil
		case ir.ScalarSint, ir.ScalarUint:
			return boolv(s.b != 0), nil
		case ir.ScalarBool:
			return s, nil
		}
	}
	return scalar{}, illFormed("conversion from %s to %s", kindName(s.k), kindName(to))
}

// ---- integer bit builtins (WGSL rules) ---------------------------------------

func firstLeadingBitU(x uint32) uint32 {
	if x == 0 {
		return 0xFFFFFFFF
	}
	return uint32(31 - bits.LeadingZeros32(x))
}

func firstLeadingBitI(x int32) uint32 {
	if x == 0 || x == -1 {
		return 0xFFFFFFFF
	}
	if x < 0 {
		return firstLeadingBitU(^uint32(x))
	}
	return firstLeadingBitU(uint32(x))
}

func firstTrailingBit(x uint32) uint32 {
	if x == 0 {
		return 0xFFFFFFFF
	}
	return uint32(bits.TrailingZeros32(x))
}

func extractBitsU(e, offset, count uint32) uint32 {
	o := offset
	if o > 32 {
		o = 32
	}
	c := count
	if c > 32-o {
		c = 32 - o
	}
	if c == 0 {
		return 0
	}
	if c == 32 {
		return e
	}
	return (e >> o) & ((1 << c) - 1)
}

func extractBitsI(e int32, offset, count uint32) uint32 {
	o := offset
	if o > 32 {
		o = 32
	}
	c := count
	if c > 32-o {
		c = 32 - o
	}
	if c == 0 {
		return 0
	}
	if c == 32 {
		return uint32(e)
	}
	// shift the field to the top, then arithmetic shift back down
	return uint32((e << (32 - c - o)) >> (32 - c))
}

func insertBits(e, newbits, offset, count uint32) uint32 {
	o := offset
	if o > 32 {
		o = 32
	}
	c := count
	if c > 32-o {
		c = 32 - o
	}
	if c == 0 {
		return e
	}
	if c == 32 {
		return newbits
	}
	mask := uint32((1<<c)-1) << o
	return (e &^ mask) | ((newbits << o) & mask)
}

// ---- binary16 ------------------------------------------------------------------

// f32ToF16 rounds to nearest even; values beyond the f16 range become infinity.
func f32ToF16(f float32) uint16 {
	b := math.Float32bits(f)
	sign := uint16(b>>16) & 0x8000
	exp := int(b>>23) & 0xFF
	man := b & 0x7FFFFF
	switch {
	case exp == 0xFF:
		if man != 0 {
			return sign | 0x7E00
		}
		return sign | 0x7C00
	}
	e := exp - 127 + 15
	if e >= 0x1F {
		return sign | 0x7C00
	}
	if e <= 0 {
		// subnormal half or zero
		if e < -10 {
			return sign
		}
		man |= 0x800000
		shift := uint(14 - e)
		half := man >> shift
		rem := man & ((1 << shift) - 1)
		mid := uint32(1) << (shift - 1)
		if rem > mid || (rem == mid && half&1 == 1) {
			half++
		}
		return sign | uint16(half)
	}
	half := uint32(e)<<10 | man>>13
	rem := man & 0x1FFF
	if rem > 0x1000 || (rem == 0x1000 && half&1 == 1) {
		half++ // may carry into the exponent, which is the right result (incl. infinity)
	}
	return sign | uint16(half)
}

func f16ToF32(h uint16) float32 {
	sign := uint32(h&0x8000) << 16
	exp := int(h>>10) & 0x1F
	man := uint32(h & 0x3FF)
	switch {
	case exp == 0x1F:
		if man != 0 {
			return math.Float32frombits(sign | 0x7FC00000 | man<<13)
		}
		return math.Float32frombits(sign | 0x7F800000)
	case exp == 0:
		if man == 0 {
			return math.Float32frombits(sign)
		}
		// subnormal: man * 2^-24
		f := float32(man) * float32(1.0/16777216.0)
		if sign != 0 {
			f = -f
		}
		return f
	}
	return math.Float32frombits(sign | uint32(exp-15+127)<<23 | man<<13)
}
