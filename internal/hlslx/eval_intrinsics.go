package hlslx

import (
	"fmt"
	"math"
	"math/bits"
	"strings"

	"verif/internal/xrt"
)

func fmodf(x, y float32) float32 { return float32(math.Mod(float64(x), float64(y))) }

// D3D min/max: if one operand is NaN the other is returned.
func fminf(a, b float32) float32 {
	if a != a {
		return b
	}
	if b != b {
		return a
	}
	if a < b {
		return a
	}
	if b < a {
		return b
	}
	// equal (or ±0): prefer -0 for min
	if math.Signbit(float64(a)) {
		return a
	}
	return b
}

func fmaxf(a, b float32) float32 {
	if a != a {
		return b
	}
	if b != b {
		return a
	}
	if a > b {
		return a
	}
	if b > a {
		return b
	}
	if math.Signbit(float64(a)) {
		return b
	}
	return a
}

func via64(f func(float64) float64) func(float32) float32 {
	return func(x float32) float32 { return float32(f(float64(x))) }
}

var floatUnaryFn = map[string]func(float32) float32{
	"sqrt":  via64(math.Sqrt),
	"rsqrt": func(x float32) float32 { return float32(1 / math.Sqrt(float64(x))) },
	"exp":   via64(math.Exp),
	"exp2":  via64(math.Exp2),
	"log":   via64(math.Log),
	"log2":  via64(math.Log2),
	"log10": via64(math.Log10),
	"sin":   via64(math.Sin),
	"cos":   via64(math.Cos),
	"tan":   via64(math.Tan),
	"asin":  via64(math.Asin),
	"acos":  via64(math.Acos),
	"atan":  via64(math.Atan),
	"sinh":  via64(math.Sinh),
	"cosh":  via64(math.Cosh),
	"tanh":  via64(math.Tanh),
	"floor": via64(math.Floor),
	"ceil":  via64(math.Ceil),
	"round": via64(math.RoundToEven),
	"trunc": via64(math.Trunc),
	"frac": func(x float32) float32 {
		return float32(x - float32(math.Floor(float64(x))))
	},
	"saturate": func(x float32) float32 { return fminf(fmaxf(x, 0), 1) },
	"radians":  func(x float32) float32 { return float32(x * float32(math.Pi/180)) },
	"degrees":  func(x float32) float32 { return float32(x * float32(180/math.Pi)) },
	"rcp":      func(x float32) float32 { return float32(1 / x) },
}

func powf(x, y float32) float32 {
	// D3D: pow(x, y) = exp2(y * log2(x)); negative bases give NaN
	if x < 0 {
		return float32(math.NaN())
	}
	return float32(math.Pow(float64(x), float64(y)))
}

// mapN applies f component-wise over equally shaped arguments with poison propagation.
func mapN(resT *Type, args []Value, f func(c []uint32) uint32) Value {
	n := len(args[0].S)
	out := Value{T: resT, S: make([]Scalar, n)}
	c := make([]uint32, len(args))
	for i := 0; i < n; i++ {
		p := false
		for j, a := range args {
			if a.S[i].P {
				p = true
			}
			c[j] = a.S[i].B
		}
		if p {
			out.S[i].P = true
			continue
		}
		out.S[i].B = f(c)
	}
	return out
}

func fl(b uint32) float32 { return math.Float32frombits(b) }

// dotF computes a float dot product, accumulating left to right without fusion.
func dotF(a, b []Scalar) Scalar {
	var acc float32
	for i := range a {
		if a[i].P || b[i].P {
			return Scalar{P: true}
		}
		p := float32(fl(a[i].B) * fl(b[i].B))
		if i == 0 {
			acc = p
		} else {
			acc = float32(acc + p)
		}
	}
	return Scalar{B: fromF32(acc)}
}

func dotI(a, b []Scalar) Scalar {
	var acc uint32
	for i := range a {
		if a[i].P || b[i].P {
			return Scalar{P: true}
		}
		acc += a[i].B * b[i].B
	}
	return Scalar{B: acc}
}

func dotS(k Kind, a, b []Scalar) Scalar {
	if k == KFloat {
		return dotF(a, b)
	}
	return dotI(a, b)
}

func lengthOf(v []Scalar) Scalar {
	d := dotF(v, v)
	if d.P {
		return d
	}
	return Scalar{B: fromF32(float32(math.Sqrt(float64(fl(d.B)))))}
}

func (it *interp) evalIntrinsic(e *Call, fr *frame) Value {
	name := e.Intrinsic
	if name == "" {
		it.fail(fmt.Errorf("hlslx: line %d: unresolved call %s", e.Line, e.Name))
	}
	it.step("")
	it.rs.res.Cov.Add("fn." + name)
	switch {
	case barrierSync[name]:
		it.barrier()
		return Value{T: tVoid}
	case barrierNoSync[name]:
		return Value{T: tVoid}
	case interlockedOps[name]:
		return it.evalInterlocked(e, fr)
	case name == "modf" || name == "frexp" || name == "sincos":
		return it.evalOutIntrinsic(e, fr)
	}
	args := make([]Value, len(e.Args))
	for i, a := range e.Args {
		args[i] = it.eval(a, fr)
	}
	if e.T == nil {
		it.fail(fmt.Errorf("hlslx: line %d: ill-typed call of %s", e.Line, name))
	}
	if f, ok := floatUnaryFn[name]; ok {
		return mapN(e.T, args, func(c []uint32) uint32 { return fromF32(f(fl(c[0]))) })
	}
	argK := KVoid
	if len(args) > 0 && args[0].T.isNumeric() {
		argK = args[0].T.base().K
	}
	switch name {
	case "pow":
		return mapN(e.T, args, func(c []uint32) uint32 { return fromF32(powf(fl(c[0]), fl(c[1]))) })
	case "atan2":
		return mapN(e.T, args, func(c []uint32) uint32 {
			return fromF32(float32(math.Atan2(float64(fl(c[0])), float64(fl(c[1])))))
		})
	case "fmod":
		return mapN(e.T, args, func(c []uint32) uint32 { return fromF32(fmodf(fl(c[0]), fl(c[1]))) })
	case "step":
		return mapN(e.T, args, func(c []uint32) uint32 {
			if fl(c[1]) >= fl(c[0]) {
				return fromF32(1)
			}
			return fromF32(0)
		})
	case "ldexp":
		return mapN(e.T, args, func(c []uint32) uint32 {
			return fromF32(float32(float64(fl(c[0])) * math.Exp2(float64(fl(c[1])))))
		})
	case "lerp":
		return mapN(e.T, args, func(c []uint32) uint32 {
			a, b, s := fl(c[0]), fl(c[1]), fl(c[2])
			d := float32(b - a)
			m := float32(s * d)
			return fromF32(float32(a + m))
		})
	case "smoothstep":
		return mapN(e.T, args, func(c []uint32) uint32 {
			lo, hi, x := fl(c[0]), fl(c[1]), fl(c[2])
			t := float32(float32(x-lo) / float32(hi-lo))
			t = fminf(fmaxf(t, 0), 1)
			u := float32(3 - float32(2*t))
			return fromF32(float32(float32(t*t) * u))
		})
	case "abs":
		return mapN(e.T, args, func(c []uint32) uint32 {
			switch argK {
			case KFloat:
				return c[0] &^ 0x80000000
			case KInt:
				if int32(c[0]) < 0 {
					return -c[0]
				}
			}
			return c[0]
		})
	case "min", "max":
		isMin := name == "min"
		return mapN(e.T, args, func(c []uint32) uint32 {
			switch argK {
			case KFloat:
				if isMin {
					return fromF32(fminf(fl(c[0]), fl(c[1])))
				}
				return fromF32(fmaxf(fl(c[0]), fl(c[1])))
			case KInt:
				if (int32(c[0]) < int32(c[1])) == isMin {
					return c[0]
				}
				return c[1]
			}
			if (c[0] < c[1]) == isMin {
				return c[0]
			}
			return c[1]
		})
	case "clamp":
		return mapN(e.T, args, func(c []uint32) uint32 {
			switch argK {
			case KFloat:
				return fromF32(fminf(fmaxf(fl(c[0]), fl(c[1])), fl(c[2])))
			case KInt:
				x := int32(c[0])
				if x < int32(c[1]) {
					x = int32(c[1])
				}
				if x > int32(c[2]) {
					x = int32(c[2])
				}
				return uint32(x)
			}
			x := c[0]
			if x < c[1] {
				x = c[1]
			}
			if x > c[2] {
				x = c[2]
			}
			return x
		})
	case "mad":
		return mapN(e.T, args, func(c []uint32) uint32 {
			if argK == KFloat {
				m := float32(fl(c[0]) * fl(c[1]))
				return fromF32(float32(m + fl(c[2])))
			}
			return c[0]*c[1] + c[2]
		})
	case "sign":
		return mapN(e.T, args, func(c []uint32) uint32 {
			switch argK {
			case KFloat:
				f := fl(c[0])
				switch {
				case f > 0:
					return 1
				case f < 0:
					return 0xFFFFFFFF
				}
				return 0
			case KInt:
				switch {
				case int32(c[0]) > 0:
					return 1
				case int32(c[0]) < 0:
					return 0xFFFFFFFF
				}
				return 0
			}
			return boolBits(c[0] != 0)
		})
	case "dot":
		return Value{T: e.T, S: []Scalar{dotS(argK, args[0].S, args[1].S)}}
	case "length":
		return Value{T: tFloat, S: []Scalar{lengthOf(args[0].S)}}
	case "distance":
		d := it.binop("-", args[0], args[1], args[0].T, e.Line)
		return Value{T: tFloat, S: []Scalar{lengthOf(d.S)}}
	case "normalize":
		l := lengthOf(args[0].S)
		out := Value{T: e.T, S: make([]Scalar, len(args[0].S))}
		for i, s := range args[0].S {
			if s.P || l.P {
				out.S[i].P = true
				continue
			}
			out.S[i].B = fromF32(float32(fl(s.B) / fl(l.B)))
		}
		return out
	case "cross":
		a, b := args[0].S, args[1].S
		out := Value{T: e.T, S: make([]Scalar, 3)}
		for i := 0; i < 3; i++ {
			j, k := (i+1)%3, (i+2)%3
			if a[j].P || a[k].P || b[j].P || b[k].P {
				out.S[i].P = true
				continue
			}
			p := float32(fl(a[j].B) * fl(b[k].B))
			q := float32(fl(a[k].B) * fl(b[j].B))
			out.S[i].B = fromF32(float32(p - q))
		}
		return out
	case "reflect":
		// i - 2 * n * dot(i, n)
		d := dotF(args[0].S, args[1].S)
		out := Value{T: e.T, S: make([]Scalar, len(args[0].S))}
		for i := range out.S {
			iv, nv := args[0].S[i], args[1].S[i]
			if d.P || iv.P || nv.P {
				out.S[i].P = true
				continue
			}
			t := float32(float32(2*fl(nv.B)) * fl(d.B))
			out.S[i].B = fromF32(float32(fl(iv.B) - t))
		}
		return out
	case "refract":
		// k = 1 - eta^2 (1 - dot(n,i)^2); k < 0 ? 0 : eta*i - (eta*dot(n,i) + sqrt(k)) * n
		d := dotF(args[1].S, args[0].S)
		eta := args[2].S[0]
		out := Value{T: e.T, S: make([]Scalar, len(args[0].S))}
		if d.P || eta.P || args[0].anyPoison() || args[1].anyPoison() {
			return poisonValue(e.T)
		}
		et, dd := fl(eta.B), fl(d.B)
		k := float32(1 - float32(float32(et*et)*float32(1-float32(dd*dd))))
		if k < 0 {
			for i := range out.S {
				out.S[i].B = 0
			}
			return out
		}
		f := float32(float32(et*dd) + float32(math.Sqrt(float64(k))))
		for i := range out.S {
			out.S[i].B = fromF32(float32(float32(et*fl(args[0].S[i].B)) - float32(f*fl(args[1].S[i].B))))
		}
		return out
	case "faceforward":
		// -n * sign(dot(i, ng))
		d := dotF(args[1].S, args[2].S)
		if d.P {
			return poisonValue(e.T)
		}
		out := args[0].clone()
		out.T = e.T
		if !(fl(d.B) < 0) {
			for i := range out.S {
				out.S[i].B ^= 0x80000000
			}
		}
		return out
	case "all", "any":
		res := name == "all"
		for _, s := range args[0].S {
			if s.P {
				return poisonValue(tBool)
			}
			var t bool
			if argK == KFloat {
				t = fl(s.B) != 0
			} else {
				t = s.B != 0
			}
			if name == "all" {
				res = res && t
			} else {
				res = res || t
			}
		}
		return scalarValue(tBool, boolBits(res))
	case "isnan":
		return mapN(e.T, args, func(c []uint32) uint32 { f := fl(c[0]); return boolBits(f != f) })
	case "isinf":
		return mapN(e.T, args, func(c []uint32) uint32 { return boolBits(math.IsInf(float64(fl(c[0])), 0)) })
	case "isfinite":
		return mapN(e.T, args, func(c []uint32) uint32 {
			f := float64(fl(c[0]))
			return boolBits(!math.IsInf(f, 0) && !math.IsNaN(f))
		})
	case "countbits":
		return mapN(e.T, args, func(c []uint32) uint32 { return uint32(bits.OnesCount32(c[0])) })
	case "reversebits":
		return mapN(e.T, args, func(c []uint32) uint32 { return bits.Reverse32(c[0]) })
	case "firstbithigh":
		return mapN(e.T, args, func(c []uint32) uint32 {
			x := c[0]
			if argK == KInt && int32(x) < 0 {
				x = ^x // for negative numbers the first 0 bit from the top
			}
			if x == 0 {
				return 0xFFFFFFFF
			}
			return uint32(31 - bits.LeadingZeros32(x))
		})
	case "firstbitlow":
		return mapN(e.T, args, func(c []uint32) uint32 {
			if c[0] == 0 {
				return 0xFFFFFFFF
			}
			return uint32(bits.TrailingZeros32(c[0]))
		})
	case "f16tof32":
		return mapN(e.T, args, func(c []uint32) uint32 { return fromF32(halfToFloat(uint16(c[0]))) })
	case "f32tof16":
		return mapN(e.T, args, func(c []uint32) uint32 {
			rtz, rne := floatToHalf(fl(c[0]))
			if rtz != rne {
				it.unsupported("line %d: f32tof16(%v) is inexact; the rounding mode is not pinned down by the HLSL documentation", e.Line, fl(c[0]))
			}
			return uint32(rne)
		})
	case "asuint", "asint", "asfloat":
		out := args[0].clone()
		out.T = e.T
		return out
	case "mul":
		return it.evalMul(e, args)
	case "transpose":
		t := args[0].T
		out := Value{T: e.T, S: make([]Scalar, len(args[0].S))}
		for r := 0; r < t.Rows; r++ {
			for c := 0; c < t.Cols; c++ {
				out.S[c*t.Rows+r] = args[0].S[r*t.Cols+c]
			}
		}
		return out
	case "determinant":
		if args[0].anyPoison() {
			return poisonValue(tFloat)
		}
		n := args[0].T.Rows
		m := make([]float32, n*n)
		for i, s := range args[0].S {
			m[i] = fl(s.B)
		}
		return scalarValue(tFloat, fromF32(det(m, n)))
	case "select":
		c := args[0]
		if len(c.S) == 1 && len(args[1].S) != 1 || !args[1].T.isNumeric() {
			if c.S[0].P {
				return poisonValue(e.T)
			}
			if c.S[0].B != 0 {
				return args[1]
			}
			return args[2]
		}
		return mapN(e.T, args, func(c []uint32) uint32 {
			if c[0] != 0 {
				return c[1]
			}
			return c[2]
		})
	case "and":
		return mapN(e.T, args, func(c []uint32) uint32 { return boolBits(c[0] != 0 && c[1] != 0) })
	case "or":
		return mapN(e.T, args, func(c []uint32) uint32 { return boolBits(c[0] != 0 || c[1] != 0) })
	case "dot4add_u8packed":
		return mapN(e.T, args, func(c []uint32) uint32 {
			acc := c[2]
			for i := 0; i < 4; i++ {
				acc += ((c[0] >> (8 * i)) & 0xFF) * ((c[1] >> (8 * i)) & 0xFF)
			}
			return acc
		})
	case "dot4add_i8packed":
		return mapN(e.T, args, func(c []uint32) uint32 {
			acc := int32(c[2])
			for i := 0; i < 4; i++ {
				acc += int32(int8(c[0]>>(8*i))) * int32(int8(c[1]>>(8*i)))
			}
			return uint32(acc)
		})
	}
	it.unsupported("line %d: intrinsic %s", e.Line, name)
	return Value{}
}

// det computes a determinant by cofactor expansion along the first row, every
// operation rounded to float32.
func det(m []float32, n int) float32 {
	if n == 1 {
		return m[0]
	}
	if n == 2 {
		return float32(float32(m[0]*m[3]) - float32(m[1]*m[2]))
	}
	var acc float32
	sub := make([]float32, (n-1)*(n-1))
	for c := 0; c < n; c++ {
		k := 0
		for r := 1; r < n; r++ {
			for cc := 0; cc < n; cc++ {
				if cc == c {
					continue
				}
				sub[k] = m[r*n+cc]
				k++
			}
		}
		t := float32(m[c] * det(sub, n-1))
		if c%2 == 1 {
			t = -t
		}
		if c == 0 {
			acc = t
		} else {
			acc = float32(acc + t)
		}
	}
	return acc
}

func (it *interp) evalMul(e *Call, args []Value) Value {
	a, b := args[0], args[1]
	k := a.T.base().K
	out := Value{T: e.T, S: make([]Scalar, e.T.flatLen())}
	switch {
	case a.T.isScalar() || b.T.isScalar():
		// component-wise product with splat
		sc, m := a, b
		if b.T.isScalar() {
			sc, m = b, a
		}
		for i, s := range m.S {
			if s.P || sc.S[0].P {
				out.S[i].P = true
				continue
			}
			var l, r uint32 = a.S[0].B, s.B
			if b.T.isScalar() {
				l, r = s.B, b.S[0].B
			}
			out.S[i].B = it.scalarOp("*", normKind(k), normKind(k), l, r, e.Line)
		}
	case a.T.K == KVec && b.T.K == KVec:
		out.S[0] = dotS(k, a.S, b.S)
	case a.T.K == KVec && b.T.K == KMat:
		// row vector times matrix: r_j = sum_i v_i * m[i][j]
		for j := 0; j < b.T.Cols; j++ {
			col := make([]Scalar, b.T.Rows)
			for i := 0; i < b.T.Rows; i++ {
				col[i] = b.S[i*b.T.Cols+j]
			}
			out.S[j] = dotS(k, a.S, col)
		}
	case a.T.K == KMat && b.T.K == KVec:
		// matrix times column vector: r_i = sum_j m[i][j] * v_j
		for i := 0; i < a.T.Rows; i++ {
			out.S[i] = dotS(k, a.S[i*a.T.Cols:(i+1)*a.T.Cols], b.S)
		}
	case a.T.K == KMat && b.T.K == KMat:
		for i := 0; i < a.T.Rows; i++ {
			for j := 0; j < b.T.Cols; j++ {
				col := make([]Scalar, b.T.Rows)
				for x := 0; x < b.T.Rows; x++ {
					col[x] = b.S[x*b.T.Cols+j]
				}
				out.S[i*b.T.Cols+j] = dotS(k, a.S[i*a.T.Cols:(i+1)*a.T.Cols], col)
			}
		}
	default:
		it.fail(fmt.Errorf("hlslx: line %d: mul(%s, %s)", e.Line, a.T, b.T))
	}
	return out
}

func normKind(k Kind) Kind {
	if k == KLitInt || k == KBool {
		return KInt
	}
	return k
}

func (it *interp) evalOutIntrinsic(e *Call, fr *frame) Value {
	x := it.eval(e.Args[0], fr)
	n := len(x.S)
	switch e.Intrinsic {
	case "modf":
		ip := Value{T: x.T, S: make([]Scalar, n)}
		fp := Value{T: e.T, S: make([]Scalar, n)}
		for i, s := range x.S {
			if s.P {
				ip.S[i].P, fp.S[i].P = true, true
				continue
			}
			f := fl(s.B)
			t := float32(math.Trunc(float64(f)))
			ip.S[i].B = fromF32(t)
			if math.IsInf(float64(f), 0) {
				fp.S[i].B = fromF32(float32(math.Copysign(0, float64(f))))
			} else {
				fp.S[i].B = fromF32(float32(f - t))
			}
		}
		r := it.ref(e.Args[1], fr)
		r.store(convertValue(ip, r.T, it.trapF2I(e.Line)))
		return fp
	case "frexp":
		ex := Value{T: x.T, S: make([]Scalar, n)}
		mant := Value{T: e.T, S: make([]Scalar, n)}
		for i, s := range x.S {
			if s.P {
				ex.S[i].P, mant.S[i].P = true, true
				continue
			}
			f := float64(fl(s.B))
			if math.IsInf(f, 0) || math.IsNaN(f) {
				it.unsupported("line %d: frexp of a non-finite value", e.Line)
			}
			m, xp := math.Frexp(f)
			mant.S[i].B = fromF32(float32(m))
			ex.S[i].B = fromF32(float32(xp))
		}
		r := it.ref(e.Args[1], fr)
		r.store(convertValue(ex, r.T, it.trapF2I(e.Line)))
		return mant
	case "sincos":
		sv := Value{T: x.T, S: make([]Scalar, n)}
		cv := Value{T: x.T, S: make([]Scalar, n)}
		for i, s := range x.S {
			if s.P {
				sv.S[i].P, cv.S[i].P = true, true
				continue
			}
			f := float64(fl(s.B))
			sv.S[i].B = fromF32(float32(math.Sin(f)))
			cv.S[i].B = fromF32(float32(math.Cos(f)))
		}
		r1 := it.ref(e.Args[1], fr)
		r1.store(convertValue(sv, r1.T, it.trapF2I(e.Line)))
		r2 := it.ref(e.Args[2], fr)
		r2.store(convertValue(cv, r2.T, it.trapF2I(e.Line)))
		return Value{T: tVoid}
	}
	it.unsupported("line %d: intrinsic %s", e.Line, e.Intrinsic)
	return Value{}
}

// evalInterlocked handles InterlockedXxx(dest, value..., [out original]) on groupshared memory.
func (it *interp) evalInterlocked(e *Call, fr *frame) Value {
	name := e.Intrinsic
	nIn := 1
	if name == "InterlockedCompareExchange" || name == "InterlockedCompareStore" {
		nIn = 2
	}
	dest := it.ref(e.Args[0], fr)
	vals := make([]Value, nIn)
	poisoned := false
	for i := 0; i < nIn; i++ {
		vals[i] = it.eval(e.Args[1+i], fr)
		if vals[i].S[0].P {
			it.trap(xrt.TrapPoison, e.Line, "%s operand is uninitialised", name)
			poisoned = true
		}
	}
	var orig *lref
	if len(e.Args) > 1+nIn {
		r := it.ref(e.Args[1+nIn], fr)
		orig = &r
	}
	old := dest.load()
	if old.S[0].P {
		it.trap(xrt.TrapPoison, e.Line, "%s on uninitialised groupshared memory", name)
		poisoned = true
	}
	if poisoned {
		dest.store(poisonValue(dest.T))
		if orig != nil {
			orig.store(poisonValue(orig.T))
		}
		return Value{T: tVoid}
	}
	if dest.skip {
		// out-of-range destination: trap already reported; the operation is dropped
		if orig != nil {
			orig.store(poisonValue(orig.T))
		}
		return Value{T: tVoid}
	}
	signed := dest.T.K == KInt
	nv := atomicOp(strings.TrimPrefix(name, "Interlocked"), old.S[0].B, vals, signed)
	dest.store(scalarValue(dest.T, nv))
	if orig != nil {
		orig.store(convertValue(old, orig.T, nil))
	}
	return Value{T: tVoid}
}
