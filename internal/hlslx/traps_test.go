package hlslx

import (
	"errors"
	"strings"
	"testing"

	"verif/internal/xrt"
)

const hlslHdr = `
RWByteAddressBuffer o : register(u0);
ByteAddressBuffer inp : register(t1);
`

func staticKinds(t *testing.T, src string) map[xrt.TrapKind][]string {
	t.Helper()
	prog, err := Parse(src)
	if err != nil {
		t.Fatalf("Parse: %v", err)
	}
	out := map[xrt.TrapKind][]string{}
	for _, tr := range prog.StaticTraps() {
		out[tr.Kind] = append(out[tr.Kind], tr.Detail)
	}
	return out
}

func wantStatic(t *testing.T, src string, kind xrt.TrapKind, needle string) {
	t.Helper()
	ks := staticKinds(t, src)
	for _, d := range ks[kind] {
		if strings.Contains(d, needle) {
			return
		}
	}
	t.Errorf("expected %s trap mentioning %q, got %v", kind, needle, ks)
}

func wantClean(t *testing.T, src string) {
	t.Helper()
	ks := staticKinds(t, src)
	if len(ks) != 0 {
		t.Errorf("expected no static traps, got %v", ks)
	}
}

func TestStaticReserved(t *testing.T) {
	body := func(s string) string {
		return hlslHdr + s + "\n[numthreads(1,1,1)]\nvoid main() { o.Store(0, f(1u)); }\n"
	}
	wantClean(t, body("uint f(uint x) { uint y = x; return y; }"))
	wantStatic(t, body("uint f(uint x) { uint line = x; return line; }"), xrt.TrapReserved, `"line"`)
	wantStatic(t, body("uint f(uint sample) { return sample; }"), xrt.TrapReserved, `"sample"`)
	wantStatic(t, body("struct S { uint texture; };\nuint f(uint x) { return x; }"), xrt.TrapReserved, `"texture"`)
	wantClean(t, body("static uint Texture = 1u;\nuint f(uint x) { return x + Texture; }")) // accepted by FXC (upstream golden module-scope.hlsl)
	wantStatic(t, body("uint f(uint x) { uint TEXTURE2D = x; return x; }"), xrt.TrapReserved, `case-insensitive`)
	wantStatic(t, body("struct S { uint Pass; };\nuint f(uint x) { return x; }"), xrt.TrapReserved, `"Pass"`) // case-insensitive in FXC
	wantStatic(t, body("uint f(uint x) { uint TECHNIQUE = x; return TECHNIQUE; }"), xrt.TrapReserved, `"TECHNIQUE"`)
	wantStatic(t, body("uint f(uint x) { uint float3 = x; return x; }"), xrt.TrapReserved, `builtin type`)
	wantStatic(t, body("uint f(uint x) { uint min16float4x4 = x; return x; }"), xrt.TrapReserved, `builtin type`)
	wantStatic(t, body("uint f(uint x) { uint unsigned = x; return x; }"), xrt.TrapReserved, `"unsigned"`)
	wantStatic(t, body("uint f(uint x) { uint Texture2D = x; return x; }"), xrt.TrapReserved, `"Texture2D"`)
	wantStatic(t, body("static uint groupshared_ = 1u;\nstatic uint register = 1u;\nuint f(uint x) { return x; }"), xrt.TrapReserved, `"register"`)
	wantStatic(t, body("uint f(uint x) { return x; }\nuint lerp(uint a) { return a; }"), xrt.TrapReserved, `intrinsic`)
	wantStatic(t, body("uint f(uint x) { uint firstbithigh = x; return x; }"), xrt.TrapReserved, `intrinsic`)
	wantStatic(t, body("struct typename { uint a; };\nuint f(uint x) { return x; }"), xrt.TrapReserved, `"typename"`)
	// an intrinsic name as a struct member is harmless and legal
	wantClean(t, body("struct S { float length; float distance; };\nuint f(uint x) { S s = (S)0; return x + uint(s.length); }"))
	// reserved entry point name
	wantStatic(t, hlslHdr+"[numthreads(1,1,1)]\nvoid point() { o.Store(0, 1u); }\n", xrt.TrapReserved, `entry "point"`)
}

func TestStaticRedecl(t *testing.T) {
	body := func(s string) string {
		return hlslHdr + s + "\n[numthreads(1,1,1)]\nvoid main() { o.Store(0, 1u); }\n"
	}
	wantStatic(t, body("uint f(uint x) { uint y = x; uint y = 2u; return y; }"), xrt.TrapRedecl, `"y"`)
	wantStatic(t, body("uint f(uint x) { uint x = 2u; return x; }"), xrt.TrapRedecl, `"x"`) // parameter and body share a scope
	wantStatic(t, body("uint f(uint x, uint x) { return x; }"), xrt.TrapRedecl, `"x"`)
	wantStatic(t, body("struct S { uint a; float a; };"), xrt.TrapRedecl, `member "a"`)
	wantStatic(t, body("struct S { uint a; };\nstruct S { float b; };"), xrt.TrapRedecl, `type "S"`)
	wantStatic(t, body("static uint g = 1u;\nstatic float g = 2.0;"), xrt.TrapRedecl, `global "g"`)
	wantStatic(t, body("uint f(uint x) { return x; }\nuint f(uint y) { return y; }"), xrt.TrapRedecl, `function "f"`)
	wantStatic(t, body("static uint f = 1u;\nuint f(uint y) { return y; }"), xrt.TrapRedecl, `"f"`)
	// legal: overloads, shadowing in an inner scope, same name in sibling scopes
	wantClean(t, body("uint f(uint x) { return x; }\nuint f(int x) { return 1u; }\nuint f(uint2 x) { return x.x; }"))
	wantClean(t, body("static uint g = 1u;\nuint f(uint x) { uint g = x; { uint x = g; g = x; } { uint q = 1u; } { uint q = 2u; } return g; }"))
}

func TestStaticUnresolved(t *testing.T) {
	body := func(s string) string {
		return hlslHdr + "struct S { uint a; };\n" + s + "\n[numthreads(1,1,1)]\nvoid main() { o.Store(0, 1u); }\n"
	}
	wantStatic(t, body("uint f(uint x) { return x + y; }"), xrt.TrapUnresolved, `"y"`)
	wantStatic(t, body("uint f(uint x) { S s = (S)0; return s.b; }"), xrt.TrapUnresolved, `"b"`)
	wantStatic(t, body("uint f(uint x) { return g(x); }"), xrt.TrapUnresolved, `"g"`)
	wantStatic(t, body("uint h(float3 v) { return 1u; }\nuint f(uint x) { S s = (S)0; return h(s); }"), xrt.TrapUnresolved, `no overload of "h"`)
	wantStatic(t, body("uint f(uint x) { float2 v = float2(1.0, 2.0); return uint(v.z); }"), xrt.TrapUnresolved, `swizzle`)
	wantStatic(t, body("uint f(uint x) { return x; }\nuint k(uint x) { return later(x); }\nuint later(uint x) { return x; }"), xrt.TrapUnresolved, `"later"`)
	wantStatic(t, body("uint f(uint x) { return inp.Fetch(0); }"), xrt.TrapUnresolved, `Fetch`)
	wantStatic(t, body("void f(uint x) { inp.Store(0, x); }"), xrt.TrapUnresolved, `Store`)
	// use before declaration in the same function
	wantStatic(t, body("uint f(uint x) { uint a = b; uint b = 1u; return a; }"), xrt.TrapUnresolved, `"b"`)
}

func TestStaticType(t *testing.T) {
	body := func(s string) string {
		return hlslHdr + "struct S { uint a; };\nstruct T { uint a; };\n" + s + "\n[numthreads(1,1,1)]\nvoid main() { o.Store(0, 1u); }\n"
	}
	wantStatic(t, body("uint f(uint x) { float4 v = float4(1.0, 2.0, 3.0, 4.0); float2 w = v; return x; }"), xrt.TrapType, `truncation`)
	wantStatic(t, body("uint f(uint x) { float3 v = float3(1.0, 2.0, 3.0); int i = v; return x; }"), xrt.TrapType, `truncation`)
	wantStatic(t, body("uint f(uint x) { float2 v = float2(1.0, 2.0); float3 w = v; return x; }"), xrt.TrapType, `cannot convert`)
	wantStatic(t, body("uint f(uint x) { S s = (S)0; T t = s; return x; }"), xrt.TrapType, `cannot convert`)
	wantStatic(t, body("uint f(uint x) { S s = (S)0; uint y = s; return x; }"), xrt.TrapType, `cannot convert`)
	wantStatic(t, body("uint f(uint x) { float3 v = float3(1.0, 2.0); return x; }"), xrt.TrapType, `constructor`)
	wantStatic(t, body("uint f(uint x) { float3 v = float3(1.0, 2.0, 3.0, 4.0); return x; }"), xrt.TrapType, `constructor`)
	wantStatic(t, body("uint g(uint a, uint b) { return a; }\nuint f(uint x) { return g(x); }"), xrt.TrapType, `takes 1 arguments`)
	wantStatic(t, body("uint f(uint x) { return min(x); }"), xrt.TrapType, `min takes 2`)
	wantStatic(t, body("uint f(uint x) { float y = 1.5; return x & y; }"), xrt.TrapType, `floating-point`)
	wantStatic(t, body("uint f(uint x) { float y = 1.5; return x << y; }"), xrt.TrapType, `floating-point`)
	wantStatic(t, body("uint f(uint x) { float3 a = (1.0).xxx; float2 b = (1.0).xx; float3 c = a + b; return x; }"), xrt.TrapType, `truncation`)
	wantStatic(t, body("uint f(uint x) { uint2 v = uint2(1u, 2u); if (v) { return 1u; } return x; }"), xrt.TrapType, `scalar`)
	wantStatic(t, body("uint f(uint x) { S s = (S)0; if (s) { return 1u; } return x; }"), xrt.TrapType, `scalar`)
	wantStatic(t, body("uint f(uint x) { return x(1u); }"), xrt.TrapType, `not a function`)
	wantStatic(t, body("uint f(uint x) { return; }"), xrt.TrapType, `return without value`)
	wantStatic(t, body("void f(uint x) { return x; }"), xrt.TrapType, `void function`)
	wantStatic(t, body("uint f(uint x) { const uint c = 1u; c = x; return c; }"), xrt.TrapType, `const`)
	wantStatic(t, body("void g(inout uint a) { a = 1u; }\nuint f(uint x) { g(x + 1u); return x; }"), xrt.TrapType, `l-value`)
	wantStatic(t, body("uint f(uint x) { float3x3 m = (float3x3)0; float4 v = (1.0).xxxx; float3 r = mul(m, v); return x; }"), xrt.TrapType, `mul`)
	wantStatic(t, body("uint f(uint x) { float a = fma(1.0, 2.0, 3.0); return x; }"), xrt.TrapType, `fma`)
	wantStatic(t, body("uint f(uint x) { uint local = 0u; uint orig; InterlockedAdd(local, 1u, orig); return orig; }"), xrt.TrapType, `groupshared`)
	wantStatic(t, body("uint f(uint x) { uint a[2] = { 1u, 2u, 3u }; return a[0]; }"), xrt.TrapType, `initialiser list`)
	wantStatic(t, body("uint f(uint x) { uint a[2] = (uint[2])0; uint b[3] = (uint[3])0; a = b; return a[0]; }"), xrt.TrapType, `cannot convert`)
	wantStatic(t, body("uint f(uint x) { float4 v = (1.0).xxxx; v.xx = float2(1.0, 2.0); return x; }"), xrt.TrapType, `repeated`)
	wantStatic(t, body("uint f(uint x) { switch (x) { case 1: { return 1u; } case 1: { return 2u; } } return 0u; }"), xrt.TrapType, `duplicate case`)
	// legal conversions HLSL performs implicitly: scalar<->scalar (incl. float->int), int<->uint vectors, splat
	wantClean(t, body("uint f(uint x) { float y = 2.75; int i = y; uint u = i; float3 v = y; int3 iv = int3(1, 2, 3); uint3 uv = iv; bool b = x; float g = b; return u + uv.x + uint(v.x) + uint(g); }"))
	wantClean(t, body("uint f(uint x) { uint3 a = uint3(1u, 2u, 3u); uint2 b = (uint2)a; uint c = (uint)a; float2x2 m = (float2x2)float4(1.0, 2.0, 3.0, 4.0); return b.x + c; }"))
}

func runHLSL(t *testing.T, src string, bufs xrt.Buffers, trapMode bool) (xrt.Result, error) {
	t.Helper()
	prog, err := Parse(src)
	if err != nil {
		t.Fatalf("Parse: %v", err)
	}
	for _, tr := range prog.StaticTraps() {
		t.Fatalf("static trap: %v", tr)
	}
	return prog.Run("main", bufs, xrt.Options{TrapMode: trapMode})
}

func stdBufs(in ...uint32) xrt.Buffers {
	return xrt.Buffers{{Kind: "u", A: 0, B: 0}: make([]byte, 64), {Kind: "t", A: 0, B: 1}: u32s(in...)}
}

func wantTrap(t *testing.T, res xrt.Result, err error, kind xrt.TrapKind) {
	t.Helper()
	if err != nil {
		t.Fatalf("Run: %v", err)
	}
	for _, tr := range res.Traps {
		if tr.Kind == kind {
			return
		}
	}
	t.Errorf("expected a %s trap, got %v", kind, res.Traps)
}

func TestRuntimeTraps(t *testing.T) {
	mk := func(body string) string {
		return hlslHdr + "groupshared uint gs[4];\n[numthreads(1,1,1)]\nvoid main() {\n" + body + "\n}\n"
	}
	cases := []struct {
		name string
		body string
		in   []uint32
		kind xrt.TrapKind
	}{
		{"div0", "uint a = inp.Load(0); o.Store(0, 7u / a);", []uint32{0}, xrt.TrapDivZero},
		{"mod0", "int a = asint(inp.Load(0)); o.Store(0, asuint(7 % a));", []uint32{0}, xrt.TrapDivZero},
		{"divovf", "int a = asint(inp.Load(0)); int b = asint(inp.Load(4)); o.Store(0, asuint(a / b));", []uint32{0x80000000, 0xFFFFFFFF}, xrt.TrapDivOvf},
		{"f2i", "float f = asfloat(inp.Load(0)); o.Store(0, asuint(int(f)));", []uint32{fb(3e9)}, xrt.TrapF2I},
		{"f2iNaN", "float f = asfloat(inp.Load(0)); int i = f; o.Store(0, asuint(i));", []uint32{0x7FC00000}, xrt.TrapF2I},
		{"f2uNeg", "float f = asfloat(inp.Load(0)); o.Store(0, uint(f));", []uint32{fb(-2)}, xrt.TrapF2I},
		{"oobLoad", "o.Store(0, inp.Load(64));", []uint32{1}, xrt.TrapOOB},
		{"oobLoad3", "o.Store3(0, inp.Load3(0));", []uint32{1, 2}, xrt.TrapOOB},
		{"oobStore", "o.Store(inp.Load(0), 1u);", []uint32{64}, xrt.TrapOOB},
		{"oobNegative", "int i = asint(inp.Load(0)); o.Store(i*4+0, 1u);", []uint32{0xFFFFFFFF}, xrt.TrapOOB},
		{"oobArray", "uint a[4] = (uint[4])0; a[inp.Load(0)] = 1u; o.Store(0, a[0]);", []uint32{4}, xrt.TrapOOB},
		{"oobVector", "float4 v = (0.0).xxxx; o.Store(0, asuint(v[inp.Load(0)]));", []uint32{7}, xrt.TrapOOB},
		{"oobMatrix", "float2x2 m = (float2x2)0; o.Store(0, asuint(m[inp.Load(0)].x));", []uint32{2}, xrt.TrapOOB},
		{"oobAtomic", "uint orig; o.InterlockedAdd(4096, 1u, orig);", []uint32{0}, xrt.TrapOOB},
		{"poisonStore", "uint x; o.Store(0, x);", []uint32{0}, xrt.TrapPoison},
		{"poisonCond", "uint x; if (x == 1u) { o.Store(0, 1u); }", []uint32{0}, xrt.TrapPoison},
		{"poisonIndex", "uint x; uint a[2] = { 1u, 2u }; o.Store(0, a[min(x, 1u)]);", []uint32{0}, xrt.TrapPoison},
		{"poisonSwitch", "int x; switch (x) { case 0: { break; } default: { break; } }", []uint32{0}, xrt.TrapPoison},
		{"poisonShared", "o.Store(0, gs[1]);", []uint32{0}, xrt.TrapPoison},
		{"poisonAtomic", "uint orig; InterlockedAdd(gs[0], 1u, orig);", []uint32{0}, xrt.TrapPoison},
		{"poisonPartial", "uint3 v; v.x = 1u; v.z = 2u; o.Store3(0, v);", []uint32{0}, xrt.TrapPoison},
		{"poisonOffset", "uint x; o.Store(x, 1u);", []uint32{0}, xrt.TrapPoison},
		{"misaligned", "o.Store(2, 1u);", []uint32{0}, xrt.TrapOther},
		{"fallthrough", "uint x = inp.Load(0); switch (x) { case 0: { x = 5u; } case 1: { x = 6u; break; } } o.Store(0, x);", []uint32{0}, xrt.TrapOther},
	}
	for _, c := range cases {
		res, err := runHLSL(t, mk(c.body), stdBufs(c.in...), true)
		if err != nil {
			t.Errorf("%s: Run: %v", c.name, err)
			continue
		}
		found := false
		for _, tr := range res.Traps {
			if tr.Kind == c.kind {
				found = true
			}
		}
		if !found {
			t.Errorf("%s: expected %s, got %v", c.name, c.kind, res.Traps)
		}
		// TrapMode off: same program runs silently
		res2, err := runHLSL(t, mk(c.body), stdBufs(c.in...), false)
		if err != nil || len(res2.Traps) != 0 {
			t.Errorf("%s: non-trap mode: err=%v traps=%v", c.name, err, res2.Traps)
		}
	}
	// falling off the end of a non-void function
	res, err := runHLSL(t, hlslHdr+"uint f(uint x) { if (x == 1u) { return 2u; } }\n[numthreads(1,1,1)]\nvoid main() { uint y = f(inp.Load(0)); }\n", stdBufs(0), true)
	wantTrap(t, res, err, xrt.TrapUnreach)
	// well-defined: shifts by >= 32 are masked, unsigned wrap, masked-out partial poison
	res, err = runHLSL(t, mk("uint x = inp.Load(0); uint3 v; v.x = 1u; v.y = 2u; o.Store(0, x << 33u); o.Store2(4, v.xy); o.Store(12, 0u - 1u);"), stdBufs(1), true)
	if err != nil || len(res.Traps) != 0 {
		t.Errorf("defined behaviour trapped: err=%v traps=%v", err, res.Traps)
	}
}

func TestRunErrors(t *testing.T) {
	src := hlslHdr + "[numthreads(1,1,1)]\nvoid main() { o.Store(0, inp.Load(0)); }\n"
	prog, err := Parse(src)
	if err != nil {
		t.Fatal(err)
	}
	if _, err := prog.Run("main", xrt.Buffers{{Kind: "u", A: 0, B: 0}: make([]byte, 4)}, xrt.Options{}); err == nil {
		t.Errorf("missing slot must be an error")
	}
	if _, err := prog.Run("nope", stdBufs(1), xrt.Options{}); err == nil {
		t.Errorf("unknown entry must be an error")
	}
	// step budget
	loop := hlslHdr + "[numthreads(1,1,1)]\nvoid main() { uint i = 0u; while (true) { i += 1u; } }\n"
	prog, _ = Parse(loop)
	_, err = prog.Run("main", stdBufs(1), xrt.Options{MaxSteps: 1000})
	var u *xrt.Unsupported
	if !errors.As(err, &u) || u.What != "step budget" {
		t.Errorf("expected step budget, got %v", err)
	}
	// syntax errors are plain errors, unsupported syntax is *xrt.Unsupported
	if _, err := Parse("void main( { }"); err == nil || errors.As(err, &u) {
		t.Errorf("expected plain syntax error, got %v", err)
	}
	if _, err := Parse("static float[2] x = (float[2])0;"); err == nil || errors.As(err, &u) {
		t.Errorf("expected plain syntax error for C#-style array declarator, got %v", err)
	}
	if _, err := Parse("@compute fn main() {}"); err == nil || errors.As(err, &u) {
		t.Errorf("expected plain error for illegal character, got %v", err)
	}
	if _, err := Parse("#define X 1\n"); !errors.As(err, &u) {
		t.Errorf("expected Unsupported for preprocessor, got %v", err)
	}
	// unsupported declarations are skipped; reaching them is inconclusive
	src2 := hlslHdr + "Texture2D<float4> tex : register(t5);\nSamplerState smp : register(s0);\n" +
		"float4 sampleIt(float2 uv) { return tex.SampleLevel(smp, uv, 0.0); }\n" +
		"half h(half x) { return x; }\n" +
		"[numthreads(1,1,1)]\nvoid main() { o.Store(0, 1u); }\n" +
		"[numthreads(1,1,1)]\nvoid main2() { o.Store(0, asuint(sampleIt(float2(0.0, 0.0)).x)); }\n"
	prog, err = Parse(src2)
	if err != nil {
		t.Fatalf("Parse with skipped decls: %v", err)
	}
	if len(prog.StaticTraps()) != 0 {
		t.Errorf("skipped decls caused static traps: %v", prog.StaticTraps())
	}
	if _, err := prog.Run("main", stdBufs(1), xrt.Options{}); err != nil {
		t.Errorf("main should run: %v", err)
	}
	if _, err := prog.Run("main2", stdBufs(1), xrt.Options{}); !errors.As(err, &u) {
		t.Errorf("main2 should be inconclusive, got %v", err)
	}
	if len(prog.Entries()) != 2 {
		t.Errorf("entries: %v", prog.Entries())
	}
}
