package hlslx

import (
	"fmt"

	"verif/internal/xrt"
)

var floatUnary = setOf("sqrt", "rsqrt", "exp", "exp2", "log", "log2", "log10", "sin", "cos", "tan", "asin", "acos",
	"atan", "sinh", "cosh", "tanh", "floor", "ceil", "round", "trunc", "frac", "saturate", "radians", "degrees", "rcp")
var floatBinary = setOf("pow", "atan2", "fmod", "step", "ldexp")
var floatTernary = setOf("lerp", "smoothstep")
var barrierSync = setOf("GroupMemoryBarrierWithGroupSync", "DeviceMemoryBarrierWithGroupSync", "AllMemoryBarrierWithGroupSync")
var barrierNoSync = setOf("GroupMemoryBarrier", "DeviceMemoryBarrier", "AllMemoryBarrier")
var interlockedOps = setOf("InterlockedAdd", "InterlockedAnd", "InterlockedOr", "InterlockedXor", "InterlockedMin",
	"InterlockedMax", "InterlockedExchange", "InterlockedCompareExchange", "InterlockedCompareStore")

func (c *checker) argCount(e *Call, lo, hi int) bool {
	if len(e.Args) < lo || len(e.Args) > hi {
		if lo == hi {
			c.trap(xrt.TrapType, e.Line, "intrinsic %s takes %d argument(s), %d given", e.Name, lo, len(e.Args))
		} else {
			c.trap(xrt.TrapType, e.Line, "intrinsic %s takes %d to %d arguments, %d given", e.Name, lo, hi, len(e.Args))
		}
		return false
	}
	return true
}

// unifyArgs converts arguments idx... to a common shape and base.
// mode: "float" force float base; "num" keep (bool->int); "int" integral only; "bool".
func (c *checker) unifyArgs(e *Call, mode string, idx ...int) *Type {
	ts := make([]*Type, len(idx))
	for i, j := range idx {
		ts[i] = e.Args[j].typ()
	}
	shape, trunc, err := unifyShape(ts...)
	if err != "" {
		c.trap(xrt.TrapType, e.Line, "intrinsic %s: %s", e.Name, err)
		return nil
	}
	if trunc {
		c.trap(xrt.TrapType, e.Line, "intrinsic %s: implicit vector truncation between arguments", e.Name)
	}
	r := maxRank(ts...)
	var base *Type
	switch mode {
	case "float":
		base = tFloat
	case "bool":
		base = tBool
	case "int":
		if r == rank(KFloat) {
			c.trap(xrt.TrapType, e.Line, "intrinsic %s requires integer arguments", e.Name)
			return nil
		}
		if r <= rank(KLitInt) {
			r = rank(KInt)
		}
		base = scalarOf(kindOfRank(r))
	default:
		if r <= rank(KLitInt) {
			r = rank(KInt)
		}
		base = scalarOf(kindOfRank(r))
	}
	t := shape.withBase(base)
	for _, j := range idx {
		e.Args[j] = c.convertQuiet(e.Args[j], t)
	}
	return t
}

func (c *checker) intrinsic(e *Call) Expr {
	name := e.Name
	if !hlslIntrinsics[name] {
		c.trap(xrt.TrapUnresolved, e.Line, "call of undeclared function %q", name)
		return e
	}
	e.Intrinsic = name
	numeric := func(i int) bool {
		if !e.Args[i].typ().isNumeric() {
			c.trap(xrt.TrapType, e.Args[i].line(), "argument %d of %s has type %s", i+1, name, e.Args[i].typ())
			return false
		}
		return true
	}
	allNumeric := func() bool {
		for i := range e.Args {
			if !numeric(i) {
				return false
			}
		}
		return true
	}
	switch {
	case floatUnary[name]:
		if !c.argCount(e, 1, 1) || !allNumeric() {
			return e
		}
		e.T = c.unifyArgs(e, "float", 0)
	case floatBinary[name]:
		if !c.argCount(e, 2, 2) || !allNumeric() {
			return e
		}
		e.T = c.unifyArgs(e, "float", 0, 1)
	case floatTernary[name]:
		if !c.argCount(e, 3, 3) || !allNumeric() {
			return e
		}
		e.T = c.unifyArgs(e, "float", 0, 1, 2)
	case name == "abs":
		if !c.argCount(e, 1, 1) || !allNumeric() {
			return e
		}
		e.T = c.unifyArgs(e, "num", 0)
	case name == "min" || name == "max":
		if !c.argCount(e, 2, 2) || !allNumeric() {
			return e
		}
		e.T = c.unifyArgs(e, "num", 0, 1)
	case name == "clamp" || name == "mad":
		if !c.argCount(e, 3, 3) || !allNumeric() {
			return e
		}
		e.T = c.unifyArgs(e, "num", 0, 1, 2)
	case name == "sign":
		if !c.argCount(e, 1, 1) || !allNumeric() {
			return e
		}
		t := c.unifyArgs(e, "num", 0)
		if t != nil {
			e.T = t.withBase(tInt)
		}
	case name == "dot":
		if !c.argCount(e, 2, 2) || !allNumeric() {
			return e
		}
		t := c.unifyArgs(e, "num", 0, 1)
		if t == nil {
			return e
		}
		if t.K == KMat {
			c.trap(xrt.TrapType, e.Line, "dot of matrices")
			return e
		}
		e.T = t.base()
	case name == "length" || name == "distance":
		n := 1
		if name == "distance" {
			n = 2
		}
		if !c.argCount(e, n, n) || !allNumeric() {
			return e
		}
		idx := []int{0, 1}[:n]
		t := c.unifyArgs(e, "float", idx...)
		if t == nil {
			return e
		}
		if t.K == KMat {
			c.trap(xrt.TrapType, e.Line, "%s of a matrix", name)
			return e
		}
		e.T = tFloat
	case name == "normalize":
		if !c.argCount(e, 1, 1) || !allNumeric() {
			return e
		}
		t := c.unifyArgs(e, "float", 0)
		if t != nil && t.K == KMat {
			c.trap(xrt.TrapType, e.Line, "normalize of a matrix")
			return e
		}
		e.T = t
	case name == "cross":
		if !c.argCount(e, 2, 2) || !allNumeric() {
			return e
		}
		for i := 0; i < 2; i++ {
			e.Args[i] = c.convert(e.Args[i], vecOf(tFloat, 3), "argument of cross")
		}
		e.T = vecOf(tFloat, 3)
	case name == "reflect" || name == "faceforward":
		n := 2
		if name == "faceforward" {
			n = 3
		}
		if !c.argCount(e, n, n) || !allNumeric() {
			return e
		}
		t := c.unifyArgs(e, "float", []int{0, 1, 2}[:n]...)
		if t != nil && t.K == KMat {
			c.trap(xrt.TrapType, e.Line, "%s of a matrix", name)
			return e
		}
		e.T = t
	case name == "refract":
		if !c.argCount(e, 3, 3) || !allNumeric() {
			return e
		}
		t := c.unifyArgs(e, "float", 0, 1)
		if t == nil {
			return e
		}
		if t.K == KMat {
			c.trap(xrt.TrapType, e.Line, "refract of a matrix")
			return e
		}
		e.Args[2] = c.convert(e.Args[2], tFloat, "refraction index")
		e.T = t
	case name == "all" || name == "any":
		if !c.argCount(e, 1, 1) || !allNumeric() {
			return e
		}
		if e.Args[0].typ().base().K == KLitInt {
			e.Args[0] = c.convertQuiet(e.Args[0], tInt)
		}
		e.T = tBool
	case name == "isnan" || name == "isinf" || name == "isfinite":
		if !c.argCount(e, 1, 1) || !allNumeric() {
			return e
		}
		t := c.unifyArgs(e, "float", 0)
		if t != nil {
			e.T = t.withBase(tBool)
		}
	case name == "countbits" || name == "reversebits":
		if !c.argCount(e, 1, 1) || !allNumeric() {
			return e
		}
		t := e.Args[0].typ().withBase(tUint)
		e.Args[0] = c.convertQuiet(e.Args[0], t)
		e.T = t
	case name == "firstbithigh" || name == "firstbitlow":
		if !c.argCount(e, 1, 1) || !allNumeric() {
			return e
		}
		t := e.Args[0].typ()
		switch t.base().K {
		case KInt, KUint:
		default:
			t = t.withBase(tInt)
			e.Args[0] = c.convertQuiet(e.Args[0], t)
		}
		e.T = t
	case name == "f16tof32":
		if !c.argCount(e, 1, 1) || !allNumeric() {
			return e
		}
		t := e.Args[0].typ().withBase(tUint)
		e.Args[0] = c.convertQuiet(e.Args[0], t)
		e.T = t.withBase(tFloat)
	case name == "f32tof16":
		if !c.argCount(e, 1, 1) || !allNumeric() {
			return e
		}
		t := e.Args[0].typ().withBase(tFloat)
		e.Args[0] = c.convertQuiet(e.Args[0], t)
		e.T = t.withBase(tUint)
	case name == "asuint" || name == "asint" || name == "asfloat":
		if name == "asuint" && len(e.Args) == 3 {
			c.unsupported(e.Line, "asuint(double, out, out)")
			c.nErr++
			return e
		}
		if !c.argCount(e, 1, 1) || !allNumeric() {
			return e
		}
		t := e.Args[0].typ()
		switch t.base().K {
		case KBool:
			// no overload takes bool; it converts implicitly (to the target's own base)
			t = t.withBase(tUint)
			e.Args[0] = c.convertQuiet(e.Args[0], t)
		case KLitInt:
			t = t.withBase(tInt)
			e.Args[0] = c.convertQuiet(e.Args[0], t)
		}
		res := map[string]*Type{"asuint": tUint, "asint": tInt, "asfloat": tFloat}[name]
		e.T = t.withBase(res)
	case name == "mul":
		return c.checkMul(e)
	case name == "transpose":
		if !c.argCount(e, 1, 1) {
			return e
		}
		t := e.Args[0].typ()
		if t.K != KMat {
			c.trap(xrt.TrapType, e.Line, "transpose of %s", t)
			return e
		}
		e.T = matOf(t.Elem, t.Cols, t.Rows)
	case name == "determinant":
		if !c.argCount(e, 1, 1) {
			return e
		}
		t := e.Args[0].typ()
		if t.K != KMat || t.Rows != t.Cols {
			c.trap(xrt.TrapType, e.Line, "determinant of %s", t)
			return e
		}
		e.Args[0] = c.convertQuiet(e.Args[0], t.withBase(tFloat))
		e.T = tFloat
	case name == "select":
		if !c.argCount(e, 3, 3) || !allNumeric() {
			// select on aggregates (HLSL 2021 allows scalar condition with any type)
			if len(e.Args) == 3 && e.Args[0].typ().isScalar() && sameType(e.Args[1].typ(), e.Args[2].typ()) {
				c.prog.traps = c.prog.traps[:len(c.prog.traps)-1]
				c.nErr--
				e.Args[0] = c.convert(e.Args[0], tBool, "select condition")
				e.T = e.Args[1].typ()
			}
			return e
		}
		ct := e.Args[0].typ()
		var shape *Type
		var trunc bool
		var err string
		if ct.isScalar() {
			shape, trunc, err = unifyShape(e.Args[1].typ(), e.Args[2].typ())
		} else {
			shape, trunc, err = unifyShape(ct, e.Args[1].typ(), e.Args[2].typ())
		}
		if err != "" || trunc {
			c.trap(xrt.TrapType, e.Line, "select: operand shapes do not agree (%s, %s, %s)", ct, e.Args[1].typ(), e.Args[2].typ())
			return e
		}
		r := maxRank(e.Args[1].typ(), e.Args[2].typ())
		res := shape.withBase(scalarOf(kindOfRank(r)))
		if ct.isScalar() {
			e.Args[0] = c.convertQuiet(e.Args[0], tBool)
		} else {
			e.Args[0] = c.convertQuiet(e.Args[0], shape.withBase(tBool))
		}
		e.Args[1] = c.convertQuiet(e.Args[1], res)
		e.Args[2] = c.convertQuiet(e.Args[2], res)
		e.T = res
	case name == "and" || name == "or":
		if !c.argCount(e, 2, 2) || !allNumeric() {
			return e
		}
		e.T = c.unifyArgs(e, "bool", 0, 1)
	case barrierSync[name] || barrierNoSync[name]:
		if !c.argCount(e, 0, 0) {
			return e
		}
		e.T = tVoid
	case interlockedOps[name]:
		return c.checkInterlocked(e)
	case name == "modf" || name == "frexp":
		if !c.argCount(e, 2, 2) || !allNumeric() {
			return e
		}
		t := c.unifyArgs(e, "float", 0)
		if t == nil {
			return e
		}
		c.outArg(e, 1, t)
		e.T = t
	case name == "sincos":
		if !c.argCount(e, 3, 3) || !allNumeric() {
			return e
		}
		t := c.unifyArgs(e, "float", 0)
		if t == nil {
			return e
		}
		c.outArg(e, 1, t)
		c.outArg(e, 2, t)
		e.T = tVoid
	case name == "dot4add_u8packed" || name == "dot4add_i8packed":
		if !c.argCount(e, 3, 3) || !allNumeric() {
			return e
		}
		acc := tUint
		if name == "dot4add_i8packed" {
			acc = tInt
		}
		e.Args[0] = c.convert(e.Args[0], tUint, "argument 1 of "+name)
		e.Args[1] = c.convert(e.Args[1], tUint, "argument 2 of "+name)
		e.Args[2] = c.convert(e.Args[2], acc, "argument 3 of "+name)
		e.T = acc
	case name == "fma":
		c.trap(xrt.TrapType, e.Line, "fma is defined for double operands only")
	default:
		c.unsupported(e.Line, "intrinsic %s", name)
		c.nErr++
	}
	return e
}

// outArg checks an intrinsic's out parameter of type t.
func (c *checker) outArg(e *Call, i int, t *Type) {
	a := e.Args[i]
	if why := c.lvalue(a); why != "" {
		c.trap(xrt.TrapType, a.line(), "argument %d of %s must be an l-value: %s", i+1, e.Name, why)
		return
	}
	switch implicitConv(t, a.typ()) {
	case 2:
		c.trap(xrt.TrapType, a.line(), "argument %d of %s: implicit truncation from %s to %s", i+1, e.Name, t, a.typ())
	case 3:
		c.trap(xrt.TrapType, a.line(), "argument %d of %s: cannot convert %s to %s", i+1, e.Name, t, a.typ())
	}
}

func (c *checker) checkMul(e *Call) Expr {
	if !c.argCount(e, 2, 2) {
		return e
	}
	a, b := e.Args[0].typ(), e.Args[1].typ()
	if !a.isNumeric() || !b.isNumeric() {
		c.trap(xrt.TrapType, e.Line, "mul of %s and %s", a, b)
		return e
	}
	r := maxRank(a, b)
	if r <= rank(KLitInt) {
		r = rank(KInt)
	}
	base := scalarOf(kindOfRank(r))
	e.Args[0] = c.convertQuiet(e.Args[0], a.withBase(base))
	e.Args[1] = c.convertQuiet(e.Args[1], b.withBase(base))
	bad := func() Expr {
		c.trap(xrt.TrapType, e.Line, "mul: dimensions of %s and %s do not agree", a, b)
		return e
	}
	switch {
	case a.isScalar():
		e.T = b.withBase(base)
	case b.isScalar():
		e.T = a.withBase(base)
	case a.K == KVec && b.K == KVec:
		if a.N != b.N {
			return bad()
		}
		e.T = base
	case a.K == KVec && b.K == KMat:
		if a.N != b.Rows {
			return bad()
		}
		e.T = vecOf(base, b.Cols)
	case a.K == KMat && b.K == KVec:
		if a.Cols != b.N {
			return bad()
		}
		e.T = vecOf(base, a.Rows)
	case a.K == KMat && b.K == KMat:
		if a.Cols != b.Rows {
			return bad()
		}
		e.T = matOf(base, a.Rows, b.Cols)
	default:
		return bad()
	}
	return e
}

// rootGlobal returns the module-scope variable an l-value expression is rooted at.
func rootGlobal(e Expr) *Global {
	for {
		switch x := e.(type) {
		case *Ident:
			if x.Sym != nil {
				return x.Sym.Global
			}
			return nil
		case *MemberExpr:
			e = x.X
		case *Index:
			e = x.X
		default:
			return nil
		}
	}
}

func (c *checker) checkInterlocked(e *Call) Expr {
	name := e.Name
	lo, hi := 2, 3
	switch name {
	case "InterlockedCompareExchange":
		lo, hi = 4, 4
	case "InterlockedCompareStore":
		lo, hi = 3, 3
	case "InterlockedExchange":
		lo, hi = 3, 3
	}
	if !c.argCount(e, lo, hi) {
		return e
	}
	dest := e.Args[0]
	dt := dest.typ()
	if dt.K != KInt && dt.K != KUint {
		c.trap(xrt.TrapType, e.Line, "%s destination has type %s (int or uint required)", name, dt)
		return e
	}
	if why := c.lvalue(dest); why != "" {
		c.trap(xrt.TrapType, e.Line, "%s destination is not an l-value: %s", name, why)
		return e
	}
	if g := rootGlobal(dest); g == nil || g.Kind != GShared {
		c.trap(xrt.TrapType, e.Line, "%s destination must be groupshared or a UAV", name)
		return e
	}
	nIn := 1
	if name == "InterlockedCompareExchange" || name == "InterlockedCompareStore" {
		nIn = 2
	}
	for i := 1; i <= nIn; i++ {
		if !e.Args[i].typ().isNumeric() {
			c.trap(xrt.TrapType, e.Line, "%s argument %d has type %s", name, i+1, e.Args[i].typ())
			return e
		}
		e.Args[i] = c.convert(e.Args[i], dt, fmt.Sprintf("argument %d of %s", i+1, name))
	}
	if len(e.Args) > 1+nIn {
		c.outArg(e, 1+nIn, dt)
	}
	e.OpT = dt
	e.T = tVoid
	return e
}

// ---- buffer methods ----

func (c *checker) method(e *MethodCall) Expr {
	e.X = c.expr(e.X)
	okAll := true
	for i, a := range e.Args {
		e.Args[i] = c.expr(a)
		if e.Args[i].typ() == nil {
			okAll = false
		}
	}
	xt := e.X.typ()
	if xt == nil || !okAll {
		return e
	}
	if xt.K != KBuf {
		c.trap(xrt.TrapType, e.Line, "method call .%s on a value of type %s", e.Name, xt)
		return e
	}
	argc := func(lo, hi int) bool {
		if len(e.Args) < lo || len(e.Args) > hi {
			c.trap(xrt.TrapType, e.Line, "%s.%s: wrong number of arguments (%d)", xt, e.Name, len(e.Args))
			return false
		}
		return true
	}
	offset := func() bool {
		t := e.Args[0].typ()
		if !t.isScalar() {
			c.trap(xrt.TrapType, e.Line, "%s.%s: offset has type %s", xt, e.Name, t)
			return false
		}
		e.Args[0] = c.convert(e.Args[0], tUint, "buffer offset")
		return true
	}
	uintN := func(n int) *Type {
		if n == 1 {
			return tUint
		}
		return vecOf(tUint, n)
	}
	needRW := func() bool {
		if !xt.RW {
			c.trap(xrt.TrapUnresolved, e.Line, "ByteAddressBuffer has no method %s (read-only)", e.Name)
			return false
		}
		return true
	}
	switch e.Name {
	case "Load", "Load2", "Load3", "Load4":
		n := 1
		if len(e.Name) == 5 {
			n = int(e.Name[4] - '0')
		}
		if len(e.Args) == 2 {
			c.unsupported(e.Line, "Load with status out parameter")
			c.nErr++
			return e
		}
		if !argc(1, 1) || !offset() {
			return e
		}
		e.T = uintN(n)
	case "Store", "Store2", "Store3", "Store4":
		n := 1
		if len(e.Name) == 6 {
			n = int(e.Name[5] - '0')
		}
		if !needRW() || !argc(2, 2) || !offset() {
			return e
		}
		if !e.Args[1].typ().isNumeric() {
			c.trap(xrt.TrapType, e.Line, "%s value has type %s", e.Name, e.Args[1].typ())
			return e
		}
		e.Args[1] = c.convert(e.Args[1], uintN(n), "value of "+e.Name)
		e.T = tVoid
	case "GetDimensions":
		if !argc(1, 1) {
			return e
		}
		a := e.Args[0]
		if why := c.lvalue(a); why != "" {
			c.trap(xrt.TrapType, e.Line, "GetDimensions argument must be an l-value: %s", why)
			return e
		}
		if !a.typ().isScalar() {
			c.trap(xrt.TrapType, e.Line, "GetDimensions argument has type %s", a.typ())
			return e
		}
		e.T = tVoid
	case "InterlockedAdd", "InterlockedAnd", "InterlockedOr", "InterlockedXor", "InterlockedMin", "InterlockedMax",
		"InterlockedExchange", "InterlockedCompareExchange", "InterlockedCompareStore":
		if !needRW() {
			return e
		}
		nIn := 1
		lo, hi := 2, 3
		switch e.Name {
		case "InterlockedExchange":
			lo, hi = 3, 3
		case "InterlockedCompareExchange":
			nIn, lo, hi = 2, 4, 4
		case "InterlockedCompareStore":
			nIn, lo, hi = 2, 3, 3
		}
		if !argc(lo, hi) || !offset() {
			return e
		}
		// the operation type follows the value argument (int => signed min/max)
		var vt *Type
		for i := 1; i <= nIn; i++ {
			t := e.Args[i].typ()
			if !t.isScalar() {
				c.trap(xrt.TrapType, e.Line, "%s argument %d has type %s", e.Name, i+1, t)
				return e
			}
		}
		switch e.Args[nIn].typ().K {
		case KInt, KLitInt:
			vt = tInt
		default:
			vt = tUint
		}
		for i := 1; i <= nIn; i++ {
			e.Args[i] = c.convert(e.Args[i], vt, fmt.Sprintf("argument %d of %s", i+1, e.Name))
		}
		if len(e.Args) > 1+nIn {
			a := e.Args[1+nIn]
			if why := c.lvalue(a); why != "" {
				c.trap(xrt.TrapType, a.line(), "%s original-value argument must be an l-value: %s", e.Name, why)
				return e
			}
			if !a.typ().isScalar() {
				c.trap(xrt.TrapType, a.line(), "%s original-value argument has type %s", e.Name, a.typ())
				return e
			}
		}
		e.T = tVoid
	default:
		if hlslBufferMethods[e.Name] {
			c.unsupported(e.Line, "buffer method %s", e.Name)
			c.nErr++
			return e
		}
		c.trap(xrt.TrapUnresolved, e.Line, "%s has no method %q", xt, e.Name)
	}
	return e
}

var hlslBufferMethods = setOf("InterlockedAdd64", "InterlockedAnd64", "InterlockedOr64", "InterlockedXor64",
	"InterlockedMin64", "InterlockedMax64", "InterlockedExchange64", "InterlockedCompareExchange64",
	"InterlockedCompareStore64", "InterlockedExchangeFloat", "InterlockedCompareExchangeFloatBitwise",
	"InterlockedCompareStoreFloatBitwise", "Load16", "Store16")
