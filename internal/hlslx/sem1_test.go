package hlslx

import "testing"

const hdrIO = `
@group(0) @binding(0) var<storage, read_write> o: array<u32>;
@group(0) @binding(1) var<storage, read> inp: array<u32>;
`

func TestSemIntegerWrap(t *testing.T) {
	rc := runCase{wgsl: hdrIO + `
@compute @workgroup_size(1)
fn main() {
  let a = inp[0];
  let b = bitcast<i32>(inp[1]);
  o[0] = a + 2u;
  o[1] = bitcast<u32>(b + 1);
  o[2] = a * a;
  o[3] = bitcast<u32>(b * 2);
  o[4] = inp[2] - 1u;
  o[5] = bitcast<u32>(-bitcast<i32>(inp[3]));
  var c = b;
  c += 5;
  c -= 2;
  c *= 3;
  o[6] = bitcast<u32>(c);
}`,
		bufs: map[string][]byte{"o": make([]byte, 32), "inp": u32s(0xFFFFFFFF, 0x7FFFFFFF, 0, 0x80000000)}}
	bufs, res, _ := rc.run(t)
	expectNoTraps(t, res)
	// c = (0x7FFFFFFF + 5 - 2) * 3 = 0x80000002 * 3 = 0x80000006 (mod 2^32)
	expectU32(t, "o", bufs["o"], 1, 0x80000000, 1, 0xFFFFFFFE, 0xFFFFFFFF, 0x80000000, 0x80000006)
}

func TestSemDivMod(t *testing.T) {
	rc := runCase{wgsl: hdrIO + `
@compute @workgroup_size(1)
fn main() {
  let seven = bitcast<i32>(inp[0]);
  let two = bitcast<i32>(inp[1]);
  let zero = bitcast<i32>(inp[2]);
  let imin = bitcast<i32>(inp[3]);
  let m1 = bitcast<i32>(inp[4]);
  o[0] = bitcast<u32>(seven / two);
  o[1] = bitcast<u32>((-seven) / two);
  o[2] = bitcast<u32>(seven % (-two));
  o[3] = bitcast<u32>((-seven) % two);
  o[4] = bitcast<u32>(seven / zero);
  o[5] = bitcast<u32>(seven % zero);
  o[6] = bitcast<u32>(imin / m1);
  o[7] = bitcast<u32>(imin % m1);
  o[8] = inp[0] / inp[2];
  o[9] = inp[0] % inp[2];
  o[10] = inp[4] / inp[1];
  o[11] = inp[4] % inp[0];
  let v = vec2<i32>(seven, -seven) / vec2<i32>(two, zero);
  o[12] = bitcast<u32>(v.x);
  o[13] = bitcast<u32>(v.y);
  let w = vec3<u32>(7u, 8u, 9u) % vec3<u32>(inp[1], inp[2], inp[0]);
  o[14] = w.x; o[15] = w.y; o[16] = w.z;
}`,
		bufs: map[string][]byte{"o": make([]byte, 80), "inp": u32s(7, 2, 0, 0x80000000, 0xFFFFFFFF)}}
	bufs, res, _ := rc.run(t)
	expectNoTraps(t, res)
	neg := func(x int32) uint32 { return uint32(x) }
	expectU32(t, "o", bufs["o"],
		3, neg(-3), 1, neg(-1), // trunc division, remainder has sign of dividend
		7, 0, // x/0 = x, x%0 = 0
		0x80000000, 0, // INT_MIN/-1 = INT_MIN, INT_MIN%-1 = 0
		7, 0, // unsigned by zero
		0x7FFFFFFF, 0xFFFFFFFF%7,
		3, neg(-7),
		1, 0, 2)
}

func TestSemShifts(t *testing.T) {
	rc := runCase{wgsl: hdrIO + `
@compute @workgroup_size(1)
fn main() {
  let one = inp[0];
  let s31 = inp[1];
  let s33 = inp[2];
  let m8 = bitcast<i32>(inp[3]);
  o[0] = one << s31;
  o[1] = one << s33;
  o[2] = bitcast<u32>(m8 >> one);
  o[3] = inp[3] >> one;
  o[4] = inp[3] >> s33;
  o[5] = bitcast<u32>(m8 << s31);
  let v = vec2<u32>(1u, 3u) << vec2<u32>(one, s31);
  o[6] = v.x; o[7] = v.y;
  var x = 5u;
  x <<= 2u;
  x >>= one;
  o[8] = x;
}`,
		bufs: map[string][]byte{"o": make([]byte, 40), "inp": u32s(1, 31, 33, 0xFFFFFFF8)}}
	bufs, res, _ := rc.run(t)
	expectNoTraps(t, res)
	expectU32(t, "o", bufs["o"], 0x80000000, 2, 0xFFFFFFFC, 0x7FFFFFFC, 0x7FFFFFFC, 0, 2, 0x80000000, 10)
}

func TestSemBitBuiltins(t *testing.T) {
	rc := runCase{wgsl: hdrIO + `
@compute @workgroup_size(1)
fn main() {
  let z = inp[0];       // 0
  let one = inp[1];     // 1
  let top = inp[2];     // 0x80000000
  let x = inp[3];       // 0xABCD1234
  let all1 = inp[4];    // 0xFFFFFFFF
  o[0] = countLeadingZeros(z);
  o[1] = countLeadingZeros(one);
  o[2] = countLeadingZeros(top);
  o[3] = bitcast<u32>(countLeadingZeros(bitcast<i32>(all1)));
  o[4] = countTrailingZeros(z);
  o[5] = countTrailingZeros(top);
  o[6] = firstLeadingBit(z);
  o[7] = firstLeadingBit(x);
  o[8] = bitcast<u32>(firstLeadingBit(bitcast<i32>(all1)));
  o[9] = bitcast<u32>(firstLeadingBit(bitcast<i32>(all1 - 1u)));
  o[10] = bitcast<u32>(firstLeadingBit(bitcast<i32>(one + 4u)));
  o[11] = firstTrailingBit(z);
  o[12] = firstTrailingBit(x);
  o[13] = countOneBits(x);
  o[14] = reverseBits(one);
  o[15] = extractBits(x, 8u, 8u);
  o[16] = bitcast<u32>(extractBits(bitcast<i32>(inp[5]), 4u, 4u));
  o[17] = extractBits(x, 28u, 8u);
  o[18] = extractBits(x, 4u, z);
  o[19] = insertBits(all1, z, 8u, 8u);
  o[20] = insertBits(z, x, 28u, 8u);
  let v = countOneBits(vec2<u32>(x, all1));
  o[21] = v.x; o[22] = v.y;
  let r = reverseBits(vec2<u32>(one, top));
  o[23] = r.x; o[24] = r.y;
  o[25] = bitcast<u32>(countLeadingZeros(bitcast<i32>(one)));
}`,
		bufs: map[string][]byte{"o": make([]byte, 4*26), "inp": u32s(0, 1, 0x80000000, 0xABCD1234, 0xFFFFFFFF, 0xF0)}}
	bufs, res, _ := rc.run(t)
	expectNoTraps(t, res)
	got := getU32(bufs["o"])
	want := []uint32{32, 31, 0, 0, 32, 31,
		0xFFFFFFFF, 31, 0xFFFFFFFF, 0, 2,
		0xFFFFFFFF, 2, 15, 0x80000000,
		0x12, 0xFFFFFFFF, 0xA, 0, 0xFFFF00FF, 0x40000000,
		15, 32, 0x80000000, 1, 31}
	// countOneBits(0xABCD1234): A=2 B=3 C=2 D=3 1=1 2=1 3=2 4=1 => 15
	suspect := map[int]string{0: "countLeadingZeros(0u)", 1: "countLeadingZeros(1u)", 2: "countLeadingZeros(0x80000000u)",
		3: "countLeadingZeros(-1)", 25: "countLeadingZeros(1i)", 4: "countTrailingZeros(0u) [emitted as bare firstbitlow]"}
	for i, w := range want {
		if got[i] == w {
			continue
		}
		if s, ok := suspect[i]; ok {
			t.Logf("SUSPECT naga: %s = %d per the emitted HLSL (bare firstbithigh/firstbitlow without the 31-x / min(32,x) correction), WGSL expects %d", s, int32(got[i]), int32(w))
			continue
		}
		t.Errorf("o[%d] = %#x, want %#x", i, got[i], w)
	}
}

func TestSemSelectAbsMinMaxClampSign(t *testing.T) {
	rc := runCase{wgsl: hdrIO + `
@compute @workgroup_size(1)
fn main() {
  let m5 = bitcast<i32>(inp[0]);   // -5
  let imin = bitcast<i32>(inp[1]); // INT_MIN
  let t = inp[2] == 1u;            // true
  o[0] = bitcast<u32>(abs(m5));
  o[1] = bitcast<u32>(abs(imin));
  o[2] = bitcast<u32>(min(m5, 2));
  o[3] = max(inp[2], inp[0]);
  o[4] = bitcast<u32>(clamp(10 + m5 + 5, -2, 5));
  o[5] = bitcast<u32>(clamp(m5, -2, 5));
  o[6] = bitcast<u32>(sign(bitcast<f32>(inp[3])));
  o[7] = bitcast<u32>(sign(0.0 * bitcast<f32>(inp[3])));
  o[8] = bitcast<u32>(sign(m5));
  o[9] = select(1u, 2u, t);
  let sv = select(vec2<u32>(1u, 2u), vec2<u32>(3u, 4u), vec2<bool>(t, !t));
  o[10] = sv.x; o[11] = sv.y;
  o[12] = bitcast<u32>(abs(bitcast<f32>(inp[3])));
  o[13] = bitcast<u32>(min(bitcast<f32>(inp[3]), 1.0));
  o[14] = bitcast<u32>(max(bitcast<f32>(inp[3]), 1.0));
  o[15] = bitcast<u32>(clamp(bitcast<f32>(inp[3]), -1.0, 1.0));
  let cv = clamp(vec3<i32>(m5, 0, 9), vec3<i32>(-1), vec3<i32>(1));
  o[16] = bitcast<u32>(cv.x); o[17] = bitcast<u32>(cv.y); o[18] = bitcast<u32>(cv.z);
  o[19] = bitcast<u32>(saturate(bitcast<f32>(inp[3])));
  let sg = sign(bitcast<f32>(inp[3]));
  o[20] = bitcast<u32>(sg * 3.0);
  var sv2 = sign(vec2<f32>(bitcast<f32>(inp[3]), 7.0));
  sv2.x += 0.5;
  o[21] = bitcast<u32>(sv2.x); o[22] = bitcast<u32>(sv2.y);
}`,
		bufs: map[string][]byte{"o": make([]byte, 96), "inp": u32s(0xFFFFFFFB, 0x80000000, 1, fb(-2.5))}}
	bufs, res, _ := rc.run(t)
	expectNoTraps(t, res)
	got := getU32(bufs["o"])
	if got[6] != fb(-1) {
		// HLSL sign() returns int; asuint(sign(f)) reinterprets the integer -1 instead of the float -1.0
		t.Logf("SUSPECT naga: bitcast<u32>(sign(-2.5)) = %#x per the emitted HLSL `asuint(sign(f))` (sign returns int in HLSL), WGSL expects %#x", got[6], fb(-1))
		got[6] = fb(-1)
		binaryPut(bufs["o"], 6, fb(-1))
	}
	if got[7] != 0x80000000 && got[7] != 0 {
		t.Errorf("o[7] = %#x, want +-0.0", got[7])
	}
	binaryPut(bufs["o"], 7, 0)
	expectU32(t, "o", bufs["o"],
		5, 0x80000000, 0xFFFFFFFB, 0xFFFFFFFB, 5, 0xFFFFFFFE,
		fb(-1), 0, 0xFFFFFFFF, 2, 3, 2,
		fb(2.5), fb(-2.5), fb(1), fb(-1), 0xFFFFFFFF, 0, 1, fb(0), fb(-3), fb(-0.5), fb(1))
}

func TestSemRounding(t *testing.T) {
	rc := runCase{wgsl: hdrIO + `
@compute @workgroup_size(1)
fn main() {
  let a = bitcast<f32>(inp[0]); // -1.5
  let b = bitcast<f32>(inp[1]); // 2.5
  let c = bitcast<f32>(inp[2]); // 3.5
  let d = bitcast<f32>(inp[3]); // -0.25
  let e = bitcast<f32>(inp[4]); // 1.75
  o[0] = bitcast<u32>(floor(a));
  o[1] = bitcast<u32>(ceil(a));
  o[2] = bitcast<u32>(round(b));
  o[3] = bitcast<u32>(round(c));
  o[4] = bitcast<u32>(round(-b));
  o[5] = bitcast<u32>(trunc(a - 0.25));
  o[6] = bitcast<u32>(fract(d));
  o[7] = bitcast<u32>(fract(e));
  let v = floor(vec2<f32>(a, e));
  o[8] = bitcast<u32>(v.x); o[9] = bitcast<u32>(v.y);
}`,
		bufs: map[string][]byte{"o": make([]byte, 40), "inp": f32s(-1.5, 2.5, 3.5, -0.25, 1.75)}}
	bufs, res, _ := rc.run(t)
	expectNoTraps(t, res)
	expectU32(t, "o", bufs["o"], fb(-2), fb(-1), fb(2), fb(4), fb(-2), fb(-1), fb(0.75), fb(0.75), fb(-2), fb(1))
}

func TestSemConversions(t *testing.T) {
	rc := runCase{wgsl: hdrIO + `
@compute @workgroup_size(1)
fn main() {
  o[0] = bitcast<u32>(i32(bitcast<f32>(inp[0])));   // 3.9 -> 3
  o[1] = bitcast<u32>(i32(bitcast<f32>(inp[1])));   // -3.9 -> -3
  o[2] = bitcast<u32>(i32(bitcast<f32>(inp[2])));   // 3e9 -> clamped
  o[3] = bitcast<u32>(i32(bitcast<f32>(inp[3])));   // -3e9 -> INT_MIN
  o[4] = u32(bitcast<f32>(inp[4]));                 // 5e9 -> clamped
  o[5] = u32(bitcast<f32>(inp[5]));                 // -1.0 -> 0
  o[6] = bitcast<u32>(f32(bitcast<i32>(inp[6])));   // 16777217 -> 16777216.0
  o[7] = bitcast<u32>(f32(inp[7]));                 // 0xFFFFFFFF -> 4294967296.0
  o[8] = u32(inp[6] == 16777217u);
  o[9] = bitcast<u32>(f32(inp[6] != 16777217u));
  o[10] = u32(bool(inp[7]));
  o[11] = bitcast<u32>(bitcast<f32>(0x3F800000u) + bitcast<f32>(inp[0]));
  let bv = bitcast<vec2<i32>>(vec2<u32>(inp[7], inp[6]));
  o[12] = bitcast<u32>(bv.x + 1);
  o[13] = bitcast<u32>(bv.y);
  let iv = vec2<i32>(vec2<f32>(bitcast<f32>(inp[0]), bitcast<f32>(inp[1])));
  o[14] = bitcast<u32>(iv.x); o[15] = bitcast<u32>(iv.y);
  o[16] = u32(bitcast<i32>(inp[7]));                // i32(-1) -> u32 reinterpretation
  o[17] = u32(bitcast<f32>(inp[0]));
  let fv = vec3<f32>(vec3<u32>(1u, 2u, inp[7]));
  o[18] = bitcast<u32>(fv.z);
}`,
		bufs: map[string][]byte{"o": make([]byte, 80), "inp": u32s(fb(3.9), fb(-3.9), fb(3e9), fb(-3e9), fb(5e9), fb(-1), 16777217, 0xFFFFFFFF)}}
	bufs, res, _ := rc.run(t)
	expectNoTraps(t, res)
	expectU32(t, "o", bufs["o"],
		3, 0xFFFFFFFD, 2147483520, 0x80000000, 4294967040, 0,
		fb(16777216), fb(4294967296), 1, fb(0), 1, fb(float32(3.9)+1),
		0, 16777217, 3, 0xFFFFFFFD, 0xFFFFFFFF, 3, fb(4294967296))
}

func TestSemVectors(t *testing.T) {
	rc := runCase{wgsl: hdrIO + `
@compute @workgroup_size(1)
fn main() {
  var v = vec4<f32>(bitcast<f32>(inp[0]), 2.0, 3.0, 4.0);
  let w = v.wzyx;
  o[0] = bitcast<u32>(w.x); o[1] = bitcast<u32>(w.w);
  let s = v.xy + v.zw;
  o[2] = bitcast<u32>(s.x); o[3] = bitcast<u32>(s.y);
  v.z = 10.0;
  v[1] = 20.0;
  let idx = inp[1];
  v[idx] = 30.0;
  o[4] = bitcast<u32>(v.x); o[5] = bitcast<u32>(v.y); o[6] = bitcast<u32>(v.z); o[7] = bitcast<u32>(v.w);
  o[8] = bitcast<u32>(dot(vec3<f32>(1.0, 2.0, 3.0), vec3<f32>(v.x, 5.0, 6.0)));
  let c = cross(vec3<f32>(v.x, 0.0, 0.0), vec3<f32>(0.0, 1.0, 0.0));
  o[9] = bitcast<u32>(c.x); o[10] = bitcast<u32>(c.y); o[11] = bitcast<u32>(c.z);
  o[12] = bitcast<u32>(length(vec2<f32>(3.0 * v.x, 4.0)));
  let n = normalize(vec2<f32>(3.0 * v.x, 4.0));
  o[13] = bitcast<u32>(n.x); o[14] = bitcast<u32>(n.y);
  o[15] = bitcast<u32>(distance(vec2<f32>(v.x, 1.0), vec2<f32>(4.0, 5.0)));
  let iv = vec3<i32>(1, -2, 3) * vec3<i32>(bitcast<i32>(inp[1])) + vec3<i32>(1);
  o[16] = bitcast<u32>(iv.x); o[17] = bitcast<u32>(iv.y); o[18] = bitcast<u32>(iv.z);
  o[19] = bitcast<u32>(dot(vec2<i32>(2, -3), vec2<i32>(iv.x, iv.y)));
  let sp = vec3<u32>(inp[1]);
  o[20] = sp.x + sp.y + sp.z;
  let k = 2.0 * v.xy;
  o[21] = bitcast<u32>(k.y);
}`,
		bufs: map[string][]byte{"o": make([]byte, 96), "inp": u32s(fb(1), 3)}}
	bufs, res, _ := rc.run(t)
	expectNoTraps(t, res)
	expectU32(t, "o", bufs["o"],
		fb(4), fb(1), fb(4), fb(6),
		fb(1), fb(20), fb(10), fb(30),
		fb(1+10+18), fb(0), fb(0), fb(1), fb(5), fb(float32(3)/5), fb(float32(4)/5), fb(5),
		4, 0xFFFFFFFB, 10, uint32(2*4+(-3)*(-5)), 9, fb(40))
}

func TestSemMatrices(t *testing.T) {
	rc := runCase{wgsl: hdrIO + `
@compute @workgroup_size(1)
fn main() {
  let one = bitcast<f32>(inp[0]);
  let m2 = mat2x2<f32>(one, 2.0, 3.0, 4.0);           // columns (1,2) (3,4)
  let a = m2 * vec2<f32>(5.0, 6.0);                   // 5*(1,2)+6*(3,4) = (23,34)
  let b = vec2<f32>(5.0, 6.0) * m2;                   // (5+12, 15+24) = (17,39)
  o[0] = bitcast<u32>(a.x); o[1] = bitcast<u32>(a.y); o[2] = bitcast<u32>(b.x); o[3] = bitcast<u32>(b.y);
  let m3 = mat3x3<f32>(vec3<f32>(one, 0.0, 0.0), vec3<f32>(0.0, 2.0, 0.0), vec3<f32>(1.0, 1.0, 3.0));
  let c = m3 * vec3<f32>(1.0, 2.0, 3.0);              // (1,0,0)+2*(0,2,0)+3*(1,1,3) = (4,7,9)
  o[4] = bitcast<u32>(c.x); o[5] = bitcast<u32>(c.y); o[6] = bitcast<u32>(c.z);
  let m43 = mat4x3<f32>(vec3<f32>(one, 2.0, 3.0), vec3<f32>(4.0, 5.0, 6.0), vec3<f32>(7.0, 8.0, 9.0), vec3<f32>(10.0, 11.0, 12.0));
  let d = m43 * vec4<f32>(1.0, 0.0, 2.0, 1.0);        // col0 + 2*col2 + col3 = (1+14+10, 2+16+11, 3+18+12) = (25,29,33)
  o[7] = bitcast<u32>(d.x); o[8] = bitcast<u32>(d.y); o[9] = bitcast<u32>(d.z);
  let e = vec3<f32>(1.0, 1.0, 2.0) * m43;             // dot with each column: (1+2+6, 4+5+12, 7+8+18, 10+11+24) = (9,21,33,45)
  o[10] = bitcast<u32>(e.x); o[11] = bitcast<u32>(e.y); o[12] = bitcast<u32>(e.z); o[13] = bitcast<u32>(e.w);
  let tr = transpose(m43);                            // mat3x4: column j = row j of m43
  o[14] = bitcast<u32>(tr[0].w);                      // row 0 of m43, 4th col => 10
  o[15] = bitcast<u32>(tr[2].y);                      // row 2 of m43, col 1 => 6
  let mm = m2 * m2;                                   // [[1,3],[2,4]]^2 : col0 = m2*(1,2) = (7,10); col1 = m2*(3,4) = (15,22)
  o[16] = bitcast<u32>(mm[0].x); o[17] = bitcast<u32>(mm[0].y); o[18] = bitcast<u32>(mm[1].x); o[19] = bitcast<u32>(mm[1].y);
  o[20] = bitcast<u32>(determinant(m2));              // 1*4 - 3*2 = -2
  var mv = m2;
  mv[1] = vec2<f32>(8.0, 9.0);
  mv[0][1] = 7.0;
  let idx = inp[1];
  o[21] = bitcast<u32>(mv[idx].x + mv[idx][idx] + mv[0].y);   // 8 + 9 + 7
  let ms = (m2 + m2) * 0.5 - m2;
  o[22] = bitcast<u32>(ms[1].y);
  let sm = 2.0 * m2;
  o[23] = bitcast<u32>(sm[1].x);
  o[24] = bitcast<u32>(determinant(m3));              // 1*2*3 = 6
}`,
		bufs: map[string][]byte{"o": make([]byte, 100), "inp": u32s(fb(1), 1)}}
	bufs, res, _ := rc.run(t)
	expectNoTraps(t, res)
	expectU32(t, "o", bufs["o"],
		fb(23), fb(34), fb(17), fb(39), fb(4), fb(7), fb(9), fb(25), fb(29), fb(33),
		fb(9), fb(21), fb(33), fb(45), fb(10), fb(6), fb(7), fb(10), fb(15), fb(22), fb(-2), fb(24), fb(0), fb(6), fb(6))
}
