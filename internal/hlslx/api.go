// Package hlslx is an independent front-end (lexer, parser, static checker)
// and trapping interpreter for the subset of HLSL that naga's hlsl backend
// emits for compute shaders. Semantics follow the HLSL / Direct3D
// specification, not naga's implementation.
package hlslx

import (
	"fmt"

	"verif/internal/xrt"
)

// Program is a parsed and statically checked HLSL translation unit.
type Program struct {
	typeNames    map[string]*Type
	skippedTypes map[string]string
	typeDecls    []typeDecl
	structs      []*StructDef
	globals      []*Global
	funcs        []*Func
	order        []any // *Global / *Func in source order

	traps []*xrt.Trap
	decls []Decl
}

func (p *Program) addGlobal(g *Global) {
	p.globals = append(p.globals, g)
	p.order = append(p.order, g)
}
func (p *Program) addFunc(f *Func) {
	p.funcs = append(p.funcs, f)
	p.order = append(p.order, f)
}

// Entry is a compute entry point.
type Entry struct {
	Name      string
	LocalSize [3]uint32
}

// Resource is a buffer binding declared by the text.
type Resource struct {
	Name     string
	Slot     xrt.Slot
	Kind     string // "storage-rw", "storage-ro", "uniform"
	TypeName string
}

// Decl is one declared identifier.
type Decl struct{ Name, Kind, Scope string }

// Parse lexes, parses and statically checks src. The error is *xrt.Unsupported
// when the text is outside the supported subset, or a plain error for text
// that is not valid HLSL.
func Parse(src string) (prog *Program, err error) {
	defer func() {
		if r := recover(); r != nil {
			prog, err = nil, fmt.Errorf("hlslx: internal error in Parse: %v", r)
		}
	}()
	prog, err = parseProgram(src)
	if err != nil {
		return nil, err
	}
	check(prog)
	// If no compute entry survived but some function was skipped with a
	// numthreads attribute, the entry list still contains it (Run reports Unsupported).
	return prog, nil
}

// StaticTraps returns the problems found statically.
func (p *Program) StaticTraps() []*xrt.Trap { return append([]*xrt.Trap(nil), p.traps...) }

// Entries lists the compute entry points.
func (p *Program) Entries() []Entry {
	var out []Entry
	for _, f := range p.funcs {
		if f.NumThreads != nil {
			out = append(out, Entry{Name: f.Name, LocalSize: *f.NumThreads})
		}
	}
	return out
}

// Resources lists buffer bindings.
func (p *Program) Resources() []Resource {
	var out []Resource
	for _, g := range p.globals {
		switch g.Kind {
		case GBuffer:
			k := "storage-ro"
			if g.T.RW {
				k = "storage-rw"
			}
			out = append(out, Resource{Name: g.Name, Slot: g.slot(), Kind: k, TypeName: g.T.String()})
		case GUniform:
			out = append(out, Resource{Name: g.Name, Slot: g.slot(), Kind: "uniform", TypeName: g.T.String()})
		}
	}
	return out
}

func (g *Global) slot() xrt.Slot {
	return xrt.Slot{Kind: string(g.Slot.Class), A: g.Slot.Space, B: g.Slot.Reg}
}

// Decls lists every declared identifier.
func (p *Program) Decls() []Decl { return append([]Decl(nil), p.decls...) }

// Skipped describes the declarations that were outside the subset and skipped
// (diagnostic aid; not part of the required API).
func (p *Program) Skipped() []string {
	var out []string
	for n, why := range p.skippedTypes {
		out = append(out, "type "+n+": "+why)
	}
	for _, g := range p.globals {
		if g.Kind == GSkipped {
			out = append(out, "global "+g.Name+": "+g.Why)
		}
	}
	for _, f := range p.funcs {
		if f.Unsupported != "" {
			out = append(out, "function "+f.Name+": "+f.Unsupported)
		}
	}
	return out
}

// entryInconclusive statically follows calls from the entry point and returns
// the reason of the first function outside the subset that is reachable ("" if none).
func (p *Program) entryInconclusive(entry string) string {
	var fn *Func
	for _, f := range p.funcs {
		if f.Name == entry && f.NumThreads != nil {
			fn = f
		}
	}
	if fn == nil {
		return "no such entry"
	}
	seen := map[*Func]bool{}
	var visit func(f *Func) string
	visit = func(f *Func) string {
		if seen[f] {
			return ""
		}
		seen[f] = true
		if f.Unsupported != "" {
			return f.Name + ": " + f.Unsupported
		}
		if f.TypeErr {
			return f.Name + ": static errors"
		}
		why := ""
		walkStmts(f.Body.Stmts, func(e Expr) {
			if c, ok := e.(*Call); ok && c.Fn != nil && why == "" {
				why = visit(c.Fn)
			}
		})
		return why
	}
	return visit(fn)
}

func walkStmts(stmts []Stmt, f func(Expr)) {
	for _, s := range stmts {
		walkStmt(s, f)
	}
}

func walkStmt(s Stmt, f func(Expr)) {
	switch s := s.(type) {
	case *Block:
		walkStmts(s.Stmts, f)
	case *VarDecl:
		walkExpr(s.Init, f)
	case *ExprStmt:
		walkExpr(s.X, f)
	case *If:
		walkExpr(s.Cond, f)
		walkStmt(s.Then, f)
		if s.Else != nil {
			walkStmt(s.Else, f)
		}
	case *While:
		walkExpr(s.Cond, f)
		walkStmt(s.Body, f)
	case *DoWhile:
		walkStmt(s.Body, f)
		walkExpr(s.Cond, f)
	case *For:
		if s.Init != nil {
			walkStmt(s.Init, f)
		}
		walkExpr(s.Cond, f)
		walkExpr(s.Post, f)
		walkStmt(s.Body, f)
	case *Switch:
		walkExpr(s.Sel, f)
		for _, c := range s.Cases {
			walkStmts(c.Body, f)
		}
	case *Return:
		walkExpr(s.X, f)
	}
}

func walkExpr(e Expr, f func(Expr)) {
	if e == nil {
		return
	}
	f(e)
	switch e := e.(type) {
	case *Unary:
		walkExpr(e.X, f)
	case *IncDec:
		walkExpr(e.X, f)
	case *Binary:
		walkExpr(e.L, f)
		walkExpr(e.R, f)
	case *Assign:
		walkExpr(e.L, f)
		walkExpr(e.R, f)
	case *Ternary:
		walkExpr(e.C, f)
		walkExpr(e.A, f)
		walkExpr(e.B, f)
	case *Call:
		for _, a := range e.Args {
			walkExpr(a, f)
		}
	case *Ctor:
		for _, a := range e.Args {
			walkExpr(a, f)
		}
	case *Cast:
		walkExpr(e.X, f)
	case *Conv:
		walkExpr(e.X, f)
	case *MemberExpr:
		walkExpr(e.X, f)
	case *Index:
		walkExpr(e.X, f)
		walkExpr(e.I, f)
	case *MethodCall:
		walkExpr(e.X, f)
		for _, a := range e.Args {
			walkExpr(a, f)
		}
	case *InitList:
		for _, a := range e.Elems {
			walkExpr(a, f)
		}
	}
}
