package hlslx

import (
	"math"
	"testing"
)

func TestHalfConversions(t *testing.T) {
	for h := 0; h < 0x10000; h++ {
		f := halfToFloat(uint16(h))
		if f != f {
			continue
		}
		rtz, rne := floatToHalf(f)
		if rtz != uint16(h) || rne != uint16(h) {
			t.Fatalf("half %#04x -> %v -> (%#04x, %#04x)", h, f, rtz, rne)
		}
	}
	cases := []struct {
		f        float32
		rtz, rne uint16
	}{
		{1 + 1.0/2048, 0x3C00, 0x3C00}, // tie -> even
		{1 + 3.0/2048, 0x3C01, 0x3C02}, // tie -> even (up)
		{1 + 1.0/4096, 0x3C00, 0x3C00}, // below half
		{1 + 3.0/4096, 0x3C00, 0x3C01}, // above half
		{65519, 0x7BFF, 0x7BFF},
		{65520, 0x7BFF, 0x7C00},
		{1e10, 0x7BFF, 0x7C00},
		{-65520, 0xFBFF, 0xFC00},
		{1e-8, 0, 0},
		{float32(math.Ldexp(1, -24)), 1, 1},                      // smallest subnormal
		{float32(math.Ldexp(1.5, -24)), 1, 2},                    // tie between subnormals 1 and 2 -> even
		{float32(math.Ldexp(1, -25)), 0, 0},                      // tie between 0 and 1 -> even (0)
		{float32(math.Ldexp(1.0009765625, -15)), 0x0200, 0x0200}, // 512.5 ulps -> tie -> even 512
		{float32(math.Inf(1)), 0x7C00, 0x7C00},
	}
	for _, c := range cases {
		rtz, rne := floatToHalf(c.f)
		if rtz != c.rtz || rne != c.rne {
			t.Errorf("floatToHalf(%v) = (%#04x, %#04x), want (%#04x, %#04x)", c.f, rtz, rne, c.rtz, c.rne)
		}
	}
}

func TestScalarConversions(t *testing.T) {
	trapped := 0
	trap := func(float32, Kind) { trapped++ }
	chk := func(in Scalar, from, to Kind, want uint32, wantTrap bool) {
		t.Helper()
		before := trapped
		got := convScalar(in, from, to, trap)
		if got.B != want || (trapped != before) != wantTrap {
			t.Errorf("conv %v %v->%v = %#x trap=%v, want %#x trap=%v", in, from, to, got.B, trapped != before, want, wantTrap)
		}
	}
	f := func(x float32) Scalar { return Scalar{B: math.Float32bits(x)} }
	chk(f(3.99), KFloat, KInt, 3, false)
	chk(f(-3.99), KFloat, KInt, 0xFFFFFFFD, false)
	chk(f(2147483520), KFloat, KInt, 2147483520, false)
	chk(f(2147483648), KFloat, KInt, 0x7FFFFFFF, true)
	chk(f(-2147483648), KFloat, KInt, 0x80000000, false)
	chk(f(-2147483904), KFloat, KInt, 0x80000000, true)
	chk(f(-0.5), KFloat, KUint, 0, false)
	chk(f(-1), KFloat, KUint, 0, true)
	chk(f(4294967040), KFloat, KUint, 4294967040, false)
	chk(f(4294967296), KFloat, KUint, 0xFFFFFFFF, true)
	chk(f(float32(math.NaN())), KFloat, KUint, 0, true)
	chk(f(float32(math.NaN())), KFloat, KBool, 1, false)
	chk(f(float32(math.Copysign(0, -1))), KFloat, KBool, 0, false)
	chk(Scalar{B: 0xFFFFFFFF}, KInt, KFloat, math.Float32bits(-1), false)
	chk(Scalar{B: 0xFFFFFFFF}, KUint, KFloat, math.Float32bits(4294967296), false)
	chk(Scalar{B: 16777217}, KInt, KFloat, math.Float32bits(16777216), false)
	chk(Scalar{B: 16777219}, KUint, KFloat, math.Float32bits(16777220), false)
	chk(Scalar{B: 7}, KUint, KBool, 1, false)
	chk(Scalar{B: 1}, KBool, KFloat, math.Float32bits(1), false)
	if got := convScalar(Scalar{P: true}, KInt, KFloat, trap); !got.P {
		t.Errorf("poison must propagate through conversions")
	}
}
