package hlslx

import (
	"errors"
	"os"
	"path/filepath"
	"sort"
	"strings"
	"testing"

	"github.com/gogpu/naga"
	"github.com/gogpu/naga/hlsl"

	"verif/internal/xrt"
)

// TestCorpusSweep compiles every corpus shader with hlsl.DefaultOptions(),
// parses the result and runs every runnable compute entry over zeroed
// buffers. It only fails on internal errors; findings are logged.
func TestCorpusSweep(t *testing.T) {
	files, _ := filepath.Glob("/repo/snapshot/testdata/in/*.wgsl")
	if len(files) == 0 {
		t.Skip("corpus not available")
	}
	sort.Strings(files)
	nOK, nUnsup, nInvalid, nTrapFiles, nRun := 0, 0, 0, 0, 0
	for _, f := range files {
		b, _ := os.ReadFile(f)
		src := string(b)
		name := filepath.Base(f)
		txt, ok := func() (txt string, ok bool) {
			defer func() {
				if r := recover(); r != nil {
					ok = false
				}
			}()
			ast, err := naga.Parse(src)
			if err != nil {
				return "", false
			}
			m, err := naga.LowerWithSource(ast, src)
			if err != nil {
				return "", false
			}
			txt, _, err = hlsl.Compile(m, hlsl.DefaultOptions())
			return txt, err == nil
		}()
		if !ok {
			continue
		}
		prog, err := Parse(txt)
		if err != nil {
			var u *xrt.Unsupported
			if errors.As(err, &u) {
				nUnsup++
				continue
			}
			if strings.Contains(err.Error(), "internal error") {
				t.Errorf("%s: %v", name, err)
			}
			nInvalid++
			t.Logf("%s: not valid HLSL: %v", name, err)
			continue
		}
		nOK++
		if tr := prog.StaticTraps(); len(tr) > 0 {
			nTrapFiles++
			t.Logf("%s: %d static trap(s), first: %v", name, len(tr), tr[0])
		}
		for _, e := range prog.Entries() {
			if prog.entryInconclusive(e.Name) != "" {
				continue
			}
			bufs := xrt.Buffers{}
			for _, r := range prog.Resources() {
				bufs[r.Slot] = make([]byte, 1024)
			}
			_, err := prog.Run(e.Name, bufs, xrt.Options{TrapMode: true, MaxSteps: 100000})
			nRun++
			if err != nil && strings.Contains(err.Error(), "internal error") {
				t.Errorf("%s/%s: %v", name, e.Name, err)
			}
		}
	}
	t.Logf("parsed %d, whole-file unsupported %d, invalid HLSL %d, files with static traps %d, entries run %d", nOK, nUnsup, nInvalid, nTrapFiles, nRun)
}
