package hlslx

import (
	"fmt"

	"verif/internal/xrt"
)

// typeDecl records a declared type name (struct or typedef) for the static monitors.
type typeDecl struct {
	Name string
	Line int
	T    *Type
}

type parser struct {
	toks []token
	pos  int
	end  int // exclusive end of the current chunk

	prog *Program
}

// panics used for control flow inside the parser; recovered per chunk.
type parsePanic struct{ err error }

func (p *parser) failf(format string, a ...any) {
	panic(parsePanic{&syntaxError{p.cur().line, fmt.Sprintf(format, a...)}})
}
func (p *parser) unsupf(format string, a ...any) {
	panic(parsePanic{unsupportedf("line %d: %s", p.cur().line, fmt.Sprintf(format, a...))})
}

func (p *parser) cur() token {
	if p.pos >= p.end {
		return token{k: tkEOF, line: p.toks[p.end-1].line}
	}
	t := p.toks[p.pos]
	if t.k == tkUnsup {
		panic(parsePanic{unsupportedf("line %d: %s", t.line, t.s)})
	}
	return t
}
func (p *parser) peekN(n int) token {
	if p.pos+n >= p.end {
		return token{k: tkEOF}
	}
	return p.toks[p.pos+n]
}
func (p *parser) next() token { t := p.cur(); p.pos++; return t }
func (p *parser) isP(s string) bool {
	t := p.cur()
	return t.k == tkPunct && t.s == s
}
func (p *parser) isPN(n int, s string) bool {
	t := p.peekN(n)
	return t.k == tkPunct && t.s == s
}
func (p *parser) isKw(s string) bool {
	t := p.cur()
	return t.k == tkIdent && t.s == s
}
func (p *parser) acceptP(s string) bool {
	if p.isP(s) {
		p.pos++
		return true
	}
	return false
}
func (p *parser) expectP(s string) token {
	if !p.isP(s) {
		p.failf("expected %q, found %q", s, p.cur().String())
	}
	return p.next()
}
func (p *parser) expectIdent() token {
	t := p.cur()
	if t.k != tkIdent {
		p.failf("expected identifier, found %q", t.String())
	}
	p.pos++
	return t
}

// ---- chunking ----

// splitChunks returns the [start,end) token ranges of top-level declarations.
func splitChunks(toks []token) ([][2]int, error) {
	var out [][2]int
	i := 0
	n := len(toks) - 1 // exclude EOF
	for i < n {
		if toks[i].k == tkPunct && toks[i].s == ";" { // stray ';'
			i++
			continue
		}
		start := i
		depthParen, depthBrack := 0, 0
		sawAssign := false
		first := toks[i]
		wantSemi := first.k == tkIdent && (first.s == "struct" || first.s == "typedef" || first.s == "class" || first.s == "interface" || first.s == "enum")
		done := false
		for i < n && !done {
			t := toks[i]
			if t.k != tkPunct {
				i++
				continue
			}
			switch t.s {
			case "(":
				depthParen++
			case ")":
				depthParen--
			case "[":
				depthBrack++
			case "]":
				depthBrack--
			case "=":
				if depthParen == 0 && depthBrack == 0 {
					sawAssign = true
				}
			case ";":
				if depthParen == 0 && depthBrack == 0 {
					i++
					done = true
					continue
				}
			case "{":
				// match braces
				d := 0
				j := i
				for ; j < n; j++ {
					if toks[j].k == tkPunct {
						if toks[j].s == "{" {
							d++
						} else if toks[j].s == "}" {
							d--
							if d == 0 {
								break
							}
						}
					}
				}
				if j >= n {
					return nil, &syntaxError{t.line, "unbalanced '{'"}
				}
				i = j + 1
				if !(wantSemi || sawAssign) {
					// function body / cbuffer / namespace: optional trailing ';'
					if i < n && toks[i].k == tkPunct && toks[i].s == ";" {
						i++
					}
					done = true
				}
				continue
			case "}":
				return nil, &syntaxError{t.line, "unbalanced '}'"}
			}
			if depthParen < 0 || depthBrack < 0 {
				return nil, &syntaxError{t.line, "unbalanced bracket"}
			}
			i++
		}
		if !done {
			return nil, &syntaxError{toks[n].line, "unexpected end of file in declaration starting at line " + fmt.Sprint(first.line)}
		}
		out = append(out, [2]int{start, i})
	}
	return out, nil
}

// chunkName guesses the declared name of a chunk we could not parse.
func chunkName(toks []token) (name string, isFunc, isType bool) {
	i := 0
	// leading attributes
	for i < len(toks) && toks[i].k == tkPunct && toks[i].s == "[" {
		d := 0
		for ; i < len(toks); i++ {
			if toks[i].k == tkPunct && toks[i].s == "[" {
				d++
			} else if toks[i].k == tkPunct && toks[i].s == "]" {
				d--
				if d == 0 {
					i++
					break
				}
			}
		}
	}
	if i < len(toks) && toks[i].k == tkIdent && toks[i].s == "struct" {
		if i+1 < len(toks) && toks[i+1].k == tkIdent {
			return toks[i+1].s, false, true
		}
		return "", false, true
	}
	if i < len(toks) && toks[i].k == tkIdent && toks[i].s == "typedef" {
		// last identifier before ';' or before the first '[' following it
		last := ""
		d := 0
		for j := i + 1; j < len(toks); j++ {
			t := toks[j]
			if t.k == tkPunct && t.s == "{" {
				d++
			} else if t.k == tkPunct && t.s == "}" {
				d--
			} else if d == 0 && t.k == tkIdent {
				last = t.s
			} else if d == 0 && t.k == tkPunct && t.s == "[" {
				break
			}
		}
		return last, false, true
	}
	angle := 0
	prev := ""
	for ; i < len(toks); i++ {
		t := toks[i]
		if t.k == tkIdent {
			if angle == 0 {
				prev = t.s
			}
			continue
		}
		if t.k != tkPunct {
			continue
		}
		switch t.s {
		case "<":
			angle++
		case ">":
			if angle > 0 {
				angle--
			}
		case "(":
			return prev, true, false
		case ":", ";", "=", "[", "{":
			return prev, false, false
		}
	}
	return prev, false, false
}

// ---- program-level parsing ----

func parseProgram(src string) (*Program, error) {
	toks, err := lex(src)
	if err != nil {
		return nil, err
	}
	chunks, err := splitChunks(toks)
	if err != nil {
		return nil, err
	}
	prog := &Program{
		typeNames:    map[string]*Type{},
		skippedTypes: map[string]string{},
	}
	p := &parser{toks: toks, prog: prog}
	for _, c := range chunks {
		if err := p.parseChunk(c[0], c[1]); err != nil {
			return nil, err
		}
	}
	return prog, nil
}

func (p *parser) parseChunk(start, end int) (err error) {
	p.pos, p.end = start, end
	nTypes, nGlobals, nFuncs, nStructs, nOrder := len(p.prog.typeDecls), len(p.prog.globals), len(p.prog.funcs), len(p.prog.structs), len(p.prog.order)
	defer func() {
		r := recover()
		if r == nil {
			return
		}
		pp, ok := r.(parsePanic)
		if !ok {
			panic(r)
		}
		u, isUnsup := pp.err.(*xrt.Unsupported)
		if !isUnsup {
			err = pp.err
			return
		}
		// roll back partial declarations of this chunk and record it as skipped
		for _, td := range p.prog.typeDecls[nTypes:] {
			delete(p.prog.typeNames, td.Name)
		}
		p.prog.typeDecls = p.prog.typeDecls[:nTypes]
		p.prog.globals = p.prog.globals[:nGlobals]
		p.prog.funcs = p.prog.funcs[:nFuncs]
		p.prog.structs = p.prog.structs[:nStructs]
		p.prog.order = p.prog.order[:nOrder]
		name, isFunc, isType := chunkName(p.toks[start:end])
		line := p.toks[start].line
		switch {
		case name == "":
			// cannot even name it: the whole text is inconclusive
			err = u
		case isType:
			p.prog.skippedTypes[name] = u.What
		case isFunc:
			f := &Func{Name: name, Line: line, Unsupported: u.What, Ret: tVoid, Stub: true}
			// detect numthreads so that Entries() still lists it
			for i := start; i+7 < end; i++ {
				if p.toks[i].k == tkIdent && p.toks[i].s == "numthreads" && p.toks[i+2].k == tkInt && p.toks[i+4].k == tkInt && p.toks[i+6].k == tkInt {
					f.NumThreads = &[3]uint32{uint32(p.toks[i+2].u), uint32(p.toks[i+4].u), uint32(p.toks[i+6].u)}
					break
				}
			}
			p.prog.addFunc(f)
		default:
			p.prog.addGlobal(&Global{Name: name, Kind: GSkipped, Line: line, Why: u.What})
		}
	}()
	p.parseTopLevel()
	if p.pos != p.end {
		p.failf("unexpected %q", p.cur().String())
	}
	return nil
}

func (p *parser) parseTopLevel() {
	t := p.cur()
	if t.k == tkPunct && t.s == "[" {
		p.parseFunction(p.parseAttributes())
		return
	}
	if t.k != tkIdent {
		p.failf("unexpected %q at top level", t.String())
	}
	switch t.s {
	case "struct":
		p.parseStructDecl()
		return
	case "typedef":
		p.parseTypedef()
		return
	case "cbuffer":
		p.parseCBuffer()
		return
	case "ConstantBuffer":
		p.parseConstantBuffer()
		return
	case "namespace", "class", "interface", "enum", "template", "tbuffer", "export", "using":
		p.unsupf("%s declaration", t.s)
	}
	// qualifiers + type + name
	q := p.parseQualifiers()
	if tk := p.cur(); tk.k == tkIdent && unsupportedResourceTypes[tk.s] {
		p.unsupf("resource type %s", tk.s)
	}
	save := p.pos
	ty := p.parseTypeName()
	name := p.expectIdent()
	if p.isP("(") {
		p.pos = save
		p.parseFunctionWithQuals(nil, q)
		return
	}
	p.parseGlobalVarRest(q, ty, name)
}

type quals struct {
	static, isConst, shared, rowMajor, colMajor, in, out, inout, uniform bool
}

func (p *parser) parseQualifiers() quals {
	var q quals
	for {
		t := p.cur()
		if t.k != tkIdent {
			return q
		}
		switch t.s {
		case "static":
			q.static = true
		case "const":
			q.isConst = true
		case "groupshared":
			q.shared = true
		case "row_major":
			q.rowMajor = true
		case "column_major":
			q.colMajor = true
		case "uniform":
			q.uniform = true
		case "precise", "nointerpolation", "linear", "centroid", "noperspective", "sample", "inline":
			// no effect on compute semantics
		case "volatile", "extern", "shared", "snorm", "unorm", "globallycoherent", "unsigned":
			p.unsupf("qualifier %s", t.s)
		default:
			return q
		}
		p.pos++
	}
}

// isTypeStart reports whether the current token begins a type name.
func (p *parser) isTypeStart() bool {
	t := p.cur()
	if t.k != tkIdent {
		return false
	}
	if _, _, ok := builtinType(t.s); ok {
		return true
	}
	if _, ok := p.prog.typeNames[t.s]; ok {
		return true
	}
	if _, ok := p.prog.skippedTypes[t.s]; ok {
		return true
	}
	if t.s == "vector" || t.s == "matrix" || t.s == "struct" {
		return true
	}
	return unsupportedResourceTypes[t.s]
}

func (p *parser) parseTypeName() *Type {
	t := p.cur()
	if t.k != tkIdent {
		p.failf("expected type name, found %q", t.String())
	}
	if t.s == "struct" {
		// "struct Name" elaborated specifier
		p.pos++
		t = p.cur()
		if t.k != tkIdent {
			p.unsupf("anonymous struct type")
		}
	}
	if bt, unsup, ok := builtinType(t.s); ok {
		if unsup != "" {
			p.unsupf("%s", unsup)
		}
		p.pos++
		return bt
	}
	if ty, ok := p.prog.typeNames[t.s]; ok {
		p.pos++
		return ty
	}
	if why, ok := p.prog.skippedTypes[t.s]; ok {
		p.unsupf("type %s was skipped (%s)", t.s, why)
	}
	if unsupportedResourceTypes[t.s] {
		p.unsupf("resource type %s", t.s)
	}
	switch t.s {
	case "vector":
		p.pos++
		if !p.isP("<") {
			return vecOf(tFloat, 4)
		}
		p.pos++
		el := p.parseTypeName()
		if !el.isScalar() {
			p.failf("vector element type must be scalar")
		}
		p.expectP(",")
		n := p.parseConstInt()
		p.expectP(">")
		if n < 1 || n > 4 {
			p.failf("vector size out of range")
		}
		if n == 1 {
			p.unsupf("1-component vector")
		}
		return vecOf(el, n)
	case "matrix":
		p.pos++
		if !p.isP("<") {
			return matOf(tFloat, 4, 4)
		}
		p.pos++
		el := p.parseTypeName()
		if !el.isScalar() {
			p.failf("matrix element type must be scalar")
		}
		p.expectP(",")
		r := p.parseConstInt()
		p.expectP(",")
		c := p.parseConstInt()
		p.expectP(">")
		if r < 1 || r > 4 || c < 1 || c > 4 {
			p.failf("matrix size out of range")
		}
		if r == 1 || c == 1 {
			p.unsupf("1-dimension matrix")
		}
		return matOf(el, r, c)
	}
	p.failf("unknown type name %q", t.s)
	return nil
}

// parseConstInt parses a literal array dimension.
func (p *parser) parseConstInt() int {
	t := p.cur()
	if t.k != tkInt {
		p.unsupf("non-literal constant dimension %q", t.String())
	}
	p.pos++
	return int(t.u)
}

// parseArrayDims parses zero or more [N] suffixes and wraps the type (outer dimension first).
func (p *parser) parseArrayDims(elem *Type) *Type {
	var dims []int
	for p.isP("[") {
		p.pos++
		if p.isP("]") {
			p.unsupf("unsized array")
		}
		n := p.parseConstInt()
		if n <= 0 {
			p.failf("array dimension must be positive")
		}
		p.expectP("]")
		dims = append(dims, n)
	}
	ty := elem
	for i := len(dims) - 1; i >= 0; i-- {
		if ty.flatLen()*dims[i] > 1<<22 {
			p.unsupf("array too large")
		}
		ty = arrayOf(ty, dims[i])
	}
	return ty
}

func (p *parser) declareType(name string, line int, ty *Type) {
	p.prog.typeDecls = append(p.prog.typeDecls, typeDecl{name, line, ty})
	if _, dup := p.prog.typeNames[name]; !dup {
		p.prog.typeNames[name] = ty
	}
}

func (p *parser) parseStructBody(name string, line int) *Type {
	p.expectP("{")
	sd := &StructDef{Name: name, Line: line}
	for !p.isP("}") {
		q := p.parseQualifiers()
		mt := p.parseTypeName()
		for {
			mn := p.expectIdent()
			ty := p.parseArrayDims(mt)
			m := Member{Name: mn.s, T: ty, RowMajor: q.rowMajor, ColMajor: q.colMajor, Line: mn.line}
			if p.acceptP(":") {
				if p.isKw("packoffset") {
					p.unsupf("packoffset")
				}
				m.Semantic = p.expectIdent().s
			}
			if ty.K == KBuf || ty.K == KVoid {
				p.unsupf("struct member of type %s", ty)
			}
			sd.Members = append(sd.Members, m)
			if !p.acceptP(",") {
				break
			}
		}
		p.expectP(";")
	}
	p.expectP("}")
	if len(sd.Members) == 0 {
		p.unsupf("empty struct")
	}
	ty := &Type{K: KStruct, S: sd}
	p.prog.structs = append(p.prog.structs, sd)
	return ty
}

func (p *parser) parseStructDecl() {
	kw := p.next() // struct
	name := p.expectIdent()
	if p.isP(":") {
		p.unsupf("struct inheritance")
	}
	ty := p.parseStructBody(name.s, kw.line)
	p.declareType(name.s, name.line, ty)
	if !p.isP(";") {
		p.unsupf("variable declared with struct definition")
	}
	p.expectP(";")
}

func (p *parser) parseTypedef() {
	p.next() // typedef
	var base *Type
	if p.isKw("struct") && (p.isPN(1, "{") || p.isPN(2, "{")) {
		kw := p.next()
		tag := ""
		if p.cur().k == tkIdent {
			tag = p.next().s
		}
		// the typedef name is needed for the struct's display name: look ahead after the body
		base = p.parseStructBody(tag, kw.line)
		if tag != "" {
			p.declareType(tag, kw.line, base)
		}
	} else {
		p.parseQualifiers()
		base = p.parseTypeName()
	}
	name := p.expectIdent()
	ty := p.parseArrayDims(base)
	if base.K == KStruct && base.S.Name == "" {
		base.S.Name = name.s
	}
	p.declareType(name.s, name.line, ty)
	p.expectP(";")
}

func (p *parser) parseRegister() slotInfo {
	// after ':'
	if !p.isKw("register") {
		p.unsupf("global variable semantic/packoffset %q", p.cur().String())
	}
	p.next()
	p.expectP("(")
	r := p.expectIdent()
	var s slotInfo
	if len(r.s) < 2 || (r.s[0] != 'u' && r.s[0] != 't' && r.s[0] != 'b' && r.s[0] != 's') {
		p.failf("malformed register %q", r.s)
	}
	s.Class = r.s[0]
	for _, c := range r.s[1:] {
		if c < '0' || c > '9' {
			p.failf("malformed register %q", r.s)
		}
		s.Reg = s.Reg*10 + uint32(c-'0')
	}
	if p.acceptP(",") {
		sp := p.expectIdent()
		if len(sp.s) < 6 || sp.s[:5] != "space" {
			p.failf("malformed register space %q", sp.s)
		}
		for _, c := range sp.s[5:] {
			if c < '0' || c > '9' {
				p.failf("malformed register space %q", sp.s)
			}
			s.Space = s.Space*10 + uint32(c-'0')
		}
	}
	p.expectP(")")
	s.Has = true
	return s
}

func (p *parser) parseCBuffer() {
	p.next() // cbuffer
	cbName := p.expectIdent()
	var slot slotInfo
	if p.acceptP(":") {
		slot = p.parseRegister()
		if slot.Class != 'b' {
			p.failf("cbuffer must be bound to a b register")
		}
	}
	p.expectP("{")
	n := 0
	for !p.isP("}") {
		q := p.parseQualifiers()
		ty := p.parseTypeName()
		name := p.expectIdent()
		ty = p.parseArrayDims(ty)
		if p.isP(":") {
			p.unsupf("packoffset")
		}
		p.expectP(";")
		n++
		if n > 1 {
			p.unsupf("cbuffer with several members")
		}
		p.prog.addGlobal(&Global{Name: name.s, Kind: GUniform, T: ty, Slot: slot,
			RowMajor: q.rowMajor, ColMajor: q.colMajor, Line: name.line, CBName: cbName.s})
	}
	p.expectP("}")
	p.acceptP(";")
	if n == 0 {
		p.unsupf("empty cbuffer")
	}
}

func (p *parser) parseConstantBuffer() {
	p.next()
	p.expectP("<")
	ty := p.parseTypeName()
	p.expectP(">")
	name := p.expectIdent()
	if p.isP("[") {
		p.unsupf("ConstantBuffer array")
	}
	var slot slotInfo
	if p.acceptP(":") {
		slot = p.parseRegister()
		if slot.Class != 'b' {
			p.failf("ConstantBuffer must be bound to a b register")
		}
	}
	p.expectP(";")
	if ty.K != KStruct {
		p.unsupf("ConstantBuffer of non-struct type")
	}
	p.prog.addGlobal(&Global{Name: name.s, Kind: GUniform, T: ty, Slot: slot, Line: name.line, CBName: name.s})
}

func (p *parser) parseGlobalVarRest(q quals, base *Type, name token) {
	ty := p.parseArrayDims(base)
	g := &Global{Name: name.s, T: ty, Line: name.line, RowMajor: q.rowMajor, ColMajor: q.colMajor}
	if p.acceptP(":") {
		g.Slot = p.parseRegister()
	}
	if p.acceptP("=") {
		g.Init = p.parseInitializer()
	}
	if p.isP(",") {
		p.unsupf("multiple declarators")
	}
	p.expectP(";")
	switch {
	case base.K == KBuf:
		if ty.K != KBuf {
			p.unsupf("array of buffers")
		}
		if q.static || q.shared {
			p.unsupf("static/groupshared buffer object")
		}
		if !g.Slot.Has {
			p.unsupf("buffer without register binding")
		}
		want := byte('t')
		if ty.RW {
			want = 'u'
		}
		if g.Slot.Class != want {
			p.failf("%s bound to register class %q", ty, string(g.Slot.Class))
		}
		if g.Init != nil {
			p.failf("buffer object with initialiser")
		}
		g.Kind = GBuffer
	case ty.K == KVoid:
		p.failf("variable of type void")
	case q.shared:
		if g.Init != nil {
			p.failf("groupshared variable with initialiser")
		}
		g.Kind = GShared
	case q.static && q.isConst:
		g.Kind = GStaticConst
		if g.Init == nil {
			p.failf("static const without initialiser")
		}
	case q.static:
		g.Kind = GStatic
	default:
		// a non-static global is an implicit $Globals constant buffer member
		p.unsupf("non-static global variable %s ($Globals constant)", name.s)
	}
	p.prog.addGlobal(g)
}

// ---- functions ----

type attr struct {
	name string
	args []token
	line int
}

func (p *parser) parseAttributes() []attr {
	var out []attr
	for p.isP("[") {
		p.next()
		n := p.expectIdent()
		a := attr{name: n.s, line: n.line}
		if p.acceptP("(") {
			for !p.isP(")") {
				t := p.next()
				if t.k == tkEOF {
					p.failf("unterminated attribute")
				}
				if t.k == tkPunct && t.s == "," {
					continue
				}
				a.args = append(a.args, t)
			}
			p.expectP(")")
		}
		p.expectP("]")
		out = append(out, a)
	}
	return out
}

func (p *parser) parseFunction(attrs []attr) {
	q := p.parseQualifiers()
	p.parseFunctionWithQuals(attrs, q)
}

func (p *parser) parseFunctionWithQuals(attrs []attr, _ quals) {
	ret := p.parseTypeName()
	name := p.expectIdent()
	f := &Func{Name: name.s, Ret: ret, Line: name.line}
	for _, a := range attrs {
		if a.name == "numthreads" {
			if len(a.args) != 3 {
				p.failf("numthreads needs 3 arguments")
			}
			var nt [3]uint32
			for i, t := range a.args {
				if t.k != tkInt || t.u == 0 {
					p.unsupf("non-literal numthreads argument")
				}
				nt[i] = uint32(t.u)
			}
			f.NumThreads = &nt
		}
	}
	if ret.K == KArray {
		// legal only through a typedef, which is how we got here
	}
	p.expectP("(")
	for !p.isP(")") {
		if len(f.Params) > 0 {
			p.expectP(",")
		}
		prm := &Param{In: true}
		// direction / qualifiers in any order
		for {
			t := p.cur()
			if t.k != tkIdent {
				break
			}
			stop := false
			switch t.s {
			case "in":
				prm.In = true
			case "out":
				prm.Out, prm.In = true, false
			case "inout":
				prm.In, prm.Out = true, true
			case "const", "precise", "nointerpolation", "linear", "centroid", "noperspective", "sample", "uniform", "row_major", "column_major":
			default:
				stop = true
			}
			if stop {
				break
			}
			p.pos++
		}
		if p.isKw("void") && p.isPN(1, ")") && len(f.Params) == 0 {
			p.pos++
			break
		}
		pt := p.parseTypeName()
		pn := p.expectIdent()
		prm.Name, prm.Line = pn.s, pn.line
		prm.T = p.parseArrayDims(pt)
		if prm.T.K == KVoid {
			p.failf("parameter of type void")
		}
		if p.acceptP(":") {
			prm.Semantic = p.expectIdent().s
		}
		if p.isP("=") {
			p.unsupf("default parameter value")
		}
		f.Params = append(f.Params, prm)
	}
	p.expectP(")")
	if p.acceptP(":") {
		f.RetSemantic = p.expectIdent().s
	}
	if p.isP(";") {
		p.unsupf("function prototype")
	}
	// Register the function before parsing the body so that a body outside the
	// subset keeps the correct signature.
	bodyStart := p.pos
	func() {
		defer func() {
			if r := recover(); r != nil {
				pp, ok := r.(parsePanic)
				if !ok {
					panic(r)
				}
				if u, ok := pp.err.(*xrt.Unsupported); ok {
					f.Unsupported = u.What
					f.Body = nil
					p.pos = p.end
					_ = bodyStart
					return
				}
				panic(r)
			}
		}()
		f.Body = p.parseBlock()
		p.acceptP(";")
	}()
	p.prog.addFunc(f)
}

// ---- statements ----

func (p *parser) parseBlock() *Block {
	lb := p.expectP("{")
	b := &Block{stmtBase: stmtBase{lb.line}}
	for !p.isP("}") {
		if p.cur().k == tkEOF {
			p.failf("unexpected end of input in block")
		}
		b.Stmts = append(b.Stmts, p.parseStmt())
	}
	p.expectP("}")
	return b
}

func (p *parser) isDeclStart() bool {
	t := p.cur()
	if t.k != tkIdent {
		return false
	}
	switch t.s {
	case "const", "static", "row_major", "column_major", "precise", "groupshared":
		return true
	}
	if !p.isTypeStart() {
		return false
	}
	// type followed by identifier => declaration; "float3(" => expression
	n := p.peekN(1)
	if n.k == tkIdent {
		return true
	}
	if n.k == tkPunct && n.s == "<" && (t.s == "vector" || t.s == "matrix") {
		return true
	}
	return false
}

func (p *parser) parseVarDecl() Stmt {
	q := p.parseQualifiers()
	if q.shared {
		p.failf("groupshared variable inside a function")
	}
	if q.static {
		p.unsupf("function-scope static variable")
	}
	base := p.parseTypeName()
	name := p.expectIdent()
	ty := p.parseArrayDims(base)
	d := &VarDecl{stmtBase: stmtBase{name.line}, Name: name.s, T: ty, Const: q.isConst}
	if ty.K == KVoid {
		p.failf("variable of type void")
	}
	if ty.K == KBuf {
		p.unsupf("local buffer object variable")
	}
	if p.acceptP("=") {
		d.Init = p.parseInitializer()
	}
	if p.isP(",") {
		p.unsupf("multiple declarators")
	}
	p.expectP(";")
	return d
}

func (p *parser) parseInitializer() Expr {
	if p.isP("{") {
		lb := p.next()
		il := &InitList{exprBase: exprBase{Line: lb.line}}
		for !p.isP("}") {
			il.Elems = append(il.Elems, p.parseInitializer())
			if !p.acceptP(",") {
				break
			}
		}
		p.expectP("}")
		return il
	}
	return p.parseAssignExpr()
}

func (p *parser) parseStmt() Stmt {
	t := p.cur()
	if t.k == tkPunct {
		switch t.s {
		case "{":
			return p.parseBlock()
		case ";":
			p.next()
			return &Empty{stmtBase{t.line}}
		case "[":
			p.parseAttributes()
			return p.parseStmt()
		}
	}
	if t.k == tkIdent {
		switch t.s {
		case "if":
			p.next()
			p.expectP("(")
			c := p.parseExpr()
			p.expectP(")")
			s := &If{stmtBase: stmtBase{t.line}, Cond: c}
			s.Then = p.parseStmt()
			if p.isKw("else") {
				p.next()
				s.Else = p.parseStmt()
			}
			return s
		case "switch":
			return p.parseSwitch()
		case "while":
			p.next()
			p.expectP("(")
			c := p.parseExpr()
			p.expectP(")")
			return &While{stmtBase: stmtBase{t.line}, Cond: c, Body: p.parseStmt()}
		case "do":
			p.next()
			body := p.parseStmt()
			if !p.isKw("while") {
				p.failf("expected 'while' after do body")
			}
			p.next()
			p.expectP("(")
			c := p.parseExpr()
			p.expectP(")")
			p.expectP(";")
			return &DoWhile{stmtBase: stmtBase{t.line}, Body: body, Cond: c}
		case "for":
			p.next()
			p.expectP("(")
			s := &For{stmtBase: stmtBase{t.line}}
			if !p.isP(";") {
				if p.isDeclStart() {
					s.Init = p.parseVarDecl() // consumes ';'
				} else {
					e := p.parseExpr()
					s.Init = &ExprStmt{stmtBase{t.line}, e}
					p.expectP(";")
				}
			} else {
				p.next()
			}
			if !p.isP(";") {
				s.Cond = p.parseExpr()
			}
			p.expectP(";")
			if !p.isP(")") {
				s.Post = p.parseExpr()
			}
			p.expectP(")")
			s.Body = p.parseStmt()
			return s
		case "break":
			p.next()
			p.expectP(";")
			return &Break{stmtBase{t.line}}
		case "continue":
			p.next()
			p.expectP(";")
			return &Continue{stmtBase{t.line}}
		case "return":
			p.next()
			r := &Return{stmtBase: stmtBase{t.line}}
			if !p.isP(";") {
				r.X = p.parseExpr()
			}
			p.expectP(";")
			return r
		case "discard":
			p.unsupf("discard")
		case "typedef", "struct":
			p.unsupf("local type declaration")
		case "else", "case", "default":
			p.failf("unexpected %q", t.s)
		}
		if p.isDeclStart() {
			return p.parseVarDecl()
		}
	}
	e := p.parseExpr()
	p.expectP(";")
	return &ExprStmt{stmtBase{t.line}, e}
}

func (p *parser) parseSwitch() Stmt {
	kw := p.next()
	p.expectP("(")
	sel := p.parseExpr()
	p.expectP(")")
	p.expectP("{")
	sw := &Switch{stmtBase: stmtBase{kw.line}, Sel: sel}
	var cur *SwitchCase
	for !p.isP("}") {
		t := p.cur()
		if t.k == tkEOF {
			p.failf("unexpected end of input in switch")
		}
		if t.k == tkIdent && (t.s == "case" || t.s == "default") {
			// consecutive labels share one body
			if cur == nil || len(cur.Body) > 0 {
				cur = &SwitchCase{Line: t.line}
				sw.Cases = append(sw.Cases, cur)
			}
			p.next()
			if t.s == "default" {
				cur.Default = true
			} else {
				cur.Vals = append(cur.Vals, p.parseTernary())
			}
			p.expectP(":")
			continue
		}
		if cur == nil {
			p.failf("statement before first case label in switch")
		}
		cur.Body = append(cur.Body, p.parseStmt())
	}
	p.expectP("}")
	return sw
}

// ---- expressions ----

func (p *parser) parseExpr() Expr {
	e := p.parseAssignExpr()
	if p.isP(",") {
		p.unsupf("comma operator")
	}
	return e
}

var assignOps = map[string]bool{"=": true, "+=": true, "-=": true, "*=": true, "/=": true, "%=": true,
	"&=": true, "|=": true, "^=": true, "<<=": true, ">>=": true}

func (p *parser) parseAssignExpr() Expr {
	l := p.parseTernary()
	t := p.cur()
	if t.k == tkPunct && assignOps[t.s] {
		p.next()
		r := p.parseAssignExpr()
		return &Assign{exprBase: exprBase{Line: t.line}, Op: t.s, L: l, R: r}
	}
	return l
}

func (p *parser) parseTernary() Expr {
	c := p.parseBinary(0)
	if p.isP("?") {
		q := p.next()
		a := p.parseAssignExpr()
		p.expectP(":")
		b := p.parseAssignExpr()
		return &Ternary{exprBase: exprBase{Line: q.line}, C: c, A: a, B: b}
	}
	return c
}

var binPrec = map[string]int{
	"||": 1, "&&": 2, "|": 3, "^": 4, "&": 5, "==": 6, "!=": 6,
	"<": 7, ">": 7, "<=": 7, ">=": 7, "<<": 8, ">>": 8, "+": 9, "-": 9, "*": 10, "/": 10, "%": 10,
}

func (p *parser) parseBinary(minPrec int) Expr {
	l := p.parseUnary()
	for {
		t := p.cur()
		if t.k != tkPunct {
			return l
		}
		pr, ok := binPrec[t.s]
		if !ok || pr <= minPrec {
			return l
		}
		p.next()
		r := p.parseBinary(pr)
		l = &Binary{exprBase: exprBase{Line: t.line}, Op: t.s, L: l, R: r}
	}
}

func (p *parser) parseUnary() Expr {
	t := p.cur()
	if t.k == tkPunct {
		switch t.s {
		case "-", "+", "!", "~":
			p.next()
			x := p.parseUnary()
			return &Unary{exprBase: exprBase{Line: t.line}, Op: t.s, X: x}
		case "++", "--":
			p.next()
			x := p.parseUnary()
			return &IncDec{exprBase: exprBase{Line: t.line}, Op: t.s, Prefix: true, X: x}
		case "(":
			// cast?
			save := p.pos
			p.next()
			if p.isKw("const") {
				p.next()
			}
			if p.isTypeStart() && !p.isPN(1, "(") && !p.isPN(1, ".") {
				ty := p.parseTypeName()
				ty = p.parseArrayDims(ty)
				if p.isP(")") {
					p.next()
					x := p.parseUnary()
					return &Cast{exprBase: exprBase{Line: t.line}, To: ty, X: x}
				}
			}
			p.pos = save
		}
	}
	return p.parsePostfix()
}

func (p *parser) parseArgs() []Expr {
	p.expectP("(")
	var args []Expr
	for !p.isP(")") {
		if len(args) > 0 {
			p.expectP(",")
		}
		args = append(args, p.parseAssignExpr())
	}
	p.expectP(")")
	return args
}

func (p *parser) parsePrimary() Expr {
	t := p.cur()
	switch t.k {
	case tkInt:
		p.next()
		return &IntLit{exprBase: exprBase{Line: t.line}, Val: uint32(t.u), Unsigned: t.uns}
	case tkFloat:
		p.next()
		return &FloatLit{exprBase: exprBase{Line: t.line}, Val: t.f}
	case tkPunct:
		if t.s == "(" {
			p.next()
			e := p.parseExpr()
			p.expectP(")")
			return e
		}
		if t.s == "{" {
			p.failf("initialiser list is not allowed here")
		}
		p.failf("unexpected %q in expression", t.s)
	case tkIdent:
		switch t.s {
		case "true", "false":
			p.next()
			return &BoolLit{exprBase: exprBase{Line: t.line}, Val: t.s == "true"}
		}
		if p.isTypeStart() {
			if t.s == "struct" {
				p.failf("unexpected 'struct' in expression")
			}
			ty := p.parseTypeName()
			if !p.isP("(") {
				p.failf("expected '(' after type name %s in expression", ty)
			}
			args := p.parseArgs()
			return &Ctor{exprBase: exprBase{Line: t.line}, To: ty, Args: args}
		}
		p.next()
		if p.isP("(") {
			args := p.parseArgs()
			return &Call{exprBase: exprBase{Line: t.line}, Name: t.s, Args: args}
		}
		if p.isP("::") {
			p.unsupf("scope resolution")
		}
		return &Ident{exprBase: exprBase{Line: t.line}, Name: t.s}
	case tkEOF:
		p.failf("unexpected end of input in expression")
	}
	p.failf("unexpected token in expression")
	return nil
}

func (p *parser) parsePostfix() Expr {
	e := p.parsePrimary()
	for {
		t := p.cur()
		if t.k != tkPunct {
			return e
		}
		switch t.s {
		case ".":
			p.next()
			n := p.expectIdent()
			if p.isP("<") && (len(n.s) >= 4 && (n.s[:4] == "Load" || n.s[:4] == "Stor")) {
				p.unsupf("templated buffer method %s<>", n.s)
			}
			if p.isP("(") {
				args := p.parseArgs()
				e = &MethodCall{exprBase: exprBase{Line: t.line}, X: e, Name: n.s, Args: args}
			} else {
				e = &MemberExpr{exprBase: exprBase{Line: t.line}, X: e, Name: n.s, Field: -1}
			}
		case "[":
			p.next()
			i := p.parseExpr()
			p.expectP("]")
			e = &Index{exprBase: exprBase{Line: t.line}, X: e, I: i}
		case "++", "--":
			p.next()
			e = &IncDec{exprBase: exprBase{Line: t.line}, Op: t.s, X: e}
		case "(":
			p.failf("call of a non-function expression")
		case "->":
			p.failf("'->' is not an HLSL operator")
		default:
			return e
		}
	}
}
