package hlslx

// ---- expressions ----

type Expr interface {
	line() int
	typ() *Type
}

type exprBase struct {
	Line int
	T    *Type // set by the checker
}

func (e *exprBase) line() int  { return e.Line }
func (e *exprBase) typ() *Type { return e.T }

type (
	Ident struct {
		exprBase
		Name string
		Sym  *symbol // resolved by the checker
	}
	IntLit struct {
		exprBase
		Val      uint32
		Unsigned bool
	}
	FloatLit struct {
		exprBase
		Val float32
	}
	BoolLit struct {
		exprBase
		Val bool
	}
	Unary struct {
		exprBase
		Op string // - + ! ~
		X  Expr
	}
	IncDec struct {
		exprBase
		Op     string // ++ --
		Prefix bool
		X      Expr
	}
	Binary struct {
		exprBase
		Op   string
		L, R Expr
	}
	Assign struct {
		exprBase
		Op   string // "=" or compound "+=" ...
		L, R Expr
		// compound: the checker fills OpT (type the operation is performed in)
		OpT *Type
	}
	Ternary struct {
		exprBase
		C, A, B Expr
	}
	Call struct {
		exprBase
		Name string
		Args []Expr
		// resolution
		Fn        *Func  // user function
		Intrinsic string // intrinsic name when Fn == nil
		OpT       *Type  // intrinsic: unified operand type
		Ambiguous bool
	}
	Ctor struct { // float3(a, b, c), int(x)
		exprBase
		To   *Type
		Args []Expr
	}
	Cast struct { // (T)x
		exprBase
		To *Type
		X  Expr
	}
	Conv struct { // implicit conversion inserted by the checker
		exprBase
		X Expr
	}
	MemberExpr struct {
		exprBase
		X    Expr
		Name string
		// resolution
		Field   int   // struct member index, -1 for swizzle
		Swizzle []int // component indices (vector or scalar swizzle); matrix-row-major offsets for _mXY
	}
	Index struct {
		exprBase
		X, I Expr
	}
	MethodCall struct {
		exprBase
		X    Expr
		Name string
		Args []Expr
	}
	InitList struct {
		exprBase
		Elems []Expr
	}
)

// ---- statements ----

type Stmt interface{ sline() int }

type stmtBase struct{ Line int }

func (s *stmtBase) sline() int { return s.Line }

type (
	Block struct {
		stmtBase
		Stmts []Stmt
	}
	VarDecl struct {
		stmtBase
		Name  string
		T     *Type
		Init  Expr
		Const bool
		Sym   *symbol
	}
	ExprStmt struct {
		stmtBase
		X Expr
	}
	If struct {
		stmtBase
		Cond Expr
		Then Stmt
		Else Stmt
	}
	SwitchCase struct {
		Vals    []Expr // labels; nil entries never
		Default bool
		Body    []Stmt
		Line    int
		Consts  []uint32 // label values as bit patterns (set by the checker)
	}
	Switch struct {
		stmtBase
		Sel   Expr
		Cases []*SwitchCase
	}
	While struct {
		stmtBase
		Cond Expr
		Body Stmt
	}
	DoWhile struct {
		stmtBase
		Body Stmt
		Cond Expr
	}
	For struct {
		stmtBase
		Init Stmt // VarDecl, ExprStmt or nil
		Cond Expr
		Post Expr
		Body Stmt
	}
	Break    struct{ stmtBase }
	Continue struct{ stmtBase }
	Return   struct {
		stmtBase
		X Expr
	}
	Empty struct{ stmtBase }
)

// ---- declarations ----

type Param struct {
	Name     string
	T        *Type
	Out, In  bool // in (default) / out / inout => In&&Out
	Semantic string
	Line     int
	Sym      *symbol
}

type Func struct {
	Name        string
	Ret         *Type
	Params      []*Param
	Body        *Block
	Line        int
	NumThreads  *[3]uint32 // non-nil for compute entry points
	RetSemantic string
	Unsupported string // non-empty: body could not be parsed (outside subset); calling it is inconclusive
	Stub        bool   // even the signature is unknown
	NLocals     int    // frame size (params + locals)
	TypeErr     bool   // the checker reported an error inside this function
}

type GlobalKind uint8

const (
	GStatic      GlobalKind = iota // static (private) variable
	GStaticConst                   // static const
	GShared                        // groupshared
	GBuffer                        // (RW)ByteAddressBuffer
	GUniform                       // cbuffer member / ConstantBuffer<T>
	GSkipped                       // unsupported resource (texture, sampler, ...)
)

type Global struct {
	Name     string
	Kind     GlobalKind
	T        *Type
	Init     Expr
	Slot     slotInfo
	RowMajor bool // uniform matrix declared row_major
	ColMajor bool
	Line     int
	Why      string // GSkipped: reason
	Sym      *symbol
	CBName   string // name of the enclosing cbuffer
}

type slotInfo struct {
	Class byte // 'u','t','b', 0 if none
	Reg   uint32
	Space uint32
	Has   bool
}

// symbol is a resolved name.
type symbol struct {
	Name   string
	T      *Type
	Global *Global // non-nil for module-scope variables
	Const  bool
	Param  *Param
	id     int // local slot index within the function frame (locals/params)
}
