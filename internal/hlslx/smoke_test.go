package hlslx

import "testing"

func TestSmoke(t *testing.T) {
	rc := runCase{
		wgsl: `
@group(0) @binding(0) var<storage, read_write> outb: array<u32>;
@compute @workgroup_size(4)
fn main(@builtin(global_invocation_id) gid: vec3<u32>) {
  outb[gid.x] = gid.x * 3u + 1u;
}`,
		bufs:     map[string][]byte{"outb": make([]byte, 32)},
		dispatch: [3]uint32{2, 1, 1},
	}
	bufs, res, _ := rc.run(t)
	expectNoTraps(t, res)
	expectU32(t, "outb", bufs["outb"], 1, 4, 7, 10, 13, 16, 19, 22)
	t.Logf("steps=%d cov=%v", res.Steps, res.Cov)
}
