package hlslx

import "encoding/binary"

// Constant-buffer layout: HLSL legacy packing rules.
//
//   * storage is a sequence of 16-byte registers (4 x 32-bit components);
//   * a scalar or vector is placed at the next free component unless it would
//     straddle a register boundary, in which case it starts a new register;
//   * every array element starts a new register (element stride is the element
//     size rounded up to 16; the last element is not padded);
//   * a struct starts a new register; its members follow these same rules;
//     the struct is not padded at its end;
//   * a matrix is stored as an array of vectors: one register per row when
//     row_major, one per column when column_major (the default).

type cbWalker struct {
	data   []byte
	out    []Scalar
	short  bool // some component lay beyond the end of the buffer
	maxEnd int
}

func roundUp16(n int) int { return (n + 15) &^ 15 }

func (w *cbWalker) scalarAt(off int) {
	if off+4 > w.maxEnd {
		w.maxEnd = off + 4
	}
	if off+4 > len(w.data) {
		w.short = true
		w.out = append(w.out, Scalar{})
		return
	}
	w.out = append(w.out, Scalar{B: binary.LittleEndian.Uint32(w.data[off:])})
}

// place lays out a value of type t starting no earlier than off and returns the end offset.
func (w *cbWalker) place(t *Type, off int, rowMajor bool) int {
	switch t.K {
	case KVec:
		size := 4 * t.N
		if off%16+size > 16 {
			off = roundUp16(off)
		}
		for i := 0; i < t.N; i++ {
			w.scalarAt(off + 4*i)
		}
		return off + size
	case KMat:
		off = roundUp16(off)
		if rowMajor {
			for r := 0; r < t.Rows; r++ {
				for c := 0; c < t.Cols; c++ {
					w.scalarAt(off + 16*r + 4*c)
				}
			}
			return off + 16*(t.Rows-1) + 4*t.Cols
		}
		// column_major: register per column; value order stays row-major
		for r := 0; r < t.Rows; r++ {
			for c := 0; c < t.Cols; c++ {
				w.scalarAt(off + 16*c + 4*r)
			}
		}
		return off + 16*(t.Cols-1) + 4*t.Rows
	case KArray:
		end := off
		for i := 0; i < t.N; i++ {
			off = roundUp16(end)
			end = w.place(t.Elem, off, rowMajor)
		}
		return end
	case KStruct:
		off = roundUp16(off)
		for _, m := range t.S.Members {
			off = w.place(m.T, off, m.RowMajor)
		}
		return off
	default: // scalar
		w.scalarAt(off)
		return off + 4
	}
}

// decodeUniform reads a cbuffer member of type t located at offset 0.
func decodeUniform(t *Type, rowMajor bool, data []byte) (v Value, size int, short bool) {
	w := &cbWalker{data: data}
	w.place(t, 0, rowMajor)
	// bools in constant buffers are 32-bit; any non-zero value is true
	kinds := t.flatKinds(nil)
	for i, k := range kinds {
		if k == KBool && w.out[i].B != 0 {
			w.out[i].B = 1
		}
	}
	return Value{T: t, S: w.out}, w.maxEnd, w.short
}
