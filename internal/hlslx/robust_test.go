package hlslx

import (
	"math/rand"
	"os"
	"path/filepath"
	"strings"
	"testing"

	"verif/internal/xrt"
)

// TestNeverPanics mutates golden texts (dropping / duplicating / swapping
// chunks of characters) and checks that Parse and Run only ever return
// ordinary errors.
func TestNeverPanics(t *testing.T) {
	files := []string{"access.hlsl", "operators.hlsl", "atomicOps.hlsl", "globals.hlsl", "control-flow.hlsl", "bits.hlsl", "hlsl_mat_cx2.hlsl", "interface.hlsl"}
	rng := rand.New(rand.NewSource(1))
	n, parsed, ran := 0, 0, 0
	for _, f := range files {
		b, err := os.ReadFile(filepath.Join(goldenDir, f))
		if err != nil {
			t.Skip("goldens not available")
		}
		src := string(b)
		for i := 0; i < 60; i++ {
			m := mutate(rng, src)
			n++
			prog, err := Parse(m)
			if err != nil {
				if strings.Contains(err.Error(), "internal error") {
					t.Fatalf("%s mutation %d: %v", f, i, err)
				}
				continue
			}
			parsed++
			for _, e := range prog.Entries() {
				bufs := xrt.Buffers{}
				for _, r := range prog.Resources() {
					bufs[r.Slot] = make([]byte, 256)
				}
				_, err := prog.Run(e.Name, bufs, xrt.Options{TrapMode: true, MaxSteps: 20000})
				ran++
				if err != nil && strings.Contains(err.Error(), "internal error") {
					t.Fatalf("%s mutation %d entry %s: %v\n", f, i, e.Name, err)
				}
			}
		}
	}
	t.Logf("%d mutants, %d parsed, %d entry runs", n, parsed, ran)
}

func mutate(rng *rand.Rand, s string) string {
	for k := 0; k < 1+rng.Intn(3); k++ {
		if len(s) < 20 {
			return s
		}
		i := rng.Intn(len(s) - 10)
		l := 1 + rng.Intn(8)
		switch rng.Intn(4) {
		case 0: // delete
			s = s[:i] + s[i+l:]
		case 1: // duplicate
			s = s[:i] + s[i:i+l] + s[i:]
		case 2: // replace with punctuation / identifier
			repl := []string{";", "(", ")", "{", "}", "[", "]", ",", "x", "0", ".", "=", "float3", "uint", "int", "-", "!", "1u", "2.0"}
			s = s[:i] + repl[rng.Intn(len(repl))] + s[i+l:]
		case 3: // swap two chunks
			j := rng.Intn(len(s) - 10)
			if j > i+l {
				s = s[:i] + s[j:j+l] + s[i+l:j] + s[i:i+l] + s[j+l:]
			}
		}
	}
	return s
}
