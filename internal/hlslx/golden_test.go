package hlslx

import (
	"errors"
	"os"
	"path/filepath"
	"sort"
	"strings"
	"testing"

	"verif/internal/xrt"
)

const goldenDir = "/repo/snapshot/testdata/golden/hlsl"

// outsideSubset lists the reasons for which a golden compute entry point may
// be statically inconclusive: they name features the task excludes (64-bit,
// f16/f64, textures/samplers, ray queries, subgroup operations). Any other
// reason fails the test.
var outsideSubset = []string{"int64_t", "uint64_t", "64-bit integer literal", "type half", "half literal", "type double",
	"resource type RWTexture", "resource type Texture", "resource type RayQuery", "resource type RaytracingAccelerationStructure",
	"intrinsic Wave", "intrinsic Quad"}

// goldenInvalid lists goldens whose text is, per the HLSL grammar, not valid
// HLSL: the array dimension of a declarator follows the NAME ("static float x[2]"),
// a C#-style "static float[2] x" is a syntax error in FXC and DXC. naga emits
// this form for every module-scope private array. Kept as a reported finding.
var goldenInvalid = map[string]string{
	"abstract-types-var.hlsl": "static float[2] xafafaf_1 = ...  (array dimension before the declarator name)",
	"policy-mix.hlsl":         "static float[40] in_private = ... (array dimension before the declarator name)",
}

func TestGoldenSyntax(t *testing.T) {
	files, err := filepath.Glob(filepath.Join(goldenDir, "*.hlsl"))
	if err != nil || len(files) == 0 {
		t.Skip("no goldens available")
	}
	sort.Strings(files)
	nCompute, nParsed, nEntries, nEntriesOK, nInvalid := 0, 0, 0, 0, 0
	var skippedFiles, skippedEntries []string
	for _, f := range files {
		b, err := os.ReadFile(f)
		if err != nil {
			t.Fatal(err)
		}
		src := string(b)
		if !strings.Contains(src, "numthreads") {
			continue
		}
		nCompute++
		name := filepath.Base(f)
		prog, err := Parse(src)
		if err != nil {
			var u *xrt.Unsupported
			if errors.As(err, &u) {
				skippedFiles = append(skippedFiles, name+": "+u.What)
				continue
			}
			if why, ok := goldenInvalid[name]; ok {
				t.Logf("SUSPECT naga: %s is not valid HLSL: %v -- %s", name, err, why)
				nInvalid++
				continue
			}
			t.Errorf("%s: Parse: %v", name, err)
			continue
		}
		nParsed++
		for _, tr := range prog.StaticTraps() {
			t.Errorf("%s: static trap: %v", name, tr)
		}
		for _, e := range prog.Entries() {
			nEntries++
			why := prog.entryInconclusive(e.Name)
			if why != "" {
				skippedEntries = append(skippedEntries, name+"/"+e.Name+": "+why)
				allowed := false
				for _, o := range outsideSubset {
					if strings.Contains(why, o) {
						allowed = true
					}
				}
				if !allowed {
					t.Errorf("%s/%s is inconclusive for a reason that is not a documented exclusion: %s", name, e.Name, why)
				}
				continue
			}
			nEntriesOK++
		}
	}
	t.Logf("compute goldens: %d, parsed: %d, whole-file unsupported: %d, invalid HLSL (naga finding): %d", nCompute, nParsed, len(skippedFiles), nInvalid)
	t.Logf("compute entries: %d, statically runnable: %d, inconclusive: %d", nEntries, nEntriesOK, len(skippedEntries))
	for _, s := range skippedFiles {
		t.Logf("SKIP file  %s", s)
	}
	for _, s := range skippedEntries {
		t.Logf("SKIP entry %s", s)
	}
}

// TestGoldenRun executes every statically runnable golden entry point over
// zero-filled 4 KiB buffers. It checks that the interpreter neither crashes
// nor reports ill-typed programs; traps are only logged (the inputs are arbitrary).
func TestGoldenRun(t *testing.T) {
	files, err := filepath.Glob(filepath.Join(goldenDir, "*.hlsl"))
	if err != nil || len(files) == 0 {
		t.Skip("no goldens available")
	}
	sort.Strings(files)
	nRun, nUnsup, nTrapped := 0, 0, 0
	for _, f := range files {
		b, _ := os.ReadFile(f)
		src := string(b)
		if !strings.Contains(src, "numthreads") {
			continue
		}
		name := filepath.Base(f)
		prog, err := Parse(src)
		if err != nil {
			continue
		}
		for _, e := range prog.Entries() {
			if prog.entryInconclusive(e.Name) != "" {
				continue
			}
			bufs := xrt.Buffers{}
			for _, r := range prog.Resources() {
				bufs[r.Slot] = make([]byte, 4096)
			}
			res, err := prog.Run(e.Name, bufs, xrt.Options{TrapMode: true, MaxSteps: 300000})
			if err != nil {
				var u *xrt.Unsupported
				if errors.As(err, &u) {
					nUnsup++
					t.Logf("%s/%s: inconclusive: %s", name, e.Name, u.What)
					continue
				}
				t.Errorf("%s/%s: Run: %v", name, e.Name, err)
				continue
			}
			nRun++
			if len(res.Traps) > 0 {
				nTrapped++
				t.Logf("%s/%s: %d trap(s), first: %v", name, e.Name, len(res.Traps), res.Traps[0])
			}
		}
	}
	t.Logf("entries run to completion: %d (with traps: %d), inconclusive at run time: %d", nRun, nTrapped, nUnsup)
}
