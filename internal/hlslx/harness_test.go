package hlslx

import (
	"encoding/binary"
	"math"
	"os"
	"testing"

	"github.com/gogpu/naga"
	"github.com/gogpu/naga/hlsl"

	"verif/internal/xrt"
)

// compileWGSL runs naga's WGSL front end and HLSL back end.
func compileWGSL(t *testing.T, src string, opts *hlsl.Options) string {
	t.Helper()
	ast, err := naga.Parse(src)
	if err != nil {
		t.Fatalf("naga.Parse: %v", err)
	}
	m, err := naga.LowerWithSource(ast, src)
	if err != nil {
		t.Fatalf("naga.Lower: %v", err)
	}
	if opts == nil {
		opts = hlsl.DefaultOptions()
	}
	txt, _, err := hlsl.Compile(m, opts)
	if err != nil {
		t.Fatalf("hlsl.Compile: %v", err)
	}
	return txt
}

func u32s(vals ...uint32) []byte {
	b := make([]byte, 4*len(vals))
	for i, v := range vals {
		binary.LittleEndian.PutUint32(b[4*i:], v)
	}
	return b
}

func f32s(vals ...float32) []byte {
	b := make([]byte, 4*len(vals))
	for i, v := range vals {
		binary.LittleEndian.PutUint32(b[4*i:], math.Float32bits(v))
	}
	return b
}

func i32s(vals ...int32) []byte {
	b := make([]byte, 4*len(vals))
	for i, v := range vals {
		binary.LittleEndian.PutUint32(b[4*i:], uint32(v))
	}
	return b
}

func getU32(b []byte) []uint32 {
	out := make([]uint32, len(b)/4)
	for i := range out {
		out[i] = binary.LittleEndian.Uint32(b[4*i:])
	}
	return out
}

func fb(f float32) uint32 { return math.Float32bits(f) }

// runCase compiles, parses, checks and runs; bufs are keyed by the HLSL
// resource name as reported by Resources().
type runCase struct {
	wgsl     string
	hlsl     string // used instead of wgsl when non-empty
	opts     *hlsl.Options
	entry    string
	bufs     map[string][]byte
	dispatch [3]uint32
	noTrap   bool // run with TrapMode off
}

func (rc runCase) run(t *testing.T) (map[string][]byte, xrt.Result, *Program) {
	t.Helper()
	txt := rc.hlsl
	if txt == "" {
		txt = compileWGSL(t, rc.wgsl, rc.opts)
	}
	if os.Getenv("HLSLX_DUMP") != "" {
		t.Logf("HLSL text:\n%s", txt)
	}
	prog, err := Parse(txt)
	if err != nil {
		t.Fatalf("Parse: %v\n%s", err, txt)
	}
	for _, tr := range prog.StaticTraps() {
		t.Errorf("static trap: %v", tr)
	}
	if t.Failed() {
		t.Fatalf("text:\n%s", txt)
	}
	xb := xrt.Buffers{}
	byName := map[string]xrt.Slot{}
	for _, r := range prog.Resources() {
		byName[r.Name] = r.Slot
	}
	for name, data := range rc.bufs {
		slot, ok := byName[name]
		if !ok {
			slot, ok = byName[name+"_"] // naga appends '_' to names that collide with its keyword list
		}
		if !ok {
			t.Fatalf("no resource named %q in %v\n%s", name, prog.Resources(), txt)
		}
		xb[slot] = data
	}
	entry := rc.entry
	if entry == "" {
		entry = "main"
	}
	res, err := prog.Run(entry, xb, xrt.Options{Dispatch: xrt.Dispatch{NumGroups: rc.dispatch}, TrapMode: !rc.noTrap})
	if err != nil {
		t.Fatalf("Run: %v\n%s", err, txt)
	}
	return rc.bufs, res, prog
}

func expectNoTraps(t *testing.T, res xrt.Result) {
	t.Helper()
	for _, tr := range res.Traps {
		t.Errorf("unexpected trap: %v", tr)
	}
}

func expectU32(t *testing.T, what string, got []byte, want ...uint32) {
	t.Helper()
	g := getU32(got)
	if len(g) < len(want) {
		t.Fatalf("%s: buffer has %d words, want at least %d", what, len(g), len(want))
	}
	for i, w := range want {
		if g[i] != w {
			t.Errorf("%s[%d] = %#x (%d, %v), want %#x (%d, %v)", what, i, g[i], int32(g[i]), math.Float32frombits(g[i]), w, int32(w), math.Float32frombits(w))
		}
	}
}

func binaryPut(b []byte, word int, v uint32) { binary.LittleEndian.PutUint32(b[4*word:], v) }
