package hlslx

import "strings"

// Reserved-name tables written from the HLSL reference:
//   * "Keywords" appendix (case-sensitive),
//   * "Reserved Words" appendix,
//   * intrinsic function list (SM5 intrinsics plus the SM6 wave/quad/packed additions),
//   * scalar / vector / matrix type names for every base type,
//   * object (resource) type names,
//   * the FXC tokens that are matched case-insensitively.

var hlslKeywords = setOf(
	"AppendStructuredBuffer", "asm", "asm_fragment", "BlendState", "bool", "break", "Buffer", "ByteAddressBuffer",
	"case", "cbuffer", "centroid", "class", "column_major", "compile", "compile_fragment", "CompileShader", "const",
	"continue", "ComputeShader", "ConsumeStructuredBuffer", "default", "DepthStencilState", "DepthStencilView",
	"discard", "do", "double", "DomainShader", "dword", "else", "export", "extern", "false", "float", "for", "fxgroup",
	"GeometryShader", "groupshared", "half", "Hullshader", "HullShader", "if", "in", "inline", "inout", "InputPatch", "int",
	"interface", "line", "lineadj", "linear", "LineStream", "matrix", "min16float", "min10float", "min16int",
	"min12int", "min16uint", "namespace", "nointerpolation", "noperspective", "NULL", "out", "OutputPatch",
	"packoffset", "pass", "pixelfragment", "PixelShader", "point", "PointStream", "precise", "RasterizerState",
	"RenderTargetView", "return", "register", "row_major", "RWBuffer", "RWByteAddressBuffer", "RWStructuredBuffer",
	"RWTexture1D", "RWTexture1DArray", "RWTexture2D", "RWTexture2DArray", "RWTexture3D", "sample", "sampler",
	"SamplerState", "SamplerComparisonState", "shared", "snorm", "stateblock", "stateblock_state", "static", "string",
	"struct", "switch", "StructuredBuffer", "tbuffer", "technique", "technique10", "technique11", "texture",
	"Texture1D", "Texture1DArray", "Texture2D", "Texture2DArray", "Texture2DMS", "Texture2DMSArray", "Texture3D",
	"TextureCube", "TextureCubeArray", "true", "typedef", "triangle", "triangleadj", "TriangleStream", "uint",
	"uniform", "unorm", "unsigned", "vector", "vertexfragment", "VertexShader", "void", "volatile", "while",
	// SM 5.1 / 6.x additions to the keyword set
	"ConstantBuffer", "TextureBuffer", "RasterizerOrderedBuffer", "RasterizerOrderedByteAddressBuffer",
	"RasterizerOrderedStructuredBuffer", "RasterizerOrderedTexture1D", "RasterizerOrderedTexture1DArray",
	"RasterizerOrderedTexture2D", "RasterizerOrderedTexture2DArray", "RasterizerOrderedTexture3D",
	"RaytracingAccelerationStructure", "RayQuery", "RayDesc", "globallycoherent", "sampler1D", "sampler2D", "sampler3D",
	"samplerCUBE", "sampler_state", "SamplerComparisonState", "texture1D", "texture2D", "texture3D", "textureCUBE",
)

var hlslReservedWords = setOf(
	"auto", "case", "catch", "char", "class", "const_cast", "default", "delete", "dynamic_cast", "enum", "explicit",
	"friend", "goto", "long", "mutable", "new", "operator", "private", "protected", "public", "reinterpret_cast",
	"short", "signed", "sizeof", "static_cast", "template", "this", "throw", "try", "typename", "union", "unsigned",
	"using", "virtual",
)

// Tokens FXC matches without regard to case (effect-framework leftovers).
// Only the words for which this behaviour is well established are listed;
// "texture" is deliberately absent: upstream-validated goldens declare a
// variable named "Texture" (module-scope.hlsl) which FXC accepts.
var hlslCaseInsensitive = setOf(
	"asm", "asm_fragment", "decl", "pass", "pixelshader", "technique", "vertexshader",
	"texture1d", "texture2d", "texture3d", "texturecube",
)

var hlslIntrinsics = setOf(
	"abort", "abs", "acos", "all", "AllMemoryBarrier", "AllMemoryBarrierWithGroupSync", "any", "asdouble", "asfloat",
	"asin", "asint", "asuint", "atan", "atan2", "ceil", "CheckAccessFullyMapped", "clamp", "clip", "cos", "cosh",
	"countbits", "cross", "D3DCOLORtoUBYTE4", "ddx", "ddx_coarse", "ddx_fine", "ddy", "ddy_coarse", "ddy_fine",
	"degrees", "determinant", "DeviceMemoryBarrier", "DeviceMemoryBarrierWithGroupSync", "distance", "dot", "dst",
	"errorf", "EvaluateAttributeAtCentroid", "EvaluateAttributeAtSample", "EvaluateAttributeCentroid",
	"EvaluateAttributeSnapped", "exp", "exp2", "f16tof32", "f32tof16", "faceforward", "firstbithigh", "firstbitlow",
	"floor", "fma", "fmod", "frac", "frexp", "fwidth", "GetRenderTargetSampleCount", "GetRenderTargetSamplePosition",
	"GroupMemoryBarrier", "GroupMemoryBarrierWithGroupSync", "InterlockedAdd", "InterlockedAnd",
	"InterlockedCompareExchange", "InterlockedCompareStore", "InterlockedExchange", "InterlockedMax", "InterlockedMin",
	"InterlockedOr", "InterlockedXor", "isfinite", "isinf", "isnan", "ldexp", "length", "lerp", "lit", "log", "log10",
	"log2", "mad", "max", "min", "modf", "msad4", "mul", "noise", "normalize", "pow", "printf",
	"Process2DQuadTessFactorsAvg", "Process2DQuadTessFactorsMax", "Process2DQuadTessFactorsMin",
	"ProcessIsolineTessFactors", "ProcessQuadTessFactorsAvg", "ProcessQuadTessFactorsMax", "ProcessQuadTessFactorsMin",
	"ProcessTriTessFactorsAvg", "ProcessTriTessFactorsMax", "ProcessTriTessFactorsMin", "radians", "rcp", "reflect",
	"refract", "reversebits", "round", "rsqrt", "saturate", "sign", "sin", "sincos", "sinh", "smoothstep", "sqrt",
	"step", "tan", "tanh", "tex1D", "tex1Dbias", "tex1Dgrad", "tex1Dlod", "tex1Dproj", "tex2D", "tex2Dbias",
	"tex2Dgrad", "tex2Dlod", "tex2Dproj", "tex3D", "tex3Dbias", "tex3Dgrad", "tex3Dlod", "tex3Dproj", "texCUBE",
	"texCUBEbias", "texCUBEgrad", "texCUBElod", "texCUBEproj", "transpose", "trunc",
	// Shader Model 6.x
	"WaveIsFirstLane", "WaveGetLaneCount", "WaveGetLaneIndex", "WaveActiveAnyTrue", "WaveActiveAllTrue",
	"WaveActiveBallot", "WaveReadLaneAt", "WaveReadLaneFirst", "WaveActiveAllEqual", "WaveActiveBitAnd",
	"WaveActiveBitOr", "WaveActiveBitXor", "WaveActiveCountBits", "WaveActiveMax", "WaveActiveMin",
	"WaveActiveProduct", "WaveActiveSum", "WavePrefixCountBits", "WavePrefixSum", "WavePrefixProduct", "WaveMatch",
	"WaveMultiPrefixBitAnd", "WaveMultiPrefixBitOr", "WaveMultiPrefixBitXor", "WaveMultiPrefixCountBits",
	"WaveMultiPrefixProduct", "WaveMultiPrefixSum", "QuadReadLaneAt", "QuadReadAcrossDiagonal", "QuadReadAcrossX",
	"QuadReadAcrossY", "QuadAny", "QuadAll", "NonUniformResourceIndex", "dot2add", "dot4add_i8packed",
	"dot4add_u8packed", "pack_u8", "pack_s8", "pack_clamp_u8", "pack_clamp_s8", "unpack_u8u16", "unpack_u8u32",
	"unpack_s8s16", "unpack_s8s32", "asfloat16", "asint16", "asuint16", "select", "and", "or", "IsHelperLane",
	"TraceRay", "ReportHit", "CallShader", "IgnoreHit", "AcceptHitAndEndSearch", "DispatchMesh",
	"SetMeshOutputCounts", "GetAttributeAtVertex",
)

var hlslTypeBases = []string{
	"bool", "int", "uint", "dword", "half", "float", "double", "min16float", "min10float", "min16int", "min12int",
	"min16uint", "int16_t", "uint16_t", "int32_t", "uint32_t", "int64_t", "uint64_t", "float16_t", "float32_t",
	"float64_t",
}

func setOf(names ...string) map[string]bool {
	m := make(map[string]bool, len(names))
	for _, n := range names {
		m[n] = true
	}
	return m
}

// isBuiltinTypeName: base, baseN (1..4), baseRxC (1..4 x 1..4).
func isBuiltinTypeName(name string) bool {
	for _, b := range hlslTypeBases {
		if !strings.HasPrefix(name, b) {
			continue
		}
		rest := name[len(b):]
		d := func(c byte) bool { return c >= '1' && c <= '4' }
		switch {
		case rest == "":
			return true
		case len(rest) == 1 && d(rest[0]):
			return true
		case len(rest) == 3 && rest[1] == 'x' && d(rest[0]) && d(rest[2]):
			return true
		}
	}
	return false
}

// reservedClass returns a non-empty description when name may not be declared
// by a program. member=true relaxes the check for struct members (an intrinsic
// name is harmless there).
func reservedClass(name string, member bool) string {
	if hlslKeywords[name] {
		return "keyword"
	}
	if hlslReservedWords[name] {
		return "reserved word"
	}
	if hlslCaseInsensitive[strings.ToLower(name)] {
		return "case-insensitive keyword (FXC)"
	}
	if isBuiltinTypeName(name) || name == "vector" || name == "matrix" || name == "void" {
		return "builtin type name"
	}
	if unsupportedResourceTypes[name] {
		return "object type name"
	}
	if !member && hlslIntrinsics[name] {
		return "intrinsic function name"
	}
	return ""
}
