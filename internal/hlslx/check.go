package hlslx

import (
	"fmt"
	"strings"

	"verif/internal/xrt"
)

type checker struct {
	prog     *Program
	scopes   []map[string]*symbol
	globals  map[string]*Global
	funcs    map[string][]*Func
	curFn    *Func
	nLocals  int
	unsup    string // first unsupported construct met in the current function / initialiser
	nErr     int    // errors reported in the current function / initialiser
	inLoop   int
	inSwitch int
}

func check(p *Program) {
	c := &checker{prog: p, globals: map[string]*Global{}, funcs: map[string][]*Func{}}
	c.checkTypes()
	for _, d := range p.order {
		switch d := d.(type) {
		case *Global:
			c.checkGlobal(d)
		case *Func:
			c.checkFunc(d)
		}
	}
}

func (c *checker) trap(kind xrt.TrapKind, line int, format string, a ...any) {
	where := ""
	if c.curFn != nil {
		where = " in function " + c.curFn.Name
	}
	c.prog.traps = append(c.prog.traps, &xrt.Trap{Kind: kind, Detail: fmt.Sprintf("line %d%s: %s", line, where, fmt.Sprintf(format, a...))})
	if kind == xrt.TrapType || kind == xrt.TrapUnresolved || kind == xrt.TrapOther {
		c.nErr++
	}
}

func (c *checker) unsupported(line int, format string, a ...any) {
	if c.unsup == "" {
		c.unsup = fmt.Sprintf("hlslx: line %d: %s", line, fmt.Sprintf(format, a...))
	}
}

func (c *checker) declare(name, kind, scope string, line int, member bool) {
	c.prog.decls = append(c.prog.decls, Decl{Name: name, Kind: kind, Scope: scope})
	if cls := reservedClass(name, member); cls != "" {
		sc := scope
		if sc == "" {
			sc = "global scope"
		}
		c.trap(xrt.TrapReserved, line, "%s %q (%s) is a reserved HLSL %s", kind, name, sc, cls)
	}
}

// ---- types ----

func (c *checker) checkTypes() {
	seen := map[string]int{}
	seenStruct := map[*StructDef]bool{}
	for _, td := range c.prog.typeDecls {
		c.declare(td.Name, "type", "", td.Line, false)
		if l, dup := seen[td.Name]; dup {
			c.trap(xrt.TrapRedecl, td.Line, "type %q redeclared (first declared at line %d)", td.Name, l)
		} else {
			seen[td.Name] = td.Line
		}
	}
	for _, sd := range c.prog.structs {
		if seenStruct[sd] {
			continue
		}
		seenStruct[sd] = true
		ms := map[string]int{}
		for _, m := range sd.Members {
			c.declare(m.Name, "member", sd.Name, m.Line, true)
			if l, dup := ms[m.Name]; dup {
				c.trap(xrt.TrapRedecl, m.Line, "member %q of struct %s redeclared (first at line %d)", m.Name, sd.Name, l)
			} else {
				ms[m.Name] = m.Line
			}
		}
	}
}

// ---- globals ----

func (c *checker) checkGlobal(g *Global) {
	c.curFn = nil
	c.unsup, c.nErr = "", 0
	c.declare(g.Name, "global", "", g.Line, false)
	if prev, dup := c.globals[g.Name]; dup {
		c.trap(xrt.TrapRedecl, g.Line, "global %q redeclared (first declared at line %d)", g.Name, prev.Line)
	} else if fs := c.funcs[g.Name]; len(fs) > 0 {
		c.trap(xrt.TrapRedecl, g.Line, "global %q redeclares function declared at line %d", g.Name, fs[0].Line)
	}
	if g.Kind == GSkipped {
		if _, dup := c.globals[g.Name]; !dup {
			c.globals[g.Name] = g
		}
		return
	}
	if g.Init != nil {
		c.scopes = []map[string]*symbol{{}}
		g.Init = c.initializer(g.Init, g.T, g.Line)
		c.scopes = nil
		if c.unsup != "" {
			g.Kind, g.Why = GSkipped, c.unsup
		}
	}
	g.Sym = &symbol{Name: g.Name, T: g.T, Global: g, Const: g.Kind == GStaticConst || g.Kind == GUniform || g.Kind == GBuffer}
	if _, dup := c.globals[g.Name]; !dup {
		c.globals[g.Name] = g
	}
}

// ---- functions ----

func sameParams(a, b *Func) bool {
	if len(a.Params) != len(b.Params) {
		return false
	}
	for i := range a.Params {
		if !sameType(a.Params[i].T, b.Params[i].T) {
			return false
		}
	}
	return true
}

func (c *checker) checkFunc(f *Func) {
	c.curFn = f
	c.unsup, c.nErr, c.nLocals = "", 0, 0
	kind := "function"
	if f.NumThreads != nil {
		kind = "entry"
	}
	c.declare(f.Name, kind, "", f.Line, false)
	if g, dup := c.globals[f.Name]; dup {
		c.trap(xrt.TrapRedecl, f.Line, "function %q redeclares global declared at line %d", f.Name, g.Line)
	}
	if !f.Stub {
		for _, o := range c.funcs[f.Name] {
			if !o.Stub && sameParams(o, f) {
				c.trap(xrt.TrapRedecl, f.Line, "function %q redefined with the same parameter types (first at line %d)", f.Name, o.Line)
				break
			}
		}
	}
	c.funcs[f.Name] = append(c.funcs[f.Name], f)
	if f.Stub {
		c.curFn = nil
		return
	}
	c.scopes = []map[string]*symbol{{}}
	for _, p := range f.Params {
		c.declare(p.Name, "param", f.Name, p.Line, false)
		p.Sym = c.addLocal(p.Name, p.T, false, p.Line)
		p.Sym.Param = p
	}
	if f.Body != nil {
		for _, s := range f.Body.Stmts {
			c.stmt(s)
		}
	}
	c.scopes = nil
	f.NLocals = c.nLocals
	if c.nErr > 0 {
		f.TypeErr = true
	}
	if c.unsup != "" && f.Unsupported == "" {
		f.Unsupported = c.unsup
	}
	c.curFn = nil
}

func (c *checker) addLocal(name string, t *Type, isConst bool, line int) *symbol {
	top := c.scopes[len(c.scopes)-1]
	s := &symbol{Name: name, T: t, Const: isConst, id: c.nLocals}
	c.nLocals++
	if _, dup := top[name]; dup {
		c.trap(xrt.TrapRedecl, line, "%q redeclared in the same scope", name)
	} else {
		top[name] = s
	}
	return s
}

func (c *checker) push() { c.scopes = append(c.scopes, map[string]*symbol{}) }
func (c *checker) pop()  { c.scopes = c.scopes[:len(c.scopes)-1] }

func (c *checker) lookup(name string) *symbol {
	for i := len(c.scopes) - 1; i >= 0; i-- {
		if s, ok := c.scopes[i][name]; ok {
			return s
		}
	}
	return nil
}

// ---- statements ----

func (c *checker) stmt(s Stmt) {
	switch s := s.(type) {
	case *Block:
		c.push()
		for _, x := range s.Stmts {
			c.stmt(x)
		}
		c.pop()
	case *VarDecl:
		scope := ""
		if c.curFn != nil {
			scope = c.curFn.Name
		}
		c.declare(s.Name, "local", scope, s.Line, false)
		if s.Init != nil {
			s.Init = c.initializer(s.Init, s.T, s.Line)
		} else if s.Const {
			c.trap(xrt.TrapType, s.Line, "const variable %q without initialiser", s.Name)
		}
		s.Sym = c.addLocal(s.Name, s.T, s.Const, s.Line)
	case *ExprStmt:
		s.X = c.expr(s.X)
	case *If:
		s.Cond = c.condition(s.Cond, "if")
		c.push()
		c.stmt(s.Then)
		c.pop()
		if s.Else != nil {
			c.push()
			c.stmt(s.Else)
			c.pop()
		}
	case *While:
		s.Cond = c.condition(s.Cond, "while")
		c.inLoop++
		c.push()
		c.stmt(s.Body)
		c.pop()
		c.inLoop--
	case *DoWhile:
		c.inLoop++
		c.push()
		c.stmt(s.Body)
		c.pop()
		c.inLoop--
		s.Cond = c.condition(s.Cond, "do-while")
	case *For:
		c.push()
		if s.Init != nil {
			c.stmt(s.Init)
		}
		if s.Cond != nil {
			s.Cond = c.condition(s.Cond, "for")
		}
		if s.Post != nil {
			s.Post = c.expr(s.Post)
		}
		c.inLoop++
		c.push()
		c.stmt(s.Body)
		c.pop()
		c.inLoop--
		c.pop()
	case *Switch:
		c.checkSwitch(s)
	case *Break:
		if c.inLoop == 0 && c.inSwitch == 0 {
			c.trap(xrt.TrapOther, s.Line, "break outside loop or switch")
		}
	case *Continue:
		if c.inLoop == 0 {
			c.trap(xrt.TrapOther, s.Line, "continue outside loop")
		}
	case *Return:
		ret := c.curFn.Ret
		if s.X == nil {
			if ret.K != KVoid {
				c.trap(xrt.TrapType, s.Line, "return without value in function returning %s", ret)
			}
			return
		}
		if ret.K == KVoid {
			s.X = c.expr(s.X)
			c.trap(xrt.TrapType, s.Line, "return with a value in void function")
			return
		}
		s.X = c.convert(c.expr(s.X), ret, "return value")
	case *Empty:
	}
}

func (c *checker) condition(e Expr, what string) Expr {
	e = c.expr(e)
	t := e.typ()
	if t == nil {
		return e
	}
	if !t.isScalar() {
		// HLSL requires a scalar condition (vectors are an error: "if statement conditional expressions must evaluate to a scalar")
		c.trap(xrt.TrapType, e.line(), "%s condition must be a scalar, found %s", what, t)
		return e
	}
	return c.convert(e, tBool, what+" condition")
}

func (c *checker) checkSwitch(s *Switch) {
	s.Sel = c.expr(s.Sel)
	st := s.Sel.typ()
	if st != nil {
		switch st.K {
		case KInt, KUint:
		case KLitInt, KBool:
			s.Sel = c.convert(s.Sel, tInt, "switch selector")
			st = tInt
		default:
			c.trap(xrt.TrapType, s.Line, "switch selector must be an integer scalar, found %s", st)
			st = nil
		}
	}
	seen := map[uint32]bool{}
	nDefault := 0
	c.inSwitch++
	for _, cs := range s.Cases {
		if cs.Default {
			nDefault++
			if nDefault > 1 {
				c.trap(xrt.TrapType, cs.Line, "multiple default labels in switch")
			}
		}
		cs.Consts = cs.Consts[:0]
		for _, v := range cs.Vals {
			bits, ok := c.constInt(v)
			if !ok {
				c.unsupported(v.line(), "non-literal case label")
				continue
			}
			if seen[bits] {
				c.trap(xrt.TrapType, v.line(), "duplicate case value %d", int32(bits))
			}
			seen[bits] = true
			cs.Consts = append(cs.Consts, bits)
		}
		c.push()
		for _, b := range cs.Body {
			c.stmt(b)
		}
		c.pop()
	}
	c.inSwitch--
}

// constInt evaluates literal-ish integer constant expressions used as case labels.
func (c *checker) constInt(e Expr) (uint32, bool) {
	switch e := e.(type) {
	case *IntLit:
		return e.Val, true
	case *BoolLit:
		if e.Val {
			return 1, true
		}
		return 0, true
	case *Unary:
		v, ok := c.constInt(e.X)
		if !ok {
			return 0, false
		}
		switch e.Op {
		case "-":
			return -v, true
		case "+":
			return v, true
		case "~":
			return ^v, true
		}
	case *Ctor:
		if len(e.Args) == 1 && (e.To.K == KInt || e.To.K == KUint) {
			return c.constInt(e.Args[0])
		}
	case *Cast:
		if e.To.K == KInt || e.To.K == KUint {
			return c.constInt(e.X)
		}
	}
	return 0, false
}

// ---- conversions ----

// implicitConv classifies an implicit conversion from -> to.
// 0 = identical, 1 = legal, 2 = legal in HLSL but truncating (reported), 3 = illegal.
func implicitConv(from, to *Type) int {
	if sameType(from, to) {
		return 0
	}
	if from.isNumeric() && to.isNumeric() {
		switch {
		case from.isScalar():
			return 1 // scalar -> scalar, scalar splat
		case to.isScalar():
			return 2 // vector/matrix -> scalar truncation
		case from.K == KVec && to.K == KVec:
			if from.N == to.N {
				return 1
			}
			if from.N > to.N {
				return 2
			}
			return 3
		case from.K == KMat && to.K == KMat:
			if from.Rows == to.Rows && from.Cols == to.Cols {
				return 1
			}
			if from.Rows >= to.Rows && from.Cols >= to.Cols {
				return 2
			}
			return 3
		}
		return 3
	}
	return 3
}

func (c *checker) convert(e Expr, to *Type, what string) Expr {
	from := e.typ()
	if from == nil || to == nil {
		return e
	}
	switch implicitConv(from, to) {
	case 0:
		return e
	case 1:
		return &Conv{exprBase: exprBase{Line: e.line(), T: to}, X: e}
	case 2:
		c.trap(xrt.TrapType, e.line(), "%s: implicit truncation from %s to %s", what, from, to)
		return &Conv{exprBase: exprBase{Line: e.line(), T: to}, X: e}
	}
	c.trap(xrt.TrapType, e.line(), "%s: cannot convert from %s to %s", what, from, to)
	return &Conv{exprBase: exprBase{Line: e.line(), T: nil}, X: e}
}

// explicitCastOK: (T)x and single-argument constructor.
func explicitCastOK(from, to *Type) bool {
	if sameType(from, to) {
		return true
	}
	if from.K == KBuf || to.K == KBuf || from.K == KVoid || to.K == KVoid {
		return false
	}
	if from.isScalar() {
		return true // splat into anything (numeric, struct, array)
	}
	if from.isNumeric() && to.isNumeric() {
		switch {
		case to.isScalar():
			return true
		case from.K == KVec && to.K == KVec:
			return from.N >= to.N
		case from.K == KMat && to.K == KMat:
			return from.Rows >= to.Rows && from.Cols >= to.Cols
		default:
			return from.flatLen() == to.flatLen()
		}
	}
	// aggregates: component counts must agree
	return from.flatLen() == to.flatLen()
}

// initializer checks "T x = init" where init may be a brace list.
func (c *checker) initializer(init Expr, to *Type, line int) Expr {
	if il, ok := init.(*InitList); ok {
		// flatten: every scalar component of every element, in order
		n := 0
		for i, el := range il.Elems {
			if _, nested := el.(*InitList); nested {
				sub := c.flattenInit(el)
				il.Elems[i] = sub
				if sub.typ() != nil {
					n += sub.(*InitList).count()
				} else {
					n = -1 << 30
				}
				continue
			}
			x := c.expr(el)
			il.Elems[i] = x
			if x.typ() == nil {
				n = -1 << 30
			} else if x.typ().K == KBuf || x.typ().K == KVoid {
				c.trap(xrt.TrapType, x.line(), "initialiser element of type %s", x.typ())
				n = -1 << 30
			} else {
				n += x.typ().flatLen()
			}
		}
		if n >= 0 && n != to.flatLen() {
			c.trap(xrt.TrapType, line, "initialiser list has %d components, %s needs %d", n, to, to.flatLen())
			il.T = nil
			return il
		}
		if n < 0 {
			il.T = nil
			return il
		}
		il.T = to
		return il
	}
	return c.convert(c.expr(init), to, "initialisation")
}

func (il *InitList) count() int {
	n := 0
	for _, e := range il.Elems {
		if s, ok := e.(*InitList); ok {
			n += s.count()
		} else if e.typ() != nil {
			n += e.typ().flatLen()
		}
	}
	return n
}

func (c *checker) flattenInit(e Expr) Expr {
	il := e.(*InitList)
	ok := true
	for i, el := range il.Elems {
		if _, nested := el.(*InitList); nested {
			il.Elems[i] = c.flattenInit(el)
		} else {
			il.Elems[i] = c.expr(el)
		}
		if il.Elems[i].typ() == nil {
			ok = false
		}
	}
	if ok {
		il.T = tVoid // marker: checked nested list
	}
	return il
}

// ---- expressions ----

func rank(k Kind) int {
	switch k {
	case KBool:
		return 0
	case KLitInt:
		return 1
	case KInt:
		return 2
	case KUint:
		return 3
	case KFloat:
		return 4
	}
	return -1
}

func kindOfRank(r int) Kind { return []Kind{KBool, KLitInt, KInt, KUint, KFloat}[r] }

// unifyShape returns the common shape of numeric operand types (base taken
// from the first), or an error text. trunc reports an implicit vector truncation.
func unifyShape(ts ...*Type) (shape *Type, trunc bool, err string) {
	for _, t := range ts {
		if !t.isNumeric() {
			return nil, false, fmt.Sprintf("operand of type %s is not numeric", t)
		}
		if t.isScalar() {
			continue
		}
		if shape == nil {
			shape = t
			continue
		}
		switch {
		case shape.K == KVec && t.K == KVec:
			if shape.N != t.N {
				trunc = true
				if t.N < shape.N {
					shape = t
				}
			}
		case shape.K == KMat && t.K == KMat:
			if shape.Rows != t.Rows || shape.Cols != t.Cols {
				return nil, false, fmt.Sprintf("matrix dimensions differ: %s vs %s", shape, t)
			}
		default:
			return nil, false, fmt.Sprintf("cannot combine %s and %s", shape, t)
		}
	}
	if shape == nil {
		shape = ts[0]
	}
	return shape, trunc, ""
}

func maxRank(ts ...*Type) int {
	r := 0
	for _, t := range ts {
		if k := rank(t.base().K); k > r {
			r = k
		}
	}
	return r
}

func (c *checker) expr(e Expr) Expr {
	switch e := e.(type) {
	case *IntLit:
		switch {
		case e.Unsigned || e.Val > 0x7FFFFFFF:
			e.T = tUint
		default:
			e.T = tLitInt
		}
		return e
	case *FloatLit:
		e.T = tFloat
		return e
	case *BoolLit:
		e.T = tBool
		return e
	case *Ident:
		return c.ident(e)
	case *Unary:
		return c.unary(e)
	case *IncDec:
		e.X = c.expr(e.X)
		t := e.X.typ()
		if t == nil {
			return e
		}
		if !t.isNumeric() || t.base().K == KBool {
			c.trap(xrt.TrapType, e.Line, "operator %s applied to %s", e.Op, t)
			return e
		}
		if why := c.lvalue(e.X); why != "" {
			c.trap(xrt.TrapType, e.Line, "operand of %s is not assignable: %s", e.Op, why)
			return e
		}
		e.T = t
		return e
	case *Binary:
		return c.binary(e)
	case *Assign:
		return c.assign(e)
	case *Ternary:
		return c.ternary(e)
	case *Call:
		return c.call(e)
	case *Ctor:
		return c.ctor(e)
	case *Cast:
		e.X = c.expr(e.X)
		t := e.X.typ()
		if t == nil {
			return e
		}
		if !explicitCastOK(t, e.To) {
			c.trap(xrt.TrapType, e.Line, "cannot cast %s to %s", t, e.To)
			return e
		}
		e.T = e.To
		return e
	case *MemberExpr:
		return c.member(e)
	case *Index:
		return c.index(e)
	case *MethodCall:
		return c.method(e)
	case *InitList:
		c.trap(xrt.TrapType, e.Line, "initialiser list used as an expression")
		return e
	case *Conv:
		return e
	}
	panic(fmt.Sprintf("checker: unknown expression %T", e))
}

func (c *checker) ident(e *Ident) Expr {
	if s := c.lookup(e.Name); s != nil {
		e.Sym, e.T = s, s.T
		return e
	}
	if g, ok := c.globals[e.Name]; ok {
		if g.Kind == GSkipped {
			c.unsupported(e.Line, "use of skipped global %s (%s)", g.Name, g.Why)
			e.T = nil
			c.nErr++ // no type available: this function cannot be run
			return e
		}
		e.Sym, e.T = g.Sym, g.T
		return e
	}
	if _, ok := c.funcs[e.Name]; ok {
		c.trap(xrt.TrapType, e.Line, "function %q used as a value", e.Name)
		return e
	}
	c.trap(xrt.TrapUnresolved, e.Line, "undeclared identifier %q", e.Name)
	return e
}

func (c *checker) unary(e *Unary) Expr {
	e.X = c.expr(e.X)
	t := e.X.typ()
	if t == nil {
		return e
	}
	if !t.isNumeric() {
		c.trap(xrt.TrapType, e.Line, "operator %s applied to %s", e.Op, t)
		return e
	}
	switch e.Op {
	case "-", "+":
		if t.base().K == KBool {
			e.X = c.convert(e.X, t.withBase(tInt), "operand")
			t = e.X.typ()
		}
		e.T = t
	case "!":
		e.X = c.convert(e.X, t.withBase(tBool), "operand of !")
		e.T = t.withBase(tBool)
	case "~":
		switch t.base().K {
		case KFloat:
			c.trap(xrt.TrapType, e.Line, "operator ~ applied to %s", t)
			return e
		case KBool:
			e.X = c.convert(e.X, t.withBase(tInt), "operand")
			t = e.X.typ()
		}
		e.T = t
	}
	return e
}

// binaryTypes computes operand type (both sides converted to it, except shifts)
// and result type.
func (c *checker) binaryTypes(op string, lt, rt *Type, line int) (lopT, ropT, resT *Type, ok bool) {
	shape, trunc, err := unifyShape(lt, rt)
	if err != "" {
		c.trap(xrt.TrapType, line, "operator %s: %s", op, err)
		return nil, nil, nil, false
	}
	if trunc {
		c.trap(xrt.TrapType, line, "operator %s: implicit vector truncation (%s vs %s)", op, lt, rt)
	}
	r := maxRank(lt, rt)
	switch op {
	case "+", "-", "*", "/", "%":
		if r == 0 {
			r = rank(KInt)
		}
		t := shape.withBase(scalarOf(kindOfRank(r)))
		return t, t, t, true
	case "==", "!=", "<", ">", "<=", ">=":
		t := shape.withBase(scalarOf(kindOfRank(r)))
		return t, t, shape.withBase(tBool), true
	case "&&", "||":
		t := shape.withBase(tBool)
		return t, t, t, true
	case "&", "|", "^":
		if r == rank(KFloat) {
			c.trap(xrt.TrapType, line, "operator %s applied to floating-point operands (%s, %s)", op, lt, rt)
			return nil, nil, nil, false
		}
		if r == 0 {
			r = rank(KInt)
		}
		t := shape.withBase(scalarOf(kindOfRank(r)))
		return t, t, t, true
	case "<<", ">>":
		if lt.base().K == KFloat || rt.base().K == KFloat {
			c.trap(xrt.TrapType, line, "operator %s applied to floating-point operands (%s, %s)", op, lt, rt)
			return nil, nil, nil, false
		}
		lb := lt.base()
		if lb.K == KBool {
			lb = tInt
		}
		rb := rt.base()
		if rb.K == KBool || rb.K == KLitInt {
			rb = tUint
		}
		return shape.withBase(lb), shape.withBase(rb), shape.withBase(lb), true
	}
	c.trap(xrt.TrapType, line, "unknown operator %s", op)
	return nil, nil, nil, false
}

func (c *checker) binary(e *Binary) Expr {
	e.L = c.expr(e.L)
	e.R = c.expr(e.R)
	lt, rt := e.L.typ(), e.R.typ()
	if lt == nil || rt == nil {
		return e
	}
	lo, ro, res, ok := c.binaryTypes(e.Op, lt, rt, e.Line)
	if !ok {
		return e
	}
	e.L = c.convertQuiet(e.L, lo)
	e.R = c.convertQuiet(e.R, ro)
	e.T = res
	return e
}

// convertQuiet inserts a conversion whose legality was already established (truncation already reported).
func (c *checker) convertQuiet(e Expr, to *Type) Expr {
	if sameType(e.typ(), to) {
		return e
	}
	return &Conv{exprBase: exprBase{Line: e.line(), T: to}, X: e}
}

// lvalue returns "" when e designates assignable storage.
func (c *checker) lvalue(e Expr) string {
	switch e := e.(type) {
	case *Ident:
		if e.Sym == nil {
			return ""
		}
		if e.Sym.Const {
			return fmt.Sprintf("%q is const", e.Name)
		}
		return ""
	case *MemberExpr:
		if e.Field < 0 {
			seen := map[int]bool{}
			for _, i := range e.Swizzle {
				if seen[i] {
					return "swizzle with repeated components"
				}
				seen[i] = true
			}
			if e.X.typ() != nil && e.X.typ().isScalar() && len(e.Swizzle) > 1 {
				return "swizzle with repeated components"
			}
		}
		return c.lvalue(e.X)
	case *Index:
		return c.lvalue(e.X)
	}
	return "expression is not an l-value"
}

func (c *checker) assign(e *Assign) Expr {
	e.L = c.expr(e.L)
	e.R = c.expr(e.R)
	lt, rt := e.L.typ(), e.R.typ()
	if lt == nil || rt == nil {
		return e
	}
	if why := c.lvalue(e.L); why != "" {
		c.trap(xrt.TrapType, e.Line, "left side of %s is not assignable: %s", e.Op, why)
		return e
	}
	if lt.K == KBuf {
		c.trap(xrt.TrapType, e.Line, "assignment to a buffer object")
		return e
	}
	if e.Op == "=" {
		e.R = c.convert(e.R, lt, "assignment")
		e.T = lt
		return e
	}
	op := strings.TrimSuffix(e.Op, "=")
	lo, ro, res, ok := c.binaryTypes(op, lt, rt, e.Line)
	if !ok {
		return e
	}
	_ = lo
	e.R = c.convertQuiet(e.R, ro)
	e.OpT = res
	switch implicitConv(res, lt) {
	case 2:
		c.trap(xrt.TrapType, e.Line, "%s: implicit truncation of result %s to %s", e.Op, res, lt)
	case 3:
		c.trap(xrt.TrapType, e.Line, "%s: cannot convert result %s to %s", e.Op, res, lt)
		return e
	}
	e.T = lt
	return e
}

func (c *checker) ternary(e *Ternary) Expr {
	e.C = c.expr(e.C)
	e.A = c.expr(e.A)
	e.B = c.expr(e.B)
	ct, at, bt := e.C.typ(), e.A.typ(), e.B.typ()
	if ct == nil || at == nil || bt == nil {
		return e
	}
	if !ct.isNumeric() || ct.K == KMat {
		c.trap(xrt.TrapType, e.Line, "condition of ?: has type %s", ct)
		return e
	}
	if !at.isNumeric() || !bt.isNumeric() {
		// aggregates: identical types and scalar condition
		if !sameType(at, bt) {
			c.trap(xrt.TrapType, e.Line, "operands of ?: have different types %s and %s", at, bt)
			return e
		}
		if !ct.isScalar() {
			c.trap(xrt.TrapType, e.Line, "vector condition with non-numeric operands in ?:")
			return e
		}
		e.C = c.convert(e.C, tBool, "condition")
		e.T = at
		return e
	}
	var shape *Type
	var trunc bool
	var err string
	if ct.isScalar() {
		shape, trunc, err = unifyShape(at, bt)
	} else {
		shape, trunc, err = unifyShape(ct, at, bt)
	}
	if err != "" {
		c.trap(xrt.TrapType, e.Line, "operator ?: %s", err)
		return e
	}
	if trunc {
		c.trap(xrt.TrapType, e.Line, "operator ?: implicit vector truncation (%s ? %s : %s)", ct, at, bt)
	}
	r := maxRank(at, bt)
	res := shape.withBase(scalarOf(kindOfRank(r)))
	if ct.isScalar() {
		e.C = c.convertQuiet(e.C, tBool)
	} else {
		e.C = c.convertQuiet(e.C, shape.withBase(tBool))
	}
	e.A = c.convertQuiet(e.A, res)
	e.B = c.convertQuiet(e.B, res)
	e.T = res
	return e
}

func (c *checker) ctor(e *Ctor) Expr {
	okAll := true
	for i, a := range e.Args {
		e.Args[i] = c.expr(a)
		if e.Args[i].typ() == nil {
			okAll = false
		}
	}
	if !okAll {
		return e
	}
	to := e.To
	if !to.isNumeric() {
		c.trap(xrt.TrapType, e.Line, "constructor call syntax for non-numeric type %s", to)
		return e
	}
	if len(e.Args) == 0 {
		c.trap(xrt.TrapType, e.Line, "constructor %s() without arguments", to)
		return e
	}
	if len(e.Args) == 1 {
		// functional cast
		if !explicitCastOK(e.Args[0].typ(), to) {
			c.trap(xrt.TrapType, e.Line, "cannot convert %s to %s", e.Args[0].typ(), to)
			return e
		}
		e.T = to
		return e
	}
	n := 0
	for _, a := range e.Args {
		if !a.typ().isNumeric() {
			c.trap(xrt.TrapType, a.line(), "constructor argument of type %s", a.typ())
			return e
		}
		n += a.typ().flatLen()
	}
	if n != to.flatLen() {
		c.trap(xrt.TrapType, e.Line, "constructor %s given %d components, needs %d", to, n, to.flatLen())
		return e
	}
	e.T = to
	return e
}

const swzXYZW = "xyzw"
const swzRGBA = "rgba"

func parseSwizzle(name string, n int) ([]int, bool) {
	if len(name) == 0 || len(name) > 4 {
		return nil, false
	}
	set := swzXYZW
	if strings.IndexByte(swzXYZW, name[0]) < 0 {
		set = swzRGBA
	}
	out := make([]int, len(name))
	for i := 0; i < len(name); i++ {
		j := strings.IndexByte(set, name[i])
		if j < 0 || j >= n {
			return nil, false
		}
		out[i] = j
	}
	return out, true
}

func (c *checker) member(e *MemberExpr) Expr {
	e.X = c.expr(e.X)
	t := e.X.typ()
	if t == nil {
		return e
	}
	switch {
	case t.K == KStruct:
		for i, m := range t.S.Members {
			if m.Name == e.Name {
				e.Field = i
				e.T = m.T
				return e
			}
		}
		c.trap(xrt.TrapUnresolved, e.Line, "struct %s has no member %q", t.S.Name, e.Name)
		return e
	case t.isScalar() || t.K == KVec:
		n := 1
		if t.K == KVec {
			n = t.N
		}
		sw, ok := parseSwizzle(e.Name, n)
		if !ok {
			c.trap(xrt.TrapUnresolved, e.Line, "invalid swizzle %q on %s", e.Name, t)
			return e
		}
		e.Swizzle = sw
		b := t.base()
		if b.K == KLitInt {
			b = tInt
			e.X = c.convertQuiet(e.X, t.withBase(tInt))
		}
		if len(sw) == 1 {
			e.T = b
		} else {
			e.T = vecOf(b, len(sw))
		}
		return e
	case t.K == KMat:
		if strings.HasPrefix(e.Name, "_") {
			c.unsupported(e.Line, "matrix swizzle %q", e.Name)
			c.nErr++
			return e
		}
		c.trap(xrt.TrapUnresolved, e.Line, "invalid member %q on %s", e.Name, t)
		return e
	}
	c.trap(xrt.TrapType, e.Line, "member access .%s on %s", e.Name, t)
	return e
}

func (c *checker) index(e *Index) Expr {
	e.X = c.expr(e.X)
	e.I = c.expr(e.I)
	t, it := e.X.typ(), e.I.typ()
	if t == nil || it == nil {
		return e
	}
	if !it.isScalar() {
		c.trap(xrt.TrapType, e.Line, "index of type %s", it)
		return e
	}
	switch it.K {
	case KInt, KUint:
	default:
		e.I = c.convertQuiet(e.I, tInt)
	}
	switch t.K {
	case KArray:
		e.T = t.Elem
	case KVec:
		e.T = t.Elem
	case KMat:
		e.T = vecOf(t.Elem, t.Cols)
	default:
		c.trap(xrt.TrapType, e.Line, "indexing a value of type %s", t)
	}
	return e
}

// ---- calls ----

func (c *checker) call(e *Call) Expr {
	okAll := true
	for i, a := range e.Args {
		e.Args[i] = c.expr(a)
		if e.Args[i].typ() == nil {
			okAll = false
		}
	}
	if c.lookup(e.Name) != nil {
		c.trap(xrt.TrapType, e.Line, "%q is a variable, not a function", e.Name)
		return e
	}
	cands := c.funcs[e.Name]
	if len(cands) == 0 {
		if g, ok := c.globals[e.Name]; ok && g.Kind != GSkipped {
			c.trap(xrt.TrapType, e.Line, "%q is a variable, not a function", e.Name)
			return e
		}
		if !okAll {
			return e
		}
		return c.intrinsic(e)
	}
	if !okAll {
		return e
	}
	// overload resolution
	best := -1
	bestCost := 1 << 30
	tie := false
	arity := false
	for i, f := range cands {
		if f.Stub {
			// unknown signature: calling it is inconclusive
			c.unsupported(e.Line, "call of skipped function %s (%s)", f.Name, f.Unsupported)
			c.nErr++
			return e
		}
		if len(f.Params) != len(e.Args) {
			continue
		}
		arity = true
		cost := 0
		viable := true
		for j, p := range f.Params {
			at := e.Args[j].typ()
			var k int
			if p.Out && !p.In {
				k = implicitConv(p.T, at)
			} else {
				k = implicitConv(at, p.T)
			}
			if k == 3 {
				viable = false
				break
			}
			switch {
			case k == 0:
			case at.base().K == KLitInt && p.T.base().K == KInt:
				// literal int to int: as good as exact
			case k == 2:
				cost += 100
			default:
				cost += 1
				if at.isScalar() != p.T.isScalar() {
					cost += 10 // splat is worse than a same-shape conversion
				}
			}
		}
		if !viable {
			continue
		}
		if cost < bestCost {
			best, bestCost, tie = i, cost, false
		} else if cost == bestCost {
			tie = true
		}
	}
	if best < 0 {
		var ts []string
		for _, a := range e.Args {
			ts = append(ts, a.typ().String())
		}
		if !arity {
			c.trap(xrt.TrapType, e.Line, "no overload of %q takes %d arguments", e.Name, len(e.Args))
		} else {
			c.trap(xrt.TrapUnresolved, e.Line, "no overload of %q matches argument types (%s)", e.Name, strings.Join(ts, ", "))
		}
		return e
	}
	f := cands[best]
	if tie && bestCost > 0 {
		e.Ambiguous = true
		c.unsupported(e.Line, "ambiguous overload resolution for %s", e.Name)
	}
	if f == c.curFn {
		c.trap(xrt.TrapOther, e.Line, "recursive call of %q (recursion is illegal in HLSL)", e.Name)
	}
	e.Fn = f
	for j, p := range f.Params {
		if p.Out {
			if why := c.lvalue(e.Args[j]); why != "" {
				c.trap(xrt.TrapType, e.Args[j].line(), "argument %d of %s (%s parameter) is not an l-value: %s", j+1, f.Name, dirName(p), why)
				continue
			}
			// copy-out converts parameter type to argument type
			if k := implicitConv(p.T, e.Args[j].typ()); k == 2 {
				c.trap(xrt.TrapType, e.Args[j].line(), "argument %d of %s: implicit truncation on copy-out from %s to %s", j+1, f.Name, p.T, e.Args[j].typ())
			}
			if p.In {
				if k := implicitConv(e.Args[j].typ(), p.T); k == 2 {
					c.trap(xrt.TrapType, e.Args[j].line(), "argument %d of %s: implicit truncation from %s to %s", j+1, f.Name, e.Args[j].typ(), p.T)
				}
			}
			continue // conversions for out/inout are done by the interpreter
		}
		e.Args[j] = c.convert(e.Args[j], p.T, fmt.Sprintf("argument %d of %s", j+1, f.Name))
	}
	e.T = f.Ret
	return e
}

func dirName(p *Param) string {
	if p.In && p.Out {
		return "inout"
	}
	if p.Out {
		return "out"
	}
	return "in"
}
