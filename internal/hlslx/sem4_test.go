package hlslx

import (
	"math"
	"testing"
)

func TestSemWorkgroupZeroInit(t *testing.T) {
	rc := runCase{wgsl: `
struct W { a: u32, b: array<vec2<f32>, 2>, }
@group(0) @binding(0) var<storage, read_write> o: array<u32>;
var<workgroup> w: W;
var<workgroup> cnt: atomic<u32>;
@compute @workgroup_size(4)
fn main(@builtin(local_invocation_index) li: u32) {
  // WGSL zero-initialises workgroup memory before the entry point body runs
  let before = w.a + u32(w.b[1].y) + atomicLoad(&cnt);
  workgroupBarrier();
  if li == 2u { w.a = 5u; w.b[1] = vec2<f32>(1.0, 2.0); }
  atomicAdd(&cnt, 1u);
  workgroupBarrier();
  o[li] = before * 1000u + w.a * 100u + u32(w.b[1].y) * 10u + atomicLoad(&cnt);
}`,
		bufs: map[string][]byte{"o": make([]byte, 16)}}
	bufs, res, _ := rc.run(t)
	expectNoTraps(t, res)
	expectU32(t, "o", bufs["o"], 524, 524, 524, 524)
}

func TestSemF2IEdges(t *testing.T) {
	rc := runCase{wgsl: hdrIO + `
@compute @workgroup_size(1)
fn main() {
  let v = vec4<f32>(bitcast<f32>(inp[0]), bitcast<f32>(inp[1]), bitcast<f32>(inp[2]), bitcast<f32>(inp[3]));
  let iv = vec4<i32>(v);
  o[0] = bitcast<u32>(iv.x); o[1] = bitcast<u32>(iv.y); o[2] = bitcast<u32>(iv.z); o[3] = bitcast<u32>(iv.w);
  let uv = vec4<u32>(v);
  o[4] = uv.x; o[5] = uv.y; o[6] = uv.z; o[7] = uv.w;
  o[8] = bitcast<u32>(i32(bitcast<f32>(inp[4])));   // +inf
  o[9] = u32(bitcast<f32>(inp[5]));                 // -inf
  o[10] = u32(bitcast<f32>(inp[6]));                // 0.99
  o[11] = bitcast<u32>(i32(bitcast<f32>(inp[7])));  // -0.99
}`,
		bufs: map[string][]byte{"o": make([]byte, 48), "inp": u32s(fb(2147483520), fb(-2147483648), fb(4294967040), fb(1e20), 0x7F800000, 0xFF800000, fb(0.99), fb(-0.99))}}
	bufs, res, _ := rc.run(t)
	expectNoTraps(t, res)
	expectU32(t, "o", bufs["o"],
		2147483520, 0x80000000, 2147483520, 2147483520,
		2147483520, 0, 4294967040, 4294967040,
		2147483520, 0, 0, 0)
}

func TestSemEarlyReturnAndHelpers(t *testing.T) {
	rc := runCase{wgsl: hdrIO + `
fn find(limit: u32, target_: u32) -> u32 {
  var i = 0u;
  loop {
    if i >= limit { break; }
    var j = 0u;
    while j < 4u {
      if i * 4u + j == target_ { return i * 100u + j; }
      j++;
    }
    continuing { i++; }
  }
  return 9999u;
}
fn collatz(n0: u32) -> u32 {
  var n = n0; var steps = 0u;
  while n != 1u {
    if n % 2u == 0u { n = n / 2u; } else { n = 3u * n + 1u; }
    steps++;
  }
  return steps;
}
fn fact(n: u32) -> u32 { var r = 1u; for (var i = 2u; i <= n; i++) { r *= i; } return r; }
fn compose(a: u32) -> u32 { return fact(collatz(a) % 7u) + find(5u, a); }
@compute @workgroup_size(1)
fn main() {
  o[0] = find(inp[0], 13u);
  o[1] = find(inp[0], 77u);
  o[2] = collatz(27u);
  o[3] = fact(inp[1]);
  o[4] = compose(6u);
}`,
		bufs: map[string][]byte{"o": make([]byte, 20), "inp": u32s(5, 13)}}
	bufs, res, _ := rc.run(t)
	expectNoTraps(t, res)
	// collatz(6) = 8 steps; 8 % 7 = 1; fact(1) = 1; find(5,6) = 102 ; 13! mod 2^32 = 1932053504
	expectU32(t, "o", bufs["o"], 301, 9999, 111, 1932053504, 103)
}

func TestSemIntVectorOps(t *testing.T) {
	rc := runCase{wgsl: hdrIO + `
@compute @workgroup_size(1)
fn main() {
  let a = vec3<i32>(bitcast<i32>(inp[0]), 7, bitcast<i32>(inp[1]));   // (-5, 7, INT_MIN)
  let ab = abs(a);
  o[0] = bitcast<u32>(ab.x); o[1] = bitcast<u32>(ab.y); o[2] = bitcast<u32>(ab.z);
  let ng = -a;
  o[3] = bitcast<u32>(ng.x); o[4] = bitcast<u32>(ng.y); o[5] = bitcast<u32>(ng.z);
  let d = a / 2;
  o[6] = bitcast<u32>(d.x); o[7] = bitcast<u32>(d.y); o[8] = bitcast<u32>(d.z);
  let r = a % vec3<i32>(3);
  o[9] = bitcast<u32>(r.x); o[10] = bitcast<u32>(r.y); o[11] = bitcast<u32>(r.z);
  let mn = min(vec2<u32>(inp[0], 3u), vec2<u32>(9u, inp[2]));
  o[12] = mn.x; o[13] = mn.y;
  let sh = vec2<i32>(-16, 16) >> vec2<u32>(2u, inp[2]);
  o[14] = bitcast<u32>(sh.x); o[15] = bitcast<u32>(sh.y);
  let bits = (vec2<u32>(0xF0u, 0x0Fu) | vec2<u32>(inp[2])) ^ vec2<u32>(0xFFu) & ~vec2<u32>(0x3u);
  o[16] = bits.x; o[17] = bits.y;
  let cmp = select(a, vec3<i32>(0), a < vec3<i32>(0));
  o[18] = bitcast<u32>(cmp.x + cmp.y + cmp.z);
  let bc = bitcast<vec3<u32>>(a) + vec3<u32>(1u);
  o[19] = bc.x; o[20] = bc.z;
}`,
		bufs: map[string][]byte{"o": make([]byte, 84), "inp": u32s(0xFFFFFFFB, 0x80000000, 1)}}
	bufs, res, _ := rc.run(t)
	expectNoTraps(t, res)
	// precedence: (A | B) ^ (C & ~D)  => (0xF1 ^ 0xFC, 0x0F ^ 0xFC)
	expectU32(t, "o", bufs["o"],
		5, 7, 0x80000000, 5, 0xFFFFFFF9, 0x80000000,
		0xFFFFFFFE, 3, 0xC0000000, 0xFFFFFFFE, 1, 0xFFFFFFFE,
		9, 1, 0xFFFFFFFC, 8, 0xF1^0xFC, 0x0F^0xFC, 7, 0xFFFFFFFC, 0x80000001)
}

func TestSemMixedStagesSkipped(t *testing.T) {
	rc := runCase{wgsl: `
@group(0) @binding(0) var<storage, read_write> o: array<u32>;
@group(1) @binding(0) var tex: texture_2d<f32>;
@group(1) @binding(1) var smp: sampler;
@vertex fn vs(@builtin(vertex_index) vi: u32) -> @builtin(position) vec4<f32> { return vec4<f32>(f32(vi), 0.0, 0.0, 1.0); }
@fragment fn fs(@location(0) uv: vec2<f32>) -> @location(0) vec4<f32> { return textureSample(tex, smp, uv); }
fn helper(x: u32) -> u32 { return x * 2u + 1u; }
@compute @workgroup_size(1)
fn main() { o[0] = helper(20u); }`,
		bufs: map[string][]byte{"o": make([]byte, 4)}}
	bufs, res, prog := rc.run(t)
	expectNoTraps(t, res)
	expectU32(t, "o", bufs["o"], 41)
	if len(prog.Skipped()) == 0 {
		t.Errorf("expected skipped texture declarations")
	}
	kinds := map[string]int{}
	for _, d := range prog.Decls() {
		kinds[d.Kind]++
	}
	for _, k := range []string{"function", "entry", "param", "local", "global"} {
		if kinds[k] == 0 {
			t.Errorf("Decls() lists no %s: %v", k, prog.Decls())
		}
	}
}

func TestSemMatCx2DynamicColumnStore(t *testing.T) {
	rc := runCase{wgsl: `
struct U { m: mat2x2<f32>, }
@group(0) @binding(0) var<storage, read_write> o: array<u32>;
@group(0) @binding(1) var<uniform> u: U;
@compute @workgroup_size(1)
fn main() {
  var t = u;
  let i = o[7];            // 1
  t.m[i] = vec2<f32>(8.0, 9.0);
  t.m[0][i] = 7.0;
  o[0] = bitcast<u32>(t.m[0].x); o[1] = bitcast<u32>(t.m[0].y); o[2] = bitcast<u32>(t.m[1].x); o[3] = bitcast<u32>(t.m[1].y);
}`,
		bufs: map[string][]byte{"o": append(make([]byte, 28), u32s(1)...), "u": f32s(1, 2, 3, 4)}}
	bufs, res, _ := rc.run(t)
	expectNoTraps(t, res)
	got := getU32(bufs["o"])
	want := []uint32{fb(1), fb(7), fb(8), fb(9)}
	for i, w := range want {
		if got[i] != w {
			t.Logf("SUSPECT naga: store through a dynamic column index into a struct-wrapped matCx2 goes through SetMatVec...(S obj, ...) / SetMatScalar...(S obj, ...) whose `obj` parameter is passed BY VALUE in HLSL, so the store is lost: word %d = %#x, WGSL expects %#x", i, got[i], w)
		}
	}
}

func TestSemDeterminantStore(t *testing.T) {
	rc := runCase{wgsl: `
@group(0) @binding(0) var<storage, read_write> o: array<f32>;
@compute @workgroup_size(1)
fn main() {
  let x = o[0];
  let m = mat2x2<f32>(x, 2.0, 3.0, 4.0);
  o[1] = determinant(m);       // 1*4 - 3*2 = -2
  let d = determinant(m);
  o[2] = d * 2.0;
}`,
		bufs: map[string][]byte{"o": f32s(1, 0, 0, 50, 60, 70, 80)}}
	bufs, res, _ := rc.run(t)
	expectNoTraps(t, res)
	got := getU32(bufs["o"])
	want := []uint32{fb(1), fb(-2), fb(-4), fb(50), fb(60), fb(70), fb(80)}
	for i, w := range want {
		if got[i] != w {
			t.Logf("SUSPECT naga: determinant() is given the MATRIX type: `float2x2 d = determinant(m)` and the store of a determinant writes a whole matrix (Store2 x2), clobbering neighbouring elements: o[%d] = %v, WGSL expects %v",
				i, math.Float32frombits(got[i]), math.Float32frombits(w))
		}
	}
}

func TestSemInverseHyperbolic(t *testing.T) {
	txt := compileWGSL(t, `
@group(0) @binding(0) var<storage, read_write> o: array<f32>;
@compute @workgroup_size(1)
fn main() { let x = o[0]; o[1] = asinh(x) + acosh(x + 1.0) + atanh(x * 0.5); }`, nil)
	prog, err := Parse(txt)
	if err != nil {
		t.Fatalf("Parse: %v", err)
	}
	for _, tr := range prog.StaticTraps() {
		t.Logf("SUSPECT naga: asinh/acosh/atanh are emitted as calls of functions HLSL does not have: %v", tr)
	}
}

func TestSemStructEntryInputs(t *testing.T) {
	rc := runCase{wgsl: `
struct In { @builtin(global_invocation_id) gid: vec3<u32>, @builtin(local_invocation_index) li: u32, }
@group(0) @binding(0) var<storage, read_write> o: array<u32>;
@compute @workgroup_size(2)
fn main(inp: In, @builtin(workgroup_id) wid: vec3<u32>) {
  o[inp.gid.x] = inp.li + wid.x * 10u + 100u;
}`,
		bufs:     map[string][]byte{"o": make([]byte, 16)},
		dispatch: [3]uint32{2, 1, 1}}
	bufs, res, _ := rc.run(t)
	expectNoTraps(t, res)
	expectU32(t, "o", bufs["o"], 100, 101, 110, 111)
}
