package hlslx

/*
Implementation notes (what the monitor assumes about HLSL).

Subset
  Types: bool int uint float (dword), their 2..4 vectors and 2..4 x 2..4 matrices
  (also spelled vector<T,N> / matrix<T,R,C>), fixed arrays, structs, typedefs,
  (RW)ByteAddressBuffer objects (globals and parameters).
  Globals: static / static const / groupshared variables, (RW)ByteAddressBuffer with
  register(uN|tN[, spaceM]), cbuffer NAME : register(bN[, spaceM]) { one member },
  ConstantBuffer<Struct>.
  Statements: blocks, declarations, if/else, switch, while, do-while, for, break,
  continue, return; statement attributes ([unroll] [loop] [branch] ...) are ignored.
  Expressions: all C operators except the comma operator, casts incl. (T[N])x and
  (Struct)0, constructors, swizzles (xyzw / rgba, also on scalars), initialiser
  lists with HLSL flattening, calls with overload resolution, out / inout
  parameters (copy-in / copy-out), buffer methods, intrinsics (see check_intrinsics.go).
  Outside the subset (the declaration is skipped, reaching it is *xrt.Unsupported):
  half/double/64-bit/min-precision types, textures, samplers, structured buffers,
  ray queries, wave/quad intrinsics, derivatives, discard, templated Load<T>,
  packoffset, several members in one cbuffer, non-static globals ($Globals),
  matrix swizzles (_m00), the comma operator, local statics, default arguments,
  multiple declarators per declaration, 1-component vectors / 1-dimension matrices.

Semantics taken from the HLSL / Direct3D documentation
  * int/uint arithmetic wraps; shifts use the low 5 bits of the amount; >> is
    arithmetic on int; % follows the dividend's sign.
  * Integer division / remainder by zero and INT_MIN / -1 are reported
    (TrapDivZero / TrapDivOvf): FXC and DXC reject the constant forms and the
    HLSL documentation leaves the result undefined.
  * float -> int/uint conversion truncates; NaN / out-of-range values are
    undefined => TrapF2I (fallback: saturating ftoi / ftou).
  * Binary operators: operands are promoted bool < int < uint < float, scalars
    splat; implicit vector truncation is legal HLSL (warning) but reported as
    TrapType. bool operands of arithmetic / bitwise operators promote to int.
  * && and || evaluate both operands (no short circuit before HLSL 2021) and are
    component-wise on vectors. ?: with a scalar condition evaluates only the
    selected operand; with a vector condition it is a component-wise select.
  * switch: falling out of a non-empty case into the next label is an error in
    FXC (X3533); it is reported as TrapOther when it happens at run time.
  * Locals without initialiser, out parameters on entry and groupshared memory
    are undefined (poison); static globals without initialiser are zero.
  * static globals are per thread; groupshared per workgroup.
  * ByteAddressBuffer: offsets must be 4-byte aligned (TrapOther otherwise);
    accesses beyond the buffer are TrapOOB (fallback: reads 0, writes dropped,
    per dword as D3D does). InterlockedMin/Max are signed iff the value argument
    is int (buffers) / the destination is int (groupshared).
  * sign() returns int; firstbithigh / firstbitlow return the bit index counted
    from the LSB, 0xFFFFFFFF when no bit is found; firstbithigh(int) on negative
    values looks for the highest 0 bit; round() rounds half to even; frac(x) =
    x - floor(x); min / max return the non-NaN operand; clamp = min(max(x,lo),hi);
    pow with a negative base is NaN; fma() is double only (TrapType on floats).
  * Every float operation is rounded to binary32 separately. mad, lerp, dot,
    length, normalize, mul, smoothstep, reflect, refract, determinant are
    computed unfused, left to right; transcendental functions in float64 and
    rounded once. Their exact bits are implementation-defined in D3D.
  * f32tof16 of a value that is not exactly representable is *xrt.Unsupported:
    the documentation does not pin the rounding mode (RTZ in the D3D11 functional
    specification, RTNE in practice).
  * Constant buffers follow the legacy packing rules (layout.go).
  * TrapReserved covers keywords, reserved words, builtin type names, object
    type names and (except for struct members) intrinsic function names. Shadowing
    an intrinsic is legal HLSL; it is reported because the task asks for it and
    the Detail string says "intrinsic function name" so that callers can filter.
*/
