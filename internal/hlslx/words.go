package hlslx

import "sort"

// AdversarialWords lists names a hostile author would pick for user identifiers: every word of the reserved tables
// (keywords, reserved words, case-insensitive FXC tokens, intrinsics, builtin type names). Used by the renaming check.
func AdversarialWords() []string {
	seen := map[string]bool{}
	for _, m := range []map[string]bool{hlslKeywords, hlslReservedWords, hlslCaseInsensitive, hlslIntrinsics} {
		for k := range m {
			seen[k] = true
		}
	}
	for _, b := range hlslTypeBases {
		seen[b] = true
		seen[b+"2"] = true
		seen[b+"4"] = true
		seen[b+"3x3"] = true
		seen[b+"4x4"] = true
	}
	for _, k := range []string{"vector", "matrix", "void"} {
		seen[k] = true
	}
	out := make([]string, 0, len(seen))
	for k := range seen {
		out = append(out, k)
	}
	sort.Strings(out)
	return out
}
