package hlslx

import (
	"fmt"
	"strconv"
	"strings"

	"verif/internal/xrt"
)

// token kinds
type tokKind uint8

const (
	tkEOF tokKind = iota
	tkIdent
	tkInt   // integer literal
	tkFloat // float literal
	tkPunct // operator / punctuation, text in tok.s
	tkUnsup // a valid lexeme outside the supported subset (message in tok.s)
)

type token struct {
	k    tokKind
	s    string  // identifier text or punctuation
	u    uint64  // integer literal value
	uns  bool    // integer literal has u suffix
	f    float32 // float literal value
	line int
}

func (t token) String() string {
	switch t.k {
	case tkEOF:
		return "<eof>"
	case tkInt:
		return strconv.FormatUint(t.u, 10)
	case tkFloat:
		return fmt.Sprint(t.f)
	}
	return t.s
}

// syntaxError is text that is not valid HLSL (a finding for the caller).
type syntaxError struct {
	line int
	msg  string
}

func (e *syntaxError) Error() string {
	return fmt.Sprintf("hlsl syntax error, line %d: %s", e.line, e.msg)
}

func unsupportedf(format string, a ...any) *xrt.Unsupported {
	return &xrt.Unsupported{What: "hlslx: " + fmt.Sprintf(format, a...)}
}

var puncts3 = []string{"<<=", ">>="}
var puncts2 = []string{"++", "--", "+=", "-=", "*=", "/=", "%=", "&=", "|=", "^=", "<<", ">>", "<=", ">=", "==", "!=", "&&", "||", "::", "->"}

const puncts1 = "+-*/%&|^~!<>=?:;,.(){}[]"

func isIdentStart(c byte) bool {
	return c == '_' || (c >= 'a' && c <= 'z') || (c >= 'A' && c <= 'Z')
}
func isDigit(c byte) bool { return c >= '0' && c <= '9' }

// lex splits the source into tokens. Errors: *syntaxError for characters that
// cannot appear in HLSL, *xrt.Unsupported for valid-but-unsupported lexemes.
func lex(src string) ([]token, error) {
	var out []token
	line := 1
	i := 0
	n := len(src)
	for i < n {
		c := src[i]
		switch {
		case c == '\n':
			line++
			i++
		case c == ' ' || c == '\t' || c == '\r' || c == '\f' || c == '\v':
			i++
		case c == '/' && i+1 < n && src[i+1] == '/':
			for i < n && src[i] != '\n' {
				i++
			}
		case c == '/' && i+1 < n && src[i+1] == '*':
			j := strings.Index(src[i+2:], "*/")
			if j < 0 {
				return nil, &syntaxError{line, "unterminated comment"}
			}
			line += strings.Count(src[i:i+2+j+2], "\n")
			i += 2 + j + 2
		case c == '#':
			return nil, unsupportedf("preprocessor directive at line %d", line)
		case c == '"':
			j := i + 1
			for j < n && src[j] != '"' && src[j] != '\n' {
				j++
			}
			if j >= n || src[j] != '"' {
				return nil, &syntaxError{line, "unterminated string literal"}
			}
			out = append(out, token{k: tkUnsup, s: "string literal", line: line})
			i = j + 1
		case isIdentStart(c):
			j := i + 1
			for j < n && (isIdentStart(src[j]) || isDigit(src[j])) {
				j++
			}
			out = append(out, token{k: tkIdent, s: src[i:j], line: line})
			i = j
		case isDigit(c) || (c == '.' && i+1 < n && isDigit(src[i+1])):
			t, j, err := lexNumber(src, i, line)
			if err != nil {
				return nil, err
			}
			out = append(out, t)
			i = j
		default:
			matched := ""
			for _, p := range puncts3 {
				if strings.HasPrefix(src[i:], p) {
					matched = p
					break
				}
			}
			if matched == "" {
				for _, p := range puncts2 {
					if strings.HasPrefix(src[i:], p) {
						matched = p
						break
					}
				}
			}
			if matched == "" && strings.IndexByte(puncts1, c) >= 0 {
				matched = string(c)
			}
			if matched == "" {
				return nil, &syntaxError{line, fmt.Sprintf("illegal character %q", c)}
			}
			out = append(out, token{k: tkPunct, s: matched, line: line})
			i += len(matched)
		}
	}
	out = append(out, token{k: tkEOF, line: line})
	return out, nil
}

func lexNumber(src string, i, line int) (token, int, error) {
	n := len(src)
	start := i
	// hex
	if src[i] == '0' && i+1 < n && (src[i+1] == 'x' || src[i+1] == 'X') {
		j := i + 2
		for j < n && (isDigit(src[j]) || (src[j] >= 'a' && src[j] <= 'f') || (src[j] >= 'A' && src[j] <= 'F')) {
			j++
		}
		if j == i+2 {
			return token{}, 0, &syntaxError{line, "malformed hex literal"}
		}
		v, err := strconv.ParseUint(src[i+2:j], 16, 64)
		if err != nil {
			return token{}, 0, &syntaxError{line, "hex literal out of range"}
		}
		return intSuffix(src, j, line, v)
	}
	j := i
	for j < n && isDigit(src[j]) {
		j++
	}
	isFloat := false
	if j < n && src[j] == '.' {
		// "1.xx" is a swizzle on an int literal only when followed by an identifier start that is not e/E/f/h etc.
		// naga always parenthesises, so treat '.' as decimal point.
		isFloat = true
		j++
		for j < n && isDigit(src[j]) {
			j++
		}
	}
	if j < n && (src[j] == 'e' || src[j] == 'E') {
		k := j + 1
		if k < n && (src[k] == '+' || src[k] == '-') {
			k++
		}
		if k < n && isDigit(src[k]) {
			isFloat = true
			for k < n && isDigit(src[k]) {
				k++
			}
			j = k
		}
	}
	if isFloat {
		v, err := strconv.ParseFloat(src[start:j], 32)
		if err != nil {
			// out of float32 range: ParseFloat returns ±Inf with ErrRange
			if ne, ok := err.(*strconv.NumError); !ok || ne.Err != strconv.ErrRange {
				return token{}, 0, &syntaxError{line, "malformed float literal " + src[start:j]}
			}
		}
		if j < n {
			switch src[j] {
			case 'f', 'F':
				j++
			case 'h', 'H':
				return token{k: tkUnsup, s: "half literal", line: line}, j + 1, nil
			case 'l', 'L':
				return token{k: tkUnsup, s: "double literal", line: line}, j + 1, nil
			}
		}
		if j < n && (isIdentStart(src[j]) || isDigit(src[j])) {
			return token{}, 0, &syntaxError{line, "malformed numeric literal"}
		}
		return token{k: tkFloat, f: float32(v), line: line}, j, nil
	}
	// octal literals (leading 0 followed by digits) are legal HLSL but never emitted: unsupported
	if j-start > 1 && src[start] == '0' {
		return token{k: tkUnsup, s: "octal literal", line: line}, j, nil
	}
	v, err := strconv.ParseUint(src[start:j], 10, 64)
	if err != nil {
		return token{}, 0, &syntaxError{line, "integer literal out of range"}
	}
	// "1f" style float literal
	if j < n && (src[j] == 'f' || src[j] == 'F') && !(j+1 < n && (isIdentStart(src[j+1]) || isDigit(src[j+1]))) {
		return token{k: tkFloat, f: float32(v), line: line}, j + 1, nil
	}
	return intSuffix(src, j, line, v)
}

func intSuffix(src string, j, line int, v uint64) (token, int, error) {
	n := len(src)
	uns := false
	long := false
	for j < n && (src[j] == 'u' || src[j] == 'U' || src[j] == 'l' || src[j] == 'L') {
		if src[j] == 'l' || src[j] == 'L' {
			long = true
		} else {
			if uns {
				return token{}, 0, &syntaxError{line, "malformed integer suffix"}
			}
			uns = true
		}
		j++
	}
	if j < n && (isIdentStart(src[j]) || isDigit(src[j])) {
		return token{}, 0, &syntaxError{line, "malformed numeric literal"}
	}
	if long {
		return token{k: tkUnsup, s: "64-bit integer literal", line: line}, j, nil
	}
	if v > 0xFFFFFFFF {
		return token{k: tkUnsup, s: "integer literal wider than 32 bits", line: line}, j, nil
	}
	return token{k: tkInt, u: v, uns: uns, line: line}, j, nil
}
