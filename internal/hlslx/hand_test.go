package hlslx

import (
	"testing"

	"verif/internal/xrt"
)

func runHand(t *testing.T, src string, bufs xrt.Buffers, disp [3]uint32) xrt.Result {
	t.Helper()
	prog, err := Parse(src)
	if err != nil {
		t.Fatalf("Parse: %v", err)
	}
	for _, tr := range prog.StaticTraps() {
		t.Errorf("static trap: %v", tr)
	}
	res, err := prog.Run("main", bufs, xrt.Options{TrapMode: true, Dispatch: xrt.Dispatch{NumGroups: disp}})
	if err != nil {
		t.Fatalf("Run: %v", err)
	}
	for _, tr := range res.Traps {
		t.Errorf("trap: %v", tr)
	}
	return res
}

func TestHandSyntaxFeatures(t *testing.T) {
	src := `
typedef uint Arr3[3];
typedef struct { float2 p; uint k; } Pt;
struct In { uint3 gid : SV_DispatchThreadID; uint idx : SV_GroupIndex; };
RWByteAddressBuffer o : register(u0);
static uint zeroed;            // statics are zero-initialised
static uint counter = 10u;     // per-thread copy
static const float k_half = 0.5f;
static const uint tbl[2][2] = { { 1u, 2u }, { 3u, 4u } };

void split(uint x, out uint lo, out uint hi) { lo = x & 0xFFFFu; hi = x >> 16; }
void twice(inout vector<uint, 2> v) { v = v * 2u; }
uint pick(uint a) { return 1u; }
uint pick(int a) { return 2u; }
uint pick(float a) { return 3u; }
uint pick(uint2 a) { return 4u; }
Arr3 mk(uint b) { Arr3 r = { b, b + 1u, b + 2u }; return r; }

[numthreads(2, 1, 1)]
void main(In input)
{
    uint base = input.gid.x * 64u;
    uint lo; uint hi;
    split(0xABCD1234u, lo, hi);
    o.Store(base + 0u, lo);
    o.Store(base + 4u, hi);
    vector<uint, 2> v = uint2(3u, 4u);
    twice(v);
    o.Store2(base + 8u, v);
    o.Store(base + 16u, pick(1u) + pick(int(1)) * 10u + pick(1.0) * 100u + pick(v) * 1000u);
    Arr3 a = mk(5u);
    uint s = 0u;
    [unroll] for (uint i = 0u; i < 3u; i++) { s += a[i] * (i + 1u); }
    o.Store(base + 20u, s);                       // 5 + 12 + 21 = 38
    Pt pts[2] = { float2(1.0, 2.0), 7u, { 3.0, 4.0 }, 9u };
    o.Store(base + 24u, pts[1].k + uint(pts[1].p.y) + uint(pts[0].p.x));   // 9 + 4 + 1
    counter += input.idx + zeroed;
    o.Store(base + 28u, counter);                 // 10 + idx
    int n = 0;
    do { n++; } while (n < 5);
    int m = n++ + ++n;                            // 5 + 7
    o.Store(base + 32u, asuint(m));
    matrix<float, 2, 2> mm = { 1.0, 2.0, 3.0, 4.0 };
    float2 r = mul(mm, float2(1.0, 1.0));        // rows (1,2),(3,4) => (3,7)
    o.Store2(base + 36u, asuint(r));
    float t = input.idx == 0u ? (k_half > 0.25 ? 1.0 : 2.0) : 3.0;
    o.Store(base + 44u, asuint(t));
    o.Store(base + 48u, tbl[1][0] * 10u + tbl[0][1]);
    uint4 w = uint4(v, lo >> 12, 0xFFu);
    o.Store(base + 52u, w.x + w.y + w.z + w.w);   // 6 + 8 + 1 + 255
    float3 c = float3(1, 2, 3) * 2;               // int literals convert
    o.Store(base + 56u, asuint(c.z));
    bool both = (n > 100) && (++n > 0);           // no short-circuit before HLSL 2021: ++n is evaluated
    o.Store(base + 60u, asuint(n) + (both ? 100u : 0u));
}
`
	bufs := xrt.Buffers{{Kind: "u", A: 0, B: 0}: make([]byte, 128)}
	runHand(t, src, bufs, [3]uint32{1, 1, 1})
	out := bufs[xrt.Slot{Kind: "u", A: 0, B: 0}]
	for th := uint32(0); th < 2; th++ {
		tsel := fb(1)
		if th == 1 {
			tsel = fb(3)
		}
		expectU32(t, "thread", out[64*th:], 0x1234, 0xABCD, 6, 8, 1+20+300+4000, 38, 14, 10+th, 12, fb(3), fb(7), tsel, 32, 270, fb(6), 8)
	}
}

func TestHandCBufferPacking(t *testing.T) {
	src := `
struct Inner { float3 a; };
struct CB {
    float  s0;        // 0
    float2 v2;        // 4  (fits the first register)
    float3 v3;        // 16 (would straddle: new register)
    float  s1;        // 28 (packs behind v3)
    float  arr[3];    // 32, 48, 64 (every element on its own register)
    float  s2;        // 68 (packs behind the last element)
    Inner  inner;     // 80 (struct starts a register)
    float  s3;        // 92 (packs behind the struct)
    column_major float2x3 cm;   // 96: three columns of 2 -> 96, 112, 128
    row_major float2x3 rm;      // 144: two rows of 3 -> 144, 160
    float2 tail;      // 172 -> would straddle (172%16 = 12, +8 > 16) => 176
    int3 iv;          // 192 (184%16=8, 8+12 > 16)
    bool flag;        // 204
};
ConstantBuffer<CB> cb : register(b2, space1);
cbuffer other : register(b3) { row_major float2x2 mats[2]; }
RWByteAddressBuffer o : register(u0);
[numthreads(1, 1, 1)]
void main()
{
    o.Store(0, asuint(cb.s0));
    o.Store2(4, asuint(cb.v2));
    o.Store3(12, asuint(cb.v3));
    o.Store(24, asuint(cb.s1));
    o.Store3(28, asuint(float3(cb.arr[0], cb.arr[1], cb.arr[2])));
    o.Store(40, asuint(cb.s2));
    o.Store(44, asuint(cb.inner.a.z));
    o.Store(48, asuint(cb.s3));
    o.Store3(52, asuint(cb.cm[0]));       // row 0 = first component of each column
    o.Store3(64, asuint(cb.cm[1]));
    o.Store3(76, asuint(cb.rm[1]));
    o.Store2(88, asuint(cb.tail));
    o.Store(96, asuint(cb.iv.z));
    o.Store(100, cb.flag ? 1u : 0u);
    o.Store2(104, asuint(mats[1][1]));    // element 1 at 32, row 1 at 48
}
`
	cbData := f32words(52) // word i = float(i)
	copy(cbData[4*50:], i32s(77))
	copy(cbData[4*51:], u32s(5)) // bool: any non-zero is true
	bufs := xrt.Buffers{
		{Kind: "u", A: 0, B: 0}: make([]byte, 112),
		{Kind: "b", A: 1, B: 2}: cbData,
		{Kind: "b", A: 0, B: 3}: f32words(16),
	}
	runHand(t, src, bufs, [3]uint32{1, 1, 1})
	expectU32(t, "o", bufs[xrt.Slot{Kind: "u", A: 0, B: 0}],
		fb(0), fb(1), fb(2), fb(4), fb(5), fb(6), fb(7), fb(8), fb(12), fb(16), fb(17), fb(22), fb(23),
		fb(24), fb(28), fb(32), fb(25), fb(29), fb(33), fb(40), fb(41), fb(42), fb(44), fb(45), 77, 1, fb(12), fb(13))
}

func TestHandByteAddressOps(t *testing.T) {
	src := `
RWByteAddressBuffer o : register(u0);
ByteAddressBuffer inp : register(t0, space2);
groupshared int cell;
uint len(ByteAddressBuffer b) { uint n; b.GetDimensions(n); return n; }
uint lenrw(RWByteAddressBuffer b) { uint n; b.GetDimensions(n); return n; }
[numthreads(1, 1, 1)]
void main()
{
    uint4 v = inp.Load4(0);
    o.Store4(0, v.wzyx);
    o.Store(16, len(inp) + lenrw(o) * 1000u);
    int orig;
    o.Store(20, 5u);
    o.InterlockedMin(20, int(-3), orig);        // signed: value argument is int => min(5, -3) = -3
    o.Store(24, asuint(orig));
    uint uorig;
    o.InterlockedMin(20, 7u, uorig);            // unsigned: 0xFFFFFFFD vs 7 => 7
    o.Store(28, uorig);
    o.InterlockedCompareStore(20, 7u, 42u);
    o.InterlockedCompareExchange(20, 1u, 2u, uorig);   // no match
    o.Store(32, uorig);
    o.InterlockedAdd(20, 8u);
    cell = 10;
    InterlockedMax(cell, int(-20), orig);
    InterlockedAdd(cell, int(5));
    int prev;
    InterlockedCompareExchange(cell, int(15), int(99), prev);
    o.Store(36, asuint(cell + prev + orig));     // 99 + 15 + 10
    o.Store2(40, asuint(asfloat(uint2(0x3F800000u, 0x40000000u)) * 2.0));
    o.Store(48, asuint(asint(uint(3000000000u)) >> 1));
    o.Store(52, f32tof16(1.0) | (f32tof16(-2.0) << 16));
    o.Store(56, asuint(f16tof32(0x3555u)));
    o.Store(60, firstbithigh(0x00F0u) | (firstbitlow(0x00F0u) << 8) | (countbits(0xFFu) << 16) | (asuint(firstbithigh(int(-16))) << 24));
}
`
	bufs := xrt.Buffers{
		{Kind: "u", A: 0, B: 0}: make([]byte, 64),
		{Kind: "t", A: 2, B: 0}: u32s(1, 2, 3, 4, 5),
	}
	runHand(t, src, bufs, [3]uint32{1, 1, 1})
	out := bufs[xrt.Slot{Kind: "u", A: 0, B: 0}]
	expectU32(t, "o", out, 4, 3, 2, 1, 20+64000, 50, 5, 0xFFFFFFFD, 42, 124, fb(2), fb(4),
		0xD9682F00, 0xC0003C00, fb(0.33325195), 7|4<<8|8<<16|3<<24)
}
