package hlslx

import (
	"math"
)

// Scalar is one 32-bit component: bit pattern plus poison flag.
type Scalar struct {
	B uint32
	P bool // poison (never written / derived from poison)
}

// Value is a flattened typed value. Aggregates are stored component after
// component in declaration order; matrices row after row.
type Value struct {
	T   *Type
	S   []Scalar
	Buf *bufObj // KBuf only
}

func zeroValue(t *Type) Value { return Value{T: t, S: make([]Scalar, t.flatLen())} }
func poisonValue(t *Type) Value {
	v := Value{T: t, S: make([]Scalar, t.flatLen())}
	for i := range v.S {
		v.S[i].P = true
	}
	return v
}

func (v Value) clone() Value {
	return Value{T: v.T, S: append([]Scalar(nil), v.S...), Buf: v.Buf}
}

func (v Value) anyPoison() bool {
	for _, s := range v.S {
		if s.P {
			return true
		}
	}
	return false
}

func f32(s Scalar) float32     { return math.Float32frombits(s.B) }
func fromF32(f float32) uint32 { return math.Float32bits(f) }

func scalarValue(t *Type, bits uint32) Value { return Value{T: t, S: []Scalar{{B: bits}}} }
func boolBits(b bool) uint32 {
	if b {
		return 1
	}
	return 0
}

// f2iResult: float -> int32 conversion per D3D (truncate; the out-of-range
// results are what ftoi produces and are only used as fallback after a trap).
func f2i(f float32) (r uint32, ok bool) {
	if f != f {
		return 0, false
	}
	t := math.Trunc(float64(f))
	if t < -2147483648.0 {
		return 0x80000000, false
	}
	if t > 2147483647.0 {
		return 0x7FFFFFFF, false
	}
	return uint32(int32(t)), true
}

func f2u(f float32) (r uint32, ok bool) {
	if f != f {
		return 0, false
	}
	t := math.Trunc(float64(f))
	if t < 0 {
		return 0, false
	}
	if t > 4294967295.0 {
		return 0xFFFFFFFF, false
	}
	return uint32(t), true
}

// convScalar converts one component between scalar kinds. trapF2I is invoked
// when a float->int conversion is out of range (undefined in HLSL).
func convScalar(s Scalar, from, to Kind, trapF2I func(f float32, to Kind)) Scalar {
	if from == KLitInt {
		from = KInt
	}
	if to == KLitInt {
		to = KInt
	}
	if from == to {
		return s
	}
	if s.P {
		return Scalar{P: true}
	}
	var b uint32
	switch to {
	case KBool:
		switch from {
		case KFloat:
			f := f32(s)
			b = boolBits(f != 0) // NaN != 0 is true
		default:
			b = boolBits(s.B != 0)
		}
	case KInt:
		switch from {
		case KBool:
			b = boolBits(s.B != 0)
		case KUint:
			b = s.B
		case KFloat:
			r, ok := f2i(f32(s))
			if !ok && trapF2I != nil {
				trapF2I(f32(s), to)
			}
			b = r
		}
	case KUint:
		switch from {
		case KBool:
			b = boolBits(s.B != 0)
		case KInt:
			b = s.B
		case KFloat:
			r, ok := f2u(f32(s))
			if !ok && trapF2I != nil {
				trapF2I(f32(s), to)
			}
			b = r
		}
	case KFloat:
		switch from {
		case KBool:
			b = fromF32(float32(boolBits(s.B != 0)))
		case KInt:
			b = fromF32(float32(int32(s.B)))
		case KUint:
			b = fromF32(float32(s.B))
		}
	}
	return Scalar{B: b}
}

// convertValue converts v to type "to" following HLSL cast rules (the
// checker has already established legality).
func convertValue(v Value, to *Type, trapF2I func(f float32, to Kind)) Value {
	from := v.T
	if sameType(from, to) {
		return v
	}
	if to.K == KBuf {
		return v
	}
	out := Value{T: to, S: make([]Scalar, to.flatLen())}
	toKinds := to.flatKinds(nil)
	switch {
	case from.isScalar():
		for i := range out.S {
			out.S[i] = convScalar(v.S[0], from.K, toKinds[i], trapF2I)
		}
	case from.K == KMat && to.K == KMat && (from.Rows != to.Rows || from.Cols != to.Cols):
		for r := 0; r < to.Rows; r++ {
			for c := 0; c < to.Cols; c++ {
				out.S[r*to.Cols+c] = convScalar(v.S[r*from.Cols+c], from.Elem.K, to.Elem.K, trapF2I)
			}
		}
	default:
		fromKinds := from.flatKinds(nil)
		for i := range out.S {
			if i < len(v.S) {
				out.S[i] = convScalar(v.S[i], fromKinds[i], toKinds[i], trapF2I)
			}
		}
	}
	return out
}

// ---- half float helpers ----

func halfToFloat(h uint16) float32 {
	sign := uint32(h>>15) & 1
	exp := uint32(h>>10) & 0x1F
	man := uint32(h) & 0x3FF
	var bits uint32
	switch {
	case exp == 0 && man == 0:
		bits = sign << 31
	case exp == 0:
		// subnormal: normalise
		e := uint32(127 - 15 + 1)
		for man&0x400 == 0 {
			man <<= 1
			e--
		}
		man &= 0x3FF
		bits = sign<<31 | e<<23 | man<<13
	case exp == 31:
		bits = sign<<31 | 0xFF<<23 | man<<13
	default:
		bits = sign<<31 | (exp+127-15)<<23 | man<<13
	}
	return math.Float32frombits(bits)
}

// floatToHalf returns the binary16 encodings obtained by round-toward-zero and
// round-to-nearest-even. They differ exactly when the conversion is inexact.
func floatToHalf(f float32) (rtz, rne uint16) {
	bits := math.Float32bits(f)
	sign := uint16(bits>>16) & 0x8000
	if f != f {
		h := sign | 0x7C00 | uint16((bits&0x7FFFFF)>>13)
		if h&0x3FF == 0 {
			h |= 1
		}
		return h, h
	}
	a := math.Abs(float64(f))
	if math.IsInf(a, 0) {
		return sign | 0x7C00, sign | 0x7C00
	}
	if a == 0 {
		return sign, sign
	}
	_, ex := math.Frexp(a) // a = fr * 2^ex, fr in [0.5,1)
	e := ex - 1
	if e < -14 {
		e = -14
	}
	if e > 15 {
		return sign | 0x7BFF, sign | 0x7C00
	}
	ulp := math.Ldexp(1, e-10)
	q := a / ulp // exact: power-of-two scaling
	lo := math.Floor(q)
	rem := q - lo
	up := lo
	if rem > 0.5 || (rem == 0.5 && math.Mod(lo, 2) == 1) {
		up = lo + 1
	}
	enc := func(qi float64) uint16 {
		n := uint32(qi)
		ee := e
		if n == 2048 {
			n = 1024
			ee++
		}
		if n < 1024 { // subnormal (only when e == -14)
			return uint16(n)
		}
		if ee+15 >= 31 {
			return 0x7C00
		}
		return uint16(uint32(ee+15)<<10 | (n - 1024))
	}
	return sign | enc(lo), sign | enc(up)
}
