package hlslx

import (
	"testing"

	"github.com/gogpu/naga/hlsl"
)

const layoutStruct = `
struct Inner { x: u32, y: vec2<f32>, }
struct S {
  a: vec3<f32>,     // 0
  b: f32,           // 12
  c: vec2<u32>,     // 16
  d: u32,           // 24
  m: mat3x3<f32>,   // 32, columns at 32 48 64
  arr: array<vec3<f32>, 2>, // 80, 96
  inner: Inner,     // 112: x 112, y 120
}                   // size 128
`

// words of a 128-byte buffer hold their own index, so every read returns its word offset.
func indexWords(n int) []byte {
	v := make([]uint32, n)
	for i := range v {
		v[i] = uint32(i)
	}
	return u32s(v...)
}

const layoutBody = `
  o[0] = bitcast<u32>(s.a.x); o[1] = bitcast<u32>(s.a.z);
  o[2] = bitcast<u32>(s.b);
  o[3] = s.c.y;
  o[4] = s.d;
  o[5] = bitcast<u32>(s.m[0].x); o[6] = bitcast<u32>(s.m[1].y); o[7] = bitcast<u32>(s.m[2].z);
  o[8] = bitcast<u32>(s.arr[0].y); o[9] = bitcast<u32>(s.arr[1].z);
  o[10] = s.inner.x; o[11] = bitcast<u32>(s.inner.y.y);
  let i = o[31];
  o[12] = bitcast<u32>(s.m[i].x);
  o[13] = bitcast<u32>(s.arr[i][i]);
  let whole = s;
  o[14] = bitcast<u32>(whole.m[2].x); o[15] = bitcast<u32>(whole.arr[1].x); o[16] = bitcast<u32>(whole.inner.y.x);
  let mm = s.m;
  o[17] = bitcast<u32>(mm[1].z);
`

var layoutWant = []uint32{0, 2, 3, 5, 6, 8, 13, 18, 21, 26, 28, 31, 12, 25, 16, 24, 30, 14}

func TestSemStorageLayout(t *testing.T) {
	rc := runCase{wgsl: layoutStruct + `
@group(0) @binding(0) var<storage, read_write> o: array<u32>;
@group(0) @binding(1) var<storage, read> s: S;
@compute @workgroup_size(1)
fn main() {` + layoutBody + `}`,
		bufs: map[string][]byte{"o": append(make([]byte, 124), u32s(1)...), "s": indexWords(32)}}
	bufs, res, _ := rc.run(t)
	expectNoTraps(t, res)
	expectU32(t, "o", bufs["o"], layoutWant...)
}

func TestSemUniformLayout(t *testing.T) {
	rc := runCase{wgsl: layoutStruct + `
@group(0) @binding(0) var<storage, read_write> o: array<u32>;
@group(0) @binding(1) var<uniform> s: S;
@compute @workgroup_size(1)
fn main() {` + layoutBody + `}`,
		bufs: map[string][]byte{"o": append(make([]byte, 124), u32s(1)...), "s": indexWords(32)}}
	bufs, res, _ := rc.run(t)
	expectNoTraps(t, res)
	expectU32(t, "o", bufs["o"], layoutWant...)
}

func TestSemStorageStructWrite(t *testing.T) {
	rc := runCase{bufs: map[string][]byte{"dst": make([]byte, 128), "s": indexWords(32), "dst2": make([]byte, 128)}}
	rc.wgsl = layoutStruct + `
@group(0) @binding(0) var<storage, read_write> dst: S;
@group(0) @binding(1) var<storage, read> s: S;
@group(0) @binding(2) var<storage, read_write> dst2: S;
@compute @workgroup_size(1)
fn main() {
  dst = s;
  dst2.a = s.a.zyx;
  dst2.b = 1.0;
  dst2.c.y = 7u;
  dst2.m[1] = s.m[2];
  dst2.m[2].y = 2.0;
  dst2.arr[1] = vec3<f32>(3.0, 4.0, 5.0);
  dst2.inner = Inner(9u, vec2<f32>(6.0, 7.0));
  dst2.m[0][s.d - 4u] = 8.0;      // d holds 6 => component 2
  dst2.d = arrayLength(&tail.data);
}
struct Tail { n: u32, data: array<vec2<u32>>, }
@group(0) @binding(3) var<storage, read> tail: Tail;
`
	rc.bufs["tail"] = make([]byte, 40)
	bufs, res, _ := rc.run(t)
	expectNoTraps(t, res)
	// dst: every member copied; padding words (7, 11, 15, 19, 23, 27, 29) are not required to be written
	got := getU32(bufs["dst"])
	pad := map[int]bool{7: true, 11: true, 15: true, 19: true, 23: true, 27: true, 29: true}
	for i := 0; i < 32; i++ {
		if pad[i] {
			continue
		}
		if got[i] != uint32(i) {
			t.Errorf("dst word %d = %d, want %d", i, got[i], i)
		}
	}
	want := map[int]uint32{0: 2, 1: 1, 2: 0, 3: fb(1), 5: 7, 6: 4, 10: fb(8), 12: 16, 13: 17, 14: 18, 17: fb(2), 24: fb(3), 25: fb(4), 26: fb(5), 28: 9, 30: fb(6), 31: fb(7)}
	got2 := getU32(bufs["dst2"])
	for i := 0; i < 32; i++ {
		if pad[i] {
			continue
		}
		if got2[i] != want[i] {
			t.Errorf("dst2 word %d = %#x, want %#x", i, got2[i], want[i])
		}
	}
}

func TestSemRuntimeArray(t *testing.T) {
	rc := runCase{wgsl: `
struct Tail { n: u32, data: array<vec2<u32>>, }
@group(0) @binding(0) var<storage, read_write> tail: Tail;
@group(0) @binding(1) var<storage, read_write> plain: array<vec3<f32>>;
@compute @workgroup_size(1)
fn main() {
  let n = arrayLength(&tail.data);
  tail.n = n;
  for (var i = 0u; i < n; i++) {
    tail.data[i] = vec2<u32>(i, i * i);
  }
  let k = arrayLength(&plain);
  plain[k - 1u] = vec3<f32>(1.0, 2.0, f32(k));
  plain[0].y = 5.0;
}`,
		bufs: map[string][]byte{"tail": make([]byte, 40), "plain": make([]byte, 48)}}
	bufs, res, _ := rc.run(t)
	expectNoTraps(t, res)
	expectU32(t, "tail", bufs["tail"], 4, 0, 0, 0, 1, 1, 2, 4, 3, 9)
	expectU32(t, "plain", bufs["plain"], 0, fb(5), 0, 0, 0, 0, 0, 0, fb(1), fb(2), fb(3), 0)
}

func TestSemLoops(t *testing.T) {
	rc := runCase{wgsl: hdrIO + `
@compute @workgroup_size(1)
fn main() {
  var i = 0u; var s = 0u;
  loop {
    if i >= inp[0] { break; }
    if (i % 2u == 1u) { continue; }
    s += i;
    continuing { i += 1u; }
  }
  o[0] = s; o[1] = i;
  var j = 0u; var s2 = 0u;
  loop {
    s2 += j;
    continuing { j += 1u; break if j == 5u; }
  }
  o[2] = s2;
  var k = 0u; var w = 1u;
  while k < 5u { w *= 2u; k++; }
  o[3] = w;
  var acc = 0u;
  for (var a = 0u; a < 4u; a++) {
    for (var b = 0u; b < 4u; b++) {
      if b > a { break; }
      if (a + b) % 3u == 0u { continue; }
      acc += a * 10u + b;
    }
  }
  o[4] = acc;
}`,
		bufs: map[string][]byte{"o": make([]byte, 20), "inp": u32s(10)}}
	bufs, res, _ := rc.run(t)
	expectNoTraps(t, res)
	// acc: pairs (a,b) with b<=a, (a+b)%3!=0: (1,0)=10 (1,1)=11 (2,0)=20 (2,2)=22 (3,1)=31 (3,2)=32 => 126
	expectU32(t, "o", bufs["o"], 20, 10, 10, 32, 126)
}

func TestSemSwitch(t *testing.T) {
	rc := runCase{wgsl: hdrIO + `
fn classify(x: i32) -> u32 {
  var r = 0u;
  switch x {
    case 1: { r = 10u; }
    default: { r = 99u; }
    case 2, 3: { r = 20u; }
    case 4: { return 40u; }
  }
  return r + 1u;
}
fn loopy(n: u32) -> u32 {
  var s = 0u;
  for (var i = 0u; i < n; i++) {
    switch i {
      case 1u: { continue; }
      case 3u: { s += 100u; }
      default: { s += 1u; }
    }
    s += 1000u;
    if i == 5u { return s; }
  }
  return 0u;
}
@compute @workgroup_size(1)
fn main() {
  o[0] = classify(1); o[1] = classify(2); o[2] = classify(3); o[3] = classify(4); o[4] = classify(-7);
  o[5] = classify(bitcast<i32>(inp[0]));
  o[6] = loopy(inp[1]);
}`,
		bufs: map[string][]byte{"o": make([]byte, 28), "inp": u32s(3, 10)}}
	bufs, res, _ := rc.run(t)
	expectNoTraps(t, res)
	// loopy: i=0: +1 +1000; i=1: continue; i=2: +1+1000; i=3: +100+1000; i=4: +1+1000; i=5: +1+1000 return => 5104
	expectU32(t, "o", bufs["o"], 11, 21, 21, 40, 100, 21, 5104)
}

func TestSemPointersPrivateWorkgroup(t *testing.T) {
	rc := runCase{wgsl: hdrIO + `
var<private> counter: u32 = 5u;
var<private> pv: vec3<f32>;
var<workgroup> wg_val: u32;
struct P { a: u32, b: array<u32, 3>, }
fn bump(p: ptr<function, u32>, by: u32) -> u32 {
  let old = *p;
  *p = old + by;
  return old;
}
fn bump_priv(p: ptr<private, u32>) { *p += 1u; }
fn fill(p: ptr<function, array<u32, 3>>, v: u32) {
  for (var i = 0u; i < 3u; i++) { (*p)[i] = v + i; }
}
fn setb(p: ptr<function, P>) { (*p).a = 77u; (*p).b[1] = 88u; }
@compute @workgroup_size(1)
fn main() {
  var x = inp[0];
  let old = bump(&x, 3u);
  o[0] = old; o[1] = x;
  bump_priv(&counter); bump_priv(&counter);
  o[2] = counter;
  pv.y = 2.0;
  o[3] = bitcast<u32>(pv.x + pv.y);
  var arr: array<u32, 3>;
  fill(&arr, 10u);
  o[4] = arr[0] + arr[1] * 10u + arr[2] * 100u;
  var s: P;
  setb(&s);
  o[5] = s.a + s.b[1] + s.b[0];
  wg_val = 9u;
  o[6] = wg_val + 1u;
  let q = &x;
  *q = 100u;
  o[7] = x;
  var v = vec3<u32>(1u, 2u, 3u);
  var tmp = v.y;
  let old2 = bump(&tmp, 5u);
  v.y = tmp;
  o[8] = v.y + old2;
}`,
		bufs: map[string][]byte{"o": make([]byte, 36), "inp": u32s(40)}}
	bufs, res, _ := rc.run(t)
	expectNoTraps(t, res)
	expectU32(t, "o", bufs["o"], 40, 43, 7, fb(2), 10+110+1200, 77+88+0, 10, 100, 9)
}

func TestSemAtomicsStorage(t *testing.T) {
	rc := runCase{wgsl: `
struct A { u: atomic<u32>, i: atomic<i32>, arr: array<atomic<u32>, 2>, }
@group(0) @binding(0) var<storage, read_write> a: A;
@group(0) @binding(1) var<storage, read_write> o: array<u32>;
@compute @workgroup_size(1)
fn main() {
  o[0] = atomicAdd(&a.u, 5u);           // old 10 -> 15
  o[1] = atomicSub(&a.u, 20u);          // old 15 -> wraps 0xFFFFFFFB
  o[2] = atomicMax(&a.u, 7u);           // unsigned: stays
  o[3] = atomicMin(&a.u, 7u);           // -> 7
  o[4] = bitcast<u32>(atomicMin(&a.i, -3));   // old 4 -> -3
  o[5] = bitcast<u32>(atomicMax(&a.i, 2));    // old -3 -> 2
  o[6] = bitcast<u32>(atomicAdd(&a.i, -10));  // old 2 -> -8
  o[7] = atomicExchange(&a.arr[1], 0xABCDu);  // old 3
  let r1 = atomicCompareExchangeWeak(&a.arr[0], 99u, 1u);  // no match (holds 2)
  o[8] = r1.old_value; o[9] = u32(r1.exchanged);
  let r2 = atomicCompareExchangeWeak(&a.arr[0], 2u, 50u);  // match
  o[10] = r2.old_value; o[11] = u32(r2.exchanged);
  o[12] = atomicAnd(&a.arr[1], 0xFF0Fu);   // old 0xABCD -> 0xAB0D
  o[13] = atomicOr(&a.arr[1], 0x30u);      // -> 0xAB3D
  o[14] = atomicXor(&a.arr[1], 0xFFFFu);   // -> 0x54C2
  o[15] = atomicLoad(&a.arr[1]);
  atomicStore(&a.u, 1234u);
}`,
		bufs: map[string][]byte{"a": u32s(10, 4, 2, 3), "o": make([]byte, 64)}}
	bufs, res, _ := rc.run(t)
	expectNoTraps(t, res)
	expectU32(t, "o", bufs["o"], 10, 15, 0xFFFFFFFB, 0xFFFFFFFB, 4, 0xFFFFFFFD, 2, 3, 2, 0, 2, 1, 0xABCD, 0xAB0D, 0xAB3D, 0x54C2)
	expectU32(t, "a", bufs["a"], 1234, 0xFFFFFFF8, 50, 0x54C2)
}

func TestSemWorkgroupBarrier(t *testing.T) {
	rc := runCase{wgsl: `
@group(0) @binding(0) var<storage, read_write> o: array<u32>;
var<workgroup> tile: array<u32, 4>;
var<workgroup> total: atomic<u32>;
var<workgroup> imin: atomic<i32>;
@compute @workgroup_size(4)
fn main(@builtin(local_invocation_index) li: u32, @builtin(workgroup_id) wid: vec3<u32>, @builtin(global_invocation_id) gid: vec3<u32>) {
  tile[li] = (li + 1u) * 10u + wid.x;
  atomicAdd(&total, li + 1u);
  atomicMin(&imin, 2 - i32(li));
  workgroupBarrier();
  let r = tile[3u - li];
  let t = atomicLoad(&total);
  workgroupBarrier();
  tile[li] = r + t;
  workgroupBarrier();
  let u = workgroupUniformLoad(&tile[0]);
  o[gid.x * 2u] = tile[(li + 1u) % 4u] + u * 1000u;
  o[gid.x * 2u + 1u] = bitcast<u32>(atomicLoad(&imin));
}`,
		bufs:     map[string][]byte{"o": make([]byte, 64)},
		dispatch: [3]uint32{2, 1, 1}}
	bufs, res, _ := rc.run(t)
	expectNoTraps(t, res)
	// group g: tile = {10+g,20+g,30+g,40+g}; total = 10; after: tile[li] = tile0[3-li] + 10 = {50+g,40+g,30+g,20+g}
	// out = tile[(li+1)%4] + tile[0]*1000 ; imin = min(0, 2,1,0,-1) = -1
	var want []uint32
	for g := uint32(0); g < 2; g++ {
		tile := []uint32{50 + g, 40 + g, 30 + g, 20 + g}
		for li := 0; li < 4; li++ {
			want = append(want, tile[(li+1)%4]+tile[0]*1000, 0xFFFFFFFF)
		}
	}
	expectU32(t, "o", bufs["o"], want...)
	if res.Cov["fn.GroupMemoryBarrierWithGroupSync"] == 0 {
		t.Errorf("barrier not covered: %v", res.Cov.Keys())
	}
}

func TestSemBuiltinInputs(t *testing.T) {
	opts := hlsl.DefaultOptions()
	opts.SpecialConstantsBinding = &hlsl.BindTarget{Space: 7, Register: 3}
	rc := runCase{wgsl: `
@group(0) @binding(0) var<storage, read_write> o: array<u32>;
@compute @workgroup_size(2, 2, 1)
fn main(@builtin(local_invocation_id) lid: vec3<u32>, @builtin(local_invocation_index) li: u32,
        @builtin(workgroup_id) wid: vec3<u32>, @builtin(global_invocation_id) gid: vec3<u32>,
        @builtin(num_workgroups) nwg: vec3<u32>) {
  let flat = (wid.y * nwg.x + wid.x) * 4u + li;
  o[flat] = lid.x | (lid.y << 4u) | (gid.x << 8u) | (gid.y << 12u) | (wid.x << 16u) | (wid.y << 20u) | (nwg.x << 24u) | (nwg.y << 28u);
}`,
		opts:     opts,
		bufs:     map[string][]byte{"o": make([]byte, 4*24)},
		dispatch: [3]uint32{3, 2, 1}}
	txt := compileWGSL(t, rc.wgsl, opts)
	prog, err := Parse(txt)
	if err != nil {
		t.Fatal(err)
	}
	// the special constants buffer is an ordinary uniform resource; the caller fills it
	found := ""
	for _, r := range prog.Resources() {
		if r.Kind == "uniform" {
			found = r.Name
			if r.Slot.Kind != "b" || r.Slot.A != 7 || r.Slot.B != 3 {
				t.Errorf("special constants slot = %v", r.Slot)
			}
		}
	}
	if found == "" {
		t.Fatalf("no uniform resource for num_workgroups in:\n%s", txt)
	}
	rc.bufs[found] = u32s(3, 2, 1, 0)
	bufs, res, _ := rc.run(t)
	expectNoTraps(t, res)
	var want []uint32
	for wy := uint32(0); wy < 2; wy++ {
		for wx := uint32(0); wx < 3; wx++ {
			for ly := uint32(0); ly < 2; ly++ {
				for lx := uint32(0); lx < 2; lx++ {
					gx, gy := wx*2+lx, wy*2+ly
					want = append(want, lx|ly<<4|gx<<8|gy<<12|wx<<16|wy<<20|3<<24|2<<28)
				}
			}
		}
	}
	expectU32(t, "o", bufs["o"], want...)
}

func TestSemNumWorkgroupsDefaultOptions(t *testing.T) {
	rc := runCase{wgsl: `
@group(0) @binding(0) var<storage, read_write> o: array<u32>;
@compute @workgroup_size(1)
fn main(@builtin(workgroup_id) wid: vec3<u32>, @builtin(num_workgroups) nwg: vec3<u32>) {
  o[wid.x] = nwg.x;
}`,
		bufs:     map[string][]byte{"o": make([]byte, 12)},
		dispatch: [3]uint32{3, 1, 1}}
	bufs, res, _ := rc.run(t)
	expectNoTraps(t, res)
	got := getU32(bufs["o"])
	if got[0] != 3 || got[1] != 3 || got[2] != 3 {
		t.Logf("SUSPECT naga: with hlsl.DefaultOptions() (no SpecialConstantsBinding) num_workgroups is declared as `uint3 nwg : SV_GroupID` and read directly, so it yields the workgroup id: got %v, WGSL expects [3 3 3]", got)
	}
}
