package hlslx

import (
	"encoding/binary"
	"errors"
	"fmt"
	"strings"

	"verif/internal/xrt"
)

// bufObj is a bound (RW)ByteAddressBuffer.
type bufObj struct {
	name string
	data []byte
	rw   bool
}

// runState is shared by all invocations of one Run.
type runState struct {
	prog     *Program
	trapMode bool
	res      *xrt.Result
	budget   int
	bufs     map[*Global]*bufObj
	uniforms map[*Global]Value
	statics0 map[*Global]Value // evaluated initial values of static globals
	shared   map[*Global]Value // current workgroup
	abort    bool
}

// runErr carries an error out of the interpreter through panic.
type runErr struct{ err error }

// abortSignal unwinds an invocation goroutine after another one failed.
type abortSignal struct{}

const maxTraps = 64

type ctl uint8

const (
	ctlNone ctl = iota
	ctlBreak
	ctlContinue
	ctlReturn
)

type frame struct {
	fn   *Func
	vars []Value
	ret  Value
}

// interp is the per-invocation interpreter state.
type interp struct {
	rs      *runState
	statics map[*Global]Value
	gid     [3]uint32 // SV_DispatchThreadID
	lid     [3]uint32 // SV_GroupThreadID
	wid     [3]uint32 // SV_GroupID
	lidx    uint32    // SV_GroupIndex
	depth   int
	co      *coroutine // nil when running outside a workgroup (static initialisers)
}

func (it *interp) fail(err error) { panic(runErr{err}) }
func (it *interp) unsupported(format string, a ...any) {
	panic(runErr{unsupportedf(format, a...)})
}

func (it *interp) trap(kind xrt.TrapKind, line int, format string, a ...any) {
	if !it.rs.trapMode {
		return
	}
	if len(it.rs.res.Traps) >= maxTraps {
		return
	}
	where := fmt.Sprintf("line %d", line)
	if it.co != nil {
		where += fmt.Sprintf(" [group (%d,%d,%d) thread %d]", it.wid[0], it.wid[1], it.wid[2], it.lidx)
	}
	it.rs.res.Traps = append(it.rs.res.Traps, &xrt.Trap{Kind: kind, Detail: where + ": " + fmt.Sprintf(format, a...)})
}

func (it *interp) step(kind string) {
	rs := it.rs
	rs.res.Steps++
	if rs.res.Steps > rs.budget {
		panic(runErr{&xrt.Unsupported{What: "step budget"}})
	}
	if kind != "" {
		rs.res.Cov.Add(kind)
	}
}

func (it *interp) trapF2I(line int) func(f float32, to Kind) {
	return func(f float32, to Kind) {
		it.trap(xrt.TrapF2I, line, "conversion of %v to %s is out of range", f, scalarOf(to))
	}
}

// ---- Run ----

var semanticAlias = map[string]string{
	"sv_dispatchthreadid": "gid", "sv_groupthreadid": "lid", "sv_groupindex": "lidx", "sv_groupid": "wid",
}

// Run executes the compute entry point over opt.Dispatch workgroups.
func (p *Program) Run(entry string, bufs xrt.Buffers, opt xrt.Options) (res xrt.Result, err error) {
	res.Cov = xrt.Coverage{}
	defer func() {
		if r := recover(); r != nil {
			if re, ok := r.(runErr); ok {
				err = re.err
				return
			}
			err = fmt.Errorf("hlslx: internal error in Run: %v", r)
		}
	}()
	var fn *Func
	for _, f := range p.funcs {
		if f.Name == entry && f.NumThreads != nil {
			fn = f
		}
	}
	if fn == nil {
		return res, fmt.Errorf("hlslx: no compute entry point %q", entry)
	}
	if fn.Unsupported != "" {
		return res, &xrt.Unsupported{What: fn.Unsupported}
	}
	if fn.TypeErr {
		return res, fmt.Errorf("hlslx: entry point %q has static errors (see StaticTraps)", entry)
	}
	rs := &runState{prog: p, trapMode: opt.TrapMode, res: &res, budget: opt.StepBudget(),
		bufs: map[*Global]*bufObj{}, uniforms: map[*Global]Value{}, statics0: map[*Global]Value{}}

	// bind resources (lazily validated: only a resource that is used needs its slot)
	for _, g := range p.globals {
		switch g.Kind {
		case GBuffer:
			if data, ok := bufs[g.slot()]; ok {
				rs.bufs[g] = &bufObj{name: g.Name, data: data, rw: g.T.RW}
			}
		case GUniform:
			if data, ok := bufs[g.slot()]; ok {
				v, size, short := decodeUniform(g.T, g.RowMajor, data)
				if short && opt.TrapMode {
					res.Traps = append(res.Traps, &xrt.Trap{Kind: xrt.TrapOOB,
						Detail: fmt.Sprintf("constant buffer %s needs %d bytes by HLSL packing rules, binding has %d", g.Name, size, len(data))})
				}
				rs.uniforms[g] = v
			}
		}
	}
	// static initialisers, once
	setup := &interp{rs: rs, statics: map[*Global]Value{}}
	for _, g := range p.globals {
		if g.Kind != GStatic && g.Kind != GStaticConst {
			continue
		}
		if g.Init == nil {
			setup.statics[g] = zeroValue(g.T) // HLSL zero-initialises statics
			continue
		}
		fr := &frame{}
		setup.statics[g] = setup.evalInit(g.Init, g.T, fr).clone()
	}
	rs.statics0 = setup.statics

	// entry parameters
	type binder func(it *interp) Value
	var binders []binder
	builtin := func(sem string, t *Type, line int) binder {
		which, ok := semanticAlias[strings.ToLower(sem)]
		if !ok {
			panic(runErr{unsupportedf("entry input semantic %q", sem)})
		}
		want := vecOf(tUint, 3)
		if which == "lidx" {
			want = tUint
		}
		if !t.isNumeric() || t.flatLen() != want.flatLen() {
			panic(runErr{fmt.Errorf("hlslx: line %d: entry input %s has type %s (expected %s)", line, sem, t, want)})
		}
		return func(it *interp) Value {
			var v Value
			switch which {
			case "gid":
				v = vec3u(it.gid)
			case "lid":
				v = vec3u(it.lid)
			case "wid":
				v = vec3u(it.wid)
			default:
				v = scalarValue(tUint, it.lidx)
			}
			return convertValue(v, t, nil)
		}
	}
	for _, prm := range fn.Params {
		prm := prm
		switch {
		case prm.Out:
			return res, unsupportedf("out parameter on compute entry point")
		case prm.Semantic != "":
			binders = append(binders, builtin(prm.Semantic, prm.T, prm.Line))
		case prm.T.K == KStruct:
			var parts []binder
			for _, m := range prm.T.S.Members {
				if m.Semantic == "" {
					return res, unsupportedf("entry input struct member %s without semantic", m.Name)
				}
				parts = append(parts, builtin(m.Semantic, m.T, m.Line))
			}
			t := prm.T
			binders = append(binders, func(it *interp) Value {
				v := Value{T: t}
				for _, b := range parts {
					v.S = append(v.S, b(it).S...)
				}
				return v
			})
		default:
			return res, fmt.Errorf("hlslx: line %d: entry parameter %s has no semantic", prm.Line, prm.Name)
		}
	}

	groups := opt.Dispatch.Groups()
	size := *fn.NumThreads
	n := int(size[0]) * int(size[1]) * int(size[2])
	if n > 1024 {
		return res, fmt.Errorf("hlslx: numthreads product %d exceeds 1024", n)
	}
	for gz := uint32(0); gz < groups[2]; gz++ {
		for gy := uint32(0); gy < groups[1]; gy++ {
			for gx := uint32(0); gx < groups[0]; gx++ {
				// fresh workgroup memory: undefined contents
				rs.shared = map[*Global]Value{}
				for _, g := range p.globals {
					if g.Kind == GShared {
						rs.shared[g] = poisonValue(g.T)
					}
				}
				invs := make([]*interp, 0, n)
				for lz := uint32(0); lz < size[2]; lz++ {
					for ly := uint32(0); ly < size[1]; ly++ {
						for lx := uint32(0); lx < size[0]; lx++ {
							it := &interp{rs: rs, statics: map[*Global]Value{}}
							for g, v := range rs.statics0 {
								it.statics[g] = v.clone()
							}
							it.wid = [3]uint32{gx, gy, gz}
							it.lid = [3]uint32{lx, ly, lz}
							it.gid = [3]uint32{gx*size[0] + lx, gy*size[1] + ly, gz*size[2] + lz}
							it.lidx = lz*size[0]*size[1] + ly*size[0] + lx
							invs = append(invs, it)
						}
					}
				}
				if err := runWorkgroup(invs, func(it *interp) {
					fr := &frame{fn: fn, vars: make([]Value, fn.NLocals)}
					for i, b := range binders {
						fr.vars[fn.Params[i].Sym.id] = b(it)
					}
					it.step("stmt.entry")
					it.execBlock(fn.Body.Stmts, fr)
				}); err != nil {
					return res, err
				}
			}
		}
	}
	return res, nil
}

func vec3u(a [3]uint32) Value {
	return Value{T: vecOf(tUint, 3), S: []Scalar{{B: a[0]}, {B: a[1]}, {B: a[2]}}}
}

// ---- coroutines ----

type coroutine struct {
	resume chan struct{}
	events chan coEvent
}

type coEvent struct {
	kind int // 0 done, 1 barrier, 2 error
	err  error
}

// runWorkgroup runs the invocations as coroutines passing a baton: invocation
// 0 runs until it finishes or waits at a barrier, then 1, ...; when every live
// invocation waits, all are released in order.
func runWorkgroup(invs []*interp, body func(it *interp)) error {
	type state struct {
		co      *coroutine
		started bool
		done    bool
	}
	sts := make([]*state, len(invs))
	for i, it := range invs {
		co := &coroutine{resume: make(chan struct{}), events: make(chan coEvent)}
		it.co = co
		sts[i] = &state{co: co}
	}
	start := func(i int) {
		it := invs[i]
		go func() {
			defer func() {
				r := recover()
				switch r := r.(type) {
				case nil:
					it.co.events <- coEvent{kind: 0}
				case abortSignal:
					it.co.events <- coEvent{kind: 0}
				case runErr:
					it.co.events <- coEvent{kind: 2, err: r.err}
				default:
					it.co.events <- coEvent{kind: 2, err: fmt.Errorf("hlslx: internal error in Run: %v", r)}
				}
			}()
			<-it.co.resume
			if it.rs.abort {
				panic(abortSignal{})
			}
			body(it)
		}()
	}
	var firstErr error
	live := len(invs)
	for live > 0 {
		progressed := false
		for i, st := range sts {
			if st.done {
				continue
			}
			if !st.started {
				st.started = true
				start(i)
			}
			st.co.resume <- struct{}{}
			ev := <-st.co.events
			progressed = true
			switch ev.kind {
			case 0:
				st.done = true
				live--
			case 2:
				st.done = true
				live--
				if firstErr == nil {
					firstErr = ev.err
					invs[i].rs.abort = true
				}
			}
		}
		if !progressed {
			break
		}
	}
	return firstErr
}

// barrier suspends the invocation until all live invocations of the workgroup wait.
func (it *interp) barrier() {
	if it.co == nil {
		it.fail(errors.New("hlslx: barrier outside a compute invocation"))
	}
	it.co.events <- coEvent{kind: 1}
	<-it.co.resume
	if it.rs.abort {
		panic(abortSignal{})
	}
}

// ---- statements ----

func (it *interp) execBlock(stmts []Stmt, fr *frame) ctl {
	for _, s := range stmts {
		if c := it.exec(s, fr); c != ctlNone {
			return c
		}
	}
	return ctlNone
}

func (it *interp) exec(s Stmt, fr *frame) ctl {
	switch s := s.(type) {
	case *Block:
		it.step("")
		return it.execBlock(s.Stmts, fr)
	case *VarDecl:
		it.step("stmt.decl")
		var v Value
		if s.Init != nil {
			v = it.evalInit(s.Init, s.T, fr).clone()
		} else {
			v = poisonValue(s.T)
		}
		fr.vars[s.Sym.id] = v
	case *ExprStmt:
		it.step("stmt.expr")
		it.eval(s.X, fr)
	case *If:
		it.step("stmt.if")
		if it.cond(s.Cond, fr, "if") {
			return it.exec(s.Then, fr)
		} else if s.Else != nil {
			return it.exec(s.Else, fr)
		}
	case *While:
		for {
			it.step("stmt.while")
			if !it.cond(s.Cond, fr, "while") {
				break
			}
			c := it.exec(s.Body, fr)
			if c == ctlBreak {
				break
			}
			if c == ctlReturn {
				return c
			}
		}
	case *DoWhile:
		for {
			it.step("stmt.do")
			c := it.exec(s.Body, fr)
			if c == ctlBreak {
				break
			}
			if c == ctlReturn {
				return c
			}
			if !it.cond(s.Cond, fr, "do-while") {
				break
			}
		}
	case *For:
		if s.Init != nil {
			it.exec(s.Init, fr)
		}
		for {
			it.step("stmt.for")
			if s.Cond != nil && !it.cond(s.Cond, fr, "for") {
				break
			}
			c := it.exec(s.Body, fr)
			if c == ctlBreak {
				break
			}
			if c == ctlReturn {
				return c
			}
			if s.Post != nil {
				it.eval(s.Post, fr)
			}
		}
	case *Switch:
		return it.execSwitch(s, fr)
	case *Break:
		it.step("stmt.break")
		return ctlBreak
	case *Continue:
		it.step("stmt.continue")
		return ctlContinue
	case *Return:
		it.step("stmt.return")
		if s.X != nil {
			fr.ret = it.eval(s.X, fr).clone()
		}
		return ctlReturn
	case *Empty:
	default:
		it.fail(fmt.Errorf("hlslx: unknown statement %T", s))
	}
	return ctlNone
}

func (it *interp) cond(e Expr, fr *frame, what string) bool {
	v := it.eval(e, fr)
	if len(v.S) != 1 {
		it.fail(fmt.Errorf("hlslx: line %d: non-scalar %s condition", e.line(), what))
	}
	if v.S[0].P {
		it.trap(xrt.TrapPoison, e.line(), "%s condition depends on an uninitialised value", what)
	}
	return v.S[0].B != 0
}

func (it *interp) execSwitch(s *Switch, fr *frame) ctl {
	it.step("stmt.switch")
	v := it.eval(s.Sel, fr)
	if v.S[0].P {
		it.trap(xrt.TrapPoison, s.Line, "switch selector depends on an uninitialised value")
	}
	sel := v.S[0].B
	start := -1
	for i, cs := range s.Cases {
		for _, k := range cs.Consts {
			if k == sel {
				start = i
			}
		}
	}
	if start < 0 {
		for i, cs := range s.Cases {
			if cs.Default {
				start = i
			}
		}
	}
	if start < 0 {
		return ctlNone
	}
	for i := start; i < len(s.Cases); i++ {
		cs := s.Cases[i]
		if i > start && len(s.Cases[i-1].Body) > 0 {
			// HLSL (FXC error X3533) forbids falling out of a non-empty case
			it.trap(xrt.TrapOther, cs.Line, "control falls through from a non-empty case into the next case")
		}
		it.rs.res.Cov.Add("stmt.case")
		c := it.execBlock(cs.Body, fr)
		switch c {
		case ctlBreak:
			return ctlNone
		case ctlContinue, ctlReturn:
			return c
		}
	}
	return ctlNone
}

// ---- references ----

// lref designates storage: T-typed view of mem; sel (if non-nil) lists the
// component positions of a swizzle inside mem.
type lref struct {
	T    *Type
	mem  []Scalar
	sel  []int
	skip bool // out-of-range element: stores are dropped
}

func (r lref) load() Value {
	n := r.T.flatLen()
	v := Value{T: r.T, S: make([]Scalar, n)}
	if r.sel != nil {
		for i, j := range r.sel {
			v.S[i] = r.mem[j]
		}
		return v
	}
	copy(v.S, r.mem[:n])
	return v
}

func (r lref) store(v Value) {
	if r.skip {
		return
	}
	if r.sel != nil {
		for i, j := range r.sel {
			r.mem[j] = v.S[i]
		}
		return
	}
	copy(r.mem[:r.T.flatLen()], v.S)
}

func (it *interp) globalStorage(g *Global, line int) Value {
	switch g.Kind {
	case GStatic, GStaticConst:
		if v, ok := it.statics[g]; ok {
			return v
		}
		it.fail(fmt.Errorf("hlslx: line %d: static %s used before initialisation", line, g.Name))
	case GShared:
		if v, ok := it.rs.shared[g]; ok {
			return v
		}
		it.fail(fmt.Errorf("hlslx: line %d: groupshared %s used outside a workgroup", line, g.Name))
	case GUniform:
		if v, ok := it.rs.uniforms[g]; ok {
			return v
		}
		it.fail(fmt.Errorf("hlslx: no buffer bound for constant buffer %s at slot %s", g.Name, g.slot()))
	case GBuffer:
		if b, ok := it.rs.bufs[g]; ok {
			return Value{T: g.T, Buf: b}
		}
		it.fail(fmt.Errorf("hlslx: no buffer bound for %s at slot %s", g.Name, g.slot()))
	}
	it.unsupported("line %d: use of global %s", line, g.Name)
	return Value{}
}

// ref evaluates e as a reference. Non-addressable expressions are evaluated
// into a temporary.
func (it *interp) ref(e Expr, fr *frame) lref {
	switch e := e.(type) {
	case *Ident:
		if e.Sym == nil {
			it.fail(fmt.Errorf("hlslx: line %d: unresolved identifier %s", e.Line, e.Name))
		}
		if g := e.Sym.Global; g != nil {
			v := it.globalStorage(g, e.Line)
			return lref{T: g.T, mem: v.S}
		}
		v := fr.vars[e.Sym.id]
		if v.T == nil {
			it.fail(fmt.Errorf("hlslx: line %d: variable %s used before its declaration was executed", e.Line, e.Name))
		}
		return lref{T: v.T, mem: v.S}
	case *MemberExpr:
		base := it.ref(e.X, fr)
		if e.Field >= 0 {
			off := 0
			for i := 0; i < e.Field; i++ {
				off += base.T.S.Members[i].T.flatLen()
			}
			mt := base.T.S.Members[e.Field].T
			return lref{T: mt, mem: base.mem[off : off+mt.flatLen()], skip: base.skip}
		}
		// swizzle
		sel := make([]int, len(e.Swizzle))
		for i, j := range e.Swizzle {
			if base.sel != nil {
				sel[i] = base.sel[j]
			} else {
				sel[i] = j
			}
		}
		return lref{T: e.T, mem: base.mem, sel: sel, skip: base.skip}
	case *Index:
		base := it.ref(e.X, fr)
		iv := it.eval(e.I, fr)
		if iv.S[0].P {
			it.trap(xrt.TrapPoison, e.Line, "index depends on an uninitialised value")
		}
		var n int
		switch base.T.K {
		case KArray, KVec:
			n = base.T.N
		case KMat:
			n = base.T.Rows
		}
		var idx int64
		if iv.T.K == KUint {
			idx = int64(iv.S[0].B)
		} else {
			idx = int64(int32(iv.S[0].B))
		}
		skip := base.skip
		if idx < 0 || idx >= int64(n) {
			it.trap(xrt.TrapOOB, e.Line, "index %d out of range for %s", idx, base.T)
			skip = true
			if idx < 0 {
				idx = 0
			} else {
				idx = int64(n - 1)
			}
		}
		i := int(idx)
		switch base.T.K {
		case KArray:
			el := base.T.Elem.flatLen()
			return lref{T: base.T.Elem, mem: base.mem[i*el : (i+1)*el], skip: skip}
		case KVec:
			if base.sel != nil {
				return lref{T: base.T.Elem, mem: base.mem, sel: []int{base.sel[i]}, skip: skip}
			}
			return lref{T: base.T.Elem, mem: base.mem[i : i+1], skip: skip}
		case KMat:
			c := base.T.Cols
			return lref{T: e.T, mem: base.mem[i*c : (i+1)*c], skip: skip}
		}
		it.fail(fmt.Errorf("hlslx: line %d: indexing %s", e.Line, base.T))
	}
	v := it.eval(e, fr)
	return lref{T: v.T, mem: v.S}
}

// ---- expressions ----

func (it *interp) evalInit(init Expr, to *Type, fr *frame) Value {
	if il, ok := init.(*InitList); ok {
		out := Value{T: to}
		kinds := to.flatKinds(nil)
		var walk func(il *InitList)
		walk = func(il *InitList) {
			for _, el := range il.Elems {
				if sub, ok := el.(*InitList); ok {
					walk(sub)
					continue
				}
				v := it.eval(el, fr)
				fk := v.T.flatKinds(nil)
				for i, s := range v.S {
					pos := len(out.S)
					if pos >= len(kinds) {
						it.fail(fmt.Errorf("hlslx: line %d: too many initialiser components", il.Line))
					}
					out.S = append(out.S, convScalar(s, fk[i], kinds[pos], it.trapF2I(el.line())))
				}
			}
		}
		walk(il)
		if len(out.S) != len(kinds) {
			it.fail(fmt.Errorf("hlslx: line %d: initialiser component count mismatch", il.Line))
		}
		return out
	}
	return it.eval(init, fr)
}

func (it *interp) eval(e Expr, fr *frame) Value {
	switch e := e.(type) {
	case *IntLit:
		return scalarValue(e.T, e.Val)
	case *FloatLit:
		return scalarValue(tFloat, fromF32(e.Val))
	case *BoolLit:
		return scalarValue(tBool, boolBits(e.Val))
	case *Ident:
		if e.Sym != nil && e.Sym.Global != nil && e.Sym.Global.Kind == GBuffer {
			return it.globalStorage(e.Sym.Global, e.Line)
		}
		if e.Sym != nil && e.Sym.Global == nil {
			if v := fr.vars[e.Sym.id]; v.T != nil && v.T.K == KBuf {
				return v
			}
		}
		return it.ref(e, fr).load()
	case *MemberExpr, *Index:
		return it.ref(e, fr).load()
	case *Conv:
		v := it.eval(e.X, fr)
		if e.T == nil {
			it.fail(fmt.Errorf("hlslx: line %d: ill-typed conversion", e.Line))
		}
		return convertValue(v, e.T, it.trapF2I(e.Line))
	case *Cast:
		v := it.eval(e.X, fr)
		it.rs.res.Cov.Add("cast." + e.To.covName())
		return convertValue(v, e.To, it.trapF2I(e.Line))
	case *Ctor:
		return it.evalCtor(e, fr)
	case *Unary:
		return it.evalUnary(e, fr)
	case *Binary:
		return it.evalBinary(e, fr)
	case *Ternary:
		return it.evalTernary(e, fr)
	case *Assign:
		return it.evalAssign(e, fr)
	case *IncDec:
		r := it.ref(e.X, fr)
		old := r.load()
		one := convertValue(scalarValue(tInt, 1), old.T, nil)
		op := "+"
		if e.Op == "--" {
			op = "-"
		}
		nv := it.arith(op, old, one, e.Line)
		r.store(nv)
		if e.Prefix {
			return nv
		}
		return old
	case *Call:
		if e.Fn != nil {
			return it.callFn(e, fr)
		}
		return it.evalIntrinsic(e, fr)
	case *MethodCall:
		return it.evalMethod(e, fr)
	case *InitList:
		it.fail(fmt.Errorf("hlslx: line %d: initialiser list in expression", e.Line))
	}
	it.fail(fmt.Errorf("hlslx: unknown expression %T", e))
	return Value{}
}

func (it *interp) evalCtor(e *Ctor, fr *frame) Value {
	it.rs.res.Cov.Add("ctor." + e.To.covName())
	if len(e.Args) == 1 {
		return convertValue(it.eval(e.Args[0], fr), e.To, it.trapF2I(e.Line))
	}
	out := Value{T: e.To, S: make([]Scalar, 0, e.To.flatLen())}
	to := e.To.base().K
	for _, a := range e.Args {
		v := it.eval(a, fr)
		from := v.T.base().K
		for _, s := range v.S {
			out.S = append(out.S, convScalar(s, from, to, it.trapF2I(e.Line)))
		}
	}
	return out
}

func (it *interp) evalUnary(e *Unary, fr *frame) Value {
	v := it.eval(e.X, fr)
	it.rs.res.Cov.Add("op.unary" + e.Op + "." + v.T.covName())
	out := Value{T: e.T, S: make([]Scalar, len(v.S))}
	k := v.T.base().K
	for i, s := range v.S {
		if s.P {
			out.S[i].P = true
			continue
		}
		switch e.Op {
		case "+":
			out.S[i] = s
		case "-":
			if k == KFloat {
				out.S[i].B = s.B ^ 0x80000000
			} else {
				out.S[i].B = -s.B
			}
		case "!":
			out.S[i].B = boolBits(s.B == 0)
		case "~":
			out.S[i].B = ^s.B
		}
	}
	return out
}

func (it *interp) evalBinary(e *Binary, fr *frame) Value {
	l := it.eval(e.L, fr)
	r := it.eval(e.R, fr) // && and || do not short-circuit in HLSL (before HLSL 2021)
	it.rs.res.Cov.Add("op." + e.Op + "." + l.T.covName())
	return it.binop(e.Op, l, r, e.T, e.Line)
}

func (it *interp) arith(op string, l, r Value, line int) Value {
	return it.binop(op, l, r, l.T, line)
}

// binop applies a component-wise binary operator to same-shaped operands.
func (it *interp) binop(op string, l, r Value, resT *Type, line int) Value {
	n := len(l.S)
	if len(r.S) != n {
		it.fail(fmt.Errorf("hlslx: line %d: operand shapes differ for %s (%s, %s)", line, op, l.T, r.T))
	}
	out := Value{T: resT, S: make([]Scalar, n)}
	k := l.T.base().K
	if k == KLitInt {
		k = KInt
	}
	rk := r.T.base().K
	for i := 0; i < n; i++ {
		a, b := l.S[i], r.S[i]
		if a.P || b.P {
			out.S[i].P = true
			continue
		}
		out.S[i].B = it.scalarOp(op, k, rk, a.B, b.B, line)
	}
	return out
}

func (it *interp) scalarOp(op string, k, rk Kind, a, b uint32, line int) uint32 {
	switch k {
	case KFloat:
		x, y := f32(Scalar{B: a}), f32(Scalar{B: b})
		switch op {
		case "+":
			return fromF32(float32(x + y))
		case "-":
			return fromF32(float32(x - y))
		case "*":
			return fromF32(float32(x * y))
		case "/":
			return fromF32(float32(x / y))
		case "%":
			return fromF32(fmodf(x, y))
		case "==":
			return boolBits(x == y)
		case "!=":
			return boolBits(x != y)
		case "<":
			return boolBits(x < y)
		case ">":
			return boolBits(x > y)
		case "<=":
			return boolBits(x <= y)
		case ">=":
			return boolBits(x >= y)
		}
	case KBool:
		switch op {
		case "&&":
			return boolBits(a != 0 && b != 0)
		case "||":
			return boolBits(a != 0 || b != 0)
		case "==":
			return boolBits((a != 0) == (b != 0))
		case "!=":
			return boolBits((a != 0) != (b != 0))
		}
	case KInt, KUint:
		signed := k == KInt
		switch op {
		case "+":
			return a + b
		case "-":
			return a - b
		case "*":
			return a * b
		case "/", "%":
			if b == 0 {
				it.trap(xrt.TrapDivZero, line, "integer %s by zero", map[string]string{"/": "division", "%": "remainder"}[op])
				return 0xFFFFFFFF
			}
			if signed {
				if int32(a) == -2147483648 && int32(b) == -1 {
					it.trap(xrt.TrapDivOvf, line, "INT_MIN %s -1", op)
					if op == "/" {
						return a
					}
					return 0
				}
				if op == "/" {
					return uint32(int32(a) / int32(b))
				}
				return uint32(int32(a) % int32(b))
			}
			if op == "/" {
				return a / b
			}
			return a % b
		case "&":
			return a & b
		case "|":
			return a | b
		case "^":
			return a ^ b
		case "<<":
			return a << (b & 31)
		case ">>":
			if signed {
				return uint32(int32(a) >> (b & 31))
			}
			return a >> (b & 31)
		case "==":
			return boolBits(a == b)
		case "!=":
			return boolBits(a != b)
		case "<":
			if signed {
				return boolBits(int32(a) < int32(b))
			}
			return boolBits(a < b)
		case ">":
			if signed {
				return boolBits(int32(a) > int32(b))
			}
			return boolBits(a > b)
		case "<=":
			if signed {
				return boolBits(int32(a) <= int32(b))
			}
			return boolBits(a <= b)
		case ">=":
			if signed {
				return boolBits(int32(a) >= int32(b))
			}
			return boolBits(a >= b)
		}
	}
	_ = rk
	it.fail(fmt.Errorf("hlslx: line %d: operator %s not defined for %s", line, op, scalarOf(k)))
	return 0
}

func (it *interp) evalTernary(e *Ternary, fr *frame) Value {
	c := it.eval(e.C, fr)
	it.rs.res.Cov.Add("op.?:." + e.T.covName())
	if len(c.S) == 1 && c.T.isScalar() {
		if c.S[0].P {
			// value select on poison: result is poison (no control dependence is modelled for ?:)
			a := it.eval(e.A, fr)
			return poisonValue(a.T)
		}
		if c.S[0].B != 0 {
			return it.eval(e.A, fr)
		}
		return it.eval(e.B, fr)
	}
	a := it.eval(e.A, fr)
	b := it.eval(e.B, fr)
	out := Value{T: e.T, S: make([]Scalar, len(a.S))}
	for i := range out.S {
		switch {
		case c.S[i].P:
			out.S[i].P = true
		case c.S[i].B != 0:
			out.S[i] = a.S[i]
		default:
			out.S[i] = b.S[i]
		}
	}
	return out
}

func (it *interp) evalAssign(e *Assign, fr *frame) Value {
	if e.Op == "=" {
		v := it.eval(e.R, fr)
		r := it.ref(e.L, fr)
		it.rs.res.Cov.Add("op.=." + r.T.covName())
		r.store(v)
		return v
	}
	rv := it.eval(e.R, fr)
	r := it.ref(e.L, fr)
	op := strings.TrimSuffix(e.Op, "=")
	it.rs.res.Cov.Add("op." + e.Op + "." + r.T.covName())
	cur := r.load()
	lv := convertValue(cur, e.OpT, it.trapF2I(e.Line))
	res := it.binop(op, lv, rv, e.OpT, e.Line)
	nv := convertValue(res, r.T, it.trapF2I(e.Line))
	r.store(nv)
	return nv
}

// ---- user function calls ----

func (it *interp) callFn(e *Call, fr *frame) Value {
	f := e.Fn
	if f.Unsupported != "" {
		panic(runErr{&xrt.Unsupported{What: f.Unsupported}})
	}
	if f.TypeErr {
		it.fail(fmt.Errorf("hlslx: function %q has static errors (see StaticTraps)", f.Name))
	}
	if e.Ambiguous {
		it.unsupported("line %d: ambiguous overload of %s", e.Line, f.Name)
	}
	it.step("call")
	it.depth++
	if it.depth > 128 {
		it.fail(fmt.Errorf("hlslx: call depth exceeded in %s (recursion is illegal in HLSL)", f.Name))
	}
	nf := &frame{fn: f, vars: make([]Value, f.NLocals)}
	type copyOut struct {
		r lref
		p *Param
	}
	var outs []copyOut
	for i, p := range f.Params {
		a := e.Args[i]
		switch {
		case p.T.K == KBuf:
			nf.vars[p.Sym.id] = it.eval(a, fr)
		case p.Out:
			r := it.ref(a, fr)
			outs = append(outs, copyOut{r, p})
			if p.In {
				nf.vars[p.Sym.id] = convertValue(r.load(), p.T, it.trapF2I(a.line())).clone()
			} else {
				nf.vars[p.Sym.id] = poisonValue(p.T)
			}
		default:
			nf.vars[p.Sym.id] = it.eval(a, fr).clone()
		}
	}
	c := it.execBlock(f.Body.Stmts, nf)
	var ret Value
	if f.Ret.K != KVoid {
		if c != ctlReturn || nf.ret.T == nil {
			it.trap(xrt.TrapUnreach, f.Line, "control reaches the end of non-void function %s", f.Name)
			ret = poisonValue(f.Ret)
		} else {
			ret = nf.ret
		}
	} else {
		ret = Value{T: tVoid}
	}
	for _, o := range outs {
		v := nf.vars[o.p.Sym.id]
		o.r.store(convertValue(v, o.r.T, it.trapF2I(e.Line)))
	}
	it.depth--
	return ret
}

// ---- buffer access ----

func (it *interp) bufferOf(e Expr, fr *frame) *bufObj {
	v := it.eval(e, fr)
	if v.Buf == nil {
		it.fail(fmt.Errorf("hlslx: line %d: expression is not a bound buffer", e.line()))
	}
	return v.Buf
}

// offsetArg evaluates a byte offset; ok=false when it is unusable (poison).
func (it *interp) offsetArg(e Expr, fr *frame, what string) (uint32, bool) {
	v := it.eval(e, fr)
	if v.S[0].P {
		it.trap(xrt.TrapPoison, e.line(), "%s offset depends on an uninitialised value", what)
		return 0, false
	}
	off := v.S[0].B
	if off%4 != 0 {
		it.trap(xrt.TrapOther, e.line(), "%s offset %d is not 4-byte aligned", what, off)
		off &^= 3
	}
	return off, true
}

func (b *bufObj) inRange(off uint32) bool { return uint64(off)+4 <= uint64(len(b.data)) }

func (it *interp) evalMethod(e *MethodCall, fr *frame) Value {
	b := it.bufferOf(e.X, fr)
	it.rs.res.Cov.Add("fn.buffer." + e.Name)
	it.step("")
	switch e.Name {
	case "Load", "Load2", "Load3", "Load4":
		n := e.T.flatLen()
		out := Value{T: e.T, S: make([]Scalar, n)}
		off, ok := it.offsetArg(e.Args[0], fr, e.Name)
		if !ok {
			for i := range out.S {
				out.S[i].P = true
			}
			return out
		}
		for i := 0; i < n; i++ {
			o := off + uint32(4*i)
			if o < off || !b.inRange(o) {
				it.trap(xrt.TrapOOB, e.Line, "%s.%s reads offset %d beyond buffer size %d", b.name, e.Name, o, len(b.data))
				continue // D3D: out-of-bounds reads return 0
			}
			out.S[i].B = binary.LittleEndian.Uint32(b.data[o:])
		}
		return out
	case "Store", "Store2", "Store3", "Store4":
		v := it.eval(e.Args[1], fr)
		off, ok := it.offsetArg(e.Args[0], fr, e.Name)
		if !ok {
			return Value{T: tVoid}
		}
		for i, s := range v.S {
			o := off + uint32(4*i)
			if s.P {
				it.trap(xrt.TrapPoison, e.Line, "%s.%s stores an uninitialised value at offset %d", b.name, e.Name, o)
			}
			if o < off || !b.inRange(o) {
				it.trap(xrt.TrapOOB, e.Line, "%s.%s writes offset %d beyond buffer size %d", b.name, e.Name, o, len(b.data))
				continue // D3D: out-of-bounds writes are dropped
			}
			binary.LittleEndian.PutUint32(b.data[o:], s.B)
		}
		return Value{T: tVoid}
	case "GetDimensions":
		r := it.ref(e.Args[0], fr)
		r.store(convertValue(scalarValue(tUint, uint32(len(b.data))), r.T, nil))
		return Value{T: tVoid}
	}
	// Interlocked*
	nIn := 1
	if e.Name == "InterlockedCompareExchange" || e.Name == "InterlockedCompareStore" {
		nIn = 2
	}
	vals := make([]Value, nIn)
	for i := 0; i < nIn; i++ {
		vals[i] = it.eval(e.Args[1+i], fr)
	}
	var orig *lref
	if len(e.Args) > 1+nIn {
		r := it.ref(e.Args[1+nIn], fr)
		orig = &r
	}
	off, ok := it.offsetArg(e.Args[0], fr, e.Name)
	poisoned := !ok
	for _, v := range vals {
		if v.S[0].P {
			it.trap(xrt.TrapPoison, e.Line, "%s.%s operand is uninitialised", b.name, e.Name)
			poisoned = true
		}
	}
	if poisoned {
		if orig != nil {
			orig.store(poisonValue(orig.T))
		}
		return Value{T: tVoid}
	}
	if !b.inRange(off) {
		it.trap(xrt.TrapOOB, e.Line, "%s.%s at offset %d beyond buffer size %d", b.name, e.Name, off, len(b.data))
		if orig != nil {
			orig.store(zeroValue(orig.T)) // D3D: out-of-bounds atomics return 0... (undefined per docs; only a fallback)
		}
		return Value{T: tVoid}
	}
	old := binary.LittleEndian.Uint32(b.data[off:])
	signed := vals[nIn-1].T.K == KInt
	nv := atomicOp(strings.TrimPrefix(e.Name, "Interlocked"), old, vals, signed)
	binary.LittleEndian.PutUint32(b.data[off:], nv)
	if orig != nil {
		from := tUint
		if signed {
			from = tInt
		}
		orig.store(convertValue(scalarValue(from, old), orig.T, nil))
	}
	return Value{T: tVoid}
}

// atomicOp computes the new memory value.
func atomicOp(op string, old uint32, vals []Value, signed bool) uint32 {
	v := vals[len(vals)-1].S[0].B
	switch op {
	case "Add":
		return old + v
	case "And":
		return old & v
	case "Or":
		return old | v
	case "Xor":
		return old ^ v
	case "Min":
		if signed {
			if int32(v) < int32(old) {
				return v
			}
			return old
		}
		if v < old {
			return v
		}
		return old
	case "Max":
		if signed {
			if int32(v) > int32(old) {
				return v
			}
			return old
		}
		if v > old {
			return v
		}
		return old
	case "Exchange":
		return v
	case "CompareExchange", "CompareStore":
		if old == vals[0].S[0].B {
			return v
		}
		return old
	}
	panic(runErr{fmt.Errorf("hlslx: unknown atomic %s", op)})
}
