package hlslx

import (
	"fmt"
	"strings"
)

// Kind of a type.
type Kind uint8

const (
	KVoid Kind = iota
	KBool
	KInt
	KUint
	KFloat
	KLitInt // type of an unsuffixed integer literal: behaves as int but yields to the other operand
	KVec
	KMat
	KArray
	KStruct
	KBuf // ByteAddressBuffer / RWByteAddressBuffer handle
)

// Type describes an HLSL type of the supported subset.
type Type struct {
	K    Kind
	Elem *Type // vec/mat: scalar type; array: element type
	N    int   // vec: components; array: length
	Rows int   // mat: rows   (floatRxC: m[i] is row i with C components)
	Cols int   // mat: columns
	S    *StructDef
	RW   bool // KBuf
}

// StructDef is a struct declaration.
type StructDef struct {
	Name    string
	Members []Member
	Line    int
}

type Member struct {
	Name     string
	T        *Type
	ColMajor bool // explicit column_major (default for matrices unless row_major given)
	RowMajor bool
	Semantic string
	Line     int
}

var (
	tVoid   = &Type{K: KVoid}
	tBool   = &Type{K: KBool}
	tInt    = &Type{K: KInt}
	tUint   = &Type{K: KUint}
	tFloat  = &Type{K: KFloat}
	tLitInt = &Type{K: KLitInt}
	tBufRO  = &Type{K: KBuf}
	tBufRW  = &Type{K: KBuf, RW: true}
)

func scalarOf(k Kind) *Type {
	switch k {
	case KBool:
		return tBool
	case KInt:
		return tInt
	case KUint:
		return tUint
	case KFloat:
		return tFloat
	case KLitInt:
		return tLitInt
	}
	panic("scalarOf: not a scalar kind")
}

func vecOf(elem *Type, n int) *Type { return &Type{K: KVec, Elem: elem, N: n} }
func matOf(elem *Type, r, c int) *Type {
	return &Type{K: KMat, Elem: elem, Rows: r, Cols: c}
}
func arrayOf(elem *Type, n int) *Type { return &Type{K: KArray, Elem: elem, N: n} }

func (t *Type) isScalar() bool { return t.K >= KBool && t.K <= KLitInt }
func (t *Type) isNumeric() bool {
	return t.isScalar() || t.K == KVec || t.K == KMat
}

// base returns the scalar type of a scalar/vector/matrix.
func (t *Type) base() *Type {
	if t.K == KVec || t.K == KMat {
		return t.Elem
	}
	return t
}

// withBase returns the same shape with another scalar type.
func (t *Type) withBase(b *Type) *Type {
	switch t.K {
	case KVec:
		return vecOf(b, t.N)
	case KMat:
		return matOf(b, t.Rows, t.Cols)
	}
	return b
}

// flatLen is the number of scalars in the value.
func (t *Type) flatLen() int {
	switch t.K {
	case KVoid, KBuf:
		return 0
	case KVec:
		return t.N
	case KMat:
		return t.Rows * t.Cols
	case KArray:
		return t.N * t.Elem.flatLen()
	case KStruct:
		n := 0
		for _, m := range t.S.Members {
			n += m.T.flatLen()
		}
		return n
	}
	return 1
}

// flatKinds appends the scalar kind of every flattened component.
func (t *Type) flatKinds(dst []Kind) []Kind {
	switch t.K {
	case KVoid, KBuf:
		return dst
	case KVec:
		for i := 0; i < t.N; i++ {
			dst = append(dst, t.Elem.K)
		}
	case KMat:
		for i := 0; i < t.Rows*t.Cols; i++ {
			dst = append(dst, t.Elem.K)
		}
	case KArray:
		for i := 0; i < t.N; i++ {
			dst = t.Elem.flatKinds(dst)
		}
	case KStruct:
		for _, m := range t.S.Members {
			dst = m.T.flatKinds(dst)
		}
	default:
		dst = append(dst, t.K)
	}
	return dst
}

func sameType(a, b *Type) bool {
	if a == b {
		return true
	}
	if a == nil || b == nil || a.K != b.K {
		return false
	}
	switch a.K {
	case KVec:
		return a.N == b.N && a.Elem.K == b.Elem.K
	case KMat:
		return a.Rows == b.Rows && a.Cols == b.Cols && a.Elem.K == b.Elem.K
	case KArray:
		return a.N == b.N && sameType(a.Elem, b.Elem)
	case KStruct:
		return a.S == b.S
	case KBuf:
		return a.RW == b.RW
	}
	return true
}

func (t *Type) String() string {
	if t == nil {
		return "<nil>"
	}
	switch t.K {
	case KVoid:
		return "void"
	case KBool:
		return "bool"
	case KInt:
		return "int"
	case KUint:
		return "uint"
	case KFloat:
		return "float"
	case KLitInt:
		return "literal int"
	case KVec:
		return fmt.Sprintf("%s%d", t.Elem, t.N)
	case KMat:
		return fmt.Sprintf("%s%dx%d", t.Elem, t.Rows, t.Cols)
	case KArray:
		// innermost element first, then dims outer to inner
		dims := ""
		e := t
		for e.K == KArray {
			dims += fmt.Sprintf("[%d]", e.N)
			e = e.Elem
		}
		return e.String() + dims
	case KStruct:
		return t.S.Name
	case KBuf:
		if t.RW {
			return "RWByteAddressBuffer"
		}
		return "ByteAddressBuffer"
	}
	return "?"
}

// covName is the short type name used in coverage keys ("ivec3", "f32", "mat3x3"...).
func (t *Type) covName() string {
	sc := func(k Kind) string {
		switch k {
		case KBool:
			return "bool"
		case KInt, KLitInt:
			return "i32"
		case KUint:
			return "u32"
		case KFloat:
			return "f32"
		}
		return "?"
	}
	pre := func(k Kind) string {
		switch k {
		case KBool:
			return "b"
		case KInt, KLitInt:
			return "i"
		case KUint:
			return "u"
		}
		return ""
	}
	switch t.K {
	case KVec:
		return fmt.Sprintf("%svec%d", pre(t.Elem.K), t.N)
	case KMat:
		return fmt.Sprintf("%smat%dx%d", pre(t.Elem.K), t.Rows, t.Cols)
	case KArray:
		return "array"
	case KStruct:
		return "struct"
	case KBuf:
		return "buffer"
	case KVoid:
		return "void"
	}
	return sc(t.K)
}

// builtinType resolves a builtin scalar/vector/matrix type name. ok=false if
// the name is not a builtin type; unsup!="" if it is a builtin type outside
// the supported subset.
func builtinType(name string) (t *Type, unsup string, ok bool) {
	switch name {
	case "void":
		return tVoid, "", true
	case "ByteAddressBuffer":
		return tBufRO, "", true
	case "RWByteAddressBuffer":
		return tBufRW, "", true
	case "dword":
		return tUint, "", true
	}
	bases := []struct {
		n string
		t *Type
	}{
		{"bool", tBool}, {"int", tInt}, {"uint", tUint}, {"float", tFloat},
	}
	for _, b := range bases {
		if !strings.HasPrefix(name, b.n) {
			continue
		}
		rest := name[len(b.n):]
		switch {
		case rest == "":
			return b.t, "", true
		case len(rest) == 1 && rest[0] >= '1' && rest[0] <= '4':
			if rest[0] == '1' {
				return nil, "1-component vector type " + name, true
			}
			return vecOf(b.t, int(rest[0]-'0')), "", true
		case len(rest) == 3 && rest[1] == 'x' && rest[0] >= '1' && rest[0] <= '4' && rest[2] >= '1' && rest[2] <= '4':
			if rest[0] == '1' || rest[2] == '1' {
				return nil, "1-dimension matrix type " + name, true
			}
			return matOf(b.t, int(rest[0]-'0'), int(rest[2]-'0')), "", true
		}
	}
	// other base types: recognised but unsupported
	for _, b := range []string{"half", "double", "min16float", "min10float", "min16int", "min12int", "min16uint",
		"int64_t", "uint64_t", "int16_t", "uint16_t", "float16_t", "float32_t", "float64_t", "int32_t", "uint32_t"} {
		if !strings.HasPrefix(name, b) {
			continue
		}
		rest := name[len(b):]
		if rest == "" || (len(rest) == 1 && rest[0] >= '1' && rest[0] <= '4') ||
			(len(rest) == 3 && rest[1] == 'x' && rest[0] >= '1' && rest[0] <= '4' && rest[2] >= '1' && rest[2] <= '4') {
			return nil, "type " + name, true
		}
	}
	return nil, "", false
}

// unsupportedResourceTypes are object type names that may start a global
// declaration we skip.
var unsupportedResourceTypes = map[string]bool{
	"Texture1D": true, "Texture1DArray": true, "Texture2D": true, "Texture2DArray": true, "Texture2DMS": true,
	"Texture2DMSArray": true, "Texture3D": true, "TextureCube": true, "TextureCubeArray": true,
	"RWTexture1D": true, "RWTexture1DArray": true, "RWTexture2D": true, "RWTexture2DArray": true, "RWTexture3D": true,
	"SamplerState": true, "SamplerComparisonState": true, "sampler": true, "Buffer": true, "RWBuffer": true,
	"StructuredBuffer": true, "RWStructuredBuffer": true, "AppendStructuredBuffer": true, "ConsumeStructuredBuffer": true,
	"RaytracingAccelerationStructure": true, "RayQuery": true, "RayDesc": true, "texture": true,
	"RasterizerOrderedTexture2D": true, "RasterizerOrderedBuffer": true, "RasterizerOrderedByteAddressBuffer": true,
	"InputPatch": true, "OutputPatch": true, "PointStream": true, "LineStream": true, "TriangleStream": true,
	"tbuffer": true,
}
