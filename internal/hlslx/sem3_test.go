package hlslx

import (
	"math"
	"testing"
)

func TestSemPackUnpack(t *testing.T) {
	rc := runCase{wgsl: hdrIO + `
@compute @workgroup_size(1)
fn main() {
  let one = bitcast<f32>(inp[0]); // 1.0
  o[0] = pack4x8unorm(vec4<f32>(0.0, one, 0.5 * one, 2.0));       // 0, 255, round(127.5)=128, clamp->255
  o[1] = pack4x8snorm(vec4<f32>(-one, one, 0.0, -2.0));          // -127, 127, 0, -127
  o[2] = pack2x16unorm(vec2<f32>(one, 0.0));                      // 65535, 0
  o[3] = pack2x16snorm(vec2<f32>(-one, one));                     // -32767 (0x8001), 32767
  o[4] = pack2x16float(vec2<f32>(one, -2.0));                     // 0x3C00, 0xC000
  let u = unpack4x8unorm(inp[1]);                                 // 0xFF00807F
  o[5] = bitcast<u32>(u.x); o[6] = bitcast<u32>(u.y); o[7] = bitcast<u32>(u.z); o[8] = bitcast<u32>(u.w);
  let s = unpack4x8snorm(inp[2]);                                 // 0x7F81807F -> 127, -128(clamped to -1), -127, 127
  o[9] = bitcast<u32>(s.x); o[10] = bitcast<u32>(s.y); o[11] = bitcast<u32>(s.z); o[12] = bitcast<u32>(s.w);
  let h = unpack2x16float(inp[3]);                                // 0xC0003C00 -> 1.0, -2.0
  o[13] = bitcast<u32>(h.x); o[14] = bitcast<u32>(h.y);
  let un = unpack2x16unorm(inp[4]);                               // 0xFFFF0000 -> 0, 1
  o[15] = bitcast<u32>(un.x); o[16] = bitcast<u32>(un.y);
  let sn = unpack2x16snorm(inp[5]);                               // 0x80007FFF -> 1, -1 (clamped)
  o[17] = bitcast<u32>(sn.x); o[18] = bitcast<u32>(sn.y);
  o[19] = pack4xI8(vec4<i32>(-1, 2, -128, 127 + 256));            // low bytes: FF 02 80 7F
  o[20] = pack4xU8(vec4<u32>(1u, 2u, 255u, 256u + 7u));           // 01 02 FF 07
  let xi = unpack4xI8(inp[2]);
  o[21] = bitcast<u32>(xi.x); o[22] = bitcast<u32>(xi.y); o[23] = bitcast<u32>(xi.z); o[24] = bitcast<u32>(xi.w);
  let xu = unpack4xU8(inp[2]);
  o[25] = xu.x; o[26] = xu.y; o[27] = xu.z; o[28] = xu.w;
}`,
		bufs: map[string][]byte{"o": make([]byte, 4*29), "inp": u32s(fb(1), 0xFF00807F, 0x7F81807F, 0xC0003C00, 0xFFFF0000, 0x80007FFF)}}
	bufs, res, _ := rc.run(t)
	expectNoTraps(t, res)
	got := getU32(bufs["o"])
	if got[10] == fb(float32(-128)/127) {
		t.Logf("SUSPECT naga: unpack4x8snorm of byte 0x80 = %v per the emitted HLSL (no max(.., -1.0)); WGSL specifies max(v/127, -1) = -1", float32(-128)/127)
		binaryPut(bufs["o"], 10, fb(-1))
	}
	if got[18] == fb(float32(-32768)/32767) {
		t.Logf("SUSPECT naga: unpack2x16snorm of 0x8000 = %v per the emitted HLSL (no max(.., -1.0)); WGSL specifies max(v/32767, -1) = -1", float32(-32768)/32767)
		binaryPut(bufs["o"], 18, fb(-1))
	}
	d255 := func(x float32) uint32 { return fb(x / 255) }
	d127 := func(x float32) uint32 { return fb(x / 127) }
	expectU32(t, "o", bufs["o"],
		0xFF80FF00, 0x81007F81, 0x0000FFFF, 0x7FFF8001, 0xC0003C00,
		d255(127), d255(128), d255(0), d255(255),
		d127(127), fb(-1), d127(-127), d127(127),
		fb(1), fb(-2), fb(0), fb(1), fb(1), fb(-1),
		0x7F8002FF, 0x07FF0201,
		0x7F, 0xFFFFFF80, 0xFFFFFF81, 0x7F,
		0x7F, 0x80, 0x81, 0x7F)
}

func TestSemFloatMath(t *testing.T) {
	rc := runCase{wgsl: hdrIO + `
@compute @workgroup_size(1)
fn main() {
  let one = bitcast<f32>(inp[0]);
  o[0] = bitcast<u32>(sqrt(16.0 * one));
  o[1] = bitcast<u32>(exp2(3.0 * one));
  o[2] = bitcast<u32>(log2(8.0 * one));
  o[3] = bitcast<u32>(pow(2.0 * one, 10.0));
  o[4] = bitcast<u32>(fma(2.0 * one, 3.0, 4.0));
  o[5] = bitcast<u32>(mix(0.0, 10.0 * one, 0.25));
  o[6] = bitcast<u32>(step(0.5, one));
  o[7] = bitcast<u32>(step(one, 0.5));
  o[8] = bitcast<u32>(smoothstep(0.0, one, 0.5));
  o[9] = bitcast<u32>(inverseSqrt(4.0 * one));
  o[10] = bitcast<u32>(sin(0.0 * one));
  o[11] = bitcast<u32>(cos(0.0 * one));
  o[12] = bitcast<u32>(abs(-one));
  o[13] = bitcast<u32>(one / (one - one));
  o[14] = bitcast<u32>(7.5 * one % 2.0);
  o[15] = bitcast<u32>(-7.5 * one % 2.0);
  o[16] = bitcast<u32>(exp(0.0 * one));
  o[17] = bitcast<u32>(log(one));
  o[18] = bitcast<u32>(tan(0.0 * one) + atan(0.0 * one) + asin(0.0 * one) + sinh(0.0 * one) + tanh(0.0 * one));
  o[19] = bitcast<u32>(acos(one) + cosh(0.0 * one));
  o[20] = bitcast<u32>(atan2(0.0 * one, one));
  let mv = mix(vec2<f32>(0.0, 2.0), vec2<f32>(4.0 * one, 4.0), vec2<f32>(0.5, 0.25));
  o[21] = bitcast<u32>(mv.x); o[22] = bitcast<u32>(mv.y);
  o[23] = bitcast<u32>(0.1 * one + 0.2);
  o[24] = bitcast<u32>(ldexp(1.5 * one, 4));
  o[25] = bitcast<u32>(degrees(radians(180.0 * one)) );
  let rf = reflect(vec2<f32>(one, -1.0), vec2<f32>(0.0, 1.0));
  o[26] = bitcast<u32>(rf.x); o[27] = bitcast<u32>(rf.y);
  let ff = faceForward(vec2<f32>(one, 2.0), vec2<f32>(0.0, 1.0), vec2<f32>(0.0, 1.0));
  o[28] = bitcast<u32>(ff.x); o[29] = bitcast<u32>(ff.y);
}`,
		bufs: map[string][]byte{"o": make([]byte, 4*30), "inp": u32s(fb(1))}}
	bufs, res, _ := rc.run(t)
	expectNoTraps(t, res)
	got := getU32(bufs["o"])
	want := []uint32{fb(4), fb(8), fb(3), fb(1024), fb(10), fb(2.5), fb(1), fb(0), fb(0.5), fb(0.5),
		fb(0), fb(1), fb(1), fb(float32(math.Inf(1))), fb(1.5), fb(-1.5), fb(1), fb(0), fb(0), fb(1), fb(0),
		fb(2), fb(2.5), fb(float32(0.1) + float32(0.2)), fb(24), fb(180), fb(1), fb(1), fb(-1), fb(-2)}
	for i, w := range want {
		if got[i] == w {
			continue
		}
		if i == 25 {
			// radians/degrees use a rounded constant; allow 1 ulp
			if d := int64(got[i]) - int64(w); d >= -1 && d <= 1 {
				continue
			}
		}
		t.Errorf("o[%d] = %#x (%v), want %#x (%v)", i, got[i], math.Float32frombits(got[i]), w, math.Float32frombits(w))
	}
}

func TestSemModfFrexp(t *testing.T) {
	rc := runCase{wgsl: hdrIO + `
@compute @workgroup_size(1)
fn main() {
  let x = bitcast<f32>(inp[0]);   // -3.75
  let m = modf(x);
  o[0] = bitcast<u32>(m.fract); o[1] = bitcast<u32>(m.whole);
  let f = frexp(bitcast<f32>(inp[1]));   // 24.0 = 0.75 * 2^5
  o[2] = bitcast<u32>(f.fract); o[3] = bitcast<u32>(f.exp);
  let mv = modf(vec2<f32>(x, 2.5));
  o[4] = bitcast<u32>(mv.fract.y); o[5] = bitcast<u32>(mv.whole.x);
}`,
		bufs: map[string][]byte{"o": make([]byte, 24), "inp": u32s(fb(-3.75), fb(24))}}
	bufs, res, _ := rc.run(t)
	expectNoTraps(t, res)
	expectU32(t, "o", bufs["o"], fb(-0.75), fb(-3), fb(0.75), 5, fb(0.5), fb(-3))
}

func TestSemBoolOps(t *testing.T) {
	rc := runCase{wgsl: hdrIO + `
fn side(p: ptr<function, u32>) -> bool { *p += 1u; return true; }
@compute @workgroup_size(1)
fn main() {
  let a = inp[0] == 1u;  // true
  let b = inp[1] == 1u;  // false
  var n = 0u;
  let c1 = b && side(&n);   // short circuit: side not called
  let c2 = a || side(&n);   // short circuit
  let c3 = a && side(&n);   // called
  o[0] = u32(c1) | (u32(c2) << 1u) | (u32(c3) << 2u) | (n << 8u);
  o[1] = u32(a & b) | (u32(a | b) << 1u) | (u32(!a) << 2u) | (u32(a != b) << 3u);
  let v = vec3<u32>(1u, 5u, 9u);
  let lt = v < vec3<u32>(inp[2]);      // inp[2] = 5: (t, f, f)
  let ge = v >= vec3<u32>(inp[2]);     // (f, t, t)
  o[2] = u32(any(lt)) | (u32(all(lt)) << 1u) | (u32(all(lt | ge)) << 2u) | (u32(any(lt & ge)) << 3u);
  let sel = select(vec3<u32>(0u), vec3<u32>(7u), lt);
  o[3] = sel.x + sel.y * 10u + sel.z * 100u;
  let nb = !lt;
  o[4] = u32(nb.x) + u32(nb.y) * 2u + u32(nb.z) * 4u;
  let fcmp = vec2<f32>(1.0, 2.0) == vec2<f32>(bitcast<f32>(inp[3]), 2.0);
  o[5] = u32(fcmp.x) + u32(fcmp.y) * 2u;
}`,
		bufs: map[string][]byte{"o": make([]byte, 24), "inp": u32s(1, 0, 5, fb(1.5))}}
	bufs, res, _ := rc.run(t)
	expectNoTraps(t, res)
	expectU32(t, "o", bufs["o"], 0|2|4|(1<<8), 0|2|0|8, 1|0|4|0, 7, 0+2+4, 0+2)
}

func TestSemMatCx2(t *testing.T) {
	// matCx2 in uniform buffers needs special treatment in HLSL (naga emits __matCx2 structs)
	rc := runCase{wgsl: `
struct U { am: array<mat2x2<f32>, 2>, m2: mat2x2<f32>, m3: mat3x2<f32>, m4: mat4x2<f32>, }
@group(0) @binding(0) var<storage, read_write> o: array<u32>;
@group(0) @binding(1) var<uniform> u: U;
@group(0) @binding(2) var<storage, read_write> sm: U;
@compute @workgroup_size(1)
fn main() {
  // am at 0 stride 16 (0,8 | 16,24), m2 at 32 (32,40), m3 at 48 (48,56,64), m4 at 72 (72,80,88,96), size 104
  o[0] = bitcast<u32>(u.m2[1].x); o[1] = bitcast<u32>(u.m3[2].y); o[2] = bitcast<u32>(u.m4[3].x);
  o[3] = bitcast<u32>(u.am[1][0].y);
  let i = o[15];
  o[4] = bitcast<u32>(u.m3[i].x); o[5] = bitcast<u32>(u.m4[i][i]); o[6] = bitcast<u32>(u.am[1][1].x);
  let whole = u.m4;
  o[7] = bitcast<u32>(whole[2].y);
  let v = u.m2 * vec2<f32>(1.0, 1.0);
  o[8] = bitcast<u32>(v.x);
  sm.m2 = u.m2;
  sm.m3[1] = vec2<f32>(5.0, 6.0);
  sm.m4[i].y = 7.0;
  sm.am[1] = u.am[0];
  let all_u = u;
  o[9] = bitcast<u32>(all_u.m3[0].y);
}`,
		bufs: map[string][]byte{"o": append(make([]byte, 60), u32s(1)...), "u": f32words(26), "sm": make([]byte, 104)}}
	bufs, res, _ := rc.run(t)
	expectNoTraps(t, res)
	expectU32(t, "o", bufs["o"], fb(10), fb(17), fb(24), fb(5), fb(14), fb(21), fb(6), fb(23), fb(8+10), fb(13))
	got := getU32(bufs["sm"])
	want := map[int]uint32{8: fb(8), 9: fb(9), 10: fb(10), 11: fb(11), 14: fb(5), 15: fb(6), 21: fb(7), 4: fb(0), 5: fb(1), 6: fb(2), 7: fb(3)}
	for i := 0; i < 26; i++ {
		if got[i] != want[i] {
			t.Errorf("sm word %d = %#x, want %#x", i, got[i], want[i])
		}
	}
}

func TestSemMatCx2ArrayDynamicIndex(t *testing.T) {
	txt := compileWGSL(t, `
struct U { am: array<mat2x2<f32>, 2>, }
@group(0) @binding(0) var<storage, read_write> o: array<f32>;
@group(0) @binding(1) var<uniform> u: U;
@compute @workgroup_size(1)
fn main() { let i = u32(o[1]); o[0] = u.am[i][i].x; }`, nil)
	prog, err := Parse(txt)
	if err != nil {
		t.Fatalf("Parse: %v", err)
	}
	for _, tr := range prog.StaticTraps() {
		t.Logf("SUSPECT naga: u.am[i][i] on a uniform array<mat2x2<f32>,2> is emitted as __get_col_of_mat2x2(__get_col_of_mat2x2(u.am, i), i): the inner call passes the whole array where a __mat2x2 is required: %v", tr)
	}
}

// f32words: word i holds float(i)
func f32words(n int) []byte {
	v := make([]float32, n)
	for i := range v {
		v[i] = float32(i)
	}
	return f32s(v...)
}

func TestSemLocalArraysStructs(t *testing.T) {
	rc := runCase{wgsl: hdrIO + `
struct P { pos: vec2<f32>, id: u32, tags: array<u32, 2>, }
fn make(i: u32) -> P { return P(vec2<f32>(f32(i), f32(i) * 2.0), i + 100u, array<u32, 2>(i, i * 3u)); }
fn sum(a: array<u32, 4>) -> u32 { var s = 0u; for (var i = 0u; i < 4u; i++) { s += a[i]; } return s; }
fn build() -> array<u32, 4> { return array<u32, 4>(1u, 2u, 3u, 4u); }
@compute @workgroup_size(1)
fn main() {
  var ps: array<P, 3>;
  for (var i = 0u; i < 3u; i++) { ps[i] = make(i + inp[0]); }
  let k = inp[1];
  o[0] = ps[k].id; o[1] = bitcast<u32>(ps[k].pos.y); o[2] = ps[2].tags[k];
  ps[k].tags[0] = 55u;
  ps[0] = ps[k];
  o[3] = ps[0].tags[0] + ps[0].tags[1];
  var a = build();
  a[k] = 20u;
  a[3] += 6u;
  o[4] = sum(a);
  let c = array<vec2<u32>, 2>(vec2<u32>(1u, 2u), vec2<u32>(3u, 4u));
  o[5] = c[k].x * 10u + c[0].y;
  var m: array<array<u32, 2>, 2>;
  m[1][k] = 9u; m[0][0] = 1u;
  o[6] = m[1][1] + m[0][0] + m[0][1];
  var z: P;
  o[7] = z.id + z.tags[1] + u32(z.pos.x);
}`,
		bufs: map[string][]byte{"o": make([]byte, 32), "inp": u32s(4, 1)}}
	bufs, res, _ := rc.run(t)
	expectNoTraps(t, res)
	// ps[i] = make(i+4): ps[1] = {pos (5,10), id 105, tags {5,15}}, ps[2].tags = {6,18}
	expectU32(t, "o", bufs["o"], 105, fb(10), 18, 55+15, 1+20+3+10, 30+2, 10, 0)
}

func TestSemStorageArrays(t *testing.T) {
	rc := runCase{wgsl: `
struct Item { v: vec3<f32>, k: u32, w: array<vec2<f32>, 2>, }
@group(0) @binding(0) var<storage, read_write> items: array<Item>;
@group(0) @binding(1) var<storage, read_write> mats: array<mat4x3<f32>, 2>;
@group(0) @binding(2) var<storage, read_write> o: array<u32>;
@compute @workgroup_size(1)
fn main() {
  // Item: v 0, k 12, w 16 (stride 8) -> size 32
  let n = arrayLength(&items);
  o[0] = n;
  items[1].v = vec3<f32>(1.0, 2.0, 3.0);
  items[1].k = 7u;
  items[1].w[1] = vec2<f32>(4.0, 5.0);
  items[0] = items[1];
  items[0].w[0].y = 6.0;
  var it = items[0];
  it.k += 1u;
  items[n - 1u] = it;
  // mat4x3: 4 columns of vec3 at stride 16 -> 64 bytes each
  mats[1] = mat4x3<f32>(vec3<f32>(1.0), vec3<f32>(2.0), vec3<f32>(3.0), vec3<f32>(4.0));
  mats[0][2] = vec3<f32>(7.0, 8.0, 9.0);
  mats[0][3].z = 10.0;
  let r = mats[1] * vec4<f32>(1.0, 1.0, 1.0, 1.0);
  o[1] = bitcast<u32>(r.y);
  o[2] = bitcast<u32>(mats[0][2].y);
}`,
		bufs: map[string][]byte{"items": make([]byte, 96), "mats": make([]byte, 128), "o": make([]byte, 12)}}
	bufs, res, _ := rc.run(t)
	expectNoTraps(t, res)
	expectU32(t, "o", bufs["o"], 3, fb(10), fb(8))
	item0 := []uint32{fb(1), fb(2), fb(3), 7, 0, fb(6), fb(4), fb(5)}
	item1 := []uint32{fb(1), fb(2), fb(3), 7, 0, 0, fb(4), fb(5)}
	item2 := []uint32{fb(1), fb(2), fb(3), 8, 0, fb(6), fb(4), fb(5)}
	expectU32(t, "items", bufs["items"], append(append(item0, item1...), item2...)...)
	m := getU32(bufs["mats"])
	wantM := map[int]uint32{8: fb(7), 9: fb(8), 10: fb(9), 14: fb(10),
		16: fb(1), 17: fb(1), 18: fb(1), 20: fb(2), 21: fb(2), 22: fb(2), 24: fb(3), 25: fb(3), 26: fb(3), 28: fb(4), 29: fb(4), 30: fb(4)}
	for i := 0; i < 32; i++ {
		if i%4 == 3 {
			continue // padding
		}
		if m[i] != wantM[i] {
			t.Errorf("mats word %d = %#x, want %#x", i, m[i], wantM[i])
		}
	}
}

func TestSemDot4AndCompound(t *testing.T) {
	rc := runCase{wgsl: hdrIO + `
@compute @workgroup_size(1)
fn main() {
  o[0] = dot4U8Packed(inp[0], inp[1]);                 // (1,2,3,4).(5,6,7,8) = 70
  o[1] = bitcast<u32>(dot4I8Packed(inp[2], inp[1]));   // (-1,-2,3,4).(5,6,7,8) = -5-12+21+32 = 36
  var x = inp[3];   // 12
  x |= 3u; x &= 0xEu; x ^= 0xFFu;    // 15 -> 14 -> 0xF1
  o[2] = x;
  var y = bitcast<i32>(inp[3]);
  y /= 5; y %= 2; y -= 7;            // 2 -> 0 -> -7
  o[3] = bitcast<u32>(y);
  var v = vec2<f32>(1.0, 2.0);
  v *= 3.0; v += vec2<f32>(1.0, 1.0); v /= vec2<f32>(2.0, 7.0);
  o[4] = bitcast<u32>(v.x); o[5] = bitcast<u32>(v.y);
  var q = vec3<u32>(1u, 2u, 3u);
  q.y += 10u; q[2] *= 2u; q.x -= 2u;
  o[6] = q.x; o[7] = q.y; o[8] = q.z;
}`,
		bufs: map[string][]byte{"o": make([]byte, 36), "inp": u32s(0x04030201, 0x08070605, 0x0403FEFF, 12)}}
	bufs, res, _ := rc.run(t)
	expectNoTraps(t, res)
	expectU32(t, "o", bufs["o"], 70, 36, 0xF1, 0xFFFFFFF9, fb(2), fb(1), 0xFFFFFFFF, 12, 6)
}

func TestSemPrivateArray(t *testing.T) {
	src := `
var<private> pa: array<f32, 2> = array<f32, 2>(1.0, 2.0);
@group(0) @binding(0) var<storage, read_write> o: array<f32>;
@compute @workgroup_size(1)
fn main() { pa[1] = 3.0; o[0] = pa[0] + pa[1]; }`
	txt := compileWGSL(t, src, nil)
	if _, err := Parse(txt); err != nil {
		t.Logf("SUSPECT naga: module-scope private arrays are emitted as `static float[2] pa = ...`; HLSL declarators take the dimension after the name (`static float pa[2]`): %v", err)
		return
	}
	rc := runCase{wgsl: src, bufs: map[string][]byte{"o": make([]byte, 4)}}
	bufs, res, _ := rc.run(t)
	expectNoTraps(t, res)
	expectU32(t, "o", bufs["o"], fb(4))
}
