package mslx

import (
	"encoding/binary"
	"math"
)

// Scalar is one 32-bit (or narrower, sign/zero-extended) component plus a poison flag.
// Floats are stored as their IEEE bits, half as binary16 bits in the low half.
type Scalar struct {
	U uint32
	P bool
}

// Value is an rvalue.
type Value struct {
	T   *Type
	S   []Scalar // scalar / vector / matrix (column-major) components, enum value
	B   []byte   // struct / array bytes in memory layout
	BP  []bool   // poison per byte of B (nil: none)
	Ptr *Ref     // pointer value
}

// region is one object in memory: a buffer, a local variable, a threadgroup
// variable or a module constant.
type region struct {
	name     string
	space    string
	data     []byte
	poison   []bool // nil: bytes are never poison
	isBuffer bool
	readonly bool
	rootT    *Type
}

// Ref designates a typed location.
type Ref struct {
	reg  *region
	off  int
	t    *Type
	flex bool  // array whose bound is decided by the bound buffer's length
	oob  bool  // derived from an out-of-range index: stores are skipped
	swz  []int // swizzled view of the vector of type t at off
}

func newRegion(name, space string, t *Type, poisoned bool) *region {
	n := t.sizeOf()
	r := &region{name: name, space: space, data: make([]byte, n), rootT: t}
	if poisoned {
		r.poison = make([]bool, n)
		for i := range r.poison {
			r.poison[i] = true
		}
	} else {
		r.poison = make([]bool, n)
	}
	return r
}

// ---------------------------------------------------------------------------
// half <-> float

func halfToF32(h uint16) float32 {
	sign := uint32(h>>15) & 1
	exp := uint32(h>>10) & 0x1f
	man := uint32(h) & 0x3ff
	var bits uint32
	switch {
	case exp == 0 && man == 0:
		bits = sign << 31
	case exp == 0:
		// subnormal: normalise
		e := uint32(127 - 15 + 1)
		for man&0x400 == 0 {
			man <<= 1
			e--
		}
		man &= 0x3ff
		bits = sign<<31 | e<<23 | man<<13
	case exp == 0x1f:
		bits = sign<<31 | 0xff<<23 | man<<13
	default:
		bits = sign<<31 | (exp+127-15)<<23 | man<<13
	}
	return math.Float32frombits(bits)
}

// f32ToHalf converts with round-to-nearest-even.
func f32ToHalf(f float32) uint16 {
	b := math.Float32bits(f)
	sign := uint16(b>>16) & 0x8000
	exp := int((b >> 23) & 0xff)
	man := b & 0x7fffff
	if exp == 0xff {
		if man != 0 {
			return sign | 0x7e00
		}
		return sign | 0x7c00
	}
	e := exp - 127 + 15
	if e >= 0x1f {
		return sign | 0x7c00
	}
	if e <= 0 {
		if e < -10 {
			return sign
		}
		man |= 0x800000
		shift := uint(14 - e)
		half := man >> shift
		rem := man & ((1 << shift) - 1)
		mid := uint32(1) << (shift - 1)
		if rem > mid || (rem == mid && half&1 == 1) {
			half++
		}
		return sign | uint16(half)
	}
	half := uint32(e)<<10 | man>>13
	rem := man & 0x1fff
	if rem > 0x1000 || (rem == 0x1000 && half&1 == 1) {
		half++
	}
	return sign | uint16(half)
}

// ---------------------------------------------------------------------------
// scalar encode / decode

func scalarSize(t *Type) int { return t.size }

func decodeScalar(t *Type, b []byte) uint32 {
	switch t.Kind {
	case KBool:
		if b[0] != 0 {
			return 1
		}
		return 0
	case KChar:
		return uint32(int32(int8(b[0])))
	case KUchar:
		return uint32(b[0])
	case KShort:
		return uint32(int32(int16(binary.LittleEndian.Uint16(b))))
	case KUshort, KHalf:
		return uint32(binary.LittleEndian.Uint16(b))
	}
	return binary.LittleEndian.Uint32(b)
}

func encodeScalar(t *Type, b []byte, u uint32) {
	switch t.size {
	case 1:
		if t.Kind == KBool {
			if u != 0 {
				b[0] = 1
			} else {
				b[0] = 0
			}
			return
		}
		b[0] = byte(u)
	case 2:
		binary.LittleEndian.PutUint16(b, uint16(u))
	default:
		binary.LittleEndian.PutUint32(b, u)
	}
}

// leafOffsets returns the byte offset of each numeric component of a scalar /
// vector / matrix type.
func leafOffsets(t *Type) []int {
	switch t.Kind {
	case KVec:
		out := make([]int, t.N)
		for i := range out {
			out[i] = i * t.Elem.size
		}
		return out
	case KMat:
		col := vecOf(t.Elem, t.Rows)
		out := make([]int, 0, t.N*t.Rows)
		for c := 0; c < t.N; c++ {
			for r := 0; r < t.Rows; r++ {
				out = append(out, c*col.size+r*t.Elem.size)
			}
		}
		return out
	}
	return []int{0}
}

func zeroValue(t *Type) Value {
	switch {
	case t.isNumeric() || t.Kind == KEnum:
		return Value{T: t.unpacked(), S: make([]Scalar, t.comps())}
	case t.Kind == KStruct || t.Kind == KArray:
		return Value{T: t, B: make([]byte, t.sizeOf())}
	case t.Kind == KAtomic:
		return Value{T: t.Elem, S: make([]Scalar, 1)}
	}
	return Value{T: t}
}

func scalarValue(t *Type, u uint32) Value { return Value{T: t, S: []Scalar{{U: u}}} }
func boolValue(b bool) Value {
	if b {
		return scalarValue(tBool, 1)
	}
	return scalarValue(tBool, 0)
}

func (v Value) anyPoison() bool {
	for _, s := range v.S {
		if s.P {
			return true
		}
	}
	for _, p := range v.BP {
		if p {
			return true
		}
	}
	return false
}

func f32(s Scalar) float32         { return math.Float32frombits(s.U) }
func fbits(f float32) uint32       { return math.Float32bits(f) }
func mkf(f float32, p bool) Scalar { return Scalar{U: math.Float32bits(f), P: p} }
