package mslx

import (
	"fmt"
	"math"

	"verif/internal/xrt"
)

// syntaxError is text that is not valid MSL at all.
type syntaxError struct{ msg string }

func (e *syntaxError) Error() string { return "syntax error: " + e.msg }

// bail carries an error through panics inside the parser / checker / interpreter.
type bail struct{ err error }

type skippedItem struct {
	Name string
	Why  error
	line int
}

type parser struct {
	toks  []token
	pos   int
	limit int // exclusive end of the current item
	prog  *Program

	tparams map[string]*Type // template parameter bindings while parsing a template / instantiation
	scope   string           // Decl scope being parsed (function / struct name)
	record  bool             // record Decls (false when re-parsing template instantiations)
}

func (p *parser) peek() token { return p.peekN(0) }
func (p *parser) peekN(n int) token {
	i := p.pos + n
	if i >= p.limit || i >= len(p.toks) {
		return token{kind: tkEOF, line: p.toks[len(p.toks)-1].line}
	}
	return p.toks[i]
}
func (p *parser) next() token {
	t := p.peek()
	if t.kind != tkEOF {
		p.pos++
	}
	return t
}
func (p *parser) isP(s string) bool {
	t := p.peek()
	return t.kind == tkPunct && t.s == s
}
func (p *parser) isPN(n int, s string) bool {
	t := p.peekN(n)
	return t.kind == tkPunct && t.s == s
}
func (p *parser) isIdent(s string) bool {
	t := p.peek()
	return t.kind == tkIdent && t.s == s
}
func (p *parser) accept(s string) bool {
	if p.isP(s) {
		p.pos++
		return true
	}
	return false
}
func (p *parser) acceptIdent(s string) bool {
	if p.isIdent(s) {
		p.pos++
		return true
	}
	return false
}
func (p *parser) expect(s string) token {
	t := p.peek()
	if t.kind == tkPunct && t.s == s {
		p.pos++
		return t
	}
	panic(bail{&syntaxError{fmt.Sprintf("line %d: expected %q, found %q", t.line, s, t.String())}})
}
func (p *parser) unsupported(format string, a ...interface{}) {
	panic(bail{unsupportedf("line %d: %s", p.peek().line, fmt.Sprintf(format, a...))})
}

func (p *parser) addDecl(name, kind, scope string, line int) {
	if p.record {
		p.prog.decls = append(p.prog.decls, declRec{Decl{Name: name, Kind: kind, Scope: scope}, line})
	}
}

// ---------------------------------------------------------------------------
// top level

// itemEnd finds the exclusive end of the top-level item starting at start.
func itemEnd(toks []token, start int) (int, error) {
	depth := 0
	sawAssign := false
	first := toks[start]
	isRecord := first.kind == tkIdent && (first.s == "struct" || first.s == "class" || first.s == "union" || first.s == "enum")
	for i := start; i < len(toks); i++ {
		t := toks[i]
		if t.kind == tkEOF {
			break
		}
		if t.kind != tkPunct {
			continue
		}
		switch t.s {
		case "(", "[", "{":
			depth++
		case ")", "]":
			depth--
			if depth < 0 {
				return 0, &syntaxError{fmt.Sprintf("line %d: unbalanced %q", t.line, t.s)}
			}
		case "}":
			depth--
			if depth < 0 {
				return 0, &syntaxError{fmt.Sprintf("line %d: unbalanced %q", t.line, t.s)}
			}
			if depth == 0 && !sawAssign && !isRecord {
				return i + 1, nil // function body
			}
		case "=":
			if depth == 0 {
				sawAssign = true
			}
		case ";":
			if depth == 0 {
				return i + 1, nil
			}
		}
	}
	return 0, &syntaxError{fmt.Sprintf("line %d: unterminated declaration", first.line)}
}

func (p *parser) parseProgram() error {
	for p.pos < len(p.toks) && p.toks[p.pos].kind != tkEOF {
		start := p.pos
		if p.toks[start].kind == tkPunct && p.toks[start].s == ";" {
			p.pos++
			continue
		}
		end, err := itemEnd(p.toks, start)
		if err != nil {
			return err
		}
		p.limit = end
		if err := p.parseItemGuarded(start, end); err != nil {
			return err
		}
		p.pos = end
		p.limit = len(p.toks)
	}
	return nil
}

func (p *parser) parseItemGuarded(start, end int) (rerr error) {
	ndecl := len(p.prog.decls)
	defer func() {
		if r := recover(); r != nil {
			b, ok := r.(bail)
			if !ok {
				panic(r)
			}
			if u, ok := b.err.(*xrt.Unsupported); ok {
				name := itemName(p.toks, start, end)
				// keep the declared names seen so far out of the Decl list: the item is skipped
				p.prog.decls = p.prog.decls[:ndecl]
				p.prog.skipped = append(p.prog.skipped, skippedItem{Name: name, Why: u, line: p.toks[start].line})
				if name != "" {
					p.prog.skippedNames[name] = u
				}
				p.tparams = nil
				p.scope = ""
				return
			}
			rerr = b.err
		}
	}()
	p.pos = start
	p.parseItem(start, end)
	if p.pos != end {
		t := p.peek()
		panic(bail{&syntaxError{fmt.Sprintf("line %d: unexpected %q", t.line, t.String())}})
	}
	return nil
}

// itemName guesses the declared name of a top-level item (for skipped-item bookkeeping).
func itemName(toks []token, start, end int) string {
	if toks[start].kind == tkIdent && (toks[start].s == "struct" || toks[start].s == "class") && start+1 < end && toks[start+1].kind == tkIdent {
		return toks[start+1].s
	}
	depthA := 0
	for i := start; i < end; i++ {
		t := toks[i]
		if t.kind == tkPunct {
			switch t.s {
			case "<":
				depthA++
			case ">":
				if depthA > 0 {
					depthA--
				}
			case "(", "=", ";", "{":
				if depthA == 0 && i > start && toks[i-1].kind == tkIdent {
					return toks[i-1].s
				}
				if t.s != "(" {
					return ""
				}
			case "[":
				if depthA == 0 && i > start && toks[i-1].kind == tkIdent && !(i+1 < end && toks[i+1].kind == tkPunct && toks[i+1].s == "[") {
					return toks[i-1].s
				}
			}
		}
	}
	return ""
}

var stageKeywords = map[string]bool{"kernel": true, "vertex": true, "fragment": true}

func (p *parser) parseItem(start, end int) {
	t := p.peek()
	if t.kind != tkIdent {
		p.unsupported("top-level token %q", t.String())
	}
	switch t.s {
	case "using":
		// using metal::uint; / using namespace metal;
		p.next()
		if p.acceptIdent("namespace") {
			ns := p.next()
			p.prog.usingNS[ns.s] = true
			p.expect(";")
			return
		}
		var parts []string
		p.accept("::")
		for {
			id := p.next()
			if id.kind != tkIdent {
				p.unsupported("using declaration")
			}
			parts = append(parts, id.s)
			if !p.accept("::") {
				break
			}
		}
		if p.isP("=") {
			p.unsupported("alias declaration")
		}
		p.expect(";")
		p.prog.usings = append(p.prog.usings, parts)
		return
	case "typedef":
		p.next()
		base, q := p.parseDeclSpec()
		name, ty, _ := p.parseDeclarator(base, q)
		p.expect(";")
		if ty.Kind == KArray && ty.Alias == "" {
			ty.Alias = name.s
		}
		p.defineType(name.s, ty, name.line, "typedef")
		return
	case "struct", "class":
		p.parseStruct()
		return
	case "template":
		p.parseTemplateFunc(start, end)
		return
	case "namespace", "enum", "union", "extern", "static_assert":
		p.unsupported("top-level %s", t.s)
	}
	// [[attributes]] before a function (e.g. [[early_fragment_tests]])
	for p.isP("[") && p.isPN(1, "[") {
		p.parseAttrs()
	}
	stage := ""
	if tk := p.peek(); tk.kind == tkIdent && stageKeywords[tk.s] {
		stage = tk.s
		p.next()
	} else if p.isP("[") {
		p.unsupported("top-level attribute form")
	}
	base, q := p.parseDeclSpec()
	name, ty, _ := p.parseDeclarator(base, q)
	if p.isP("(") {
		fn := p.parseFuncRest(name, ty, stage, start, end)
		p.prog.addFunc(fn)
		return
	}
	if stage != "" {
		p.unsupported("stage qualifier on a non-function")
	}
	// module-scope variable
	v := &VarDecl{Name: name.s, Ty: ty, Space: q.space, Const: q.isConst || q.space == "constant" || q.constexpr, Kind: vkGlobal, line: name.line}
	if p.accept("=") {
		v.Init = p.parseInitializer()
	} else if p.isP("{") {
		v.Init = p.parseBraceList()
	} else if p.isP("(") {
		p.unsupported("direct-initialised global")
	}
	p.expect(";")
	p.addDecl(v.Name, "global", "", v.line)
	p.prog.globals = append(p.prog.globals, v)
}

func (p *parser) defineType(name string, ty *Type, line int, how string) {
	if old, ok := p.prog.typeNames[name]; ok && p.record {
		_ = old
		p.prog.trap(xrt.TrapRedecl, "line %d: type %q declared twice at module scope", line, name)
	}
	p.prog.typeNames[name] = ty
	p.prog.typeOrder = append(p.prog.typeOrder, name)
	p.addDecl(name, "type", "", line)
}

func (p *parser) parseStruct() {
	kw := p.next() // struct
	name := p.next()
	if name.kind != tkIdent {
		p.unsupported("anonymous %s", kw.s)
	}
	if p.isP(";") {
		p.unsupported("forward declaration of %s", name.s)
	}
	if p.isP(":") {
		p.unsupported("base classes")
	}
	st := &Type{Kind: KStruct, Name: name.s}
	p.expect("{")
	oldScope := p.scope
	p.scope = name.s
	// the struct name is visible inside its own body
	p.defineType(name.s, st, name.line, "struct")
	seen := map[string]bool{}
	for !p.isP("}") {
		if p.peek().kind == tkEOF {
			panic(bail{&syntaxError{fmt.Sprintf("line %d: unterminated struct %s", name.line, name.s)}})
		}
		if p.isIdent("template") {
			st.Conv = p.parseConvOp()
			continue
		}
		if p.isIdent("public") || p.isIdent("private") || p.isIdent("protected") || p.isIdent("operator") || p.isIdent("static") || p.isIdent("friend") || p.isIdent("virtual") || p.isIdent("using") || p.isIdent("typedef") {
			p.unsupported("struct member form %q", p.peek().s)
		}
		base, q := p.parseDeclSpec()
		for {
			fname, fty, _ := p.parseDeclarator(base, q)
			if p.isP("(") {
				p.unsupported("member function %s::%s", name.s, fname.s)
			}
			if p.isP("=") || p.isP("{") {
				p.unsupported("default member initialiser")
			}
			if p.isP(":") {
				p.unsupported("bit-field")
			}
			if fty.Kind == KRef {
				p.unsupported("reference member")
			}
			if seen[fname.s] && p.record {
				p.prog.trap(xrt.TrapRedecl, "line %d: member %q declared twice in struct %s", fname.line, fname.s, name.s)
			}
			seen[fname.s] = true
			st.Fields = append(st.Fields, Field{Name: fname.s, T: fty, Line: fname.line})
			p.addDecl(fname.s, "member", name.s, fname.line)
			if !p.accept(",") {
				break
			}
		}
		p.expect(";")
	}
	p.expect("}")
	p.scope = oldScope
	if !p.isP(";") {
		p.unsupported("declarator after struct definition")
	}
	p.expect(";")
	for _, f := range st.Fields {
		if f.T.Kind == KStruct && f.T == st {
			panic(bail{&syntaxError{fmt.Sprintf("line %d: struct %s contains itself", name.line, name.s)}})
		}
	}
}

// parseConvOp parses `template<typename T> operator T() && { ... }`.
func (p *parser) parseConvOp() *ConvOp {
	p.next() // template
	p.expect("<")
	if !p.acceptIdent("typename") && !p.acceptIdent("class") {
		p.unsupported("template parameter form")
	}
	tp := p.next()
	if tp.kind != tkIdent {
		p.unsupported("template parameter form")
	}
	p.expect(">")
	if !p.acceptIdent("operator") {
		p.unsupported("member template that is not a conversion operator")
	}
	tn := p.next()
	if tn.kind != tkIdent || tn.s != tp.s {
		p.unsupported("conversion operator to a non-parameter type")
	}
	p.expect("(")
	p.expect(")")
	for p.acceptIdent("const") || p.accept("&&") || p.accept("&") {
	}
	if !p.isP("{") {
		p.unsupported("conversion operator without body")
	}
	start := p.pos
	depth := 0
	for {
		t := p.next()
		if t.kind == tkEOF {
			panic(bail{&syntaxError{"unterminated conversion operator body"}})
		}
		if t.kind == tkPunct && t.s == "{" {
			depth++
		}
		if t.kind == tkPunct && t.s == "}" {
			depth--
			if depth == 0 {
				break
			}
		}
	}
	return &ConvOp{TParam: tp.s, start: start, end: p.pos, instKey: map[string]*FuncDecl{}}
}

func (p *parser) parseTemplateFunc(start, end int) {
	p.next() // template
	p.expect("<")
	var tps []string
	for {
		if !p.acceptIdent("typename") && !p.acceptIdent("class") {
			p.unsupported("non-type template parameter")
		}
		id := p.next()
		if id.kind != tkIdent {
			p.unsupported("template parameter form")
		}
		tps = append(tps, id.s)
		if !p.accept(",") {
			break
		}
	}
	p.expect(">")
	if p.isIdent("struct") || p.isIdent("class") || p.isIdent("using") {
		p.unsupported("class / alias template")
	}
	p.tparams = map[string]*Type{}
	for _, n := range tps {
		p.tparams[n] = &Type{Kind: KTParam, Name: n}
	}
	defer func() { p.tparams = nil }()
	hdr := p.pos
	base, q := p.parseDeclSpec()
	name, ty, _ := p.parseDeclarator(base, q)
	if !p.isP("(") {
		p.unsupported("variable template")
	}
	fn := p.parseFuncRest(name, ty, "", hdr, end)
	fn.TParams = tps
	p.prog.addFunc(fn)
}

// parseFuncRest parses `(params) [attrs] { body }` after the declarator name.
func (p *parser) parseFuncRest(name token, ret *Type, stage string, start, end int) *FuncDecl {
	fn := &FuncDecl{Name: name.s, Stage: stage, Ret: ret, line: name.line, start: start, end: end}
	kind := "function"
	if stage == "kernel" {
		kind = "entry"
	}
	p.addDecl(name.s, kind, "", name.line)
	oldScope := p.scope
	p.scope = name.s
	defer func() { p.scope = oldScope }()
	p.expect("(")
	if p.isIdent("void") && p.isPN(1, ")") {
		p.next()
	}
	for !p.isP(")") {
		base, q := p.parseDeclSpec()
		pname, pty, attrs := p.parseDeclaratorOpt(base, q, true)
		v := &VarDecl{Name: pname.s, Ty: pty, Space: q.space, Const: q.isConst, Kind: vkParam, Attrs: attrs, line: pname.line, owner: name.s}
		if p.isP("=") {
			p.unsupported("default argument")
		}
		if pname.s != "" {
			p.addDecl(pname.s, "param", name.s, pname.line)
		}
		fn.Params = append(fn.Params, v)
		if !p.accept(",") {
			break
		}
	}
	p.expect(")")
	for p.isP("[") && p.isPN(1, "[") {
		p.parseAttrs()
	}
	if p.isP(";") {
		p.unsupported("function declaration without body")
	}
	if !p.isP("{") {
		p.unsupported("function declarator suffix %q", p.peek().String())
	}
	fn.Body = p.parseBlock()
	return fn
}

// ---------------------------------------------------------------------------
// declaration specifiers and declarators

type quals struct {
	space     string
	isConst   bool
	constexpr bool
	static    bool
}

var qualifierWords = map[string]bool{
	"const": true, "volatile": true, "constexpr": true, "static": true, "inline": true,
	"device": true, "constant": true, "thread": true, "threadgroup": true,
	"threadgroup_imageblock": true, "ray_data": true, "object_data": true, "restrict": true, "__restrict": true,
}

func (p *parser) parseQualifier(q *quals) bool {
	t := p.peek()
	if t.kind != tkIdent || !qualifierWords[t.s] {
		return false
	}
	switch t.s {
	case "const":
		q.isConst = true
	case "constexpr":
		q.constexpr = true
		q.isConst = true
	case "static":
		q.static = true
	case "volatile", "inline", "restrict", "__restrict":
	case "device", "constant", "thread", "threadgroup":
		q.space = t.s
	default:
		p.unsupported("address space %s", t.s)
	}
	p.pos++
	return true
}

// startsType reports whether the tokens at the cursor begin a type-specifier.
func (p *parser) startsType() bool {
	t := p.peek()
	if t.kind == tkPunct && t.s == "::" {
		return p.peekN(1).kind == tkIdent && p.lookupTypeAt(1) != nil
	}
	if t.kind != tkIdent {
		return false
	}
	if qualifierWords[t.s] {
		return true
	}
	switch t.s {
	case "unsigned", "signed", "struct", "typename", "auto", "decltype":
		return true
	}
	return p.lookupTypeAt(0) != nil
}

// lookupTypeAt resolves a (possibly qualified) type name starting n tokens ahead,
// without consuming. It returns nil if the name is not a type.
func (p *parser) lookupTypeAt(n int) *Type {
	ty, _ := p.scanTypeName(p.pos + n)
	return ty
}

// scanTypeName recognises [::] (ns ::)* name at absolute token index i and
// returns the type and the index after the name.
func (p *parser) scanTypeName(i int) (*Type, int) {
	at := func(k int) token {
		if k >= p.limit || k >= len(p.toks) {
			return token{kind: tkEOF}
		}
		return p.toks[k]
	}
	if t := at(i); t.kind == tkPunct && t.s == "::" {
		i++
	}
	t := at(i)
	if t.kind != tkIdent {
		return nil, i
	}
	// qualified?
	if n := at(i + 1); n.kind == tkPunct && n.s == "::" {
		var quals []string
		for at(i).kind == tkIdent && at(i+1).kind == tkPunct && at(i+1).s == "::" {
			quals = append(quals, at(i).s)
			i += 2
		}
		last := at(i)
		if last.kind != tkIdent {
			return nil, i
		}
		if quals[0] != "metal" && quals[0] != "simd" {
			return nil, i
		}
		if len(quals) == 1 {
			if ty, ok := builtinTypeNames[last.s]; ok {
				return ty, i + 1
			}
			return nil, i
		}
		// nested namespaces: metal::raytracing::X is a type when X names one; enum
		// scopes (metal::mem_flags::mem_device, metal::access::read) are values.
		switch quals[1] {
		case "raytracing":
			if len(quals) == 2 {
				return unsupportedType("metal::raytracing::"+last.s, "ray tracing"), i + 1
			}
		}
		return nil, i
	}
	if ty, ok := p.tparams[t.s]; ok {
		return ty, i + 1
	}
	if ty, ok := p.prog.typeNames[t.s]; ok {
		return ty, i + 1
	}
	if ty, ok := builtinTypeNames[t.s]; ok {
		// `uint` needs `using metal::uint;`: it is a plain identifier otherwise, but then
		// the text would not compile anyway; accept.
		return ty, i + 1
	}
	return nil, i
}

// parseDeclSpec parses qualifiers and a type name.
func (p *parser) parseDeclSpec() (*Type, quals) {
	var q quals
	for p.parseQualifier(&q) {
	}
	var ty *Type
	t := p.peek()
	if t.kind == tkIdent && (t.s == "auto" || t.s == "decltype") {
		p.unsupported("%s type specifier", t.s)
	}
	if t.kind == tkIdent && (t.s == "unsigned" || t.s == "signed" || t.s == "long" || t.s == "short") && p.prog.typeNames[t.s] == nil {
		ty = p.parseCIntType()
	} else {
		if p.acceptIdent("struct") || p.acceptIdent("typename") {
		}
		var end int
		ty, end = p.scanTypeName(p.pos)
		if ty == nil {
			p.unsupported("unknown type name %q", p.peek().String())
		}
		p.pos = end
		if p.isP("<") {
			if ty.Kind != KUnsupported {
				p.unsupported("template arguments on %s", ty.Name)
			}
			p.skipAngles()
		}
	}
	for {
		// trailing qualifiers: `T const`, `T device`; but a qualifier word directly
		// followed by a declarator terminator is the declared NAME (reserved-word monitor).
		t := p.peek()
		if t.kind == tkIdent && qualifierWords[t.s] {
			n := p.peekN(1)
			if n.kind == tkPunct && (n.s == "(" || n.s == "=" || n.s == ";" || n.s == "," || n.s == ")" || n.s == "[" || n.s == "{") {
				break
			}
			p.parseQualifier(&q)
			continue
		}
		break
	}
	return ty, q
}

func (p *parser) parseCIntType() *Type {
	unsigned, long, short, char := false, 0, false, false
	seen := false
	for {
		t := p.peek()
		if t.kind != tkIdent {
			break
		}
		switch t.s {
		case "unsigned":
			unsigned = true
		case "signed":
		case "long":
			long++
		case "short":
			short = true
		case "int":
		case "char":
			char = true
		default:
			goto done
		}
		seen = true
		p.pos++
	}
done:
	if !seen {
		p.unsupported("type")
	}
	switch {
	case long > 0:
		return builtinTypeNames["long"]
	case short && unsigned:
		return tUshort
	case short:
		return tShort
	case char && unsigned:
		return tUchar
	case char:
		return tChar
	case unsigned:
		return tUint
	}
	return tInt
}

func (p *parser) skipAngles() {
	p.expect("<")
	depth := 1
	for depth > 0 {
		t := p.next()
		if t.kind == tkEOF {
			panic(bail{&syntaxError{"unterminated template argument list"}})
		}
		if t.kind == tkPunct {
			switch t.s {
			case "<":
				depth++
			case ">":
				depth--
			case ">>":
				depth -= 2
			case ";", "{", "}":
				panic(bail{&syntaxError{fmt.Sprintf("line %d: unterminated template argument list", t.line)}})
			}
		}
	}
}

func (p *parser) parseAttrs() []attr {
	var out []attr
	p.expect("[")
	p.expect("[")
	for !p.isP("]") {
		id := p.next()
		if id.kind != tkIdent {
			p.unsupported("attribute form")
		}
		a := attr{Name: id.s}
		for p.accept("::") {
			id2 := p.next()
			a.Name += "::" + id2.s
		}
		if p.accept("(") {
			depth := 1
			for depth > 0 {
				t := p.next()
				if t.kind == tkEOF {
					panic(bail{&syntaxError{"unterminated attribute"}})
				}
				if t.kind == tkPunct && t.s == "(" {
					depth++
				}
				if t.kind == tkPunct && t.s == ")" {
					depth--
					if depth == 0 {
						break
					}
				}
				a.Args = append(a.Args, t)
			}
		}
		out = append(out, a)
		if !p.accept(",") && p.peek().kind != tkIdent {
			break
		}
	}
	p.expect("]")
	p.expect("]")
	return out
}

func (p *parser) parseDeclarator(base *Type, q quals) (token, *Type, []attr) {
	return p.parseDeclaratorOpt(base, q, false)
}

// parseDeclaratorOpt parses pointer/reference operators, the declared name, array
// bounds and trailing attributes. With allowAbstract the name may be missing.
func (p *parser) parseDeclaratorOpt(base *Type, q quals, allowAbstract bool) (token, *Type, []attr) {
	ty := base
	space := q.space
	if space == "" {
		space = "thread"
	}
	isConst := q.isConst
	for {
		if p.accept("*") {
			ty = ptrTo(space, ty, isConst)
			isConst = false
			space = "thread"
			for p.acceptIdent("const") || p.acceptIdent("volatile") || p.acceptIdent("restrict") || p.acceptIdent("__restrict") {
			}
			continue
		}
		if p.isP("&") || p.isP("&&") {
			rr := p.next().s == "&&"
			ty = refTo(space, ty, isConst)
			ty.RRef = rr
			continue
		}
		break
	}
	if p.isP("(") {
		p.unsupported("parenthesised declarator")
	}
	name := p.peek()
	if name.kind == tkIdent {
		p.pos++
	} else if allowAbstract {
		name = token{kind: tkIdent, s: "", line: name.line}
	} else {
		p.unsupported("declarator %q", name.String())
	}
	if p.isP("::") {
		p.unsupported("qualified declarator")
	}
	var dims []int
	for p.isP("[") && !p.isPN(1, "[") {
		p.next()
		if p.isP("]") {
			p.unsupported("array of unknown bound")
		}
		e := p.parseCondExpr()
		p.expect("]")
		n, ok := p.constInt(e)
		if !ok {
			p.unsupported("array bound is not a simple constant")
		}
		if n < 0 || n > 1<<26 {
			panic(bail{&syntaxError{fmt.Sprintf("line %d: invalid array bound %d", name.line, n)}})
		}
		if n == 0 {
			p.unsupported("zero-length array")
		}
		dims = append(dims, int(n))
	}
	if len(dims) > 0 {
		if ty.Kind == KRef {
			p.unsupported("array of references")
		}
		for i := len(dims) - 1; i >= 0; i-- {
			ty = arrayOf(ty, dims[i])
		}
	}
	var attrs []attr
	for p.isP("[") && p.isPN(1, "[") {
		attrs = append(attrs, p.parseAttrs()...)
	}
	return name, ty, attrs
}

// constInt evaluates a small integer constant expression (array bounds, case labels are
// handled by the checker instead).
func (p *parser) constInt(e Expr) (int64, bool) {
	switch x := e.(type) {
	case *LitExpr:
		switch x.T.Kind {
		case KInt:
			return int64(int32(x.Bits)), true
		case KUint:
			return int64(x.Bits), true
		}
	case *IdentExpr:
		if len(x.Qual) == 0 {
			for _, g := range p.prog.globals {
				if g.Name == x.Name && g.Init != nil && g.Ty.isInteger() {
					return p.constInt(g.Init)
				}
			}
		}
	case *BinaryExpr:
		a, ok1 := p.constInt(x.L)
		b, ok2 := p.constInt(x.R)
		if ok1 && ok2 {
			switch x.Op {
			case "+":
				return a + b, true
			case "-":
				return a - b, true
			case "*":
				return a * b, true
			case "/":
				if b != 0 {
					return a / b, true
				}
			}
		}
	case *CastExpr:
		return p.constInt(x.X)
	case *ConstructExpr:
		if len(x.Args) == 1 && x.Ty.isInteger() {
			return p.constInt(x.Args[0])
		}
	}
	return 0, false
}

// ---------------------------------------------------------------------------
// statements

func (p *parser) parseBlock() *BlockStmt {
	lb := p.expect("{")
	b := &BlockStmt{stmtBase: stmtBase{lb.line}}
	for !p.isP("}") {
		if p.peek().kind == tkEOF {
			panic(bail{&syntaxError{fmt.Sprintf("line %d: unterminated block", lb.line)}})
		}
		b.List = append(b.List, p.parseStmt())
	}
	p.expect("}")
	return b
}

// isDeclStart decides between a declaration and an expression statement.
func (p *parser) isDeclStart() bool {
	if !p.startsType() {
		return false
	}
	for k := 0; ; k++ {
		t := p.peekN(k)
		if t.kind == tkIdent && (t.s == "auto" || t.s == "decltype") {
			p.unsupported("%s type specifier", t.s)
		}
		if !(t.kind == tkIdent && qualifierWords[t.s]) {
			break
		}
	}
	save := p.pos
	ok := false
	func() {
		defer func() {
			if r := recover(); r != nil {
				if _, isBail := r.(bail); !isBail {
					panic(r)
				}
			}
		}()
		p.parseDeclSpec()
		for p.isP("*") || p.isP("&") || p.isP("&&") {
			p.pos++
			for p.isIdent("const") {
				p.pos++
			}
		}
		t := p.peek()
		if t.kind == tkIdent {
			n := p.peekN(1)
			if n.kind == tkPunct && (n.s == "=" || n.s == ";" || n.s == "," || n.s == "[" || n.s == "{" || n.s == "(" || n.s == ")" || n.s == ":") {
				ok = true
			}
		}
	}()
	p.pos = save
	return ok
}

func (p *parser) parseStmt() Stmt {
	t := p.peek()
	sb := stmtBase{t.line}
	if t.kind == tkPunct {
		switch t.s {
		case "{":
			return p.parseBlock()
		case ";":
			p.next()
			return &EmptyStmt{sb}
		}
	}
	if t.kind == tkIdent && !p.isPN(1, "::") {
		switch t.s {
		case "if":
			p.next()
			if p.isIdent("constexpr") {
				p.unsupported("if constexpr")
			}
			p.expect("(")
			if p.isDeclStart() {
				p.unsupported("declaration in condition")
			}
			c := p.parseExpr()
			p.expect(")")
			s := &IfStmt{stmtBase: sb, Cond: c}
			s.Then = p.parseStmt()
			if p.acceptIdent("else") {
				s.Else = p.parseStmt()
			}
			return s
		case "while":
			p.next()
			p.expect("(")
			c := p.parseExpr()
			p.expect(")")
			return &WhileStmt{sb, c, p.parseStmt()}
		case "do":
			p.next()
			body := p.parseStmt()
			if !p.acceptIdent("while") {
				panic(bail{&syntaxError{fmt.Sprintf("line %d: expected while after do body", p.peek().line)}})
			}
			p.expect("(")
			c := p.parseExpr()
			p.expect(")")
			p.expect(";")
			return &DoStmt{sb, body, c}
		case "for":
			p.next()
			p.expect("(")
			s := &ForStmt{stmtBase: sb}
			if !p.accept(";") {
				if p.isDeclStart() {
					s.Init = p.parseDeclStmt()
				} else {
					e := p.parseExpr()
					p.expect(";")
					s.Init = &ExprStmt{sb, e}
				}
			}
			if !p.isP(";") {
				s.Cond = p.parseExpr()
			}
			p.expect(";")
			if !p.isP(")") {
				s.Post = p.parseExpr()
			}
			p.expect(")")
			s.Body = p.parseStmt()
			return s
		case "switch":
			p.next()
			p.expect("(")
			tag := p.parseExpr()
			p.expect(")")
			s := &SwitchStmt{stmtBase: sb, Tag: tag}
			p.expect("{")
			for !p.isP("}") {
				if p.peek().kind == tkEOF {
					panic(bail{&syntaxError{"unterminated switch"}})
				}
				if p.isIdent("case") {
					ct := p.next()
					v := p.parseCondExpr()
					p.expect(":")
					s.Body = append(s.Body, &CaseLabel{stmtBase: stmtBase{ct.line}, Val: v})
					continue
				}
				if p.isIdent("default") && p.isPN(1, ":") {
					ct := p.next()
					p.next()
					s.Body = append(s.Body, &CaseLabel{stmtBase: stmtBase{ct.line}, Default: true})
					continue
				}
				s.Body = append(s.Body, p.parseStmt())
			}
			p.expect("}")
			return s
		case "case", "default":
			p.unsupported("case label nested inside a statement of the switch body")
		case "break":
			p.next()
			p.expect(";")
			return &BreakStmt{sb}
		case "continue":
			p.next()
			p.expect(";")
			return &ContinueStmt{sb}
		case "return":
			p.next()
			s := &ReturnStmt{stmtBase: sb}
			if !p.isP(";") {
				if p.isP("{") {
					s.X = p.parseBraceList()
				} else {
					s.X = p.parseExpr()
				}
			}
			p.expect(";")
			return s
		case "goto", "try", "throw", "asm", "static_assert", "using", "typedef", "struct", "class", "enum", "union", "template":
			p.unsupported("%s statement", t.s)
		}
	}
	if p.isDeclStart() {
		return p.parseDeclStmt()
	}
	e := p.parseExpr()
	p.expect(";")
	return &ExprStmt{sb, e}
}

func (p *parser) parseDeclStmt() Stmt {
	line := p.peek().line
	base, q := p.parseDeclSpec()
	ds := &DeclStmt{stmtBase: stmtBase{line}}
	for {
		name, ty, _ := p.parseDeclarator(base, q)
		v := &VarDecl{Name: name.s, Ty: ty, Space: q.space, Const: q.isConst, Kind: vkLocal, line: name.line, owner: p.scope}
		if v.Space == "" {
			v.Space = "thread"
		}
		if q.static {
			p.unsupported("static local")
		}
		if p.accept("=") {
			v.Init = p.parseInitializer()
		} else if p.isP("{") {
			v.Init = p.parseBraceList()
		} else if p.isP("(") {
			// direct initialisation T x(args)
			lp := p.next()
			c := &ConstructExpr{exprBase: exprBase{line: lp.line}, Ty: ty}
			for !p.isP(")") {
				c.Args = append(c.Args, p.parseAssignExpr())
				if !p.accept(",") {
					break
				}
			}
			p.expect(")")
			v.Init = c
		}
		p.addDecl(v.Name, "local", p.scope, v.line)
		ds.Vars = append(ds.Vars, v)
		if !p.accept(",") {
			break
		}
	}
	p.expect(";")
	return ds
}

func (p *parser) parseInitializer() Expr {
	if p.isP("{") {
		return p.parseBraceList()
	}
	return p.parseAssignExpr()
}

func (p *parser) parseBraceList() *InitListExpr {
	lb := p.expect("{")
	il := &InitListExpr{exprBase: exprBase{line: lb.line}}
	for !p.isP("}") {
		if p.isP(".") {
			p.unsupported("designated initialiser")
		}
		il.Elems = append(il.Elems, p.parseInitializer())
		if !p.accept(",") {
			break
		}
	}
	p.expect("}")
	return il
}

// ---------------------------------------------------------------------------
// expressions

func (p *parser) parseExpr() Expr {
	e := p.parseAssignExpr()
	if p.isP(",") {
		p.unsupported("comma operator")
	}
	return e
}

var assignOps = map[string]bool{"=": true, "+=": true, "-=": true, "*=": true, "/=": true, "%=": true, "&=": true, "|=": true, "^=": true, "<<=": true, ">>=": true}

func (p *parser) parseAssignExpr() Expr {
	l := p.parseCondExpr()
	t := p.peek()
	if t.kind == tkPunct && assignOps[t.s] {
		p.next()
		var r Expr
		if p.isP("{") {
			r = p.parseBraceList()
		} else {
			r = p.parseAssignExpr()
		}
		return &AssignExpr{exprBase: exprBase{line: t.line}, Op: t.s, L: l, R: r}
	}
	return l
}

func (p *parser) parseCondExpr() Expr {
	c := p.parseBinary(0)
	if p.isP("?") {
		q := p.next()
		a := p.parseExpr()
		p.expect(":")
		b := p.parseAssignExpr()
		return &CondExpr{exprBase: exprBase{line: q.line}, C: c, A: a, B: b}
	}
	return c
}

var binPrec = map[string]int{
	"||": 1, "&&": 2, "|": 3, "^": 4, "&": 5, "==": 6, "!=": 6,
	"<": 7, ">": 7, "<=": 7, ">=": 7, "<<": 8, ">>": 8, "+": 9, "-": 9, "*": 10, "/": 10, "%": 10,
}

func (p *parser) parseBinary(minPrec int) Expr {
	l := p.parseUnary()
	for {
		t := p.peek()
		if t.kind != tkPunct {
			return l
		}
		pr, ok := binPrec[t.s]
		if !ok || pr <= minPrec {
			return l
		}
		p.next()
		r := p.parseBinary(pr)
		l = &BinaryExpr{exprBase: exprBase{line: t.line}, Op: t.s, L: l, R: r}
	}
}

func (p *parser) parseUnary() Expr {
	t := p.peek()
	if t.kind == tkPunct {
		switch t.s {
		case "+", "-", "!", "~", "*", "&", "++", "--":
			p.next()
			x := p.parseUnary()
			return &UnaryExpr{exprBase: exprBase{line: t.line}, Op: t.s, X: x}
		case "(":
			// C-style cast?
			save := p.pos
			p.next()
			if p.startsType() {
				if ty, ok := p.tryTypeID(); ok && p.isP(")") {
					p.next()
					// `(T)` followed by something that can start a unary expression
					n := p.peek()
					if n.kind == tkIdent || n.kind == tkInt || n.kind == tkFloat || (n.kind == tkPunct && (n.s == "(" || n.s == "-" || n.s == "+" || n.s == "!" || n.s == "~" || n.s == "*" || n.s == "&")) {
						x := p.parseUnary()
						return &CastExpr{exprBase: exprBase{line: t.line}, How: "cstyle", Ty: ty, X: x}
					}
				}
			}
			p.pos = save
		}
	}
	if t.kind == tkIdent && (t.s == "sizeof" || t.s == "alignof" || t.s == "new" || t.s == "delete" || t.s == "throw" || t.s == "noexcept" || t.s == "typeid" || t.s == "co_await") {
		p.unsupported("%s expression", t.s)
	}
	return p.parsePostfix()
}

// tryTypeID parses a type-id (decl-spec plus abstract pointer declarator); restores
// nothing on failure (callers save the position).
func (p *parser) tryTypeID() (ty *Type, ok bool) {
	defer func() {
		if r := recover(); r != nil {
			if _, isBail := r.(bail); !isBail {
				panic(r)
			}
			ty, ok = nil, false
		}
	}()
	base, q := p.parseDeclSpec()
	name, t, _ := p.parseDeclaratorOpt(base, q, true)
	if name.s != "" {
		return nil, false
	}
	return t, true
}

func (p *parser) parseTypeIDInAngles() *Type {
	p.expect("<")
	base, q := p.parseDeclSpec()
	name, ty, _ := p.parseDeclaratorOpt(base, q, true)
	if name.s != "" {
		panic(bail{&syntaxError{fmt.Sprintf("line %d: unexpected %q in type-id", name.line, name.s)}})
	}
	p.expect(">")
	return ty
}

func (p *parser) parsePostfix() Expr {
	e := p.parsePrimary()
	for {
		t := p.peek()
		if t.kind != tkPunct {
			return e
		}
		switch t.s {
		case "[":
			if p.isPN(1, "[") {
				return e
			}
			p.next()
			i := p.parseExpr()
			p.expect("]")
			e = &IndexExpr{exprBase: exprBase{line: t.line}, X: e, I: i}
		case ".", "->":
			p.next()
			if p.isIdent("template") || p.isIdent("operator") || p.isP("~") {
				p.unsupported("member form")
			}
			id := p.next()
			if id.kind != tkIdent {
				panic(bail{&syntaxError{fmt.Sprintf("line %d: expected member name after %q", t.line, t.s)}})
			}
			if p.isP("(") {
				p.unsupported("member function call .%s()", id.s)
			}
			e = &MemberExpr{exprBase: exprBase{line: t.line}, X: e, Name: id.s, Arrow: t.s == "->"}
		case "++", "--":
			p.next()
			e = &PostfixExpr{exprBase: exprBase{line: t.line}, Op: t.s, X: e}
		case "(":
			p.unsupported("call through an expression")
		default:
			return e
		}
	}
}

func (p *parser) parseArgs() []Expr {
	p.expect("(")
	var args []Expr
	for !p.isP(")") {
		if p.isP("{") {
			args = append(args, p.parseBraceList())
		} else {
			args = append(args, p.parseAssignExpr())
		}
		if !p.accept(",") {
			break
		}
	}
	p.expect(")")
	return args
}

func (p *parser) parsePrimary() Expr {
	t := p.peek()
	eb := exprBase{line: t.line}
	switch t.kind {
	case tkInt:
		p.next()
		return p.intLit(t)
	case tkFloat:
		p.next()
		if t.isHalf {
			return &LitExpr{exprBase: exprBase{line: t.line, T: tHalf}, Bits: uint32(f32ToHalf(float32(t.fval))), text: t.s}
		}
		return &LitExpr{exprBase: exprBase{line: t.line, T: tFloat}, Bits: math.Float32bits(float32(t.fval)), text: t.s}
	case tkPunct:
		if t.s == "(" {
			p.next()
			e := p.parseExpr()
			p.expect(")")
			return e
		}
		if t.s == "[" {
			p.unsupported("lambda / attribute in expression")
		}
		if t.s == "{" {
			p.unsupported("braced list in expression position")
		}
		if t.s == "::" {
			break
		}
		panic(bail{&syntaxError{fmt.Sprintf("line %d: unexpected %q in expression", t.line, t.s)}})
	case tkEOF:
		panic(bail{&syntaxError{fmt.Sprintf("line %d: unexpected end of declaration in expression", t.line)}})
	}
	if t.kind == tkIdent {
		switch t.s {
		case "true", "false":
			p.next()
			v := uint32(0)
			if t.s == "true" {
				v = 1
			}
			return &LitExpr{exprBase: exprBase{line: t.line, T: tBool}, Bits: v, text: t.s}
		case "static_cast", "as_type", "reinterpret_cast", "const_cast", "dynamic_cast":
			if p.isPN(1, "<") {
				p.next()
				if t.s != "static_cast" && t.s != "as_type" {
					p.unsupported("%s", t.s)
				}
				ty := p.parseTypeIDInAngles()
				p.expect("(")
				x := p.parseExpr()
				p.expect(")")
				how := "static"
				if t.s == "as_type" {
					how = "as_type"
				}
				return &CastExpr{exprBase: eb, How: how, Ty: ty, X: x}
			}
		case "nullptr", "this":
			p.unsupported("%s", t.s)
		}
	}
	// type-led expression: T(args) / T{args}
	if p.startsType() && !(t.kind == tkIdent && qualifierWords[t.s]) {
		save := p.pos
		base, q := p.parseDeclSpec()
		_ = q
		if p.isP("(") {
			args := p.parseArgs()
			return &ConstructExpr{exprBase: eb, Ty: base, Args: args}
		}
		if p.isP("{") {
			il := p.parseBraceList()
			return &ConstructExpr{exprBase: eb, Ty: base, Args: il.Elems, Brace: true}
		}
		p.pos = save
		p.unsupported("type name %q used in an expression", t.String())
	}
	// (qualified) identifier or call
	var quals []string
	p.accept("::")
	id := p.next()
	if id.kind != tkIdent {
		panic(bail{&syntaxError{fmt.Sprintf("line %d: unexpected %q in expression", id.line, id.String())}})
	}
	for p.isP("::") {
		p.next()
		quals = append(quals, id.s)
		id = p.next()
		if id.kind != tkIdent {
			panic(bail{&syntaxError{fmt.Sprintf("line %d: expected identifier after ::", id.line)}})
		}
	}
	if p.isP("(") {
		args := p.parseArgs()
		return &CallExpr{exprBase: eb, Qual: quals, Name: id.s, Args: args}
	}
	if p.isP("<") && len(quals) > 0 {
		// metal::something<...> that is not a known type
		p.unsupported("template-id %s", id.s)
	}
	return &IdentExpr{exprBase: eb, Qual: quals, Name: id.s}
}

func (p *parser) intLit(t token) Expr {
	if t.long {
		p.unsupported("64-bit integer literal %s", t.s)
	}
	v := t.ival
	switch {
	case t.unsigned:
		if v > math.MaxUint32 {
			p.unsupported("64-bit integer literal %s", t.s)
		}
		return &LitExpr{exprBase: exprBase{line: t.line, T: tUint}, Bits: uint32(v), text: t.s}
	case v <= math.MaxInt32:
		return &LitExpr{exprBase: exprBase{line: t.line, T: tInt}, Bits: uint32(v), text: t.s}
	case t.hexoct && v <= math.MaxUint32:
		// C++: a hex/octal literal that does not fit int has type unsigned int
		return &LitExpr{exprBase: exprBase{line: t.line, T: tUint}, Bits: uint32(v), text: t.s}
	}
	p.unsupported("integer literal %s has a 64-bit type", t.s)
	return nil
}
