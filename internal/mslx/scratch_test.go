package mslx

import (
	"encoding/binary"
	"fmt"
	"math/rand"
	"os"
	"path/filepath"
	"sort"
	"strings"
	"testing"

	"github.com/gogpu/naga"
	"github.com/gogpu/naga/msl"

	"verif/internal/xrt"
)

func TestScratchCorpusRun(t *testing.T) {
	if os.Getenv("MSLX_SCRATCH") == "" {
		t.Skip()
	}
	files, _ := filepath.Glob("/repo/snapshot/testdata/in/*.wgsl")
	sort.Strings(files)
	rng := rand.New(rand.NewSource(1))
	for _, f := range files {
		name := filepath.Base(f)
		b, _ := os.ReadFile(f)
		src := string(b)
		var txt string
		var gnames []string
		func() {
			defer func() { recover() }()
			ast, err := naga.Parse(src)
			if err != nil {
				return
			}
			m, err := naga.LowerWithSource(ast, src)
			if err != nil {
				return
			}
			tx, _, err := msl.Compile(m, msl.DefaultOptions())
			if err != nil {
				return
			}
			txt = tx
			for _, g := range m.GlobalVariables {
				gnames = append(gnames, g.Name)
			}
		}()
		if txt == "" {
			continue
		}
		p, err := Parse(txt)
		if err != nil {
			continue
		}
		for _, e := range p.Entries() {
			if p.EntryUnsupported(e.Name) != nil || len(p.StaticTraps()) > 0 {
				continue
			}
			for mode := 0; mode < 2; mode++ {
				bufs := xrt.Buffers{}
				byName := map[string]xrt.Slot{}
				var sizes *Resource
				for _, r := range p.EntryResources(e.Name) {
					r := r
					if r.TypeName == "_mslBufferSizes" {
						sizes = &r
						continue
					}
					d := make([]byte, 1024)
					if mode == 1 {
						for i := 0; i+4 <= len(d); i += 4 {
							var v uint32
							switch rng.Intn(4) {
							case 0:
								v = uint32(rng.Intn(8))
							case 1:
								v = rng.Uint32()
							case 2:
								v = 0x3f800000 + uint32(rng.Intn(1<<23))
							case 3:
								v = uint32(int32(-rng.Intn(100)))
							}
							binary.LittleEndian.PutUint32(d[i:], v)
						}
					}
					bufs[r.Slot] = d
					byName[strings.TrimSuffix(r.Name, "_")] = r.Slot
					byName[r.Name] = r.Slot
				}
				if sizes != nil {
					sb := make([]byte, 256)
					for _, l := range p.BufferSizesLayout("_mslBufferSizes") {
						if l.Index < len(gnames) {
							if s, ok := byName[gnames[l.Index]]; ok {
								binary.LittleEndian.PutUint32(sb[l.Offset:], uint32(len(bufs[s])))
							}
						}
					}
					bufs[sizes.Slot] = sb
				}
				p.SetLocalSize(e.Name, [3]uint32{2, 1, 1})
				res, err := p.Run(e.Name, bufs, xrt.Options{TrapMode: true, MaxSteps: 300000})
				if err != nil {
					fmt.Printf("%-40s %-20s mode%d ERR %v\n", name, e.Name, mode, err)
					continue
				}
				for _, tr := range res.Traps {
					fmt.Printf("%-40s %-20s mode%d TRAP %v\n", name, e.Name, mode, tr)
				}
			}
		}
	}
}
