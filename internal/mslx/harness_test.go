package mslx

import (
	"encoding/binary"
	"fmt"
	"math"
	"strings"
	"testing"

	"github.com/gogpu/naga"
	"github.com/gogpu/naga/ir"
	"github.com/gogpu/naga/msl"

	"verif/internal/xrt"
)

// compileWGSL runs naga's MSL backend with its default options (test input
// production only; the engine itself never looks at naga).
func compileWGSL(t testing.TB, src string) (string, *ir.Module) {
	t.Helper()
	ast, err := naga.Parse(src)
	if err != nil {
		t.Fatalf("wgsl parse: %v", err)
	}
	m, err := naga.LowerWithSource(ast, src)
	if err != nil {
		t.Fatalf("wgsl lower: %v", err)
	}
	txt, _, err := msl.Compile(m, msl.DefaultOptions())
	if err != nil {
		t.Fatalf("msl compile: %v", err)
	}
	return txt, m
}

// tryCompileWGSL is compileWGSL without failing the test (naga may reject or panic).
func tryCompileWGSL(src string) (txt string, ok bool) {
	defer func() {
		if recover() != nil {
			ok = false
		}
	}()
	ast, err := naga.Parse(src)
	if err != nil {
		return "", false
	}
	m, err := naga.LowerWithSource(ast, src)
	if err != nil {
		return "", false
	}
	txt, _, err = msl.Compile(m, msl.DefaultOptions())
	return txt, err == nil
}

type runCfg struct {
	entry  string // WGSL entry name (default "main")
	local  [3]uint32
	groups [3]uint32
	bufs   map[string][]byte // by WGSL variable name
	noTrap bool              // run with TrapMode off
	steps  int
	static bool // tolerate static traps: return them instead of failing
}

type runOut struct {
	bufs map[string][]byte
	res  xrt.Result
	err  error
	msl  string
	prog *Program
}

// runWGSL compiles src with naga, parses the MSL with mslx and runs it.
func runWGSL(t testing.TB, src string, cfg runCfg) runOut {
	t.Helper()
	txt, m := compileWGSL(t, src)
	out := runOut{msl: txt, bufs: map[string][]byte{}}
	p, err := Parse(txt)
	if err != nil {
		t.Fatalf("mslx.Parse: %v\n%s", err, txt)
	}
	out.prog = p
	if tr := p.StaticTraps(); len(tr) > 0 && cfg.static {
		out.err = tr[0]
		return out
	}
	if tr := p.StaticTraps(); len(tr) > 0 {
		for _, x := range tr {
			t.Errorf("static trap: %v", x)
		}
		t.Fatalf("static traps on naga output:\n%s", txt)
	}
	entry := cfg.entry
	if entry == "" {
		entry = "main"
	}
	mslEntry := ""
	for _, e := range p.Entries() {
		if e.Name == entry || e.Name == entry+"_" {
			mslEntry = e.Name
		}
	}
	if mslEntry == "" {
		t.Fatalf("entry %s not found in %v", entry, p.Entries())
	}
	if cfg.local != [3]uint32{} {
		p.SetLocalSize(mslEntry, cfg.local)
	}
	bufs := xrt.Buffers{}
	byName := map[string]xrt.Slot{}
	var sizes *Resource
	for _, r := range p.EntryResources(mslEntry) {
		r := r
		if r.TypeName == "_mslBufferSizes" {
			sizes = &r
			continue
		}
		name := strings.TrimSuffix(r.Name, "_")
		data, ok := cfg.bufs[r.Name]
		if !ok {
			data, ok = cfg.bufs[name]
			if !ok {
				t.Fatalf("no test data for resource %q", r.Name)
			}
		} else {
			name = r.Name
		}
		cp := append([]byte(nil), data...)
		bufs[r.Slot] = cp
		byName[name] = r.Slot
		out.bufs[name] = cp
	}
	if sizes != nil {
		lay := p.BufferSizesLayout("_mslBufferSizes")
		n := 0
		for _, l := range lay {
			if l.Offset+4 > n {
				n = l.Offset + 4
			}
		}
		sb := make([]byte, n)
		for _, l := range lay {
			if l.Index >= len(m.GlobalVariables) {
				t.Fatalf("size%d: no such global", l.Index)
			}
			gname := m.GlobalVariables[l.Index].Name
			slot, ok := byName[gname]
			if !ok {
				continue // the global is not used by this entry point
			}
			binary.LittleEndian.PutUint32(sb[l.Offset:], uint32(len(bufs[slot])))
		}
		bufs[sizes.Slot] = sb
	}
	opt := xrt.Options{Dispatch: xrt.Dispatch{NumGroups: cfg.groups}, TrapMode: !cfg.noTrap, MaxSteps: cfg.steps}
	out.res, out.err = p.Run(mslEntry, bufs, opt)
	return out
}

// ---- byte helpers

func u32s(vs ...uint32) []byte {
	b := make([]byte, 4*len(vs))
	for i, v := range vs {
		binary.LittleEndian.PutUint32(b[4*i:], v)
	}
	return b
}
func i32s(vs ...int32) []byte {
	b := make([]byte, 4*len(vs))
	for i, v := range vs {
		binary.LittleEndian.PutUint32(b[4*i:], uint32(v))
	}
	return b
}
func f32s(vs ...float32) []byte {
	b := make([]byte, 4*len(vs))
	for i, v := range vs {
		binary.LittleEndian.PutUint32(b[4*i:], math.Float32bits(v))
	}
	return b
}
func zeros(n int) []byte { return make([]byte, n) }

func getU32s(b []byte) []uint32 {
	out := make([]uint32, len(b)/4)
	for i := range out {
		out[i] = binary.LittleEndian.Uint32(b[4*i:])
	}
	return out
}
func getI32s(b []byte) []int32 {
	out := make([]int32, len(b)/4)
	for i := range out {
		out[i] = int32(binary.LittleEndian.Uint32(b[4*i:]))
	}
	return out
}
func getF32s(b []byte) []float32 {
	out := make([]float32, len(b)/4)
	for i := range out {
		out[i] = math.Float32frombits(binary.LittleEndian.Uint32(b[4*i:]))
	}
	return out
}

func wantNoTraps(t testing.TB, o runOut) {
	t.Helper()
	if o.err != nil {
		t.Fatalf("run: %v\n%s", o.err, o.msl)
	}
	for _, tr := range o.res.Traps {
		t.Errorf("unexpected trap: %v", tr)
	}
	if len(o.res.Traps) > 0 {
		t.Logf("msl:\n%s", o.msl)
	}
}

func eqU32(t testing.TB, o runOut, name string, want ...uint32) {
	t.Helper()
	got := getU32s(o.bufs[name])
	if fmt.Sprint(got) != fmt.Sprint(want) {
		t.Errorf("%s:\n got  %v\n want %v\nmsl:\n%s", name, got, want, o.msl)
	}
}
func eqI32(t testing.TB, o runOut, name string, want ...int32) {
	t.Helper()
	got := getI32s(o.bufs[name])
	if fmt.Sprint(got) != fmt.Sprint(want) {
		t.Errorf("%s:\n got  %v\n want %v\nmsl:\n%s", name, got, want, o.msl)
	}
}
func eqF32(t testing.TB, o runOut, name string, want ...float32) {
	t.Helper()
	got := getF32s(o.bufs[name])
	ok := len(got) == len(want)
	for i := 0; ok && i < len(got); i++ {
		if math.Float32bits(got[i]) != math.Float32bits(want[i]) && !(got[i] != got[i] && want[i] != want[i]) {
			ok = false
		}
	}
	if !ok {
		t.Errorf("%s:\n got  %v\n want %v\nmsl:\n%s", name, got, want, o.msl)
	}
}
