package mslx

import (
	"fmt"

	"verif/internal/xrt"
)

type machine struct {
	prog    *Program
	opt     xrt.Options
	res     *xrt.Result
	budget  int
	globals map[*VarDecl]*region
	seen    map[string]bool
}

type wgState struct {
	vars map[*VarDecl]*region
}

type inv struct {
	m     *machine
	wg    *wgState
	ids   map[string][3]uint32
	depth int
	co    *coro
}

type binding struct {
	ref Ref
	ptr *Ref
}

type frame struct {
	fn    *FuncDecl
	slots []binding
	ret   Value
}

type ctl int

const (
	ctlNone ctl = iota
	ctlBreak
	ctlContinue
	ctlReturn
)

const maxTraps = 256

func (m *machine) trap(kind xrt.TrapKind, format string, a ...interface{}) {
	if !m.opt.TrapMode {
		return
	}
	d := fmt.Sprintf(format, a...)
	key := string(kind) + "|" + d
	if m.seen[key] || len(m.res.Traps) >= maxTraps {
		return
	}
	m.seen[key] = true
	m.res.Traps = append(m.res.Traps, &xrt.Trap{Kind: kind, Detail: d})
}

func (m *machine) step() {
	m.res.Steps++
	if m.res.Steps > m.budget {
		panic(bail{&xrt.Unsupported{What: "step budget"}})
	}
}

func (iv *inv) unsupported(line int, format string, a ...interface{}) {
	panic(bail{unsupportedf("line %d: %s", line, fmt.Sprintf(format, a...))})
}

func (iv *inv) where(f *frame, line int) string {
	return fmt.Sprintf("function %s, line %d", f.fn.Name, line)
}

// ---------------------------------------------------------------------------
// memory

// decodeValue reads a value of type t from raw bytes (src may be shorter than needed:
// missing bytes read as zero).
func decodeValue(src []byte, srcP []bool, off int, t *Type) Value {
	switch {
	case t.isNumeric() || t.Kind == KEnum || t.Kind == KAtomic:
		st := t.scalarOf()
		if t.Kind == KAtomic {
			st = t.Elem
		}
		offs := leafOffsets(t)
		v := Value{T: t.unpacked(), S: make([]Scalar, len(offs))}
		if t.Kind == KAtomic {
			v.T = t.Elem
		}
		sz := st.size
		if t.Kind == KEnum {
			sz = 4
		}
		var tmp [4]byte
		for i, o := range offs {
			a := off + o
			if a < 0 || a+sz > len(src) {
				continue
			}
			copy(tmp[:], src[a:a+sz])
			if t.Kind == KEnum {
				v.S[i].U = decodeScalar(tUint, tmp[:])
			} else {
				v.S[i].U = decodeScalar(st, tmp[:])
			}
			if srcP != nil {
				for k := 0; k < sz; k++ {
					if srcP[a+k] {
						v.S[i].P = true
					}
				}
			}
		}
		return v
	case t.Kind == KStruct || t.Kind == KArray:
		n := t.sizeOf()
		v := Value{T: t, B: make([]byte, n)}
		if off >= 0 && off < len(src) {
			copy(v.B, src[off:min(off+n, len(src))])
		}
		if srcP != nil {
			v.BP = make([]bool, n)
			if off >= 0 && off < len(srcP) {
				copy(v.BP, srcP[off:min(off+n, len(srcP))])
			}
			any := false
			for _, p := range v.BP {
				if p {
					any = true
					break
				}
			}
			if !any {
				v.BP = nil
			}
		}
		return v
	}
	panic(bail{unsupportedf("load of type %s", t)})
}

// encodeValue writes v (already of type t) into dst at off. dstP may be nil.
func encodeValue(dst []byte, dstP []bool, off int, t *Type, v Value) {
	switch {
	case t.isNumeric() || t.Kind == KEnum || t.Kind == KAtomic:
		st := t.scalarOf()
		if t.Kind == KAtomic {
			st = t.Elem
		}
		if t.Kind == KEnum {
			st = tUint
		}
		offs := leafOffsets(t)
		for i, o := range offs {
			a := off + o
			if a < 0 || a+st.size > len(dst) || i >= len(v.S) {
				continue
			}
			encodeScalar(st, dst[a:a+st.size], v.S[i].U)
			if dstP != nil {
				for k := 0; k < st.size; k++ {
					dstP[a+k] = v.S[i].P
				}
			}
		}
	case t.Kind == KStruct || t.Kind == KArray:
		n := t.sizeOf()
		if off < 0 || off >= len(dst) {
			return
		}
		end := min(off+n, len(dst))
		copy(dst[off:end], v.B)
		if dstP != nil {
			for i := off; i < end; i++ {
				dstP[i] = v.BP != nil && v.BP[i-off]
			}
		}
	default:
		panic(bail{unsupportedf("store of type %s", t)})
	}
}

// poisonLeaves reports whether any non-padding scalar of an aggregate value is poison.
func poisonLeaves(t *Type, bp []bool, off int) bool {
	if bp == nil {
		return false
	}
	switch t.Kind {
	case KStruct:
		for _, f := range t.Fields {
			if poisonLeaves(f.T, bp, off+f.Offset) {
				return true
			}
		}
		return false
	case KArray:
		if t.Elem.Kind == KChar || t.Elem.Kind == KUchar {
			return false // padding members
		}
		es := t.Elem.sizeOf()
		for i := 0; i < t.N; i++ {
			if poisonLeaves(t.Elem, bp, off+i*es) {
				return true
			}
		}
		return false
	case KChar, KUchar:
		return false
	}
	if t.isNumeric() || t.Kind == KAtomic {
		st := t.scalarOf()
		if t.Kind == KAtomic {
			st = t.Elem
		}
		for _, o := range leafOffsets(t) {
			for k := 0; k < st.size; k++ {
				if off+o+k < len(bp) && bp[off+o+k] {
					return true
				}
			}
		}
	}
	return false
}

func (iv *inv) load(f *frame, r Ref, line int) Value {
	if r.swz != nil {
		base := r
		base.swz = nil
		bv := iv.load(f, base, line)
		out := Value{T: vecOf(r.t.Elem, len(r.swz)), S: make([]Scalar, len(r.swz))}
		for i, k := range r.swz {
			out.S[i] = bv.S[k]
		}
		return out
	}
	t := r.t
	if t.Kind == KAtomic {
		iv.unsupported(line, "plain read of an atomic object")
	}
	if t.Kind == KPtr {
		iv.unsupported(line, "pointer stored in memory")
	}
	n := t.sizeOf()
	if r.off < 0 || r.off+n > len(r.reg.data) {
		iv.m.trap(xrt.TrapOOB, "%s: read of %d bytes at offset %d of %s %q (%d bytes)", iv.where(f, line), n, r.off, r.reg.space, r.reg.name, len(r.reg.data))
	}
	return decodeValue(r.reg.data, r.reg.poison, r.off, t)
}

func (iv *inv) store(f *frame, r Ref, v Value, line int) {
	if r.swz != nil {
		base := r
		base.swz = nil
		es := r.t.Elem.size
		for i, k := range r.swz {
			comp := Ref{reg: r.reg, off: r.off + k*es, t: r.t.Elem, oob: r.oob}
			iv.store(f, comp, Value{T: r.t.Elem, S: []Scalar{v.S[i]}}, line)
		}
		return
	}
	t := r.t
	if t.Kind == KAtomic {
		iv.unsupported(line, "plain write of an atomic object")
	}
	if r.oob {
		return // out-of-range location: the write is skipped (trap already recorded)
	}
	n := t.sizeOf()
	if r.off < 0 || r.off+n > len(r.reg.data) {
		iv.m.trap(xrt.TrapOOB, "%s: write of %d bytes at offset %d of %s %q (%d bytes)", iv.where(f, line), n, r.off, r.reg.space, r.reg.name, len(r.reg.data))
		return
	}
	if r.reg.readonly {
		iv.m.trap(xrt.TrapOther, "%s: write to read-only %s object %q", iv.where(f, line), r.reg.space, r.reg.name)
		return
	}
	if r.reg.isBuffer {
		poisoned := false
		if v.S != nil {
			poisoned = v.anyPoison()
		} else {
			poisoned = poisonLeaves(t, v.BP, 0)
		}
		if poisoned {
			iv.m.trap(xrt.TrapPoison, "%s: indeterminate (uninitialised) value stored to buffer %q at offset %d", iv.where(f, line), r.reg.name, r.off)
		}
		encodeValue(r.reg.data, nil, r.off, t, v)
		return
	}
	encodeValue(r.reg.data, r.reg.poison, r.off, t, v)
}

// usePoison reports a poison scalar used where the value matters.
func (iv *inv) usePoison(f *frame, v Value, what string, line int) {
	if v.anyPoison() {
		iv.m.trap(xrt.TrapPoison, "%s: indeterminate (uninitialised) value used as %s", iv.where(f, line), what)
	}
}

// ---------------------------------------------------------------------------
// statements

func (iv *inv) cov(k string) { iv.m.res.Cov[k]++ }

func (iv *inv) execBlock(f *frame, list []Stmt) ctl {
	for _, s := range list {
		if c := iv.exec(f, s); c != ctlNone {
			return c
		}
	}
	return ctlNone
}

func (iv *inv) truth(f *frame, e Expr, what string) bool {
	v := iv.eval(f, e)
	iv.usePoison(f, v, what, e.base().line)
	return iv.toBool(v)
}

func (iv *inv) toBool(v Value) bool {
	if len(v.S) != 1 {
		panic(bail{unsupportedf("condition of type %s", v.T)})
	}
	s := v.S[0]
	switch v.T.Kind {
	case KFloat:
		return f32(s) != 0
	case KHalf:
		return s.U&0x7fff != 0
	}
	return s.U != 0
}

func (iv *inv) exec(f *frame, s Stmt) ctl {
	iv.m.step()
	switch s := s.(type) {
	case *BlockStmt:
		return iv.execBlock(f, s.List)
	case *EmptyStmt:
		return ctlNone
	case *DeclStmt:
		iv.cov("stmt.decl")
		for _, v := range s.Vars {
			iv.declLocal(f, v)
		}
		return ctlNone
	case *ExprStmt:
		iv.cov("stmt.expr")
		iv.evalDiscard(f, s.X)
		return ctlNone
	case *IfStmt:
		iv.cov("stmt.if")
		if iv.truth(f, s.Cond, "an if condition") {
			return iv.exec(f, s.Then)
		} else if s.Else != nil {
			return iv.exec(f, s.Else)
		}
		return ctlNone
	case *WhileStmt:
		iv.cov("stmt.while")
		for {
			iv.m.step()
			if !iv.truth(f, s.Cond, "a loop condition") {
				return ctlNone
			}
			switch iv.exec(f, s.Body) {
			case ctlBreak:
				return ctlNone
			case ctlReturn:
				return ctlReturn
			}
		}
	case *DoStmt:
		iv.cov("stmt.do")
		for {
			iv.m.step()
			switch iv.exec(f, s.Body) {
			case ctlBreak:
				return ctlNone
			case ctlReturn:
				return ctlReturn
			}
			if !iv.truth(f, s.Cond, "a loop condition") {
				return ctlNone
			}
		}
	case *ForStmt:
		iv.cov("stmt.for")
		if s.Init != nil {
			iv.exec(f, s.Init)
		}
		for {
			iv.m.step()
			if s.Cond != nil && !iv.truth(f, s.Cond, "a loop condition") {
				return ctlNone
			}
			switch iv.exec(f, s.Body) {
			case ctlBreak:
				return ctlNone
			case ctlReturn:
				return ctlReturn
			}
			if s.Post != nil {
				iv.evalDiscard(f, s.Post)
			}
		}
	case *SwitchStmt:
		iv.cov("stmt.switch")
		tv := iv.eval(f, s.Tag)
		iv.usePoison(f, tv, "a switch selector", s.line)
		tag := tv.S[0].U
		start := -1
		def := -1
		for i, x := range s.Body {
			if cl, ok := x.(*CaseLabel); ok {
				if cl.Default {
					def = i
				} else if cl.val == tag {
					start = i
					break
				}
			}
		}
		if start < 0 {
			start = def
		}
		if start < 0 {
			return ctlNone
		}
		for _, x := range s.Body[start:] {
			if _, ok := x.(*CaseLabel); ok {
				continue
			}
			switch iv.exec(f, x) {
			case ctlBreak:
				return ctlNone
			case ctlContinue:
				return ctlContinue
			case ctlReturn:
				return ctlReturn
			}
		}
		return ctlNone
	case *BreakStmt:
		iv.cov("stmt.break")
		return ctlBreak
	case *ContinueStmt:
		iv.cov("stmt.continue")
		return ctlContinue
	case *ReturnStmt:
		iv.cov("stmt.return")
		if s.X != nil {
			if f.fn.Ret.Kind == KVoid {
				iv.evalDiscard(f, s.X)
			} else {
				f.ret = iv.evalInit(f, f.fn.Ret, s.X)
			}
		}
		return ctlReturn
	}
	iv.unsupported(s.stmtLine(), "statement %T", s)
	return ctlNone
}

func (iv *inv) declLocal(f *frame, v *VarDecl) {
	t := v.Ty
	switch t.Kind {
	case KRef:
		f.slots[v.slot] = binding{ref: iv.lval(f, v.Init)}
		return
	case KPtr:
		if v.Init == nil {
			f.slots[v.slot] = binding{}
			return
		}
		pv := iv.eval(f, v.Init)
		f.slots[v.slot] = binding{ptr: pv.Ptr}
		return
	}
	if v.Space == "threadgroup" {
		reg := iv.wg.vars[v]
		if reg == nil {
			reg = newRegion(v.Name, "threadgroup", t, iv.m.opt.TrapMode)
			iv.wg.vars[v] = reg
		}
		f.slots[v.slot] = binding{ref: Ref{reg: reg, t: t}}
		return
	}
	reg := newRegion(v.Name, "thread", t, v.Init == nil && iv.m.opt.TrapMode)
	r := Ref{reg: reg, t: t}
	if v.Init != nil {
		val := iv.evalInit(f, t, v.Init)
		iv.store(f, r, val, v.line)
	}
	f.slots[v.slot] = binding{ref: r}
}

// ---------------------------------------------------------------------------
// calls

func (iv *inv) callUser(f *frame, fn *FuncDecl, x *CallExpr) Value {
	if fn.unsupported != nil {
		panic(bail{fn.unsupported})
	}
	if fn.Body == nil {
		iv.unsupported(x.line, "function %s has no body", fn.Name)
	}
	nf := &frame{fn: fn, slots: make([]binding, fn.nslots)}
	for i, pv := range fn.Params {
		a := x.Args[i]
		pt := pv.Ty
		switch pt.Kind {
		case KRef:
			ab := a.base()
			if _, isList := a.(*InitListExpr); !isList && ab.LV && sameType(ab.T, pt.Elem) {
				nf.slots[pv.slot] = binding{ref: iv.lval(f, a)}
			} else {
				// const reference bound to a temporary
				val := iv.evalInit(f, pt.Elem, a)
				reg := newRegion(pv.Name, "thread", pt.Elem, false)
				r := Ref{reg: reg, t: pt.Elem}
				iv.store(f, r, val, x.line)
				nf.slots[pv.slot] = binding{ref: r}
			}
		case KPtr:
			pv2 := iv.eval(f, a)
			nf.slots[pv.slot] = binding{ptr: pv2.Ptr}
		default:
			val := iv.evalInit(f, pt, a)
			reg := newRegion(pv.Name, "thread", pt, false)
			r := Ref{reg: reg, t: pt}
			iv.store(f, r, val, x.line)
			nf.slots[pv.slot] = binding{ref: r}
		}
	}
	return iv.runFrame(nf, x.line)
}

func (iv *inv) runFrame(nf *frame, line int) Value {
	iv.depth++
	if iv.depth > 128 {
		iv.unsupported(line, "call depth exceeds 128 (recursion?)")
	}
	iv.cov("stmt.call")
	c := iv.execBlock(nf, nf.fn.Body.List)
	iv.depth--
	if nf.fn.Ret.Kind == KVoid {
		return Value{T: tVoid}
	}
	if c != ctlReturn {
		iv.m.trap(xrt.TrapUnreach, "function %s: control reaches the end of a non-void function", nf.fn.Name)
		return zeroValue(nf.fn.Ret)
	}
	return nf.ret
}

// convOp converts a class value with a template conversion operator to type `to`.
func (iv *inv) convOp(st *Type, to *Type, line int) Value {
	inst := iv.m.prog.convOpInst(st, to.unpacked())
	if inst.unsupported != nil {
		panic(bail{inst.unsupported})
	}
	nf := &frame{fn: inst, slots: make([]binding, inst.nslots)}
	return iv.runFrame(nf, line)
}
