package mslx

import (
	"fmt"
	"strconv"
	"strings"
	"unicode"
	"unicode/utf8"
)

type tokKind int

const (
	tkEOF tokKind = iota
	tkIdent
	tkInt
	tkFloat
	tkPunct
)

type token struct {
	kind tokKind
	s    string
	line int

	// integer literals
	ival     uint64
	unsigned bool
	long     bool
	hexoct   bool
	// float literals
	fval   float64
	isHalf bool
}

func (t token) String() string {
	if t.kind == tkEOF {
		return "<eof>"
	}
	return t.s
}

var puncts3 = []string{"<<=", ">>=", "..."}
var puncts2 = []string{"->", "++", "--", "<<", ">>", "<=", ">=", "==", "!=", "&&", "||", "+=", "-=", "*=", "/=", "%=", "&=", "|=", "^=", "::"}

// lex splits the source into tokens. A plain error is returned for text that no
// C++ lexer would accept; *xrtUnsupported for preprocessor use outside the subset.
func lex(src string) ([]token, error) {
	var toks []token
	line := 1
	i := 0
	n := len(src)
	atLineStart := true
	for i < n {
		c := src[i]
		switch {
		case c == '\n':
			line++
			i++
			atLineStart = true
			continue
		case c == ' ' || c == '\t' || c == '\r' || c == '\f' || c == '\v':
			i++
			continue
		case c == '/' && i+1 < n && src[i+1] == '/':
			for i < n && src[i] != '\n' {
				i++
			}
			continue
		case c == '/' && i+1 < n && src[i+1] == '*':
			j := strings.Index(src[i+2:], "*/")
			if j < 0 {
				return nil, fmt.Errorf("line %d: unterminated comment", line)
			}
			line += strings.Count(src[i:i+2+j+2], "\n")
			i += 2 + j + 2
			continue
		case c == '#' && atLineStart:
			j := i
			for j < n && src[j] != '\n' {
				j++
			}
			dir := strings.TrimSpace(src[i+1 : j])
			if !strings.HasPrefix(dir, "include") && !strings.HasPrefix(dir, "pragma") {
				return nil, unsupportedf("preprocessor directive #%s (line %d)", dir, line)
			}
			i = j
			continue
		}
		atLineStart = false
		switch {
		case c == '_' || (c >= 'a' && c <= 'z') || (c >= 'A' && c <= 'Z') || c >= 0x80:
			j := i
			for j < n {
				r, sz := utf8.DecodeRuneInString(src[j:])
				if r == '_' || (r < 0x80 && (unicode.IsLetter(r) || unicode.IsDigit(r))) || (r >= 0x80 && r != utf8.RuneError && (unicode.IsLetter(r) || unicode.IsDigit(r) || unicode.IsMark(r))) {
					j += sz
					continue
				}
				break
			}
			if j == i {
				return nil, fmt.Errorf("line %d: invalid character %q", line, src[i])
			}
			toks = append(toks, token{kind: tkIdent, s: src[i:j], line: line})
			i = j
		case c >= '0' && c <= '9', c == '.' && i+1 < n && src[i+1] >= '0' && src[i+1] <= '9':
			tk, j, err := lexNumber(src, i, line)
			if err != nil {
				return nil, err
			}
			toks = append(toks, tk)
			i = j
		case c == '"' || c == '\'':
			return nil, unsupportedf("string/character literal (line %d)", line)
		default:
			matched := false
			for _, p := range puncts3 {
				if strings.HasPrefix(src[i:], p) {
					toks = append(toks, token{kind: tkPunct, s: p, line: line})
					i += 3
					matched = true
					break
				}
			}
			if matched {
				continue
			}
			for _, p := range puncts2 {
				if strings.HasPrefix(src[i:], p) {
					toks = append(toks, token{kind: tkPunct, s: p, line: line})
					i += 2
					matched = true
					break
				}
			}
			if matched {
				continue
			}
			if strings.ContainsRune("+-*/%&|^~!<>=?:;,.()[]{}", rune(c)) {
				toks = append(toks, token{kind: tkPunct, s: string(c), line: line})
				i++
				continue
			}
			return nil, fmt.Errorf("line %d: invalid character %q", line, c)
		}
	}
	toks = append(toks, token{kind: tkEOF, line: line})
	return toks, nil
}

func isHexDigit(c byte) bool {
	return (c >= '0' && c <= '9') || (c >= 'a' && c <= 'f') || (c >= 'A' && c <= 'F')
}

func lexNumber(src string, i, line int) (token, int, error) {
	n := len(src)
	j := i
	isFloat := false
	hex := false
	if src[j] == '0' && j+1 < n && (src[j+1] == 'x' || src[j+1] == 'X') {
		hex = true
		j += 2
		for j < n && isHexDigit(src[j]) {
			j++
		}
		if j < n && (src[j] == '.' || src[j] == 'p' || src[j] == 'P') {
			// hex float
			isFloat = true
			if src[j] == '.' {
				j++
				for j < n && isHexDigit(src[j]) {
					j++
				}
			}
			if j < n && (src[j] == 'p' || src[j] == 'P') {
				j++
				if j < n && (src[j] == '+' || src[j] == '-') {
					j++
				}
				for j < n && src[j] >= '0' && src[j] <= '9' {
					j++
				}
			}
		}
	} else {
		for j < n && src[j] >= '0' && src[j] <= '9' {
			j++
		}
		if j < n && src[j] == '.' {
			isFloat = true
			j++
			for j < n && src[j] >= '0' && src[j] <= '9' {
				j++
			}
		}
		if j < n && (src[j] == 'e' || src[j] == 'E') {
			k := j + 1
			if k < n && (src[k] == '+' || src[k] == '-') {
				k++
			}
			if k < n && src[k] >= '0' && src[k] <= '9' {
				isFloat = true
				for k < n && src[k] >= '0' && src[k] <= '9' {
					k++
				}
				j = k
			}
		}
	}
	body := src[i:j]
	// suffix
	k := j
	for k < n && (src[k] == 'u' || src[k] == 'U' || src[k] == 'l' || src[k] == 'L' || src[k] == 'f' || src[k] == 'F' || src[k] == 'h' || src[k] == 'H') {
		k++
	}
	suffix := strings.ToLower(src[j:k])
	if k < n && (src[k] == '_' || (src[k] >= 'a' && src[k] <= 'z') || (src[k] >= 'A' && src[k] <= 'Z') || (src[k] >= '0' && src[k] <= '9')) {
		return token{}, 0, fmt.Errorf("line %d: malformed numeric literal %q", line, src[i:k+1])
	}
	tk := token{s: src[i:k], line: line}
	if isFloat || (!hex && (suffix == "f" || suffix == "h")) {
		tk.kind = tkFloat
		switch suffix {
		case "", "f":
		case "h":
			tk.isHalf = true
		default:
			return token{}, 0, fmt.Errorf("line %d: bad float literal suffix %q", line, src[i:k])
		}
		// Metal has no double: an unsuffixed literal is a float. Round the decimal once to binary32.
		f, err := strconv.ParseFloat(body, 32)
		if err != nil {
			if ne, ok := err.(*strconv.NumError); !ok || ne.Err != strconv.ErrRange {
				return token{}, 0, fmt.Errorf("line %d: bad float literal %q", line, body)
			}
		}
		tk.fval = f
		return tk, k, nil
	}
	tk.kind = tkInt
	switch suffix {
	case "":
	case "u":
		tk.unsigned = true
	case "l", "ll":
		tk.long = true
	case "ul", "lu", "ull", "llu":
		tk.unsigned, tk.long = true, true
	default:
		return token{}, 0, fmt.Errorf("line %d: bad integer literal suffix %q", line, src[i:k])
	}
	var v uint64
	var err error
	switch {
	case hex:
		tk.hexoct = true
		v, err = strconv.ParseUint(body[2:], 16, 64)
	case len(body) > 1 && body[0] == '0':
		tk.hexoct = true
		v, err = strconv.ParseUint(body[1:], 8, 64)
	default:
		v, err = strconv.ParseUint(body, 10, 64)
	}
	if err != nil {
		return token{}, 0, fmt.Errorf("line %d: bad integer literal %q", line, body)
	}
	tk.ival = v
	return tk, k, nil
}
